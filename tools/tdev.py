#!/usr/bin/env python3
# Development aid: run generated template cases through the real engine and the Coq model, show where they differ.
import sys, os, json, random, tempfile, shutil
V = os.path.dirname(os.path.dirname(os.path.abspath(__file__)))
sys.path.insert(0, os.path.join(V, "gen"))
import common, tmpl, tgen
from common import cq_bytes, cq_list, cq_bool, cq_nat


def emit_caseT(nodes, data, debug, obs, funcs=(b"Math", b"JSON", b"Object", b"stripTags", b"parseInt")):
    cls = {"ok": 0, "exec_panic": 1}.get(obs.get("res", {}).get("class", ""), 2)
    return (b"{| t_nodes := " + cq_list([tmpl.pug_coq(n) for n in nodes]) + b"; t_data := " + tmpl.data_coq(data)
            + b"; t_debug := " + cq_bool(debug) + b"; t_funcs := " + cq_list([cq_bytes(f) for f in funcs])
            + b"; go_loaded := " + cq_bool(obs["load"] == "ok") + b"; go_code := " + cq_bytes(common.unhx(obs.get("code", "")))
            + b"; go_class := " + cq_nat(cls) + b"; go_out := " + cq_bytes(common.unhx(obs.get("res", {}).get("out", ""))) + b" |}")


def main():
    seed = int(sys.argv[1]) if len(sys.argv) > 1 else 1
    n = int(sys.argv[2]) if len(sys.argv) > 2 else 100
    mode = sys.argv[3] if len(sys.argv) > 3 else "expr"
    rng = random.Random(seed)
    cases = []
    for i in range(n):
        g = tgen.TGen(rng, hostile=0.2 if mode == "esc" else 0.0)
        data, env = g.data()
        if mode in ("expr", "esc"):
            nodes = [g.buffered(env, esc=True)]
        elif mode == "ctl":
            kinds = {'text': 3, 'buf': 3, 'assign': 2, 'tag': 2, 'if': 2, 'case': 1, 'each': 2, 'while': 1, 'void': 1}
            nodes = g.nodes(env, rng.choice([2, 3, 4]), 3, kinds)
        elif mode == "static":
            kinds = {'text': 3, 'tag': 3, 'void': 1}
            nodes = g.nodes(env, rng.choice([2, 3, 4]), 4, kinds)
        cases.append((nodes, data, mode == "debug"))
    tmp = tempfile.mkdtemp(prefix="pv_tdev_")
    try:
        common.coq_make(["Run/Judge_T.vo"])
        binary = common.build_harness(tmp)
        hc = [tmpl.tmpl_case(nd, d, debug=dbg) for nd, d, dbg in cases]
        obss = common.run_harness(binary, "T", hc)
        terms = [emit_caseT(nd, d, dbg, o) for (nd, d, dbg), o in zip(cases, obss)]
        codes = common.judge_in_coq("Run.Judge_T", terms, tmp, judge_fn="judge_seams")
        hist = {}
        for c in codes:
            hist[c] = hist.get(c, 0) + 1
        print("verdicts (10*text+out):", hist)
        shown = 0
        for i, c in enumerate(codes):
            if c not in (0,) and shown < int(os.environ.get("SHOW", "6")):
                if c in (33, 3, 30) and os.environ.get("SHOWUNMOD") is None:
                    continue
                shown += 1
                nd, d, dbg = cases[i]
                print("=" * 100)
                print("case", i, "code", c)
                print("pug:", json.dumps(json.loads(tmpl.pug_file(nd).decode('utf-8', 'replace')))[:1500])
                print("data:", tmpl.data_plain(d))
                o = obss[i]
                print("go load:", o["load"], o.get("load_msg", "")[:300])
                print("go code:", common.unhx(o.get("code", "")))
                print("go res :", o.get("res", {}).get("class"), common.unhx(o.get("res", {}).get("out", "")), o.get("res", {}).get("err", "")[:300])
                print("model  :", common.coq_eval("Run.Judge_T", terms[i], "(match model_toks c with Some ts => Some (string_of_list_ascii (show_toks ts)) | None => None end, match model_outcome c with OOk o => (0, string_of_list_ascii o) | OPanic => (1, EmptyString) | OUnmod => (3, EmptyString) | OFuel => (4, EmptyString) end)", tmp)[-1500:])
    finally:
        shutil.rmtree(tmp, ignore_errors=True)


main()
