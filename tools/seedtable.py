#!/usr/bin/env python3
# Regenerates the table of section 13 of DESIGN.md from seeded/*/meta.json.
import json, os, re
V = os.path.dirname(os.path.dirname(os.path.abspath(__file__)))
rows = []
for d in sorted(os.listdir(os.path.join(V, "seeded"))):
    mp = os.path.join(V, "seeded", d, "meta.json")
    if not os.path.exists(mp):
        continue
    m = json.load(open(mp))
    v = m.get("verification", {})
    first = (m.get("verification_history") or [{}])[0]
    firstc = first.get("caught", v.get("caught"))
    chk = v.get("checks", {})
    line = ""
    for c, r in chk.items():
        ls = [l for l in r.get("lines", []) if l.startswith(("VIOLATION", "OK"))]
        line = (ls[-1] if ls else "rc=%s" % r.get("rc"))
        line = re.sub(r"replay=\S+/", "replay=", line)[:70]
    what = (m.get("summary") or "")[:110].replace("|", "/").replace("\n", " ")
    rows.append("| %s | %s | %s | %s | %s |" % (d, what, "yes" if firstc else "no", "yes" if v.get("caught") else "NO", line))
tab = "| seed | change | caught at first | caught now | last check line |\n|---|---|---|---|---|\n" + "\n".join(rows)
p = os.path.join(V, "DESIGN.md")
s = open(p).read()
if "SEEDTABLE" in s:
    s = s.replace("SEEDTABLE", "<!-- seedtable -->\n" + tab + "\n<!-- /seedtable -->")
else:
    s = re.sub(r"<!-- seedtable -->.*?<!-- /seedtable -->", "<!-- seedtable -->\n" + tab + "\n<!-- /seedtable -->", s, flags=re.S)
open(p, "w").write(s)
print(len(rows), "rows")
