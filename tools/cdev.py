#!/usr/bin/env python3
# Development aid: cdev.py Cxx [seed] [n] — generate cases of a property, run harness + judge, show the histogram,
# per-shard judge time and the non-agreeing cases with the model's and the spec's view (prop.model_expr()).
import sys, os, json, random, tempfile, shutil, time, importlib
V = os.path.dirname(os.path.dirname(os.path.abspath(__file__)))
sys.path.insert(0, os.path.join(V, "gen"))
import common


def main():
    pid = sys.argv[1]
    seed = int(sys.argv[2]) if len(sys.argv) > 2 else 1
    n = int(sys.argv[3]) if len(sys.argv) > 3 else 60
    tier = os.environ.get("VERIF_TIER", "quick")
    prop = importlib.import_module(pid.lower()).PROP
    rng = random.Random(seed)
    cases = (prop.corpus() if os.environ.get("CORPUS") else []) + prop.generate(rng, n, tier)
    tmp = tempfile.mkdtemp(prefix="pv_cdev_")
    try:
        common.coq_make([prop.judge_module.replace(".", "/") + ".vo"])
        binary = common.build_harness(tmp, race=prop.needs_race)
        t0 = time.time()
        obss = prop.run(binary, cases, tmp, tier)
        t1 = time.time()
        terms = [prop.emit(c, o) for c, o in zip(cases, obss)]
        codes = common.judge_in_coq(prop.judge_module, terms, tmp, shard=prop.shard)
        t2 = time.time()
        hist = {}
        for c in codes:
            hist[c] = hist.get(c, 0) + 1
        print("harness %.1fs judge %.1fs verdicts %s" % (t1 - t0, t2 - t1, hist))
        show = int(os.environ.get("SHOW", "4"))
        want = os.environ.get("CODES")
        want = set(int(x) for x in want.split(",")) if want else None
        for i, c in enumerate(codes):
            if (c in (1, 2) if want is None else c in want) and show > 0:
                show -= 1
                print("=" * 100)
                print("case", i, "verdict", c)
                print(json.dumps(prop.sample(cases[i], obss[i]), indent=1)[:3000])
                if prop.model_expr():
                    print("model:", common.coq_eval(prop.judge_module, terms[i], prop.model_expr(), tmp)[-2500:])
                if os.environ.get("SAVE"):
                    with open(os.environ["SAVE"], "w") as f:
                        json.dump({"case": cases[i]}, f)
    finally:
        shutil.rmtree(tmp, ignore_errors=True)


main()
