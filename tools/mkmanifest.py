#!/usr/bin/env python3
# Regenerates /verif/MANIFEST.json from the table below (one entry per claimed property).
import json, os
V = os.path.dirname(os.path.dirname(os.path.abspath(__file__)))
BASE_NOTE = ("Trusted: Coq 8.16.1 kernel + VM (vm_compute), no native_compute, no extraction; hand-written Gallina model "
             "(modelled, not verified, code) tied to /repo's working tree by the correspondence run; Go harness, Python emitters. ")
CLAIMS = {
 "C17": ("Theorems over the model of RenderPartials for every template name, request list and every Render function (Section variable): key set exact, content = Render alone, error atomic, order/duplicates irrelevant. Correspondence: RenderPartials and Render run on generated template trees, observations judged inside Coq.",
         "Engine.Render itself is a parameter of the theorems (C07/C10 cover it).", "6/C17"),
 "C18": ("Theorems for ALL rationals / all non-empty argument lists in the int-representable domain: Min/Max/Ceil/Trunc/Round/parseInt models equal the ECMAScript definitions; refutations of the unrepaired Max and round. Correspondence: both call paths (exported methods; templates through Engine.Render with literal/var/data arguments).",
         "Recorded assumptions: n±0.5 exact below 2^52, math.Ceil/Floor/Trunc exact, int is 64-bit; decimal literal -> nearest double checked per case.", "6/C18"),
 "C16": ("Theorems by induction over ALL event sequences of the Startup state machine (any number of processes, completion orders, failing subsets, probes anywhere): 200 sound, 425 otherwise, monotone, live, first error delivered exactly once; acceptor soundness. Correspondence: scripted goroutine histories against pugjs.Startup + controllers.Ready, traces accepted/rejected in Coq.",
         "errgroup.Wait's first-error-in-completion-order and Go channel semantics are recorded assumptions; 'eventually 200' is observed by polling (<=2 s), never a theorem.", "6/C16"),
 "C09": ("Theorems by induction over ALL accepted event traces for ALL limits: bound, no leak (inflight = entered-not-left; refill of cap fresh renders accepted after quiescence), every exit releases, cancel takes no slot, disabled never waits, progress. Correspondence: generated histories (start, release ok/not_found/func_error/panic, cancel, probe) on a real Engine with gate() template functions; observed traces judged by the Coq acceptor and an independent oracle.",
         "Go channel/select/defer semantics and scheduling are assumed; timing bounds (500 ms cancel, 200 ms settle) are observed only.", "6/C09"),
 "C19": ("Theorems for ALL request byte strings, trees, whitelists and Origin values: clean is rooted without '..', the resolved path is inside frontend/dist, a directory is never listed or answered with content, a File answer carries exactly the bytes of the regular file at the resolved path, CORS header = whitelist-membership spec (and refutation of the unrepaired '!'-joined test). Correspondence: real handler obtained through Module.Configure + DefaultMux under httptest over generated trees with canary files outside dist; raw request targets; path.Clean / URL decoding / mux decision compared per request.",
         "Modelled (compared per case, not verified): path.Clean, net/url decoding, ServeMux cleanPath/redirect, http.Dir.Open, serveFile. Outside the model: symlinks, permissions, NAME_MAX, Range/conditional requests.", "6/C19"),
 "C14": ("Theorems for EVERY node forest (whatever html.ParseFragment returns for any byte string) and every well-formed allow-list: output is in the SafeDoc grammar (escaped text, start/end tags of allow-listed elements with only allow-listed attributes and escaped values), every '<' opens an allow-listed tag, empty allow-list => no '<', comments/doctypes contribute nothing, text content round-trips through escaping; soundness and fuel of the executable SafeDoc checker. Correspondence: real StriptagsFunc.Func and html.ParseFragment on generated/mutated fragments; forest dumped to Gallina, model output and checker judged inside Coq; x/net/html Tokenizer as independent oracle on Go's output.",
         "html.ParseFragment/Tokenizer (x/net/html) are outside the model; html.EscapeString modelled as esc6; ToLower ASCII only; a browser is represented by the SafeDoc grammar.", "6/C14"),
 "C01": ("Theorems (all values/integers in range): the operator table maps every core operator to its helper; each helper agrees with the JavaScript operator on same-type operands (add, sub, neg, mul, exact div, concatenation, string+number, < on numbers and strings, equality on numbers/strings/booleans), truthiness = ToBoolean on every scalar, && and || return the operand, printing = ToString. Correspondence: typed random expression trees (depth <= 7) rendered by the real engine, judged inside Coq against the model M (compile + executor) AND the independent ECMA-262 semantics S; an in-domain case where the engine's output differs from S is a violation.",
         "The composition of the per-operator lemmas over arbitrary nesting (C01_compile_eval) is not yet a theorem: it rests on the correspondence run (not_yet_proved). otto parser not modelled here (C15). Listed findings F-C01-a,b,c,e.", "6/C01"),
 "C04": ("Theorems: for EVERY JS expression constructor an escaped buffered code node lowers to static escaped text, a silent statement, null, or an action whose pipeline ends in the escaper (C04_wrap_shape); any action whose pipeline ends in the escaper writes escape(w) whatever data/variables/heap (C04_escaper_output, through the fuelled executor model); declarations write nothing; escape output is in the harmless grammar EscText, has none of < > quote apostrophe, and unescapes to the data (all byte strings); escape distributes over concatenation. Correspondence: templates with string-transparent carriers rendered twice by the real engine (hostile string / fresh marker); oracle on Go's own outputs inside Coq: out_h = replace_all m (escape h) out_m.",
         "The single theorem C04_marker over all transparent contexts is not proved; the oracle checks it per case on the implementation. Repaired: F-C04-a (70a3212), F-C04-b (ae513a8).", "6/C04"),
 "C05": ("For all attribute record lists the model of __attrs renders a concatenation of ' name=\"v\"' items with v in EscText which the reader parses back to exactly those items (C05_grammar, C05_reader); an escaped NUL-free value reads back as the original (C05_value_roundtrip); each name appears at most once in first-occurrence order (C05_collect_closed, C05_once_in_order, C05_rendered_closed); for non-class names the last record decides: false/null/undefined omitted, true -> name=\"name\" (C05_bool_nil); class accumulates its records in source order (C05_class_accumulates). The real engine's output equals the model and satisfies the source-level spec attr_spec (parsed in Coq from Go's own output, and re-read with the x/net/html tokenizer) on every generated case, each rendered in 3 fresh processes.",
         "Source-level C05_spec, the joined-class-text closed form and C05_spread_order are oracle-checked per case, not proved (not_yet_proved). Domain: proper names, NUL-free strings, |n|<10^10, arrays only for class, unescaped only plain string literals (F-C05-d listed), <=1 &attributes block. 7 defects repaired.", "6/C05"),
}
TECH = "Coq proof over hand-written model + differential correspondence check judged in Coq"
props = [json.loads(l)["id"] for l in open(os.path.join(V, "properties.jsonl"))]
checks = []
for pid in props:
    if pid not in CLAIMS:
        continue
    text, note, ref = CLAIMS[pid]
    checks.append({"property_id": pid, "quick_cmd": "./check %s --tier quick" % pid,
                   "thorough_cmd": "./check %s --tier thorough" % pid,
                   "evidence_file": "/verif/evidence/%s.json" % pid,
                   "replay_cmd_template": "./check %s --replay {path}" % pid,
                   "engine": "coq-dev+pugrun",
                   "level_claimed": {"category": "proof", "text": text, "design_ref": "DESIGN.md section " + ref},
                   "level_note": BASE_NOTE + note, "technique": TECH})
hooks_commits = [l.strip() for l in open(os.path.join(V, "MANIFEST.hooks"))] if os.path.exists(os.path.join(V, "MANIFEST.hooks")) else []
man = {"version": 1, "setup_cmd": "./setup.sh",
       "hooks": {"guard": "verif", "enable": "go build -tags verif (harness module replaces flamingo.me/pugtemplate by /repo)",
                 "baseline_off_cmd": "cd /repo && go test -json -vet=off -count=1 -timeout 25m ./...",
                 "source_commits": hooks_commits, "add_only": True},
       "engines": [{"name": "coq-dev", "path": "/verif/coq", "serves_properties": sorted(CLAIMS), "kind_free_text": "Coq 8.16.1 development: models, proofs, property theorems, executable judges"},
                   {"name": "pugrun", "path": "/verif/harness", "serves_properties": sorted(CLAIMS), "kind_free_text": "Go harness running the real code from /repo's working tree (-tags verif)"},
                   {"name": "gen", "path": "/verif/gen", "serves_properties": sorted(CLAIMS), "kind_free_text": "Python generators, Gallina emitters, driver (./check)"}],
       "checks": checks,
       "notes": "See DESIGN.md. KNOWN_FINDINGS.txt lists repaired defects (fixed:) and recorded findings (finding:).",
       "not_applicable": [{"property_id": p, "reason": "check not yet built in this revision (planned, DESIGN.md section 9); not a claim that the technique cannot apply"} for p in props if p not in CLAIMS]}
json.dump(man, open(os.path.join(V, "MANIFEST.json"), "w"), indent=1)
print("claimed:", sorted(CLAIMS))
