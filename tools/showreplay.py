#!/usr/bin/env python3
import json, sys
sys.path.insert(0, '/verif/gen')
import core, tmpl
d = json.load(open(sys.argv[1]))
print(d['what'])
if d.get('case'):
    print(tmpl.pug_file(core.de(d['case']['nodes'])).decode('utf-8', 'replace'))
    print("data:", [tmpl.data_plain(core.de(x)) for x in d['case']['datas']])
o = d.get('observation') or {}
for mode in ('prod', 'debug'):
    if o.get(mode):
        m = o[mode]
        print(mode, m.get('load'), m.get('load_msg', '')[:300])
        print(' code:', bytes.fromhex(m.get('code', '')).decode('utf-8', 'replace'))
        for r in m.get('res') or []:
            print(' res:', r.get('class'), repr(bytes.fromhex(r.get('out', '')).decode('utf-8', 'replace')), r.get('err', '')[:200])
print((d.get('model_says') or '')[-1500:])
for k in ('all_violating_indices', 'drifting_indices', 'log'):
    if d.get(k):
        print(k, str(d[k])[-1500:])
