module verif/extract

go 1.22
