// Tables of Gen/Sigs.v: signatures of the run-time helpers, method tables of
// the template values, literal constants and the HTML escaper table.
//
// Every function here follows the rule of main.go: a construct that no longer
// has exactly the expected shape is an error (the program exits non-zero), never
// a silently shorter table.
package main

import (
	"fmt"
	"go/ast"
	"go/parser"
	"go/token"
	"go/types"
	"os"
	"path/filepath"
	"sort"
	"strconv"
	"strings"
)

// ---------------------------------------------------------------- packages

// pkg is one parsed package directory (non-test files, every build tag).
type pkg struct {
	rel   string // directory relative to the repository root
	fset  *token.FileSet
	files map[string]*ast.File // by file name
	names []string             // sorted file names
}

func parseDir(repo, rel string) (*pkg, error) {
	dir := filepath.Join(repo, rel)
	ents, err := os.ReadDir(dir)
	if err != nil {
		return nil, fmt.Errorf("%s: %w", rel, err)
	}
	p := &pkg{rel: rel, fset: token.NewFileSet(), files: map[string]*ast.File{}}
	for _, e := range ents {
		n := e.Name()
		if e.IsDir() || !strings.HasSuffix(n, ".go") || strings.HasSuffix(n, "_test.go") {
			continue
		}
		f, err := parser.ParseFile(p.fset, filepath.Join(dir, n), nil, parser.SkipObjectResolution)
		if err != nil {
			return nil, fmt.Errorf("%s/%s: %w", rel, n, err)
		}
		p.files[n] = f
		p.names = append(p.names, n)
	}
	sort.Strings(p.names)
	if len(p.names) == 0 {
		return nil, fmt.Errorf("%s: no Go files", rel)
	}
	return p, nil
}

func (p *pkg) file(name string) (*ast.File, error) {
	f := p.files[name]
	if f == nil {
		return nil, fmt.Errorf("%s/%s: file not found", p.rel, name)
	}
	return f, nil
}

// recvString prints the receiver type of a method declaration ("" for a function).
func recvString(fd *ast.FuncDecl) string {
	if fd.Recv == nil || len(fd.Recv.List) != 1 {
		return ""
	}
	return types.ExprString(fd.Recv.List[0].Type)
}

// recvName is the name of the receiver variable ("" when anonymous).
func recvName(fd *ast.FuncDecl) string {
	if fd.Recv == nil || len(fd.Recv.List) != 1 || len(fd.Recv.List[0].Names) != 1 {
		return ""
	}
	return fd.Recv.List[0].Names[0].Name
}

// funcDecl finds the unique declaration of function (recv == "") or method
// name in the package. Declarations in files with a build constraint count
// as well, so a function declared twice under different tags is ambiguous
// and therefore an error.
func (p *pkg) funcDecl(recv, name string) (*ast.FuncDecl, error) {
	var found *ast.FuncDecl
	n := 0
	for _, fn := range p.names {
		for _, d := range p.files[fn].Decls {
			fd, ok := d.(*ast.FuncDecl)
			if !ok || fd.Name.Name != name || recvString(fd) != recv {
				continue
			}
			found = fd
			n++
		}
	}
	what := name
	if recv != "" {
		what = "(" + recv + ")." + name
	}
	if n != 1 {
		return nil, fmt.Errorf("%s: func %s: %d declarations found, want 1", p.rel, what, n)
	}
	if found.Type.TypeParams != nil {
		return nil, fmt.Errorf("%s: func %s has type parameters", p.rel, what)
	}
	return found, nil
}

// ---------------------------------------------------------------- signatures

// gosig is a Go function signature with the types printed as source text.
// For a variadic function the last element of params is the ELEMENT type.
type gosig struct {
	params   []string
	variadic bool
	results  []string
}

func fieldTypes(fl *ast.FieldList, allowEllipsis bool) (ts []string, variadic bool, err error) {
	if fl == nil {
		return nil, false, nil
	}
	for i, f := range fl.List {
		t := f.Type
		if el, ok := t.(*ast.Ellipsis); ok {
			if !allowEllipsis || i != len(fl.List)-1 || len(f.Names) > 1 {
				return nil, false, fmt.Errorf("misplaced ... in a field list")
			}
			variadic = true
			t = el.Elt
		}
		s := types.ExprString(t)
		n := len(f.Names)
		if n == 0 {
			n = 1
		}
		for j := 0; j < n; j++ {
			ts = append(ts, s)
		}
	}
	return ts, variadic, nil
}

func sigOf(ft *ast.FuncType) (gosig, error) {
	var g gosig
	var err error
	if ft.TypeParams != nil {
		return g, fmt.Errorf("type parameters")
	}
	if g.params, g.variadic, err = fieldTypes(ft.Params, true); err != nil {
		return g, err
	}
	if g.results, _, err = fieldTypes(ft.Results, false); err != nil {
		return g, err
	}
	return g, nil
}

func (g gosig) coq() string {
	v := "false"
	if g.variadic {
		v = "true"
	}
	return "(" + coqBytesListInline(g.params) + ", " + v + ", " + coqBytesListInline(g.results) + ")"
}

func coqBytesListInline(items []string) string {
	parts := make([]string, len(items))
	for i, it := range items {
		parts[i] = coqBytes(it)
	}
	return "[" + strings.Join(parts, "; ") + "]"
}

// coqList prints a Gallina list, one element per line.
func coqList(elems []string, indent string) string {
	if len(elems) == 0 {
		return indent + "[]"
	}
	return indent + "[" + strings.Join(elems, ";\n"+indent+" ") + "]"
}

const sigType = "(list bytes * bool * list bytes)"

// ---------------------------------------------------------------- 1. helpers

// funcMapLiteral reads `var name = FuncMap{ "key": value, ... }` and returns
// the keys in source order with the signature of each value. A value must be
// a func literal or the name of a function declared in the same package.
func funcMapLiteral(p *pkg, file, name string) (keys []string, sigs []gosig, err error) {
	f, err := p.file(file)
	if err != nil {
		return nil, nil, err
	}
	where := p.rel + "/" + file + ": " + name
	e, err := packageVar(f, name)
	if err != nil {
		return nil, nil, fmt.Errorf("%s/%s: %w", p.rel, file, err)
	}
	cl, ok := e.(*ast.CompositeLit)
	if !ok {
		return nil, nil, fmt.Errorf("%s is not a composite literal", where)
	}
	if t, ok := cl.Type.(*ast.Ident); !ok || t.Name != "FuncMap" {
		return nil, nil, fmt.Errorf("%s is not a FuncMap literal", where)
	}
	seen := map[string]bool{}
	for _, el := range cl.Elts {
		kv, ok := el.(*ast.KeyValueExpr)
		if !ok {
			return nil, nil, fmt.Errorf("%s: element is not key: value", where)
		}
		k, ok := stringLit(kv.Key)
		if !ok {
			return nil, nil, fmt.Errorf("%s: key is not a string literal", where)
		}
		if seen[k] {
			return nil, nil, fmt.Errorf("%s: duplicate key %q", where, k)
		}
		seen[k] = true
		var ft *ast.FuncType
		switch v := kv.Value.(type) {
		case *ast.FuncLit:
			ft = v.Type
		case *ast.Ident:
			fd, err := p.funcDecl("", v.Name)
			if err != nil {
				return nil, nil, fmt.Errorf("%s[%q]: %w", where, k, err)
			}
			ft = fd.Type
		default:
			return nil, nil, fmt.Errorf("%s[%q]: value is neither a func literal nor the name of a function of the package", where, k)
		}
		g, err := sigOf(ft)
		if err != nil {
			return nil, nil, fmt.Errorf("%s[%q]: %w", where, k, err)
		}
		keys = append(keys, k)
		sigs = append(sigs, g)
	}
	if len(keys) == 0 {
		return nil, nil, fmt.Errorf("%s: empty literal", where)
	}
	return keys, sigs, nil
}

func helperSigs(repo string) (string, error) {
	p, err := parseDir(repo, "pugjs")
	if err != nil {
		return "", err
	}
	var elems []string
	for _, src := range [][2]string{{"runtime.go", "funcmap"}, {"tpl_funcs.go", "builtins"}} {
		keys, sigs, err := funcMapLiteral(p, src[0], src[1])
		if err != nil {
			return "", err
		}
		for i := range keys {
			elems = append(elems, "("+coqBytes(keys[i])+", "+sigs[i].coq()+")")
		}
	}
	var b strings.Builder
	b.WriteString("(* signature = (parameter types, last parameter is variadic, result types); types are printed\n")
	b.WriteString("   as in the source; for a variadic function the last parameter type is the ELEMENT type *)\n")
	b.WriteString("Definition go_sig : Type := " + sigType + ".\n\n")
	b.WriteString("(* pugjs.funcmap (pugjs/runtime.go), then pugjs.builtins (pugjs/tpl_funcs.go), in source order:\n")
	b.WriteString("   key, signature of the func literal or of the named package function it is bound to.\n")
	b.WriteString("   (findFunction: the template's own functions - funcmap, overridden by the engine's\n")
	b.WriteString("   template functions - are looked up before builtins, so the first hit in this list wins) *)\n")
	b.WriteString("Definition helper_sigs : list (bytes * go_sig) :=\n")
	b.WriteString(coqList(elems, "  ") + ".\n")
	return b.String(), nil
}

// ---------------------------------------------------------------- 2. methods

// funcWrap recognises `&Func{fnc: reflect.ValueOf(X)}` and returns X.
func funcWrap(e ast.Expr) (ast.Expr, *ast.CompositeLit, bool) {
	u, ok := e.(*ast.UnaryExpr)
	if !ok || u.Op != token.AND {
		return nil, nil, false
	}
	cl, ok := u.X.(*ast.CompositeLit)
	if !ok {
		return nil, nil, false
	}
	if t, ok := cl.Type.(*ast.Ident); !ok || t.Name != "Func" {
		return nil, nil, false
	}
	if len(cl.Elts) != 1 {
		return nil, nil, false
	}
	kv, ok := cl.Elts[0].(*ast.KeyValueExpr)
	if !ok {
		return nil, nil, false
	}
	if k, ok := kv.Key.(*ast.Ident); !ok || k.Name != "fnc" {
		return nil, nil, false
	}
	call, ok := kv.Value.(*ast.CallExpr)
	if !ok || len(call.Args) != 1 || call.Ellipsis.IsValid() {
		return nil, nil, false
	}
	if types.ExprString(call.Fun) != "reflect.ValueOf" {
		return nil, nil, false
	}
	return call.Args[0], cl, true
}

type methodEntry struct {
	recv, js, goName string
	sig              gosig
}

// memberTable reads `func (x R) Member(name string) Object`: the name
// dispatch is a `switch name { case "a": return &Func{fnc: reflect.ValueOf(x.M)} ... }`
// and/or top-level `if name == "a" { return &Func{fnc: reflect.ValueOf(<func literal or x.M>)} }`.
// Every &Func{...} literal of the body must be accounted for by one of the two
// forms. required: the method must dispatch at least one name.
func memberTable(p *pkg, recv string, required bool) ([]methodEntry, error) {
	fd, err := p.funcDecl(recv, "Member")
	if err != nil {
		return nil, err
	}
	where := fmt.Sprintf("%s: (%s).Member", p.rel, recv)
	if fd.Body == nil {
		return nil, fmt.Errorf("%s: no body", where)
	}
	ps, variadic, err := fieldTypes(fd.Type.Params, true)
	if err != nil || variadic || len(ps) != 1 || ps[0] != "string" {
		return nil, fmt.Errorf("%s: parameters are not (string)", where)
	}
	param := ""
	if ns := fd.Type.Params.List[0].Names; len(ns) == 1 {
		param = ns[0].Name
	}
	rname := recvName(fd)

	// the function bound to a name
	target := func(x ast.Expr) (string, gosig, error) {
		switch v := x.(type) {
		case *ast.FuncLit:
			g, err := sigOf(v.Type)
			return "", g, err
		case *ast.SelectorExpr:
			id, ok := v.X.(*ast.Ident)
			if !ok || rname == "" || id.Name != rname {
				return "", gosig{}, fmt.Errorf("method value is not taken from the receiver")
			}
			md, err := p.funcDecl(recv, v.Sel.Name)
			if err != nil {
				return "", gosig{}, err
			}
			g, err := sigOf(md.Type)
			return v.Sel.Name, g, err
		}
		return "", gosig{}, fmt.Errorf("bound value is neither a func literal nor a method of the receiver")
	}
	// the single statement `return &Func{fnc: reflect.ValueOf(X)}`
	returned := func(body []ast.Stmt) (ast.Expr, *ast.CompositeLit, bool) {
		if len(body) != 1 {
			return nil, nil, false
		}
		rs, ok := body[0].(*ast.ReturnStmt)
		if !ok || len(rs.Results) != 1 {
			return nil, nil, false
		}
		return funcWrap(rs.Results[0])
	}

	var out []methodEntry
	seen := map[string]bool{}
	used := map[*ast.CompositeLit]bool{}
	add := func(js string, x ast.Expr, cl *ast.CompositeLit) error {
		if seen[js] {
			return fmt.Errorf("%s: name %q dispatched twice", where, js)
		}
		seen[js] = true
		goName, g, err := target(x)
		if err != nil {
			return fmt.Errorf("%s: %q: %w", where, js, err)
		}
		used[cl] = true
		out = append(out, methodEntry{recv, js, goName, g})
		return nil
	}

	for _, st := range fd.Body.List {
		switch s := st.(type) {
		case *ast.SwitchStmt:
			tag, ok := s.Tag.(*ast.Ident)
			if !ok || s.Init != nil || param == "" || tag.Name != param {
				return nil, fmt.Errorf("%s: switch is not on the name parameter", where)
			}
			for _, c := range s.Body.List {
				cc := c.(*ast.CaseClause)
				if cc.List == nil {
					return nil, fmt.Errorf("%s: switch has a default clause", where)
				}
				x, cl, ok := returned(cc.Body)
				if !ok {
					return nil, fmt.Errorf("%s: a case does not consist of `return &Func{fnc: reflect.ValueOf(...)}`", where)
				}
				for _, l := range cc.List {
					js, ok := stringLit(l)
					if !ok {
						return nil, fmt.Errorf("%s: case label is not a string literal", where)
					}
					if err := add(js, x, cl); err != nil {
						return nil, err
					}
				}
			}
		case *ast.IfStmt:
			be, ok := s.Cond.(*ast.BinaryExpr)
			if !ok || be.Op != token.EQL || s.Init != nil {
				continue
			}
			id, ok := be.X.(*ast.Ident)
			js, ok2 := stringLit(be.Y)
			if !ok || !ok2 || param == "" || id.Name != param {
				continue
			}
			x, cl, ok := returned(s.Body.List)
			if !ok {
				continue
			}
			if s.Else != nil {
				return nil, fmt.Errorf("%s: if %s == %q has an else branch", where, param, js)
			}
			if err := add(js, x, cl); err != nil {
				return nil, err
			}
		}
	}
	// nothing may be bound to a name in a way not understood above
	var stray error
	ast.Inspect(fd.Body, func(n ast.Node) bool {
		switch v := n.(type) {
		case *ast.CompositeLit:
			if t, ok := v.Type.(*ast.Ident); ok && t.Name == "Func" && !used[v] {
				stray = fmt.Errorf("%s: a Func literal at %s is not part of a recognised name dispatch", where, p.fset.Position(v.Pos()))
			}
		case *ast.SwitchStmt:
			top := false
			for _, st := range fd.Body.List {
				if st == ast.Stmt(v) {
					top = true
				}
			}
			if !top {
				stray = fmt.Errorf("%s: nested switch at %s", where, p.fset.Position(v.Pos()))
			}
		case *ast.TypeSwitchStmt:
			stray = fmt.Errorf("%s: type switch at %s", where, p.fset.Position(v.Pos()))
		}
		return true
	})
	if stray != nil {
		return nil, stray
	}
	if required && len(out) == 0 {
		return nil, fmt.Errorf("%s: no method name is dispatched", where)
	}
	return out, nil
}

func methodSigs(repo string) (string, error) {
	p, err := parseDir(repo, "pugjs")
	if err != nil {
		return "", err
	}
	var elems []string
	for _, r := range []struct {
		recv     string
		required bool
	}{{"*Array", true}, {"String", true}, {"*Map", false}, {"Number", false}, {"Bool", false}, {"Nil", false}, {"*Func", false}} {
		es, err := memberTable(p, r.recv, r.required)
		if err != nil {
			return "", err
		}
		for _, e := range es {
			elems = append(elems, "("+coqBytes(e.recv)+", "+coqBytes(e.js)+", "+coqBytes(e.goName)+", "+e.sig.coq()+")")
		}
	}
	var b strings.Builder
	b.WriteString("(* Member(name) of the template values (pugjs/types.go), receivers *Array, String, *Map, Number,\n")
	b.WriteString("   Bool, Nil, *Func: every name that is bound to a function\n")
	b.WriteString("   (switch name { case NAME: return &Func{fnc: reflect.ValueOf(x.Method)} ... } or if name == NAME {...}):\n")
	b.WriteString("   receiver type, JavaScript name, Go method name (empty: a func literal), signature *)\n")
	b.WriteString("Definition method_sigs : list (bytes * bytes * bytes * go_sig) :=\n")
	b.WriteString(coqList(elems, "  ") + ".\n")
	return b.String(), nil
}

// ---------------------------------------------------------------- 2b. template functions

// templateFuncs: the functions module.go registers by name
// (`injector.BindMap((*flamingo.TemplateFunc)(nil), "name").To(templatefunctions.T{})`),
// the signature of the func literal T's Func method returns, and the exported
// methods of every type such a function returns without arguments (Math, JSON, Object).
func templateFuncs(repo string) (string, error) {
	_, mf, err := parseFile(repo, "module.go")
	if err != nil {
		return "", err
	}
	p, err := parseDir(repo, "templatefunctions")
	if err != nil {
		return "", err
	}
	// name -> type, from module.go
	type binding struct{ name, typ string }
	var binds []binding
	seen := map[string]bool{}
	var berr error
	ast.Inspect(mf, func(n ast.Node) bool {
		to, ok := n.(*ast.CallExpr)
		if !ok || berr != nil {
			return true
		}
		sel, ok := to.Fun.(*ast.SelectorExpr)
		if !ok || sel.Sel.Name != "To" {
			return true
		}
		bm, ok := sel.X.(*ast.CallExpr)
		if !ok || types.ExprString(bm.Fun) != "injector.BindMap" || len(bm.Args) != 2 {
			return true
		}
		if types.ExprString(bm.Args[0]) != "(*flamingo.TemplateFunc)(nil)" {
			return true
		}
		name, ok := stringLit(bm.Args[1])
		if !ok {
			berr = fmt.Errorf("module.go: %s: template function name is not a string literal", p.fset.Position(bm.Pos()))
			return true
		}
		bad := fmt.Errorf("module.go: template function %q is not bound to templatefunctions.T{}", name)
		if len(to.Args) != 1 {
			berr = bad
			return true
		}
		cl, ok := to.Args[0].(*ast.CompositeLit)
		if !ok || len(cl.Elts) != 0 {
			berr = bad
			return true
		}
		ts, ok := cl.Type.(*ast.SelectorExpr)
		if !ok || types.ExprString(ts.X) != "templatefunctions" {
			berr = bad
			return true
		}
		if seen[name] {
			berr = fmt.Errorf("module.go: template function %q bound twice", name)
			return true
		}
		seen[name] = true
		binds = append(binds, binding{name, ts.Sel.Name})
		return true
	})
	if berr != nil {
		return "", berr
	}
	if len(binds) == 0 {
		return "", fmt.Errorf("module.go: no template function binding of the expected form found")
	}

	var felems, melems []string
	modules := map[string]bool{}
	var modOrder []string
	for _, b := range binds {
		// Func is declared on T or on *T
		var fd *ast.FuncDecl
		for _, recv := range []string{b.typ, "*" + b.typ} {
			if d, err := p.funcDecl(recv, "Func"); err == nil {
				if fd != nil {
					return "", fmt.Errorf("templatefunctions: %s has two Func methods", b.typ)
				}
				fd = d
			}
		}
		where := fmt.Sprintf("templatefunctions: (%s).Func", b.typ)
		if fd == nil || fd.Body == nil {
			return "", fmt.Errorf("%s: not found", where)
		}
		// exactly one return statement outside nested func literals, returning a func literal
		var lit *ast.FuncLit
		nret := 0
		ast.Inspect(fd.Body, func(n ast.Node) bool {
			switch v := n.(type) {
			case *ast.FuncLit:
				return false
			case *ast.ReturnStmt:
				nret++
				if len(v.Results) == 1 {
					lit, _ = v.Results[0].(*ast.FuncLit)
				}
				return false
			}
			return true
		})
		if nret != 1 || lit == nil {
			return "", fmt.Errorf("%s: does not consist of one `return func(...) ... {...}`", where)
		}
		g, err := sigOf(lit.Type)
		if err != nil {
			return "", fmt.Errorf("%s: %w", where, err)
		}
		felems = append(felems, "("+coqBytes(b.name)+", "+coqBytes(b.typ)+", "+g.coq()+")")
		if len(g.params) == 0 && len(g.results) == 1 && !modules[g.results[0]] {
			modules[g.results[0]] = true
			modOrder = append(modOrder, g.results[0])
		}
	}
	for _, m := range modOrder {
		n := 0
		for _, fn := range p.names {
			for _, d := range p.files[fn].Decls {
				fd, ok := d.(*ast.FuncDecl)
				if !ok || !fd.Name.IsExported() {
					continue
				}
				r := recvString(fd)
				if r != m && r != "*"+m {
					continue
				}
				g, err := sigOf(fd.Type)
				if err != nil {
					return "", fmt.Errorf("templatefunctions: (%s).%s: %w", r, fd.Name.Name, err)
				}
				melems = append(melems, "("+coqBytes(m)+", "+coqBytes(fd.Name.Name)+", "+g.coq()+")")
				n++
			}
		}
		if n == 0 {
			return "", fmt.Errorf("templatefunctions: type %s (returned by a template function without arguments) has no exported method", m)
		}
	}
	var b strings.Builder
	b.WriteString("(* module.go: injector.BindMap(<nil pointer to flamingo.TemplateFunc>, NAME).To(templatefunctions.T{}):\n")
	b.WriteString("   template name, T, signature of the func literal that T's Func method returns *)\n")
	b.WriteString("Definition tfunc_sigs : list (bytes * bytes * go_sig) :=\n")
	b.WriteString(coqList(felems, "  ") + ".\n\n")
	b.WriteString("(* exported methods of the types returned by an argument-less template function\n")
	b.WriteString("   (reached from a template as Name.method; evalField tries the name, then strings.Title of it):\n")
	b.WriteString("   type, Go method name, signature *)\n")
	b.WriteString("Definition module_method_sigs : list (bytes * bytes * go_sig) :=\n")
	b.WriteString(coqList(melems, "  ") + ".\n")
	return b.String(), nil
}

// ---------------------------------------------------------------- 3. constants

func intLit(e ast.Expr) (uint64, bool) {
	bl, ok := e.(*ast.BasicLit)
	if !ok || bl.Kind != token.INT {
		return 0, false
	}
	v, err := strconv.ParseUint(strings.ReplaceAll(bl.Value, "_", ""), 0, 64)
	if err != nil {
		return 0, false
	}
	return v, true
}

func coqN(name string, v uint64) string {
	return fmt.Sprintf("Definition %s : N := %d%%N.\n", name, v)
}

func constants(repo string) (string, error) {
	p, err := parseDir(repo, "pugjs")
	if err != nil {
		return "", err
	}
	var b strings.Builder

	// (a) the while cap: walkRange, case reflect.Bool: for val.Bool() { ...; i++; if i > N { s.errorf(...) } }
	wr, err := p.funcDecl("*state", "walkRange")
	if err != nil {
		return "", err
	}
	var boolCases []*ast.CaseClause
	ast.Inspect(wr.Body, func(n ast.Node) bool {
		if cc, ok := n.(*ast.CaseClause); ok {
			for _, l := range cc.List {
				if types.ExprString(l) == "reflect.Bool" {
					boolCases = append(boolCases, cc)
				}
			}
		}
		return true
	})
	const wwhere = "pugjs: (*state).walkRange: case reflect.Bool"
	if len(boolCases) != 1 || len(boolCases[0].List) != 1 {
		return "", fmt.Errorf("%s: %d such clauses, want 1 (with one label)", wwhere, len(boolCases))
	}
	var loops []*ast.ForStmt
	for _, st := range boolCases[0].Body {
		if fs, ok := st.(*ast.ForStmt); ok {
			loops = append(loops, fs)
		}
	}
	if len(loops) != 1 || loops[0].Init != nil || loops[0].Post != nil || types.ExprString(loops[0].Cond) != "val.Bool()" {
		return "", fmt.Errorf("%s: not exactly one `for val.Bool() {...}` loop", wwhere)
	}
	body := loops[0].Body.List
	// the counter is incremented immediately before the test, at the end of the body
	if len(body) < 2 {
		return "", fmt.Errorf("%s: loop body too short", wwhere)
	}
	inc, ok1 := body[len(body)-2].(*ast.IncDecStmt)
	test, ok2 := body[len(body)-1].(*ast.IfStmt)
	if !ok1 || !ok2 || inc.Tok != token.INC || test.Init != nil || test.Else != nil {
		return "", fmt.Errorf("%s: loop does not end with `i++; if i > N {...}`", wwhere)
	}
	cnt, ok := inc.X.(*ast.Ident)
	cond, ok2 := test.Cond.(*ast.BinaryExpr)
	if !ok || !ok2 || cond.Op != token.GTR || types.ExprString(cond.X) != cnt.Name {
		return "", fmt.Errorf("%s: the cap test is not `%s > N`", wwhere, types.ExprString(inc.X))
	}
	capv, ok := intLit(cond.Y)
	if !ok {
		return "", fmt.Errorf("%s: the cap is not an integer literal", wwhere)
	}
	for _, st := range body[:len(body)-2] {
		bad := false
		ast.Inspect(st, func(n ast.Node) bool {
			if id, ok := n.(*ast.Ident); ok && id.Name == cnt.Name {
				if as, ok := st.(*ast.AssignStmt); ok {
					for _, l := range as.Lhs {
						if l == ast.Expr(id) {
							bad = true
						}
					}
				}
			}
			if ids, ok := n.(*ast.IncDecStmt); ok && types.ExprString(ids.X) == cnt.Name {
				bad = true
			}
			return true
		})
		if bad {
			return "", fmt.Errorf("%s: the counter is changed elsewhere in the loop", wwhere)
		}
	}
	if len(test.Body.List) != 1 {
		return "", fmt.Errorf("%s: the cap branch is not one statement", wwhere)
	}
	if es, ok := test.Body.List[0].(*ast.ExprStmt); !ok || !isCallTo(es.X, "s.errorf") {
		return "", fmt.Errorf("%s: the cap branch is not a call of s.errorf", wwhere)
	}
	// the counter starts at 0: `i := 0` directly before the loop
	startOK := false
	for i, st := range boolCases[0].Body {
		if st == ast.Stmt(loops[0]) && i > 0 {
			if as, ok := boolCases[0].Body[i-1].(*ast.AssignStmt); ok && as.Tok == token.DEFINE &&
				len(as.Lhs) == 1 && len(as.Rhs) == 1 && types.ExprString(as.Lhs[0]) == cnt.Name {
				if v, ok := intLit(as.Rhs[0]); ok && v == 0 {
					startOK = true
				}
			}
		}
	}
	if !startOK {
		return "", fmt.Errorf("%s: the counter is not initialised by `%s := 0` directly before the loop", wwhere, cnt.Name)
	}
	b.WriteString("(* pugjs/tpl_exec.go walkRange, case reflect.Bool:\n")
	b.WriteString("     i := 0; for val.Bool() { <one iteration>; <re-evaluate>; i++; if i > N { s.errorf(...) } }\n")
	b.WriteString("   the literal N: a loop of at most N iterations completes; the (N+1)-th iteration ends with the error *)\n")
	b.WriteString(coqN("go_while_cap", capv))

	// (b) const maxExecDepth = <int literal>
	var depth *uint64
	for _, fn := range p.names {
		for _, d := range p.files[fn].Decls {
			gd, ok := d.(*ast.GenDecl)
			if !ok || gd.Tok != token.CONST {
				continue
			}
			for _, sp := range gd.Specs {
				vs := sp.(*ast.ValueSpec)
				for i, id := range vs.Names {
					if id.Name != "maxExecDepth" {
						continue
					}
					if depth != nil || len(vs.Values) != len(vs.Names) {
						return "", fmt.Errorf("pugjs: const maxExecDepth: not one plain declaration")
					}
					v, ok := intLit(vs.Values[i])
					if !ok {
						return "", fmt.Errorf("pugjs: const maxExecDepth is not an integer literal")
					}
					depth = &v
				}
			}
		}
	}
	if depth == nil {
		return "", fmt.Errorf("pugjs: const maxExecDepth not found")
	}
	b.WriteString("\n(* pugjs/tpl_exec.go: const maxExecDepth (template nesting at which walkTemplate reports an error) *)\n")
	b.WriteString(coqN("go_max_exec_depth", *depth))

	// (c) NewEngine: return NewEngineWithOptions(WithRateLimit(<int literal>))
	ne, err := p.funcDecl("", "NewEngine")
	if err != nil {
		return "", err
	}
	var rl []uint64
	var rerr error
	ast.Inspect(ne.Body, func(n ast.Node) bool {
		if c, ok := n.(*ast.CallExpr); ok && isCallTo(c, "WithRateLimit") {
			if len(c.Args) != 1 {
				rerr = fmt.Errorf("pugjs: NewEngine: WithRateLimit does not have one argument")
				return true
			}
			v, ok := intLit(c.Args[0])
			if !ok {
				rerr = fmt.Errorf("pugjs: NewEngine: the argument of WithRateLimit is not an integer literal")
				return true
			}
			rl = append(rl, v)
		}
		return true
	})
	if rerr != nil {
		return "", rerr
	}
	if len(rl) != 1 {
		return "", fmt.Errorf("pugjs: NewEngine: %d calls of WithRateLimit, want 1", len(rl))
	}
	b.WriteString("\n(* pugjs/engine.go NewEngine: NewEngineWithOptions(WithRateLimit(N)), the default rate limit *)\n")
	b.WriteString(coqN("go_default_rate_limit", rl[0]))
	return b.String(), nil
}

func isCallTo(e ast.Expr, fun string) bool {
	c, ok := e.(*ast.CallExpr)
	return ok && types.ExprString(c.Fun) == fun
}

// ---------------------------------------------------------------- 4. escaper

// byteSliceVar reads the package variable `name = []byte("...")`.
func byteSliceVar(p *pkg, file, name string) (string, error) {
	f, err := p.file(file)
	if err != nil {
		return "", err
	}
	e, err := packageVar(f, name)
	if err != nil {
		return "", fmt.Errorf("%s/%s: %w", p.rel, file, err)
	}
	c, ok := e.(*ast.CallExpr)
	if !ok || len(c.Args) != 1 || types.ExprString(c.Fun) != "[]byte" {
		return "", fmt.Errorf("%s/%s: var %s is not []byte(\"...\")", p.rel, file, name)
	}
	s, ok := stringLit(c.Args[0])
	if !ok {
		return "", fmt.Errorf("%s/%s: var %s: the argument of []byte is not a string literal", p.rel, file, name)
	}
	return s, nil
}

func escapeTable(repo string) (string, error) {
	p, err := parseDir(repo, "pugjs")
	if err != nil {
		return "", err
	}
	const file = "tpl_funcs.go"
	const where = "pugjs/tpl_funcs.go: HTMLEscape"
	fd, err := p.funcDecl("", "HTMLEscape")
	if err != nil {
		return "", err
	}
	ps, variadic, err := fieldTypes(fd.Type.Params, true)
	if err != nil || variadic || len(ps) != 2 || ps[0] != "io.Writer" || ps[1] != "[]byte" {
		return "", fmt.Errorf("%s: parameters are not (io.Writer, []byte)", where)
	}
	w := fd.Type.Params.List[0].Names[0].Name
	in := fd.Type.Params.List[len(fd.Type.Params.List)-1].Names[0].Name
	// last := 0; for i, c := range b { var html []byte; switch c {...}; w.Write(b[last:i]); w.Write(html); last = i + 1 }; w.Write(b[last:])
	if len(fd.Body.List) != 3 {
		return "", fmt.Errorf("%s: body is not `last := 0; for ... {...}; w.Write(b[last:])`", where)
	}
	if as, ok := fd.Body.List[0].(*ast.AssignStmt); !ok || as.Tok != token.DEFINE || len(as.Lhs) != 1 || len(as.Rhs) != 1 ||
		types.ExprString(as.Lhs[0]) != "last" || types.ExprString(as.Rhs[0]) != "0" {
		return "", fmt.Errorf("%s: first statement is not `last := 0`", where)
	}
	rs, ok := fd.Body.List[1].(*ast.RangeStmt)
	if !ok || rs.Tok != token.DEFINE || types.ExprString(rs.X) != in || rs.Key == nil || rs.Value == nil {
		return "", fmt.Errorf("%s: no `for i, c := range %s` loop", where, in)
	}
	if es, ok := fd.Body.List[2].(*ast.ExprStmt); !ok || types.ExprString(es.X) != w+".Write("+in+"[last:])" {
		return "", fmt.Errorf("%s: last statement is not `%s.Write(%s[last:])`", where, w, in)
	}
	iv, cv := types.ExprString(rs.Key), types.ExprString(rs.Value)
	lb := rs.Body.List
	if len(lb) != 5 {
		return "", fmt.Errorf("%s: loop body is not `var html []byte; switch c {...}; w.Write(b[last:i]); w.Write(html); last = i + 1`", where)
	}
	ds, ok := lb[0].(*ast.DeclStmt)
	if !ok {
		return "", fmt.Errorf("%s: loop does not start with `var html []byte`", where)
	}
	gd, ok := ds.Decl.(*ast.GenDecl)
	if !ok || gd.Tok != token.VAR || len(gd.Specs) != 1 {
		return "", fmt.Errorf("%s: loop does not start with `var html []byte`", where)
	}
	vs := gd.Specs[0].(*ast.ValueSpec)
	if len(vs.Names) != 1 || len(vs.Values) != 0 || types.ExprString(vs.Type) != "[]byte" {
		return "", fmt.Errorf("%s: loop does not start with `var html []byte`", where)
	}
	hv := vs.Names[0].Name
	sw, ok := lb[1].(*ast.SwitchStmt)
	if !ok || sw.Init != nil || types.ExprString(sw.Tag) != cv {
		return "", fmt.Errorf("%s: no `switch %s`", where, cv)
	}
	want := []string{
		w + ".Write(" + in + "[last:" + iv + "])",
		w + ".Write(" + hv + ")",
	}
	for k, wnt := range want {
		es, ok := lb[2+k].(*ast.ExprStmt)
		if !ok || types.ExprString(es.X) != wnt {
			return "", fmt.Errorf("%s: statement after the switch is not `%s`", where, wnt)
		}
	}
	if as, ok := lb[4].(*ast.AssignStmt); !ok || as.Tok != token.ASSIGN || len(as.Lhs) != 1 || len(as.Rhs) != 1 ||
		types.ExprString(as.Lhs[0]) != "last" || types.ExprString(as.Rhs[0]) != iv+" + 1" {
		return "", fmt.Errorf("%s: loop does not end with `last = %s + 1`", where, iv)
	}

	type repl struct {
		code uint64
		text string
	}
	var reps []repl
	seen := map[uint64]bool{}
	hasDefault := false
	for _, c := range sw.Body.List {
		cc := c.(*ast.CaseClause)
		if cc.List == nil {
			if len(cc.Body) != 1 {
				return "", fmt.Errorf("%s: default clause is not `continue`", where)
			}
			if bs, ok := cc.Body[0].(*ast.BranchStmt); !ok || bs.Tok != token.CONTINUE || bs.Label != nil {
				return "", fmt.Errorf("%s: default clause is not `continue`", where)
			}
			hasDefault = true
			continue
		}
		if len(cc.Body) != 1 {
			return "", fmt.Errorf("%s: a case is not `%s = <variable>`", where, hv)
		}
		as, ok := cc.Body[0].(*ast.AssignStmt)
		if !ok || as.Tok != token.ASSIGN || len(as.Lhs) != 1 || len(as.Rhs) != 1 || types.ExprString(as.Lhs[0]) != hv {
			return "", fmt.Errorf("%s: a case is not `%s = <variable>`", where, hv)
		}
		id, ok := as.Rhs[0].(*ast.Ident)
		if !ok {
			return "", fmt.Errorf("%s: a case does not assign a package variable", where)
		}
		text, err := byteSliceVar(p, file, id.Name)
		if err != nil {
			return "", err
		}
		for _, l := range cc.List {
			bl, ok := l.(*ast.BasicLit)
			if !ok || bl.Kind != token.CHAR {
				return "", fmt.Errorf("%s: case label is not a character literal", where)
			}
			r, _, _, err := strconv.UnquoteChar(bl.Value[1:len(bl.Value)-1], '\'')
			if err != nil || r < 0 || r > 255 {
				return "", fmt.Errorf("%s: case label %s is not a byte", where, bl.Value)
			}
			if seen[uint64(r)] {
				return "", fmt.Errorf("%s: case label %s twice", where, bl.Value)
			}
			seen[uint64(r)] = true
			reps = append(reps, repl{uint64(r), text})
		}
	}
	if !hasDefault {
		return "", fmt.Errorf("%s: switch has no `default: continue`", where)
	}
	if len(reps) == 0 {
		return "", fmt.Errorf("%s: no replacement", where)
	}
	var b strings.Builder
	b.WriteString("(* pugjs/tpl_funcs.go HTMLEscape: switch c { case <char>: html = htmlXxx ... default: continue }\n")
	b.WriteString("   with var htmlXxx = []byte(<string literal>): byte code, replacement text, in source order;\n")
	b.WriteString("   every other byte is copied *)\n")
	b.WriteString("Definition escape_table : list (N * bytes) :=\n  [")
	for i, r := range reps {
		if i > 0 {
			b.WriteString(";\n   ")
		}
		b.WriteString(fmt.Sprintf("(%d%%N, %s)", r.code, coqBytes(r.text)))
	}
	b.WriteString("].\n")
	return b.String(), nil
}
