#!/usr/bin/env python3
# seedrun.py <src-dir> <Cxx> <label> [--tier quick]   (development tool, not a registered check)
# Confirms a seeded change (patch.diff + demonstration + meta.json written by an independent fault-seeding agent)
# in a scratch worktree of /repo: builds, existing suite passes, demonstration passes without / fails with the
# change; then runs ./check Cxx against that worktree (PV_REPO) and records everything under seeded/<Cxx>-<label>/.
import json, os, shutil, subprocess, sys, time
V = os.path.dirname(os.path.dirname(os.path.abspath(__file__)))
ENV = dict(os.environ, GOFLAGS="-mod=mod", GOPROXY="off", GOSUMDB="off", GOTOOLCHAIN="local")


def sh(cmd, cwd, timeout=1800, env=None):
    p = subprocess.run(cmd, shell=True, cwd=cwd, env=env or ENV, capture_output=True, timeout=timeout)
    return p.returncode, (p.stdout + p.stderr).decode(errors="replace")


def main():
    src, pid, label = sys.argv[1], sys.argv[2], sys.argv[3]
    tier = sys.argv[5] if len(sys.argv) > 5 and sys.argv[4] == "--tier" else "quick"
    checks = os.environ.get("SEED_CHECKS", pid).split(",")
    meta = json.load(open(os.path.join(src, "meta.json")))
    demo_files = [f for f in os.listdir(src) if f.endswith(".go") or os.path.isdir(os.path.join(src, f))]
    wt = "/tmp/sv_%s_%s" % (pid, label)
    sh("git -C /repo worktree remove --force %s" % wt, "/")
    rc, out = sh("git -C /repo worktree add --detach %s HEAD" % wt, "/")
    assert rc == 0, out
    res = {"property": pid, "label": label, "repo_head": sh("git -C /repo rev-parse --short HEAD", "/")[1].strip()}
    try:
        place = (meta.get("demo_place", "") or "").split()[0] if meta.get("demo_place") else ""
        import re
        cmd = re.sub(r"\s{2,}\(.*\)\s*$", "", meta.get("demo_cmd", ""))   # a trailing remark in parentheses is not part of the command

        def put_demo():
            for f in demo_files:
                srcf = os.path.join(src, f)
                if os.path.isdir(srcf):
                    dst = os.path.join(wt, place if place and not place.endswith(".go") else f)
                    shutil.copytree(srcf, dst, dirs_exist_ok=True)
                else:
                    dst = os.path.join(wt, place) if place.endswith(".go") and len(demo_files) == 1 else os.path.join(wt, place, f)
                    os.makedirs(os.path.dirname(dst), exist_ok=True)
                    shutil.copy(srcf, dst)

        def del_demo():
            sh("git clean -fdq", wt)

        put_demo()
        rc, out = sh(cmd, wt)
        res["demo_without_change"] = {"rc": rc, "tail": out[-600:]}
        del_demo()
        rc, out = sh("git apply %s" % os.path.join(src, "patch.diff"), wt)
        assert rc == 0, "patch does not apply: " + out
        rc, out = sh("go build ./... && go test -vet=off -count=1 ./...", wt)
        res["build_and_suite_with_change"] = {"rc": rc, "tail": out[-600:]}
        put_demo()
        rc, out = sh(cmd, wt)
        res["demo_with_change"] = {"rc": rc, "tail": out[-900:]}
        del_demo()
        res["confirmed"] = (res["demo_without_change"]["rc"] == 0 and res["build_and_suite_with_change"]["rc"] == 0
                            and res["demo_with_change"]["rc"] != 0)
        res["checks"] = {}
        for c in checks:
            t0 = time.time()
            rc, out = sh("./check %s --tier %s" % (c, tier), V, timeout=3600, env=dict(ENV, PV_REPO=wt))
            lines = [l for l in out.splitlines() if l.startswith(("VIOLATION", "OK ", "KNOWN-FINDING", "CHECK ERROR"))]
            res["checks"][c] = {"rc": rc, "wall_s": round(time.time() - t0, 1), "lines": lines[-6:]}
            for l in lines:
                if l.startswith("VIOLATION") and "replay=" in l:
                    rp = l.split("replay=")[1].split()[0]
                    if os.path.exists(rp):
                        d = json.load(open(rp))
                        res["checks"][c]["replay_what"] = d.get("what")
                        res["checks"][c]["replay_excerpt"] = json.dumps(d.get("case"))[:700]
        res["caught"] = any(v["rc"] == 1 for v in res["checks"].values())
    finally:
        sh("git -C /repo worktree remove --force %s" % wt, "/")
    dst = os.path.join(V, "seeded", "%s-%s" % (pid, label))
    os.makedirs(dst, exist_ok=True)
    for f in (os.listdir(src) if os.path.abspath(src) != os.path.abspath(dst) else []):
        s = os.path.join(src, f)
        if os.path.isdir(s):
            shutil.copytree(s, os.path.join(dst, f), dirs_exist_ok=True)
        else:
            shutil.copy(s, dst)
    meta.setdefault("verification_history", [])
    if "verification" in meta:
        old = meta["verification"]
        meta["verification_history"].append({"caught": old.get("caught"), "checks": {c: v.get("lines", [])[-1:] for c, v in old.get("checks", {}).items()}})
    meta["verification"] = res
    json.dump(meta, open(os.path.join(dst, "meta.json"), "w"), indent=1)
    print(pid, label, "confirmed=%s caught=%s" % (res.get("confirmed"), res.get("caught")),
          {c: (v["rc"], v["lines"][-1][:160] if v["lines"] else "") for c, v in res.get("checks", {}).items()})


main()
