(* Tree-level lowering of the control fragment of pug: what parse_program (compile nodes) stands for, written
   directly on trees (no tokens, no trim markers).  The theorems of Proofs/C02SimProofs.v are about [lower];
   the judge evaluates, for every case it sees, that parsing the compiled tokens gives the same tree up to the
   chunking of adjacent texts ([lower_seam]) — the tie between this file and Pug/Compile.v is checked per run. *)
From PV Require Import Base.Bytes Base.Escape Js.Ast Tmpl.IR Pug.Ast Pug.Compile.

Section Lower.
  Variable funcs : list bytes.
  Variable goodb : jexpr -> bool.      (* which expressions the fragment admits (the judge: all; the theorems: scalar_core) *)

  Definition lexpr (e : jexpr) : option targ :=
    if goodb e then match carg funcs true e with Some (_, Some a) => Some a | _ => None end else None.

  Fixpoint lower_list (lw : pnode -> option (list tnode)) (l : list pnode) : option (list tnode) :=
    match l with
    | [] => Some []
    | x :: r => match lw x, lower_list lw r with Some a, Some b => Some (a ++ b) | _, _ => None end
    end.

  (* expressions whose buffered form is the generic `{{ e | escaper }}` (cwrap's default arm) *)
  Definition printable (e : jexpr) : bool :=
    match e with
    | JId _ | JBin _ _ _ | JCond _ _ _ | JDot _ _ | JIdx _ _ | JCall _ _ => true
    | _ => false
    end.

  (* texts that need no delimiter quoting *)
  Definition plain_text (s : bytes) : bool :=
    negb (containsb (B "{{") s) && negb (containsb (B "}}") s) &&
    match rev s with c :: _ => negb (Ascii.eqb c "{") | [] => true end.

  Definition pipe1 (a : targ) : tpipe := ([], [[a]]).

  Fixpoint lower (fuel : nat) (n : pnode) {struct fuel} : option (list tnode) :=
    match fuel with
    | O => None
    | S f =>
      let lowers := lower_list (lower f) in
      match n with
      | PComment => Some []
      | PBlock l => lowers l
      | PText s => if plain_text s then Some [NText s] else None
      | PCode [SExpr (JAssign None (JId x) r)] false _ =>
        if negb (is_ident x) || known funcs x then None else
        match lexpr r with Some a => Some [NAction ([x], [[a]])] | None => None end
      | PCode [SExpr (JUn UInc _ (JId x))] false _ =>
        if negb (is_ident x) || known funcs x || negb (goodb (JId x)) then None else
        Some [NAction ([x], [[AIdent (B "__op__inc"); AVar x []]])]
      | PCode [SVar [JVar x (Some i)]] false _ =>
        if negb (is_ident x) then None else
        match lexpr i with Some a => Some [NAction ([x], [[a]])] | None => None end
      | PCode [SExpr e] esc _ =>
        (* escaped buffered code only: unescaped output of an undefined value is the listed deviation F-C11-c *)
        if printable e && esc then
          match lexpr e with Some a => Some [NAction ([], [a] :: esc_cmds (negb esc))] | None => None end
        else None
      | PCond test cons_ alt =>
        match lexpr test, lowers cons_ with
        | Some ta, Some th =>
          match alt with
          | None => Some [NIf (pipe1 ta) th []]
          | Some a => match lower f a with Some el => Some [NIf (pipe1 ta) th el] | None => None end
          end
        | _, _ => None
        end
      | PWhile test body =>
        match lexpr test, lowers body with
        | Some ta, Some b => Some [NRange (pipe1 ta) b []]
        | _, _ => None
        end
      | PTag name _ [] [] body =>
        if has_delim name then None else
        match lowers body with
        | Some b =>
          if is_void name then Some [NText (B "<" ++ name); NText (B ">")]
          else if beqb name (B "script") then None
          else Some (NText (B "<" ++ name) :: NText (B ">") :: b ++ [NText (B "</" ++ name ++ B ">")])
        | None => None
        end
      | _ => None
      end
    end.

  Definition lower_nodes (ns : list pnode) : option (list tnode) :=
    lower (S (S (pnode_size (PBlock ns)))) (PBlock ns).

End Lower.
