(* Tree-level lowering of the control fragment of pug: what parse_program (compile nodes) stands for, written
   directly on trees (no tokens, no trim markers).  The theorems of Proofs/C02SimProofs.v are about [lower];
   the judge evaluates, for every case it sees, that parsing the compiled tokens gives the same tree up to the
   chunking of adjacent texts ([lower_seam]) — the tie between this file and Pug/Compile.v is checked per run.

   Scoping discipline ([dead]): the engine never pops a variable, pug scopes the variables of an each to its body.
   The lowering therefore admits a program only when every each-variable is mentioned inside its own loop only:
   [dead] lists the names that may not be mentioned at the current position — the engine's own `global` and every
   each-variable of the program that is not a variable of an enclosing each. *)
From PV Require Import Base.Bytes Base.Escape Js.Ast Tmpl.IR Pug.Ast Pug.Compile.

(* every identifier an expression mentions *)
Fixpoint evars (e : jexpr) : list bytes :=
  let many := fix go (l : list jexpr) : list bytes :=
    match l with [] => [] | x :: r => evars x ++ go r end in
  match e with
  | JId x => [x]
  | JNum _ | JNumF _ | JStr _ | JBool _ | JNull => []
  | JTpl parts =>
    (fix go (l : list (bytes + jexpr)) : list bytes :=
       match l with [] => [] | inl _ :: r => go r | inr x :: r => evars x ++ go r end) parts
  | JArr es | JSeq es => many es
  | JObj kvs =>
    (fix go (l : list (bytes * jexpr)) : list bytes :=
       match l with [] => [] | kx :: r => evars (snd kx) ++ go r end) kvs
  | JDot o _ => evars o
  | JIdx o i => evars o ++ evars i
  | JCall f args | JNew f args => evars f ++ many args
  | JUn _ _ x => evars x
  | JBin _ l r => evars l ++ evars r
  | JCond c a b => evars c ++ evars a ++ evars b
  | JAssign _ l r => evars l ++ evars r
  | JVar x init => x :: match init with Some i => evars i | None => [] end
  end.

(* no variable of [e] is dead *)
Definition alive (dead : list bytes) (e : jexpr) : bool := forallb (fun x => negb (mem x dead)) (evars e).
Definition undead (xs dead : list bytes) : list bytes := filter (fun x => negb (mem x xs)) dead.

(* the variables of the each loops of a tree *)
Fixpoint each_vars (n : pnode) : list bytes :=
  let many := fix go (l : list pnode) : list bytes := match l with [] => [] | x :: r => each_vars x ++ go r end in
  match n with
  | PEach v k _ b => v :: match k with Some k' => [k'] | None => [] end ++ many b
  | PTag _ _ _ _ b | PWhile _ b | PMixinDef _ _ b | PMixinCall _ _ _ b | PBlock b => many b
  | PCond _ c a => many c ++ match a with Some a' => each_vars a' | None => [] end
  | PCase _ ws => (fix go (l : list (option jexpr * list pnode)) : list bytes :=
                     match l with [] => [] | w :: r => many (snd w) ++ go r end) ws
  | _ => []
  end.

Fixpoint has_doctype (n : pnode) : bool :=
  let many := fix go (l : list pnode) : bool := match l with [] => false | x :: r => has_doctype x || go r end in
  match n with
  | PDoctype _ => true
  | PEach _ _ _ b | PTag _ _ _ _ b | PWhile _ b | PMixinDef _ _ b | PMixinCall _ _ _ b | PBlock b => many b
  | PCond _ c a => many c || match a with Some a' => has_doctype a' | None => false end
  | PCase _ ws => (fix go (l : list (option jexpr * list pnode)) : bool :=
                     match l with [] => false | w :: r => many (snd w) || go r end) ws
  | _ => false
  end.
Fixpoint has_case (n : pnode) : bool :=
  let many := fix go (l : list pnode) : bool := match l with [] => false | x :: r => has_case x || go r end in
  match n with
  | PCase _ _ => true
  | PEach _ _ _ b | PTag _ _ _ _ b | PWhile _ b | PMixinDef _ _ b | PMixinCall _ _ _ b | PBlock b => many b
  | PCond _ c a => many c || match a with Some a' => has_case a' | None => false end
  | _ => false
  end.

Section Lower.
  Variable funcs : list bytes.
  Variable goodb : jexpr -> bool.      (* which expressions the fragment admits (the judge: all; the theorems: scalar_core) *)

  Definition lexpr (e : jexpr) : option targ :=
    if goodb e then match carg funcs true e with Some (_, Some a) => Some a | _ => None end else None.
  (* an expression at a position where [dead] may not be mentioned *)
  Definition lexprd (dead : list bytes) (e : jexpr) : option targ := if alive dead e then lexpr e else None.

  Fixpoint lower_list (lw : pnode -> option (list tnode)) (l : list pnode) : option (list tnode) :=
    match l with
    | [] => Some []
    | x :: r => match lw x, lower_list lw r with Some a, Some b => Some (a ++ b) | _, _ => None end
    end.

  (* expressions whose buffered form is the generic `{{ e | escaper }}` (cwrap's default arm) *)
  Definition printable (e : jexpr) : bool :=
    match e with
    | JId _ | JBin _ _ _ | JCond _ _ _ | JDot _ _ | JIdx _ _ | JCall _ _ => true
    | _ => false
    end.

  (* texts that need no delimiter quoting *)
  Definition plain_text (s : bytes) : bool :=
    negb (containsb (B "{{") s) && negb (containsb (B "}}") s) &&
    match rev s with c :: _ => negb (Ascii.eqb c "{") | [] => true end.

  Definition pipe1 (a : targ) : tpipe := ([], [[a]]).

  (* a collection variable as the engine's range reads it: `$c` *)
  Definition cident (c : bytes) : bool := is_ident c && negb (known funcs c) && negb (beqb c (B "range")).

  (* code: var / assignment / ++, buffered code (escaped), buffered literals (static text) *)
  Definition lower_code (dead : list bytes) (stmts : list jstmt) (esc : bool) : option (list tnode) :=
    match stmts with
    | [SExpr (JAssign None (JId x) r)] =>
      if esc || negb (is_ident x) || known funcs x then None else
      match lexprd dead r with Some a => Some [NAction ([x], [[a]])] | None => None end
    | [SExpr (JUn UInc _ (JId x))] =>
      if esc || negb (is_ident x) || known funcs x || negb (goodb (JId x)) || mem x dead then None else
      Some [NAction ([x], [[AIdent (B "__op__inc"); AVar x []]])]
    | [SVar [JVar x (Some i)]] =>
      if esc || negb (is_ident x) then None else
      match lexprd dead i with Some a => Some [NAction ([x], [[a]])] | None => None end
    | [SExpr (JStr s)] =>
      (* a string literal is emitted escaped whatever the mode: the same as pug when escaping is on or idle *)
      if plain_text (escape s) && (esc || beqb (escape s) s) then Some [NText (escape s)] else None
    | [SExpr (JNum z)] => Some [NText (show_Z z)]
    | [SExpr (JBool b)] => Some [NText (if b then B "true" else B "false")]
    | [SExpr JNull] => Some [NAction ([], [[AIdent (B "null")]])]
    | [SExpr e] =>
      (* escaped buffered code only: unescaped output of an undefined value is the listed deviation F-C11-c *)
      if printable e && esc then
        match lexprd dead e with Some a => Some [NAction ([], [a] :: esc_cmds (negb esc))] | None => None end
      else None
    | _ => None
    end.

  Definition eql_pipe (ea wa : targ) : tpipe := ([], [[AIdent (B "__op__eql"); ea; wa]]).
  Definition case_default (whens : list (option jexpr * list pnode)) : option (list pnode) :=
    fold_left (fun acc w => match fst w with None => Some (snd w) | Some _ => acc end) whens None.
  Definition has_when (whens : list (option jexpr * list pnode)) : bool :=
    existsb (fun w => match fst w with Some _ => true | None => false end) whens.

  (* the if / else-if chain of a case: one test `__op__eql e w` per when, the last default as the else list *)
  Fixpoint lower_whens (lowers : list pnode -> option (list tnode)) (dead : list bytes) (e : jexpr) (ea : targ)
           (el : list tnode) (l : list (option jexpr * list pnode)) : option (list tnode) :=
    match l with
    | [] => Some el
    | (None, _) :: r => lower_whens lowers dead e ea el r
    | (Some w, body) :: r =>
      if goodb (JBin BSEq e w) then
        match lexprd dead w, lowers body, lower_whens lowers dead e ea el r with
        | Some wa, Some b, Some rest => Some [NIf (eql_pipe ea wa) b rest]
        | _, _, _ => None
        end
      else None
    end.

  Definition opt_list (k : option bytes) : list bytes := match k with Some k' => [k'] | None => [] end.

  Fixpoint lower (dead : list bytes) (fuel : nat) (n : pnode) {struct fuel} : option (list tnode) :=
    match fuel with
    | O => None
    | S f =>
      let lowers := lower_list (lower dead f) in
      match n with
      | PComment => Some []
      | PBlock l => lowers l
      | PText s => if plain_text s then Some [NText s] else None
      | PDoctype v => if has_delim v then None else Some [NText (B "<!DOCTYPE " ++ v ++ B ">" ++ nl)]
      | PCode stmts esc _ => lower_code dead stmts esc
      | PCond test cons_ alt =>
        match lexprd dead test, lowers cons_ with
        | Some ta, Some th =>
          match alt with
          | None => Some [NIf (pipe1 ta) th []]
          | Some a => match lower dead f a with Some el => Some [NIf (pipe1 ta) th el] | None => None end
          end
        | _, _ => None
        end
      | PCase e whens =>
        if negb (has_when whens) then None else
        match lexprd dead e, (match case_default whens with Some b => lowers b | None => Some [] end) with
        | Some ea, Some el => lower_whens lowers dead e ea el whens
        | _, _ => None
        end
      | PEach v k (JId c) body =>
        (* the collection is a plain variable; the loop variables are distinct, dead outside and alive inside *)
        let kk := opt_list k in
        if negb (is_ident v) || negb (forallb is_ident kk) || negb (cident c) || mem c dead
           || negb (mem v dead) || negb (forallb (fun x => mem x dead) kk) || mem v kk then None else
        match lower_list (lower (undead (v :: kk) dead) f) body with
        | Some b => Some [NRange (kk ++ [v], [[AVar c []]]) b []]
        | None => None
        end
      | PWhile test body =>
        match lexprd dead test, lowers body with
        | Some ta, Some b => Some [NRange (pipe1 ta) b []]
        | _, _ => None
        end
      | PTag name _ [] [] body =>
        if has_delim name then None else
        match lowers body with
        | Some b =>
          if is_void name then Some [NText (B "<" ++ name); NText (B ">")]
          else if beqb name (B "script") then None
          else Some (NText (B "<" ++ name) :: NText (B ">") :: b ++ [NText (B "</" ++ name ++ B ">")])
        | None => None
        end
      | _ => None
      end
    end.

  (* what may not be mentioned at the top level: the engine's `global` and every each-variable *)
  Definition dead0 (ns : list pnode) : list bytes := B "global" :: each_vars (PBlock ns).

  (* a doctype's text ends in a line feed, which the lexer removes in front of an action with a left trim marker; in
     this fragment only the tests of a case carry one, so the two do not meet in one program *)
  Definition trim_clash (ns : list pnode) : bool := existsb has_doctype ns && existsb has_case ns.

  Definition lower_nodes (ns : list pnode) : option (list tnode) :=
    if trim_clash ns then None else lower (dead0 ns) (S (S (pnode_size (PBlock ns)))) (PBlock ns).

End Lower.
