(* Model of the compile stage: pugjs/transform_*.go + transform_js_.go + pug_parser.go
   (buildNode, TokenToTemplate).  For every construct it builds, in parallel, the exact
   bytes the Go code writes and the parse tree those bytes stand for (Tmpl/IR.v).
   [None] = the construct is outside the modelled domain (the judge answers "unmodelled").
   The model follows the tree AFTER the repairs recorded in KNOWN_FINDINGS.txt as "fixed:". *)
From PV Require Import Base.Bytes Base.Escape Js.Ast Tmpl.IR Pug.Ast Gen.Tables Gen.OpsTable.

(* ---- small text helpers --------------------------------------------------- *)
Definition is_print_ascii (c : ascii) : bool :=
  let n := N_of_ascii c in N.leb 32 n && N.ltb n 127.

(* fmt %q = strconv.Quote on printable ASCII, the usual escapes, and (assumed valid,
   printable) UTF-8 passed through; other control bytes: not modelled *)
Fixpoint goquote_body (s : bytes) : option bytes :=
  match s with
  | [] => Some []
  | c :: r =>
    let n := N_of_ascii c in
    let piece :=
      if Ascii.eqb c """" then Some (B "\""")
      else if Ascii.eqb c "\" then Some (B "\\")
      else if N.eqb n 10 then Some (B "\n")
      else if N.eqb n 9 then Some (B "\t")
      else if N.eqb n 13 then Some (B "\r")
      else if is_print_ascii c then Some [c]
      else if N.leb 128 n then Some [c]
      else None in
    match piece, goquote_body r with
    | Some p, Some q => Some (p ++ q)
    | _, _ => None
    end
  end.
Definition goquote (s : bytes) : option bytes :=
  match goquote_body s with Some b => Some (""""%char :: b ++ [""""%char]) | None => None end.

Fixpoint replace_all_fuel (fuel : nat) (old new s : bytes) : bytes :=
  match fuel with
  | O => s
  | S f =>
    match s with
    | [] => []
    | c :: r =>
      if prefixb old s then new ++ replace_all_fuel f old new (skipn (length old) s)
      else c :: replace_all_fuel f old new r
    end
  end.
(* strings.Replace(s, old, new, -1) for non-empty old *)
Definition replace_all (old new s : bytes) : bytes := replace_all_fuel (S (length s)) old new s.

Definition has_delim (s : bytes) : bool := containsb (B "{{") s.

Definition is_ident_start (c : ascii) : bool :=
  let n := N_of_ascii c in
  (N.leb 65 n && N.leb n 90) || (N.leb 97 n && N.leb n 122) || N.eqb n 95.
Definition is_ident_char (c : ascii) : bool :=
  let n := N_of_ascii c in is_ident_start c || (N.leb 48 n && N.leb n 57).
Definition is_ident (s : bytes) : bool :=
  match s with c :: r => is_ident_start c && forallb is_ident_char r | [] => false end.

(* ---- operator table (regenerated from transform_js_.go `ops`) -------------- *)
Definition binop_token (o : binop) : bytes :=
  match o with
  | BAdd => B "PLUS" | BSub => B "MINUS" | BMul => B "MULTIPLY" | BDiv => B "SLASH" | BMod => B "REMAINDER"
  | BLt => B "LESS" | BGt => B "GREATER" | BLe => B "LESS_OR_EQUAL" | BGe => B "GREATER_OR_EQUAL"
  | BEq => B "EQUAL" | BSEq => B "STRICT_EQUAL" | BNe => B "NOT_EQUAL" | BSNe => B "STRICT_NOT_EQUAL"
  | BAnd => B "LOGICAL_AND" | BOr => B "LOGICAL_OR"
  | BBitAnd => B "AND" | BBitOr => B "OR" | BBitXor => B "EXCLUSIVE_OR"
  | BShl => B "SHIFT_LEFT" | BShr => B "SHIFT_RIGHT" | BUShr => B "UNSIGNED_SHIFT_RIGHT"
  | BInstanceof => B "INSTANCEOF" | BIn => B "IN"
  end.
Definition unop_token (o : unop) : bytes :=
  match o with
  | UNot => B "NOT" | UNeg => B "MINUS" | UPlus => B "PLUS" | UTypeof => B "TYPEOF"
  | UBitNot => B "BITWISE_NOT" | UDelete => B "DELETE" | UVoid => B "VOID"
  | UInc => B "INCREMENT" | UDec => B "DECREMENT"
  end.
Definition op_name (tokname : bytes) : bytes :=
  match lookup tokname ops_table with Some n => n | None => [] end.

(* helper names that exist at run time (runtime.go funcmap + tpl_funcs.go builtins) *)
Definition runtime_funcs : list bytes :=
  [B "__op__add"; B "__op__sub"; B "__op__mul"; B "__op__slash"; B "__op__quo"; B "__op__mod";
   B "__op__eql"; B "__op__neq"; B "__op__lt"; B "__op__gt"; B "__op__lte"; B "__op__gte";
   B "__op__and"; B "__op__or"; B "__op__not"; B "__op__inc"; B "__op__dec"].

Section Compile.
  Variable funcs : list bytes.      (* names provided by Engine.FuncProvider *)
  Variable debug : bool.

  Definition known (x : bytes) : bool := mem x funcs.
  (* identifiers a template may call as a plain function *)
  Definition callable (x : bytes) : bool :=
    known x || mem x [B "json"; B "null"; B "parseInt"; B "__Range"].

  Definition ident_text (dot : bool) (x : bytes) : bytes :=
    (if dot && negb (known x) then B "$" else []) ++ (if beqb x (B "range") then B "__Range" else x).

  Definition ident_arg (dot : bool) (x : bytes) : targ :=
    let n := if beqb x (B "range") then B "__Range" else x in
    if dot && negb (known x) then AVar n [] else AIdent n.

  Definition strip1 (s : bytes) : bytes :=
    match s with c :: r => if Ascii.eqb c "." || Ascii.eqb c "$" then r else s | [] => [] end.

  Definition sp : bytes := B " ".
  Definition cmd1 (a : targ) : targ := APipe [] [[a]].           (* "(" a ")" *)
  Definition call (f : bytes) (args : list targ) : targ := APipe [] [AIdent f :: args].
  Definition opt_cons {A} (o : option A) (l : list A) : list A := match o with Some a => a :: l | None => l end.
  Definition or_null_t (t : bytes) : bytes := match t with [] => B "null" | _ => t end.
  Definition or_null_a (a : option targ) : targ := match a with Some a => a | None => AIdent (B "null") end.
  (* quoteLiteral: a literal part of an interpolated string; an empty part is left out *)
  Definition qlit (lit : bytes) : option bytes := match lit with [] => Some [] | _ => goquote lit end.
  Definition lit_arg (lit : bytes) : list targ := match lit with [] => [] | _ => [AStr lit] end.

  Definition dot_ir (la : option targ) (name : bytes) : option targ :=
    match la with
    | Some (AVar x fs) => Some (AVar x (fs ++ [name]))
    | Some (APipe d c) => Some (AChain (APipe d c) [name])
    | Some (AChain a fs) => Some (AChain a (fs ++ [name]))
    | Some (AIdent f) => Some (AChain (AIdent f) [name])
    | _ => None
    end.

  (* the Text arm of buildNode = quoteDelimiters of pug_parser.go (also used for buffered string literals) *)
  Definition quote_text (s : bytes) : bytes :=
    let s1 := replace_all (B "{{") (B "--{{--") s in
    let s2 := replace_all (B "}}") (B "--}}--") s1 in
    let s3 := replace_all (B "--{{--") (B "{{""{{""}}") s2 in
    let s4 := replace_all (B "--}}--") (B "{{""}}""}}") s3 in
    (* a single brace directly before one of the quoting actions would form a delimiter with its braces *)
    let s5 := replace_all (B "{{{") (B "{{""{""}}{{") s4 in
    (* a trailing brace would form a delimiter with what follows *)
    match rev s5 with
    | c :: r => if Ascii.eqb c "{" then rev r ++ B "{{""{""}}" else s5
    | [] => s5
    end.

  Definition lit_open : tok := TAct (B "{{""{{""}}") false false (AcPipe ([], [[AStr (B "{{")]])).
  Definition lit_close : tok := TAct (B "{{""}}""}}") false false (AcPipe ([], [[AStr (B "}}")]])).
  Definition lit_brace : tok := TAct (B "{{""{""}}") false false (AcPipe ([], [[AStr (B "{")]])).

  (* token view of quote_text's output: literal pieces and the two string actions *)
  Fixpoint text_toks_fuel (fuel : nat) (s acc : bytes) : list tok :=
    let flush := match acc with [] => [] | _ => [TText (rev acc)] end in
    match fuel with
    | O => flush
    | S f =>
      match s with
      | [] => flush
      | c :: r =>
        if prefixb (B "{{""{{""}}") s then flush ++ lit_open :: text_toks_fuel f (skipn 8 s) []
        else if prefixb (B "{{""}}""}}") s then flush ++ lit_close :: text_toks_fuel f (skipn 8 s) []
        else if prefixb (B "{{""{""}}") s then flush ++ lit_brace :: text_toks_fuel f (skipn 7 s) []
        else text_toks_fuel f r (c :: acc)
      end
    end.
  Definition text_toks (s : bytes) : list tok := text_toks_fuel (S (length s)) s [].

  (* a Text node: modelled when what is left after quoting contains no stray delimiter *)
  Definition ctext (s : bytes) : option (list tok) :=
    let q := quote_text s in
    let ts := text_toks q in
    if forallb (fun t => match t with TText x => negb (has_delim x) | _ => true end) ts
    then Some ts else None.

  (* renderExpression(expr, wrap=false, dot): text and the argument it parses to
     ([None] argument: the text is empty, as for a null literal) *)
  Fixpoint carg (dot : bool) (e : jexpr) {struct e} : option (bytes * option targ) :=
    let list_args :=
      fix go (es : list jexpr) : option (bytes * list targ) :=
        match es with
        | [] => Some ([], [])
        | x :: r =>
          match carg true x, go r with
          | Some (t, a), Some (ts, as_) => Some (sp ++ or_null_t t ++ ts, or_null_a a :: as_)
          | _, _ => None
          end
        end in
    let call_args :=
      fix go (es : list jexpr) : option (bytes * list targ) :=
        match es with
        | [] => Some ([], [])
        | x :: r =>
          match carg true x, go r with
          | Some (t, a), Some (ts, as_) => Some (sp ++ t ++ ts, opt_cons a as_)
          | _, _ => None
          end
        end in
    match e with
    | JId x => if is_ident x then Some (ident_text dot x, Some (ident_arg dot x)) else None
    | JNum z => Some (show_Z z, Some (ANum z))
    | JNumF t => Some (t, Some (ANumF t))
    | JStr s => match goquote s with Some q => Some (q, Some (AStr s)) | None => None end
    | JTpl parts =>
      (* interpolate (after repair F-C01-h): the literal parts as %q strings (an empty part is left out),
         the code parts compiled; [lit] = the literal part read so far *)
      let go :=
        fix go (lit : bytes) (ps : list (bytes + jexpr)) : option (bytes * list targ) :=
          match ps with
          | [] => match qlit lit with Some q => Some (q, lit_arg lit) | None => None end
          | inl s :: r => go (lit ++ s) r
          | inr x :: r =>
            match qlit lit, carg true x, go [] r with
            | Some q, Some (xt, Some xa), Some (t, a) => Some (q ++ sp ++ xt ++ sp ++ t, lit_arg lit ++ xa :: a)
            | _, _, _ => None
            end
          end in
      match go [] parts with
      | Some (t, a) => Some (B "(__str " ++ t ++ B ")", Some (call (B "__str") a))
      | None => None
      end
    | JBool b => Some ((if b then B "true" else B "false"), Some (ABool b))
    | JNull => Some ([], None)
    | JArr es =>
      match list_args es with
      | Some (t, a) => Some (B "(__op__array" ++ t ++ B ")", Some (call (B "__op__array") a))
      | None => None
      end
    | JNew _ es =>
      match list_args es with
      | Some (t, a) => Some (B "(__op__array" ++ t ++ B ")", Some (call (B "__op__array") a))
      | None => None
      end
    | JSeq es =>
      match list_args es with
      | Some (t, a) => Some (B "(__op__array" ++ t ++ B ")", Some (call (B "__op__array") a))
      | None => None
      end
    | JObj kvs =>
      let go :=
        fix go (l : list (bytes * jexpr)) : option (bytes * list targ) :=
          match l with
          | [] => Some ([], [])
          | (k, x) :: r =>
            match carg true x, go r with
            | Some (t, a), Some (ts, as_) =>
              if is_ident k then Some (B " """ ++ k ++ B """ " ++ t ++ ts, AStr k :: opt_cons a as_) else None
            | _, _ => None
            end
          end in
      match go kvs with
      | Some (t, a) => Some (B "(__op__map" ++ t ++ B ")", Some (call (B "__op__map") a))
      | None => None
      end
    | JDot l name =>
      if negb (is_ident name) then None else
      match carg true l with
      | Some (lt, la) =>
        let id := strip1 (ident_text true name) in
        match dot_ir la id with
        | Some a => Some (lt ++ B "." ++ id, Some a)
        | None => None
        end
      | None => None
      end
    | JIdx l m =>
      match carg true l, carg true m with
      | Some (lt, la), Some (mt, ma) =>
        Some (B "(__pug__index " ++ lt ++ sp ++ mt ++ B ")",
              Some (call (B "__pug__index") (opt_cons la (opt_cons ma []))))
      | _, _ => None
      end
    | JCond c a b =>
      match carg true c, carg true a, carg true b with
      | Some (ct, Some ca), Some (at_, aa), Some (bt, ba) =>
        Some (B "(__if (" ++ ct ++ B ") (" ++ or_null_t at_ ++ B ") (" ++ or_null_t bt ++ B ") )",
              Some (call (B "__if") [cmd1 ca; cmd1 (or_null_a aa); cmd1 (or_null_a ba)]))
      | _, _, _ => None
      end
    | JBin op l r =>
      let n := op_name (binop_token op) in
      if negb (mem n runtime_funcs) then None else
      match carg true l, carg true r with
      | Some (lt, la), Some (rt, ra) =>
        Some (B "(" ++ n ++ sp ++ lt ++ sp ++ rt ++ B ")", Some (call n (opt_cons la (opt_cons ra []))))
      | _, _ => None
      end
    | JCall f args =>
      match carg false f, call_args args with
      | Some (ft, Some fa), Some (ts, as_) =>
        let ok := match fa with
                  | AIdent n => callable n
                  | AVar _ (_ :: _) => true
                  | AChain _ _ => true
                  | _ => false
                  end in
        if ok then Some (B "(" ++ ft ++ ts ++ B ")", Some (APipe [] [fa :: as_])) else None
      | _, _ => None
      end
    | JUn op _ x =>
      match op with
      | UNot | UNeg =>
        let n := op_name (unop_token op) in
        if negb (mem n runtime_funcs) then None else
        match carg true x with
        | Some (t, a) => Some (B "(" ++ n ++ sp ++ t ++ B ")", Some (call n (opt_cons a [])))
        | None => None
        end
      | _ => None
      end
    | JAssign _ _ _ | JVar _ _ => None
    end.

  Definition esc_suffix (raw : bool) : bytes := if raw then [] else B " | __pug__html".
  Definition esc_cmds (raw : bool) : list (list targ) := if raw then [] else [[AIdent (B "__pug__html")]].

  (* "{{" X [" | __pug__html"] "}}" *)
  Definition wrap_value (raw : bool) (t : bytes) (a : targ) : list tok :=
    [TAct (B "{{" ++ t ++ esc_suffix raw ++ B "}}") false false (AcPipe ([], [a] :: esc_cmds raw))].

  (* "{{ " X " -}}" for a declaration / assignment *)
  Definition wrap_stmt (t : bytes) (p : tpipe) : list tok :=
    [TAct (B "{{ " ++ t ++ B " -}}") false true (AcPipe p)].

  (* renderExpression(expr, wrap=true, dot=true) under p.rawmode = raw *)
  Definition cwrap (raw : bool) (e : jexpr) : option (list tok) :=
    match e with
    | JStr s =>
      (* written as text through quoteDelimiters (after repair F-C06-f); an empty literal stays one empty text *)
      match ctext (escape s) with Some [] => Some [TText []] | o => o end
    | JNum z => Some [TText (show_Z z)]
    | JNumF t => Some [TText t]
    | JBool b => Some [TText (if b then B "true" else B "false")]
    | JNull => Some [TAct (B "{{null}}") false false (AcPipe ([], [[AIdent (B "null")]]))]
    | JSeq _ => None
    | JVar x init =>
      if negb (is_ident x) then None else
      match init with
      | None => Some (wrap_stmt (B "$" ++ x ++ B " := null") ([x], [[AIdent (B "null")]]))
      | Some i =>
        match carg true i with
        | Some (t, a) =>
          Some (wrap_stmt (B "$" ++ x ++ B " := " ++ or_null_t t) ([x], [[or_null_a a]]))
        | None => None
        end
      end
    | JAssign None (JId x) r =>
      if negb (is_ident x) || known x then None else
      match carg true r with
      | Some (t, a) => Some (wrap_stmt (B "$" ++ x ++ B " := " ++ or_null_t t) ([x], [[or_null_a a]]))
      | None => None
      end
    | JAssign None (JDot (JId o) k) r =>
      (* `$o.__assign "k" R` *)
      if negb (is_ident o) || known o || negb (is_ident k) then None else
      match carg true r with
      | Some (t, a) =>
        Some (wrap_stmt (B "($" ++ o ++ B ".__assign """ ++ k ++ B """ " ++ or_null_t t ++ B ")")
                        ([], [[APipe [] [[AVar o [B "__assign"]; AStr k; or_null_a a]]]]))
      | None => None
      end
    | JAssign _ _ _ => None
    | JUn UInc _ (JId x) =>
      if negb (is_ident x) || known x then None else
      Some (wrap_stmt (B "$" ++ x ++ B " := __op__inc $" ++ x) ([x], [[AIdent (B "__op__inc"); AVar x []]]))
    | JUn op _ x =>
      match op with
      | UNot | UNeg =>
        let n := op_name (unop_token op) in
        if negb (mem n runtime_funcs) then None else
        match carg true x with
        | Some (t, Some a) =>
          Some [TAct (B "{{" ++ n ++ sp ++ t ++ esc_suffix raw ++ B "}}") false false
                     (AcPipe ([], [AIdent n; a] :: esc_cmds raw))]
        | _ => None
        end
      | _ => None
      end
    | _ =>
      match carg true e with
      | Some (t, Some a) => Some (wrap_value raw t a)
      | _ => None
      end
    end.

  Definition sep : list tok :=
    [TText (B "     "); TAct (B "{{- """" -}}") true true (AcPipe ([], [[AStr []]])); TText (B (String (ascii_of_N 10) ""))].
  Definition nl : bytes := [ascii_of_N 10].

  (* renderStatement(stmt, wrap=true, dot=true) *)
  Fixpoint cstmt (raw : bool) (s : jstmt) {struct s} : option (list tok) :=
    match s with
    | SExpr e => cwrap raw e
    | SVar ds =>
      (fix go (l : list jexpr) : option (list tok) :=
         match l with
         | [] => Some []
         | d :: r => match cwrap raw d, go r with Some a, Some b => Some (a ++ b) | _, _ => None end
         end) ds
    | SBlock l =>
      (fix go (l : list jstmt) : option (list tok) :=
         match l with
         | [] => Some []
         | d :: r => match cstmt raw d, go r with Some a, Some b => Some (a ++ b) | _, _ => None end
         end) l
    | SIf c t e =>
      match carg true c, cstmt raw t with
      | Some (ct, Some ca), Some tq =>
        let head := TAct (B "{{if " ++ ct ++ B "}}") false false (AcIf ([], [[ca]])) in
        let tail := TAct (B "{{end}}") false false AcEnd in
        match e with
        | None => Some (head :: tq ++ [tail])
        | Some es =>
          match cstmt raw es with
          | Some [] => Some (head :: tq ++ [tail])
          | Some et =>
            if beqb (show_toks et) (B "{{null}}") then Some (head :: tq ++ [tail])
            else Some (head :: tq ++ TAct (B "{{else}}") false false AcElse :: et ++ [tail])
          | None => None
          end
        end
      | _, _ => None
      end
    | SOther => None
    end.

  (* JsExpr(val, wrap=true, rawcode=true) as Code.Render calls it *)
  Definition ccode (raw : bool) (stmts : list jstmt) : option (list tok) :=
    let many := Nat.ltb 1 (length stmts) in
    (fix go (l : list jstmt) : option (list tok) :=
       match l with
       | [] => Some []
       | s :: r =>
         match cstmt raw s, go r with
         | Some a, Some b => Some (a ++ (if debug && many then sep else []) ++ b)
         | _, _ => None
         end
       end) stmts.

  Definition is_void (name : bytes) : bool := mem name self_closing_tags.

  (* ---- compile state (renderState) ---------------------------------------- *)
  Record cstate := {
    cs_mixins : list (bytes * list tok);     (* definition order; first definition wins *)
    cs_blocks : list (list tok);
    cs_counter : nat;
  }.
  Definition cs0 : cstate := {| cs_mixins := []; cs_blocks := []; cs_counter := 0 |}.

  Definition attr_tok_text (a : pattr) : option (bytes * targ) :=
    match goquote (pa_name a), carg true (pa_val a) with
    | Some qn, Some (vt, va) =>
      if pa_esc a then
        match va with
        | Some v =>
          Some (B "(__attr " ++ qn ++ sp ++ vt ++ B " true) ",
                call (B "__attr") [AStr (pa_name a); v; ABool true])
        | None => None
        end
      else
        match goquote vt with
        | Some qv => Some (B "(__attr " ++ qn ++ sp ++ qv ++ B " false) ",
                           call (B "__attr") [AStr (pa_name a); AStr vt; ABool false])
        | None => None
        end
    | _, _ => None
    end.

  Definition cattrs (attrs : list pattr) (ablocks : list bytes) : option (list tok) :=
    match attrs, ablocks with
    | [], [] => Some []
    | _, _ =>
      let go :=
        fix go (l : list pattr) : option (bytes * list targ) :=
          match l with
          | [] => Some ([], [])
          | a :: r =>
            match attr_tok_text a, go r with
            | Some (t, x), Some (ts, xs) => Some (t ++ ts, x :: xs)
            | _, _ => None
            end
          end in
      match go attrs, ablocks with
      | Some (t, xs), [] =>
        Some [TAct (B "{{ __attrs " ++ t ++ B " }}") false false (AcPipe ([], [AIdent (B "__attrs") :: xs]))]
      | Some (t, xs), [ab] =>
        if is_ident ab then
          Some [TAct (B "{{ __attrs " ++ t ++ B "(__and_attrs $" ++ ab ++ B ") }}") false false
                     (AcPipe ([], [AIdent (B "__attrs") :: xs ++ [call (B "__and_attrs") [AVar ab []]]]))]
        else None
      | _, _ => None
      end
    end.

  Definition show_nat (n : nat) : bytes := show_N (N.of_nat n).

  Definition tx (s : string) : tok := TText (B s).

  (* Inline() of pug_blocks.go *)
  Fixpoint node_inline (n : pnode) : bool :=
    match n with
    | PTag _ i _ _ _ => i
    | PCode _ _ i => i
    | PText _ | PCond _ _ _ | PMixinBlock | PDoctype _ => true
    | PCase _ ws => forallb (fun w => forallb node_inline (snd w)) ws
    | PEach _ _ _ b | PWhile _ b | PMixinDef _ _ b | PMixinCall _ _ _ b | PBlock b => forallb node_inline b
    | PComment => true
    end.

  Definition mixin_param_toks (params : list bytes) : option (list tok) :=
    (* strings.Split of the parameter text always yields at least one (possibly empty) name *)
    let ps := match params with [] => [[]] | _ => params end in
    (fix go (l : list bytes) (i : nat) : option (list tok) :=
       match l with
       | [] => Some []
       | p :: r =>
         if negb (match p with [] => true | _ => is_ident p end) then None else
         match go r (S i) with
         | Some ts =>
           Some (TAct (B "{{- $" ++ p ++ B " := __tryindex $__args__ " ++ show_nat i ++ B " -}}") true true
                      (AcPipe ([p], [[AIdent (B "__tryindex"); AVar (B "__args__") []; ANum (Z.of_nat i)]])) :: ts)
         | None => None
         end
       end) ps 0.

  Definition tryindex_dot (v : bytes) (i : Z) : tok :=
    TAct (B "{{- $" ++ v ++ B " := (__tryindex . " ++ show_Z i ++ B ") }}") true false
         (AcPipe ([v], [[call (B "__tryindex") [ADot; ANum i]]])).

  (* Node.Render for every node kind; threads the renderState *)
  Fixpoint cnode (fuel : nat) (raw_in : bool) (st : cstate) (n : pnode) {struct fuel}
    : option (list tok * bool * cstate) :=
    (* returns tokens, the rawmode flag left behind (Code nodes set it), new state *)
    match fuel with
    | O => None
    | S f =>
      let cnodes :=
        fix go (raw : bool) (st : cstate) (l : list pnode) : option (list tok * bool * cstate) :=
          match l with
          | [] => Some ([], raw, st)
          | x :: r =>
            match cnode f raw st x with
            | Some (a, raw1, st1) =>
              match go raw1 st1 r with
              | Some (b, raw2, st2) => Some (a ++ b, raw2, st2)
              | None => None
              end
            | None => None
            end
          end in
      match n with
      | PComment => Some ([], raw_in, st)
      | PBlock l => cnodes raw_in st l
      | PText s => match ctext s with Some ts => Some (ts, raw_in, st) | None => None end
      | PDoctype v =>
        if has_delim v then None else Some ([TText (B "<!DOCTYPE " ++ v ++ B ">" ++ nl)], raw_in, st)
      | PCode stmts esc _ =>
        let raw := negb esc in
        match ccode raw stmts with Some ts => Some (ts, raw, st) | None => None end
      | PMixinBlock =>
        Some ([TAct (B "{{- template $block -}}") true true (AcTemplate (B "block") true None)], raw_in, st)
      | PCond test cons_ alt =>
        match carg true test with
        | Some (tq, Some ta) =>
          match cnodes raw_in st cons_ with
          | Some (ct, raw1, st1) =>
            let head := TAct (B "{{ if " ++ tq ++ B " -}}") false true (AcIf ([], [[ta]])) in
            let tail := TAct (B "{{ end -}}") false true AcEnd in
            match alt with
            | None => Some (head :: ct ++ [tail], raw1, st1)
            | Some a =>
              match cnode f raw1 st1 a with
              | Some (at_, raw2, st2) =>
                Some (head :: ct ++ TAct (B "{{ else -}}") false true AcElse :: at_ ++ [tail], raw2, st2)
              | None => None
              end
            end
          | None => None
          end
        | _ => None
        end
      | PEach v k obj body =>
        if negb (is_ident v) || negb (match k with Some k => is_ident k | None => true end) then None else
        match carg true obj with
        | Some (ot, Some oa) =>
          match cnodes raw_in st body with
          | Some (bt, raw1, st1) =>
            let head :=
              match k with
              | Some k => TAct (B "{{ range $" ++ k ++ B ", $" ++ v ++ B " := " ++ ot ++ B " -}}") false true
                               (AcRange ([k; v], [[oa]]))
              | None => TAct (B "{{ range $" ++ v ++ B " := " ++ ot ++ B " -}}") false true
                             (AcRange ([v], [[oa]]))
              end in
            Some (head :: bt ++ [TAct (B "{{ end -}}") false true AcEnd], raw1, st1)
          | None => None
          end
        | _ => None
        end
      | PWhile test body =>
        match carg true test with
        | Some (tq, Some ta) =>
          match cnodes raw_in st body with
          | Some (bt, raw1, st1) =>
            Some (TAct (B "{{ range " ++ tq ++ B " -}}") false true (AcRange ([], [[ta]])) :: bt
                  ++ [TAct (B "{{ end -}}") false true AcEnd], raw1, st1)
          | None => None
          end
        | _ => None
        end
      | PCase e whens =>
        match carg true e with
        | Some (et, Some ea) =>
          let go :=
            fix go (raw : bool) (st : cstate) (first : bool) (l : list (option jexpr * list pnode))
              : option (list tok * bool * cstate) :=
              match l with
              | [] => Some ([], raw, st)
              | (None, _) :: r => go raw st first r
              | (Some w, body) :: r =>
                match carg true w with
                | Some (wt, Some wa) =>
                  match cnodes raw st body with
                  | Some (bt, raw1, st1) =>
                    match go raw1 st1 false r with
                    | Some (rest, raw2, st2) =>
                      let p := ([], [[AIdent (B "__op__eql"); ea; wa]]) in
                      let head :=
                        if first then TAct (B "{{- if __op__eql " ++ et ++ sp ++ wt ++ B " }}") true false (AcIf p)
                        else TAct (B "{{- else if __op__eql " ++ et ++ sp ++ wt ++ B " }}") true false (AcElseIf p) in
                      Some (head :: bt ++ rest, raw2, st2)
                    | None => None
                    end
                  | None => None
                  end
                | _ => None
                end
              end in
          let has_when := existsb (fun w => match fst w with Some _ => true | None => false end) whens in
          if negb has_when then None else
          match go raw_in st true whens with
          | Some (ts, raw1, st1) =>
            (* the last default branch, if any, is rendered after all whens *)
            let dflt := fold_left (fun acc w => match fst w with None => Some (snd w) | Some _ => acc end) whens None in
            match dflt with
            | None => Some (ts ++ [TAct (B "{{- end }}") true false AcEnd], raw1, st1)
            | Some body =>
              match cnodes raw1 st1 body with
              | Some (bt, raw2, st2) =>
                Some (ts ++ TAct (B "{{- else }}") true false AcElse :: bt
                         ++ [TAct (B "{{- end }}") true false AcEnd], raw2, st2)
              | None => None
              end
            end
          | None => None
          end
        | _ => None
        end
      | PTag name inline attrs ablocks body =>
        if has_delim name then None else
        match cnodes raw_in st body with
        | Some (bt, raw1, st1) =>
          match cattrs attrs ablocks with
          | Some at_ =>
            let open := TText (B "<" ++ name) :: at_ ++ [tx ">"] in
            let close := [TText (B "</" ++ name ++ B ">")] in
            let core :=
              if is_void name then open
              else if beqb name (B "script") && (negb debug && existsb (Ascii.eqb (ascii_of_N 10)) (show_toks bt))
                   (* production only (repair F-C13-a): the debug separators' own line feeds are not script content *)
                   then open ++ [TText nl] ++ bt ++ [TText nl] ++ close
              else if negb (forallb node_inline body) && debug
                   then open ++ sep ++ bt ++ sep ++ close
              else open ++ bt ++ close in
            Some (core ++ (if negb inline && debug then sep else []), raw1, st1)
          | None => None
          end
        | None => None
        end
      | PMixinDef name params body =>
        if negb (is_ident name) then None else
        match lookup name (cs_mixins st) with
        | Some _ => Some ([], raw_in, st)
        | None =>
          match mixin_param_toks params, cnodes raw_in st body with
          | Some pt, Some (bt, raw1, st1) =>
            let def :=
              [TText nl; TAct (B "{{- define ""mixin_" ++ name ++ B """ }}") true false (AcDefine (B "mixin_" ++ name));
               TText nl; tryindex_dot (B "attributes") 1;
               TText nl; tryindex_dot (B "__args__") 0;
               TText nl; tryindex_dot (B "block") 2; TText nl]
              ++ pt ++ [TText nl] ++ bt ++ [TText nl; TAct (B "{{- end }}") true false AcEnd] in
            Some ([], raw1,
                  {| cs_mixins := cs_mixins st1 ++ [(name, def)]; cs_blocks := cs_blocks st1;
                     cs_counter := cs_counter st1 |})
          | _, _ => None
          end
        end
      | PMixinCall name args attrs body =>
        if negb (is_ident name) then None else
        let goat :=
          fix go (l : list pattr) : option (bytes * list targ) :=
            match l with
            | [] => Some ([], [])
            | a :: r =>
              match carg true (pa_val a), go r with
              | Some (vt, va), Some (ts, xs) =>
                if is_ident (pa_name a) || beqb (pa_name a) (B "class")
                then Some (B " """ ++ pa_name a ++ B """ " ++ vt ++ ts, AStr (pa_name a) :: opt_cons va xs)
                else None
              | _, _ => None
              end
            end in
        match goat attrs, cnodes raw_in st body, carg true (JArr args) with
        | Some (att, ata), Some (bt, raw1, st1), Some (argt, Some arga) =>
          let attr_text := B "__op__map_params " ++ att in
          let attr_arg := APipe [] [AIdent (B "__op__map_params") :: ata] in
          match bt with
          | [] =>
            Some ([TAct (B "{{ template ""mixin_" ++ name ++ B """ (__op__array (" ++ argt ++ B ") (" ++ attr_text
                           ++ B ") (null) ) }}") false false
                        (AcTemplate (B "mixin_" ++ name) false
                           (Some ([], [[call (B "__op__array") [cmd1 arga; attr_arg; cmd1 (AIdent (B "null"))]]])))],
                  raw1, st1)
          | _ =>
            if beqb (show_toks bt) [] then None else
            let bn := B "block_" ++ name ++ B "_" ++ show_nat (cs_counter st1) in
            let blk :=
              [TText nl; TText nl; TAct (B "{{- define """ ++ bn ++ B """ -}}") true true (AcDefine bn); TText nl]
              ++ bt ++ [TText nl; TAct (B "{{- end -}}") true true AcEnd] in
            Some ([TAct (B "{{ __freeze """ ++ bn ++ B """ }}") false false
                        (AcPipe ([], [[AIdent (B "__freeze"); AStr bn]]));
                   TAct (B "{{ template ""mixin_" ++ name ++ B """ (__op__array (" ++ argt ++ B ") (" ++ attr_text
                           ++ B ") (""" ++ bn ++ B """) ) }}") false false
                        (AcTemplate (B "mixin_" ++ name) false
                           (Some ([], [[call (B "__op__array") [cmd1 arga; attr_arg; cmd1 (AStr bn)]]])))],
                  raw1,
                  {| cs_mixins := cs_mixins st1; cs_blocks := cs_blocks st1 ++ [blk];
                     cs_counter := S (cs_counter st1) |})
          end
        | _, _, _ => None
        end
      end
    end.

  Fixpoint pnode_size (n : pnode) : nat :=
    let sz := fix go (l : list pnode) : nat := match l with [] => 0 | x :: r => pnode_size x + go r end in
    S (match n with
       | PTag _ _ _ _ b | PEach _ _ _ b | PWhile _ b | PMixinDef _ _ b | PMixinCall _ _ _ b | PBlock b => sz b
       | PCond _ c a => sz c + match a with Some a => pnode_size a | None => 0 end
       | PCase _ ws => (fix go (l : list (option jexpr * list pnode)) : nat :=
                          match l with [] => 0 | w :: r => sz (snd w) + go r end) ws
       | _ => 0
       end).

  (* TokenToTemplate: main nodes, then the mixin blocks, then the mixins in definition order *)
  Definition compile (nodes : list pnode) : option (list tok) :=
    match cnode (S (S (pnode_size (PBlock nodes)))) false cs0 (PBlock nodes) with
    | Some (main, _, st) =>
      Some (main ++ concat (cs_blocks st)
                 ++ flat_map (fun m => TText nl :: snd m) (cs_mixins st))
    | None => None
    end.

  Definition compile_text (nodes : list pnode) : option bytes :=
    match compile nodes with Some ts => Some (show_toks ts) | None => None end.
End Compile.
