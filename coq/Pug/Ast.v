(* pug AST (the Token kinds buildNode accepts); JS snippets are already ASTs here,
   the source text each was parsed from is the correspondence check's business. *)
From PV Require Import Base.Bytes Js.Ast.

Record pattr := { pa_name : bytes; pa_val : jexpr; pa_esc : bool }.

Inductive pnode :=
| PTag (name : bytes) (inline : bool) (attrs : list pattr) (ablocks : list bytes) (body : list pnode)
| PText (s : bytes)
| PCode (stmts : list jstmt) (must_escape inline : bool)
| PCond (test : jexpr) (cons : list pnode) (alt : option pnode)   (* alt: a PBlock or a nested PCond *)
| PCase (e : jexpr) (whens : list (option jexpr * list pnode))    (* None = default *)
| PEach (v : bytes) (k : option bytes) (obj : jexpr) (body : list pnode)
| PWhile (test : jexpr) (body : list pnode)
| PMixinDef (name : bytes) (params : list bytes) (body : list pnode)
| PMixinCall (name : bytes) (args : list jexpr) (attrs : list pattr) (body : list pnode)
| PMixinBlock
| PDoctype (v : bytes)
| PBlock (nodes : list pnode)
| PComment.
