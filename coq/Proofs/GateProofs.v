(* C09 proofs: invariants of the gate acceptor over ALL accepted event
   sequences (induction over the event list, from the right because [reach]
   is a [fold_left]) and for ALL limits. *)
From PV Require Import Base.Bytes Models.Gate.

(* ------------------------------------------------------------------ lists *)

Lemma memr_In r l : memr r l = true <-> In r l.
Proof.
  unfold memr; rewrite existsb_exists; split.
  - intros [x [Hx He]]; apply Nat.eqb_eq in He; subst; exact Hx.
  - intros H; exists r; split; [exact H|apply Nat.eqb_refl].
Qed.

Lemma memr_false r l : memr r l = false <-> ~ In r l.
Proof. rewrite <- memr_In; destruct (memr r l); split; intros; congruence. Qed.

Lemma memr_snoc x l r : memr x (l ++ [r]) = memr x l || Nat.eqb r x.
Proof.
  unfold memr; rewrite existsb_app; simpl; rewrite orb_false_r, (Nat.eqb_sym x r); reflexivity.
Qed.

Lemma del_In r x l : In x (del r l) <-> In x l /\ x <> r.
Proof.
  unfold del; rewrite filter_In; split; intros [H1 H2]; split; auto.
  - intros ->; rewrite Nat.eqb_refl in H2; discriminate.
  - apply negb_true_iff, Nat.eqb_neq; congruence.
Qed.

Lemma del_length_le r l : length (del r l) <= length l.
Proof.
  unfold del; induction l as [|a l IH]; simpl; [lia|].
  destruct (negb (r =? a)); simpl; lia.
Qed.

Lemma del_notin r l : ~ In r l -> del r l = l.
Proof.
  unfold del; induction l as [|a l IH]; simpl; intros H; [reflexivity|].
  destruct (r =? a) eqn:E; simpl.
  - apply Nat.eqb_eq in E; subst; exfalso; apply H; left; reflexivity.
  - f_equal; apply IH; intros Hi; apply H; right; exact Hi.
Qed.

Lemma del_head r l : ~ In r l -> del r (r :: l) = l.
Proof.
  intros H; unfold del; simpl; rewrite Nat.eqb_refl; simpl; apply del_notin; exact H.
Qed.

Lemma del_length_NoDup r l : NoDup l -> In r l -> S (length (del r l)) = length l.
Proof.
  induction 1 as [|a l Hn Hd IH]; intros Hi; [destruct Hi|].
  destruct (Nat.eq_dec r a) as [->|Hne].
  - rewrite del_head by exact Hn; reflexivity.
  - destruct Hi as [->|Hi]; [congruence|].
    unfold del in *; simpl. apply Nat.eqb_neq in Hne; rewrite Hne; simpl.
    rewrite IH by exact Hi; reflexivity.
Qed.

Lemma filter_and {A} (f g : A -> bool) l :
  filter f (filter g l) = filter (fun x => g x && f x) l.
Proof.
  induction l as [|a l IH]; simpl; [reflexivity|].
  destruct (g a); simpl; [destruct (f a); simpl; rewrite IH; reflexivity|exact IH].
Qed.

Lemma NoDup_snoc {A} (l : list A) x : NoDup l -> ~ In x l -> NoDup (l ++ [x]).
Proof.
  induction l as [|a l IH]; simpl; intros Hn Hx.
  - constructor; [intros []|constructor].
  - inversion Hn as [|a' l' Ha Hl]; subst; constructor.
    + rewrite in_app_iff; simpl; intros [H|[H|[]]]; [exact (Ha H)|apply Hx; left; symmetry; exact H].
    + apply IH; [exact Hl|intros H; apply Hx; right; exact H].
Qed.

(* removing [r] from a filtered list = filtering with [r] added to the exclusion list *)
Lemma filter_excl_snoc (l E : list rid) r :
  filter (fun x => negb (memr x (l ++ [r]))) E = del r (filter (fun x => negb (memr x l)) E).
Proof.
  unfold del; rewrite filter_and; apply filter_ext; intros x.
  rewrite memr_snoc, negb_orb; reflexivity.
Qed.

(* ------------------------------------------------------------------ traces *)

Lemma started_snoc evs e :
  started (evs ++ [e]) = started evs ++ match e with Start r _ => [r] | _ => [] end.
Proof. unfold started; rewrite flat_map_app; simpl; rewrite app_nil_r; reflexivity. Qed.

Lemma entered_snoc n evs e :
  entered n (evs ++ [e]) =
  entered n evs ++ match e with
                   | Enter r => [r]
                   | Start r _ => if n =? 0 then [r] else []
                   | _ => []
                   end.
Proof. unfold entered; rewrite flat_map_app; simpl; rewrite app_nil_r; reflexivity. Qed.

Lemma ended_snoc evs e :
  ended_of (evs ++ [e]) =
  ended_of evs ++ match e with Start r true => [r] | CtxEnd r => [r] | _ => [] end.
Proof. unfold ended_of; rewrite flat_map_app; simpl; rewrite app_nil_r; reflexivity. Qed.

Lemma left_snoc evs e :
  left_of (evs ++ [e]) = left_of evs ++ match e with Leave r _ => [r] | _ => [] end.
Proof. unfold left_of; rewrite flat_map_app; simpl; rewrite app_nil_r; reflexivity. Qed.

Lemma cancelled_snoc evs e :
  cancelled_of (evs ++ [e]) = cancelled_of evs ++ match e with Cancel r => [r] | _ => [] end.
Proof. unfold cancelled_of; rewrite flat_map_app; simpl; rewrite app_nil_r; reflexivity. Qed.

Lemma run_app s evs evs' : run s (evs ++ evs') = run (run s evs) evs'.
Proof. unfold run; apply fold_left_app. Qed.

Lemma run_None evs : run None evs = None.
Proof. induction evs as [|e evs IH]; simpl; [reflexivity|exact IH]. Qed.

Lemma reach_snoc n evs e : reach n (evs ++ [e]) = step_opt (reach n evs) e.
Proof. unfold reach; rewrite run_app; reflexivity. Qed.

Lemma reach_app n evs evs' : reach n (evs ++ evs') = run (reach n evs) evs'.
Proof. unfold reach; apply run_app. Qed.

(* every prefix of an accepted trace is accepted *)
Lemma reach_prefix n evs evs' s :
  reach n (evs ++ evs') = Some s -> exists s0, reach n evs = Some s0.
Proof.
  rewrite reach_app; destruct (reach n evs) as [s0|]; [eauto|rewrite run_None; discriminate].
Qed.

(* induction over accepted traces *)
Lemma reach_ind (n : nat) (P : list gate_event -> gate_state -> Prop) :
  P [] (gate_init n) ->
  (forall evs s e s', reach n evs = Some s -> P evs s -> gate_step s e = Some s' ->
                      P (evs ++ [e]) s') ->
  forall evs s, reach n evs = Some s -> P evs s.
Proof.
  intros H0 Hstep evs; induction evs as [|e evs IH] using rev_ind; intros s H.
  - inversion H; subst; exact H0.
  - rewrite reach_snoc in H. destruct (reach n evs) as [s0|] eqn:E; [|discriminate].
    simpl in H. eapply Hstep; [exact E|apply IH; reflexivity|exact H].
Qed.

(* ------------------------------------------------------------------ the invariant *)

Record Inv (n : nat) (evs : list gate_event) (s : gate_state) : Prop := {
  i_cap       : cap s = n;
  i_used      : forall r, In r (used s) <-> In r (started evs);
  i_inflight  : inflight s = entered_not_left n evs;
  i_waiting   : waiting s = started_not_entered_not_cancelled n evs;
  i_nd_start  : NoDup (started evs);
  i_ent_sub   : incl (entered n evs) (started evs);
  i_left_sub  : incl (left_of evs) (entered n evs);
  i_canc_sub  : incl (cancelled_of evs) (started evs);
  i_canc_ent  : forall r, In r (cancelled_of evs) -> ~ In r (entered n evs);
  i_nd_ent    : NoDup (entered n evs);
  i_bound     : 0 < n -> length (inflight s) <= n;
  i_disabled  : n = 0 -> waiting s = [];
  i_ended     : forall r, In r (ended s) <-> In r (ended_of evs);
  i_ended_sub : incl (ended_of evs) (started evs);
  i_canc_end  : incl (cancelled_of evs) (ended_of evs);
}.

Lemma inv_init n : Inv n [] (gate_init n).
Proof.
  constructor; simpl; try reflexivity; try tauto; try constructor;
    try (intros x []); try (intros; lia).
Qed.

Lemma waiting_not_entered n evs s r :
  Inv n evs s -> In r (waiting s) ->
  In r (started evs) /\ ~ In r (entered n evs) /\ ~ In r (cancelled_of evs).
Proof.
  intros I H. rewrite (i_waiting _ _ _ I) in H.
  unfold started_not_entered_not_cancelled in H. apply filter_In in H.
  destruct H as [Hs Hp]. apply andb_true_iff in Hp. destruct Hp as [H1 H2].
  apply negb_true_iff in H1, H2. apply memr_false in H1, H2. auto.
Qed.

Lemma inflight_entered n evs s r :
  Inv n evs s -> In r (inflight s) -> In r (entered n evs) /\ ~ In r (left_of evs).
Proof.
  intros I H. rewrite (i_inflight _ _ _ I) in H. unfold entered_not_left in H.
  apply filter_In in H. destruct H as [He Hp]. apply negb_true_iff, memr_false in Hp. auto.
Qed.

Ltac snocs :=
  unfold entered_not_left, started_not_entered_not_cancelled;
  rewrite ?started_snoc, ?entered_snoc, ?left_snoc, ?cancelled_snoc, ?ended_snoc; simpl.

Lemma inv_step n evs s e s' :
  Inv n evs s -> gate_step s e = Some s' -> Inv n (evs ++ [e]) s'.
Proof.
  intros I H. pose proof (i_cap _ _ _ I) as Hcap.
  destruct e as [r b|r|r|r o|r]; simpl in H.
  - (* Start *)
    destruct (memr r (used s)) eqn:Hu; [discriminate|].
    apply memr_false in Hu. rewrite (i_used _ _ _ I) in Hu.
    assert (Hne : ~ In r (entered n evs)) by (intros X; apply Hu, (i_ent_sub _ _ _ I), X).
    assert (Hnl : ~ In r (left_of evs)) by (intros X; apply Hne, (i_left_sub _ _ _ I), X).
    assert (Hnc : ~ In r (cancelled_of evs)) by (intros X; apply Hu, (i_canc_sub _ _ _ I), X).
    destruct (cap s =? 0) eqn:Hc; inversion H; subst s'; clear H.
    + (* disabled: straight in flight *)
      apply Nat.eqb_eq in Hc. assert (Hn : n = 0) by congruence.
      assert (Hn0 : (n =? 0) = true) by (apply Nat.eqb_eq; exact Hn).
      constructor; simpl; snocs; rewrite ?Hn0, ?app_nil_r.
      * exact Hcap.
      * intros x; rewrite in_app_iff, <- (i_used _ _ _ I); simpl; intuition.
      * rewrite filter_app; simpl. apply memr_false in Hnl; rewrite Hnl; simpl.
        rewrite (i_inflight _ _ _ I); reflexivity.
      * rewrite filter_app; simpl. rewrite memr_snoc, Nat.eqb_refl, orb_true_r; simpl.
        rewrite app_nil_r, (i_waiting _ _ _ I).
        unfold started_not_entered_not_cancelled. apply filter_ext_in; intros x Hx.
        rewrite memr_snoc. destruct (r =? x) eqn:E; [|rewrite orb_false_r; reflexivity].
        apply Nat.eqb_eq in E; subst x; contradiction.
      * apply NoDup_snoc; [exact (i_nd_start _ _ _ I)|exact Hu].
      * apply incl_app; [apply incl_appl, (i_ent_sub _ _ _ I)|].
        intros x [->|[]]; rewrite in_app_iff; right; left; reflexivity.
      * apply incl_appl, (i_left_sub _ _ _ I).
      * apply incl_appl, (i_canc_sub _ _ _ I).
      * intros x Hx; rewrite in_app_iff; simpl; intros [X|[->|[]]];
          [exact (i_canc_ent _ _ _ I x Hx X)|contradiction].
      * apply NoDup_snoc; [exact (i_nd_ent _ _ _ I)|exact Hne].
      * intros; lia.
      * intros _; apply (i_disabled _ _ _ I); exact Hn.
      * intros x; destruct b; simpl; rewrite ?app_nil_r, ?in_app_iff; simpl;
          rewrite <- (i_ended _ _ _ I x); intuition.
      * destruct b; rewrite ?app_nil_r.
        -- apply incl_app; [apply incl_appl, (i_ended_sub _ _ _ I)|].
           intros x [->|[]]; rewrite in_app_iff; right; left; reflexivity.
        -- apply incl_appl, (i_ended_sub _ _ _ I).
      * apply incl_appl, (i_canc_end _ _ _ I).
    + (* enabled: waits at the select *)
      apply Nat.eqb_neq in Hc. assert (Hn : n <> 0) by congruence.
      assert (Hn0 : (n =? 0) = false) by (apply Nat.eqb_neq; exact Hn).
      constructor; simpl; snocs; rewrite ?Hn0, ?app_nil_r.
      * exact Hcap.
      * intros x; rewrite in_app_iff, <- (i_used _ _ _ I); simpl; intuition.
      * exact (i_inflight _ _ _ I).
      * rewrite filter_app; simpl.
        apply memr_false in Hne, Hnc; rewrite Hne, Hnc; simpl.
        rewrite (i_waiting _ _ _ I); reflexivity.
      * apply NoDup_snoc; [exact (i_nd_start _ _ _ I)|exact Hu].
      * apply incl_appl, (i_ent_sub _ _ _ I).
      * exact (i_left_sub _ _ _ I).
      * apply incl_appl, (i_canc_sub _ _ _ I).
      * exact (i_canc_ent _ _ _ I).
      * exact (i_nd_ent _ _ _ I).
      * exact (i_bound _ _ _ I).
      * intros; lia.
      * intros x; destruct b; simpl; rewrite ?app_nil_r, ?in_app_iff; simpl;
          rewrite <- (i_ended _ _ _ I x); intuition.
      * destruct b; rewrite ?app_nil_r.
        -- apply incl_app; [apply incl_appl, (i_ended_sub _ _ _ I)|].
           intros x [->|[]]; rewrite in_app_iff; right; left; reflexivity.
        -- apply incl_appl, (i_ended_sub _ _ _ I).
      * apply incl_appl, (i_canc_end _ _ _ I).
  - (* CtxEnd: only [ended] changes *)
    destruct (memr r (used s)) eqn:Hu; [|discriminate].
    inversion H; subst s'; clear H. apply memr_In in Hu. rewrite (i_used _ _ _ I) in Hu.
    constructor; simpl; snocs; rewrite ?app_nil_r.
    + exact Hcap.
    + exact (i_used _ _ _ I).
    + exact (i_inflight _ _ _ I).
    + exact (i_waiting _ _ _ I).
    + exact (i_nd_start _ _ _ I).
    + exact (i_ent_sub _ _ _ I).
    + exact (i_left_sub _ _ _ I).
    + exact (i_canc_sub _ _ _ I).
    + exact (i_canc_ent _ _ _ I).
    + exact (i_nd_ent _ _ _ I).
    + exact (i_bound _ _ _ I).
    + exact (i_disabled _ _ _ I).
    + intros x; rewrite in_app_iff; simpl; rewrite <- (i_ended _ _ _ I x); intuition.
    + apply incl_app; [exact (i_ended_sub _ _ _ I)|intros x [->|[]]; exact Hu].
    + apply incl_appl, (i_canc_end _ _ _ I).
  - (* Enter *)
    destruct (memr r (waiting s)) eqn:Hw; [|discriminate].
    destruct (length (inflight s) <? cap s) eqn:Hlt; [|discriminate].
    simpl in H; inversion H; subst s'; clear H.
    apply memr_In in Hw. apply Nat.ltb_lt in Hlt.
    destruct (waiting_not_entered _ _ _ _ I Hw) as [Hs [Hne Hnc]].
    assert (Hnl : ~ In r (left_of evs)) by (intros X; apply Hne, (i_left_sub _ _ _ I), X).
    constructor; simpl; snocs; rewrite ?app_nil_r.
    + exact Hcap.
    + exact (i_used _ _ _ I).
    + rewrite filter_app; simpl. apply memr_false in Hnl; rewrite Hnl; simpl.
      rewrite (i_inflight _ _ _ I); reflexivity.
    + rewrite (i_waiting _ _ _ I). unfold started_not_entered_not_cancelled, del.
      rewrite filter_and. apply filter_ext; intros x.
      rewrite memr_snoc, negb_orb.
      destruct (memr x (entered n evs)), (memr x (cancelled_of evs)), (r =? x); reflexivity.
    + exact (i_nd_start _ _ _ I).
    + apply incl_app; [exact (i_ent_sub _ _ _ I)|intros x [->|[]]; exact Hs].
    + apply incl_appl, (i_left_sub _ _ _ I).
    + exact (i_canc_sub _ _ _ I).
    + intros x Hx; rewrite in_app_iff; simpl; intros [X|[->|[]]];
        [exact (i_canc_ent _ _ _ I x Hx X)|contradiction].
    + apply NoDup_snoc; [exact (i_nd_ent _ _ _ I)|exact Hne].
    + intros _; rewrite app_length; simpl; lia.
    + intros Hn; rewrite (i_disabled _ _ _ I Hn) in Hw; destruct Hw.
    + exact (i_ended _ _ _ I).
    + exact (i_ended_sub _ _ _ I).
    + exact (i_canc_end _ _ _ I).
  - (* Leave *)
    destruct (memr r (inflight s)) eqn:Hi; [|discriminate].
    inversion H; subst s'; clear H. apply memr_In in Hi.
    destruct (inflight_entered _ _ _ _ I Hi) as [He Hnl].
    constructor; simpl; snocs; rewrite ?app_nil_r.
    + exact Hcap.
    + exact (i_used _ _ _ I).
    + rewrite filter_excl_snoc, (i_inflight _ _ _ I); reflexivity.
    + exact (i_waiting _ _ _ I).
    + exact (i_nd_start _ _ _ I).
    + exact (i_ent_sub _ _ _ I).
    + apply incl_app; [exact (i_left_sub _ _ _ I)|intros x [->|[]]; exact He].
    + exact (i_canc_sub _ _ _ I).
    + exact (i_canc_ent _ _ _ I).
    + exact (i_nd_ent _ _ _ I).
    + intros Hn; pose proof (i_bound _ _ _ I Hn); pose proof (del_length_le r (inflight s)); lia.
    + exact (i_disabled _ _ _ I).
    + exact (i_ended _ _ _ I).
    + exact (i_ended_sub _ _ _ I).
    + exact (i_canc_end _ _ _ I).
  - (* Cancel *)
    destruct (memr r (waiting s)) eqn:Hw; [|discriminate].
    destruct (memr r (ended s)) eqn:Hen; [|discriminate].
    simpl in H; inversion H; subst s'; clear H. apply memr_In in Hw, Hen.
    rewrite (i_ended _ _ _ I) in Hen.
    destruct (waiting_not_entered _ _ _ _ I Hw) as [Hs [Hne Hnc]].
    constructor; simpl; snocs; rewrite ?app_nil_r.
    + exact Hcap.
    + exact (i_used _ _ _ I).
    + exact (i_inflight _ _ _ I).
    + rewrite (i_waiting _ _ _ I). unfold started_not_entered_not_cancelled, del.
      rewrite filter_and. apply filter_ext; intros x.
      rewrite memr_snoc, negb_orb, andb_assoc; reflexivity.
    + exact (i_nd_start _ _ _ I).
    + exact (i_ent_sub _ _ _ I).
    + exact (i_left_sub _ _ _ I).
    + apply incl_app; [exact (i_canc_sub _ _ _ I)|intros x [->|[]]; exact Hs].
    + intros x; rewrite in_app_iff; simpl; intros [X|[<-|[]]];
        [exact (i_canc_ent _ _ _ I x X)|exact Hne].
    + exact (i_nd_ent _ _ _ I).
    + exact (i_bound _ _ _ I).
    + intros Hn; rewrite (i_disabled _ _ _ I Hn) in Hw; destruct Hw.
    + exact (i_ended _ _ _ I).
    + exact (i_ended_sub _ _ _ I).
    + apply incl_app; [exact (i_canc_end _ _ _ I)|intros x [->|[]]; exact Hen].
Qed.

Theorem reach_inv n evs s : reach n evs = Some s -> Inv n evs s.
Proof.
  apply (reach_ind n (Inv n)); [apply inv_init|].
  intros evs0 s0 e s' _ I H; exact (inv_step _ _ _ _ _ I H).
Qed.

Lemma inflight_NoDup n evs s : reach n evs = Some s -> NoDup (inflight s).
Proof.
  intros H; pose proof (reach_inv _ _ _ H) as I.
  rewrite (i_inflight _ _ _ I); apply NoDup_filter, (i_nd_ent _ _ _ I).
Qed.

(* ------------------------------------------------------------------ C09_bound *)

Theorem gate_bound n evs s :
  0 < n -> reach n evs = Some s -> length (inflight s) <= n.
Proof. intros Hn H; exact (i_bound _ _ _ (reach_inv _ _ _ H) Hn). Qed.

(* ------------------------------------------------------------------ refill *)

Lemma starts_accepted rs : forall s,
  NoDup rs -> (forall r, In r rs -> ~ In r (used s)) -> 0 < cap s ->
  run (Some s) (map (fun r => Start r false) rs) =
  Some (mk_gate (cap s) (inflight s) (waiting s ++ rs) (rev rs ++ used s) (ended s)).
Proof.
  induction rs as [|r rs IH]; intros s Hnd Hfresh Hcap.
  - simpl; rewrite app_nil_r; destruct s; reflexivity.
  - inversion Hnd as [|r' rs' Hr Hnd']; subst.
    unfold run; simpl.
    assert (Hu : memr r (used s) = false) by (apply memr_false, Hfresh; left; reflexivity).
    rewrite Hu. assert (Hc : (cap s =? 0) = false) by (apply Nat.eqb_neq; lia). rewrite Hc.
    change (fold_left step_opt (map (fun r => Start r false) rs) ?x)
      with (run x (map (fun r => Start r false) rs)).
    rewrite IH; simpl.
    + rewrite <- !app_assoc; reflexivity.
    + exact Hnd'.
    + intros x Hx [<-|Hin]; [contradiction|]. apply (Hfresh x); [right; exact Hx|exact Hin].
    + exact Hcap.
Qed.

Lemma enters_accepted rs : forall s,
  NoDup rs -> waiting s = rs -> length (inflight s) + length rs <= cap s ->
  run (Some s) (map Enter rs) = Some (mk_gate (cap s) (inflight s ++ rs) [] (used s) (ended s)).
Proof.
  induction rs as [|r rs IH]; intros s Hnd Hw Hlen.
  - simpl; rewrite app_nil_r; destruct s; simpl in *; subst; reflexivity.
  - inversion Hnd as [|r' rs' Hr Hnd']; subst.
    unfold run; simpl. rewrite Hw. unfold memr at 1; simpl. rewrite Nat.eqb_refl; simpl.
    simpl in Hlen.
    assert (Hlt : (length (inflight s) <? cap s) = true) by (apply Nat.ltb_lt; lia).
    rewrite Hlt.
    change (fold_left step_opt (map Enter rs) ?x) with (run x (map Enter rs)).
    rewrite IH; simpl.
    + rewrite <- app_assoc; reflexivity.
    + exact Hnd'.
    + apply del_notin; exact Hr.
    + rewrite app_length; simpl; lia.
Qed.

(* from a state with nothing in flight and nobody waiting, any [<= cap] fresh
   renders all start and all enter: they are then in flight together *)
Lemma refill_accepted s rs :
  inflight s = [] -> waiting s = [] -> 0 < cap s ->
  NoDup rs -> (forall r, In r rs -> ~ In r (used s)) -> length rs <= cap s ->
  run (Some s) (refill rs) = Some (mk_gate (cap s) rs [] (rev rs ++ used s) (ended s)).
Proof.
  intros Hi Hw Hc Hnd Hfresh Hlen. unfold refill.
  rewrite run_app, starts_accepted by assumption.
  rewrite enters_accepted; simpl; rewrite ?Hi, ?Hw; simpl; auto.
Qed.

(* ------------------------------------------------------------------ C09_no_leak *)

Theorem gate_no_leak n evs s :
  reach n evs = Some s ->
  inflight s = entered_not_left n evs /\
  waiting s = started_not_entered_not_cancelled n evs /\
  (all_started_done evs ->
     inflight s = [] /\ waiting s = [] /\
     forall rs, NoDup rs -> (forall r, In r rs -> ~ In r (started evs)) -> length rs = n ->
       exists s', reach n (evs ++ refill rs) = Some s' /\
                  (0 < n -> inflight s' = rs /\ waiting s' = [])).
Proof.
  intros H; pose proof (reach_inv _ _ _ H) as I.
  split; [exact (i_inflight _ _ _ I)|]. split; [exact (i_waiting _ _ _ I)|].
  intros Hdone.
  assert (Hi : inflight s = []).
  { rewrite (i_inflight _ _ _ I). unfold entered_not_left.
    destruct (filter _ _) as [|x l] eqn:E; [reflexivity|exfalso].
    assert (Hx : In x (x :: l)) by (left; reflexivity). rewrite <- E in Hx.
    apply filter_In in Hx. destruct Hx as [He Hp]. apply negb_true_iff, memr_false in Hp.
    destruct (Hdone x (i_ent_sub _ _ _ I x He)) as [Hl|Hc]; [exact (Hp Hl)|].
    exact (i_canc_ent _ _ _ I x Hc He). }
  assert (Hw : waiting s = []).
  { rewrite (i_waiting _ _ _ I). unfold started_not_entered_not_cancelled.
    destruct (filter _ _) as [|x l] eqn:E; [reflexivity|exfalso].
    assert (Hx : In x (x :: l)) by (left; reflexivity). rewrite <- E in Hx.
    apply filter_In in Hx. destruct Hx as [Hs Hp]. apply andb_true_iff in Hp.
    destruct Hp as [H1 H2]. apply negb_true_iff, memr_false in H1, H2.
    destruct (Hdone x Hs) as [Hl|Hc]; [exact (H1 (i_left_sub _ _ _ I x Hl))|exact (H2 Hc)]. }
  split; [exact Hi|]. split; [exact Hw|].
  intros rs Hnd Hfresh Hlen. rewrite reach_app, H.
  destruct n as [|n'].
  - destruct rs; [|discriminate]. exists s; split; [reflexivity|intros; lia].
  - pose proof (i_cap _ _ _ I) as Hcap.
    rewrite refill_accepted; try assumption; try lia.
    + eexists; split; [reflexivity|]. intros _; simpl; auto.
    + intros r Hr; rewrite (i_used _ _ _ I); exact (Hfresh r Hr).
Qed.

(* ------------------------------------------------------------------ C09_every_exit_releases *)

(* whatever the outcome, a render in flight can leave, and leaving frees exactly
   its one slot and changes nothing else *)
Theorem gate_every_exit_releases n evs s r o :
  reach n evs = Some s -> In r (inflight s) ->
  exists s', gate_step s (Leave r o) = Some s' /\
             S (length (inflight s')) = length (inflight s) /\
             ~ In r (inflight s') /\
             (forall x, x <> r -> (In x (inflight s') <-> In x (inflight s))) /\
             waiting s' = waiting s /\ cap s' = cap s.
Proof.
  intros H Hi. simpl. apply memr_In in Hi as Hm. rewrite Hm.
  eexists; split; [reflexivity|]; simpl.
  split; [apply del_length_NoDup; [exact (inflight_NoDup _ _ _ H)|exact Hi]|].
  split; [rewrite del_In; tauto|].
  split; [intros x Hx; rewrite del_In; tauto|auto].
Qed.

(* and a render that is not in flight has nothing to release *)
Lemma leave_needs_inflight s r o : ~ In r (inflight s) -> gate_step s (Leave r o) = None.
Proof. intros H; simpl; apply memr_false in H; rewrite H; reflexivity. Qed.

(* ------------------------------------------------------------------ C09_cancel_takes_no_slot *)

Theorem gate_cancel_takes_no_slot n evs s r :
  reach n evs = Some s -> In r (cancelled_of evs) ->
  ~ In r (entered n evs) /\ ~ In r (inflight s) /\ ~ In r (waiting s).
Proof.
  intros H Hc; pose proof (reach_inv _ _ _ H) as I.
  pose proof (i_canc_ent _ _ _ I r Hc) as Hne.
  split; [exact Hne|]. split.
  - intros X; apply (inflight_entered _ _ _ _ I) in X; tauto.
  - intros X; apply (waiting_not_entered _ _ _ _ I) in X; tauto.
Qed.

(* the step itself: only a waiting render whose context is over can be cancelled;
   the set in flight is untouched *)
Theorem gate_cancel_step s r s' :
  gate_step s (Cancel r) = Some s' ->
  In r (waiting s) /\ In r (ended s) /\ inflight s' = inflight s /\ waiting s' = del r (waiting s).
Proof.
  simpl; destruct (memr r (waiting s)) eqn:E; [|discriminate].
  destruct (memr r (ended s)) eqn:E2; [|discriminate].
  intros H; inversion H; subst; simpl. apply memr_In in E, E2; auto.
Qed.

(* ------------------------------------------------------------------ contexts that are over *)

(* the context error is only ever given to a caller whose context is over *)
Theorem gate_cancel_needs_ended n evs s r :
  reach n evs = Some s -> In r (cancelled_of evs) -> In r (ended_of evs).
Proof. intros H Hc; exact (i_canc_end _ _ _ (reach_inv _ _ _ H) r Hc). Qed.

Lemma live_context_not_cancelled s r : ~ In r (ended s) -> gate_step s (Cancel r) = None.
Proof. intros H; simpl; apply memr_false in H; rewrite H, andb_false_r; reflexivity. Qed.

(* a waiting render whose context is over can always return its error (the
   [<-ctx.Done()] case is ready whatever the gate looks like) and takes nothing with it *)
Theorem gate_ended_waiter_returns n evs s r :
  reach n evs = Some s -> In r (waiting s) -> In r (ended s) ->
  exists s', gate_step s (Cancel r) = Some s' /\
             inflight s' = inflight s /\ waiting s' = del r (waiting s) /\ cap s' = cap s.
Proof.
  intros _ Hw He. simpl. apply memr_In in Hw, He. rewrite Hw, He. simpl.
  eexists; split; [reflexivity|]; simpl; auto.
Qed.

(* Render called with a context that is ALREADY over, limit enabled.  The call is
   accepted and takes nothing yet.  From there the caller may get the error: then
   the gate is exactly as before the call.  It may enter exactly when a slot is
   free (select is free to choose) and is then in flight like any other render
   (so [gate_every_exit_releases] applies to it).  At a full gate the error is
   the only possibility, and there is no way out that skips the gate. *)
Theorem gate_ended_start n evs s r :
  0 < n -> reach n evs = Some s -> ~ In r (started evs) ->
  exists s1, gate_step s (Start r true) = Some s1 /\
    inflight s1 = inflight s /\ waiting s1 = waiting s ++ [r] /\ In r (ended s1) /\
    (exists s2, gate_step s1 (Cancel r) = Some s2 /\
                inflight s2 = inflight s /\ waiting s2 = waiting s /\ cap s2 = cap s) /\
    (length (inflight s) < n ->
       exists s2, gate_step s1 (Enter r) = Some s2 /\
                  inflight s2 = inflight s ++ [r] /\ waiting s2 = waiting s) /\
    (n <= length (inflight s) -> gate_step s1 (Enter r) = None) /\
    (forall o, gate_step s1 (Leave r o) = None).
Proof.
  intros Hn H Hfresh. pose proof (reach_inv _ _ _ H) as I.
  pose proof (i_cap _ _ _ I) as Hcap.
  assert (Hu : memr r (used s) = false) by (apply memr_false; rewrite (i_used _ _ _ I); exact Hfresh).
  assert (Hc : (cap s =? 0) = false) by (apply Nat.eqb_neq; lia).
  assert (Hnw : ~ In r (waiting s)).
  { intros X; apply (waiting_not_entered _ _ _ _ I) in X; tauto. }
  assert (Hni : ~ In r (inflight s)).
  { intros X; apply (inflight_entered _ _ _ _ I) in X. destruct X as [X _].
    apply Hfresh, (i_ent_sub _ _ _ I), X. }
  assert (Hdel : del r (waiting s ++ [r]) = waiting s).
  { unfold del; rewrite filter_app; simpl; rewrite Nat.eqb_refl; simpl; rewrite app_nil_r.
    apply del_notin; exact Hnw. }
  assert (Hmw : memr r (waiting s ++ [r]) = true) by (rewrite memr_snoc, Nat.eqb_refl, orb_true_r; reflexivity).
  eexists; split; [simpl; rewrite Hu, Hc; reflexivity|]; simpl.
  split; [reflexivity|]. split; [reflexivity|]. split; [left; reflexivity|].
  rewrite Hmw. unfold memr at 1; simpl; rewrite Nat.eqb_refl; simpl.
  split; [eexists; split; [reflexivity|]; simpl; rewrite Hdel; auto|].
  split.
  - intros Hlt. assert (E : (length (inflight s) <? cap s) = true) by (apply Nat.ltb_lt; lia).
    rewrite E. eexists; split; [reflexivity|]; simpl; rewrite Hdel; auto.
  - split.
    + intros Hge. assert (E : (length (inflight s) <? cap s) = false) by (apply Nat.ltb_ge; lia).
      rewrite E; reflexivity.
    + intros _. apply memr_false in Hni; rewrite Hni; reflexivity.
Qed.

(* The context of a waiting render [rw] ends while a render in flight [ri] hands
   its slot back.  Both are accepted in either order and commute; afterwards
   [rw] may return the error - then the slot of [ri] is free - or take that slot
   and be in flight.  These are the only two ways on for [rw]; in both the
   slots in use are exactly the renders in flight. *)
Theorem gate_cancel_release_race n evs s rw ri o :
  reach n evs = Some s -> In rw (waiting s) -> In ri (inflight s) ->
  exists s1, run (Some s) [CtxEnd rw; Leave ri o] = Some s1 /\
             run (Some s) [Leave ri o; CtxEnd rw] = Some s1 /\
    inflight s1 = del ri (inflight s) /\ waiting s1 = waiting s /\
    (exists s2, gate_step s1 (Cancel rw) = Some s2 /\
                inflight s2 = del ri (inflight s) /\ waiting s2 = del rw (waiting s)) /\
    (exists s2, gate_step s1 (Enter rw) = Some s2 /\
                inflight s2 = del ri (inflight s) ++ [rw] /\ waiting s2 = del rw (waiting s) /\
                length (inflight s2) = length (inflight s)) /\
    (forall o', gate_step s1 (Leave rw o') = None).
Proof.
  intros H Hw Hi. pose proof (reach_inv _ _ _ H) as I.
  pose proof (i_cap _ _ _ I) as Hcap.
  destruct (waiting_not_entered _ _ _ _ I Hw) as [Hs [Hne _]].
  assert (Hn : 0 < n).
  { destruct n; [|lia]. rewrite (i_disabled _ _ _ I eq_refl) in Hw; destruct Hw. }
  assert (Hu : memr rw (used s) = true) by (apply memr_In; rewrite (i_used _ _ _ I); exact Hs).
  assert (Hmi : memr ri (inflight s) = true) by (apply memr_In; exact Hi).
  assert (Hmw : memr rw (waiting s) = true) by (apply memr_In; exact Hw).
  assert (Hlen : S (length (del ri (inflight s))) = length (inflight s)).
  { apply del_length_NoDup; [exact (inflight_NoDup _ _ _ H)|exact Hi]. }
  pose proof (i_bound _ _ _ I Hn) as Hb.
  assert (Hlt : (length (del ri (inflight s)) <? cap s) = true) by (apply Nat.ltb_lt; lia).
  assert (Hnri : memr rw (del ri (inflight s)) = false).
  { apply memr_false; rewrite del_In; intros [X _].
    apply (inflight_entered _ _ _ _ I) in X; tauto. }
  eexists. unfold run; simpl. repeat (progress (rewrite ?Hu, ?Hmi; simpl)).
  split; [reflexivity|]. split; [reflexivity|]. simpl.
  split; [reflexivity|]. split; [reflexivity|].
  rewrite Hmw, Hlt, Hnri. unfold memr at 1; simpl; rewrite Nat.eqb_refl; simpl.
  split; [eexists; split; [reflexivity|]; simpl; auto|].
  split; [|reflexivity].
  eexists; split; [reflexivity|]; simpl. split; [reflexivity|]. split; [reflexivity|].
  rewrite app_length; simpl; lia.
Qed.

(* ------------------------------------------------------------------ C09_disabled_never_waits *)

(* with the limit disabled an accepted trace contains no Enter: entering = starting *)
Lemma entered_disabled evs s : reach 0 evs = Some s -> entered 0 evs = started evs.
Proof.
  intros H.
  assert (G : Inv 0 evs s /\ entered 0 evs = started evs); [|exact (proj2 G)].
  revert evs s H. apply (reach_ind 0 (fun evs s => Inv 0 evs s /\ entered 0 evs = started evs)).
  - split; [apply inv_init|reflexivity].
  - intros evs s e s' _ [I E] Hs. split; [exact (inv_step _ _ _ _ _ I Hs)|].
    rewrite entered_snoc, started_snoc, E.
    destruct e as [r b|r|r|r o|r]; try reflexivity.
    simpl in Hs. rewrite (i_disabled _ _ _ I eq_refl) in Hs. discriminate.
Qed.

Theorem gate_disabled_never_waits evs s :
  reach 0 evs = Some s ->
  waiting s = [] /\
  inflight s = filter (fun r => negb (memr r (left_of evs))) (started evs).
Proof.
  intros H; pose proof (reach_inv _ _ _ H) as I.
  split; [exact (i_disabled _ _ _ I eq_refl)|].
  rewrite (i_inflight _ _ _ I). unfold entered_not_left.
  rewrite (entered_disabled _ _ H). reflexivity.
Qed.

(* ------------------------------------------------------------------ C09_progress *)

Theorem gate_progress n evs s :
  reach n evs = Some s -> waiting s <> [] -> length (inflight s) < cap s ->
  (exists r, In r (waiting s)) /\
  (forall r, In r (waiting s) -> exists s', gate_step s (Enter r) = Some s').
Proof.
  intros _ Hw Hlt. split.
  - destruct (waiting s) as [|r w]; [congruence|]. exists r; left; reflexivity.
  - intros r Hr. simpl. apply memr_In in Hr. rewrite Hr.
    apply Nat.ltb_lt in Hlt. rewrite Hlt. simpl. eauto.
Qed.

(* and no Enter is possible at the limit: further calls wait *)
Lemma enter_needs_slot s r : cap s <= length (inflight s) -> gate_step s (Enter r) = None.
Proof.
  intros H; simpl. assert (E : (length (inflight s) <? cap s) = false) by (apply Nat.ltb_ge; exact H).
  rewrite E, andb_false_r; reflexivity.
Qed.

(* ------------------------------------------------------------------ a waiter at a full gate *)

(* A render waits and the gate is full (callers that arrived together beyond the
   free slots are in this position).  It cannot enter and cannot leave.  When its
   context ends nothing changes for the others, it still cannot enter, and the
   one way on is the error: it goes, the renders in flight stay exactly as they
   are - no slot has to be handed back first. *)
Theorem gate_full_gate_cancel n evs s r :
  reach n evs = Some s -> In r (waiting s) -> cap s <= length (inflight s) ->
  gate_step s (Enter r) = None /\ (forall o, gate_step s (Leave r o) = None) /\
  exists s1, gate_step s (CtxEnd r) = Some s1 /\
    inflight s1 = inflight s /\ waiting s1 = waiting s /\ cap s1 = cap s /\
    gate_step s1 (Enter r) = None /\
    exists s2, gate_step s1 (Cancel r) = Some s2 /\
      inflight s2 = inflight s /\ waiting s2 = del r (waiting s) /\ cap s2 = cap s.
Proof.
  intros H Hw Hfull. pose proof (reach_inv _ _ _ H) as I.
  destruct (waiting_not_entered _ _ _ _ I Hw) as [Hs [Hne _]].
  assert (Hu : memr r (used s) = true) by (apply memr_In; rewrite (i_used _ _ _ I); exact Hs).
  assert (Hni : memr r (inflight s) = false).
  { apply memr_false; intros X; apply (inflight_entered _ _ _ _ I) in X; tauto. }
  assert (Hmw : memr r (waiting s) = true) by (apply memr_In; exact Hw).
  assert (E : (length (inflight s) <? cap s) = false) by (apply Nat.ltb_ge; exact Hfull).
  split; [apply enter_needs_slot; exact Hfull|].
  split; [intros o; simpl; rewrite Hni; reflexivity|].
  simpl. rewrite Hu. eexists; split; [reflexivity|]; simpl.
  split; [reflexivity|]. split; [reflexivity|]. split; [reflexivity|].
  rewrite Hmw, E; simpl. split; [reflexivity|].
  unfold memr at 1; simpl; rewrite Nat.eqb_refl; simpl.
  eexists; split; [reflexivity|]; simpl; auto.
Qed.

(* ------------------------------------------------------------------ rounds: a finished history leaves a new gate *)

Lemma eqb_add d r a : (d + r =? d + a) = (r =? a).
Proof.
  destruct (Nat.eqb_spec r a) as [->|Hne]; [apply Nat.eqb_refl|apply Nat.eqb_neq; lia].
Qed.

Lemma memr_cons r x l : memr r (x :: l) = (r =? x) || memr r l.
Proof. reflexivity. Qed.

Lemma memr_shift d r l : memr (d + r) (map (Nat.add d) l) = memr r l.
Proof.
  induction l as [|a l IH]; [reflexivity|].
  simpl map. rewrite !memr_cons, eqb_add, IH; reflexivity.
Qed.

Lemma del_shift d r l : del (d + r) (map (Nat.add d) l) = map (Nat.add d) (del r l).
Proof.
  unfold del; induction l as [|a l IH]; [reflexivity|].
  simpl. rewrite eqb_add. destruct (r =? a); simpl; rewrite IH; reflexivity.
Qed.

(* the simulation: same limit, same sets up to the shift, and the two gates know
   the same about the names that can still occur (the shifted ones) *)
Definition Sim (d : nat) (a b : gate_state) : Prop :=
  cap b = cap a /\
  inflight b = map (Nat.add d) (inflight a) /\
  waiting b = map (Nat.add d) (waiting a) /\
  (forall r, memr (d + r) (used b) = memr r (used a)) /\
  (forall r, memr (d + r) (ended b) = memr r (ended a)).

Definition SimO (d : nat) (a b : option gate_state) : Prop :=
  match a, b with
  | Some a, Some b => Sim d a b
  | None, None => True
  | _, _ => False
  end.

Lemma sim_step d a b e : Sim d a b -> SimO d (gate_step a e) (gate_step b (shift d e)).
Proof.
  intros (Hc & Hi & Hw & Hu & He).
  destruct e as [r o|r|r|r o|r]; simpl.
  - (* Start *)
    rewrite Hu, Hc. destruct (memr r (used a)); [exact I|].
    destruct (cap a =? 0); unfold SimO, Sim; cbn [cap inflight waiting used ended].
    + split; [reflexivity|]. split; [rewrite Hi, map_app; reflexivity|]. split; [exact Hw|].
      split; [intros x; rewrite !memr_cons, eqb_add, Hu; reflexivity|].
      intros x; destruct o; [rewrite !memr_cons, eqb_add, He; reflexivity|apply He].
    + split; [reflexivity|]. split; [exact Hi|]. split; [rewrite Hw, map_app; reflexivity|].
      split; [intros x; rewrite !memr_cons, eqb_add, Hu; reflexivity|].
      intros x; destruct o; [rewrite !memr_cons, eqb_add, He; reflexivity|apply He].
  - (* CtxEnd *)
    rewrite Hu. destruct (memr r (used a)); [|exact I].
    unfold SimO, Sim; cbn [cap inflight waiting used ended].
    split; [exact Hc|]. split; [exact Hi|]. split; [exact Hw|]. split; [exact Hu|].
    intros x; rewrite !memr_cons, eqb_add, He; reflexivity.
  - (* Enter *)
    rewrite Hw, memr_shift, Hi, map_length, Hc. unfold rid in *.
    match goal with |- SimO _ (if ?c then _ else _) _ => destruct c end; [|exact I].
    unfold SimO, Sim; cbn [cap inflight waiting used ended].
    split; [reflexivity|]. split; [rewrite map_app; reflexivity|].
    split; [apply del_shift|]. split; [exact Hu|exact He].
  - (* Leave *)
    rewrite Hi, memr_shift. destruct (memr r (inflight a)); [|exact I].
    unfold SimO, Sim; cbn [cap inflight waiting used ended].
    split; [exact Hc|]. split; [apply del_shift|]. split; [exact Hw|]. split; [exact Hu|exact He].
  - (* Cancel *)
    rewrite Hw, memr_shift, He.
    match goal with |- SimO _ (if ?c then _ else _) _ => destruct c end; [|exact I].
    unfold SimO, Sim; cbn [cap inflight waiting used ended].
    split; [exact Hc|]. split; [exact Hi|]. split; [apply del_shift|]. split; [exact Hu|exact He].
Qed.

Lemma sim_run d evs : forall a b,
  SimO d a b -> SimO d (run a evs) (run b (map (shift d) evs)).
Proof.
  induction evs as [|e evs IH]; intros a b H; [exact H|].
  simpl. apply IH. destruct a as [a|], b as [b|]; simpl in *; try contradiction; [|exact I].
  apply sim_step; exact H.
Qed.

(* After ANY accepted history in which every started render has left or got the
   context error, ANY further history - its renders named past all names used so
   far - is accepted exactly when a new gate with the same limit accepts it, and
   then the two gates show the same renders in flight and waiting. *)
Theorem gate_round_reset n evs s d evs' :
  reach n evs = Some s -> all_started_done evs ->
  (forall r, In r (started evs) -> r < d) ->
  same_upto d (reach n evs') (run (Some s) (map (shift d) evs')).
Proof.
  intros H Hdone Hd. pose proof (reach_inv _ _ _ H) as Iv.
  destruct (gate_no_leak _ _ _ H) as (_ & _ & Hq). destruct (Hq Hdone) as (Hi & Hw & _).
  assert (S0 : SimO d (Some (gate_init n)) (Some s)).
  { simpl. split; [exact (i_cap _ _ _ Iv)|]. split; [exact Hi|]. split; [exact Hw|]. split.
    - intros r; simpl. apply memr_false. rewrite (i_used _ _ _ Iv). intros X. apply Hd in X. lia.
    - intros r; simpl. apply memr_false. rewrite (i_ended _ _ _ Iv). intros X.
      apply (i_ended_sub _ _ _ Iv), Hd in X. lia. }
  pose proof (sim_run d evs' _ _ S0) as R. unfold reach.
  destruct (run (Some (gate_init n)) evs') as [a|], (run (Some s) (map (shift d) evs')) as [b|];
    simpl in *; try contradiction; [|exact I].
  destruct R as (Hc & Hi' & Hw' & _); auto.
Qed.

(* ------------------------------------------------------------------ requests *)

Definition at_gate (g : gate_state) (r : rid) : Prop := In r (inflight g) \/ In r (waiting g).

Lemma at_started n evs s r : reach n evs = Some s -> at_gate s r -> In r (started evs).
Proof.
  intros H [X|X]; pose proof (reach_inv _ _ _ H) as I.
  - apply (inflight_entered _ _ _ _ I) in X. apply (i_ent_sub _ _ _ I), X.
  - apply (waiting_not_entered _ _ _ _ I) in X. tauto.
Qed.

Lemma inflight_not_waiting n evs s r :
  reach n evs = Some s -> In r (inflight s) -> ~ In r (waiting s).
Proof.
  intros H X Y; pose proof (reach_inv _ _ _ H) as I.
  apply (inflight_entered _ _ _ _ I) in X. apply (waiting_not_entered _ _ _ _ I) in Y. tauto.
Qed.

(* what one gate event does to the set of renders at the gate or in flight *)
Lemma step_at n evs s e s' :
  reach n evs = Some s -> gate_step s e = Some s' ->
  match e with
  | Start r _ => ~ at_gate s r /\ (forall x, at_gate s' x <-> at_gate s x \/ x = r)
  | CtxEnd _ => forall x, at_gate s' x <-> at_gate s x
  | Enter r => at_gate s r /\ (forall x, at_gate s' x <-> at_gate s x)
  | Leave r _ | Cancel r => at_gate s r /\ (forall x, at_gate s' x <-> at_gate s x /\ x <> r)
  end.
Proof.
  intros H Hs. pose proof (reach_inv _ _ _ H) as I. unfold at_gate.
  destruct e as [r b|r|r|r o|r]; simpl in Hs.
  - destruct (memr r (used s)) eqn:Hu; [discriminate|]. apply memr_false in Hu.
    split.
    + intros X. apply Hu. rewrite (i_used _ _ _ I). exact (at_started _ _ _ _ H X).
    + destruct (cap s =? 0); inversion Hs; subst s'; simpl; intros x;
        rewrite in_app_iff; simpl; intuition.
  - destruct (memr r (used s)); [|discriminate]. inversion Hs; subst s'; simpl. tauto.
  - destruct (memr r (waiting s)) eqn:Hw; [|discriminate].
    destruct (length (inflight s) <? cap s); [|discriminate].
    simpl in Hs; inversion Hs; subst s'; simpl. apply memr_In in Hw.
    split; [right; exact Hw|]. intros x. rewrite in_app_iff, del_In; simpl.
    destruct (Nat.eq_dec x r) as [->|Hne]; intuition congruence.
  - destruct (memr r (inflight s)) eqn:Hi; [|discriminate].
    inversion Hs; subst s'; simpl. apply memr_In in Hi.
    split; [left; exact Hi|]. intros x. rewrite del_In.
    pose proof (inflight_not_waiting _ _ _ r H Hi) as Hnw.
    destruct (Nat.eq_dec x r) as [->|Hne]; intuition congruence.
  - destruct (memr r (waiting s)) eqn:Hw; [|discriminate].
    destruct (memr r (ended s)); [|discriminate].
    simpl in Hs; inversion Hs; subst s'; simpl. apply memr_In in Hw.
    split; [right; exact Hw|]. intros x. rewrite del_In.
    assert (Hni : ~ In r (inflight s)) by (intros X; exact (inflight_not_waiting _ _ _ r H X Hw)).
    destruct (Nat.eq_dec x r) as [->|Hne]; intuition congruence.
Qed.

Lemma lookup_In q l r : lookup q l = Some r -> In (q, r) l.
Proof.
  unfold lookup. destruct (find (fun p => q =? fst p) l) as [[a b]|] eqn:E; [|discriminate].
  intros X; inversion X; subst. apply find_some in E. destruct E as [Hin He].
  simpl in He. apply Nat.eqb_eq in He. subst. exact Hin.
Qed.

Lemma In_lookup q r l :
  In (q, r) l -> (forall r', In (q, r') l -> r' = r) -> lookup q l = Some r.
Proof.
  unfold lookup. induction l as [|[a b] l IH]; intros Hin Hf; [destruct Hin|].
  simpl. destruct (q =? a) eqn:E.
  - apply Nat.eqb_eq in E; subst a. simpl. f_equal. apply Hf. left; reflexivity.
  - apply IH.
    + destruct Hin as [X|X]; [inversion X; subst; rewrite Nat.eqb_refl in E; discriminate|exact X].
    + intros r' X. apply Hf. right; exact X.
Qed.

Lemma drop_In q l p : In p (drop q l) <-> In p l /\ fst p <> q.
Proof.
  unfold drop. rewrite filter_In. split; intros [H1 H2]; split; auto.
  - apply negb_true_iff, Nat.eqb_neq in H2. intros X. apply H2. symmetry. exact X.
  - cbv beta. apply negb_true_iff, Nat.eqb_neq. intros X. apply H2. symmetry. exact X.
Qed.

Lemma NoDup_map_filter {A B} (f : A -> B) (p : A -> bool) l :
  NoDup (map f l) -> NoDup (map f (filter p l)).
Proof.
  induction l as [|a l IH]; simpl; intros H; [constructor|].
  inversion H as [|x y Hn Hd]; subst. destruct (p a); simpl; [|apply IH; exact Hd].
  constructor; [|apply IH; exact Hd].
  intros X. apply Hn. apply in_map_iff in X. destruct X as [z [Hz Hi]].
  apply filter_In in Hi. apply in_map_iff. exists z. tauto.
Qed.

Lemma req_run_app s evs evs' : req_run s (evs ++ evs') = req_run (req_run s evs) evs'.
Proof. unfold req_run; apply fold_left_app. Qed.

Lemma req_reach_snoc n evs e : req_reach n (evs ++ [e]) = req_step_opt (req_reach n evs) e.
Proof. unfold req_reach; rewrite req_run_app; reflexivity. Qed.

(* the invariant of the request machine *)
Record QInv (n : nat) (s : req_state) : Prop := {
  q_reach : reach n (rev (trace s)) = Some (gate s);
  q_at    : forall r, at_gate (gate s) r <-> exists q, In (q, r) (cur s);
  q_fun   : forall q r q' r', In (q, r) (cur s) -> In (q', r') (cur s) -> (q = q' <-> r = r');
  q_nd    : NoDup (map snd (cur s));
  q_used  : forall q r, In (q, r) (cur s) -> In q (qused s);
}.

Lemma qinv_init n : QInv n (req_init n).
Proof.
  constructor; simpl.
  - reflexivity.
  - intros r; split; [intros [[]|[]]|intros [q []]].
  - intros q r q' r' [].
  - constructor.
  - intros q r [].
Qed.

Lemma reach_trace n tr g evs g' :
  reach n (rev tr) = Some g -> run (Some g) evs = Some g' -> reach n (rev (rev evs ++ tr)) = Some g'.
Proof.
  intros H R. rewrite rev_app_distr, rev_involutive, reach_app, H. exact R.
Qed.

(* the request leaves the gate for good: Leave or Cancel of its render *)
Lemma qinv_gone n s q r g' e :
  QInv n s -> lookup q (cur s) = Some r ->
  (e = Cancel r \/ exists o, e = Leave r o) ->
  gate_step (gate s) e = Some g' ->
  QInv n (mk_req g' (drop q (cur s)) (qused s) (qover s) (rev [e] ++ trace s)).
Proof.
  intros Q L He Hs. apply lookup_In in L.
  pose proof (step_at _ _ _ _ _ (q_reach _ _ Q) Hs) as A.
  assert (A' : at_gate (gate s) r /\ (forall x, at_gate g' x <-> at_gate (gate s) x /\ x <> r)).
  { destruct He as [->|[o ->]]; exact A. }
  clear A. destruct A' as [_ A].
  constructor; cbn [gate cur qused qover trace].
  - apply (reach_trace _ _ _ _ _ (q_reach _ _ Q)). simpl. exact Hs.
  - intros x. rewrite A, (q_at _ _ Q). split.
    + intros [[q0 Hq0] Hne]. exists q0. apply drop_In. split; [exact Hq0|]. simpl.
      intros ->. apply Hne. symmetry. apply (q_fun _ _ Q _ _ _ _ L Hq0). reflexivity.
    + intros [q0 Hq0]. apply drop_In in Hq0. destruct Hq0 as [Hq0 Hne]. simpl in Hne.
      split; [exists q0; exact Hq0|]. intros ->. apply Hne.
      apply (q_fun _ _ Q _ _ _ _ Hq0 L). reflexivity.
  - intros a b a' b' X Y. apply drop_In in X, Y. apply (q_fun _ _ Q); tauto.
  - apply NoDup_map_filter. exact (q_nd _ _ Q).
  - intros a b X. apply drop_In in X. apply (q_used _ _ Q a b). tauto.
Qed.

(* a new render [r] for the request [q], which has no render at the gate *)
Lemma qinv_new n tr g0 c qu q r b g' :
  reach n (rev tr) = Some g0 ->
  (forall x, at_gate g0 x <-> exists q0, In (q0, x) c) ->
  (forall a x a' x', In (a, x) c -> In (a', x') c -> (a = a' <-> x = x')) ->
  NoDup (map snd c) ->
  (forall a x, In (a, x) c -> In a qu) ->
  (forall x, ~ In (q, x) c) ->
  gate_step g0 (Start r b) = Some g' ->
  forall qu' qo', incl (q :: qu) qu' ->
  QInv n (mk_req g' ((q, r) :: c) qu' qo' (Start r b :: tr)).
Proof.
  intros H Hat Hfun Hnd Hused Hq Hs qu' qo' Hincl.
  destruct (step_at _ _ _ _ _ H Hs) as [Hfresh A].
  assert (Hr : forall a, ~ In (a, r) c).
  { intros a X. apply Hfresh. apply Hat. exists a; exact X. }
  constructor; cbn [gate cur qused qover trace].
  - change (Start r b :: tr) with (rev [Start r b] ++ tr).
    apply (reach_trace _ _ _ _ _ H). simpl. exact Hs.
  - intros x. rewrite A, Hat. split.
    + intros [[q0 X]| ->]; [exists q0; right; exact X|exists q; left; reflexivity].
    + intros [q0 [X|X]]; [inversion X; subst; right; reflexivity|left; exists q0; exact X].
  - intros a x a' x' [X|X] [Y|Y].
    + inversion X; inversion Y; subst. tauto.
    + inversion X; subst. split; intros E; subst; exfalso; [exact (Hq _ Y)|exact (Hr _ Y)].
    + inversion Y; subst. split; intros E; subst; exfalso; [exact (Hq _ X)|exact (Hr _ X)].
    + exact (Hfun _ _ _ _ X Y).
  - simpl. constructor; [|exact Hnd].
    intros X. apply in_map_iff in X. destruct X as [[a x] [E X]]. simpl in E; subst x.
    exact (Hr _ X).
  - intros a x [X|X]; apply Hincl; [inversion X; subst; left; reflexivity|right; exact (Hused _ _ X)].
Qed.

Lemma qinv_step n s e s' : QInv n s -> req_step s e = Some s' -> QInv n s'.
Proof.
  intros Q H. unfold req_step in H.
  destruct (emit s e) as [evs|] eqn:E; [|discriminate].
  destruct (run (Some (gate s)) evs) as [g|] eqn:R; [|discriminate].
  inversion H; subst s'; clear H.
  destruct e as [q r b|q|q|q r'|q o|q]; simpl in E.
  - (* RCall *)
    destruct (memr q (qused s)) eqn:Hu; [discriminate|]. inversion E; subst evs; clear E.
    apply memr_false in Hu. unfold run in R; cbn [fold_left step_opt] in R.
    apply (qinv_new n (trace s) (gate s) (cur s) (qused s) q r b g).
    + exact (q_reach _ _ Q).
    + exact (q_at _ _ Q).
    + exact (q_fun _ _ Q).
    + exact (q_nd _ _ Q).
    + exact (q_used _ _ Q).
    + intros x X. apply Hu. exact (q_used _ _ Q _ _ X).
    + exact R.
    + apply incl_refl.
  - (* REnd *)
    destruct (lookup q (cur s)) as [r|] eqn:L.
    + inversion E; subst evs; clear E. unfold run in R; cbn [fold_left step_opt] in R.
      pose proof (step_at _ _ _ _ _ (q_reach _ _ Q) R) as A. simpl in A.
      constructor; cbn [gate cur qused qover trace].
      * apply (reach_trace _ _ _ _ _ (q_reach _ _ Q)). simpl. exact R.
      * intros x. rewrite A. exact (q_at _ _ Q x).
      * exact (q_fun _ _ Q).
      * exact (q_nd _ _ Q).
      * exact (q_used _ _ Q).
    + destruct (memr q (qused s)); [|discriminate]. inversion E; subst evs; clear E.
      unfold run in R; cbn [fold_left step_opt] in R. inversion R; subst g.
      constructor; cbn [gate cur qused qover trace]; simpl.
      * exact (q_reach _ _ Q).
      * exact (q_at _ _ Q).
      * exact (q_fun _ _ Q).
      * exact (q_nd _ _ Q).
      * exact (q_used _ _ Q).
  - (* REnter *)
    destruct (lookup q (cur s)) as [r|] eqn:L; [|discriminate].
    inversion E; subst evs; clear E. unfold run in R; cbn [fold_left step_opt] in R.
    pose proof (step_at _ _ _ _ _ (q_reach _ _ Q) R) as A. simpl in A. destruct A as [_ A].
    constructor; cbn [gate cur qused qover trace].
    + apply (reach_trace _ _ _ _ _ (q_reach _ _ Q)). simpl. exact R.
    + intros x. rewrite A. exact (q_at _ _ Q x).
    + exact (q_fun _ _ Q).
    + exact (q_nd _ _ Q).
    + exact (q_used _ _ Q).
  - (* RNext: the render in flight leaves, the next one is started *)
    destruct (lookup q (cur s)) as [r|] eqn:L; [|discriminate].
    inversion E; subst evs; clear E. unfold run in R; cbn [fold_left step_opt] in R.
    destruct (gate_step (gate s) (Leave r o_ok)) as [g1|] eqn:R1; [|discriminate].
    pose proof (qinv_gone n s q r g1 (Leave r o_ok) Q L (or_intror (ex_intro _ o_ok eq_refl)) R1) as Q1.
    pose proof (lookup_In _ _ _ L) as Lin.
    apply (qinv_new n (rev [Leave r o_ok] ++ trace s) g1 (drop q (cur s)) (qused s)
                    q r' (memr q (qover s)) g).
    + exact (q_reach _ _ Q1).
    + exact (q_at _ _ Q1).
    + exact (q_fun _ _ Q1).
    + exact (q_nd _ _ Q1).
    + exact (q_used _ _ Q1).
    + intros x X. apply drop_In in X. simpl in X. tauto.
    + exact R.
    + intros a [<-|X]; [exact (q_used _ _ Q _ _ Lin)|exact X].
  - (* RReturn *)
    destruct (lookup q (cur s)) as [r|] eqn:L; [|discriminate].
    inversion E; subst evs; clear E. unfold run in R; cbn [fold_left step_opt] in R.
    exact (qinv_gone n s q r g (Leave r o) Q L (or_intror (ex_intro _ o eq_refl)) R).
  - (* RError *)
    destruct (lookup q (cur s)) as [r|] eqn:L; [|discriminate].
    inversion E; subst evs; clear E. unfold run in R; cbn [fold_left step_opt] in R.
    exact (qinv_gone n s q r g (Cancel r) Q L (or_introl eq_refl) R).
Qed.

Theorem req_reach_inv n qevs s : req_reach n qevs = Some s -> QInv n s.
Proof.
  revert s. induction qevs as [|e qevs IH] using rev_ind; intros s H.
  - inversion H; subst. apply qinv_init.
  - rewrite req_reach_snoc in H. destruct (req_reach n qevs) as [s0|]; [|discriminate].
    simpl in H. exact (qinv_step _ _ _ _ (IH _ eq_refl) H).
Qed.

(* every accepted request history is an accepted history of the gate *)
Theorem req_refines n qevs s :
  req_reach n qevs = Some s -> reach n (rev (trace s)) = Some (gate s).
Proof. intros H; exact (q_reach _ _ (req_reach_inv _ _ _ H)). Qed.

(* the renders at the gate or in flight are exactly the current renders of the
   requests in progress, one per request *)
Theorem req_renders n qevs s :
  req_reach n qevs = Some s ->
  (forall r, In r (inflight (gate s)) \/ In r (waiting (gate s)) <-> exists q, In (q, r) (cur s)) /\
  (forall q r q' r', In (q, r) (cur s) -> In (q', r') (cur s) -> (q = q' <-> r = r')).
Proof.
  intros H; pose proof (req_reach_inv _ _ _ H) as Q. split; [exact (q_at _ _ Q)|exact (q_fun _ _ Q)].
Qed.

(* at most n requests have a template executing *)
Theorem req_bound n qevs s :
  0 < n -> req_reach n qevs = Some s -> length (q_inside s) <= n.
Proof.
  intros Hn H; pose proof (req_reach_inv _ _ _ H) as Q.
  pose proof (gate_bound _ _ _ Hn (q_reach _ _ Q)) as B.
  unfold q_inside. rewrite map_length.
  rewrite <- (map_length snd).
  eapply Nat.le_trans; [|exact B].
  apply NoDup_incl_length.
  - apply NoDup_map_filter. exact (q_nd _ _ Q).
  - intros x X. apply in_map_iff in X. destruct X as [[a b] [E X]]. simpl in E; subst b.
    apply filter_In in X. destruct X as [_ X]. simpl in X. apply memr_In in X. exact X.
Qed.

(* when every request has returned - whichever way: result, error, panic, context
   error, after any number of partials - nothing is in flight, nobody waits, and n
   fresh renders all get past the gate *)
Theorem req_all_returned n qevs s :
  req_reach n qevs = Some s -> cur s = [] ->
  inflight (gate s) = [] /\ waiting (gate s) = [] /\
  forall rs, NoDup rs -> (forall r, In r rs -> ~ In r (started (rev (trace s)))) -> length rs = n ->
    exists g', reach n (rev (trace s) ++ refill rs) = Some g' /\
               (0 < n -> inflight g' = rs /\ waiting g' = []).
Proof.
  intros H Hc; pose proof (req_reach_inv _ _ _ H) as Q.
  pose proof (q_reach _ _ Q) as R. pose proof (reach_inv _ _ _ R) as I.
  assert (Hi : inflight (gate s) = []).
  { destruct (inflight (gate s)) as [|x l] eqn:E; [reflexivity|exfalso].
    assert (X : at_gate (gate s) x) by (left; rewrite E; left; reflexivity).
    apply (q_at _ _ Q) in X. rewrite Hc in X. destruct X as [q []]. }
  assert (Hw : waiting (gate s) = []).
  { destruct (waiting (gate s)) as [|x l] eqn:E; [reflexivity|exfalso].
    assert (X : at_gate (gate s) x) by (right; rewrite E; left; reflexivity).
    apply (q_at _ _ Q) in X. rewrite Hc in X. destruct X as [q []]. }
  split; [exact Hi|]. split; [exact Hw|].
  intros rs Hnd Hfresh Hlen. rewrite reach_app, R.
  destruct n as [|n'].
  - destruct rs; [|discriminate]. exists (gate s); split; [reflexivity|intros; lia].
  - pose proof (i_cap _ _ _ I) as Hcap.
    rewrite refill_accepted; try assumption; try lia.
    + eexists; split; [reflexivity|]. intros _; simpl; auto.
    + intros r Hr; rewrite (i_used _ _ _ I); exact (Hfresh r Hr).
Qed.

(* every way out of a request whose template is executing is possible and hands the
   slot back: returning for good (result of the last partial, error, panic) ... *)
Theorem req_return_releases n qevs s q r o :
  req_reach n qevs = Some s -> In (q, r) (cur s) -> In r (inflight (gate s)) ->
  exists s', req_step s (RReturn q o) = Some s' /\
             inflight (gate s') = del r (inflight (gate s)) /\
             waiting (gate s') = waiting (gate s) /\ cur s' = drop q (cur s) /\
             S (length (inflight (gate s'))) = length (inflight (gate s)).
Proof.
  intros H Hin Hi; pose proof (req_reach_inv _ _ _ H) as Q.
  assert (L : lookup q (cur s) = Some r).
  { apply In_lookup; [exact Hin|]. intros r' X. symmetry. apply (q_fun _ _ Q _ _ _ _ Hin X). reflexivity. }
  unfold req_step; simpl. rewrite L. simpl. apply memr_In in Hi as Hm. rewrite Hm.
  eexists; split; [reflexivity|]; simpl.
  repeat (split; [reflexivity|]).
  apply del_length_NoDup; [exact (inflight_NoDup _ _ _ (q_reach _ _ Q))|exact Hi].
Qed.

(* ... and going on to the next partial: the slot is handed back first, the next
   render queues at the gate like any other caller *)
Theorem req_next_releases n qevs s q r r' :
  0 < n -> req_reach n qevs = Some s -> In (q, r) (cur s) -> In r (inflight (gate s)) ->
  ~ In r' (started (rev (trace s))) ->
  exists s', req_step s (RNext q r') = Some s' /\
             inflight (gate s') = del r (inflight (gate s)) /\
             waiting (gate s') = waiting (gate s) ++ [r'] /\
             cur s' = (q, r') :: drop q (cur s).
Proof.
  intros Hn H Hin Hi Hfresh; pose proof (req_reach_inv _ _ _ H) as Q.
  pose proof (reach_inv _ _ _ (q_reach _ _ Q)) as I.
  assert (L : lookup q (cur s) = Some r).
  { apply In_lookup; [exact Hin|]. intros x X. symmetry. apply (q_fun _ _ Q _ _ _ _ Hin X). reflexivity. }
  assert (Hu : memr r' (used (gate s)) = false).
  { apply memr_false. rewrite (i_used _ _ _ I). exact Hfresh. }
  assert (Hc : (cap (gate s) =? 0) = false).
  { apply Nat.eqb_neq. rewrite (i_cap _ _ _ I). lia. }
  unfold req_step; simpl. rewrite L. unfold run; simpl. apply memr_In in Hi as Hm. rewrite Hm.
  simpl. rewrite Hu, Hc.
  eexists; split; [reflexivity|]; simpl. auto.
Qed.

(* ------------------------------------------------------------------ non-vacuity *)

(* limit 2, five renders; 3 is cancelled while waiting, 1 panics, 4 fails in a
   template function, 5 is a missing template *)
Definition nv_trace : list gate_event :=
  [Start 1 false; Start 2 false; Start 3 false; Enter 2; Enter 1; Start 4 false; CtxEnd 3; Cancel 3;
   Leave 1 o_panic; Enter 4; Start 5 false; Leave 2 o_ok; Enter 5;
   Leave 4 o_func_error; Leave 5 o_not_found].

Example nv_accepted : reach 2 nv_trace = Some (mk_gate 2 [] [] [5; 4; 3; 2; 1] [3]).
Proof. vm_compute. reflexivity. Qed.

Example nv_midway :
  reach 2 [Start 1 false; Start 2 false; Start 3 false; Enter 2; Enter 1; Start 4 false;
           CtxEnd 3; Cancel 3; Leave 1 o_panic] =
  Some (mk_gate 2 [2] [4] [4; 3; 2; 1] [3]).
Proof. vm_compute. reflexivity. Qed.

Example nv_done : all_started_doneb nv_trace = true.
Proof. vm_compute. reflexivity. Qed.

Example nv_entered : entered 2 nv_trace = [2; 1; 4; 5] /\ cancelled_of nv_trace = [3].
Proof. vm_compute. split; reflexivity. Qed.

Example nv_refill :
  exists s, reach 2 (nv_trace ++ refill [6; 7]) = Some s /\ inflight s = [6; 7] /\ waiting s = [].
Proof. eexists; vm_compute; repeat split; reflexivity. Qed.

(* contexts that are over.  Limit 2: 1 is called with a dead context at a free
   gate and gets the error; 2 is called likewise and enters (select chose the
   send); 3 enters; 4 and 5 are called with a dead context at the full gate: 4
   gets the error, 5 - still undecided - is waiting; the context of 6 ends while
   2 hands back its slot, 6 takes it; 3 and 6 leave; then both slots are free *)
Definition nv_ctx_trace : list gate_event :=
  [Start 1 true; Cancel 1; Start 2 true; Enter 2; Start 3 false; Enter 3;
   Start 4 true; Start 5 true; Cancel 4; Start 6 false; CtxEnd 6; Leave 2 o_ok; Enter 6;
   Cancel 5; Leave 3 o_panic; Leave 6 o_ok].

Example nv_ctx_accepted :
  reach 2 nv_ctx_trace = Some (mk_gate 2 [] [] [6; 5; 4; 3; 2; 1] [6; 5; 4; 2; 1]).
Proof. vm_compute. reflexivity. Qed.

Example nv_ctx_refill :
  exists s, reach 2 (nv_ctx_trace ++ refill [7; 8]) = Some s /\ inflight s = [7; 8].
Proof. eexists; vm_compute; split; reflexivity. Qed.

(* the hypotheses of gate_ended_start and gate_cancel_release_race are satisfiable *)
Example nv_ended_start_hyps :
  exists s, reach 2 [Start 1 false; Enter 1] = Some s /\ ~ In 2 (started [Start 1 false; Enter 1]).
Proof. eexists; split; [vm_compute; reflexivity|]. simpl; intros [X|[]]; discriminate. Qed.

Example nv_race_hyps :
  exists s, reach 1 [Start 1 false; Enter 1; Start 2 false] = Some s /\
            In 2 (waiting s) /\ In 1 (inflight s).
Proof. eexists; split; [vm_compute; reflexivity|]. simpl; auto. Qed.

(* rejected traces: a third render past a limit of 2; a Leave of a render that
   is not in flight; a Cancel of a render in flight; a reused identifier *)
Example nv_reject_over :
  reach 2 [Start 1 false; Start 2 false; Start 3 false; Enter 1; Enter 2; Enter 3] = None.
Proof. vm_compute. reflexivity. Qed.

Example nv_reject_leave : reach 2 [Start 1 false; Leave 1 o_ok] = None.
Proof. vm_compute. reflexivity. Qed.

Example nv_reject_cancel : reach 2 [Start 1 true; Enter 1; Cancel 1] = None.
Proof. vm_compute. reflexivity. Qed.

Example nv_reject_reuse : reach 2 [Start 1 false; Enter 1; Leave 1 o_ok; Start 1 false] = None.
Proof. vm_compute. reflexivity. Qed.

(* a context error for a live context; a dead-context caller that got the error
   AND went through the gate; a dead-context caller entering a full gate *)
Example nv_reject_live_cancel : reach 2 [Start 1 false; Cancel 1] = None.
Proof. vm_compute. reflexivity. Qed.

Example nv_reject_error_and_slot : reach 2 [Start 1 true; Enter 1; Cancel 1] = None.
Proof. vm_compute. reflexivity. Qed.

Example nv_reject_dead_over : reach 1 [Start 1 false; Enter 1; Start 2 true; Enter 2] = None.
Proof. vm_compute. reflexivity. Qed.

(* limit disabled: nobody waits, whatever the number of renders and whatever their contexts *)
Example nv_disabled :
  reach 0 [Start 1 false; Start 2 true; Start 3 false; Leave 2 o_panic; Start 4 false; CtxEnd 1] =
  Some (mk_gate 0 [1; 3; 4] [] [4; 3; 2; 1] [1; 2]).
Proof. vm_compute. reflexivity. Qed.

(* the hypotheses of gate_progress are satisfiable *)
Example nv_progress :
  exists s, reach 2 [Start 1 false; Start 2 false; Start 3 false; Enter 1] = Some s /\
            waiting s <> [] /\ length (inflight s) < cap s.
Proof. eexists; split; [vm_compute; reflexivity|]; simpl; split; [discriminate|lia]. Qed.

(* a round after a finished history: limit 2, [nv_trace] has used the names 1..5;
   three callers named 1, 2, 3 moved past them (7, 8, 9) arrive together, two
   get in, the context of the third ends while the gate is full and it gets the
   error - accepted after [nv_trace] with the same sets as on a new gate *)
Definition nv_round : list gate_event :=
  [Start 1 false; Start 2 false; Start 3 false; Enter 3; Enter 1; CtxEnd 2; Cancel 2;
   Leave 1 o_ok; Leave 3 o_panic].

Example nv_round_new :
  reach 2 (firstn 5 nv_round) = Some (mk_gate 2 [3; 1] [2] [3; 2; 1] []) /\
  reach 2 nv_round = Some (mk_gate 2 [] [] [3; 2; 1] [2]).
Proof. vm_compute. split; reflexivity. Qed.

Example nv_round_after :
  exists s, reach 2 nv_trace = Some s /\ all_started_doneb nv_trace = true /\
    run (Some s) (map (shift 6) (firstn 5 nv_round)) =
      Some (mk_gate 2 [9; 7] [8] [9; 8; 7; 5; 4; 3; 2; 1] [3]).
Proof. eexists; vm_compute; repeat split; reflexivity. Qed.

(* the same names again are rejected: the shift is needed *)
Example nv_round_reuse : exists s, reach 2 nv_trace = Some s /\ run (Some s) nv_round = None.
Proof. eexists; vm_compute; split; reflexivity. Qed.

(* the hypotheses of gate_full_gate_cancel are satisfiable *)
Example nv_full_gate_hyps :
  exists s, reach 2 (firstn 5 nv_round) = Some s /\ In 2 (waiting s) /\ cap s <= length (inflight s).
Proof. eexists; split; [vm_compute; reflexivity|]. simpl; split; [auto|lia]. Qed.

(* requests.  Limit 1: request 1 (RenderPartials, three partials) and request 2
   (Render) are called; 1 gets the slot; its first partial returns its result -
   the slot goes back and 1 queues again behind 2; 2 gets the slot and panics;
   1 gets the slot for its second partial, goes on, its context ends, and its
   third render gets the context error at the free gate; all is as at the start *)
Definition nv_req_trace : list req_event :=
  [RCall 1 8 false; RCall 2 16 false; REnter 1; RNext 1 9; REnter 2; RReturn 2 o_panic;
   REnter 1; REnd 1; RNext 1 10; RError 1].

Example nv_req_accepted :
  match req_reach 1 nv_req_trace with
  | Some s => (inflight (gate s), waiting (gate s), cur s, rev (trace s))
  | None => ([], [], [], [])
  end =
  ([], [], [],
   [Start 8 false; Start 16 false; Enter 8; Leave 8 o_ok; Start 9 false; Enter 16; Leave 16 o_panic;
    Enter 9; CtxEnd 9; Leave 9 o_ok; Start 10 true; Cancel 10]).
Proof. vm_compute. reflexivity. Qed.

Example nv_req_midway :
  match req_reach 1 (firstn 5 nv_req_trace) with
  | Some s => Some (q_inside s, q_waiting s)
  | None => None
  end = Some ([2], [1]).
Proof. vm_compute. reflexivity. Qed.

(* rejected: a request that keeps its slot from one partial to the next while another
   request gets in (two requests inside at limit 1) *)
Example nv_req_reject_kept_slot :
  req_reach 1 [RCall 1 8 false; RCall 2 16 false; REnter 1; REnter 2] = None.
Proof. vm_compute. reflexivity. Qed.

(* rejected: the context error for a request whose render is in flight *)
Example nv_req_reject_error_inside :
  req_reach 1 [RCall 1 8 false; REnter 1; REnd 1; RError 1] = None.
Proof. vm_compute. reflexivity. Qed.

(* the hypotheses of req_next_releases / req_return_releases are satisfiable *)
Example nv_req_hyps :
  exists s, req_reach 1 [RCall 1 8 false; REnter 1] = Some s /\ In (1, 8) (cur s) /\
            In 8 (inflight (gate s)) /\ ~ In 9 (started (rev (trace s))).
Proof.
  eexists; split; [vm_compute; reflexivity|]. simpl.
  split; [auto|]. split; [auto|]. intros [X|[]]; discriminate.
Qed.
