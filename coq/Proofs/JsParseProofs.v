(* Proofs for C15 (the JavaScript snippet parser model Js/Lex.v + Js/Parse.v against the
   precedence table Js/Prec.v through the printers of Js/Show.v). *)
From PV Require Import Base.Bytes Js.Ast Js.Lex Js.Parse Js.Prec Js.Show.
Require Import Lia.

(* ================================================================== 1. the scanner *)

Lemma skip_ws_cons ins c r :
  skip_ws ins (c :: r) =
  if is_blank c then skip_ws ins r
  else if ceq c c_cr then
    match r with
    | b :: r2 => if ceq b c_lf then (if ins then r else skip_ws ins r2)
                 else (if ins then c :: r else skip_ws ins r)
    | [] => if ins then c :: r else []
    end
  else if ceq c c_lf then (if ins then c :: r else skip_ws ins r)
  else c :: r.
Proof. reflexivity. Qed.

Lemma skip_ws_len_aux n : forall ins s, length s <= n -> length (skip_ws ins s) <= length s.
Proof.
  induction n as [|n IH]; intros ins s Hn.
  - destruct s; [simpl; lia|simpl in Hn; lia].
  - destruct s as [|c r]; [simpl; lia|].
    rewrite skip_ws_cons. simpl in Hn.
    assert (Hr : length (skip_ws ins r) <= length r) by (apply IH; lia).
    destruct (is_blank c); [simpl; lia|].
    destruct (ceq c c_cr).
    + destruct r as [|b r2]; [destruct ins; simpl; lia|].
      assert (Hr2 : length (skip_ws ins r2) <= length r2) by (apply IH; simpl in Hn; lia).
      destruct (ceq b c_lf); destruct ins; simpl in *; lia.
    + destruct (ceq c c_lf); destruct ins; simpl in *; lia.
Qed.

Lemma skip_ws_len ins s : length (skip_ws ins s) <= length s.
Proof. apply (skip_ws_len_aux (length s)); lia. Qed.

Lemma span_len p s a b : span p s = (a, b) -> length b <= length s.
Proof.
  revert a b; induction s as [|c r IH]; intros a b H; simpl in H.
  - inversion H; simpl; lia.
  - destruct (p c).
    + destruct (span p r) as [a' b'] eqn:E. inversion H; subst. specialize (IH _ _ eq_refl). simpl; lia.
    + inversion H; subst; simpl; lia.
Qed.

Lemma span_len' p s : length (snd (span p s)) <= length s.
Proof. destruct (span p s) as [a b] eqn:E. simpl. eapply span_len; eauto. Qed.

Lemma skip_line_comment_cons c r :
  skip_line_comment (c :: r) =
  if (ceq c c_lf || ceq c c_cr)%bool then Some (c :: r)
  else if ls_ps (c :: r) then None else skip_line_comment r.
Proof. reflexivity. Qed.

Lemma skip_line_comment_len s r : skip_line_comment s = Some r -> length r <= length s.
Proof.
  revert r; induction s as [|c t IH]; intros r H.
  - inversion H; simpl; lia.
  - rewrite skip_line_comment_cons in H.
    destruct (ceq c c_lf || ceq c c_cr)%bool; [inversion H; subst; simpl; lia|].
    destruct (ls_ps (c :: t)); [discriminate|]. specialize (IH _ H). simpl; lia.
Qed.

Lemma skip_block_comment_len s r : skip_block_comment s = Some r -> length r < length s.
Proof.
  revert r; induction s as [|c t IH]; intros r H; [discriminate|].
  destruct t as [|d t']; [discriminate|].
  change (skip_block_comment (c :: d :: t')) with
    (if (ceq c "*" && ceq d "/")%bool then Some t' else skip_block_comment (d :: t')) in H.
  destruct (ceq c "*" && ceq d "/")%bool.
  - inversion H; subst; simpl; lia.
  - specialize (IH _ H). simpl in *; lia.
Qed.

Lemma scan_str_cons q c r acc :
  scan_str q (c :: r) acc =
  if ceq c q then SDone (rev acc) r
  else if ceq c c_lf then SUnterminated r
  else if ceq c c_cr then
    SUnterminated (match r with d :: r' => if ceq d c_lf then r' else r | [] => r end)
  else if ls_ps (c :: r) then SUnterminated (skipn 3 (c :: r))
  else if ceq c bsl then
    match r with
    | [] => SUnterminated []
    | e :: r1 =>
      if ceq e c_cr then
        match r1 with
        | d :: r2 => if ceq d c_lf then scan_str q r2 (d :: e :: c :: acc)
                     else scan_str q r1 (e :: c :: acc)
        | [] => scan_str q r1 (e :: c :: acc)
        end
      else scan_str q r1 (e :: c :: acc)
    end
  else scan_str q r (c :: acc).
Proof. reflexivity. Qed.

Definition sres_len_ok (x : sres) (n : nat) : Prop :=
  match x with
  | SDone _ r => length r < n
  | SUnterminated r => length r <= n
  end.

Lemma sres_len_weak x n m : sres_len_ok x n -> n <= m -> sres_len_ok x m.
Proof. destruct x; simpl; lia. Qed.

Lemma scan_str_len_aux n : forall q s acc, length s <= n -> sres_len_ok (scan_str q s acc) (length s).
Proof.
  induction n as [|n IH]; intros q s acc Hn.
  - destruct s; [simpl; lia|simpl in Hn; lia].
  - destruct s as [|c r]; [simpl; lia|].
    rewrite scan_str_cons. simpl in Hn.
    destruct (ceq c q); [simpl; lia|].
    destruct (ceq c c_lf); [simpl; lia|].
    destruct (ceq c c_cr).
    { destruct r as [|d r']; [simpl; lia|]. destruct (ceq d c_lf); simpl; lia. }
    destruct (ls_ps (c :: r)).
    { unfold sres_len_ok. pose proof (skipn_length 3 (c :: r)). lia. }
    destruct (ceq c bsl).
    + destruct r as [|e r1]; [simpl; lia|]. simpl in Hn.
      destruct (ceq e c_cr).
      * destruct r1 as [|d r2].
        -- eapply sres_len_weak; [apply IH; simpl; lia|simpl; lia].
        -- destruct (ceq d c_lf).
           ++ eapply sres_len_weak; [apply IH; simpl in *; lia|simpl; lia].
           ++ eapply sres_len_weak; [apply IH; simpl in *; lia|simpl; lia].
      * eapply sres_len_weak; [apply IH; simpl in *; lia|simpl; lia].
    + eapply sres_len_weak; [apply IH; lia|simpl; lia].
Qed.

Lemma scan_str_len q s acc : sres_len_ok (scan_str q s acc) (length s).
Proof. apply (scan_str_len_aux (length s)); lia. Qed.

(* ---- numbers *)
Definition nres_ok (x : nres) (n : nat) : Prop :=
  match x with NNum _ r | NIllegal r => length r <= n | NOut => True end.

Lemma nres_weak x n m : nres_ok x n -> n <= m -> nres_ok x m.
Proof. destruct x; simpl; lia. Qed.

Lemma num_tail_ok lit rest : nres_ok (num_tail lit rest) (length rest).
Proof.
  unfold num_tail. destruct rest as [|c r]; [simpl; lia|].
  destruct (is_hi c); [exact I|]. destruct (is_id_start c || ceq c bsl || is_digit c)%bool; simpl; lia.
Qed.

Lemma num_exponent_ok lit rest : nres_ok (num_exponent lit rest) (length rest).
Proof.
  unfold num_exponent. destruct rest as [|e r]; [apply num_tail_ok|].
  destruct (ceq e "e" || ceq e "E")%bool; [|apply num_tail_ok].
  assert (H : forall sg r1, length r1 <= length r ->
    nres_ok (if hd_is is_digit r1 then let '(d, r2) := span is_digit r1 in num_tail (lit ++ e :: sg ++ d) r2
             else NIllegal r1) (length (e :: r))).
  { intros sg r1 Hl. destruct (hd_is is_digit r1); [|simpl; lia].
    destruct (span is_digit r1) as [d r2] eqn:E. apply span_len in E.
    eapply nres_weak; [apply num_tail_ok|simpl; lia]. }
  destruct r as [|x r']; [apply H; simpl; lia|].
  destruct (ceq x "-" || ceq x "+")%bool; apply H; simpl; lia.
Qed.

Lemma num_float_ok lit rest : nres_ok (num_float lit rest) (length rest).
Proof.
  unfold num_float. destruct rest as [|c r]; [apply num_exponent_ok|].
  destruct (ceq c "."); [|apply num_exponent_ok].
  destruct (span is_digit r) as [d r1] eqn:E. apply span_len in E.
  eapply nres_weak; [apply num_exponent_ok|simpl; lia].
Qed.

Lemma scan_number_ok c r : is_digit c = true -> nres_ok (scan_number (c :: r)) (length r).
Proof.
  intros Hd. unfold scan_number.
  destruct (ceq c "0").
  - destruct r as [|x r1]; [apply num_tail_ok|].
    destruct (ceq x "x" || ceq x "X")%bool.
    { destruct (hd_is is_hex r1); [|simpl; lia].
      destruct (span is_hex r1) as [h r2] eqn:E. apply span_len in E.
      eapply nres_weak; [apply num_tail_ok|simpl; lia]. }
    destruct (ceq x ".").
    { eapply nres_weak; [apply num_float_ok|lia]. }
    destruct (ceq x "e" || ceq x "E")%bool.
    { eapply nres_weak; [apply num_exponent_ok|lia]. }
    destruct (span is_octal (x :: r1)) as [o r2] eqn:E. apply span_len in E.
    destruct (hd_is _ r2); [simpl in *; lia|].
    eapply nres_weak; [apply num_tail_ok|simpl in *; lia].
  - destruct (span is_digit (c :: r)) as [d r1] eqn:E.
    assert (length r1 <= length r).
    { simpl in E. rewrite Hd in E. destruct (span is_digit r) as [a b] eqn:E2. inversion E; subst.
      eapply span_len; eauto. }
    eapply nres_weak; [apply num_float_ok|lia].
Qed.

Lemma scan_number_dot_ok s : nres_ok (scan_number_dot s) (length s).
Proof.
  unfold scan_number_dot. destruct (span is_digit s) as [d r1] eqn:E. apply span_len in E.
  eapply nres_weak; [apply num_exponent_ok|lia].
Qed.

(* ---- scan: never out of fuel, and every token but EOF consumes at least one byte *)
Definition lres_ok (x : lres) (n : nat) : Prop :=
  match x with
  | LTok t r _ _ => match t with TEOF => r = [] | _ => length r < n end
  | LFuel => False
  | _ => True
  end.

Lemma lres_weak x n m : lres_ok x n -> n <= m -> lres_ok x m.
Proof. destruct x as [t r i j| | |]; simpl; auto. destruct t; auto; lia. Qed.

Lemma sw2_len r a b : length (snd (sw2 r a b)) <= length r.
Proof. unfold sw2. destruct r as [|c r]; simpl; [lia|]. destruct c as [[] [] [] [] [] [] [] []]; simpl; lia. Qed.

Lemma sw3_len r a b c d : length (snd (sw3 r a b c d)) <= length r.
Proof.
  unfold sw3. destruct r as [|x r]; simpl; [lia|].
  destruct (ceq x "="); simpl; [lia|]. destruct (ceq x c); simpl; lia.
Qed.

Lemma ptok_ok p r imp n : length r < n -> lres_ok (ptok p r imp) n.
Proof. intros; simpl; assumption. Qed.

Ltac scan_branch :=
  match goal with
  | |- lres_ok (ptok _ _ _) _ => apply ptok_ok; simpl in *; lia
  | |- lres_ok (if ?b then _ else _) _ => destruct b
  | |- lres_ok (match ?x with [] => _ | _ :: _ => _ end) _ => destruct x
  end.

Lemma scan_f_ok f : forall ins imp s, length s < f -> lres_ok (scan_f f ins imp s) (length s).
Proof.
  induction f as [|f IH]; intros ins imp s Hf; [lia|].
  cbn [scan_f].
  pose proof (skip_ws_len ins s) as Hws.
  destruct (skip_ws ins s) as [|c r]; [reflexivity|].
  simpl in Hws.
  destruct (is_id_start c) eqn:Hs.
  { destruct (span is_id_part (c :: r)) as [name r1] eqn:E.
    assert (length r1 <= length r).
    { simpl in E. assert (Hp : is_id_part c = true) by (unfold is_id_part; rewrite Hs; reflexivity).
      rewrite Hp in E.
      destruct (span is_id_part r) as [a b] eqn:E2. inversion E; subst. eapply span_len; eauto. }
    destruct (hd_is _ r1); [exact I|].
    destruct name as [|n1 [|n2 nm]].
    - destruct (classify_ident []) as [t i] eqn:Ec. vm_compute in Ec. inversion Ec; subst. simpl. lia.
    - simpl. lia.
    - destruct (classify_ident (n1 :: n2 :: nm)) as [t i] eqn:Ec.
      assert (t <> TEOF).
      { unfold classify_ident in Ec. destruct (lookup _ kw_table) as [k|].
        - destruct k; inversion Ec; discriminate.
        - destruct (mem _ fut_table); [inversion Ec; discriminate|].
          repeat (match type of Ec with (if ?b then _ else _) = _ => destruct b end; [inversion Ec; discriminate|]).
          inversion Ec; discriminate. }
      simpl. destruct t; try lia. congruence. }
  destruct (ceq c bsl); [exact I|].
  destruct (is_digit c) eqn:Hd.
  { pose proof (scan_number_ok c r Hd) as Hn. destruct (scan_number (c :: r)); simpl in *; try lia; exact I. }
  destruct (is_hi c); [exact I|].
  destruct (ceq c c_lf || ceq c c_cr)%bool.
  { eapply lres_weak; [apply IH; lia|lia]. }
  repeat scan_branch.
  all: try (simpl; exact I).
  all: try (match goal with |- lres_ok (match scan_number_dot ?r with _ => _ end) _ =>
              pose proof (scan_number_dot_ok r) as Hn; destruct (scan_number_dot r); simpl in *; try lia; exact I end).
  all: try (match goal with |- lres_ok (let '(p, r1) := sw3 ?r ?a ?b ?c ?d in _) _ =>
              pose proof (sw3_len r a b c d) as Hl; destruct (sw3 r a b c d) as [p r1]; apply ptok_ok; simpl in *; lia end).
  all: try (match goal with |- lres_ok (let '(p, r1) := sw2 ?r ?a ?b in _) _ =>
              pose proof (sw2_len r a b) as Hl; destruct (sw2 r a b) as [p r1]; apply ptok_ok; simpl in *; lia end).
  all: try (match goal with |- lres_ok (match skip_line_comment ?r with _ => _ end) _ =>
              destruct (skip_line_comment r) as [r1|] eqn:E; [apply skip_line_comment_len in E; eapply lres_weak; [apply IH; simpl in *; lia|simpl in *; lia]|exact I] end).
  all: try (match goal with |- lres_ok (match skip_block_comment ?r with _ => _ end) _ =>
              destruct (skip_block_comment r) as [r1|] eqn:E; [apply skip_block_comment_len in E; eapply lres_weak; [apply IH; simpl in *; lia|simpl in *; lia]|exact I] end).
  all: try (match goal with |- lres_ok (match scan_str ?q ?r ?a with _ => _ end) _ =>
              pose proof (scan_str_len q r a) as Hl; destruct (scan_str q r a); simpl in *; lia end).
Qed.

Lemma scan_ok ins s : lres_ok (scan ins s) (length s).
Proof. unfold scan. apply scan_f_ok. lia. Qed.

(* ---- string literals: the scanner never hands parseStringLiteral a body that ends in a
   lone backslash, so its explicit panic is unreachable *)
Fixpoint ntb (s : bytes) : bool :=
  match s with
  | [] => true
  | c :: r => if ceq c bsl then match r with [] => false | _ :: r1 => ntb r1 end else ntb r
  end.

Lemma ntb_app_aux n : forall a b, length a <= n -> ntb a = true -> ntb (a ++ b) = ntb b.
Proof.
  induction n as [|n IH]; intros a b Hn Ha.
  - destruct a; [reflexivity|simpl in Hn; lia].
  - destruct a as [|c r]; [reflexivity|].
    simpl in *. destruct (ceq c bsl).
    + destruct r as [|e r1]; [discriminate|]. simpl. apply IH; [simpl in Hn; lia|exact Ha].
    + apply IH; [lia|exact Ha].
Qed.

Lemma ntb_app a b : ntb a = true -> ntb (a ++ b) = ntb b.
Proof. apply (ntb_app_aux (length a)); lia. Qed.

Lemma scan_str_ntb_aux n : forall q s acc body r, length s <= n ->
  ntb (rev acc) = true -> scan_str q s acc = SDone body r -> ntb body = true.
Proof.
  induction n as [|n IH]; intros q s acc body r Hn Hacc H.
  - destruct s; [discriminate|simpl in Hn; lia].
  - destruct s as [|c t]; [discriminate|].
    rewrite scan_str_cons in H. simpl in Hn.
    destruct (ceq c q); [inversion H; subst; exact Hacc|].
    destruct (ceq c c_lf); [discriminate|].
    destruct (ceq c c_cr); [discriminate|].
    destruct (ls_ps (c :: t)); [discriminate|].
    destruct (ceq c bsl) eqn:Hb.
    + destruct t as [|e r1]; [discriminate|]. simpl in Hn.
      assert (H2 : ntb (rev (e :: c :: acc)) = true).
      { simpl. rewrite <- app_assoc. rewrite ntb_app by exact Hacc. simpl. rewrite Hb. reflexivity. }
      destruct (ceq e c_cr).
      * destruct r1 as [|d r2]; [eapply IH; [|exact H2|exact H]; simpl; lia|].
        destruct (ceq d c_lf) eqn:Hd.
        -- eapply IH; [| |exact H]; [simpl in *; lia|].
           simpl. simpl in H2. rewrite ntb_app by exact H2. simpl.
           assert (ceq d bsl = false) by (apply Ascii.eqb_eq in Hd; subst; reflexivity).
           rewrite H0. reflexivity.
        -- eapply IH; [|exact H2|exact H]; simpl in *; lia.
      * eapply IH; [|exact H2|exact H]; simpl in *; lia.
    + eapply IH; [| |exact H]; [lia|]. simpl. rewrite ntb_app by exact Hacc. simpl. rewrite Hb. reflexivity.
Qed.

Lemma scan_str_ntb q s body r : scan_str q s [] = SDone body r -> ntb body = true.
Proof. apply (scan_str_ntb_aux (length s)); [lia|reflexivity]. Qed.

Lemma vcons_panic b x : vcons b x = VPanic -> x = VPanic.
Proof. destruct x; simpl; congruence. Qed.

Lemma not_bsl_of (p : ascii -> bool) :
  (forall c, p c = true -> ceq c bsl = false) -> forall c, p c = true -> ceq c bsl = false.
Proof. auto. Qed.

Lemma hex_not_bsl c : is_hex c = true -> ceq c bsl = false.
Proof. destruct c as [[] [] [] [] [] [] [] []]; vm_compute; congruence. Qed.

Lemma octal_not_bsl c : is_octal c = true -> ceq c bsl = false.
Proof. destruct c as [[] [] [] [] [] [] [] []]; vm_compute; congruence. Qed.

Lemma ntb_tail c r : ceq c bsl = false -> ntb (c :: r) = ntb r.
Proof. intros H; simpl; rewrite H; reflexivity. Qed.

Lemma str_value_no_panic_aux n : forall s, length s <= n -> ntb s = true -> str_value s <> VPanic.
Proof.
  induction n as [|n IH]; intros s Hn Hs.
  - destruct s; [simpl; congruence|simpl in Hn; lia].
  - destruct s as [|c r]; [simpl; congruence|].
    simpl in Hn. cbn [str_value].
    destruct (ceq c bsl) eqn:Hb; cbn [negb].
    2:{ intros H; apply vcons_panic in H. revert H. apply IH; [lia|]. rewrite ntb_tail in Hs by exact Hb. exact Hs. }
    destruct r as [|e r1]; [simpl in Hs; rewrite Hb in Hs; discriminate|].
    assert (H1 : ntb r1 = true) by (simpl in Hs; rewrite Hb in Hs; exact Hs).
    simpl in Hn.
    assert (IH1 : str_value r1 <> VPanic) by (apply IH; [lia|exact H1]).
    assert (IHt : forall d t, r1 = d :: t -> ceq d bsl = false -> str_value t <> VPanic).
    { intros d t -> Hd. apply IH; [simpl in *; lia|]. rewrite ntb_tail in H1 by exact Hd. exact H1. }
    repeat match goal with
    | |- (if ?b then _ else _) <> VPanic => destruct b eqn:?
    end;
    try (intros H; apply vcons_panic in H; exact (IH1 H)).
    + (* \x *)
      destruct r1 as [|h1 [|h2 r2]]; try congruence.
      destruct (is_hex h1 && is_hex h2)%bool eqn:Hh; [|congruence].
      apply andb_prop in Hh. destruct Hh as [Ha Hc].
      intros H; apply vcons_panic in H. revert H. apply IH; [simpl in *; lia|].
      rewrite ntb_tail in H1 by (apply hex_not_bsl; exact Ha).
      rewrite ntb_tail in H1 by (apply hex_not_bsl; exact Hc). exact H1.
    + (* \u *)
      destruct r1 as [|h1 [|h2 [|h3 [|h4 r2]]]]; try congruence.
      destruct (is_hex h1 && is_hex h2 && is_hex h3 && is_hex h4)%bool eqn:Hh; [|congruence].
      apply andb_prop in Hh. destruct Hh as [Hh Hd]. apply andb_prop in Hh. destruct Hh as [Hh Hc].
      apply andb_prop in Hh. destruct Hh as [Ha Hbb].
      intros H; apply vcons_panic in H. revert H. apply IH; [simpl in *; lia|].
      rewrite ntb_tail in H1 by (apply hex_not_bsl; exact Ha).
      rewrite ntb_tail in H1 by (apply hex_not_bsl; exact Hbb).
      rewrite ntb_tail in H1 by (apply hex_not_bsl; exact Hc).
      rewrite ntb_tail in H1 by (apply hex_not_bsl; exact Hd). exact H1.
    + (* octal *)
      destruct r1 as [|d1 r2]; [intros H; apply vcons_panic in H; exact (IH1 H)|].
      destruct (is_octal d1) eqn:Ho1; [|intros H; apply vcons_panic in H; exact (IH1 H)].
      assert (H2 : ntb r2 = true) by (rewrite ntb_tail in H1 by (apply octal_not_bsl; exact Ho1); exact H1).
      destruct r2 as [|d2 r3].
      * intros H; apply vcons_panic in H. revert H. apply IH; [simpl in *; lia|exact H2].
      * destruct (is_octal d2) eqn:Ho2.
        -- intros H; apply vcons_panic in H. revert H. apply IH; [simpl in *; lia|].
           rewrite ntb_tail in H2 by (apply octal_not_bsl; exact Ho2). exact H2.
        -- intros H; apply vcons_panic in H. revert H. apply IH; [simpl in *; lia|exact H2].
    + (* \ CR *)
      destruct r1 as [|d r2]; [exact IH1|].
      destruct (ceq d c_lf) eqn:Hd; [|exact IH1].
      apply (IHt d r2 eq_refl). apply Ascii.eqb_eq in Hd; subst; reflexivity.
    + exact IH1.
Qed.

Lemma str_value_no_panic s : ntb s = true -> str_value s <> VPanic.
Proof. apply (str_value_no_panic_aux (length s)); lia. Qed.

Definition tok_good (t : tok) : Prop :=
  match t with
  | TStr (_ :: body) => str_value (removelast body) <> VPanic
  | _ => True
  end.

Definition lres_good (x : lres) : Prop :=
  match x with LTok t _ _ _ => tok_good t | _ => True end.

Lemma classify_good s : tok_good (fst (classify_ident s)).
Proof.
  unfold classify_ident. destruct (lookup s kw_table) as [k|]; [destruct k; exact I|].
  destruct (mem s fut_table); [exact I|].
  repeat match goal with |- tok_good (fst (if ?b then _ else _)) => destruct b; [exact I|] end.
  exact I.
Qed.

Lemma scan_f_good f : forall ins imp s, lres_good (scan_f f ins imp s).
Proof.
  induction f as [|f IH]; intros ins imp s; [exact I|].
  cbn [scan_f].
  destruct (skip_ws ins s) as [|c r]; [exact I|].
  destruct (is_id_start c).
  { destruct (span is_id_part (c :: r)) as [name r1].
    destruct (hd_is _ r1); [exact I|].
    destruct name as [|n1 [|n2 nm]]; try exact I.
    pose proof (classify_good (n1 :: n2 :: nm)) as Hg.
    destruct (classify_ident (n1 :: n2 :: nm)) as [t i]. exact Hg. }
  repeat match goal with
  | |- lres_good (if ?b then _ else _) => destruct b
  | |- lres_good (match ?x with [] => _ | _ :: _ => _ end) => destruct x
  | |- lres_good (match scan_number ?x with _ => _ end) => destruct (scan_number x)
  | |- lres_good (match scan_number_dot ?x with _ => _ end) => destruct (scan_number_dot x)
  | |- lres_good (match skip_line_comment ?x with _ => _ end) => destruct (skip_line_comment x)
  | |- lres_good (match skip_block_comment ?x with _ => _ end) => destruct (skip_block_comment x)
  | |- lres_good (let '(_, _) := ?x in _) => destruct x
  end; try exact I; try apply IH.
  all: match goal with |- lres_good (match scan_str ?q ?r ?a with _ => _ end) =>
         destruct (scan_str q r a) as [body r1|r1] eqn:E; [|exact I] end.
  all: apply scan_str_ntb in E; simpl; rewrite removelast_last; apply str_value_no_panic; exact E.
Qed.

(* ================================================================== 2. the parser never runs out of fuel,
   never reaches an explicit panic, and every call consumes input *)

Definition mu (st : pst) : nat := length (rs st) + match tk st with TEOF => 0 | _ => 1 end.
Definition Inv (st : pst) : Prop := tok_good (tk st).

Definition bnd (strict : bool) (n x : nat) : Prop := if strict then x < n else x <= n.

Definition Safe {A} (strict : bool) (n : nat) (r : res A) : Prop :=
  r <> RFuel /\ r <> RPanic /\ forall a st', r = ROk a st' -> Inv st' /\ bnd strict n (mu st').

Lemma safe_err {A} s n : @Safe A s n RErr.
Proof. repeat split; congruence. Qed.
Lemma safe_out {A} s n : @Safe A s n ROut.
Proof. repeat split; congruence. Qed.
Lemma safe_ret {A} s n (a : A) st : Inv st -> bnd s n (mu st) -> Safe s n (ROk a st).
Proof. intros Hi Hb. repeat split; try congruence; inversion H; subst; assumption. Qed.

Lemma safe_bind {A C} s n s' m (r : res A) (k : A -> pst -> res C) :
  Safe s n r -> (forall a st', Inv st' -> bnd s n (mu st') -> Safe s' m (k a st')) -> Safe s' m (bind r k).
Proof.
  intros [H1 [H2 H3]] Hk. destruct r as [a st'| | | |]; simpl; try congruence.
  - destruct (H3 a st' eq_refl). apply Hk; assumption.
  - apply safe_err.
  - apply safe_out.
Qed.

Lemma safe_weaken {A} s n s' m (r : res A) :
  Safe s n r -> (forall x, bnd s n x -> bnd s' m x) -> Safe s' m r.
Proof.
  intros [H1 [H2 H3]] Hw. repeat split; auto; destruct (H3 _ _ H); auto.
Qed.

Lemma safe_next st : Safe false (mu st) (next st).
Proof.
  unfold next. pose proof (scan_ok (ins st) (rs st)) as Ho. pose proof (scan_f_good (S (length (rs st))) (ins st) false (rs st)) as Hg.
  fold (scan (ins st) (rs st)) in Hg.
  destruct (scan (ins st) (rs st)) as [t r i m| | |]; simpl in *; [|apply safe_err|apply safe_out|contradiction].
  repeat split; try congruence; inversion H; subst; unfold Inv, mu; simpl; auto.
  destruct t; subst; simpl; try lia.
Qed.

Lemma safe_next_strict st : tk st <> TEOF -> Safe true (mu st) (next st).
Proof.
  intros Hne. unfold next. pose proof (scan_ok (ins st) (rs st)) as Ho. pose proof (scan_f_good (S (length (rs st))) (ins st) false (rs st)) as Hg.
  fold (scan (ins st) (rs st)) in Hg.
  destruct (scan (ins st) (rs st)) as [t r i m| | |]; simpl in *; [|apply safe_err|apply safe_out|contradiction].
  repeat split; try congruence; inversion H; subst; unfold Inv, mu; simpl; auto.
  destruct (tk st); try congruence; destruct t; subst; simpl; lia.
Qed.

Lemma is_p_neof p st : is_p p st = true -> tk st <> TEOF.
Proof. unfold is_p. destruct (tk st); congruence. Qed.
Lemma is_kw_neof k st : is_kw k st = true -> tk st <> TEOF.
Proof. unfold is_kw. destruct (tk st); congruence. Qed.
Lemma is_eof_neof st : is_eof st = false -> tk st <> TEOF.
Proof. unfold is_eof. destruct (tk st); congruence. Qed.
Lemma lvl_op_neof l t op : lvl_op l t = Some op -> t <> TEOF.
Proof. destruct l, t; simpl; congruence. Qed.
Lemma unary_op_neof t op : unary_op t = Some op -> t <> TEOF.
Proof. destruct t; simpl; congruence. Qed.
Lemma incdec_neof t op : incdec t = Some op -> t <> TEOF.
Proof. destruct t; simpl; congruence. Qed.
Lemma assign_op_neof t op : assign_op t = AOp op -> t <> TEOF.
Proof. destruct t; simpl; congruence. Qed.

Lemma safe_expect p st : Safe true (mu st) (expect p st).
Proof.
  unfold expect. destruct (is_p p st) eqn:E; [|apply safe_err].
  apply safe_next_strict. eapply is_p_neof; eauto.
Qed.

Lemma safe_expect_kw k st : Safe true (mu st) (expect_kw k st).
Proof.
  unfold expect_kw. destruct (is_kw k st) eqn:E; [|apply safe_err].
  apply safe_next_strict. eapply is_kw_neof; eauto.
Qed.

Lemma safe_optsemi st : Inv st -> Safe false (mu st) (optionalSemicolon st).
Proof.
  intros Hi. unfold optionalSemicolon.
  destruct (is_p PSemi st); [apply safe_next|].
  destruct (imp st); [apply safe_ret; [exact Hi|unfold bnd, mu; simpl; lia]|].
  destruct (is_eof st || is_p PRBrace st)%bool; [apply safe_ret; [exact Hi|unfold bnd; lia]|apply safe_err].
Qed.

Lemma safe_semi st : Inv st -> Safe false (mu st) (semicolon st).
Proof.
  intros Hi. unfold semicolon.
  destruct (is_p PRParen st || is_p PRBrace st)%bool; [apply safe_ret; [exact Hi|unfold bnd; lia]|].
  destruct (imp st); [apply safe_ret; [exact Hi|unfold bnd, mu; simpl; lia]|].
  eapply safe_weaken; [apply safe_expect|unfold bnd; intros; lia].
Qed.

Lemma safe_asE s n r : Safe s n r -> Safe s n (asE r).
Proof. intros H. unfold asE. eapply safe_bind; [exact H|]. intros a st' Hi Hb. destruct a; try apply safe_out. apply safe_ret; assumption. Qed.
Lemma safe_asL s n r : Safe s n r -> Safe s n (asL r).
Proof. intros H. unfold asL. eapply safe_bind; [exact H|]. intros a st' Hi Hb. destruct a; try apply safe_out. apply safe_ret; assumption. Qed.
Lemma safe_asS s n r : Safe s n r -> Safe s n (asS r).
Proof. intros H. unfold asS. eapply safe_bind; [exact H|]. intros a st' Hi Hb. destruct a; try apply safe_out. apply safe_ret; assumption. Qed.
Lemma safe_asSL s n r : Safe s n r -> Safe s n (asSL r).
Proof. intros H. unfold asSL. eapply safe_bind; [exact H|]. intros a st' Hi Hb. destruct a; try apply safe_out. apply safe_ret; assumption. Qed.
Lemma safe_asB s n r : Safe s n r -> Safe s n (asB r).
Proof. intros H. unfold asB. eapply safe_bind; [exact H|]. intros a st' Hi Hb. destruct a; try apply safe_out. apply safe_ret; assumption. Qed.

Definition lvl_rank (l : lvl) : nat :=
  match l with
  | LMul => 6 | LAdd => 7 | LShift => 8 | LRel => 9 | LEq => 10 | LBitAnd => 11 | LBitXor => 12
  | LBitOr => 13 | LAnd => 14 | LOr => 15
  end.

Definition rank (c : call) : nat :=
  match c with
  | CObject | CArray | CFunction | CArgs | CNew => 1
  | CSeqLoop _ | CBinLoop _ _ | CObjLoop _ | CParamLoop _ | CVarLoop _ => 1
  | CMember _ _ => 2
  | CPrimary => 2
  | CLhs | CLhsCall => 3
  | CPostfix => 4
  | CUnary => 5
  | CBin l => lvl_rank l
  | CConditional => 16
  | CAssignment => 17
  | CExpression => 18
  | CArrLoop _ | CArgLoop _ => 18
  | CStatement _ => 19
  | CStmtLoop _ _ _ => 20
  | CProgram => 21
  end.

Definition strict_call (c : call) : bool :=
  match c with
  | CSeqLoop _ | CBinLoop _ _ | CMember _ _ | CStmtLoop _ _ _ | CProgram => false
  | _ => true
  end.

Lemma rank_lvl_next l : rank (lvl_next l) < rank (CBin l).
Proof. destruct l; simpl; lia. Qed.
Lemma strict_lvl_next l : strict_call (lvl_next l) = true.
Proof. destruct l; reflexivity. Qed.

Definition IHf (f : nat) : Prop :=
  forall c st, Inv st -> 64 * mu st + rank c <= f -> Safe (strict_call c) (mu st) (run f c st).

Ltac neof :=
  first [ congruence
        | eapply is_p_neof; eassumption | eapply is_kw_neof; eassumption | eapply is_eof_neof; eassumption
        | eapply lvl_op_neof; eassumption | eapply unary_op_neof; eassumption
        | eapply incdec_neof; eassumption | eapply assign_op_neof; eassumption ].

Lemma key_value_good t : tok_good t -> key_value t <> KeyPanic.
Proof.
  destruct t; simpl; try congruence.
  - intros _. destruct (match_identifier (kw_text k)); congruence.
  - intros _. destruct (match_identifier s); congruence.
  - intros _. destruct b; simpl; congruence.
  - destruct lit as [|q body]; [congruence|]. intros H. destruct (str_value (removelast body)); congruence.
Qed.

Ltac panic_absurd :=
  exfalso;
  first
  [ match goal with
    | Hi : Inv ?st, Ht : tk ?st = TStr _ |- _ => unfold Inv in Hi; rewrite Ht in Hi; simpl in Hi; congruence
    end
  | match goal with
    | Hi : Inv ?st, Hk : key_value (tk ?st) = KeyPanic |- _ => exact (key_value_good _ Hi Hk)
    end ].

Ltac bsolve := rewrite ?strict_lvl_next in *; unfold bnd in *; cbn [strict_call rank lvl_rank] in *; intros; lia.

Ltac srun IH :=
  first
  [ apply IH; [assumption | bsolve ]
  | eapply safe_weaken; [ apply IH; [assumption | bsolve ] | bsolve ] ].

Ltac sstep IH :=
  match goal with
  | |- Safe _ _ (bind _ _) => eapply safe_bind; [ | intros ? ? ? ? ]
  | |- Safe _ _ (ROk _ _) => apply safe_ret; [assumption | bsolve]
  | |- Safe _ _ RErr => apply safe_err
  | |- Safe _ _ ROut => apply safe_out
  | |- Safe _ _ RPanic => panic_absurd
  | |- Safe _ _ (asE _) => apply safe_asE
  | |- Safe _ _ (asL _) => apply safe_asL
  | |- Safe _ _ (asS _) => apply safe_asS
  | |- Safe _ _ (asSL _) => apply safe_asSL
  | |- Safe _ _ (asB _) => apply safe_asB
  | |- Safe _ _ (run _ _ _) => srun IH
  | |- Safe _ _ (next _) =>
      first [ apply safe_next_strict; neof
            | eapply safe_weaken; [apply safe_next_strict; neof | bsolve ]
            | apply safe_next
            | eapply safe_weaken; [apply safe_next | bsolve ] ]
  | |- Safe _ _ (expect _ _) => first [apply safe_expect | eapply safe_weaken; [apply safe_expect | bsolve ]]
  | |- Safe _ _ (expect_kw _ _) => first [apply safe_expect_kw | eapply safe_weaken; [apply safe_expect_kw | bsolve ]]
  | |- Safe _ _ (optionalSemicolon _) =>
      first [apply safe_optsemi; assumption | eapply safe_weaken; [apply safe_optsemi; assumption | bsolve ]]
  | |- Safe _ _ (semicolon _) =>
      first [apply safe_semi; assumption | eapply safe_weaken; [apply safe_semi; assumption | bsolve ]]
  | |- Safe _ _ (if ?b then _ else _) => destruct b eqn:?
  | |- Safe _ _ (match ?x with _ => _ end) => destruct x eqn:?
  end.
Lemma run_safe_step f : IHf f -> IHf (S f).
Proof.
  intros IH c st Hi Hf. unfold IHf in IH.
  change (run (S f) c st) with (step (run f) c st).
  destruct c; cbn [rank lvl_rank] in Hf; cbn [step strict_call].
  - unfold parseExpression. repeat (sstep IH).
  - unfold seqLoop. repeat (sstep IH).
  - unfold parseAssignmentExpression. repeat (sstep IH).
  - unfold parseConditionalExpression. repeat (sstep IH).
  - unfold parseBinary. pose proof (rank_lvl_next l). repeat (sstep IH).
  - unfold binLoop. assert (rank (lvl_next l) <= 15) by (destruct l; simpl; lia). repeat (sstep IH).
  - unfold parseUnaryExpression. repeat (sstep IH).
  - unfold parsePostfixExpression. repeat (sstep IH).
  - unfold parseLeftHandSideExpressionAllowCall. repeat (sstep IH).
  - unfold parseLeftHandSideExpression. repeat (sstep IH).
  - unfold memberLoop. repeat (sstep IH).
  - unfold parseNewExpression. repeat (sstep IH).
  - unfold parsePrimaryExpression. repeat (sstep IH).
  - unfold parseArgumentList. repeat (sstep IH).
  - unfold argLoop. repeat (sstep IH).
  - unfold parseArrayLiteral. repeat (sstep IH).
  - unfold arrLoop. repeat (sstep IH).
  - unfold parseObjectLiteral. repeat (sstep IH).
  - unfold objLoop. repeat (sstep IH).
  - unfold parseFunction. sstep IH; [sstep IH|].
    eapply (safe_bind false (mu st')); [|intros ? ? ? ?; repeat (sstep IH)].
    repeat (sstep IH).
  - unfold paramLoop. repeat (sstep IH).
  - unfold stmtLoop. repeat (sstep IH).
  - unfold parseStatement. repeat (sstep IH).
  - unfold varLoop. sstep IH; try (sstep IH; fail).
    sstep IH; [sstep IH|].
    eapply (safe_bind false (mu st')); [|intros ? ? ? ?; repeat (sstep IH)].
    repeat (sstep IH).
  - unfold parseProgram. repeat (sstep IH).
Qed.

Lemma rank_pos c : 1 <= rank c.
Proof. destruct c; simpl; try lia. destruct l; simpl; lia. Qed.

Lemma run_safe f : IHf f.
Proof.
  induction f as [|f IH]; [|apply run_safe_step; exact IH].
  intros c st _ H. pose proof (rank_pos c). lia.
Qed.

Lemma fuel_of_enough src : 64 * mu (init_st src) + rank CProgram <= fuel_of src.
Proof. unfold fuel_of, mu, init_st; simpl rs; simpl tk; cbn [rank]. lia. Qed.

Lemma parse_with_safe src : parse_with (fuel_of src) src <> PFuel /\ parse_with (fuel_of src) src <> PPanic.
Proof.
  unfold parse_with. destruct (negb (utf8_valid src)); [split; congruence|].
  destruct (run_safe (fuel_of src) CProgram (init_st src) I (fuel_of_enough src)) as [H1 [H2 _]].
  destruct (run (fuel_of src) CProgram (init_st src)) as [v st| | | |]; try congruence; try (split; congruence).
  destruct v; split; congruence.
Qed.

(* C15_fuel: with the fuel 64 * (|src| + 2) the model never runs out of fuel, on any byte string *)
Lemma parse_file_fuel src : parse_file src <> PFuel.
Proof. apply parse_with_safe. Qed.

Lemma parse_function_fuel params body : parse_function params body <> PFuel.
Proof.
  unfold parse_function, parse_function_with.
  destruct (parse_with_safe (wrap_function params body)) as [H _].
  destruct (parse_with _ _) as [b| | | |]; try congruence.
  destruct b as [|s0 t0]; [congruence|]. destruct s0; try congruence. destruct e; destruct t0; congruence.
Qed.

(* C15_no_model_panic *)
Lemma parse_file_no_panic src : parse_file src <> PPanic.
Proof. apply parse_with_safe. Qed.

Lemma parse_function_no_panic params body : parse_function params body <> PPanic.
Proof.
  unfold parse_function, parse_function_with.
  destruct (parse_with_safe (wrap_function params body)) as [_ H].
  destruct (parse_with _ _) as [b| | | |]; try congruence.
  destruct b as [|s0 t0]; [congruence|]. destruct s0; try congruence. destruct e; destruct t0; congruence.
Qed.

(* the entry point as it was before the repair of F-C15-a does reach the panic outcome *)
Lemma unrepaired_parse_function_panics :
  unrepaired_parse_function [] (B "return 1}), (function(){ 2") = PPanic.
Proof. vm_compute. reflexivity. Qed.

Lemma repaired_parse_function_witness :
  parse_function [] (B "return 1}), (function(){ 2") = PErr.
Proof. vm_compute. reflexivity. Qed.

Lemma parse_file_deterministic src r1 r2 : parse_file src = r1 -> parse_file src = r2 -> r1 = r2.
Proof. congruence. Qed.
Lemma parse_function_deterministic p b r1 r2 : parse_function p b = r1 -> parse_function p b = r2 -> r1 = r2.
Proof. congruence. Qed.

(* ================================================================== 3. more fuel never changes an answer *)

Definition Mono {A} (a b : res A) : Prop := a <> RFuel -> b = a.

Lemma mono_refl {A} (a : res A) : Mono a a.
Proof. intros _; reflexivity. Qed.

Lemma mono_bind {A C} (a b : res A) (k1 k2 : A -> pst -> res C) :
  Mono a b -> (forall x st, Mono (k1 x st) (k2 x st)) -> Mono (bind a k1) (bind b k2).
Proof.
  intros Ha Hk Hnf. destruct a as [x st| | | |]; simpl in Hnf; try congruence;
    rewrite (Ha ltac:(congruence)); simpl; auto.
  apply Hk; exact Hnf.
Qed.

Lemma mono_asE a b : Mono a b -> Mono (asE a) (asE b).
Proof. intros H. unfold asE. apply mono_bind; [exact H|intros; apply mono_refl]. Qed.
Lemma mono_asL a b : Mono a b -> Mono (asL a) (asL b).
Proof. intros H. unfold asL. apply mono_bind; [exact H|intros; apply mono_refl]. Qed.
Lemma mono_asS a b : Mono a b -> Mono (asS a) (asS b).
Proof. intros H. unfold asS. apply mono_bind; [exact H|intros; apply mono_refl]. Qed.
Lemma mono_asSL a b : Mono a b -> Mono (asSL a) (asSL b).
Proof. intros H. unfold asSL. apply mono_bind; [exact H|intros; apply mono_refl]. Qed.
Lemma mono_asB a b : Mono a b -> Mono (asB a) (asB b).
Proof. intros H. unfold asB. apply mono_bind; [exact H|intros; apply mono_refl]. Qed.

Definition rle (r1 r2 : rec_t) : Prop := forall c st, Mono (r1 c st) (r2 c st).

Ltac mstep H :=
  match goal with
  | |- Mono ?a ?a => apply mono_refl
  | |- Mono (bind _ _) (bind _ _) => apply mono_bind; [ | intros ? ? ]
  | |- Mono (asE _) (asE _) => apply mono_asE
  | |- Mono (asL _) (asL _) => apply mono_asL
  | |- Mono (asS _) (asS _) => apply mono_asS
  | |- Mono (asSL _) (asSL _) => apply mono_asSL
  | |- Mono (asB _) (asB _) => apply mono_asB
  | |- Mono (_ ?c ?st) (_ ?c ?st) => apply H
  | |- Mono (if ?b then _ else _) (if ?b then _ else _) => destruct b
  | |- Mono (match ?x with _ => _ end) (match ?x with _ => _ end) => destruct x
  end.

Lemma step_mono r1 r2 : rle r1 r2 -> rle (step r1) (step r2).
Proof.
  intros H c st. destruct c; cbn [step].
  - unfold parseExpression. repeat (mstep H).
  - unfold seqLoop. repeat (mstep H).
  - unfold parseAssignmentExpression. repeat (mstep H).
  - unfold parseConditionalExpression. repeat (mstep H).
  - unfold parseBinary. repeat (mstep H).
  - unfold binLoop. repeat (mstep H).
  - unfold parseUnaryExpression. repeat (mstep H).
  - unfold parsePostfixExpression. repeat (mstep H).
  - unfold parseLeftHandSideExpressionAllowCall. repeat (mstep H).
  - unfold parseLeftHandSideExpression. repeat (mstep H).
  - unfold memberLoop. repeat (mstep H).
  - unfold parseNewExpression. repeat (mstep H).
  - unfold parsePrimaryExpression. repeat (mstep H).
  - unfold parseArgumentList. repeat (mstep H).
  - unfold argLoop. repeat (mstep H).
  - unfold parseArrayLiteral. repeat (mstep H).
  - unfold arrLoop. repeat (mstep H).
  - unfold parseObjectLiteral. repeat (mstep H).
  - unfold objLoop. repeat (mstep H).
  - unfold parseFunction. repeat (mstep H).
  - unfold paramLoop. repeat (mstep H).
  - unfold stmtLoop. repeat (mstep H).
  - unfold parseStatement. repeat (mstep H).
  - unfold varLoop. repeat (mstep H).
  - unfold parseProgram. repeat (mstep H).
Qed.

Lemma run_mono f : forall f', f <= f' -> rle (run f) (run f').
Proof.
  induction f as [|f IH]; intros f' Hle c st.
  - intros H; simpl in H; congruence.
  - destruct f' as [|f'']; [lia|]. cbn [run]. apply step_mono. apply IH. lia.
Qed.

Lemma run_mono_ok f f' c st v st' : run f c st = ROk v st' -> f <= f' -> run f' c st = ROk v st'.
Proof. intros H Hle. rewrite <- H. apply (run_mono f f' Hle c st). rewrite H; congruence. Qed.

(* ================================================================== 4. printed tokens scan back *)

Definition sp1 : ascii := " "%char.

Lemma span_all p x r : forallb p x = true -> p sp1 = false -> span p (x ++ sp1 :: r) = (x, sp1 :: r).
Proof.
  intros Hx Hs. induction x as [|c x IH]; simpl.
  - rewrite Hs. reflexivity.
  - simpl in Hx. apply andb_prop in Hx. destruct Hx as [Hc Hx]. rewrite Hc. rewrite (IH Hx). reflexivity.
Qed.

(* what scan() makes of a word *)
Definition word_res (x : bytes) (ins imp : bool) (r : bytes) : lres :=
  match x with
  | [_] => LTok (TId x) r true imp
  | _ => let '(t, i) := classify_ident x in LTok t r (match i with Some b => b | None => ins end) imp
  end.

Lemma scan_word x ins r : word_ok x = true ->
  scan ins (sp1 :: x ++ sp1 :: r) = word_res x ins false (sp1 :: r).
Proof.
  intros Hw. destruct x as [|c x]; [discriminate|].
  simpl in Hw. apply andb_prop in Hw. destruct Hw as [Hc Hx].
  unfold scan. cbn [length]. cbn [scan_f].
  change (skip_ws ins (sp1 :: (c :: x) ++ sp1 :: r)) with (skip_ws ins ((c :: x) ++ sp1 :: r)).
  assert (Hsk : skip_ws ins ((c :: x) ++ sp1 :: r) = (c :: x) ++ sp1 :: r).
  { change ((c :: x) ++ sp1 :: r) with (c :: (x ++ sp1 :: r)). rewrite skip_ws_cons.
    destruct c as [[] [] [] [] [] [] [] []]; try discriminate Hc; reflexivity. }
  rewrite Hsk. cbn [app]. rewrite Hc.
  change (c :: x ++ sp1 :: r) with ((c :: x) ++ sp1 :: r).
  rewrite (span_all is_id_part (c :: x) r).
  - cbn [hd_is]. change (ceq sp1 bsl || is_hi sp1)%bool with false. cbv iota. reflexivity.
  - simpl. unfold is_id_part. rewrite Hc. simpl. exact Hx.
  - reflexivity.
Qed.

Lemma lookup_kw_text x k : lookup x kw_table = Some k -> kw_text k = x.
Proof.
  unfold kw_table. cbn [lookup]. intros H.
  repeat (match type of H with (if beqb x ?s then _ else _) = _ =>
            destruct (beqb x s) eqn:E; [apply beqb_eq in E; inversion H; subst; reflexivity|clear E] end).
  discriminate H.
Qed.

Lemma classify_literal x : tok_literal (fst (classify_ident x)) = x.
Proof.
  unfold classify_ident. destruct (lookup x kw_table) as [k|] eqn:E.
  - apply lookup_kw_text in E. destruct k; simpl; exact E.
  - destruct (mem x fut_table); [reflexivity|].
    destruct (beqb x (B "true")) eqn:E1; [apply beqb_eq in E1; subst; reflexivity|].
    destruct (beqb x (B "false")) eqn:E2; [apply beqb_eq in E2; subst; reflexivity|].
    destruct (beqb x (B "null")) eqn:E3; [apply beqb_eq in E3; subst; reflexivity|].
    reflexivity.
Qed.

Lemma word_tok_literal x : tok_literal (word_tok x) = x.
Proof. unfold word_tok. destruct x as [|c [|d x]]; try reflexivity; apply classify_literal. Qed.

Lemma word_tok_text x : word_ok x = true -> tok_text (word_tok x) = x.
Proof.
  intros Hw. pose proof (word_tok_literal x) as H. unfold tok_text.
  destruct (word_tok x) eqn:E; try exact H.
  simpl in H. subst x. discriminate Hw.
Qed.

Lemma scan_word_tok x ins r : word_ok x = true ->
  exists i', scan ins (sp1 :: x ++ sp1 :: r) = LTok (word_tok x) (sp1 :: r) i' false.
Proof.
  intros Hw. rewrite (scan_word x ins r Hw). unfold word_res, word_tok.
  destruct x as [|c [|d x]]; try (eexists; reflexivity).
  destruct (classify_ident (c :: d :: x)) as [t i]. eexists; reflexivity.
Qed.

Lemma ident_word x : ident_ok x = true -> word_ok x = true /\ word_tok x = TId x.
Proof.
  unfold ident_ok, word_ok, word_tok. destruct x as [|c [|d x]]; try discriminate.
  - intros H; rewrite H; auto.
  - intros H. apply andb_prop in H. destruct H as [H Hc]. split; [exact H|].
    unfold classify_ident in *. destruct (lookup _ kw_table) as [k|]; [destruct k; discriminate|].
    destruct (mem _ fut_table); [discriminate|].
    repeat (match type of Hc with match (if ?b then _ else _) with _ => _ end = _ => destruct b; [discriminate|] end).
    reflexivity.
Qed.

Lemma scan_punct p ins r : exists i', scan ins (sp1 :: punct_text p ++ sp1 :: r) = LTok (TP p) (sp1 :: r) i' false.
Proof. destruct p; eexists; reflexivity. Qed.

Lemma digit_facts c : is_digit c = true ->
  is_id_start c = false /\ ceq c bsl = false /\ is_hi c = false /\ is_blank c = false /\
  ceq c c_cr = false /\ ceq c c_lf = false.
Proof. destruct c as [[] [] [] [] [] [] [] []]; vm_compute; intuition congruence. Qed.

Lemma scan_number_printed lit r : num_ok lit = true -> scan_number (lit ++ sp1 :: r) = NNum lit (sp1 :: r).
Proof.
  intros H. destruct lit as [|c [|d l]]; [discriminate| |].
  - simpl in H. unfold scan_number. cbn [app].
    destruct (ceq c "0") eqn:E0.
    + reflexivity.
    + change (c :: sp1 :: r) with ([c] ++ sp1 :: r).
      rewrite (span_all is_digit [c] r); [reflexivity|simpl; rewrite H; reflexivity|reflexivity].
  - cbn [num_ok] in H. apply andb_prop in H. destruct H as [H Hl]. apply andb_prop in H. destruct H as [Hc Hz].
    unfold scan_number. cbn [app]. destruct (ceq c "0"); [discriminate|].
    change (c :: d :: l ++ sp1 :: r) with ((c :: d :: l) ++ sp1 :: r).
    rewrite (span_all is_digit (c :: d :: l) r); [reflexivity| |reflexivity].
    change (forallb is_digit (c :: d :: l)) with (is_digit c && forallb is_digit (d :: l))%bool.
    rewrite Hc, Hl. reflexivity.
Qed.

Lemma scan_num lit ins r : num_ok lit = true ->
  scan ins (sp1 :: lit ++ sp1 :: r) = LTok (TNum lit) (sp1 :: r) true false.
Proof.
  intros H. pose proof (scan_number_printed lit r H) as Hn.
  destruct lit as [|c l]; [discriminate|].
  assert (Hd : is_digit c = true).
  { destruct l; simpl in H; [exact H|]. apply andb_prop in H. destruct H as [H _]. apply andb_prop in H. tauto. }
  destruct (digit_facts c Hd) as (H1 & H2 & H3 & H4 & H5 & H6).
  unfold scan. cbn [length]. cbn [scan_f].
  change (skip_ws ins (sp1 :: (c :: l) ++ sp1 :: r)) with (skip_ws ins (c :: (l ++ sp1 :: r))).
  rewrite skip_ws_cons. rewrite H4, H5, H6. rewrite H1, H2, Hd.
  change (c :: l ++ sp1 :: r) with ((c :: l) ++ sp1 :: r). rewrite Hn. reflexivity.
Qed.

Lemma scan_str_plain q v r : forall acc, forallb (plain_char q) v = true ->
  scan_str q (v ++ q :: r) acc = SDone (rev acc ++ v) r.
Proof.
  induction v as [|c v IH]; intros acc Hv.
  - cbn [app]. rewrite scan_str_cons. unfold ceq. rewrite Ascii.eqb_refl. rewrite app_nil_r. reflexivity.
  - simpl in Hv. apply andb_prop in Hv. destruct Hv as [Hc Hv].
    cbn [app]. rewrite scan_str_cons.
    unfold plain_char in Hc.
    repeat (apply andb_prop in Hc; destruct Hc as [Hc ?]).
    repeat match goal with H : negb _ = true |- _ => apply negb_true_iff in H end.
    rewrite Hc. rewrite H2, H1.
    assert (Hls : ls_ps (c :: v ++ q :: r) = false).
    { unfold ls_ps. destruct (v ++ q :: r) as [|b [|d t]]; try reflexivity.
      unfold is_hi in H. destruct (cn c =? 226)%N eqn:E; [|reflexivity].
      apply N.eqb_eq in E. rewrite E in H. discriminate. }
    rewrite Hls. rewrite H0. rewrite (IH (c :: acc) Hv). simpl. rewrite <- app_assoc. reflexivity.
Qed.

Lemma scan_f_quote q f ins imp r : quote_ok q = true ->
  scan_f (S f) ins imp (q :: r) =
  match scan_str q r [] with
  | SDone body r1 => LTok (TStr (q :: body ++ [q])) r1 true imp
  | SUnterminated r1 => LTok TIllegal r1 true imp
  end.
Proof.
  intros Hq. unfold quote_ok in Hq.
  destruct (ceq q c_dq) eqn:E1; [apply Ascii.eqb_eq in E1; subst q; reflexivity|].
  destruct (ceq q c_sq) eqn:E2; [apply Ascii.eqb_eq in E2; subst q; reflexivity|].
  destruct (ceq q c_bt) eqn:E3; [apply Ascii.eqb_eq in E3; subst q; reflexivity|].
  discriminate.
Qed.

Lemma scan_str_tok q v ins r : quote_ok q = true -> forallb (plain_char q) v = true ->
  scan ins (sp1 :: (q :: v ++ [q]) ++ sp1 :: r) = LTok (TStr (q :: v ++ [q])) (sp1 :: r) true false.
Proof.
  intros Hq Hv. unfold scan. cbn [length].
  assert (E : forall f, scan_f (S f) ins false (sp1 :: (q :: v ++ [q]) ++ sp1 :: r) =
                        scan_f (S f) ins false (q :: (v ++ q :: sp1 :: r))).
  { intros f. cbn [scan_f].
    change (skip_ws ins (sp1 :: (q :: v ++ [q]) ++ sp1 :: r)) with (skip_ws ins ((q :: v ++ [q]) ++ sp1 :: r)).
    cbn [app]. rewrite <- app_assoc. cbn [app].
    assert (Hs : forall t, skip_ws ins (q :: t) = q :: t).
    { intros t. rewrite skip_ws_cons. unfold quote_ok in Hq.
      destruct (ceq q c_dq) eqn:E1; [apply Ascii.eqb_eq in E1; subst q; reflexivity|].
      destruct (ceq q c_sq) eqn:E2; [apply Ascii.eqb_eq in E2; subst q; reflexivity|].
      destruct (ceq q c_bt) eqn:E3; [apply Ascii.eqb_eq in E3; subst q; reflexivity|]. discriminate. }
    rewrite !Hs. reflexivity. }
  rewrite E. rewrite scan_f_quote by exact Hq.
  rewrite (scan_str_plain q v (sp1 :: r) [] Hv). reflexivity.
Qed.

(* the tokens the printers emit *)
Inductive tok_ok : tok -> Prop :=
| ok_word x : word_ok x = true -> tok_ok (word_tok x)
| ok_num lit : num_ok lit = true -> tok_ok (TNum lit)
| ok_str q v : quote_ok q = true -> forallb (plain_char q) v = true -> tok_ok (TStr (q :: v ++ [q]))
| ok_p p : tok_ok (TP p).

Lemma ok_id x : ident_ok x = true -> tok_ok (TId x).
Proof. intros H. destruct (ident_word x H) as [Hw E]. rewrite <- E. apply ok_word. exact Hw. Qed.
Lemma ok_kw_new : tok_ok (TKw KNew). Proof. exact (ok_word (B "new") eq_refl). Qed.
Lemma ok_kw_this : tok_ok (TKw KThis). Proof. exact (ok_word (B "this") eq_refl). Qed.
Lemma ok_kw_typeof : tok_ok (TKw KTypeof). Proof. exact (ok_word (B "typeof") eq_refl). Qed.
Lemma ok_kw_void : tok_ok (TKw KVoid). Proof. exact (ok_word (B "void") eq_refl). Qed.
Lemma ok_kw_delete : tok_ok (TKw KDelete). Proof. exact (ok_word (B "delete") eq_refl). Qed.
Lemma ok_kw_in : tok_ok (TKw KIn). Proof. exact (ok_word (B "in") eq_refl). Qed.
Lemma ok_kw_instanceof : tok_ok (TKw KInstanceof). Proof. exact (ok_word (B "instanceof") eq_refl). Qed.
Lemma ok_true : tok_ok (TBool true). Proof. exact (ok_word (B "true") eq_refl). Qed.
Lemma ok_false : tok_ok (TBool false). Proof. exact (ok_word (B "false") eq_refl). Qed.
Lemma ok_null : tok_ok TNull. Proof. exact (ok_word (B "null") eq_refl). Qed.

Lemma scan_tok t : tok_ok t -> forall ins r,
  exists i', scan ins (sp1 :: tok_text t ++ sp1 :: r) = LTok t (sp1 :: r) i' false.
Proof.
  intros H ins r. destruct H.
  - rewrite (word_tok_text x H). apply scan_word_tok. exact H.
  - eexists. apply scan_num. exact H.
  - eexists. apply scan_str_tok; assumption.
  - apply scan_punct.
Qed.

(* ================================================================== 5. parsing a printed token stream *)

Lemma spaced_cons t ts : spaced (t :: ts) = sp1 :: tok_text t ++ spaced ts.
Proof. reflexivity. Qed.

Lemma spaced_app a b : spaced (a ++ b) = spaced a ++ spaced b.
Proof. induction a as [|t a IH]; [reflexivity|]. cbn [app]. rewrite !spaced_cons, IH. cbn [app]. rewrite app_assoc. reflexivity. Qed.

Definition Runs (c : call) (st : pst) (v : val) (st' : pst) : Prop :=
  exists n, forall f, n <= f -> run f c st = ROk v st'.

Lemma runs_step c st v st' :
  (exists n, forall f, n <= f -> step (run f) c st = ROk v st') -> Runs c st v st'.
Proof.
  intros [n H]. exists (S n). intros f Hf. destruct f as [|f]; [lia|]. cbn [run]. apply H. lia.
Qed.

Section Stream.
  (* the text after the last printed token: one space, then [tail]; scanning it yields T0 *)
  Variable tail : bytes.
  Variable T0 : tok.
  Variable R0 : bytes.
  Hypothesis Htail : forall i, exists i' m', scan i (sp1 :: tail) = LTok T0 R0 i' m'.

  Definition Str (ts : list tok) (st : pst) : Prop :=
    match ts with
    | t :: r => tk st = t /\ rs st = spaced r ++ sp1 :: tail /\ imp st = false /\ Forall tok_ok r
    | [] => tk st = T0 /\ rs st = R0
    end.

  Definition hdk (ts : list tok) : tok := match ts with t :: _ => t | [] => T0 end.

  Lemma Str_tk ts st : Str ts st -> tk st = hdk ts.
  Proof. destruct ts; simpl; tauto. Qed.

  Lemma Str_imp t ts st : Str (t :: ts) st -> imp st = false.
  Proof. simpl; tauto. Qed.

  Lemma next_Str t ts st : Str (t :: ts) st -> exists st', next st = ROk tt st' /\ Str ts st'.
  Proof.
    intros (Ht & Hr & Hi & Hall). unfold next. rewrite Hr.
    destruct ts as [|t' ts'].
    - cbn [spaced map concat_bytes app]. destruct (Htail (ins st)) as (i' & m' & E). rewrite E.
      eexists. split; [reflexivity|]. simpl. auto.
    - inversion Hall as [|? ? Hok Hall']; subst.
      rewrite spaced_cons. cbn [app]. rewrite <- app_assoc.
      assert (Hsp : exists r, spaced ts' ++ sp1 :: tail = sp1 :: r).
      { destruct ts'; [eexists; reflexivity|]. rewrite spaced_cons. eexists; reflexivity. }
      destruct Hsp as [r Hsp]. rewrite Hsp.
      destruct (scan_tok t' Hok (ins st) r) as [i' E]. rewrite E.
      eexists. split; [reflexivity|]. simpl. rewrite Hsp. auto.
  Qed.

  Lemma Str_app_ok a k st : Str (a ++ k) st -> True.
  Proof. auto. Qed.
End Stream.

(* ---- the ladder: levels, and the tokens that continue an expression at a level *)

Definition lvl_num (l : lvl) : nat :=
  match l with
  | LOr => 4 | LAnd => 5 | LBitOr => 6 | LBitXor => 7 | LBitAnd => 8 | LEq => 9 | LRel => 10
  | LShift => 11 | LAdd => 12 | LMul => 13
  end.

Definition call_at (L : nat) : call :=
  match L with
  | 0 | 1 => CExpression
  | 2 => CAssignment
  | 3 => CConditional
  | 4 => CBin LOr | 5 => CBin LAnd | 6 => CBin LBitOr | 7 => CBin LBitXor | 8 => CBin LBitAnd
  | 9 => CBin LEq | 10 => CBin LRel | 11 => CBin LShift | 12 => CBin LAdd | 13 => CBin LMul
  | 14 => CUnary
  | 15 => CPostfix
  | _ => CLhsCall
  end.

Lemma call_at_lvl l : call_at (lvl_num l) = CBin l.
Proof. destruct l; reflexivity. Qed.
Lemma call_at_next l : call_at (S (lvl_num l)) = lvl_next l.
Proof. destruct l; reflexivity. Qed.

Definition bin_level (t : tok) : nat :=
  match t with
  | TP PLOr => 4 | TP PLAnd => 5 | TP POr => 6 | TP PXor => 7 | TP PAnd => 8
  | TP PEq | TP PNe | TP PSEq | TP PSNe => 9
  | TP PLt | TP PGt | TP PLe | TP PGe | TKw KInstanceof | TKw KIn => 10
  | TP PShl | TP PShr | TP PUShr => 11
  | TP PPlus | TP PMinus => 12
  | TP PMul | TP PSlash | TP PRem => 13
  | _ => 0
  end.

(* the highest level whose loop picks the token up; 0: none *)
Definition cont_level (t : tok) : nat :=
  match t with
  | TP PComma => 1
  | TP PQuestion => 3
  | TP PInc | TP PDec => 15
  | TP PPeriod | TP PLBrack | TP PLParen => 17
  | _ => match assign_op t with AONone => bin_level t | _ => 2 end
  end.

Definition stop (L : nat) (t : tok) : bool := cont_level t <? L.

Lemma stop_mono L L' t : L <= L' -> stop L t = true -> stop L' t = true.
Proof. unfold stop. intros Hl H. apply Nat.ltb_lt in H. apply Nat.ltb_lt. lia. Qed.

Ltac stop_case t :=
  unfold stop; intros Hl H; apply Nat.ltb_lt in H;
  destruct t as [| | |k| | | | | |p]; try destruct k; try destruct p; try reflexivity;
  cbn in H; lia.

Lemma stop_comma L st : L <= 1 -> stop L (tk st) = true -> is_p PComma st = false.
Proof. unfold is_p. generalize (tk st). intros t. stop_case t. Qed.
Lemma stop_assign L t : L <= 2 -> stop L t = true -> assign_op t = AONone.
Proof. stop_case t. Qed.
Lemma stop_question L st : L <= 3 -> stop L (tk st) = true -> is_p PQuestion st = false.
Proof. unfold is_p. generalize (tk st). intros t. stop_case t. Qed.
Lemma stop_bin L l t : L <= lvl_num l -> stop L t = true -> lvl_op l t = None.
Proof. destruct l; cbn [lvl_num]; stop_case t. Qed.
Lemma stop_incdec L t : L <= 15 -> stop L t = true -> incdec t = None.
Proof. stop_case t. Qed.
Lemma stop_member L st : L <= 17 -> stop L (tk st) = true ->
  is_p PPeriod st = false /\ is_p PLBrack st = false /\ is_p PLParen st = false.
Proof.
  unfold is_p. generalize (tk st). intros t Hl H. repeat split; revert Hl H; stop_case t.
Qed.

Ltac runs_use H n f Hf :=
  destruct H as [n H]; apply runs_step; exists n; intros f Hf; cbn [step call_at].

Lemma desc_step L st e st' :
  1 <= L <= 16 -> Runs (call_at (S L)) st (VE e) st' -> stop L (tk st') = true ->
  (L = 14 -> unary_op (tk st) = None /\ incdec (tk st) = None) ->
  Runs (call_at L) st (VE e) st'.
Proof.
  intros HL H Hs Hu.
  do 17 (try destruct L as [|L]); try lia; cbn [call_at] in H.
  - runs_use H n f Hf. unfold parseExpression. rewrite (H f Hf). cbn [asE bind].
    rewrite (stop_comma 1 st'); [reflexivity|lia|exact Hs].
  - runs_use H n f Hf. unfold parseAssignmentExpression. rewrite (H f Hf). cbn [asE bind].
    rewrite (stop_assign 2 (tk st')); [reflexivity|lia|exact Hs].
  - runs_use H n f Hf. unfold parseConditionalExpression. rewrite (H f Hf). cbn [asE bind].
    rewrite (stop_question 3 st'); [reflexivity|lia|exact Hs].
  - (* 4 *) destruct H as [n H]. apply runs_step. exists (S n). intros f Hf. cbn [step call_at]. unfold parseBinary.
    cbn [lvl_next]. rewrite (H f) by lia. cbn [asE bind]. destruct f as [|f]; [lia|]. cbn [run step]. unfold binLoop.
    rewrite (stop_bin 4 LOr (tk st')); [reflexivity|cbn; lia|exact Hs].
  - destruct H as [n H]. apply runs_step. exists (S n). intros f Hf. cbn [step call_at]. unfold parseBinary.
    cbn [lvl_next]. rewrite (H f) by lia. cbn [asE bind]. destruct f as [|f]; [lia|]. cbn [run step]. unfold binLoop.
    rewrite (stop_bin 5 LAnd (tk st')); [reflexivity|cbn; lia|exact Hs].
  - destruct H as [n H]. apply runs_step. exists (S n). intros f Hf. cbn [step call_at]. unfold parseBinary.
    cbn [lvl_next]. rewrite (H f) by lia. cbn [asE bind]. destruct f as [|f]; [lia|]. cbn [run step]. unfold binLoop.
    rewrite (stop_bin 6 LBitOr (tk st')); [reflexivity|cbn; lia|exact Hs].
  - destruct H as [n H]. apply runs_step. exists (S n). intros f Hf. cbn [step call_at]. unfold parseBinary.
    cbn [lvl_next]. rewrite (H f) by lia. cbn [asE bind]. destruct f as [|f]; [lia|]. cbn [run step]. unfold binLoop.
    rewrite (stop_bin 7 LBitXor (tk st')); [reflexivity|cbn; lia|exact Hs].
  - destruct H as [n H]. apply runs_step. exists (S n). intros f Hf. cbn [step call_at]. unfold parseBinary.
    cbn [lvl_next]. rewrite (H f) by lia. cbn [asE bind]. destruct f as [|f]; [lia|]. cbn [run step]. unfold binLoop.
    rewrite (stop_bin 8 LBitAnd (tk st')); [reflexivity|cbn; lia|exact Hs].
  - destruct H as [n H]. apply runs_step. exists (S n). intros f Hf. cbn [step call_at]. unfold parseBinary.
    cbn [lvl_next]. rewrite (H f) by lia. cbn [asE bind]. destruct f as [|f]; [lia|]. cbn [run step]. unfold binLoop.
    rewrite (stop_bin 9 LEq (tk st')); [reflexivity|cbn; lia|exact Hs].
  - destruct H as [n H]. apply runs_step. exists (S n). intros f Hf. cbn [step call_at]. unfold parseBinary.
    cbn [lvl_next]. rewrite (H f) by lia. cbn [asE bind]. destruct f as [|f]; [lia|]. cbn [run step]. unfold binLoop.
    rewrite (stop_bin 10 LRel (tk st')); [reflexivity|cbn; lia|exact Hs].
  - destruct H as [n H]. apply runs_step. exists (S n). intros f Hf. cbn [step call_at]. unfold parseBinary.
    cbn [lvl_next]. rewrite (H f) by lia. cbn [asE bind]. destruct f as [|f]; [lia|]. cbn [run step]. unfold binLoop.
    rewrite (stop_bin 11 LShift (tk st')); [reflexivity|cbn; lia|exact Hs].
  - destruct H as [n H]. apply runs_step. exists (S n). intros f Hf. cbn [step call_at]. unfold parseBinary.
    cbn [lvl_next]. rewrite (H f) by lia. cbn [asE bind]. destruct f as [|f]; [lia|]. cbn [run step]. unfold binLoop.
    rewrite (stop_bin 12 LAdd (tk st')); [reflexivity|cbn; lia|exact Hs].
  - destruct H as [n H]. apply runs_step. exists (S n). intros f Hf. cbn [step call_at]. unfold parseBinary.
    cbn [lvl_next]. rewrite (H f) by lia. cbn [asE bind]. destruct f as [|f]; [lia|]. cbn [run step]. unfold binLoop.
    rewrite (stop_bin 13 LMul (tk st')); [reflexivity|cbn; lia|exact Hs].
  - (* 14 *) destruct (Hu eq_refl) as [Hu1 Hu2].
    runs_use H n f Hf. unfold parseUnaryExpression. rewrite Hu1, Hu2. apply H. exact Hf.
  - (* 15 *) runs_use H n f Hf. unfold parsePostfixExpression. rewrite (H f Hf). cbn [asE bind].
    rewrite (stop_incdec 15 (tk st')); [reflexivity|lia|exact Hs].
  - exact H.
Qed.

Lemma desc d : forall L st e st',
  1 <= L -> L + d <= 17 -> Runs (call_at (L + d)) st (VE e) st' -> stop L (tk st') = true ->
  (L <= 14 < L + d -> unary_op (tk st) = None /\ incdec (tk st) = None) ->
  Runs (call_at L) st (VE e) st'.
Proof.
  induction d as [|d IH]; intros L st e st' HL Hd H Hs Hu.
  - rewrite Nat.add_0_r in H. exact H.
  - apply (IH L st e st' HL); try lia; try exact Hs.
    + apply desc_step; try lia.
      * replace (S (L + d)) with (L + S d) by lia. exact H.
      * eapply stop_mono; [|exact Hs]. lia.
      * intros E. apply Hu. lia.
    + intros Hx. apply Hu. lia.
Qed.

(* ---- size of expressions (the induction measure) *)
Fixpoint esize (e : expr) : nat :=
  match e with
  | EArr es | ESeq es => S (list_sum (map esize es))
  | EObj kvs => S (list_sum (map (fun kv => match kv with (_, v) => esize v end) kvs))
  | EDot a _ => S (esize a)
  | EIdx a i => S (esize a + esize i)
  | ECall f args | ENew f args => S (esize f + list_sum (map esize args))
  | EUn _ _ a => S (esize a)
  | EBin _ l r => S (esize l + esize r)
  | ECond c a b => S (esize c + esize a + esize b)
  | EAssign _ l r => S (esize l + esize r)
  | _ => 1
  end.

Lemma esize_pos e : 1 <= esize e.
Proof. destruct e; simpl; lia. Qed.

Lemma esize_in x l : In x l -> esize x <= list_sum (map esize l).
Proof.
  induction l as [|y l IH]; [intros []|]. intros [->|H]; simpl; [lia|]. specialize (IH H). lia.
Qed.

Lemma esize_in_kv k v (l : list (bytes * expr)) :
  In (k, v) l -> esize v <= list_sum (map (fun kv => match kv with (_, v) => esize v end) l).
Proof.
  induction l as [|y l IH]; [intros []|]. intros [->|H]; simpl; [lia|]. specialize (IH H). lia.
Qed.

Definition hd_tok (ts : list tok) : tok := hd TEOF ts.

Lemma hd_tok_app a b : a <> [] -> hd_tok (a ++ b) = hd_tok a.
Proof. destruct a; [congruence|reflexivity]. Qed.

Definition startb (t : tok) : bool :=
  match t with
  | TId _ | TNum _ | TStr _ | TBool _ | TNull => true
  | TKw KThis | TKw KNew | TKw KTypeof | TKw KVoid | TKw KDelete => true
  | TP PLParen | TP PLBrack | TP PLBrace | TP PPlus | TP PMinus | TP PNot | TP PBitNot | TP PInc | TP PDec => true
  | _ => false
  end.

Definition nounary (t : tok) : Prop := unary_op t = None /\ incdec t = None.

Section Heads.
  Variable full : bool.
  Notation P e need := (par full (raw full e) (prec_of e) need).

  Definition head_ok (e : expr) : Prop :=
    raw full e <> [] /\ startb (hd_tok (raw full e)) = true /\
    (15 <= prec_of e -> nounary (hd_tok (raw full e))) /\
    (prec_of e = 18 -> hd_tok (raw full e) <> TKw KNew).

  Lemma par_head e need : head_ok e ->
    P e need <> [] /\ startb (hd_tok (P e need)) = true /\
    (15 <= need -> nounary (hd_tok (P e need))).
  Proof.
    intros (H1 & H2 & H3 & H4). unfold par.
    destruct (full || (prec_of e <? need))%bool eqn:E.
    - unfold wrap. repeat split; try discriminate; reflexivity.
    - apply orb_false_elim in E. destruct E as [_ E]. apply Nat.ltb_ge in E.
      repeat split; auto; apply H3; lia.
  Qed.

  Lemma unop_tok_start op : startb (unop_tok op) = true.
  Proof. destruct op; reflexivity. Qed.

  Lemma head_app (a b : list tok) (p : nat) :
    a <> [] -> startb (hd_tok a) = true -> (15 <= p -> nounary (hd_tok a)) -> p <> 18 ->
    a ++ b <> [] /\ startb (hd_tok (a ++ b)) = true /\ (15 <= p -> nounary (hd_tok (a ++ b))) /\
    (p = 18 -> hd_tok (a ++ b) <> TKw KNew).
  Proof.
    intros A B C D. rewrite hd_tok_app by exact A.
    split. { intros H. apply app_eq_nil in H. tauto. }
    split. { exact B. }
    split. { exact C. }
    intros; lia.
  Qed.

  Lemma raw_head n : forall e, esize e <= n -> wf e = true -> head_ok e.
  Proof.
    induction n as [|n IH]; intros e Hn Hw.
    { destruct e; simpl in Hn; lia. }
    assert (IHp : forall a need, esize a <= n -> wf a = true ->
              P a need <> [] /\ startb (hd_tok (P a need)) = true /\ (15 <= need -> nounary (hd_tok (P a need)))).
    { intros a need Ha Hwa. apply par_head. apply IH; assumption. }
    unfold head_ok.
    destruct e; cbn [wf] in Hw; try discriminate; cbn [raw prec_of esize] in *;
      try (repeat split; try discriminate; try reflexivity; intros; try congruence; fail).
    - (* EDot *)
      apply andb_prop in Hw. destruct Hw as [Hw _].
      destruct (IHp e p_call ltac:(lia) Hw) as (A & B & C).
      apply head_app; auto; unfold p_call in *; try lia; try (intros; apply C; lia).
    - (* EIdx *)
      apply andb_prop in Hw. destruct Hw as [Hw _].
      destruct (IHp e1 p_call ltac:(lia) Hw) as (A & B & C).
      apply head_app; auto; unfold p_call in *; try lia; try (intros; apply C; lia).
    - (* ECall *)
      apply andb_prop in Hw. destruct Hw as [Hw _].
      destruct (IHp e p_call ltac:(lia) Hw) as (A & B & C).
      apply head_app; auto; unfold p_call in *; try lia; try (intros; apply C; lia).
    - (* EUn *)
      destruct postfix; cbv iota in *.
      + apply andb_prop in Hw. destruct Hw as [Hw _]. apply andb_prop in Hw. destruct Hw as [Hw _].
        destruct (IHp e p_call ltac:(lia) Hw) as (A & B & C).
        apply head_app; auto; unfold p_postfix, p_call in *; try lia; try (intros; apply C; lia).
      + split; [discriminate|]. split; [apply unop_tok_start|]. unfold p_unary, p_primary. split; intros; lia.
    - (* EBin *)
      apply andb_prop in Hw. destruct Hw as [Hw _].
      destruct (IHp e1 (left_need (bin_prec op) (bin_assoc op)) ltac:(lia) Hw) as (A & B & C).
      apply head_app; auto; destruct op; cbn; lia.
    - (* ECond *)
      apply andb_prop in Hw. destruct Hw as [Hw _]. apply andb_prop in Hw. destruct Hw as [Hw _].
      destruct (IHp e1 (S p_cond) ltac:(lia) Hw) as (A & B & C).
      apply head_app; auto; unfold p_cond; lia.
    - (* EAssign *)
      apply andb_prop in Hw. destruct Hw as [Hw _]. apply andb_prop in Hw. destruct Hw as [Hw _].
      apply andb_prop in Hw. destruct Hw as [Hw _].
      destruct (IHp e1 p_call ltac:(lia) Hw) as (A & B & C).
      apply head_app; auto; unfold p_assign; lia.
    - (* ESeq *)
      apply andb_prop in Hw. destruct Hw as [Hw Hl].
      destruct es as [|x [|y es]]; try discriminate.
      cbn [map commas]. cbn [forallb] in Hw. apply andb_prop in Hw. destruct Hw as [Hx _].
      simpl in Hn.
      destruct (IHp x p_assign ltac:(lia) Hx) as (A & B & C).
      apply head_app; auto; unfold p_seq; lia.
  Qed.
End Heads.

(* ---- facts about tokens and printers used below *)

Lemma prec_of_bounds e : 1 <= prec_of e <= 18 /\ (prec_of e <> 18 -> prec_of e <= 17) /\ prec_of e <> 16.
Proof.
  destruct e; cbn; unfold p_seq, p_assign, p_cond, p_unary, p_postfix, p_call, p_primary; try lia.
  - destruct postfix; lia.
  - destruct op; cbn; lia.
Qed.

Definition op_lvl (op : binop) : lvl :=
  match op with
  | BOr => LOr | BAnd => LAnd | BBitOr => LBitOr | BBitXor => LBitXor | BBitAnd => LBitAnd
  | BEq | BNe | BSEq | BSNe => LEq
  | BLt | BGt | BLe | BGe | BInstanceof | BIn => LRel
  | BShl | BShr | BUShr => LShift
  | BAdd | BSub => LAdd
  | BMul | BDiv | BMod => LMul
  end.

Lemma op_lvl_num op : lvl_num (op_lvl op) = bin_prec op.
Proof. destruct op; reflexivity. Qed.
Lemma op_lvl_tok op : lvl_op (op_lvl op) (binop_tok op) = Some op.
Proof. destruct op; reflexivity. Qed.
Lemma binop_tok_ok op : tok_ok (binop_tok op).
Proof. destruct op; cbn; try apply ok_p; [apply ok_kw_instanceof|apply ok_kw_in]. Qed.
Lemma binop_tok_cont op : cont_level (binop_tok op) = bin_prec op.
Proof. destruct op; reflexivity. Qed.
Lemma unop_tok_ok op : tok_ok (unop_tok op).
Proof. destruct op; cbn; try apply ok_p; [apply ok_kw_typeof|apply ok_kw_delete|apply ok_kw_void]. Qed.

Lemma assign_tok_op op t : assign_tok op = Some t -> assign_op t = AOp op /\ cont_level t = 2 /\ tok_ok t.
Proof.
  destruct op as [[]|]; cbn; intros H; inversion H; subst; repeat split; apply ok_p.
Qed.

Lemma str_value_plain q v : forallb (plain_char q) v = true -> str_value v = VVal v.
Proof.
  induction v as [|c v IH]; intros H; [reflexivity|].
  simpl in H. apply andb_prop in H. destruct H as [Hc Hv].
  cbn [str_value]. unfold plain_char in Hc.
  repeat (apply andb_prop in Hc; destruct Hc as [Hc ?]).
  assert (Hb : ceq c bsl = false) by (apply negb_true_iff; assumption).
  rewrite Hb. cbn [negb]. rewrite (IH Hv). reflexivity.
Qed.

Lemma startb_facts st : startb (tk st) = true ->
  is_p PRParen st = false /\ is_p PRBrack st = false /\ is_p PRBrace st = false /\
  is_p PComma st = false /\ is_eof st = false /\ is_p PSemi st = false.
Proof.
  unfold is_p, is_eof. destruct (tk st) as [| | |k| | | | | |p]; try discriminate; try (intros _; auto 10; fail).
  destruct p; try discriminate; intros _; cbn; auto 10.
Qed.

Lemma not_new_kw st : tk st <> TKw KNew -> is_kw KNew st = false.
Proof. unfold is_kw. destruct (tk st) as [| | |k| | | | | |p]; auto. destruct k; auto. congruence. Qed.

Lemma wrap_app r k : wrap r ++ k = TP PLParen :: r ++ TP PRParen :: k.
Proof. unfold wrap. cbn [app]. rewrite <- app_assoc. reflexivity. Qed.

Definition ctail (l : list (list tok)) : list tok := concat (map (fun x => TP PComma :: x) l).

Lemma commas_cons x xs : commas (x :: xs) = x ++ ctail xs.
Proof.
  revert x; induction xs as [|y r IH]; intros x.
  - simpl. rewrite app_nil_r. reflexivity.
  - change (commas (x :: y :: r)) with (x ++ TP PComma :: commas (y :: r)). rewrite IH. reflexivity.
Qed.

Lemma ctail_cons y r : ctail (y :: r) = TP PComma :: commas (y :: r).
Proof. rewrite commas_cons. reflexivity. Qed.

Ltac runs_go f Hf :=
  let rec collect acc :=
    lazymatch goal with
    | H : Runs _ _ _ _ |- _ => let n := fresh "n" in destruct H as [n H]; collect (acc + n)
    | _ => apply runs_step; exists acc
    end in
  collect 0; intros f Hf.

Section Round.
  Variable full : bool.
  Variable tail : bytes.
  Variable T0 : tok.
  Variable R0 : bytes.
  Hypothesis Htail : forall i, exists i' m', scan i (sp1 :: tail) = LTok T0 R0 i' m'.
  Hypothesis HT0 : cont_level T0 = 0.

  Notation Str := (Str tail T0 R0).
  Notation hdk := (hdk T0).
  Notation P e need := (par full (raw full e) (prec_of e) need).

  Lemma nextS t ts st : Str (t :: ts) st -> exists st', next st = ROk tt st' /\ Str ts st'.
  Proof. apply (next_Str tail T0 R0 Htail). Qed.

  Lemma hdk_app a k : a <> [] -> hdk (a ++ k) = hd_tok a.
  Proof. destruct a; [congruence|reflexivity]. Qed.

  Lemma Str_hd ts st : Str ts st -> tk st = hdk ts.
  Proof. apply Str_tk. Qed.

  Lemma stop_T0 L : 1 <= L -> stop L (hdk []) = true.
  Proof. intros H. unfold stop. simpl. rewrite HT0. apply Nat.ltb_lt. lia. Qed.

  (* the slot a conditional's last operand sits in is the assignment level *)
  Definition slevel (e : expr) : nat := match e with ECond _ _ _ => 2 | _ => prec_of e end.

  Definition Rp (e : expr) : Prop :=
    forall k st, Str (raw full e ++ k) st -> exists st', Str k st' /\ Runs CPrimary st (VE e) st'.
  Definition Ro (e : expr) : Prop :=
    forall k st, Str (raw full e ++ k) st -> stop (slevel e) (hdk k) = true ->
      exists st', Str k st' /\ Runs (call_at (prec_of e)) st (VE e) st'.
  Definition R (e : expr) : Prop := if prec_of e =? 18 then Rp e else Ro e.

  Definition T (e : expr) : Prop :=
    forall need k st, 1 <= need <= 17 -> (need = 3 -> prec_of e <> 3) ->
      Str (P e need ++ k) st -> stop need (hdk k) = true ->
      exists st', Str k st' /\ Runs (call_at need) st (VE e) st'.

  Lemma slevel_pos e : 1 <= slevel e.
  Proof.
    destruct e; cbn; unfold p_seq, p_assign, p_cond, p_unary, p_postfix, p_call, p_primary; try lia.
    - destruct postfix; lia.
    - destruct op; cbn; lia.
  Qed.

  Lemma member_stops ac e st : stop 17 (tk st) = true -> Runs (CMember ac e) st (VE e) st.
  Proof.
    intros Hs. destruct (stop_member 17 st (le_n _) Hs) as (A & B & C).
    apply runs_step. exists 0. intros f _. cbn [step]. unfold memberLoop. rewrite A, B, C.
    rewrite andb_false_r. reflexivity.
  Qed.

  Definition entry (ac : bool) : call := if ac then CLhsCall else CLhs.

  Lemma lhs_cps ac e st st1 v st2 :
    Runs CPrimary st (VE e) st1 -> is_kw KNew st = false ->
    Runs (CMember ac e) st1 v st2 -> Runs (entry ac) st v st2.
  Proof.
    intros H1 Hn H2. runs_go f Hf. destruct ac; cbn [entry step];
      [unfold parseLeftHandSideExpressionAllowCall|unfold parseLeftHandSideExpression];
      rewrite Hn; rewrite H1 by lia; cbn [asE bind]; apply H2; lia.
  Qed.

  Lemma lhs_of_prim e st st1 :
    Runs CPrimary st (VE e) st1 -> is_kw KNew st = false -> stop 17 (tk st1) = true ->
    Runs CLhsCall st (VE e) st1.
  Proof.
    intros H1 Hn Hs. apply (lhs_cps true e st st1 (VE e) st1 H1 Hn). apply member_stops. exact Hs.
  Qed.

  Lemma stop_rparen L : 1 <= L -> stop L (TP PRParen) = true.
  Proof. intros. destruct L; [lia|reflexivity]. Qed.

  (* a printed operand, from the raw statement about the expression itself *)
  Lemma to_expr1 e : head_ok full e -> R e ->
    forall k st, Str (raw full e ++ TP PRParen :: k) st ->
      exists st', Str (TP PRParen :: k) st' /\ Runs CExpression st (VE e) st'.
  Proof.
    intros (Hne & Hst & Hnu & Hnn) HR k st Hs.
    pose proof (Str_hd _ _ Hs) as Htk. rewrite hdk_app in Htk by exact Hne.
    destruct (prec_of_bounds e) as (Hb1 & Hb2 & Hb3).
    unfold R in HR. destruct (prec_of e =? 18) eqn:E.
    - apply Nat.eqb_eq in E. destruct (HR _ _ Hs) as (st' & Hs' & Hr).
      exists st'. split; [exact Hs'|].
      assert (Hl : Runs CLhsCall st (VE e) st').
      { apply lhs_of_prim; [exact Hr| |].
        - apply not_new_kw. rewrite Htk. apply Hnn. exact E.
        - rewrite (Str_hd _ _ Hs'). apply stop_rparen. lia. }
      apply (desc 16 1 st e st'); try lia; [exact Hl| |].
      + rewrite (Str_hd _ _ Hs'). apply stop_rparen. lia.
      + intros _. rewrite Htk. apply Hnu. lia.
    - apply Nat.eqb_neq in E. specialize (Hb2 E).
      destruct (HR _ _ Hs) as (st' & Hs' & Hr).
      { cbn [hdk]. apply stop_rparen. apply slevel_pos. }
      exists st'. split; [exact Hs'|].
      apply (desc (prec_of e - 1) 1 st e st'); try lia.
      + replace (1 + (prec_of e - 1)) with (prec_of e) by lia. exact Hr.
      + rewrite (Str_hd _ _ Hs'). apply stop_rparen. lia.
      + intros Hx. rewrite Htk. apply Hnu. lia.
  Qed.

  Lemma wrap_prim e : head_ok full e -> R e ->
    forall k st, Str (wrap (raw full e) ++ k) st -> exists st2, Str k st2 /\ Runs CPrimary st (VE e) st2.
  Proof.
    intros Hh HR k st Hs. rewrite wrap_app in Hs.
    pose proof (Str_hd _ _ Hs) as Htk. cbn [hdk] in Htk.
    destruct (nextS _ _ _ Hs) as (st1 & Hn1 & Hs1).
    destruct (to_expr1 e Hh HR k st1 Hs1) as (stA & HsA & HrA).
    pose proof (Str_hd _ _ HsA) as HtkA. cbn [hdk] in HtkA.
    destruct (nextS _ _ _ HsA) as (st2 & Hn2 & Hs2).
    exists st2. split; [exact Hs2|].
    runs_go f Hf. cbn [step]. unfold parsePrimaryExpression. rewrite Htk. rewrite Hn1. cbn [bind].
    rewrite HrA by lia. cbn [asE bind]. unfold expect, is_p. rewrite HtkA. cbn [punct_eqb punct_beq].
    rewrite Hn2. reflexivity.
  Qed.

  Lemma T_of_R e : head_ok full e -> R e -> T e.
  Proof.
    intros Hh HR need k st Hneed H3 Hs Hstop.
    destruct Hh as (Hne & Hst & Hnu & Hnn).
    destruct (prec_of_bounds e) as (Hb1 & Hb2 & Hb3).
    unfold par in Hs. destruct (full || (prec_of e <? need))%bool eqn:E.
    - (* parenthesised *)
      pose proof (Str_hd _ _ Hs) as Htk. rewrite wrap_app in Htk. cbn [hdk] in Htk.
      destruct (wrap_prim e (conj Hne (conj Hst (conj Hnu Hnn))) HR k st Hs) as (st2 & Hs2 & Hr2).
      exists st2. split; [exact Hs2|].
      assert (Hl : Runs CLhsCall st (VE e) st2).
      { apply lhs_of_prim; [exact Hr2| |].
        - unfold is_kw. rewrite Htk. reflexivity.
        - rewrite (Str_hd _ _ Hs2). eapply stop_mono; [|exact Hstop]. lia. }
      apply (desc (17 - need) need st e st2); try lia.
      + replace (need + (17 - need)) with 17 by lia. exact Hl.
      + rewrite (Str_hd _ _ Hs2). exact Hstop.
      + intros _. rewrite Htk. split; reflexivity.
    - apply orb_false_elim in E. destruct E as [_ E]. apply Nat.ltb_ge in E.
      pose proof (Str_hd _ _ Hs) as Htk. rewrite hdk_app in Htk by exact Hne.
      unfold R in HR. destruct (prec_of e =? 18) eqn:E18.
      + apply Nat.eqb_eq in E18. destruct (HR _ _ Hs) as (st' & Hs' & Hr).
        exists st'. split; [exact Hs'|].
        assert (Hl : Runs CLhsCall st (VE e) st').
        { apply lhs_of_prim; [exact Hr| |].
          - apply not_new_kw. rewrite Htk. apply Hnn. exact E18.
          - rewrite (Str_hd _ _ Hs'). eapply stop_mono; [|exact Hstop]. lia. }
        apply (desc (17 - need) need st e st'); try lia.
        * replace (need + (17 - need)) with 17 by lia. exact Hl.
        * rewrite (Str_hd _ _ Hs'). exact Hstop.
        * intros _. rewrite Htk. apply Hnu. lia.
      + apply Nat.eqb_neq in E18. specialize (Hb2 E18).
        destruct (HR _ _ Hs) as (st' & Hs' & Hr).
        { eapply stop_mono; [|exact Hstop].
          destruct e; cbn [slevel]; try exact E.
          (* conditional: need <= 3 and need <> 3 *)
          cbn in E. unfold p_cond in E. cbn in H3. unfold p_cond in H3.
          destruct (Nat.eq_dec need 3) as [E3|E3]; [exfalso; apply (H3 E3); reflexivity|lia]. }
        exists st'. split; [exact Hs'|].
        apply (desc (prec_of e - need) need st e st'); try lia.
        * replace (need + (prec_of e - need)) with (prec_of e) by lia. exact Hr.
        * rewrite (Str_hd _ _ Hs'). exact Hstop.
        * intros Hx. rewrite Htk. apply Hnu. lia.
  Qed.

  (* ---- argument lists, array and object literals, sequences *)
  Definition Tok (x : expr) : Prop := head_ok full x /\ T x.

  Lemma is_p_tk p st t : tk st = t -> is_p p st = match t with TP q => punct_eqb p q | _ => false end.
  Proof. intros <-. reflexivity. Qed.
  Lemma is_kw_tk k st t : tk st = t -> is_kw k st = match t with TKw q => kw_eqb k q | _ => false end.
  Proof. intros <-. reflexivity. Qed.
  Lemma is_eof_tk st t : tk st = t -> is_eof st = match t with TEOF => true | _ => false end.
  Proof. intros <-. reflexivity. Qed.

  Ltac tk_is H :=
    match type of H with
    | tk ?st = ?t => rewrite ?(is_p_tk _ st t H), ?(is_kw_tk _ st t H), ?(is_eof_tk st t H)
    end; cbn [punct_eqb punct_beq kw_eqb kw_beq andb orb negb].

  Lemma T2 x k st : Tok x -> Str (P x p_assign ++ k) st -> stop 2 (hdk k) = true ->
    exists st', Str k st' /\ Runs CAssignment st (VE x) st'.
  Proof.
    intros [_ HT] Hs Hst. apply (HT 2 k st); auto; [lia|intros; lia].
  Qed.

  Lemma stop_comma_tok L : 2 <= L -> stop L (TP PComma) = true.
  Proof. intros. do 2 (destruct L; [lia|]). reflexivity. Qed.
  Lemma stop_plain_tok L t : 1 <= L -> cont_level t = 0 -> stop L t = true.
  Proof. intros H E. unfold stop. rewrite E. apply Nat.ltb_lt. lia. Qed.

  Lemma arg_loop xs : forall acc x k st, Forall Tok (x :: xs) ->
    Str (P x p_assign ++ ctail (map (fun y => P y p_assign) xs) ++ TP PRParen :: k) st ->
    exists st', Str k st' /\ Runs (CArgLoop acc) st (VL (rev acc ++ x :: xs)) st'.
  Proof.
    induction xs as [|y r IH]; intros acc x k st Hall Hs.
    - cbn [map ctail concat app] in Hs. inversion Hall as [|? ? Hx _]; subst.
      destruct (T2 x _ st Hx Hs) as (st1 & Hs1 & Hr1); [apply stop_rparen; lia|].
      pose proof (Str_hd _ _ Hs1) as Htk1. cbn [hdk] in Htk1.
      destruct (nextS _ _ _ Hs1) as (st2 & Hn2 & Hs2).
      exists st2. split; [exact Hs2|].
      runs_go f Hf. cbn [step]. unfold argLoop. rewrite Hr1 by lia. cbn [asE bind].
      tk_is Htk1. unfold expect. tk_is Htk1. rewrite Hn2. reflexivity.
    - inversion Hall as [|? ? Hx Hall']; subst.
      cbn [map] in Hs. unfold ctail in Hs. cbn [map concat] in Hs. fold (ctail (map (fun y => P y p_assign) r)) in Hs.
      cbn [app] in Hs.
      destruct (T2 x _ st Hx Hs) as (st1 & Hs1 & Hr1); [apply stop_comma_tok; lia|].
      pose proof (Str_hd _ _ Hs1) as Htk1. cbn [hdk] in Htk1.
      destruct (nextS _ _ _ Hs1) as (st2 & Hn2 & Hs2).
      rewrite <- app_assoc in Hs2.
      destruct (IH (x :: acc) y k st2 Hall' Hs2) as (st3 & Hs3 & Hr3).
      exists st3. split; [exact Hs3|].
      runs_go f Hf. cbn [step]. unfold argLoop. rewrite Hr1 by lia. cbn [asE bind].
      tk_is Htk1. rewrite Hn2. cbn [bind]. rewrite Hr3 by lia.
      cbn [rev]. rewrite <- app_assoc. reflexivity.
  Qed.

  Lemma args_runs args k st : Forall Tok args ->
    Str (TP PLParen :: commas (map (fun y => P y p_assign) args) ++ TP PRParen :: k) st ->
    exists st', Str k st' /\ Runs CArgs st (VL args) st'.
  Proof.
    intros Hall Hs. pose proof (Str_hd _ _ Hs) as Htk. cbn [hdk] in Htk.
    destruct (nextS _ _ _ Hs) as (st1 & Hn1 & Hs1).
    destruct args as [|x xs].
    - cbn [map commas app] in Hs1. pose proof (Str_hd _ _ Hs1) as Htk1. cbn [hdk] in Htk1.
      destruct (nextS _ _ _ Hs1) as (st2 & Hn2 & Hs2).
      exists st2. split; [exact Hs2|].
      runs_go f Hf. cbn [step]. unfold parseArgumentList, expect. tk_is Htk. rewrite Hn1. cbn [bind].
      tk_is Htk1. rewrite Hn2. reflexivity.
    - cbn [map] in Hs1. rewrite commas_cons in Hs1. rewrite <- app_assoc in Hs1.
      destruct (arg_loop xs [] x k st1 Hall Hs1) as (st2 & Hs2 & Hr2).
      exists st2. split; [exact Hs2|].
      inversion Hall as [|? ? [Hh _] _]; subst.
      destruct (par_head full x p_assign Hh) as (A & B & _).
      pose proof (Str_hd _ _ Hs1) as Htk1. rewrite hdk_app in Htk1 by exact A.
      assert (Hst : startb (tk st1) = true) by (rewrite Htk1; exact B).
      destruct (startb_facts st1 Hst) as (F1 & _).
      runs_go f Hf. cbn [step]. unfold parseArgumentList, expect. tk_is Htk. rewrite Hn1. cbn [bind].
      rewrite F1. apply Hr2. lia.
  Qed.

  Lemma Tok_start x need k st : Tok x -> Str (P x need ++ k) st -> startb (tk st) = true.
  Proof.
    intros [Hh _] Hs. destruct (par_head full x need Hh) as (A & B & _).
    pose proof (Str_hd _ _ Hs) as Htk. rewrite hdk_app in Htk by exact A. rewrite Htk. exact B.
  Qed.

  Lemma arr_loop xs : forall acc k st, Forall Tok xs ->
    Str (commas (map (fun y => P y p_assign) xs) ++ TP PRBrack :: k) st ->
    exists st', Str k st' /\ Runs (CArrLoop acc) st (VE (EArr (rev acc ++ xs))) st'.
  Proof.
    induction xs as [|x r IH]; intros acc k st Hall Hs.
    - cbn [map commas app] in Hs. pose proof (Str_hd _ _ Hs) as Htk. cbn [hdk] in Htk.
      destruct (nextS _ _ _ Hs) as (st1 & Hn1 & Hs1).
      exists st1. split; [exact Hs1|].
      runs_go f Hf. cbn [step]. unfold arrLoop. tk_is Htk. rewrite Hn1. cbn [bind]. rewrite app_nil_r. reflexivity.
    - inversion Hall as [|? ? Hx Hall']; subst.
      cbn [map] in Hs. rewrite commas_cons in Hs. rewrite <- app_assoc in Hs.
      pose proof (Tok_start x _ _ st Hx Hs) as Hst.
      destruct (startb_facts st Hst) as (_ & F2 & _ & F4 & F5 & _).
      destruct r as [|y r'].
      + cbn [map ctail concat app] in Hs.
        destruct (T2 x _ st Hx Hs) as (st1 & Hs1 & Hr1); [apply stop_plain_tok; [lia|reflexivity]|].
        pose proof (Str_hd _ _ Hs1) as Htk1. cbn [hdk] in Htk1.
        destruct (IH (x :: acc) k st1 Hall' Hs1) as (st2 & Hs2 & Hr2).
        exists st2. split; [exact Hs2|].
        runs_go f Hf. cbn [step]. unfold arrLoop. rewrite F2, F5, F4. rewrite Hr1 by lia. cbn [asE bind].
        tk_is Htk1. rewrite Hr2 by lia. cbn [rev]. rewrite <- app_assoc. reflexivity.
      + cbn [map] in Hs. rewrite ctail_cons in Hs. cbn [app] in Hs.
        destruct (T2 x _ st Hx Hs) as (st1 & Hs1 & Hr1); [apply stop_comma_tok; lia|].
        pose proof (Str_hd _ _ Hs1) as Htk1. cbn [hdk] in Htk1.
        destruct (nextS _ _ _ Hs1) as (st2 & Hn2 & Hs2).
        destruct (IH (x :: acc) k st2 Hall' Hs2) as (st3 & Hs3 & Hr3).
        exists st3. split; [exact Hs3|].
        runs_go f Hf. cbn [step]. unfold arrLoop. rewrite F2, F5, F4. rewrite Hr1 by lia. cbn [asE bind].
        tk_is Htk1. unfold expect. tk_is Htk1. rewrite Hn2. cbn [bind]. rewrite Hr3 by lia.
        cbn [rev]. rewrite <- app_assoc. reflexivity.
  Qed.

  Definition kv_toks (kv : bytes * expr) : list tok :=
    match kv with (key, v) => key_tok key :: TP PColon :: P v p_assign end.
  Definition kv_ok (kv : bytes * expr) : Prop :=
    match kv with (key, v) => forallb (plain_char c_dq) key = true /\ Tok v end.

  Lemma key_tok_ok key : forallb (plain_char c_dq) key = true -> tok_ok (key_tok key).
  Proof. intros H. apply ok_str; [reflexivity|exact H]. Qed.

  Lemma key_value_tok key : forallb (plain_char c_dq) key = true -> key_value (key_tok key) = KeyVal key.
  Proof.
    intros H. unfold key_tok, key_value. rewrite removelast_last. rewrite (str_value_plain c_dq key H). reflexivity.
  Qed.

  Lemma obj_loop kvs : forall acc k st, Forall kv_ok kvs ->
    Str (commas (map kv_toks kvs) ++ TP PRBrace :: k) st ->
    exists st', Str k st' /\ Runs (CObjLoop acc) st (VE (EObj (rev acc ++ kvs))) st'.
  Proof.
    induction kvs as [|[key v] r IH]; intros acc k st Hall Hs.
    - cbn [map commas app] in Hs. pose proof (Str_hd _ _ Hs) as Htk. cbn [hdk] in Htk.
      destruct (nextS _ _ _ Hs) as (st1 & Hn1 & Hs1).
      exists st1. split; [exact Hs1|].
      runs_go f Hf. cbn [step]. unfold objLoop. tk_is Htk. rewrite Hn1. cbn [bind]. rewrite app_nil_r. reflexivity.
    - inversion Hall as [|? ? Hkv Hall']; subst. cbn [kv_ok] in Hkv. destruct Hkv as [Hkey Hv].
      cbn [map] in Hs. rewrite commas_cons in Hs. rewrite <- app_assoc in Hs. cbn [kv_toks app] in Hs.
      pose proof (Str_hd _ _ Hs) as Htk. cbn [hdk] in Htk.
      destruct (nextS _ _ _ Hs) as (st1 & Hn1 & Hs1).
      pose proof (Str_hd _ _ Hs1) as Htk1. cbn [hdk] in Htk1.
      destruct (nextS _ _ _ Hs1) as (st2 & Hn2 & Hs2).
      destruct r as [|kv2 r'].
      + cbn [map ctail concat app] in Hs2.
        destruct (T2 v _ st2 Hv Hs2) as (st3 & Hs3 & Hr3); [apply stop_plain_tok; [lia|reflexivity]|].
        pose proof (Str_hd _ _ Hs3) as Htk3. cbn [hdk] in Htk3.
        destruct (IH ((key, v) :: acc) k st3 Hall' Hs3) as (st4 & Hs4 & Hr4).
        exists st4. split; [exact Hs4|].
        runs_go f Hf. cbn [step]. unfold objLoop. tk_is Htk. rewrite Htk. rewrite Hn1. cbn [bind].
        rewrite (key_value_tok key Hkey). unfold key_tok. cbn iota. tk_is Htk1. cbn [andb].
        unfold expect. tk_is Htk1. rewrite Hn2. cbn [bind]. rewrite Hr3 by lia. cbn [asE bind].
        tk_is Htk3. rewrite Hr4 by lia. cbn [rev]. rewrite <- app_assoc. reflexivity.
      + cbn [map] in Hs2. rewrite ctail_cons in Hs2. cbn [app] in Hs2.
        destruct (T2 v _ st2 Hv Hs2) as (st3 & Hs3 & Hr3); [apply stop_comma_tok; lia|].
        pose proof (Str_hd _ _ Hs3) as Htk3. cbn [hdk] in Htk3.
        destruct (nextS _ _ _ Hs3) as (st4 & Hn4 & Hs4).
        destruct (IH ((key, v) :: acc) k st4 Hall' Hs4) as (st5 & Hs5 & Hr5).
        exists st5. split; [exact Hs5|].
        runs_go f Hf. cbn [step]. unfold objLoop. tk_is Htk. rewrite Htk. rewrite Hn1. cbn [bind].
        rewrite (key_value_tok key Hkey). unfold key_tok. cbn iota. tk_is Htk1. cbn [andb].
        unfold expect. tk_is Htk1. rewrite Hn2. cbn [bind]. rewrite Hr3 by lia. cbn [asE bind].
        tk_is Htk3. rewrite Hn4. cbn [bind]. rewrite Hr5 by lia. cbn [rev]. rewrite <- app_assoc. reflexivity.
  Qed.

  Lemma seq_loop xs : forall acc k st, Forall Tok xs ->
    Str (ctail (map (fun y => P y p_assign) xs) ++ k) st -> stop 1 (hdk k) = true ->
    exists st', Str k st' /\ Runs (CSeqLoop acc) st (VE (ESeq (rev acc ++ xs))) st'.
  Proof.
    induction xs as [|x r IH]; intros acc k st Hall Hs Hstop.
    - cbn [map ctail concat app] in Hs. exists st. split; [exact Hs|].
      apply runs_step. exists 0. intros f _. cbn [step]. unfold seqLoop.
      rewrite (stop_comma 1 st); [rewrite app_nil_r; reflexivity|lia|rewrite (Str_hd _ _ Hs); exact Hstop].
    - inversion Hall as [|? ? Hx Hall']; subst.
      cbn [map] in Hs. unfold ctail in Hs. cbn [map concat] in Hs. fold (ctail (map (fun y => P y p_assign) r)) in Hs.
      cbn [app] in Hs. rewrite <- app_assoc in Hs.
      pose proof (Str_hd _ _ Hs) as Htk. cbn [hdk] in Htk.
      destruct (nextS _ _ _ Hs) as (st1 & Hn1 & Hs1).
      destruct (T2 x _ st1 Hx Hs1) as (st2 & Hs2 & Hr2).
      { destruct r as [|y r']; [cbn [map ctail concat app]; eapply stop_mono; [|exact Hstop]; lia|].
        cbn [map]. rewrite ctail_cons. cbn [app hdk]. apply stop_comma_tok. lia. }
      destruct (IH (x :: acc) k st2 Hall' Hs2 Hstop) as (st3 & Hs3 & Hr3).
      exists st3. split; [exact Hs3|].
      runs_go f Hf. cbn [step]. unfold seqLoop. tk_is Htk. rewrite Hn1. cbn [bind]. rewrite Hr2 by lia. cbn [asE bind].
      rewrite Hr3 by lia. cbn [rev]. rewrite <- app_assoc. reflexivity.
  Qed.

  Lemma word_match x : word_ok x = true -> match_identifier x = true.
  Proof.
    destruct x as [|c r]; [discriminate|]. cbn [word_ok match_identifier]. intros H.
    apply andb_prop in H. destruct H as [Hc Hr]. rewrite Hc. cbn [andb].
    induction r as [|d r IH]; [reflexivity|]. cbn [forallb] in *. apply andb_prop in Hr. destruct Hr as [Hd Hr].
    rewrite Hd. cbn [orb andb]. apply IH. exact Hr.
  Qed.

  Lemma member_stops_nocall e st : tk st = TP PLParen -> Runs (CMember false e) st (VE e) st.
  Proof.
    intros Htk. apply runs_step. exists 0. intros f _. cbn [step]. unfold memberLoop. tk_is Htk. reflexivity.
  Qed.

  Lemma lvl_of_prec l op : lvl_num l = bin_prec op -> l = op_lvl op.
  Proof. destruct l, op; cbn; intros H; try reflexivity; discriminate. Qed.

  Section Step.
    Variable n : nat.
    Hypothesis IHR : forall a, esize a <= n -> wf a = true -> R a.

    Lemma small_head a : wf a = true -> head_ok full a.
    Proof. intros. apply (raw_head full (esize a)); auto. Qed.

    Lemma small_Tok a : esize a <= n -> wf a = true -> Tok a.
    Proof. intros Hs Hw. split; [apply small_head; exact Hw|]. apply T_of_R; [apply small_head; exact Hw|apply IHR; assumption]. Qed.

    Lemma small_Toks l : list_sum (map esize l) <= n -> forallb wf l = true -> Forall Tok l.
    Proof.
      intros Hs Hw. apply Forall_forall. intros x Hx. apply small_Tok.
      - pose proof (esize_in x l Hx). lia.
      - rewrite forallb_forall in Hw. apply Hw. exact Hx.
    Qed.

    Definition Mraw (ac : bool) (a : expr) : Prop :=
      forall k st, Str (raw full a ++ k) st ->
        exists st1, Str k st1 /\ forall v st2, Runs (CMember ac a) st1 v st2 -> Runs (entry ac) st v st2.
    Definition Mpar (ac : bool) (a : expr) : Prop :=
      forall k st, Str (P a p_call ++ k) st ->
        exists st1, Str k st1 /\ forall v st2, Runs (CMember ac a) st1 v st2 -> Runs (entry ac) st v st2.

    Lemma Mpar_of m ac a :
      (forall ac' a', esize a' <= m -> wf a' = true -> 17 <= prec_of a' -> (prec_of a' = 18 -> esize a' <= n) ->
          (ac' = true \/ no_call_spine a' = true) -> Mraw ac' a') ->
      m <= n -> esize a <= m -> wf a = true -> (ac = true \/ full = true \/ no_call_spine a = true) -> Mpar ac a.
    Proof.
      intros IHm Hmn Ha Hw Hsp k st Hs. unfold par in Hs.
      destruct (full || (prec_of a <? p_call))%bool eqn:E.
      - pose proof (Str_hd _ _ Hs) as Htk. rewrite wrap_app in Htk. cbn [hdk] in Htk.
        destruct (wrap_prim a (small_head a Hw) (IHR a ltac:(lia) Hw) k st Hs) as (st1 & Hs1 & Hr1).
        exists st1. split; [exact Hs1|]. intros v st2 H.
        apply (lhs_cps ac a st st1 v st2 Hr1); [|exact H]. tk_is Htk. reflexivity.
      - apply orb_false_elim in E. destruct E as [Ef E]. apply Nat.ltb_ge in E. unfold p_call in E.
        assert (HM : Mraw ac a).
        { apply IHm; auto; [intros; lia|]. destruct Hsp as [?|[?|?]]; auto. congruence. }
        exact (HM k st Hs).
    Qed.

    Lemma Mraw_all m : m <= S n -> forall ac a, esize a <= m -> wf a = true -> 17 <= prec_of a ->
      (prec_of a = 18 -> esize a <= n) -> (ac = true \/ no_call_spine a = true) -> Mraw ac a.
    Proof.
      induction m as [|m IHm]; intros Hm ac a Ha Hw Hp H18 Hsp.
      { destruct a; simpl in Ha; lia. }
      assert (MP : forall ac' a', esize a' <= m -> wf a' = true ->
                     (ac' = true \/ full = true \/ no_call_spine a' = true) -> Mpar ac' a').
      { intros ac' a' Ha' Hw' Hsp'. apply (Mpar_of m ac' a'); auto; try lia. intros. apply IHm; auto. lia. }
      destruct (prec_of a =? 18) eqn:E18.
      { (* literals, identifiers, array and object literals *)
        apply Nat.eqb_eq in E18. specialize (H18 E18).
        pose proof (IHR a H18 Hw) as HR. unfold R in HR. rewrite E18 in HR. cbn in HR.
        intros k st Hs. destruct (HR k st Hs) as (st1 & Hs1 & Hr1).
        exists st1. split; [exact Hs1|]. intros v st2 H.
        apply (lhs_cps ac a st st1 v st2 Hr1); [|exact H].
        destruct (small_head a Hw) as (Hne & _ & _ & Hnn).
        apply not_new_kw. rewrite (Str_hd _ _ Hs). rewrite hdk_app by exact Hne. apply Hnn. exact E18. }
      apply Nat.eqb_neq in E18.
      destruct a; cbn [prec_of] in Hp, E18; unfold p_seq, p_assign, p_cond, p_primary, p_call in *; try lia;
        try (destruct postfix; unfold p_unary, p_postfix in *; lia);
        try (destruct op; cbn in Hp; lia);
        cbn [wf] in Hw; cbn [esize] in Ha; unfold Mraw; cbn [raw]; intros k st Hs.
      - (* EDot *)
        apply andb_prop in Hw. destruct Hw as [Hwa Hwx].
        rewrite <- app_assoc in Hs. cbn [app] in Hs.
        destruct (MP ac a ltac:(lia) Hwa ltac:(destruct Hsp; auto) _ st Hs) as (st1 & Hs1 & C1).
        pose proof (Str_hd _ _ Hs1) as Htk1. cbn [hdk] in Htk1.
        destruct (nextS _ _ _ Hs1) as (st2 & Hn2 & Hs2).
        pose proof (Str_hd _ _ Hs2) as Htk2. cbn [hdk] in Htk2.
        destruct (nextS _ _ _ Hs2) as (st3 & Hn3 & Hs3).
        exists st3. split; [exact Hs3|]. intros v st4 H. apply C1.
        runs_go f Hf. cbn [step]. unfold memberLoop. tk_is Htk1. rewrite Hn2. cbn [bind].
        rewrite Htk2. rewrite word_tok_literal. rewrite (word_match x Hwx). rewrite Hn3. cbn [bind]. apply H. lia.
      - (* EIdx *)
        apply andb_prop in Hw. destruct Hw as [Hwa Hwi].
        rewrite <- app_assoc in Hs. cbn [app] in Hs.
        destruct (MP ac a1 ltac:(lia) Hwa ltac:(destruct Hsp; auto) _ st Hs) as (st1 & Hs1 & C1).
        pose proof (Str_hd _ _ Hs1) as Htk1. cbn [hdk] in Htk1.
        destruct (nextS _ _ _ Hs1) as (st2 & Hn2 & Hs2).
        rewrite <- app_assoc in Hs2. cbn [app] in Hs2.
        destruct (small_Tok a2 ltac:(lia) Hwi) as [_ HT2].
        destruct (HT2 1 _ st2 ltac:(lia) ltac:(intros; lia) Hs2) as (st3 & Hs3 & Hr3).
        { apply stop_plain_tok; [lia|reflexivity]. }
        pose proof (Str_hd _ _ Hs3) as Htk3. cbn [hdk] in Htk3.
        destruct (nextS _ _ _ Hs3) as (st4 & Hn4 & Hs4).
        exists st4. split; [exact Hs4|]. intros v st5 H. apply C1.
        runs_go f Hf. cbn [step]. unfold memberLoop. tk_is Htk1. rewrite Hn2. cbn [bind].
        cbn [call_at] in Hr3. rewrite Hr3 by lia. cbn [asE bind]. unfold expect. tk_is Htk3. rewrite Hn4. cbn [bind].
        apply H. lia.
      - (* ECall *)
        apply andb_prop in Hw. destruct Hw as [Hwf Hwa].
        assert (ac = true) by (destruct Hsp as [?|Hx]; [assumption|discriminate Hx]). subst ac.
        rewrite <- app_assoc in Hs. cbn [app] in Hs.
        destruct (MP true a ltac:(lia) Hwf ltac:(auto) _ st Hs) as (st1 & Hs1 & C1).
        pose proof (Str_hd _ _ Hs1) as Htk1. cbn [hdk] in Htk1.
        rewrite <- app_assoc in Hs1. cbn [app] in Hs1.
        destruct (args_runs args k st1 (small_Toks args ltac:(lia) Hwa) Hs1) as (st2 & Hs2 & Hr2).
        exists st2. split; [exact Hs2|]. intros v st3 H. apply C1.
        runs_go f Hf. cbn [step]. unfold memberLoop. tk_is Htk1. rewrite Hr2 by lia. cbn [asL bind]. apply H. lia.
      - (* ENew *)
        apply andb_prop in Hw. destruct Hw as [Hwf Hwa].
        pose proof (Str_hd _ _ Hs) as Htk. cbn [app hdk] in Htk.
        cbn [app] in Hs. destruct (nextS _ _ _ Hs) as (st1 & Hn1 & Hs1).
        rewrite <- app_assoc in Hs1. cbn [app] in Hs1. rewrite <- app_assoc in Hs1. cbn [app] in Hs1.
        assert (HL : exists stA, Str (TP PLParen :: commas (map (fun x => P x p_assign) args) ++ TP PRParen :: k) stA /\
                                 Runs CLhs st1 (VE a) stA).
        { destruct (no_call_spine a) eqn:Esp.
          - destruct (MP false a ltac:(lia) Hwf ltac:(auto) _ st1 Hs1) as (stA & HsA & CA).
            exists stA. split; [exact HsA|]. apply (CA (VE a) stA). apply member_stops_nocall.
            rewrite (Str_hd _ _ HsA). reflexivity.
          - pose proof (Str_hd _ _ Hs1) as Htk1. rewrite wrap_app in Htk1. cbn [hdk] in Htk1.
            destruct (wrap_prim a (small_head a Hwf) (IHR a ltac:(lia) Hwf) _ st1 Hs1) as (stA & HsA & HrA).
            exists stA. split; [exact HsA|].
            apply (lhs_cps false a st1 stA (VE a) stA HrA); [tk_is Htk1; reflexivity|].
            apply member_stops_nocall. rewrite (Str_hd _ _ HsA). reflexivity. }
        destruct HL as (stA & HsA & HrA).
        pose proof (Str_hd _ _ HsA) as HtkA. cbn [hdk] in HtkA.
        cbn [app] in HsA.
        destruct (args_runs args k stA (small_Toks args ltac:(lia) Hwa) HsA) as (stB & HsB & HrB).
        exists stB. split; [exact HsB|]. intros v st2 H.
        destruct HrA as [nA HrA]. destruct HrB as [nB HrB]. destruct H as [nH H].
        apply runs_step. exists (1 + nA + nB + nH). intros f Hf.
        destruct f as [|f]; [lia|].
        assert (HN : run (S f) CNew st = ROk (VE (ENew a args)) stB).
        { cbn [run step]. unfold parseNewExpression, expect_kw. tk_is Htk. rewrite Hn1. cbn [bind].
          rewrite HrA by lia. cbn [asE bind]. tk_is HtkA. rewrite HrB by lia. reflexivity. }
        destruct ac; cbn [entry step];
          [unfold parseLeftHandSideExpressionAllowCall|unfold parseLeftHandSideExpression];
          tk_is Htk; rewrite HN; cbn [asE bind]; apply H; lia.
    Qed.

    Lemma lvl_num_range l : 4 <= lvl_num l <= 13.
    Proof. destruct l; cbn; lia. Qed.

    Lemma chain m : m <= n -> forall l a, esize a <= m -> wf a = true ->
      forall k st, Str (P a (lvl_num l) ++ k) st -> stop (S (lvl_num l)) (hdk k) = true ->
      exists st1, Str k st1 /\ forall v st2, Runs (CBinLoop l a) st1 v st2 -> Runs (CBin l) st v st2.
    Proof.
      induction m as [|m IHm]; intros Hm l a Ha Hw k st Hs Hstop.
      { destruct a; simpl in Ha; lia. }
      pose proof (lvl_num_range l) as Hl.
      destruct (Bool.bool_dec full false) as [Ef|Ef];
        [destruct (Nat.eq_dec (prec_of a) (lvl_num l)) as [Ep|Ep]|].
      - (* a is itself a binary expression of this level, printed without parentheses *)
        destruct a; cbn [prec_of] in Ep; unfold p_seq, p_assign, p_cond, p_primary, p_call in *; try lia;
          try (destruct postfix; unfold p_unary, p_postfix in *; lia).
        symmetry in Ep. apply lvl_of_prec in Ep. subst l.
        unfold par in Hs at 1. rewrite Ef in Hs at 1. cbn [orb] in Hs. cbn [prec_of] in Hs. rewrite op_lvl_num in Hs. rewrite Nat.ltb_irrefl in Hs.
        cbn [raw] in Hs. cbn [bin_assoc left_need right_need] in Hs.
        cbn [wf] in Hw. apply andb_prop in Hw. destruct Hw as [Hw1 Hw2]. cbn [esize] in Ha.
        rewrite <- app_assoc in Hs. cbn [app] in Hs.
        rewrite <- op_lvl_num in Hs.
        destruct (IHm ltac:(lia) (op_lvl op) a1 ltac:(lia) Hw1 _ st Hs) as (st1 & Hs1 & C1).
        { cbn [hdk]. unfold stop. rewrite binop_tok_cont. rewrite op_lvl_num. apply Nat.ltb_lt. lia. }
        pose proof (Str_hd _ _ Hs1) as Htk1. cbn [hdk] in Htk1.
        destruct (nextS _ _ _ Hs1) as (st2 & Hn2 & Hs2).
        destruct (small_Tok a2 ltac:(lia) Hw2) as [_ HT2].
        destruct (HT2 (S (lvl_num (op_lvl op))) k st2 ltac:(lia) ltac:(intros; lia) Hs2 Hstop) as (st3 & Hs3 & Hr3).
        exists st3. split; [exact Hs3|]. intros v st4 H. apply C1.
        rewrite call_at_next in Hr3.
        runs_go f Hf. cbn [step]. unfold binLoop. rewrite Htk1. rewrite op_lvl_tok. rewrite Hn2. cbn [bind].
        rewrite Hr3 by lia. cbn [asE bind]. apply H. lia.
      - (* an operand of the next level *)
        assert (EP : P a (lvl_num l) = P a (S (lvl_num l))).
        { unfold par. rewrite Ef. cbn [orb].
          destruct (prec_of a <? lvl_num l) eqn:E1; destruct (prec_of a <? S (lvl_num l)) eqn:E2; try reflexivity.
          - apply Nat.ltb_lt in E1. apply Nat.ltb_ge in E2. lia.
          - apply Nat.ltb_ge in E1. apply Nat.ltb_lt in E2. lia. }
        rewrite EP in Hs.
        destruct (small_Tok a ltac:(lia) Hw) as [_ HT].
        destruct (HT (S (lvl_num l)) k st ltac:(lia) ltac:(intros; lia) Hs Hstop) as (st1 & Hs1 & Hr1).
        exists st1. split; [exact Hs1|]. intros v st2 H.
        rewrite call_at_next in Hr1.
        runs_go f Hf. cbn [step]. unfold parseBinary. rewrite Hr1 by lia. cbn [asE bind]. apply H. lia.
      - assert (EP : P a (lvl_num l) = P a (S (lvl_num l))).
        { destruct full; [reflexivity|congruence]. }
        rewrite EP in Hs.
        destruct (small_Tok a ltac:(lia) Hw) as [_ HT].
        destruct (HT (S (lvl_num l)) k st ltac:(lia) ltac:(intros; lia) Hs Hstop) as (st1 & Hs1 & Hr1).
        exists st1. split; [exact Hs1|]. intros v st2 H.
        rewrite call_at_next in Hr1.
        runs_go f Hf. cbn [step]. unfold parseBinary. rewrite Hr1 by lia. cbn [asE bind]. apply H. lia.
    Qed.

    Lemma Rp_atom e t : raw full e = [t] ->
      (forall st st' f, tk st = t -> next st = ROk tt st' -> step (run f) CPrimary st = ROk (VE e) st') -> Rp e.
    Proof.
      intros Hraw Hstep k st Hs. rewrite Hraw in Hs. cbn [app] in Hs.
      pose proof (Str_hd _ _ Hs) as Htk. cbn [hdk] in Htk.
      destruct (nextS _ _ _ Hs) as (st' & Hn & Hs'). exists st'. split; [exact Hs'|].
      apply runs_step. exists 0. intros f _. apply Hstep; assumption.
    Qed.

    Lemma small_kvs (kvs : list (bytes * expr)) :
      list_sum (map (fun kv => match kv with (_, v) => esize v end) kvs) <= n ->
      forallb (fun kv => match kv with (k, v) => forallb (plain_char c_dq) k && wf v end) kvs = true ->
      Forall kv_ok kvs.
    Proof.
      intros Hs Hw. apply Forall_forall. intros [key v] Hx. rewrite forallb_forall in Hw.
      specialize (Hw _ Hx). cbn in Hw. apply andb_prop in Hw. destruct Hw as [Hk Hv].
      split; [exact Hk|]. apply small_Tok; [|exact Hv].
      pose proof (esize_in_kv key v kvs Hx). lia.
    Qed.

    Lemma incdec_unop op : unary_plain op = false -> incdec (unop_tok op) = Some op /\ unary_op (unop_tok op) = None.
    Proof. destruct op; cbn; intros; try discriminate; auto. Qed.
    Lemma plain_unop op : unary_plain op = true -> unary_op (unop_tok op) = Some op.
    Proof. destruct op; cbn; intros; try discriminate; auto. Qed.

    Lemma par_lhs a need1 need2 : is_lhs a = true -> need1 <= 17 -> need2 <= 17 -> P a need1 = P a need2.
    Proof.
      intros Hl H1 H2. unfold par. destruct full; [reflexivity|]. cbn [orb].
      assert (Hp : 17 <= prec_of a) by (destruct a; try discriminate; cbn; unfold p_primary, p_call; lia).
      destruct (prec_of a <? need1) eqn:E1; [apply Nat.ltb_lt in E1; lia|].
      destruct (prec_of a <? need2) eqn:E2; [apply Nat.ltb_lt in E2; lia|]. reflexivity.
    Qed.

    Ltac ro_intro k st Hs Hstop :=
      cbn; unfold Ro; cbn [prec_of slevel]; unfold p_seq, p_assign, p_cond, p_unary, p_postfix, p_call;
      cbn [call_at]; intros k st Hs Hstop.

    Lemma R_step e : esize e <= S n -> wf e = true -> R e.
    Proof.
      intros He Hw. unfold R.
      destruct e; cbn [wf] in Hw; try discriminate; cbn [esize] in He; cbn [prec_of].
      - (* EId *) apply (Rp_atom (EId x) (TId x) eq_refl). intros st st' f Htk Hn.
        cbn [step]. unfold parsePrimaryExpression. rewrite Htk, Hn. reflexivity.
      - (* ENum *) apply (Rp_atom (ENum lit) (TNum lit) eq_refl). intros st st' f Htk Hn.
        cbn [step]. unfold parsePrimaryExpression. rewrite Htk, Hn. reflexivity.
      - (* EStr *) apply andb_prop in Hw. destruct Hw as [Hq Hv].
        apply (Rp_atom (EStr q v) (TStr (q :: v ++ [q])) eq_refl). intros st st' f Htk Hn.
        cbn [step]. unfold parsePrimaryExpression. rewrite Htk, Hn. cbn [bind].
        rewrite removelast_last. rewrite (str_value_plain q v Hv). reflexivity.
      - (* EBool *) apply (Rp_atom (EBool b) (TBool b) eq_refl). intros st st' f Htk Hn.
        cbn [step]. unfold parsePrimaryExpression. rewrite Htk, Hn. reflexivity.
      - (* ENull *) apply (Rp_atom ENull TNull eq_refl). intros st st' f Htk Hn.
        cbn [step]. unfold parsePrimaryExpression. rewrite Htk, Hn. reflexivity.
      - (* EThis *) apply (Rp_atom EThis (TKw KThis) eq_refl). intros st st' f Htk Hn.
        cbn [step]. unfold parsePrimaryExpression. rewrite Htk, Hn. reflexivity.
      - (* EArr *)
        cbn. intros k st Hs. cbn [raw] in Hs. cbn [app] in Hs. rewrite <- app_assoc in Hs. cbn [app] in Hs.
        pose proof (Str_hd _ _ Hs) as Htk. cbn [hdk] in Htk.
        destruct (nextS _ _ _ Hs) as (st1 & Hn1 & Hs1).
        destruct (arr_loop es [] k st1 (small_Toks es ltac:(lia) Hw) Hs1) as (st2 & Hs2 & [n2 Hr2]).
        exists st2. split; [exact Hs2|].
        apply runs_step. exists (1 + n2). intros f Hf. destruct f as [|f]; [lia|].
        cbn [step]. unfold parsePrimaryExpression. rewrite Htk. cbn [run step]. unfold parseArrayLiteral, expect.
        tk_is Htk. rewrite Hn1. cbn [bind]. apply Hr2. lia.
      - (* EObj *)
        cbn. intros k st Hs. cbn [raw] in Hs. cbn [app] in Hs. rewrite <- app_assoc in Hs. cbn [app] in Hs.
        pose proof (Str_hd _ _ Hs) as Htk. cbn [hdk] in Htk.
        destruct (nextS _ _ _ Hs) as (st1 & Hn1 & Hs1).
        destruct (obj_loop kvs [] k st1 (small_kvs kvs ltac:(lia) Hw) Hs1) as (st2 & Hs2 & [n2 Hr2]).
        exists st2. split; [exact Hs2|].
        apply runs_step. exists (1 + n2). intros f Hf. destruct f as [|f]; [lia|].
        cbn [step]. unfold parsePrimaryExpression. rewrite Htk. cbn [run step]. unfold parseObjectLiteral, expect.
        tk_is Htk. rewrite Hn1. cbn [bind]. apply Hr2. lia.
      - (* EDot *)
        ro_intro k st Hs Hstop.
        destruct (Mraw_all (S n) (le_n _) true (EDot e x) He Hw ltac:(cbn; unfold p_call; lia)
                    ltac:(cbn; unfold p_call; intros; lia) (or_introl eq_refl) k st Hs) as (st1 & Hs1 & C1).
        exists st1. split; [exact Hs1|]. apply (C1 (VE (EDot e x)) st1). apply member_stops.
        rewrite (Str_hd _ _ Hs1). exact Hstop.
      - (* EIdx *)
        ro_intro k st Hs Hstop.
        destruct (Mraw_all (S n) (le_n _) true (EIdx e1 e2) He Hw ltac:(cbn; unfold p_call; lia)
                    ltac:(cbn; unfold p_call; intros; lia) (or_introl eq_refl) k st Hs) as (st1 & Hs1 & C1).
        exists st1. split; [exact Hs1|]. apply (C1 (VE (EIdx e1 e2)) st1). apply member_stops.
        rewrite (Str_hd _ _ Hs1). exact Hstop.
      - (* ECall *)
        ro_intro k st Hs Hstop.
        destruct (Mraw_all (S n) (le_n _) true (ECall e args) He Hw ltac:(cbn; unfold p_call; lia)
                    ltac:(cbn; unfold p_call; intros; lia) (or_introl eq_refl) k st Hs) as (st1 & Hs1 & C1).
        exists st1. split; [exact Hs1|]. apply (C1 (VE (ECall e args)) st1). apply member_stops.
        rewrite (Str_hd _ _ Hs1). exact Hstop.
      - (* ENew *)
        ro_intro k st Hs Hstop.
        destruct (Mraw_all (S n) (le_n _) true (ENew e args) He Hw ltac:(cbn; unfold p_call; lia)
                    ltac:(cbn; unfold p_call; intros; lia) (or_introl eq_refl) k st Hs) as (st1 & Hs1 & C1).
        exists st1. split; [exact Hs1|]. apply (C1 (VE (ENew e args)) st1). apply member_stops.
        rewrite (Str_hd _ _ Hs1). exact Hstop.
      - (* EUn *)
        destruct postfix.
        + (* postfix *)
          apply andb_prop in Hw. destruct Hw as [Hw Hl]. apply andb_prop in Hw. destruct Hw as [Hwa Hop].
          apply negb_true_iff in Hop. destruct (incdec_unop op Hop) as [Hi _].
          ro_intro k st Hs Hstop. cbn [raw] in Hs. rewrite <- app_assoc in Hs. cbn [app] in Hs.
          destruct (small_Tok e ltac:(lia) Hwa) as [_ HT].
          destruct (HT 17 _ st ltac:(lia) ltac:(intros; lia) Hs) as (st1 & Hs1 & Hr1).
          { cbn [hdk]. unfold stop. destruct op; try discriminate; reflexivity. }
          pose proof (Str_hd _ _ Hs1) as Htk1. cbn [hdk] in Htk1.
          pose proof (Str_imp _ _ _ _ _ _ Hs1) as Himp1.
          destruct (nextS _ _ _ Hs1) as (st2 & Hn2 & Hs2).
          exists st2. split; [exact Hs2|].
          cbn [call_at] in Hr1.
          runs_go f Hf. cbn [step call_at]. unfold parsePostfixExpression. rewrite Hr1 by lia. cbn [asE bind].
          rewrite Htk1, Hi, Himp1, Hn2. cbn [bind]. rewrite Hl. reflexivity.
        + (* prefix *)
          apply andb_prop in Hw. destruct Hw as [Hwa Hop].
          ro_intro k st Hs Hstop. cbn [raw app] in Hs.
          pose proof (Str_hd _ _ Hs) as Htk. cbn [hdk] in Htk.
          destruct (nextS _ _ _ Hs) as (st1 & Hn1 & Hs1).
          destruct (small_Tok e ltac:(lia) Hwa) as [_ HT].
          destruct (HT 14 _ st1 ltac:(lia) ltac:(intros; lia) Hs1 Hstop) as (st2 & Hs2 & Hr2).
          exists st2. split; [exact Hs2|].
          cbn [call_at] in Hr2.
          destruct (unary_plain op) eqn:Eop.
          * runs_go f Hf. cbn [step call_at]. unfold parseUnaryExpression. rewrite Htk. rewrite (plain_unop op Eop).
            rewrite Hn1. cbn [bind]. rewrite Hr2 by lia. reflexivity.
          * destruct (incdec_unop op Eop) as [Hi Hu]. cbn [orb] in Hop.
            runs_go f Hf. cbn [step call_at]. unfold parseUnaryExpression. rewrite Htk, Hu, Hi.
            rewrite Hn1. cbn [bind]. rewrite Hr2 by lia. cbn [asE bind]. rewrite Hop. reflexivity.
      - (* EBin *)
        apply andb_prop in Hw. destruct Hw as [Hw1 Hw2].
        replace (bin_prec op =? 18) with false by (destruct op; reflexivity).
        intros k st Hs Hstop. cbn [raw] in Hs. cbn [bin_assoc left_need right_need] in Hs.
        cbn [slevel prec_of] in Hstop. cbn [prec_of].
        rewrite <- app_assoc in Hs. cbn [app] in Hs. rewrite <- op_lvl_num in Hs.
        destruct (chain n (le_n _) (op_lvl op) e1 ltac:(lia) Hw1 _ st Hs) as (st1 & Hs1 & C1).
        { cbn [hdk]. unfold stop. rewrite binop_tok_cont. rewrite op_lvl_num. apply Nat.ltb_lt. lia. }
        pose proof (Str_hd _ _ Hs1) as Htk1. cbn [hdk] in Htk1.
        destruct (nextS _ _ _ Hs1) as (st2 & Hn2 & Hs2).
        destruct (small_Tok e2 ltac:(lia) Hw2) as [_ HT2].
        pose proof (lvl_num_range (op_lvl op)) as Hrange.
        destruct (HT2 (S (lvl_num (op_lvl op))) k st2 ltac:(lia) ltac:(intros; lia) Hs2) as (st3 & Hs3 & Hr3).
        { eapply stop_mono; [|exact Hstop]. rewrite op_lvl_num. lia. }
        exists st3. split; [exact Hs3|].
        rewrite <- op_lvl_num. rewrite call_at_lvl. apply C1.
        rewrite call_at_next in Hr3.
        destruct Hr3 as [n3 Hr3]. apply runs_step. exists (1 + n3). intros f Hf.
        cbn [step]. unfold binLoop. rewrite Htk1. rewrite op_lvl_tok. rewrite Hn2. cbn [bind].
        rewrite Hr3 by lia. cbn [asE bind].
        destruct f as [|f]; [lia|]. cbn [run step]. unfold binLoop.
        rewrite (stop_bin (bin_prec op) (op_lvl op) (tk st3)); [reflexivity|rewrite op_lvl_num; lia|].
        rewrite (Str_hd _ _ Hs3). exact Hstop.
      - (* ECond *)
        apply andb_prop in Hw. destruct Hw as [Hw Hw3]. apply andb_prop in Hw. destruct Hw as [Hw1 Hw2].
        ro_intro k st Hs Hstop. cbn [raw] in Hs. rewrite <- app_assoc in Hs. cbn [app] in Hs.
        rewrite <- app_assoc in Hs. cbn [app] in Hs.
        destruct (small_Tok e1 ltac:(lia) Hw1) as [_ HT1].
        destruct (HT1 4 _ st ltac:(lia) ltac:(intros; lia) Hs) as (st1 & Hs1 & Hr1); [reflexivity|].
        pose proof (Str_hd _ _ Hs1) as Htk1. cbn [hdk] in Htk1.
        destruct (nextS _ _ _ Hs1) as (st2 & Hn2 & Hs2).
        destruct (T2 e2 _ st2 (small_Tok e2 ltac:(lia) Hw2) Hs2) as (st3 & Hs3 & Hr3); [reflexivity|].
        pose proof (Str_hd _ _ Hs3) as Htk3. cbn [hdk] in Htk3.
        destruct (nextS _ _ _ Hs3) as (st4 & Hn4 & Hs4).
        destruct (T2 e3 _ st4 (small_Tok e3 ltac:(lia) Hw3) Hs4 Hstop) as (st5 & Hs5 & Hr5).
        exists st5. split; [exact Hs5|].
        cbn [call_at] in Hr1.
        runs_go f Hf. cbn [step call_at]. unfold parseConditionalExpression. rewrite Hr1 by lia. cbn [asE bind].
        tk_is Htk1. rewrite Hn2. cbn [bind]. rewrite Hr3 by lia. cbn [asE bind]. unfold expect. tk_is Htk3.
        rewrite Hn4. cbn [bind]. rewrite Hr5 by lia. reflexivity.
      - (* EAssign *)
        apply andb_prop in Hw. destruct Hw as [Hw Hop]. apply andb_prop in Hw. destruct Hw as [Hw Hl].
        apply andb_prop in Hw. destruct Hw as [Hw1 Hw2].
        destruct (assign_tok op) as [t|] eqn:Et; [|discriminate].
        destruct (assign_tok_op op t Et) as (Ha1 & Ha2 & _).
        ro_intro k st Hs Hstop. cbn [raw] in Hs. rewrite Et in Hs. rewrite <- app_assoc in Hs. cbn [app] in Hs.
        rewrite (par_lhs e1 p_call 3 Hl) in Hs by (unfold p_call; lia).
        destruct (small_Tok e1 ltac:(lia) Hw1) as [_ HT1].
        assert (H3 : 3 = 3 -> prec_of e1 <> 3).
        { intros _. destruct e1; try discriminate; cbn; unfold p_primary, p_call, p_cond; lia. }
        destruct (HT1 3 _ st ltac:(lia) H3 Hs) as (st1 & Hs1 & Hr1).
        { cbn [hdk]. unfold stop. rewrite Ha2. reflexivity. }
        pose proof (Str_hd _ _ Hs1) as Htk1. cbn [hdk] in Htk1.
        destruct (nextS _ _ _ Hs1) as (st2 & Hn2 & Hs2).
        destruct (T2 e2 _ st2 (small_Tok e2 ltac:(lia) Hw2) Hs2 Hstop) as (st3 & Hs3 & Hr3).
        exists st3. split; [exact Hs3|].
        cbn [call_at] in Hr1.
        runs_go f Hf. cbn [step call_at]. unfold parseAssignmentExpression. rewrite Hr1 by lia. cbn [asE bind].
        rewrite Htk1, Ha1. rewrite Hn2. cbn [bind]. rewrite Hl. rewrite Hr3 by lia. reflexivity.
      - (* ESeq *)
        apply andb_prop in Hw. destruct Hw as [Hw Hlen].
        destruct es as [|x [|y r]]; try discriminate.
        ro_intro k st Hs Hstop. cbn [raw map] in Hs. rewrite commas_cons in Hs. rewrite <- app_assoc in Hs.
        assert (Hall : Forall Tok (x :: y :: r)) by (apply small_Toks; [lia|exact Hw]).
        inversion Hall as [|? ? Hx Hall']; subst.
        destruct (T2 x _ st Hx Hs) as (st1 & Hs1 & Hr1).
        { unfold ctail. cbn [map concat app hdk]. reflexivity. }
        pose proof (Str_hd _ _ Hs1) as Htk1. unfold ctail in Htk1. cbn [map concat app hdk] in Htk1.
        destruct (seq_loop (y :: r) [x] k st1 Hall' Hs1 Hstop) as (st2 & Hs2 & Hr2).
        exists st2. split; [exact Hs2|].
        runs_go f Hf. cbn [step call_at]. unfold parseExpression. rewrite Hr1 by lia. cbn [asE bind].
        tk_is Htk1. apply Hr2. lia.
    Qed.
  End Step.

  Lemma R_all n : forall e, esize e <= n -> wf e = true -> R e.
  Proof.
    induction n as [|n IH]; intros e He Hw.
    - pose proof (esize_pos e). lia.
    - apply (R_step n IH e He Hw).
  Qed.

  Lemma T_all e : wf e = true -> T e.
  Proof.
    intros Hw. apply T_of_R; [apply (raw_head full (esize e)); auto|apply (R_all (esize e)); auto].
  Qed.

  (* the whole printed expression, up to the token that follows it *)
  Lemma expr_runs e st : wf e = true -> Str (toks full e) st ->
    exists st', Str [] st' /\ Runs CExpression st (VE e) st'.
  Proof.
    intros Hw Hs. unfold toks in Hs. rewrite <- (app_nil_r (P e p_seq)) in Hs.
    apply (T_all e Hw 1 [] st); auto; [lia|intros; lia|apply stop_T0; lia].
  Qed.
End Round.

(* ---- every printed token is one the scanner lemmas cover *)
Lemma Forall_commas (l : list (list tok)) : Forall (Forall tok_ok) l -> Forall tok_ok (commas l).
Proof.
  induction l as [|x r IH]; intros H; [constructor|].
  inversion H as [|? ? Hx Hr]; subst. destruct r as [|y r']; [exact Hx|].
  change (commas (x :: y :: r')) with (x ++ TP PComma :: commas (y :: r')).
  apply Forall_app. split; [exact Hx|]. constructor; [apply ok_p|]. apply IH. exact Hr.
Qed.

Lemma wrap_ok r : Forall tok_ok r -> Forall tok_ok (wrap r).
Proof. intros H. unfold wrap. constructor; [apply ok_p|]. apply Forall_app. split; [exact H|]. constructor; [apply ok_p|constructor]. Qed.

Lemma par_ok full r p need : Forall tok_ok r -> Forall tok_ok (par full r p need).
Proof. intros H. unfold par. destruct (full || (p <? need))%bool; [apply wrap_ok|]; exact H. Qed.

Lemma raw_tok_ok full n : forall e, esize e <= n -> wf e = true -> Forall tok_ok (raw full e).
Proof.
  induction n as [|n IH]; intros e He Hw.
  { pose proof (esize_pos e). lia. }
  assert (IHl : forall l, list_sum (map esize l) <= n -> forallb wf l = true ->
            Forall tok_ok (commas (map (fun x => par full (raw full x) (prec_of x) p_assign) l))).
  { intros l Hl Hwl. apply Forall_commas. apply Forall_forall. intros ts Hin.
    apply in_map_iff in Hin. destruct Hin as (x & <- & Hx). apply par_ok. apply IH.
    - pose proof (esize_in x l Hx). lia.
    - rewrite forallb_forall in Hwl. apply Hwl. exact Hx. }
  destruct e; cbn [wf] in Hw; try discriminate; cbn [esize] in He; cbn [raw].
  - constructor; [apply ok_id; exact Hw|constructor].
  - constructor; [apply ok_num; exact Hw|constructor].
  - apply andb_prop in Hw. destruct Hw as [Hq Hv]. constructor; [apply ok_str; assumption|constructor].
  - constructor; [destruct b; [apply ok_true|apply ok_false]|constructor].
  - constructor; [apply ok_null|constructor].
  - constructor; [apply ok_kw_this|constructor].
  - constructor; [apply ok_p|]. apply Forall_app. split; [apply IHl; [lia|exact Hw]|constructor; [apply ok_p|constructor]].
  - constructor; [apply ok_p|]. apply Forall_app. split; [|constructor; [apply ok_p|constructor]].
    apply Forall_commas. apply Forall_forall. intros ts Hin.
    apply in_map_iff in Hin. destruct Hin as ([key v] & <- & Hx).
    rewrite forallb_forall in Hw. specialize (Hw _ Hx). cbn in Hw. apply andb_prop in Hw. destruct Hw as [Hk Hv].
    constructor; [apply ok_str; [reflexivity|exact Hk]|]. constructor; [apply ok_p|]. apply par_ok. apply IH; [|exact Hv].
    pose proof (esize_in_kv key v kvs Hx). lia.
  - apply andb_prop in Hw. destruct Hw as [Hwa Hwx].
    apply Forall_app. split; [apply par_ok; apply IH; [lia|exact Hwa]|].
    constructor; [apply ok_p|]. constructor; [apply ok_word; exact Hwx|constructor].
  - apply andb_prop in Hw. destruct Hw as [Hwa Hwi].
    apply Forall_app. split; [apply par_ok; apply IH; [lia|exact Hwa]|].
    constructor; [apply ok_p|]. apply Forall_app. split; [apply par_ok; apply IH; [lia|exact Hwi]|constructor; [apply ok_p|constructor]].
  - apply andb_prop in Hw. destruct Hw as [Hwf Hwa].
    apply Forall_app. split; [apply par_ok; apply IH; [lia|exact Hwf]|].
    constructor; [apply ok_p|]. apply Forall_app. split; [apply IHl; [lia|exact Hwa]|constructor; [apply ok_p|constructor]].
  - apply andb_prop in Hw. destruct Hw as [Hwf Hwa].
    constructor; [apply ok_kw_new|]. apply Forall_app. split.
    + destruct (no_call_spine e); [apply par_ok|apply wrap_ok]; apply IH; try lia; exact Hwf.
    + constructor; [apply ok_p|]. apply Forall_app. split; [apply IHl; [lia|exact Hwa]|constructor; [apply ok_p|constructor]].
  - destruct postfix.
    + apply andb_prop in Hw. destruct Hw as [Hw _]. apply andb_prop in Hw. destruct Hw as [Hwa _].
      apply Forall_app. split; [apply par_ok; apply IH; [lia|exact Hwa]|constructor; [apply unop_tok_ok|constructor]].
    + apply andb_prop in Hw. destruct Hw as [Hwa _].
      constructor; [apply unop_tok_ok|]. apply par_ok; apply IH; [lia|exact Hwa].
  - apply andb_prop in Hw. destruct Hw as [Hw1 Hw2].
    apply Forall_app. split; [apply par_ok; apply IH; [lia|exact Hw1]|].
    constructor; [apply binop_tok_ok|]. apply par_ok; apply IH; [lia|exact Hw2].
  - apply andb_prop in Hw. destruct Hw as [Hw Hw3]. apply andb_prop in Hw. destruct Hw as [Hw1 Hw2].
    apply Forall_app. split; [apply par_ok; apply IH; [lia|exact Hw1]|].
    constructor; [apply ok_p|]. apply Forall_app. split; [apply par_ok; apply IH; [lia|exact Hw2]|].
    constructor; [apply ok_p|]. apply par_ok; apply IH; [lia|exact Hw3].
  - apply andb_prop in Hw. destruct Hw as [Hw Hop]. apply andb_prop in Hw. destruct Hw as [Hw _].
    apply andb_prop in Hw. destruct Hw as [Hw1 Hw2].
    apply Forall_app. split; [apply par_ok; apply IH; [lia|exact Hw1]|].
    destruct (assign_tok op) as [t|] eqn:Et; [|discriminate].
    constructor; [apply (assign_tok_op op t Et)|]. apply par_ok; apply IH; [lia|exact Hw2].
  - apply andb_prop in Hw. destruct Hw as [Hw _]. apply IHl; [lia|exact Hw].
Qed.

Lemma toks_ok full e : wf e = true -> Forall tok_ok (toks full e).
Proof. intros Hw. unfold toks. apply par_ok. apply (raw_tok_ok full (esize e)); auto. Qed.

(* ================================================================== 6. the entry points on printed expressions *)

Definition ascii_only (s : bytes) : bool := forallb (fun c => negb (is_hi c)) s.

Lemma utf8_ascii s : ascii_only s = true -> utf8_valid s = true.
Proof.
  induction s as [|c r IH]; intros H; [reflexivity|].
  simpl in H. apply andb_prop in H. destruct H as [Hc Hr].
  cbn [utf8_valid]. unfold is_hi in Hc. apply negb_true_iff in Hc. apply N.leb_gt in Hc.
  apply N.ltb_lt in Hc. rewrite Hc. apply IH. exact Hr.
Qed.

Lemma id_part_ascii c : is_id_part c = true -> is_hi c = false.
Proof. destruct c as [[] [] [] [] [] [] [] []]; vm_compute; congruence. Qed.

Lemma ascii_only_app a b : ascii_only (a ++ b) = (ascii_only a && ascii_only b)%bool.
Proof. apply forallb_app. Qed.

Lemma forallb_impl {A} (p q : A -> bool) l : (forall x, p x = true -> q x = true) -> forallb p l = true -> forallb q l = true.
Proof. intros H. induction l; simpl; auto. intros Hl. apply andb_prop in Hl. destruct Hl. rewrite H, IHl; auto. Qed.

Lemma tok_text_ascii t : tok_ok t -> ascii_only (tok_text t) = true.
Proof.
  intros H. destruct H.
  - rewrite (word_tok_text x H). destruct x as [|c r]; [discriminate|]. simpl in H. apply andb_prop in H. destruct H as [Hc Hr].
    simpl. rewrite (id_part_ascii c) by (unfold is_id_part; rewrite Hc; reflexivity). simpl.
    apply (forallb_impl is_id_part); [|exact Hr]. intros x Hx. rewrite (id_part_ascii x Hx). reflexivity.
  - cbn. assert (Hd : forallb is_digit lit = true).
    { destruct lit as [|c [|d r]]; try discriminate; simpl in *.
      - rewrite H. reflexivity.
      - apply andb_prop in H. destruct H as [H Hr]. apply andb_prop in H. destruct H as [Hc _]. rewrite Hc. exact Hr. }
    apply (forallb_impl is_digit); [|exact Hd]. intros x Hx. rewrite (id_part_ascii x); [reflexivity|].
    unfold is_id_part. rewrite Hx. apply orb_true_r.
  - cbn. assert (Hq : is_hi q = false).
    { unfold quote_ok in H. destruct (ceq q c_dq) eqn:E1; [apply Ascii.eqb_eq in E1; subst; reflexivity|].
      destruct (ceq q c_sq) eqn:E2; [apply Ascii.eqb_eq in E2; subst; reflexivity|].
      destruct (ceq q c_bt) eqn:E3; [apply Ascii.eqb_eq in E3; subst; reflexivity|discriminate]. }
    rewrite Hq. simpl. unfold ascii_only. rewrite forallb_app. simpl. rewrite Hq. simpl. rewrite andb_true_r.
    apply (forallb_impl (plain_char q)); [|exact H0]. intros x Hx. unfold plain_char in Hx.
    apply andb_prop in Hx. destruct Hx as [_ Hx]. exact Hx.
  - destruct p; reflexivity.
Qed.

Lemma spaced_ascii ts : Forall tok_ok ts -> ascii_only (spaced ts) = true.
Proof.
  induction 1 as [|t ts Ht _ IH]; [reflexivity|].
  rewrite spaced_cons. change (ascii_only (sp1 :: tok_text t ++ spaced ts)) with (ascii_only (tok_text t ++ spaced ts)).
  rewrite ascii_only_app, (tok_text_ascii t Ht), IH. reflexivity.
Qed.

Lemma stmt_default rec inf st : startb (tk st) = true -> tk st <> TP PLBrace ->
  parseStatement rec inf st =
  bind (asE (rec CExpression st)) (fun e st' =>
    match e with
    | EId _ => if is_p PColon st' then ROut
               else bind (optionalSemicolon st') (fun _ st'' => ROk (VS (SExpr e)) st'')
    | _ => bind (optionalSemicolon st') (fun _ st'' => ROk (VS (SExpr e)) st'')
    end).
Proof.
  intros Hs Hb. unfold parseStatement.
  destruct (tk st) as [| | |k| | | | | |p]; try discriminate; try reflexivity.
  - destruct k; try discriminate; reflexivity.
  - destruct p; try discriminate; try reflexivity. congruence.
Qed.

Lemma opt_semi_eof st : tk st = TEOF -> exists st', optionalSemicolon st = ROk tt st' /\ tk st' = TEOF.
Proof.
  intros H. unfold optionalSemicolon, is_p, is_eof. rewrite H.
  destruct (imp st); eexists; (split; [reflexivity|]); simpl; try rewrite H; reflexivity.
Qed.

Lemma scan_tail_eof i : exists i' m', scan i (sp1 :: []) = LTok TEOF [] i' m'.
Proof. destruct i; eexists; eexists; reflexivity. Qed.

Lemma runs_to_fuel c st v st' f0 :
  Runs c st v st' -> run f0 c st <> RFuel -> run f0 c st = ROk v st'.
Proof.
  intros [n H] Hnf. specialize (H (max n f0) (Nat.le_max_l _ _)).
  rewrite <- H. symmetry. apply (run_mono f0 (max n f0) (Nat.le_max_r _ _) c st Hnf).
Qed.

Lemma file_roundtrip full e : wf e = true -> stmt_start_ok (toks full e) = true ->
  parse_file (spaced (toks full e) ++ [sp1]) = POk [SExpr e].
Proof.
  intros Hw Hstart.
  pose proof (toks_ok full e Hw) as Hok.
  set (src := spaced (toks full e) ++ [sp1]).
  assert (Hutf : utf8_valid src = true).
  { apply utf8_ascii. unfold src. rewrite ascii_only_app. rewrite (spaced_ascii _ Hok). reflexivity. }
  assert (HR : exists st', Runs CProgram (init_st src) (VSL [SExpr e]) st').
  { assert (Hs0 : Str [] TEOF [] (TEOF :: toks full e) (init_st src)).
    { cbn. repeat split; auto. }
    destruct (next_Str [] TEOF [] scan_tail_eof _ _ _ Hs0) as (st1 & Hn1 & Hs1).
    destruct (expr_runs full [] TEOF [] scan_tail_eof eq_refl e st1 Hw Hs1) as (st2 & Hs2 & Hr2).
    destruct Hs2 as [Htk2 Hrs2].
    destruct (opt_semi_eof st2 Htk2) as (st3 & Ho3 & Htk3).
    (* the first token starts an expression statement *)
    destruct (par_head full e p_seq (raw_head full (esize e) e (le_n _) Hw)) as (Hne & Hst & _).
    pose proof (Str_tk [] TEOF [] _ _ Hs1) as Htk1.
    assert (Hhd : tk st1 = hd_tok (toks full e)).
    { rewrite Htk1. unfold toks. destruct (par full (raw full e) (prec_of e) p_seq); [congruence|reflexivity]. }
    assert (Hst1 : startb (tk st1) = true) by (rewrite Hhd; exact Hst).
    assert (Hnb : tk st1 <> TP PLBrace).
    { rewrite Hhd. unfold toks in *. destruct (par full (raw full e) (prec_of e) p_seq) as [|t r]; [congruence|].
      cbn in *. destruct t as [| | |k| | | | | |p]; try discriminate. destruct p; try discriminate. }
    destruct (startb_facts st1 Hst1) as (_ & _ & _ & _ & Heof1 & _).
    exists st3. destruct Hr2 as [n2 Hr2]. apply runs_step. exists (3 + n2). intros f Hf.
    do 3 (destruct f as [|f]; [lia|]).
    cbn [step]. unfold parseProgram. rewrite Hn1. cbn [bind].
    cbn [run step]. unfold stmtLoop. rewrite Heof1. cbn [orb negb andb].
    cbn [run step]. rewrite (stmt_default _ false st1 Hst1 Hnb).
    change (step (run f) CExpression st1) with (run (S f) CExpression st1).
    rewrite Hr2 by lia. cbn [asE bind].
    assert (Hcol : is_p PColon st2 = false) by (unfold is_p; rewrite Htk2; reflexivity).
    assert (Hbody : (match e with
              | EId _ => if is_p PColon st2 then ROut
                         else bind (optionalSemicolon st2) (fun _ st'' => ROk (VS (SExpr e)) st'')
              | _ => bind (optionalSemicolon st2) (fun _ st'' => ROk (VS (SExpr e)) st'')
              end) = ROk (VS (SExpr e)) st3).
    { rewrite Hcol, Ho3. destruct e; reflexivity. }
    rewrite Hbody. cbn [asS bind].
    unfold stmtLoop, is_eof. rewrite Htk3. reflexivity. }
  destruct HR as [st' HR].
  unfold parse_file, parse_with. rewrite Hutf. cbn [negb].
  pose proof (run_safe (fuel_of src) CProgram (init_st src) I (fuel_of_enough src)) as [Hnf _].
  rewrite (runs_to_fuel _ _ _ _ _ HR Hnf). reflexivity.
Qed.

(* ---- ParseFunction("", "return <expr>"): the path pugjs.FuncToStatements takes *)

Definition tailF : bytes := [c_lf; "}"%char; ")"%char].

Lemma scan_tail_fn i : exists i' m', scan i (sp1 :: tailF) = LTok (TP PRBrace) [")"%char] i' m'.
Proof. destruct i; eexists; eexists; reflexivity. Qed.

Lemma spaced_starts ts tl : exists X, spaced ts ++ sp1 :: tl = sp1 :: X.
Proof. destruct ts; [eexists; reflexivity|]. rewrite spaced_cons. eexists; reflexivity. Qed.

Definition return_body (ts : list tok) : bytes := B "return" ++ spaced ts ++ [sp1].

Lemma wrap_return ts :
  wrap_function [] (return_body ts) = B "(function() {" ++ c_lf :: B "return" ++ (spaced ts ++ sp1 :: tailF).
Proof.
  unfold wrap_function, return_body. cbn [app B list_ascii_of_string].
  repeat rewrite <- app_assoc. reflexivity.
Qed.

Lemma function_roundtrip full e : wf e = true ->
  parse_function [] (return_body (toks full e)) = POk [SExpr (EFun None [] [SReturn (Some e)])].
Proof.
  intros Hw.
  pose proof (toks_ok full e Hw) as Hok.
  set (F := EFun None [] [SReturn (Some e)]).
  set (src := wrap_function [] (return_body (toks full e))).
  assert (Hsrc : src = B "(function() {" ++ c_lf :: B "return" ++ (spaced (toks full e) ++ sp1 :: tailF)) by apply wrap_return.
  assert (Hutf : utf8_valid src = true).
  { apply utf8_ascii. rewrite Hsrc. rewrite ascii_only_app. cbn [ascii_only forallb]. 
    change (ascii_only (c_lf :: B "return" ++ spaced (toks full e) ++ sp1 :: tailF))
      with (ascii_only (B "return" ++ spaced (toks full e) ++ sp1 :: tailF)).
    rewrite !ascii_only_app. rewrite (spaced_ascii _ Hok). reflexivity. }
  destruct (spaced_starts (toks full e) tailF) as [X HX].
  (* the wrapper's tokens *)
  set (s1 := mk_pst (TP PLParen) (B "function() {" ++ c_lf :: B "return" ++ sp1 :: X) false false).
  set (s2 := mk_pst (TKw KFunction) (B "() {" ++ c_lf :: B "return" ++ sp1 :: X) false false).
  set (s3 := mk_pst (TP PLParen) (B ") {" ++ c_lf :: B "return" ++ sp1 :: X) false false).
  set (s4 := mk_pst (TP PRParen) (B " {" ++ c_lf :: B "return" ++ sp1 :: X) true false).
  set (s5 := mk_pst (TP PLBrace) (c_lf :: B "return" ++ sp1 :: X) false false).
  set (s6 := mk_pst (TKw KReturn) (sp1 :: X) true false).
  assert (N0 : next (init_st src) = ROk tt s1) by (rewrite Hsrc, HX; reflexivity).
  assert (N1 : next s1 = ROk tt s2) by reflexivity.
  assert (N2 : next s2 = ROk tt s3) by reflexivity.
  assert (N3 : next s3 = ROk tt s4) by reflexivity.
  assert (N4 : next s4 = ROk tt s5) by reflexivity.
  assert (N5 : next s5 = ROk tt s6) by reflexivity.
  assert (Hs6 : Str tailF (TP PRBrace) [")"%char] (TKw KReturn :: toks full e) s6).
  { cbn. repeat split; auto. }
  destruct (next_Str tailF _ _ scan_tail_fn _ _ _ Hs6) as (s7 & N6 & Hs7).
  destruct (expr_runs full tailF _ _ scan_tail_fn eq_refl e s7 Hw Hs7) as (s8 & Hs8 & Hr8).
  destruct Hs8 as [Htk8 Hrs8].
  set (s9 := mk_pst (TP PRParen) [] true false).
  set (s10 := mk_pst TEOF [] false true).
  assert (N8 : next s8 = ROk tt s9) by (unfold next; rewrite Hrs8; reflexivity).
  assert (N9 : next s9 = ROk tt s10) by reflexivity.
  (* the first token of the expression *)
  destruct (par_head full e p_seq (raw_head full (esize e) e (le_n _) Hw)) as (Hne & Hst & _).
  pose proof (Str_tk tailF _ _ _ _ Hs7) as Htk7.
  assert (Hhd : tk s7 = hd_tok (toks full e)).
  { rewrite Htk7. unfold toks. destruct (par full (raw full e) (prec_of e) p_seq); [congruence|reflexivity]. }
  assert (Hst7 : startb (tk s7) = true) by (rewrite Hhd; exact Hst).
  destruct (startb_facts s7 Hst7) as (_ & _ & F3 & _ & F5 & F6).
  assert (Himp7 : imp s7 = false).
  { unfold toks in Hs7. destruct (par full (raw full e) (prec_of e) p_seq) as [|t r] eqn:E; [congruence|].
    exact (Str_imp tailF _ _ _ _ _ Hs7). }
  (* the function literal *)
  assert (RF : Runs CFunction s2 (VE F) s9).
  { destruct Hr8 as [n8 Hr8]. apply runs_step. exists (3 + n8). intros f Hf.
    do 3 (destruct f as [|f]; [lia|]).
    cbn [step]. unfold parseFunction, expect_kw. 
    change (is_kw KFunction s2) with true. cbv iota. rewrite N2. cbn [bind].
    change (tk s3) with (TP PLParen). cbv iota. cbn [bind]. unfold expect.
    change (is_p PLParen s3) with true. cbv iota. rewrite N3. cbn [bind].
    cbn [run step]. unfold paramLoop. change (is_p PRParen s4) with true. cbv iota. rewrite N4. cbn [bind asB].
    change (is_p PLBrace s5) with true. cbv iota. rewrite N5. cbn [bind].
    unfold stmtLoop. change (is_eof s6) with false. change (is_p PRBrace s6) with false. cbn [orb andb negb].
    cbn [run step]. unfold parseStatement at 1. change (tk s6) with (TKw KReturn). cbv iota.
    rewrite N6. cbn [bind negb]. rewrite Himp7, F6, F3, F5. cbn [negb andb].
    change (step (run f) CExpression s7) with (run (S f) CExpression s7).
    rewrite Hr8 by lia. cbn [asE bind]. unfold semicolon.
    assert (Hb8 : is_p PRBrace s8 = true) by (unfold is_p; rewrite Htk8; reflexivity).
    rewrite Hb8. rewrite orb_true_r. cbn [bind asS].
    unfold stmtLoop. rewrite Hb8. cbn [negb andb]. rewrite orb_true_r. cbn [asSL bind rev app].
    rewrite Hb8. rewrite N8. reflexivity. }
  assert (RP2 : Runs CPrimary s2 (VE F) s9).
  { destruct RF as [nF RF]. apply runs_step. exists nF. intros f Hf. cbn [step]. unfold parsePrimaryExpression.
    change (tk s2) with (TKw KFunction). cbv iota. apply RF. exact Hf. }
  assert (RE2 : Runs CExpression s2 (VE F) s9).
  { apply (desc 16 1 s2 F s9); try lia; [| reflexivity | intros _; split; reflexivity].
    apply (lhs_of_prim TEOF eq_refl F s2 s9 RP2); reflexivity. }
  assert (RP1 : Runs CPrimary s1 (VE F) s10).
  { destruct RE2 as [n2 RE2]. apply runs_step. exists n2. intros f Hf. cbn [step]. unfold parsePrimaryExpression.
    change (tk s1) with (TP PLParen). cbv iota. rewrite N1. cbn [bind]. rewrite RE2 by lia. cbn [asE bind].
    unfold expect. change (is_p PRParen s9) with true. cbv iota. rewrite N9. reflexivity. }
  assert (RE1 : Runs CExpression s1 (VE F) s10).
  { apply (desc 16 1 s1 F s10); try lia; [| reflexivity | intros _; split; reflexivity].
    apply (lhs_of_prim TEOF eq_refl F s1 s10 RP1); reflexivity. }
  assert (HR : exists st', Runs CProgram (init_st src) (VSL [SExpr F]) st').
  { exists (mk_pst TEOF [] false false).
    destruct RE1 as [n1 RE1]. apply runs_step. exists (3 + n1). intros f Hf.
    do 3 (destruct f as [|f]; [lia|]).
    cbn [step]. unfold parseProgram. rewrite N0. cbn [bind].
    cbn [run step]. unfold stmtLoop. change (is_eof s1) with false. cbn [orb negb andb].
    cbn [run step]. unfold parseStatement at 1. change (tk s1) with (TP PLParen). cbv iota.
    change (step (run f) CExpression s1) with (run (S f) CExpression s1).
    rewrite RE1 by lia. cbn [asE bind]. unfold F at 1. cbv iota. reflexivity. }
  destruct HR as [st' HR].
  unfold parse_function, parse_function_with. fold src.
  unfold parse_with. rewrite Hutf. cbn [negb].
  pose proof (run_safe (fuel_of src) CProgram (init_st src) I (fuel_of_enough src)) as [Hnf _].
  rewrite (runs_to_fuel _ _ _ _ _ HR Hnf). reflexivity.
Qed.

(* ---- the statements used by Props/C15.v *)

Lemma roundtrip_min_file e : wf e = true -> stmt_start_ok (toks false e) = true ->
  parse_file (jshow_min e) = POk [SExpr e].
Proof. intros. unfold jshow_min. apply (file_roundtrip false); assumption. Qed.

Lemma roundtrip_min_function e : wf e = true ->
  parse_function [] (B "return" ++ jshow_min e) = POk [SExpr (EFun None [] [SReturn (Some e)])].
Proof. intros. apply (function_roundtrip false). assumption. Qed.

Lemma roundtrip_full_function e : wf e = true ->
  parse_function [] (B "return" ++ jshow_full e) = POk [SExpr (EFun None [] [SReturn (Some e)])].
Proof. intros. apply (function_roundtrip true). assumption. Qed.

Lemma roundtrip_full_file e : wf e = true -> parse_file (jshow_full e) = POk [SExpr e].
Proof.
  intros Hw. unfold jshow_full. apply (file_roundtrip true); [exact Hw|]. reflexivity.
Qed.

(* ---- non-vacuity: the subset is inhabited by deep mixed expressions, and the theorems
   compute the expected trees on them *)
Definition ex_deep : expr :=
  EBin BSub (EBin BSub (EId (B "a")) (EBin BSub (EId (B "b")) (ENum (B "1"))))
    (ECond (EBin BLt (EBin BLt (EId (B "x")) (EId (B "y"))) (EBin BIn (EStr "'"%char (B "k")) (EObj [(B "k", ENull)])))
       (EAssign (Some BAdd) (EDot (EId (B "o")) (B "class")) (EStr "`"%char (B "s t")))
       (ENew (ECall (EId (B "f")) [])
          [EUn UNeg false (EUn UDec true (EIdx (EId (B "q")) (ESeq [ENum (B "0"); EArr [EThis; EBool true]])));
           EUn UTypeof false (EUn UNot false (ENew (EDot (EId (B "p")) (B "q")) []))])).

Example ex_deep_wf : wf ex_deep = true.
Proof. vm_compute. reflexivity. Qed.
Example ex_deep_start : stmt_start_ok (toks false ex_deep) = true.
Proof. vm_compute. reflexivity. Qed.
Example ex_deep_min_text :
  jshow_min ex_deep =
  B " a - ( b - 1 ) - ( x < y < ( 'k' in { ""k"" : null } ) ? o . class += `s t` : new ( f ( ) ) ( - q [ 0 , [ this , true ] ] -- , typeof ! new p . q ( ) ) ) ".
Proof. vm_compute. reflexivity. Qed.
Example ex_deep_min : parse_file (jshow_min ex_deep) = POk [SExpr ex_deep].
Proof. apply roundtrip_min_file; [exact ex_deep_wf|exact ex_deep_start]. Qed.
Example ex_deep_full : parse_file (jshow_full ex_deep) = POk [SExpr ex_deep].
Proof. apply roundtrip_full_file. exact ex_deep_wf. Qed.

(* associativity and precedence on plain source text (no printer involved) *)
Example ex_rel_left :
  parse_file (B "1<2<3") = POk [SExpr (EBin BLt (EBin BLt (ENum (B "1")) (ENum (B "2"))) (ENum (B "3")))].
Proof. vm_compute. reflexivity. Qed.
Example ex_prec :
  parse_file (B "a+b*c-d") =
  POk [SExpr (EBin BSub (EBin BAdd (EId (B "a")) (EBin BMul (EId (B "b")) (EId (B "c")))) (EId (B "d")))].
Proof. vm_compute. reflexivity. Qed.
Example ex_assign_right :
  parse_file (B "a=b=c?d:e?f:g") =
  POk [SExpr (EAssign None (EId (B "a")) (EAssign None (EId (B "b"))
         (ECond (EId (B "c")) (EId (B "d")) (ECond (EId (B "e")) (EId (B "f")) (EId (B "g"))))))].
Proof. vm_compute. reflexivity. Qed.
Example ex_reject : parse_file (B "a + (b * ") = PErr.
Proof. vm_compute. reflexivity. Qed.
Example ex_outside : parse_file (B "if (a) b") = POutside.
Proof. vm_compute. reflexivity. Qed.
Example ex_function :
  parse_function [] (B "return a ? 1 : 2") =
  POk [SExpr (EFun None [] [SReturn (Some (ECond (EId (B "a")) (ENum (B "1")) (ENum (B "2"))))])].
Proof. vm_compute. reflexivity. Qed.

Example ex_deep_function :
  parse_function [] (B "return" ++ jshow_min ex_deep) = POk [SExpr (EFun None [] [SReturn (Some ex_deep)])].
Proof. apply roundtrip_min_function. exact ex_deep_wf. Qed.
(* an object literal may start a returned expression (it would be a block at the start of a statement) *)
Example ex_obj_function :
  parse_function [] (B "return" ++ jshow_min (EObj [(B "a", ENum (B "1"))])) =
  POk [SExpr (EFun None [] [SReturn (Some (EObj [(B "a", ENum (B "1"))]))])].
Proof. apply roundtrip_min_function. reflexivity. Qed.
Example ex_obj_file_start : stmt_start_ok (toks false (EObj [(B "a", ENum (B "1"))])) = false.
Proof. reflexivity. Qed.
