(* C03 — further lemmas (kept apart from Proofs/C03Proofs.v, which other developments import): the page data of a
   frame is constant whatever the frame executes; a directory of template files (Models/PageDir.v) compiled with a
   compiler state per file, and the per-directory variant refuted. *)
From PV Require Import Base.Bytes Base.Escape Tmpl.Value Tmpl.IR Tmpl.Runtime Tmpl.Exec Proofs.ExecMono Proofs.C03Proofs.
From PV Require Import Js.Ast Pug.Ast Pug.Compile.
Local Strategy opaque [eval_pipeline eval_cmds truthy while_cap].

(* ---- the page data of a frame -------------------------------------------------------------------- *)
(* whatever a frame executes - assignments to names that are also keys of the page data, declarations, loops,
   calls, blocks - its `globals` (what every mixin it calls starts from) and its depth stay what they were *)
Definition gkeeps (s s' : xstate) : Prop :=
  f_globals (cur s') = f_globals (cur s) /\ f_depth (cur s') = f_depth (cur s).

Lemma gkeeps_refl s : gkeeps s s.
Proof. split; reflexivity. Qed.
Lemma gkeeps_trans a b c : gkeeps a b -> gkeeps b c -> gkeeps a c.
Proof. intros [A1 A2] [B1 B2]. split; congruence. Qed.
Lemma set_vars_gkeeps s vs : gkeeps s (set_vars s vs).
Proof. unfold gkeeps, set_vars. rewrite cur_set_cur. split; reflexivity. Qed.
Lemma set_heap_gkeeps s h : gkeeps s (set_heap s h).
Proof. split; reflexivity. Qed.
Lemma emit_gkeeps s b : gkeeps s (emit s b).
Proof. split; reflexivity. Qed.

Lemma range_plan_gkeeps dot s p pl :
  range_plan dot s p = Ok pl ->
  match pl with RElse s2 | RIter s2 _ | RWhile s2 _ | RDone s2 => gkeeps s s2 end.
Proof.
  destruct p as [decl cmds]. unfold range_plan.
  set (s0 := set_vars s (f_vars (cur s) ++ map (fun x : bytes => (x, VInvalid)) decl)).
  destruct (eval_pipeline (env_of s0 dot) (x_heap s0) (decl, cmds)) as [[v h1]| | |]; cbn [bind]; try discriminate.
  set (s2 := set_vars (set_heap s0 h1) (set_decl (f_vars (cur (set_heap s0 h1))) decl v)).
  assert (K : gkeeps s s2).
  { unfold s2. eapply gkeeps_trans; [|apply set_vars_gkeeps].
    eapply gkeeps_trans; [|apply set_heap_gkeeps]. unfold s0. apply set_vars_gkeeps. }
  destruct v; try discriminate; intros H.
  - injection H as <-; exact K.
  - destruct b; injection H as <-; exact K.
  - destruct b; injection H as <-; exact K.
  - injection H as <-; exact K.
  - destruct (hget h1 l) as [[items|]|]; try discriminate.
    injection H as <-.
    match goal with |- context [match ?x with [] => _ | _ => _ end] => destruct x end; exact K.
  - destruct (hget h1 l) as [[|items order]|]; try discriminate.
    destruct order as [|o1 orest]; injection H as <-;
      match goal with |- context [match ?x with [] => _ | _ => _ end] => destruct x end; exact K.
Qed.

Section PageData.
  Variable defs : list (bytes * list tnode).

  Definition G_nodes f := forall dot s ns s', live s -> exec_nodes defs f dot s ns = Ok s' -> gkeeps s s'.
  Definition G_node f := forall dot s n s', live s -> exec_node defs f dot s n = Ok s' -> gkeeps s s'.
  Definition G_iter f := forall s decl body pairs s', live s -> exec_iter defs f s decl body pairs = Ok s' -> gkeeps s s'.
  Definition G_while f := forall dot s p body b v s', live s -> exec_while defs f dot s p body b v = Ok s' -> gkeeps s s'.

  Lemma action_gkeeps f dot s p s' : exec_node defs (S f) dot s (NAction p) = Ok s' -> gkeeps s s'.
  Proof.
    intros H. destruct p as [decl cmds].
    assert (G : forall s', (do x <- eval_pipeline (env_of s dot) (x_heap s) (decl, cmds);
                            let '(v, h1) := x in
                            let s1 := set_heap s h1 in
                            match decl with
                            | [] => do t <- print_text h1 v; Ok (emit s1 t)
                            | _ => Ok (set_vars s1 (set_decl (f_vars (cur s1)) decl v))
                            end) = Ok s' -> gkeeps s s').
    { clear H s'. intros s' H.
      destruct (eval_pipeline (env_of s dot) (x_heap s) (decl, cmds)) as [[v h1]| | |]; cbn [bind] in H; try discriminate.
      cbv zeta in H. destruct decl as [|d ds].
      - destruct (print_text h1 v) as [t| | |]; cbn [bind] in H; try discriminate.
        inversion H; subst. split; reflexivity.
      - inversion H; subst. eapply gkeeps_trans; [apply set_heap_gkeeps|apply set_vars_gkeeps]. }
    destruct decl as [|d ds]; [|exact (G s' H)].
    simpl in H.
    repeat match type of H with (match ?x with _ => _ end) = _ => destruct x end.
    all: try exact (G s' H).
    all: inversion H; subst; unfold gkeeps; rewrite cur_set_cur; split; reflexivity.
  Qed.

  Lemma gkeeps_all f : G_nodes f /\ G_node f /\ G_iter f /\ G_while f.
  Proof.
    induction f as [|f [IHns [IHn [IHi IHw]]]].
    - split; [|split; [|split]]; intro; intros; discriminate.
    - destruct (keeps_all defs f) as [Kns [Kn [Ki Kw]]].
      split; [|split; [|split]].
      + intros dot s ns s' Hl H. destruct ns as [|n r]; [inversion H; subst; apply gkeeps_refl|].
        rewrite nodes_cons in H.
        destruct (exec_node defs f dot s n) as [s1| | |] eqn:E; cbn [bind] in H; try discriminate.
        exact (gkeeps_trans _ _ _ (IHn _ _ _ _ Hl E) (IHns _ _ _ _ (proj2 (Kn _ _ _ _ Hl E)) H)).
      + intros dot s n s' Hl H. destruct n as [t|p|p th el|p body el|name isv arg].
        * inversion H; subst. apply emit_gkeeps.
        * exact (action_gkeeps f dot s p s' H).
        * rewrite node_if in H.
          destruct (eval_pipeline (env_of s dot) (x_heap s) p) as [[v h1]| | |]; cbn [bind] in H; try discriminate.
          cbv zeta in H. destruct (truthy h1 v) as [t| | |]; cbn [bind] in H; try discriminate.
          assert (K : gkeeps s (set_vars (set_heap s h1) (set_decl (f_vars (cur (set_heap s h1))) (fst p) v))).
          { eapply gkeeps_trans; [apply set_heap_gkeeps|apply set_vars_gkeeps]. }
          exact (gkeeps_trans _ _ _ K (IHns _ _ _ _ (set_vars_live _ _) H)).
        * rewrite node_range in H.
          destruct (range_plan dot s p) as [pl| | |] eqn:E; cbn [bind] in H; try discriminate.
          pose proof (range_plan_gkeeps dot s p pl E) as K.
          pose proof (range_plan_keeps dot s p pl Hl E) as L.
          destruct pl as [s2|s2 pairs|s2 v|s2].
          -- exact (gkeeps_trans _ _ _ K (IHns _ _ _ _ (proj2 L) H)).
          -- exact (gkeeps_trans _ _ _ K (IHi _ _ _ _ _ (proj2 L) H)).
          -- exact (gkeeps_trans _ _ _ K (IHw _ _ _ _ _ _ _ (proj2 L) H)).
          -- inversion H; subst; exact K.
        * destruct (call_keeps_bindings defs f dot s name isv arg s' Hl H) as [_ [Hg Hd]]. split; assumption.
      + intros s decl body pairs s' Hl H. destruct pairs as [|[k v] r]; [inversion H; subst; apply gkeeps_refl|].
        rewrite iter_cons in H. cbv zeta in H.
        match type of H with context [exec_nodes defs f ?d ?s0 ?b] =>
          destruct (exec_nodes defs f d s0 b) as [s1| | |] eqn:E; cbn [bind] in H; try discriminate;
          assert (K0 : gkeeps s s0) by apply set_vars_gkeeps;
          assert (L0 : live s0) by apply set_vars_live;
          pose proof (IHns _ _ _ _ L0 E) as K1;
          pose proof (Kns _ _ _ _ L0 E) as L1 end.
        exact (gkeeps_trans _ _ _ (gkeeps_trans _ _ _ K0 K1) (IHi _ _ _ _ _ (proj2 L1) H)).
      + intros dot s p body b v s' Hl H. rewrite while_step in H.
        destruct (exec_nodes defs f v s body) as [s1| | |] eqn:E; cbn [bind] in H; try discriminate.
        pose proof (IHns _ _ _ _ Hl E) as K1.
        pose proof (Kns _ _ _ _ Hl E) as L1.
        destruct (eval_pipeline (env_of s1 dot) (x_heap s1) p) as [[v' h1]| | |]; cbn [bind] in H; try discriminate.
        cbv zeta in H. destruct b as [|b]; [discriminate|].
        assert (K2 : gkeeps s1 (set_heap s1 h1)) by apply set_heap_gkeeps.
        assert (L2 : live (set_heap s1 h1)) by exact (proj2 L1).
        destruct v' as [| | |[|]| | |[|]| | | | |]; try discriminate.
        * exact (gkeeps_trans _ _ _ (gkeeps_trans _ _ _ K1 K2) (IHw _ _ _ _ _ _ _ L2 H)).
        * inversion H; subst. exact (gkeeps_trans _ _ _ K1 K2).
        * exact (gkeeps_trans _ _ _ (gkeeps_trans _ _ _ K1 K2) (IHw _ _ _ _ _ _ _ L2 H)).
        * inversion H; subst. exact (gkeeps_trans _ _ _ K1 K2).
  Qed.

  Lemma exec_nodes_keeps_page_data f dot s ns s' :
    live s -> exec_nodes defs f dot s ns = Ok s' ->
    f_globals (cur s') = f_globals (cur s) /\ f_depth (cur s') = f_depth (cur s).
  Proof. exact (proj1 (gkeeps_all f) dot s ns s'). Qed.

  (* the composition: a frame runs ANY nodes (assigning to names that are keys of its page data or not), then calls a
     mixin: the mixin body starts with the page data the frame was given, not with anything the frame did to its
     variables *)
  Lemma mixin_after_anything_sees_page_data f dot s ns s1 name arg body newdot s3 :
    live s -> exec_nodes defs f dot s ns = Ok s1 ->
    template_plan defs dot s1 name false arg = Ok (Some (body, newdot, s3)) ->
    ~ In name (map fst (f_bound (cur s1))) ->
    f_vars (cur s3) = f_globals (cur s) /\ f_globals (cur s3) = f_globals (cur s).
  Proof.
    intros Hl He Hp Hn.
    destruct (exec_nodes_keeps_page_data f dot s ns s1 Hl He) as [Hg _].
    destruct (mixin_callee_sees_globals defs dot s1 name arg body newdot s3 Hp Hn) as [A [Bq _]].
    split; congruence.
  Qed.
End PageData.

(* ---- a directory of template files (Models/PageDir.v) --------------------------------------------- *)
From PV Require Import Models.PageDir.
From Coq Require Import Permutation.

Section Dir.
  Variable funcs : list bytes.
  Variable dbg : bool.

  Lemma compile_from_cs0 nodes : compile_text funcs dbg nodes = option_map fst (compile_from funcs dbg cs0 nodes).
  Proof.
    unfold compile_text, compile, compile_from.
    destruct (cnode funcs dbg (S (S (pnode_size (PBlock nodes)))) false cs0 (PBlock nodes)) as [[[main raw] st]|]; reflexivity.
  Qed.

  Lemma lookup_nodup {A} (l : list (bytes * A)) k v :
    NoDup (map fst l) -> In (k, v) l -> lookup k l = Some v.
  Proof.
    induction l as [|[k' v'] r IH]; intros Hn Hi; [destruct Hi|].
    simpl in *. inversion Hn as [|? ? Hnot Hr]; subst.
    destruct Hi as [E|Hi].
    - inversion E; subst. rewrite beqb_refl. reflexivity.
    - destruct (beqb k k') eqn:E.
      + apply beqb_eq in E; subst k'. exfalso. apply Hnot. change k with (fst (k, v)). apply in_map. exact Hi.
      + apply IH; assumption.
  Qed.

  Lemma load_dir_names files : map fst (load_dir funcs dbg files) = map fst files.
  Proof. unfold load_dir. rewrite map_map. reflexivity. Qed.

  (* a page means what it means alone, whatever other files the same load compiles and in whatever order the
     directory listing gives them *)
  Lemma page_independent_of_siblings files files' name nodes :
    NoDup (map fst files) -> Permutation files files' -> In (name, nodes) files ->
    lookup name (load_dir funcs dbg files') = lookup name (load_dir funcs dbg [(name, nodes)]).
  Proof.
    intros Hn Hp Hi. simpl. rewrite beqb_refl.
    apply lookup_nodup.
    - rewrite load_dir_names. eapply Permutation_NoDup; [apply Permutation_map; exact Hp|exact Hn].
    - unfold load_dir. change (name, compile_text funcs dbg nodes) with ((fun f : bytes * list pnode => (fst f, compile_text funcs dbg (snd f))) (name, nodes)).
      apply in_map. eapply Permutation_in; [exact Hp|exact Hi].
  Qed.
End Dir.

Example ex_dir_loads :
  match lookup (B "product") (load_dir [] false ex_files) with Some (Some _) => True | _ => False end.
Proof. vm_compute. exact I. Qed.

(* with one compiler for the whole directory the first definition of a name wins: the page listed later gets the
   other page's mixin *)
Lemma shared_compiler_state_refuted :
  exists funcs dbg files name,
    NoDup (map fst files) /\ lookup name (load_dir_shared funcs dbg cs0 files) <> lookup name (load_dir funcs dbg files).
Proof.
  exists [], false, ex_files, (B "product"). split.
  - repeat constructor; simpl; intuition discriminate.
  - vm_compute. discriminate.
Qed.

(* ... and which page is wrong depends on the listing order *)
Lemma shared_compiler_state_order_dependent :
  exists funcs dbg files files' name,
    Permutation files files' /\
    lookup name (load_dir_shared funcs dbg cs0 files) <> lookup name (load_dir_shared funcs dbg cs0 files').
Proof.
  exists [], false, ex_files, (rev ex_files), (B "product"). split.
  - apply Permutation_rev.
  - vm_compute. discriminate.
Qed.
