(* C06 — static structure and text are reproduced faithfully: lemmas and proofs.
   Part A: strings.Replace as a function with equations; the five passes of buildNode's Text arm as one
           pass over a greedy tokenisation ([quote_text_rend]).
   Part B: the byte-level lexer (Tmpl/Lexer.v) on quoted text: round trip and adjacency.
   Part C: static trees: the emitted template source lexes to pieces whose values concatenate to html_ser.
   Part D: trim markers: which compiled tokens carry them, and what apply_trims can remove. *)
From PV Require Import Base.Bytes Base.Escape Js.Ast Tmpl.IR Tmpl.Lexer Pug.Ast Pug.Compile Gen.Tables Spec.HtmlSer.

(* ================================================================================================== *)
(* Part A.1  replace_all (strings.Replace(s, old, new, -1)) by equations                              *)
(* ================================================================================================== *)
Lemma skipn_length_le {A} n (l : list A) : length (skipn n l) <= length l.
Proof. rewrite skipn_length; lia. Qed.

Lemma replace_all_fuel_irrel old new :
  old <> [] -> forall n s f1 f2, length s <= n -> length s < f1 -> length s < f2 ->
  replace_all_fuel f1 old new s = replace_all_fuel f2 old new s.
Proof.
  intros Hold; induction n as [|n IH]; intros s f1 f2 Hn H1 H2.
  - destruct s; [|simpl in Hn; lia]. destruct f1, f2; reflexivity.
  - destruct f1 as [|f1]; [lia|]. destruct f2 as [|f2]; [lia|].
    destruct s as [|c r]; [reflexivity|]. simpl in *.
    destruct old as [|a old']; [congruence|].
    destruct (prefixb (a :: old') (c :: r)) eqn:E.
    + f_equal. simpl. pose proof (skipn_length_le (length old') r). apply IH; lia.
    + f_equal. apply IH; lia.
Qed.

Lemma prefixb_app p r : prefixb p (p ++ r) = true.
Proof. apply prefixb_spec; exists r; reflexivity. Qed.

Lemma skipn_app_exact {A} (p r : list A) : skipn (length p) (p ++ r) = r.
Proof. induction p; simpl; auto. Qed.

Lemma replace_all_nil old new : replace_all old new [] = [].
Proof. reflexivity. Qed.

Lemma raf_step f old new c r :
  replace_all_fuel (S f) old new (c :: r) =
  if prefixb old (c :: r) then new ++ replace_all_fuel f old new (skipn (length old) (c :: r))
  else c :: replace_all_fuel f old new r.
Proof. reflexivity. Qed.

Lemma replace_all_match old new r :
  old <> [] -> replace_all old new (old ++ r) = new ++ replace_all old new r.
Proof.
  intros Hold. unfold replace_all.
  destruct old as [|a old']; [congruence|].
  change ((a :: old') ++ r) with (a :: old' ++ r).
  rewrite raf_step.
  change (a :: old' ++ r) with ((a :: old') ++ r).
  rewrite prefixb_app, skipn_app_exact. f_equal.
  apply (replace_all_fuel_irrel (a :: old') new Hold (length r)); [lia| |lia].
  rewrite app_length; simpl; lia.
Qed.

Lemma replace_all_skip old new c r :
  prefixb old (c :: r) = false -> replace_all old new (c :: r) = c :: replace_all old new r.
Proof.
  intros H. unfold replace_all. change (length (c :: r)) with (S (length r)).
  rewrite raf_step, H. reflexivity.
Qed.

(* [v] is copied: the pattern starts nowhere inside [v] (looking on into [rest]) *)
Fixpoint nomatch (old v rest : bytes) : Prop :=
  match v with
  | [] => True
  | c :: v' => prefixb old (c :: v' ++ rest) = false /\ nomatch old v' rest
  end.

Lemma replace_all_pass old new v rest :
  nomatch old v rest -> replace_all old new (v ++ rest) = v ++ replace_all old new rest.
Proof.
  induction v as [|c v IH]; simpl; intros H; [reflexivity|].
  destruct H as [H1 H2]. rewrite replace_all_skip by exact H1. rewrite IH by exact H2. reflexivity.
Qed.

Global Opaque replace_all.

(* ================================================================================================== *)
(* Part A.2  the greedy tokenisation of a text: "{{", "}}", single bytes                              *)
(* ================================================================================================== *)
Inductive qt := QC (c : ascii) | QO | QK.

Fixpoint tokz (s : bytes) : list qt :=
  match s with
  | [] => []
  | c :: r =>
    match r with
    | d :: r' =>
      if Ascii.eqb c "{" && Ascii.eqb d "{" then QO :: tokz r'
      else if Ascii.eqb c "}" && Ascii.eqb d "}" then QK :: tokz r'
      else QC c :: tokz r
    | [] => [QC c]
    end
  end.

Lemma list_ind2 {A} (P : list A -> Prop) :
  P [] -> (forall a, P [a]) -> (forall a b r, P r -> P (b :: r) -> P (a :: b :: r)) -> forall l, P l.
Proof.
  intros H0 H1 H2 l.
  assert (H : P l /\ forall a, P (a :: l)).
  { induction l as [|b r [IHa IHb]]; split; auto. }
  exact (proj1 H).
Qed.

Definition piece (po pk : bytes) (x : qt) : bytes :=
  match x with QC c => [c] | QO => po | QK => pk end.
Definition flat (po pk : bytes) (t : list qt) : bytes := flat_map (piece po pk) t.

Definition LBR : bytes := Eval compute in B "{{".
Definition RBR : bytes := Eval compute in B "}}".
Definition M1 : bytes := Eval compute in B "--{{--".
Definition M2 : bytes := Eval compute in B "--}}--".
Definition LO : bytes := Eval compute in B "{{""{{""}}".
Definition LC : bytes := Eval compute in B "{{""}}""}}".
Definition LB : bytes := Eval compute in B "{{""{""}}".
Definition LBB : bytes := Eval compute in B "{{{".
Definition LBN : bytes := Eval compute in B "{{""{""}}{{".

Lemma tokz_cons2 a b r :
  tokz (a :: b :: r) =
  if Ascii.eqb a "{" && Ascii.eqb b "{" then QO :: tokz r
  else if Ascii.eqb a "}" && Ascii.eqb b "}" then QK :: tokz r
  else QC a :: tokz (b :: r).
Proof. reflexivity. Qed.

Lemma and_eqb a b x y : Ascii.eqb a x && Ascii.eqb b y = true -> a = x /\ b = y.
Proof. intros H; apply andb_true_iff in H; destruct H as [H1 H2]; apply Ascii.eqb_eq in H1, H2; auto. Qed.

Lemma flat_tokz s : flat LBR RBR (tokz s) = s.
Proof.
  revert s; apply list_ind2; [reflexivity|intros a; reflexivity|intros a b r IH1 IH2].
  rewrite tokz_cons2.
  destruct (Ascii.eqb a "{" && Ascii.eqb b "{") eqn:E1.
  { apply and_eqb in E1; destruct E1; subst. unfold flat in *; cbn [flat_map piece LBR app]. rewrite IH1; reflexivity. }
  destruct (Ascii.eqb a "}" && Ascii.eqb b "}") eqn:E2.
  { apply and_eqb in E2; destruct E2; subst. unfold flat in *; cbn [flat_map piece RBR app]. rewrite IH1; reflexivity. }
  unfold flat in *; cbn [flat_map piece app]. rewrite IH2; reflexivity.
Qed.

(* pairs of neighbours the greedy tokenisation never produces *)
Definition bad_pair (x y : qt) : bool :=
  match x, y with
  | QC c, QC d => (Ascii.eqb c "{" && Ascii.eqb d "{") || (Ascii.eqb c "}" && Ascii.eqb d "}")
  | QC c, QO => Ascii.eqb c "{"
  | QC c, QK => Ascii.eqb c "}"
  | _, _ => false
  end.
Definition bad_next (x : qt) (t : list qt) : bool :=
  match t with y :: _ => bad_pair x y | [] => false end.
Fixpoint nf (t : list qt) : bool :=
  match t with
  | x :: r => negb (bad_next x r) && nf r
  | [] => true
  end.

Lemma nf_cons x r : nf (x :: r) = negb (bad_next x r) && nf r.
Proof. reflexivity. Qed.

Lemma hd_tokz b r :
  match tokz (b :: r) with
  | y :: _ => y = QC b \/ (y = QO /\ b = "{"%char) \/ (y = QK /\ b = "}"%char)
  | [] => False
  end.
Proof.
  destruct r as [|d r']; [left; reflexivity|]. rewrite tokz_cons2.
  destruct (Ascii.eqb b "{" && Ascii.eqb d "{") eqn:E1; [apply and_eqb in E1; destruct E1; auto|].
  destruct (Ascii.eqb b "}" && Ascii.eqb d "}") eqn:E2; [apply and_eqb in E2; destruct E2; auto|].
  auto.
Qed.

Lemma nf_tokz s : nf (tokz s) = true.
Proof.
  revert s; apply list_ind2; [reflexivity|intros a; reflexivity|intros a b r IH1 IH2].
  rewrite tokz_cons2.
  destruct (Ascii.eqb a "{" && Ascii.eqb b "{") eqn:E1.
  { rewrite nf_cons, IH1. destruct (tokz r); reflexivity. }
  destruct (Ascii.eqb a "}" && Ascii.eqb b "}") eqn:E2.
  { rewrite nf_cons, IH1. destruct (tokz r); reflexivity. }
  rewrite nf_cons, IH2, andb_true_r.
  pose proof (hd_tokz b r) as Hh. destruct (tokz (b :: r)) as [|y t]; [reflexivity|].
  cbn [bad_next]. destruct Hh as [->|[[-> ->]|[-> ->]]]; cbn [bad_pair].
  - rewrite E1, E2; reflexivity.
  - rewrite andb_true_r in E1. rewrite E1; reflexivity.
  - rewrite andb_true_r in E2. rewrite E2; reflexivity.
Qed.

Lemma nf_tail x t : nf (x :: t) = true -> nf t = true.
Proof. rewrite nf_cons; intros H; apply andb_true_iff in H; tauto. Qed.
Lemma nf_head x t : nf (x :: t) = true -> bad_next x t = false.
Proof. rewrite nf_cons; intros H; apply andb_true_iff in H; destruct H as [H _]; apply negb_true_iff in H; exact H. Qed.

(* ================================================================================================== *)
(* Part A.3  the passes of the Text arm, each as a change of the pieces                               *)
(* ================================================================================================== *)
Lemma flat_cons po pk x r : flat po pk (x :: r) = piece po pk x ++ flat po pk r.
Proof. reflexivity. Qed.
Lemma flat_nil po pk : flat po pk [] = [].
Proof. reflexivity. Qed.

(* simplification that keeps comparisons of bytes folded: constant ones are evaluated, those with a
   variable byte are decided by case distinction *)
Ltac eqb_const :=
  repeat match goal with
         | |- context [Ascii.eqb ?a ?b] =>
           let v := eval vm_compute in (Ascii.eqb a b) in
           lazymatch v with
           | true => change (Ascii.eqb a b) with true
           | false => change (Ascii.eqb a b) with false
           end
         | H : context [Ascii.eqb ?a ?b] |- _ =>
           let v := eval vm_compute in (Ascii.eqb a b) in
           lazymatch v with
           | true => change (Ascii.eqb a b) with true in H
           | false => change (Ascii.eqb a b) with false in H
           end
         end.
Ltac bsimp := repeat (progress (cbn -[Ascii.eqb] in *; eqb_const)).
Ltac eqb_cases :=
  bsimp;
  repeat match goal with
         | |- context [Ascii.eqb ?a ?b] => destruct (Ascii.eqb_spec a b); subst; bsimp
         | H : context [Ascii.eqb ?a ?b] |- _ => destruct (Ascii.eqb_spec a b); subst; bsimp
         end; try reflexivity; try discriminate; try congruence.

(* the first token of the rest, when it matters *)
Ltac head_cases r :=
  let d := fresh "d" in let r' := fresh "r" in
  destruct r as [|[d| |] r']; eqb_cases.

(* pass 1: "{{" -> "--{{--" *)
Lemma pass1 t : nf t = true -> replace_all LBR M1 (flat LBR RBR t) = flat M1 RBR t.
Proof.
  induction t as [|x r IH]; intros Hnf; [reflexivity|].
  pose proof (nf_head _ _ Hnf) as Hb. specialize (IH (nf_tail _ _ Hnf)).
  rewrite !flat_cons. destruct x as [c| |]; cbn [piece].
  - change ([c] ++ flat LBR RBR r) with (c :: flat LBR RBR r).
    rewrite replace_all_skip; [rewrite IH; reflexivity|].
    bsimp. destruct (Ascii.eqb_spec "{" c); [subst c|reflexivity]. head_cases r.
  - rewrite replace_all_match by discriminate. rewrite IH; reflexivity.
  - rewrite replace_all_pass; [rewrite IH; reflexivity|]. bsimp. auto.
Qed.

(* pass 2: "}}" -> "--}}--" *)
Lemma pass2 t : nf t = true -> replace_all RBR M2 (flat M1 RBR t) = flat M1 M2 t.
Proof.
  induction t as [|x r IH]; intros Hnf; [reflexivity|].
  pose proof (nf_head _ _ Hnf) as Hb. specialize (IH (nf_tail _ _ Hnf)).
  rewrite !flat_cons. destruct x as [c| |]; cbn [piece].
  - change ([c] ++ flat M1 RBR r) with (c :: flat M1 RBR r).
    rewrite replace_all_skip; [rewrite IH; reflexivity|].
    bsimp. destruct (Ascii.eqb_spec "}" c); [subst c|reflexivity]. head_cases r.
  - rewrite replace_all_pass; [rewrite IH; reflexivity|]. bsimp. tauto.
  - rewrite replace_all_match by discriminate. rewrite IH; reflexivity.
Qed.

(* what the text after pass 2 cannot begin with *)
Lemma res3a r : nf r = true -> prefixb (B "{{--") (flat M1 M2 r) = false.
Proof.
  intros Hnf. destruct r as [|[d| |] r']; bsimp; try reflexivity.
  destruct (Ascii.eqb_spec "{" d); [subst d|reflexivity].
  pose proof (nf_head _ _ Hnf) as Hb. head_cases r'.
Qed.
Lemma res3b r : nf r = true -> prefixb (B "-{{--") (flat M1 M2 r) = false.
Proof.
  intros Hnf. destruct r as [|[d| |] r']; bsimp; try reflexivity.
  destruct (Ascii.eqb_spec "-" d); [subst d|reflexivity].
  apply (res3a r'). exact (nf_tail _ _ Hnf).
Qed.

(* pass 3: "--{{--" -> {{"{{"}} *)
Lemma pass3 t : nf t = true -> replace_all M1 LO (flat M1 M2 t) = flat LO M2 t.
Proof.
  induction t as [|x r IH]; intros Hnf; [reflexivity|].
  pose proof (nf_tail _ _ Hnf) as Hr. specialize (IH Hr).
  rewrite !flat_cons. destruct x as [c| |]; cbn [piece].
  - change ([c] ++ flat M1 M2 r) with (c :: flat M1 M2 r).
    rewrite replace_all_skip; [rewrite IH; reflexivity|].
    bsimp. destruct (Ascii.eqb_spec "-" c); [subst c|reflexivity]. apply (res3b r Hr).
  - rewrite replace_all_match by discriminate. rewrite IH; reflexivity.
  - rewrite replace_all_pass; [rewrite IH; reflexivity|].
    bsimp. repeat split; try reflexivity; [apply (res3a r Hr)|apply (res3b r Hr)].
Qed.

Lemma res4a r : nf r = true -> prefixb (B "}}--") (flat LO M2 r) = false.
Proof.
  intros Hnf. destruct r as [|[d| |] r']; bsimp; try reflexivity.
  destruct (Ascii.eqb_spec "}" d); [subst d|reflexivity].
  pose proof (nf_head _ _ Hnf) as Hb. head_cases r'.
Qed.
Lemma res4b r : nf r = true -> prefixb (B "-}}--") (flat LO M2 r) = false.
Proof.
  intros Hnf. destruct r as [|[d| |] r']; bsimp; try reflexivity.
  destruct (Ascii.eqb_spec "-" d); [subst d|reflexivity].
  apply (res4a r'). exact (nf_tail _ _ Hnf).
Qed.

(* pass 4: "--}}--" -> {{"}}"}} *)
Lemma pass4 t : nf t = true -> replace_all M2 LC (flat LO M2 t) = flat LO LC t.
Proof.
  induction t as [|x r IH]; intros Hnf; [reflexivity|].
  pose proof (nf_tail _ _ Hnf) as Hr. specialize (IH Hr).
  rewrite !flat_cons. destruct x as [c| |]; cbn [piece].
  - change ([c] ++ flat LO M2 r) with (c :: flat LO M2 r).
    rewrite replace_all_skip; [rewrite IH; reflexivity|].
    bsimp. destruct (Ascii.eqb_spec "-" c); [subst c|reflexivity]. apply (res4b r Hr).
  - rewrite replace_all_pass; [rewrite IH; reflexivity|]. bsimp. tauto.
  - rewrite replace_all_match by discriminate. rewrite IH; reflexivity.
Qed.

(* the text after all passes: a single "{" is written as the action {{"{"}} when a quoted "}}" follows
   (pass 5) or, with [fin], when it is the last byte (the HasSuffix rule) *)
Definition quoted_next (fin : bool) (r : list qt) : bool :=
  match r with [] => fin | QK :: _ => true | _ => false end.
Fixpoint rend (fin : bool) (t : list qt) : bytes :=
  match t with
  | [] => []
  | QC c :: r => (if Ascii.eqb c "{" && quoted_next fin r then LB else [c]) ++ rend fin r
  | QO :: r => LO ++ rend fin r
  | QK :: r => LC ++ rend fin r
  end.

Definition rpiece (fin : bool) (x : qt) (r : list qt) : bytes :=
  match x with
  | QC c => if Ascii.eqb c "{" && quoted_next fin r then LB else [c]
  | QO => LO
  | QK => LC
  end.
Lemma rend_cons fin x r : rend fin (x :: r) = rpiece fin x r ++ rend fin r.
Proof. destruct x; reflexivity. Qed.

Lemma lc_pass rest : replace_all LBB LBN (LC ++ rest) = LC ++ replace_all LBB LBN rest.
Proof. apply replace_all_pass. bsimp. tauto. Qed.

(* pass 5: "{{{" -> {{"{"}}{{ *)
Lemma pass5 t : nf t = true -> replace_all LBB LBN (flat LO LC t) = rend false t.
Proof.
  revert t; apply (list_ind2 (fun t => nf t = true -> replace_all LBB LBN (flat LO LC t) = rend false t)).
  - reflexivity.
  - intros [c| |] _.
    + rewrite flat_cons, flat_nil. cbn [piece app rend quoted_next]. rewrite andb_false_r.
      rewrite replace_all_skip; [reflexivity|]. eqb_cases.
    + rewrite flat_cons, flat_nil, app_nil_r. cbn [piece rend].
      rewrite <- (app_nil_r LO) at 1. rewrite replace_all_pass; [rewrite app_nil_r; reflexivity|]. bsimp. tauto.
    + rewrite flat_cons, flat_nil, app_nil_r. cbn [piece rend].
      rewrite <- (app_nil_r LC) at 1. rewrite lc_pass. rewrite app_nil_r; reflexivity.
  - intros x y r IH1 IH2 Hnf.
    pose proof (nf_tail _ _ Hnf) as Hr. pose proof (nf_head _ _ Hnf) as Hb.
    specialize (IH2 Hr). specialize (IH1 (nf_tail _ _ Hr)).
    destruct x as [c| |].
    + destruct (Ascii.eqb_spec c "{") as [->|Hc].
      * (* a single brace: what follows decides *)
        destruct y as [d| |].
        -- rewrite flat_cons. cbn [piece]. change ([ "{"%char ] ++ flat LO LC (QC d :: r)) with ("{"%char :: flat LO LC (QC d :: r)).
           rewrite replace_all_skip; [rewrite IH2; reflexivity|].
           rewrite flat_cons. eqb_cases.
        -- bsimp. discriminate.
        -- rewrite !flat_cons. cbn [piece].
           change ([ "{"%char ] ++ LC ++ flat LO LC r) with (LBB ++ (B """}}""}}" ++ flat LO LC r)).
           rewrite replace_all_match by discriminate.
           rewrite replace_all_pass; [|bsimp; tauto]. rewrite IH1. reflexivity.
      * rewrite flat_cons. cbn [piece]. change ([c] ++ flat LO LC (y :: r)) with (c :: flat LO LC (y :: r)).
        rewrite replace_all_skip; [rewrite IH2|].
        -- cbn [rend]. apply Ascii.eqb_neq in Hc. rewrite Hc. reflexivity.
        -- bsimp. destruct (Ascii.eqb_spec "{" c); [congruence|reflexivity].
    + rewrite flat_cons. cbn [piece rend]. rewrite replace_all_pass; [rewrite IH2; reflexivity|]. bsimp. tauto.
    + rewrite flat_cons. cbn [piece rend]. rewrite lc_pass, IH2. reflexivity.
Qed.

(* the HasSuffix rule *)
Definition fix_last (x : bytes) : bytes :=
  match rev x with
  | c :: r => if Ascii.eqb c "{" then rev r ++ LB else x
  | [] => x
  end.

Lemma fix_last_app p x : x <> [] -> fix_last (p ++ x) = p ++ fix_last x.
Proof.
  intros Hx. unfold fix_last. rewrite rev_app_distr.
  destruct (rev x) as [|c r'] eqn:E.
  - apply (f_equal (@rev ascii)) in E. rewrite rev_involutive in E. simpl in E. congruence.
  - cbn [app]. destruct (Ascii.eqb c "{"); [|reflexivity].
    rewrite rev_app_distr, rev_involutive, app_assoc. reflexivity.
Qed.

Lemma rend_nonempty fin x r : rend fin (x :: r) <> [].
Proof.
  destruct x as [c| |]; cbn [rend]; try discriminate.
  destruct (Ascii.eqb c "{" && quoted_next fin r); discriminate.
Qed.

Lemma fix_last_rend t : fix_last (rend false t) = rend true t.
Proof.
  induction t as [|x r IH]; [reflexivity|].
  destruct r as [|y r'].
  - destruct x as [c| |]; [|reflexivity|reflexivity].
    cbn [rend quoted_next]. rewrite andb_false_r, andb_true_r, !app_nil_r.
    unfold fix_last. cbn [rev app]. destruct (Ascii.eqb c "{"); reflexivity.
  - rewrite (rend_cons false x), (rend_cons true x).
    rewrite fix_last_app by apply rend_nonempty. rewrite IH. destruct x; reflexivity.
Qed.

(* the Text arm of buildNode as ONE pass over the greedy tokenisation *)
Theorem quote_text_rend s : quote_text s = rend true (tokz s).
Proof.
  unfold quote_text.
  change (B "{{") with LBR. change (B "}}") with RBR. change (B "--{{--") with M1. change (B "--}}--") with M2.
  change (B "{{""{{""}}") with LO. change (B "{{""}}""}}") with LC. change (B "{{{") with LBB.
  change (B "{{""{""}}{{") with LBN. change (B "{{""{""}}") with LB.
  pose proof (nf_tokz s) as Hnf.
  assert (E : replace_all LBB LBN (replace_all M2 LC (replace_all M1 LO (replace_all RBR M2 (replace_all LBR M1 s))))
              = rend false (tokz s)).
  { rewrite <- (flat_tokz s) at 1. rewrite pass1, pass2, pass3, pass4, pass5 by exact Hnf. reflexivity. }
  rewrite E. exact (fix_last_rend (tokz s)).
Qed.

(* ================================================================================================== *)
(* Part B  the byte-level lexer on quoted text                                                        *)
(* ================================================================================================== *)
Definition act_lit (v : bytes) : seg := SAct false (""""%char :: v ++ [""""%char]) false.

(* the complete items of a quoted text (the text read before it, reversed, is [acc]) ... *)
Fixpoint qsegs (acc : bytes) (t : list qt) : list seg :=
  match t with
  | [] => []
  | QC c :: r =>
    if Ascii.eqb c "{" && quoted_next true r
    then emit_text (rev acc) (act_lit (B "{") :: qsegs [] r)
    else qsegs (c :: acc) r
  | QO :: r => emit_text (rev acc) (act_lit LBR :: qsegs [] r)
  | QK :: r => emit_text (rev acc) (act_lit RBR :: qsegs [] r)
  end.
(* ... and the text run that is still open at its end (reversed) *)
Fixpoint qpend (acc : bytes) (t : list qt) : bytes :=
  match t with
  | [] => acc
  | QC c :: r => if Ascii.eqb c "{" && quoted_next true r then qpend [] r else qpend (c :: acc) r
  | QO :: r | QK :: r => qpend [] r
  end.

Lemma oapp_emit a x l o : oapp (emit_text a (x :: l)) o = oemit a (ocons x (oapp l o)).
Proof. destruct o; destruct a; reflexivity. Qed.
Lemma oapp_nil o : oapp [] o = o.
Proof. destruct o; reflexivity. Qed.

Lemma lex_text_other acc c rest :
  c <> "{"%char -> lex_text false acc (c :: rest) = lex_text false (c :: acc) rest.
Proof. intros H. apply Ascii.eqb_neq in H. cbn [lex_text]. rewrite H. reflexivity. Qed.

Lemma lex_text_brace acc d rest :
  d <> "{"%char -> lex_text false acc ("{"%char :: d :: rest) = lex_text false ("{"%char :: acc) (d :: rest).
Proof. intros H. apply Ascii.eqb_neq in H. cbn [lex_text]. bsimp. rewrite H. reflexivity. Qed.

Lemma lex_LO acc rest :
  lex_text false acc (LO ++ rest) = oemit (rev acc) (ocons (act_lit LBR) (lex_text false [] rest)).
Proof. reflexivity. Qed.
Lemma lex_LC acc rest :
  lex_text false acc (LC ++ rest) = oemit (rev acc) (ocons (act_lit RBR) (lex_text false [] rest)).
Proof. reflexivity. Qed.
Lemma lex_LB acc rest :
  lex_text false acc (LB ++ rest) = oemit (rev acc) (ocons (act_lit (B "{")) (lex_text false [] rest)).
Proof. reflexivity. Qed.

(* the first byte of a quoted text that follows an unquoted "{" is not "{" *)
Lemma rend_after_brace r k :
  nf (QC "{"%char :: r) = true -> quoted_next true r = false ->
  exists d rest, rend true r ++ k = d :: rest /\ d <> "{"%char.
Proof.
  intros Hnf Hq. pose proof (nf_head _ _ Hnf) as Hb.
  destruct r as [|[d| |] r']; bsimp; try discriminate.
  destruct (Ascii.eqb_spec d "{"); [subst; bsimp; discriminate|].
  exists d, (rend true r' ++ k). split; [reflexivity|assumption].
Qed.

(* the lexer on a quoted text followed by anything: the complete items, then on in text state *)
Lemma lex_rend t : forall acc k, nf t = true ->
  lex_text false acc (rend true t ++ k) = oapp (qsegs acc t) (lex_text false (qpend acc t) k).
Proof.
  induction t as [|x r IH]; intros acc k Hnf.
  - cbn [rend qsegs qpend app]. rewrite oapp_nil. reflexivity.
  - pose proof (nf_tail _ _ Hnf) as Hr.
    destruct x as [c| |]; cbn [rend qsegs qpend].
    + destruct (Ascii.eqb c "{" && quoted_next true r) eqn:E.
      * rewrite <- app_assoc, lex_LB, oapp_emit, IH by exact Hr. reflexivity.
      * cbn [app]. destruct (Ascii.eqb_spec c "{") as [->|Hc].
        -- cbn [andb] in E. destruct (rend_after_brace r k Hnf E) as [d [rest [Hd Hne]]].
           rewrite Hd, lex_text_brace by exact Hne. rewrite <- Hd. apply IH; exact Hr.
        -- rewrite lex_text_other by exact Hc. apply IH; exact Hr.
    + rewrite <- app_assoc, lex_LO, oapp_emit, IH by exact Hr. reflexivity.
    + rewrite <- app_assoc, lex_LC, oapp_emit, IH by exact Hr. reflexivity.
Qed.

(* ---- values ------------------------------------------------------------------------------------- *)
Lemma segs_value_app l1 l2 a b :
  segs_value l1 = Some a -> segs_value l2 = Some b -> segs_value (l1 ++ l2) = Some (a ++ b).
Proof.
  revert a; induction l1 as [|g l IH]; intros a H1 H2; simpl in *.
  - inversion H1; subst; exact H2.
  - destruct (seg_value g) as [v|]; [|discriminate].
    destruct (segs_value l) as [w|]; [|discriminate]. inversion H1; subst.
    rewrite (IH w eq_refl H2). rewrite app_assoc. reflexivity.
Qed.

Lemma segs_value_emit a l b :
  segs_value l = Some b -> segs_value (emit_text a l) = Some (a ++ b).
Proof. intros H. destruct a; [exact H|]. cbn [emit_text segs_value seg_value]. rewrite H. reflexivity. Qed.

Lemma emit_text_app a l m : emit_text a l ++ m = emit_text a (l ++ m).
Proof. destruct a; reflexivity. Qed.

Lemma sv_lit v l b :
  seg_value (act_lit v) = Some v -> segs_value l = Some b -> segs_value (act_lit v :: l) = Some (v ++ b).
Proof. intros Hv Hl. cbn [segs_value]. rewrite Hv, Hl. reflexivity. Qed.

Lemma qsegs_value t : forall acc,
  segs_value (qsegs acc t ++ emit_text (rev (qpend acc t)) []) = Some (rev acc ++ flat LBR RBR t).
Proof.
  induction t as [|x r IH]; intros acc.
  - cbn [qsegs qpend app flat flat_map]. rewrite (segs_value_emit (rev acc) [] []) by reflexivity. reflexivity.
  - destruct x as [c| |]; cbn [qsegs qpend]; rewrite flat_cons; cbn [piece].
    + destruct (Ascii.eqb c "{" && quoted_next true r) eqn:E.
      * apply andb_true_iff in E. destruct E as [Ec _]. apply Ascii.eqb_eq in Ec. subst c.
        rewrite emit_text_app. apply segs_value_emit. cbn [app].
        change ("{"%char :: flat LBR RBR r) with (B "{" ++ flat LBR RBR r).
        apply sv_lit; [reflexivity|]. rewrite IH; reflexivity.
      * rewrite IH. cbn [rev]. rewrite <- app_assoc. reflexivity.
    + rewrite emit_text_app. apply segs_value_emit. cbn [app].
      apply sv_lit; [reflexivity|]. rewrite IH; reflexivity.
    + rewrite emit_text_app. apply segs_value_emit. cbn [app].
      apply sv_lit; [reflexivity|]. rewrite IH; reflexivity.
Qed.

(* ---- shape of the items ---------------------------------------------------------------------------- *)
(* text, or one of the three string-literal actions without trim markers *)
Definition lit_seg (g : seg) : bool :=
  match g with
  | SText _ => true
  | SAct false b false => beqb b (B """{{""") || beqb b (B """}}""") || beqb b (B """{""")
  | SAct _ _ _ => false
  end.

Lemma forallb_emit_text (P : seg -> bool) a l :
  P (SText a) = true -> forallb P l = true -> forallb P (emit_text a l) = true.
Proof. intros H1 H2. destruct a; [exact H2|]. cbn [emit_text forallb]. rewrite H1, H2. reflexivity. Qed.

Lemma qsegs_lit t : forall acc, forallb lit_seg (qsegs acc t) = true.
Proof.
  induction t as [|x r IH]; intros acc; [reflexivity|].
  destruct x as [c| |]; cbn [qsegs].
  - destruct (Ascii.eqb c "{" && quoted_next true r); [|apply IH].
    apply forallb_emit_text; [reflexivity|]. cbn [forallb]. rewrite IH. reflexivity.
  - apply forallb_emit_text; [reflexivity|]. cbn [forallb]. rewrite IH. reflexivity.
  - apply forallb_emit_text; [reflexivity|]. cbn [forallb]. rewrite IH. reflexivity.
Qed.

(* the open text run never ends in "{" *)
Definition no_trail (acc : bytes) : bool :=
  match acc with c :: _ => negb (Ascii.eqb c "{") | [] => true end.

Lemma qpend_no_trail t : forall acc, (t = [] -> no_trail acc = true) -> no_trail (qpend acc t) = true.
Proof.
  induction t as [|x r IH]; intros acc H; [apply H; reflexivity|].
  destruct x as [c| |]; cbn [qpend]; try (apply IH; intros _; reflexivity).
  destruct (Ascii.eqb c "{" && quoted_next true r) eqn:E; [apply IH; intros _; reflexivity|].
  apply IH. intros ->. cbn [quoted_next] in E. rewrite andb_true_r in E. cbn [no_trail]. rewrite E. reflexivity.
Qed.

(* ---- the text before an action is only handed through ------------------------------------------------ *)
Lemma oemit_nil o : oemit [] o = o.
Proof. destruct o; reflexivity. Qed.
Lemma oemit_none a : oemit a None = None.
Proof. reflexivity. Qed.

Lemma lex_txt_out : forall n s, length s <= n -> forall txt,
  (forall lt st insp body, lex_act txt lt st insp body s = oemit txt (lex_act [] lt st insp body s)) /\
  (forall lt q body, lex_quote txt lt q body s = oemit txt (lex_quote [] lt q body s)) /\
  (forall lt body, lex_raw txt lt body s = oemit txt (lex_raw [] lt body s)) /\
  (lex_comm txt s = oemit txt (lex_comm [] s)).
Proof.
  induction n as [|n IH]; intros s Hn txt.
  - destruct s; [|simpl in Hn; lia]. repeat split; reflexivity.
  - destruct s as [|c r]; [repeat split; reflexivity|]. simpl in Hn.
    assert (Hr : length r <= n) by lia.
    destruct (IH r Hr txt) as [Ha [Hq [Hw Hc]]].
    repeat split; intros.
    + cbn [lex_act].
      destruct (st && at_comment (c :: r)).
      { destruct r as [|d r']; [reflexivity|]. simpl in Hr.
        assert (Hr' : length r' <= n) by lia. destruct (IH r' Hr' txt) as [_ [_ [_ Hc']]]. exact Hc'. }
      destruct (at_rdelim (c :: r)).
      { destruct r as [|d r']; [reflexivity|]. rewrite oemit_nil. reflexivity. }
      destruct (negb insp && at_rtrim (c :: r)).
      { destruct r as [|d1 [|d2 [|d3 r']]]; try reflexivity. rewrite oemit_nil. reflexivity. }
      destruct (is_eol c); [reflexivity|].
      destruct (is_blank c); [apply Ha|].
      destruct (Ascii.eqb c """" || Ascii.eqb c "'"); [apply Hq|].
      destruct (Ascii.eqb c "`"); [apply Hw|apply Ha].
    + cbn [lex_quote].
      destruct (Ascii.eqb c "\").
      { destruct r as [|d r']; [reflexivity|]. destruct (Ascii.eqb d LF); [reflexivity|].
        simpl in Hr. assert (Hr' : length r' <= n) by lia. destruct (IH r' Hr' txt) as [_ [Hq' _]]. apply Hq'. }
      destruct (Ascii.eqb c LF); [reflexivity|].
      destruct (Ascii.eqb c q); [apply Ha|apply Hq].
    + cbn [lex_raw]. destruct (Ascii.eqb c "`"); [apply Ha|apply Hw].
    + cbn [lex_comm]. destruct (Ascii.eqb c "*"); [|exact Hc].
      destruct r as [|d r']; [reflexivity|]. destruct (Ascii.eqb d "/"); [|exact Hc].
      destruct (at_rdelim r').
      { destruct r' as [|e1 [|e2 r'']]; try reflexivity. rewrite oemit_nil. reflexivity. }
      destruct (at_rtrim r'); [|reflexivity].
      destruct r' as [|e1 [|e2 [|e3 [|e4 r'']]]]; try reflexivity. rewrite oemit_nil. reflexivity.
Qed.

Definition starts_trim (k1 : bytes) : bool :=
  match k1 with m1 :: m2 :: _ => Ascii.eqb m1 "-" && Ascii.eqb m2 " " | _ => false end.

(* an action after a pending text: the text (right-trimmed when the action says "{{- ") is emitted,
   then everything is as if the action stood at the beginning *)
Lemma lex_text_action acc k1 :
  lex_text false acc ("{"%char :: "{"%char :: k1) =
  oemit (if starts_trim k1 then trim_right (rev acc) else rev acc) (segment ("{"%char :: "{"%char :: k1)).
Proof.
  unfold segment. cbn [lex_text]. bsimp.
  destruct k1 as [|m1 [|m2 r2]].
  - reflexivity.
  - cbn [starts_trim]. destruct (lex_txt_out _ [m1] (le_n _) (rev acc)) as [Ha _]. apply Ha.
  - cbn [starts_trim]. destruct (Ascii.eqb m1 "-" && Ascii.eqb m2 " ").
    + destruct (lex_txt_out _ r2 (le_n _) (trim_right (rev acc))) as [Ha _]. rewrite Ha.
      change (trim_right (rev [])) with (@nil ascii). reflexivity.
    + destruct (lex_txt_out _ (m1 :: m2 :: r2) (le_n _) (rev acc)) as [Ha _]. apply Ha.
Qed.

(* plain text (no "{" at all) after a pending text joins it *)
Lemma lex_text_plain k : forall acc,
  forallb (fun c => negb (Ascii.eqb c "{")) k = true ->
  lex_text false acc k = Some (emit_text (rev acc ++ k) []).
Proof.
  induction k as [|c k IH]; intros acc H.
  - rewrite app_nil_r. reflexivity.
  - cbn [forallb] in H. apply andb_true_iff in H. destruct H as [Hc Hk].
    apply negb_true_iff in Hc. cbn [lex_text]. rewrite Hc. cbn [andb].
    rewrite IH by exact Hk. cbn [rev]. rewrite <- app_assoc. reflexivity.
Qed.

(* ---- the theorems about one text -------------------------------------------------------------------- *)
Definition text_pre (s : bytes) : list seg := qsegs [] (tokz s).     (* the complete items of a quoted text *)
Definition text_last (s : bytes) : bytes := rev (qpend [] (tokz s)). (* its last, still open, text run *)
Definition text_segs (s : bytes) : list seg := text_pre s ++ emit_text (text_last s) [].

Lemma text_adjacent_any s k :
  segment (quote_text s ++ k) = oapp (text_pre s) (lex_text false (rev (text_last s)) k).
Proof.
  unfold segment, text_pre, text_last. rewrite quote_text_rend, rev_involutive.
  apply lex_rend. apply nf_tokz.
Qed.

Lemma text_roundtrip s :
  segment (quote_text s) = Some (text_segs s) /\
  segs_value (text_segs s) = Some s /\
  forallb lit_seg (text_segs s) = true.
Proof.
  split; [|split].
  - rewrite <- (app_nil_r (quote_text s)), text_adjacent_any.
    cbn [lex_text]. rewrite rev_involutive. reflexivity.
  - unfold text_segs, text_pre, text_last.
    rewrite qsegs_value. cbn [rev app]. rewrite flat_tokz. reflexivity.
  - unfold text_segs. rewrite forallb_app. unfold text_pre. rewrite qsegs_lit.
    apply forallb_emit_text; reflexivity.
Qed.

Lemma oapp_oemit p a o : oapp p (oemit a o) = oapp (p ++ emit_text a []) o.
Proof. destruct o as [l|]; [|reflexivity]. cbn [oemit oapp]. rewrite <- app_assoc. destruct a; reflexivity. Qed.

Lemma text_last_no_brace s : no_trail (rev (text_last s)) = true.
Proof.
  unfold text_last. rewrite rev_involutive. apply qpend_no_trail. intros _. reflexivity.
Qed.

(* the text is followed by an action without a left trim marker: its items, then the action's *)
Lemma text_adjacent_action s k1 :
  starts_trim k1 = false ->
  segment (quote_text s ++ "{"%char :: "{"%char :: k1) = oapp (text_segs s) (segment ("{"%char :: "{"%char :: k1)).
Proof.
  intros Ht. rewrite text_adjacent_any, lex_text_action, Ht, rev_involutive.
  unfold text_segs. apply oapp_oemit.
Qed.

(* ... with one: only white space at the end of the last text run goes *)
Lemma text_adjacent_trim_action s k1 :
  starts_trim k1 = true ->
  segment (quote_text s ++ "{"%char :: "{"%char :: k1) =
  oapp (text_pre s ++ emit_text (trim_right (text_last s)) []) (segment ("{"%char :: "{"%char :: k1)).
Proof.
  intros Ht. rewrite text_adjacent_any, lex_text_action, Ht, rev_involutive. apply oapp_oemit.
Qed.

(* the text is followed by plain text: it joins the last run *)
Lemma text_adjacent_plain s k :
  forallb (fun c => negb (Ascii.eqb c "{")) k = true ->
  segment (quote_text s ++ k) = Some (text_pre s ++ emit_text (text_last s ++ k) []).
Proof.
  intros Hk. rewrite text_adjacent_any, lex_text_plain by exact Hk. rewrite rev_involutive. reflexivity.
Qed.

(* two quoted texts side by side lex like the two texts one after the other *)
Lemma text_adjacent_text s1 s2 :
  segment (quote_text s1 ++ quote_text s2) =
  Some (text_pre s1 ++ qsegs (rev (text_last s1)) (tokz s2)
        ++ emit_text (rev (qpend (rev (text_last s1)) (tokz s2))) []).
Proof.
  rewrite text_adjacent_any. rewrite <- (app_nil_r (quote_text s2)), (quote_text_rend s2).
  rewrite lex_rend by apply nf_tokz. cbn [lex_text oapp]. reflexivity.
Qed.
Lemma segs_value_split l x : forall v,
  segs_value (l ++ emit_text x []) = Some v -> exists a, segs_value l = Some a /\ v = a ++ x.
Proof.
  induction l as [|g l IH]; intros v Hv.
  - exists []. split; [reflexivity|]. cbn [app] in Hv. destruct x; cbn in Hv; inversion Hv; subst; auto.
    rewrite app_nil_r; reflexivity.
  - cbn [app segs_value] in Hv. destruct (seg_value g) as [u|] eqn:Eg; [|discriminate].
    destruct (segs_value (l ++ emit_text x [])) as [w|] eqn:Ew; [|discriminate].
    inversion Hv; subst. destruct (IH w eq_refl) as [a [Ha1 Ha2]].
    exists (u ++ a). cbn [segs_value]. rewrite Eg, Ha1. split; [reflexivity|].
    rewrite Ha2, app_assoc. reflexivity.
Qed.

Lemma text_adjacent_text_value s1 s2 :
  exists l, segment (quote_text s1 ++ quote_text s2) = Some l /\ segs_value l = Some (s1 ++ s2)
            /\ forallb lit_seg l = true.
Proof.
  eexists. split; [apply text_adjacent_text|]. split.
  - destruct (text_roundtrip s1) as [_ [Hv _]]. unfold text_segs in Hv.
    pose proof (qsegs_value (tokz s2) (rev (text_last s1))) as H2.
    rewrite rev_involutive, flat_tokz in H2.
    destruct (segs_value_split _ _ _ Hv) as [a [Ha1 Ha2]].
    rewrite (segs_value_app _ _ _ _ Ha1 H2). rewrite app_assoc, <- Ha2. reflexivity.
  - rewrite forallb_app. unfold text_pre. rewrite qsegs_lit. rewrite forallb_app, qsegs_lit.
    apply forallb_emit_text; reflexivity.
Qed.

(* ================================================================================================== *)
(* Part B'  the token view of Pug/Compile.v: ctext never declines                                      *)
(* ================================================================================================== *)
Definition flush (acc : bytes) : list tok := match acc with [] => [] | _ => [TText (rev acc)] end.

Lemma tt_step f c r acc :
  text_toks_fuel (S f) (c :: r) acc =
  if prefixb LO (c :: r) then flush acc ++ lit_open :: text_toks_fuel f (skipn 8 (c :: r)) []
  else if prefixb LC (c :: r) then flush acc ++ lit_close :: text_toks_fuel f (skipn 8 (c :: r)) []
  else if prefixb LB (c :: r) then flush acc ++ lit_brace :: text_toks_fuel f (skipn 7 (c :: r)) []
  else text_toks_fuel f r (c :: acc).
Proof. reflexivity. Qed.
Lemma tt_nil fuel acc : text_toks_fuel fuel [] acc = flush acc.
Proof. destruct fuel; reflexivity. Qed.
Lemma tt_LO f rest acc : text_toks_fuel (S f) (LO ++ rest) acc = flush acc ++ lit_open :: text_toks_fuel f rest [].
Proof. reflexivity. Qed.
Lemma tt_LC f rest acc : text_toks_fuel (S f) (LC ++ rest) acc = flush acc ++ lit_close :: text_toks_fuel f rest [].
Proof. reflexivity. Qed.
Lemma tt_LB f rest acc : text_toks_fuel (S f) (LB ++ rest) acc = flush acc ++ lit_brace :: text_toks_fuel f rest [].
Proof. reflexivity. Qed.
Lemma tt_other f c rest acc :
  c <> "{"%char -> text_toks_fuel (S f) (c :: rest) acc = text_toks_fuel f rest (c :: acc).
Proof.
  intros H. rewrite tt_step. bsimp. destruct (Ascii.eqb_spec "{" c); [congruence|reflexivity].
Qed.
Lemma tt_brace f d rest acc :
  d <> "{"%char -> text_toks_fuel (S f) ("{"%char :: d :: rest) acc = text_toks_fuel f (d :: rest) ("{"%char :: acc).
Proof.
  intros H. rewrite tt_step. bsimp. destruct (Ascii.eqb_spec "{" d); [congruence|reflexivity].
Qed.

Fixpoint ttoks (acc : bytes) (t : list qt) : list tok :=
  match t with
  | [] => flush acc
  | QC c :: r =>
    if Ascii.eqb c "{" && quoted_next true r then flush acc ++ lit_brace :: ttoks [] r
    else ttoks (c :: acc) r
  | QO :: r => flush acc ++ lit_open :: ttoks [] r
  | QK :: r => flush acc ++ lit_close :: ttoks [] r
  end.

Lemma rpiece_length fin x r : 1 <= length (rpiece fin x r).
Proof. destruct x as [c| |]; cbn [rpiece]; [destruct (Ascii.eqb c "{" && quoted_next fin r)|..]; cbn; lia. Qed.

Lemma tt_rend t : forall acc fuel, nf t = true -> length (rend true t) < fuel ->
  text_toks_fuel fuel (rend true t) acc = ttoks acc t.
Proof.
  induction t as [|x r IH]; intros acc fuel Hnf Hf.
  - apply tt_nil.
  - pose proof (nf_tail _ _ Hnf) as Hr.
    destruct fuel as [|f]; [lia|].
    destruct x as [c| |]; cbn [rend ttoks] in *.
    + destruct (Ascii.eqb c "{" && quoted_next true r) eqn:E.
      * rewrite tt_LB. rewrite IH; [reflexivity|exact Hr|]. rewrite app_length in Hf. cbn in Hf. lia.
      * cbn [app] in *. cbn [length] in Hf.
        destruct (Ascii.eqb_spec c "{") as [->|Hc].
        -- cbn [andb] in E. destruct (rend_after_brace r [] Hnf E) as [d [rest [Hd Hne]]].
           rewrite app_nil_r in Hd. rewrite Hd, tt_brace by exact Hne. rewrite <- Hd. apply IH; [exact Hr|lia].
        -- rewrite tt_other by exact Hc. apply IH; [exact Hr|lia].
    + rewrite tt_LO. rewrite IH; [reflexivity|exact Hr|]. rewrite app_length in Hf. cbn in Hf. lia.
    + rewrite tt_LC. rewrite IH; [reflexivity|exact Hr|]. rewrite app_length in Hf. cbn in Hf. lia.
Qed.

(* no two "{" side by side *)
Fixpoint nodd (x : bytes) : bool :=
  match x with
  | a :: r => negb (Ascii.eqb a "{" && match r with b :: _ => Ascii.eqb b "{" | [] => false end) && nodd r
  | [] => true
  end.

Lemma containsb_cons p c r : containsb p (c :: r) = prefixb p (c :: r) || containsb p r.
Proof. reflexivity. Qed.

Lemma has_delim_snoc y a :
  has_delim (y ++ [a]) =
  has_delim y || (Ascii.eqb a "{" && match rev y with l :: _ => Ascii.eqb l "{" | [] => false end).
Proof.
  unfold has_delim. change (B "{{") with LBR.
  induction y as [|b y IH].
  - cbn [app rev]. rewrite andb_false_r. rewrite containsb_cons. bsimp.
    destruct (Ascii.eqb "{" a); reflexivity.
  - cbn [app]. rewrite !containsb_cons, IH. destruct y as [|d y'].
    + cbn [app rev]. bsimp.
      destruct (Ascii.eqb_spec "{" b); destruct (Ascii.eqb_spec "{" a); destruct (Ascii.eqb_spec a "{");
        destruct (Ascii.eqb_spec b "{"); subst; try congruence; reflexivity.
    + assert (Hl : match rev (b :: d :: y') with l :: _ => Ascii.eqb l "{" | [] => false end
                   = match rev (d :: y') with l :: _ => Ascii.eqb l "{" | [] => false end).
      { cbn [rev]. destruct (rev y' ++ [d]) eqn:E; [|reflexivity]. destruct (rev y'); discriminate. }
      rewrite Hl. cbn [app].
      assert (Hp : prefixb LBR (b :: d :: y' ++ [a]) = prefixb LBR (b :: d :: y')) by reflexivity.
      rewrite Hp. rewrite <- !orb_assoc. reflexivity.
Qed.

Lemma nodd_has_delim acc : nodd acc = true -> has_delim (rev acc) = false.
Proof.
  induction acc as [|a r IH]; intros H; [reflexivity|].
  cbn [nodd] in H. apply andb_true_iff in H. destruct H as [H1 H2].
  cbn [rev]. rewrite has_delim_snoc, rev_involutive, (IH H2). cbn [orb].
  apply negb_true_iff in H1. exact H1.
Qed.

Definition tok_nodelim (t : tok) : bool := match t with TText x => negb (has_delim x) | _ => true end.

Lemma flush_nodelim acc : nodd acc = true -> forallb tok_nodelim (flush acc) = true.
Proof.
  intros H. destruct acc; [reflexivity|]. cbn [flush forallb tok_nodelim].
  rewrite (nodd_has_delim _ H). reflexivity.
Qed.

Lemma ttoks_nodelim t : forall acc, nf t = true -> nodd acc = true ->
  (match acc with a :: _ => Ascii.eqb a "{" | [] => false end = true -> bad_next (QC "{"%char) t = false) ->
  forallb tok_nodelim (ttoks acc t) = true.
Proof.
  induction t as [|x r IH]; intros acc Hnf Hacc Hhd.
  - apply flush_nodelim; exact Hacc.
  - pose proof (nf_tail _ _ Hnf) as Hr. pose proof (nf_head _ _ Hnf) as Hb.
    assert (Hfresh : forallb tok_nodelim (ttoks [] r) = true).
    { apply IH; [exact Hr|reflexivity|intros; discriminate]. }
    destruct x as [c| |]; cbn [ttoks].
    + destruct (Ascii.eqb c "{" && quoted_next true r) eqn:E.
      * rewrite forallb_app, (flush_nodelim _ Hacc). cbn [forallb tok_nodelim]. exact Hfresh.
      * apply IH; [exact Hr| |].
        -- cbn [nodd]. rewrite Hacc, andb_true_r. apply negb_true_iff.
           destruct (Ascii.eqb c "{") eqn:Ec; [|reflexivity]. cbn [andb].
           destruct acc as [|a acc']; [reflexivity|].
           destruct (Ascii.eqb a "{") eqn:Ea; [|reflexivity].
           specialize (Hhd eq_refl). cbn [bad_next bad_pair] in Hhd. rewrite Ec in Hhd. bsimp. discriminate.
        -- intros Hc. apply Ascii.eqb_eq in Hc. subst c. exact Hb.
    + rewrite forallb_app, (flush_nodelim _ Hacc). cbn [forallb tok_nodelim]. exact Hfresh.
    + rewrite forallb_app, (flush_nodelim _ Hacc). cbn [forallb tok_nodelim]. exact Hfresh.
Qed.

(* a Text node always compiles (the [None] arm of Compile.ctext is dead) ... *)
Theorem ctext_total s : ctext s = Some (text_toks (quote_text s)).
Proof.
  unfold ctext. fold tok_nodelim.
  assert (E : text_toks (quote_text s) = ttoks [] (tokz s)).
  { unfold text_toks. rewrite quote_text_rend. apply tt_rend; [apply nf_tokz|lia]. }
  rewrite E. rewrite ttoks_nodelim; [reflexivity|apply nf_tokz|reflexivity|intros; discriminate].
Qed.

(* ... and its tokens print the quoted text *)
Lemma show_flush acc : show_toks (flush acc) = rev acc.
Proof. destruct acc; [reflexivity|]. cbn [flush show_toks flat_map tok_text]. rewrite app_nil_r. reflexivity. Qed.

Lemma show_toks_app a b : show_toks (a ++ b) = show_toks a ++ show_toks b.
Proof. unfold show_toks. apply flat_map_app. Qed.

Lemma show_ttoks t : forall acc, show_toks (ttoks acc t) = rev acc ++ rend true t.
Proof.
  induction t as [|x r IH]; intros acc.
  - cbn [ttoks rend]. rewrite show_flush, app_nil_r. reflexivity.
  - destruct x as [c| |]; cbn [ttoks rend].
    + destruct (Ascii.eqb c "{" && quoted_next true r).
      * rewrite show_toks_app, show_flush. change (lit_brace :: ttoks [] r) with ([lit_brace] ++ ttoks [] r).
        rewrite show_toks_app, IH. reflexivity.
      * rewrite IH. cbn [rev]. rewrite <- app_assoc. reflexivity.
    + rewrite show_toks_app, show_flush. change (lit_open :: ttoks [] r) with ([lit_open] ++ ttoks [] r).
      rewrite show_toks_app, IH. reflexivity.
    + rewrite show_toks_app, show_flush. change (lit_close :: ttoks [] r) with ([lit_close] ++ ttoks [] r).
      rewrite show_toks_app, IH. reflexivity.
Qed.

Lemma show_text_toks s : show_toks (text_toks (quote_text s)) = quote_text s.
Proof.
  unfold text_toks. rewrite quote_text_rend at 1 2. rewrite tt_rend; [|apply nf_tokz|lia].
  rewrite show_ttoks, quote_text_rend. reflexivity.
Qed.

(* ================================================================================================== *)
(* Part C  static trees                                                                                *)
(* ================================================================================================== *)
(* the template source [a] stands for the static value [v]: whatever text run is open before it and
   whatever follows it, the lexer delivers complete items, all text or string-literal actions, whose
   values together with the run still open at the end are the open run before, then [v]; and the lexer
   is back in text state (no delimiter can form across the end of [a]) *)
Definition renders (a v : bytes) : Prop :=
  forall acc, exists l p,
    (forall k, lex_text false acc (a ++ k) = oapp l (lex_text false p k)) /\
    (exists w, segs_value l = Some w /\ w ++ rev p = rev acc ++ v) /\
    forallb lit_seg l = true.

Lemma oapp_oapp l1 l2 o : oapp l1 (oapp l2 o) = oapp (l1 ++ l2) o.
Proof. destruct o; [|reflexivity]. cbn [oapp]. rewrite app_assoc. reflexivity. Qed.

Lemma renders_nil : renders [] [].
Proof.
  intros acc. exists [], acc. split; [|split].
  - intros k. rewrite oapp_nil. reflexivity.
  - exists []. split; [reflexivity|]. rewrite app_nil_r. reflexivity.
  - reflexivity.
Qed.

Lemma renders_app a v b w : renders a v -> renders b w -> renders (a ++ b) (v ++ w).
Proof.
  intros Ha Hb acc.
  destruct (Ha acc) as [l1 [p1 [H1 [[w1 [V1 E1]] L1]]]].
  destruct (Hb p1) as [l2 [p2 [H2 [[w2 [V2 E2]] L2]]]].
  exists (l1 ++ l2), p2. split; [|split].
  - intros k. rewrite <- app_assoc, H1, H2, oapp_oapp. reflexivity.
  - exists (w1 ++ w2). split; [apply segs_value_app; assumption|].
    rewrite <- app_assoc, E2, app_assoc, E1, <- app_assoc. reflexivity.
  - rewrite forallb_app, L1, L2. reflexivity.
Qed.

(* a Text node *)
Lemma renders_text s : renders (quote_text s) s.
Proof.
  intros acc. exists (qsegs acc (tokz s)), (qpend acc (tokz s)). split; [|split].
  - intros k. rewrite quote_text_rend. apply lex_rend. apply nf_tokz.
  - pose proof (qsegs_value (tokz s) acc) as H. rewrite flat_tokz in H.
    destruct (segs_value_split _ _ _ H) as [a [Ha1 Ha2]]. exists a. split; [exact Ha1|]. symmetry; exact Ha2.
  - apply qsegs_lit.
Qed.

(* literal source text without a delimiter that ends in a byte other than "{" *)
Lemma has_delim_cons c x : c <> "{"%char -> has_delim (c :: x) = has_delim x.
Proof.
  intros H. unfold has_delim. rewrite containsb_cons. change (B "{{") with LBR. bsimp.
  destruct (Ascii.eqb_spec "{" c); [congruence|reflexivity].
Qed.
Lemma has_delim_snoc_other x e : e <> "{"%char -> has_delim (x ++ [e]) = has_delim x.
Proof.
  intros H. rewrite has_delim_snoc. apply Ascii.eqb_neq in H. rewrite H. cbn [andb]. apply orb_false_r.
Qed.

Lemma lex_closed y e : e <> "{"%char -> has_delim (y ++ [e]) = false ->
  forall acc k, lex_text false acc ((y ++ [e]) ++ k) = lex_text false (e :: rev y ++ acc) k.
Proof.
  intros He. induction y as [|c y IH]; intros Hd acc k.
  - cbn [app rev]. apply lex_text_other; exact He.
  - cbn [app rev] in *. rewrite <- (app_assoc (rev y) [c] acc). cbn [app].
    destruct (Ascii.eqb_spec c "{") as [->|Hc].
    + assert (Hn : exists d rest, (y ++ [e]) ++ k = d :: rest /\ d <> "{"%char).
      { destruct y as [|d y'].
        - exists e, k. split; [reflexivity|exact He].
        - exists d, ((y' ++ [e]) ++ k). split; [reflexivity|].
          unfold has_delim in Hd. rewrite containsb_cons in Hd. apply orb_false_iff in Hd. destruct Hd as [Hp _].
          change (B "{{") with LBR in Hp. bsimp. destruct (Ascii.eqb_spec "{" d); [discriminate|congruence]. }
      destruct Hn as [d [rest [Hn1 Hn2]]].
      rewrite Hn1, lex_text_brace by exact Hn2. rewrite <- Hn1. apply IH.
      unfold has_delim in *. rewrite containsb_cons in Hd. apply orb_false_iff in Hd. tauto.
    + rewrite lex_text_other by exact Hc. rewrite has_delim_cons in Hd by exact Hc. apply IH. exact Hd.
Qed.

Lemma renders_closed y e : e <> "{"%char -> has_delim (y ++ [e]) = false -> renders (y ++ [e]) (y ++ [e]).
Proof.
  intros He Hd acc. exists [], (e :: rev y ++ acc). split; [|split].
  - intros k. rewrite oapp_nil. apply lex_closed; assumption.
  - exists []. split; [reflexivity|]. cbn [app rev]. rewrite rev_app_distr, rev_involutive, <- app_assoc. reflexivity.
  - reflexivity.
Qed.

(* ---- what a static token prints (the token-level twin of seg_value) ----------------------------------- *)
Definition tok_value (t : tok) : option bytes :=
  match t with
  | TText s => Some s
  | TAct _ false false (AcPipe ([], [[AStr x]])) => Some x
  | _ => None
  end.
Fixpoint toks_value (ts : list tok) : option bytes :=
  match ts with
  | [] => Some []
  | t :: r => match tok_value t, toks_value r with Some a, Some b => Some (a ++ b) | _, _ => None end
  end.

Lemma toks_value_app l1 l2 a b :
  toks_value l1 = Some a -> toks_value l2 = Some b -> toks_value (l1 ++ l2) = Some (a ++ b).
Proof.
  revert a; induction l1 as [|g l IH]; intros a H1 H2; simpl in *.
  - inversion H1; subst; exact H2.
  - destruct (tok_value g) as [v|]; [|discriminate].
    destruct (toks_value l) as [w|]; [|discriminate]. inversion H1; subst.
    rewrite (IH w eq_refl H2). rewrite app_assoc. reflexivity.
Qed.

Lemma toks_value_flush acc : toks_value (flush acc) = Some (rev acc).
Proof. destruct acc; [reflexivity|]. cbn [flush toks_value tok_value]. rewrite app_nil_r. reflexivity. Qed.

Lemma toks_value_ttoks t : forall acc, toks_value (ttoks acc t) = Some (rev acc ++ flat LBR RBR t).
Proof.
  induction t as [|x r IH]; intros acc.
  - cbn [ttoks flat flat_map]. rewrite toks_value_flush, app_nil_r. reflexivity.
  - destruct x as [c| |]; cbn [ttoks]; rewrite flat_cons; cbn [piece].
    + destruct (Ascii.eqb c "{" && quoted_next true r) eqn:E.
      * apply andb_true_iff in E. destruct E as [Ec _]. apply Ascii.eqb_eq in Ec. subst c.
        apply toks_value_app; [apply toks_value_flush|].
        cbn [toks_value]. rewrite IH. reflexivity.
      * rewrite IH. cbn [rev]. rewrite <- app_assoc. reflexivity.
    + apply toks_value_app; [apply toks_value_flush|]. cbn [toks_value]. rewrite IH. reflexivity.
    + apply toks_value_app; [apply toks_value_flush|]. cbn [toks_value]. rewrite IH. reflexivity.
Qed.

Lemma toks_value_text s : toks_value (text_toks (quote_text s)) = Some s.
Proof.
  unfold text_toks. rewrite quote_text_rend. rewrite tt_rend; [|apply nf_tokz|lia].
  rewrite toks_value_ttoks, flat_tokz. reflexivity.
Qed.

(* ---- induction over static trees ------------------------------------------------------------------- *)
Definition list_size : list pnode -> nat :=
  fix go (l : list pnode) : nat := match l with [] => 0 | x :: r => pnode_size x + go r end.
Lemma pnode_size_tag n i a ab b : pnode_size (PTag n i a ab b) = S (list_size b).
Proof. reflexivity. Qed.
Lemma pnode_size_block l : pnode_size (PBlock l) = S (list_size l).
Proof. reflexivity. Qed.
Lemma list_size_cons x r : list_size (x :: r) = pnode_size x + list_size r.
Proof. reflexivity. Qed.

Lemma static_ind (P : pnode -> Prop) :
  (forall name i body, Forall P body -> forallb static body = true -> P (PTag name i [] [] body)) ->
  (forall s, P (PText s)) -> (forall v, P (PDoctype v)) -> P PComment ->
  (forall l, Forall P l -> forallb static l = true -> P (PBlock l)) ->
  forall n, static n = true -> P n.
Proof.
  intros Htag Htext Hdoc Hcom Hblock.
  assert (H : forall k n, pnode_size n < k -> static n = true -> P n).
  { induction k as [|k IH]; intros n Hk Hs; [lia|].
    assert (Hl : forall l, list_size l < k -> forallb static l = true -> Forall P l).
    { induction l as [|x r IHl]; intros Hsz Hst; [constructor|].
      rewrite list_size_cons in Hsz. cbn [forallb] in Hst. apply andb_true_iff in Hst. destruct Hst as [Hx Hr].
      constructor; [apply IH; [lia|exact Hx]|apply IHl; [lia|exact Hr]]. }
    destruct n; try discriminate Hs; auto.
    - destruct attrs; [|discriminate Hs]. destruct ablocks; [|discriminate Hs].
      rewrite pnode_size_tag in Hk. cbn [static] in Hs. apply Htag; [apply Hl; [lia|exact Hs]|exact Hs].
    - rewrite pnode_size_block in Hk. cbn [static] in Hs. apply Hblock; [apply Hl; [lia|exact Hs]|exact Hs]. }
  intros n. apply (H (S (pnode_size n))). lia.
Qed.

(* ---- the void table of the Go source is HTML's ------------------------------------------------------- *)
Lemma mem_ext n l1 l2 : (forall x, In x l1 <-> In x l2) -> mem n l1 = mem n l2.
Proof.
  intros H. destruct (mem n l2) eqn:E2.
  - apply mem_In. apply H. apply mem_In. exact E2.
  - apply mem_false_In. intros Hin. apply H in Hin. apply mem_In in Hin. congruence.
Qed.

Lemma is_void_spec name : is_void name = void_el name.
Proof.
  unfold is_void, void_el. apply mem_ext. intros x.
  unfold self_closing_tags, void_elements. simpl. tauto.
Qed.

(* ---- the proven domain -------------------------------------------------------------------------------- *)
(* tag names and doctype values contain no "{{"; no element is called script (F-C06-e: its body is
   wrapped in line feeds when it contains one) *)
Definition name_ok (name : bytes) : bool := negb (has_delim name) && negb (beqb name (B "script")).
Fixpoint names_ok (n : pnode) : bool :=
  match n with
  | PTag name _ _ _ body => name_ok name && forallb names_ok body
  | PDoctype v => negb (has_delim v)
  | PBlock l => forallb names_ok l
  | _ => true
  end.

Definition cnodes_fix (funcs : list bytes) (f : nat) :=
  fix go (raw0 : bool) (st0 : cstate) (l : list pnode) {struct l} : option (list tok * bool * cstate) :=
    match l with
    | [] => Some ([], raw0, st0)
    | x0 :: r =>
      match cnode funcs false f raw0 st0 x0 with
      | Some (a, raw1, st1) =>
        match go raw1 st1 r with
        | Some (b, raw2, st2) => Some (a ++ b, raw2, st2)
        | None => None
        end
      | None => None
      end
    end.
Lemma cnodes_fix_cons funcs f raw st x r :
  cnodes_fix funcs f raw st (x :: r) =
  match cnode funcs false f raw st x with
  | Some (a, raw1, st1) =>
    match cnodes_fix funcs f raw1 st1 r with
    | Some (b, raw2, st2) => Some (a ++ b, raw2, st2)
    | None => None
    end
  | None => None
  end.
Proof. reflexivity. Qed.

Definition static_compiles (funcs : list bytes) (n : pnode) : Prop :=
  forall fuel raw st, pnode_size n < fuel -> names_ok n = true ->
  exists ts, cnode funcs false fuel raw st n = Some (ts, raw, st) /\ renders (show_toks ts) (html_ser1 n) /\
             toks_value ts = Some (html_ser1 n).

Lemma cnodes_static funcs f l :
  Forall (static_compiles funcs) l -> forall raw st, list_size l < f -> forallb names_ok l = true ->
  exists ts, cnodes_fix funcs f raw st l = Some (ts, raw, st) /\ renders (show_toks ts) (flat_map html_ser1 l) /\
             toks_value ts = Some (flat_map html_ser1 l).
Proof.
  induction 1 as [|x r Hx Hr IH]; intros raw st Hsz Hn.
  - exists []. split; [reflexivity|split; [apply renders_nil|reflexivity]].
  - rewrite list_size_cons in Hsz. cbn [forallb] in Hn. apply andb_true_iff in Hn. destruct Hn as [Hnx Hnr].
    destruct (Hx f raw st ltac:(lia) Hnx) as [ta [Ea [Ra Va]]].
    destruct (IH raw st ltac:(lia) Hnr) as [tb [Eb [Rb Vb]]].
    exists (ta ++ tb). split; [|split].
    + rewrite cnodes_fix_cons, Ea, Eb. reflexivity.
    + rewrite show_toks_app. cbn [flat_map]. apply renders_app; assumption.
    + cbn [flat_map]. apply toks_value_app; assumption.
Qed.

Lemma has_delim_pre p x :
  forallb (fun c => negb (Ascii.eqb c "{")) p = true -> has_delim (p ++ x) = has_delim x.
Proof.
  induction p as [|c p IH]; intros H; [reflexivity|].
  cbn [forallb] in H. apply andb_true_iff in H. destruct H as [Hc Hp].
  cbn [app]. rewrite has_delim_cons; [apply IH; exact Hp|].
  apply negb_true_iff in Hc. apply Ascii.eqb_neq. exact Hc.
Qed.

Lemma renders_open name : has_delim name = false -> renders (B "<" ++ name ++ B ">") (B "<" ++ name ++ B ">").
Proof.
  intros H. change (B "<" ++ name ++ B ">") with (("<"%char :: name) ++ [">"%char]).
  apply renders_closed; [discriminate|].
  rewrite has_delim_snoc_other by discriminate. rewrite has_delim_cons by discriminate. exact H.
Qed.
Lemma renders_close name : has_delim name = false -> renders (B "</" ++ name ++ B ">") (B "</" ++ name ++ B ">").
Proof.
  intros H. change (B "</" ++ name ++ B ">") with (("<"%char :: "/"%char :: name) ++ [">"%char]).
  apply renders_closed; [discriminate|].
  rewrite has_delim_snoc_other by discriminate. rewrite !has_delim_cons by discriminate. exact H.
Qed.
Lemma renders_doctype v :
  has_delim v = false ->
  renders (B "<!DOCTYPE " ++ v ++ B ">" ++ Compile.nl) (B "<!DOCTYPE " ++ v ++ B ">" ++ Compile.nl).
Proof.
  intros H.
  replace (B "<!DOCTYPE " ++ v ++ B ">" ++ Compile.nl) with ((B "<!DOCTYPE " ++ v ++ B ">") ++ [LF]).
  2:{ rewrite <- !app_assoc. reflexivity. }
  apply renders_closed; [discriminate|].
  rewrite has_delim_snoc_other by discriminate.
  rewrite has_delim_pre by reflexivity. change (B ">") with [">"%char].
  rewrite has_delim_snoc_other by discriminate. exact H.
Qed.

Lemma cnode_static funcs n : static n = true -> static_compiles funcs n.
Proof.
  revert n. apply static_ind.
  - (* Tag *)
    intros name i body Hb _ fuel raw st Hf Hn.
    destruct fuel as [|f]; [lia|]. rewrite pnode_size_tag in Hf.
    cbn [names_ok] in Hn. apply andb_true_iff in Hn. destruct Hn as [Hname Hbody].
    unfold name_ok in Hname. apply andb_true_iff in Hname. destruct Hname as [Hd Hsc].
    apply negb_true_iff in Hd. apply negb_true_iff in Hsc.
    destruct (cnodes_static funcs f body Hb raw st ltac:(lia) Hbody) as [bt [Eb [Rb Vb]]].
    cbn [cnode]. fold (cnodes_fix funcs f). rewrite Hd, Eb.
    change (cattrs funcs [] []) with (Some (@nil tok)). cbv iota.
    rewrite is_void_spec, Hsc. cbn [andb]. rewrite !andb_false_r.
    cbn [html_ser1]. destruct (void_el name).
    + eexists. split; [reflexivity|]. split.
      2:{ cbn [app toks_value tok_value tx]. rewrite !app_nil_r, <- app_assoc. reflexivity. }
      cbn [app show_toks flat_map tok_text tx]. rewrite !app_nil_r.
      rewrite <- app_assoc. apply (renders_open name Hd).
    + eexists. split; [reflexivity|]. split.
      2:{ rewrite !app_nil_r.
          change (TText (B "<" ++ name) :: [] ++ [tx ">"]) with [TText (B "<" ++ name); tx ">"].
          replace (B "<" ++ name ++ B ">" ++ flat_map html_ser1 body ++ B "</" ++ name ++ B ">")
            with ((B "<" ++ name ++ B ">") ++ flat_map html_ser1 body ++ (B "</" ++ name ++ B ">"))
            by (rewrite <- !app_assoc; reflexivity).
          apply toks_value_app.
          - cbn [toks_value tok_value tx]. rewrite app_nil_r, <- app_assoc. reflexivity.
          - apply toks_value_app; [exact Vb|]. cbn [toks_value tok_value]. rewrite app_nil_r. reflexivity. }
      rewrite !app_nil_r. rewrite !show_toks_app.
      change (show_toks (TText (B "<" ++ name) :: [] ++ [tx ">"])) with ((B "<" ++ name) ++ B ">" ++ []).
      change (show_toks [TText (B "</" ++ name ++ B ">")]) with ((B "</" ++ name ++ B ">") ++ []).
      rewrite !app_nil_r.
      replace ((B "<" ++ name) ++ B ">") with (B "<" ++ name ++ B ">") by (rewrite <- app_assoc; reflexivity).
      replace (B "<" ++ name ++ B ">" ++ flat_map html_ser1 body ++ B "</" ++ name ++ B ">")
        with ((B "<" ++ name ++ B ">") ++ flat_map html_ser1 body ++ (B "</" ++ name ++ B ">")).
      2:{ rewrite <- !app_assoc. reflexivity. }
      apply renders_app; [apply renders_open; exact Hd|].
      apply renders_app; [exact Rb|apply renders_close; exact Hd].
  - (* Text *)
    intros s fuel raw st Hf _. destruct fuel as [|f]; [lia|].
    cbn [cnode]. rewrite ctext_total. eexists. split; [reflexivity|]. split; [|apply toks_value_text].
    rewrite show_text_toks. apply renders_text.
  - (* Doctype *)
    intros v fuel raw st Hf Hn. destruct fuel as [|f]; [lia|].
    cbn [names_ok] in Hn. apply negb_true_iff in Hn.
    cbn [cnode]. rewrite Hn. eexists. split; [reflexivity|]. split.
    2:{ cbn [toks_value tok_value html_ser1]. rewrite app_nil_r. reflexivity. }
    cbn [show_toks flat_map tok_text html_ser1]. rewrite app_nil_r. apply renders_doctype; exact Hn.
  - (* Comment *)
    intros fuel raw st Hf _. destruct fuel as [|f]; [lia|].
    exists []. split; [reflexivity|split; [apply renders_nil|reflexivity]].
  - (* Block *)
    intros l Hl _ fuel raw st Hf Hn. destruct fuel as [|f]; [lia|]. rewrite pnode_size_block in Hf.
    cbn [names_ok] in Hn.
    destruct (cnodes_static funcs f l Hl raw st ltac:(lia) Hn) as [ts [E R]].
    exists ts. split; [|exact R]. cbn [cnode]. fold (cnodes_fix funcs f). exact E.
Qed.

(* ---- the static theorems -------------------------------------------------------------------------------- *)
Theorem static_compile funcs nodes :
  forallb static nodes = true -> forallb names_ok nodes = true ->
  exists ts, compile funcs false nodes = Some ts /\ renders (show_toks ts) (html_ser nodes) /\
             toks_value ts = Some (html_ser nodes).
Proof.
  intros Hs Hn.
  assert (Hb : static (PBlock nodes) = true) by exact Hs.
  destruct (cnode_static funcs (PBlock nodes) Hb (S (S (pnode_size (PBlock nodes)))) false cs0
                         ltac:(lia) Hn) as [ts [E R]].
  exists ts. split; [|exact R].
  unfold compile. rewrite E. cbn [cs_blocks cs_mixins cs0 concat flat_map]. rewrite !app_nil_r. reflexivity.
Qed.

(* the emitted template source, cut by the lexer, consists of text and string-literal actions only, and
   what they print, in order, is the HTML serialisation of the tree *)
Theorem static_bytes funcs nodes :
  forallb static nodes = true -> forallb names_ok nodes = true ->
  exists ts l, compile funcs false nodes = Some ts /\ segment (show_toks ts) = Some l /\
               segs_value l = Some (html_ser nodes) /\ forallb lit_seg l = true.
Proof.
  intros Hs Hn. destruct (static_compile funcs nodes Hs Hn) as [ts [E [R _]]].
  destruct (R []) as [l [p [Hk [[w [Hw Hv]] Hl]]]].
  exists ts, (l ++ emit_text (rev p) []). split; [exact E|]. split; [|split].
  - unfold segment. rewrite <- (app_nil_r (show_toks ts)), Hk. reflexivity.
  - rewrite (segs_value_app l (emit_text (rev p) []) w (rev p) Hw).
    + rewrite Hv. reflexivity.
    + rewrite (segs_value_emit (rev p) [] []) by reflexivity. rewrite app_nil_r. reflexivity.
  - rewrite forallb_app, Hl. apply forallb_emit_text; reflexivity.
Qed.

(* lit_seg items carry no trim marker: nothing is trimmed in a static tree *)
Lemma lit_seg_no_marker g : lit_seg g = true -> seg_has_marker g = false.
Proof. destruct g as [|[|] b [|]]; cbn; intros; try discriminate; reflexivity. Qed.

(* ---- the specification is well-formed -------------------------------------------------------------------- *)
Lemma ser_events_app a b : ser_events (a ++ b) = ser_events a ++ ser_events b.
Proof. unfold ser_events. apply flat_map_app. Qed.

Lemma ser_events1 n : static n = true -> ser_events (events1 n) = html_ser1 n.
Proof.
  revert n. apply static_ind.
  - intros name i body Hb _. cbn [events1 html_ser1]. destruct (void_el name).
    + cbn. rewrite app_nil_r. reflexivity.
    + change (EOpen name :: flat_map events1 body ++ [EClose name])
        with ([EOpen name] ++ flat_map events1 body ++ [EClose name]).
      rewrite !ser_events_app. cbn [ser_events flat_map ser_event]. rewrite !app_nil_r.
      assert (E : ser_events (flat_map events1 body) = flat_map html_ser1 body).
      { induction Hb as [|x r Hx Hr IH]; [reflexivity|].
        cbn [flat_map]. rewrite ser_events_app, Hx, IH. reflexivity. }
      rewrite E, <- !app_assoc. reflexivity.
  - intros s. cbn. rewrite app_nil_r. reflexivity.
  - intros v. cbn [events1 ser_events flat_map ser_event html_ser1]. rewrite app_nil_r. reflexivity.
  - reflexivity.
  - intros l Hl _. cbn [events1 html_ser1].
    induction Hl as [|x r Hx Hr IH]; [reflexivity|].
    cbn [flat_map]. rewrite ser_events_app, Hx, IH. reflexivity.
Qed.

Lemma ser_events_html nodes : forallb static nodes = true -> ser_events (events nodes) = html_ser nodes.
Proof.
  intros H. unfold events, html_ser. induction nodes as [|x r IH]; [reflexivity|].
  cbn [forallb] in H. apply andb_true_iff in H. destruct H as [Hx Hr].
  cbn [flat_map]. rewrite ser_events_app, (ser_events1 x Hx), (IH Hr). reflexivity.
Qed.

Lemma balanced1 n : static n = true -> forall stack rest, balanced stack (events1 n ++ rest) = balanced stack rest.
Proof.
  revert n. apply (static_ind (fun n => forall stack rest, balanced stack (events1 n ++ rest) = balanced stack rest)).
  - intros name i body Hb _ stack rest. cbn [events1]. destruct (void_el name) eqn:Ev.
    + cbn [app balanced]. rewrite Ev. reflexivity.
    + cbn [app balanced]. rewrite Ev. cbn [negb andb]. rewrite <- app_assoc.
      assert (E : forall st rs, balanced st (flat_map events1 body ++ rs) = balanced st rs).
      { induction Hb as [|x r Hx Hr IH]; intros st rs; [reflexivity|].
        cbn [flat_map]. rewrite <- app_assoc, Hx. apply IH. }
      rewrite E. cbn [app balanced]. rewrite beqb_refl. reflexivity.
  - reflexivity.
  - reflexivity.
  - reflexivity.
  - intros l Hl _ stack rest. cbn [events1].
    induction Hl as [|x r Hx Hr IH]; [reflexivity|].
    cbn [flat_map]. rewrite <- app_assoc, Hx. apply IH.
Qed.

Lemma no_doctype_events1 n :
  static n = true -> has_doctype n = false -> existsb is_doctype (events1 n) = false.
Proof.
  revert n. apply (static_ind (fun n => has_doctype n = false -> existsb is_doctype (events1 n) = false)).
  - intros name i body Hb _ Hd. cbn [events1 has_doctype] in *. destruct (void_el name); [reflexivity|].
    cbn [existsb is_doctype orb]. rewrite existsb_app. cbn [existsb is_doctype]. rewrite !orb_false_r.
    induction Hb as [|x r Hx Hr IH]; [reflexivity|].
    cbn [existsb] in Hd. apply orb_false_iff in Hd. destruct Hd as [Hdx Hdr].
    cbn [flat_map]. rewrite existsb_app, (Hx Hdx), (IH Hdr). reflexivity.
  - reflexivity.
  - intros v H. discriminate H.
  - reflexivity.
  - intros l Hl _ Hd. cbn [events1 has_doctype] in *.
    induction Hl as [|x r Hx Hr IH]; [reflexivity|].
    cbn [existsb] in Hd. apply orb_false_iff in Hd. destruct Hd as [Hdx Hdr].
    cbn [flat_map]. rewrite existsb_app, (Hx Hdx), (IH Hdr). reflexivity.
Qed.

Lemma no_doctype_events l :
  forallb static l = true -> existsb has_doctype l = false -> existsb is_doctype (events l) = false.
Proof.
  unfold events. induction l as [|x r IH]; intros Hs Hd; [reflexivity|].
  cbn [forallb] in Hs. apply andb_true_iff in Hs. destruct Hs as [Hsx Hsr].
  cbn [existsb] in Hd. apply orb_false_iff in Hd. destruct Hd as [Hdx Hdr].
  cbn [flat_map]. rewrite existsb_app, (no_doctype_events1 x Hsx Hdx), (IH Hsr Hdr). reflexivity.
Qed.

Lemma balanced_list l : forallb static l = true ->
  forall stack rest, balanced stack (flat_map events1 l ++ rest) = balanced stack rest.
Proof.
  induction l as [|x r IH]; intros Hs stack rest; [reflexivity|].
  cbn [forallb] in Hs. apply andb_true_iff in Hs. destruct Hs as [Hsx Hsr].
  cbn [flat_map]. rewrite <- app_assoc, (balanced1 x Hsx). apply IH; exact Hsr.
Qed.

(* the serialisation of a static tree: every element that is opened is closed in order, void elements
   have neither content nor end tag, the doctype (declared as the first node) is the first thing *)
Theorem html_ser_wf nodes :
  forallb static nodes = true -> doctype_ok nodes = true ->
  ser_events (events nodes) = html_ser nodes /\ wf_html (events nodes) = true.
Proof.
  intros Hs Hd. split; [apply ser_events_html; exact Hs|].
  unfold wf_html. apply andb_true_iff. split.
  - unfold events. rewrite <- (app_nil_r (flat_map events1 nodes)).
    rewrite (balanced_list nodes Hs). reflexivity.
  - destruct nodes as [|x r]; [reflexivity|].
    cbn [forallb] in Hs. apply andb_true_iff in Hs. destruct Hs as [Hsx Hsr].
    destruct x; try discriminate Hsx.
    + (* Tag first *)
      cbn [doctype_ok] in Hd. apply negb_true_iff in Hd.
      pose proof (no_doctype_events (PTag name inline attrs ablocks body :: r)) as H.
      cbn [forallb] in H. rewrite Hsx, Hsr in H. specialize (H eq_refl Hd).
      unfold events in *. cbn [flat_map] in *.
      destruct (events1 (PTag name inline attrs ablocks body) ++ flat_map events1 r) as [|e es] eqn:E; [reflexivity|].
      cbn [doctype_first]. cbn [existsb] in H. apply orb_false_iff in H. destruct H as [_ H]. rewrite H. reflexivity.
    + (* Text first *)
      cbn [doctype_ok] in Hd. apply negb_true_iff in Hd. cbn [existsb has_doctype orb] in Hd.
      pose proof (no_doctype_events r Hsr Hd) as H. unfold events in *.
      cbn [flat_map events1 app doctype_first]. rewrite H. reflexivity.
    + (* Doctype first *)
      cbn [doctype_ok] in Hd. apply negb_true_iff in Hd.
      pose proof (no_doctype_events r Hsr Hd) as H. unfold events in *.
      cbn [flat_map events1 app doctype_first]. rewrite H. reflexivity.
    + (* Block first *)
      cbn [doctype_ok] in Hd. apply negb_true_iff in Hd.
      pose proof (no_doctype_events (PBlock nodes :: r)) as H.
      cbn [forallb] in H. rewrite Hsx, Hsr in H. specialize (H eq_refl Hd).
      unfold events in *. cbn [flat_map] in *.
      destruct (events1 (PBlock nodes) ++ flat_map events1 r) as [|e es] eqn:E; [reflexivity|].
      cbn [doctype_first]. cbn [existsb] in H. apply orb_false_iff in H. destruct H as [_ H]. rewrite H. reflexivity.
    + (* Comment first *)
      cbn [doctype_ok] in Hd. apply negb_true_iff in Hd. cbn [existsb has_doctype orb] in Hd.
      unfold events. cbn [flat_map events1 app].
      pose proof (no_doctype_events r Hsr Hd) as H. unfold events in H.
      destruct (flat_map events1 r) as [|e es]; [reflexivity|].
      cbn [doctype_first]. cbn [existsb] in H. apply orb_false_iff in H. destruct H as [_ H]. rewrite H. reflexivity.
Qed.

(* ================================================================================================== *)
(* Part D  trim markers                                                                                *)
(* ================================================================================================== *)
(* D.1  what the lexer's trimming can do to a token list, whatever the list *)
Lemma trim_left_spec s : exists l, s = l ++ trim_left s /\ forallb is_space l = true.
Proof.
  induction s as [|c r [l [E H]]]; [exists []; split; reflexivity|].
  cbn [trim_left]. destruct (is_space c) eqn:Ec.
  - exists (c :: l). cbn [app forallb]. rewrite Ec, H. split; [f_equal; exact E|reflexivity].
  - exists []. split; reflexivity.
Qed.

Lemma forallb_rev {A} (f : A -> bool) l : forallb f (rev l) = forallb f l.
Proof.
  induction l as [|a l IH]; [reflexivity|].
  cbn [rev forallb]. rewrite forallb_app, IH. cbn [forallb]. rewrite andb_true_r. apply andb_comm.
Qed.

Lemma trim_right_spec s : exists r, s = trim_right s ++ r /\ forallb is_space r = true.
Proof.
  unfold trim_right. destruct (trim_left_spec (rev s)) as [l [E H]].
  exists (rev l). split; [|rewrite forallb_rev; exact H].
  rewrite <- rev_app_distr, <- E, rev_involutive. reflexivity.
Qed.

(* a text loses white space at its left edge only when the action before it has a right trim marker [pl],
   at its right edge only when the action after it has a left trim marker [nr]; nothing else *)
Definition edge_trim (pl nr : bool) (s s' : bytes) : Prop :=
  exists l r, s = l ++ s' ++ r /\ forallb is_space l = true /\ forallb is_space r = true /\
              (pl = false -> l = []) /\ (nr = false -> r = []).
Definition next_ltrim (ts : list tok) : bool := match ts with t :: _ => act_ltrim t | [] => false end.
Definition emit_tok (s : bytes) (out : list tok) : list tok := match s with [] => out | _ => TText s :: out end.

Inductive trims_rel : bool -> list tok -> list tok -> Prop :=
| tr_nil p : trims_rel p [] []
| tr_act p txt l r a ts out :
    trims_rel r ts out -> trims_rel p (TAct txt l r a :: ts) (TAct txt l r a :: out)
| tr_text p s s' ts out :
    edge_trim p (next_ltrim ts) s s' -> trims_rel false ts out ->
    trims_rel p (TText s :: ts) (emit_tok s' out).

Theorem apply_trims_rel ts : forall p, trims_rel p ts (apply_trims p ts).
Proof.
  induction ts as [|t r IH]; intros p; [constructor|].
  destruct t as [s|txt l rt a].
  - cbn [apply_trims].
    set (s1 := if p then trim_left s else s).
    set (s2 := match r with t :: _ => if act_ltrim t then trim_right s1 else s1 | [] => s1 end).
    assert (H : edge_trim p (next_ltrim r) s s2).
    { assert (H1 : exists l, s = l ++ s1 /\ forallb is_space l = true /\ (p = false -> l = [])).
      { unfold s1. destruct p.
        - destruct (trim_left_spec s) as [l [E H]]. exists l. repeat split; [exact E|exact H|discriminate].
        - exists []. repeat split; reflexivity. }
      destruct H1 as [l [E1 [Hl Hp]]].
      assert (H2 : exists r', s1 = s2 ++ r' /\ forallb is_space r' = true /\ (next_ltrim r = false -> r' = [])).
      { unfold s2, next_ltrim. destruct r as [|t r'].
        - exists []. rewrite app_nil_r. repeat split; reflexivity.
        - destruct (act_ltrim t).
          + destruct (trim_right_spec s1) as [x [E H]]. exists x. repeat split; [exact E|exact H|discriminate].
          + exists []. rewrite app_nil_r. repeat split; reflexivity. }
      destruct H2 as [r' [E2 [Hr Hn]]].
      exists l, r'. repeat split; try assumption. rewrite E1, E2. reflexivity. }
    assert (Hout : match s2 with [] => apply_trims false r | _ => TText s2 :: apply_trims false r end
                   = emit_tok s2 (apply_trims false r)) by (destruct s2; reflexivity).
    rewrite Hout. apply tr_text; [exact H|apply IH].
  - cbn [apply_trims act_rtrim]. apply tr_act. apply IH.
Qed.

(* consequences: a program without trim markers keeps every byte of every text ... *)
Definition marker_free (t : tok) : bool := negb (act_ltrim t || act_rtrim t).
Lemma apply_trims_marker_free ts :
  forallb marker_free ts = true -> apply_trims false ts = filter (fun t => match t with TText [] => false | _ => true end) ts.
Proof.
  induction ts as [|t r IH]; intros H; [reflexivity|].
  cbn [forallb] in H. apply andb_true_iff in H. destruct H as [Ht Hr].
  destruct t as [s|txt l rt a].
  - cbn [apply_trims filter].
    assert (E : match r with t :: _ => if act_ltrim t then trim_right s else s | [] => s end = s).
    { destruct r as [|t r']; [reflexivity|]. cbn [forallb] in Hr. apply andb_true_iff in Hr. destruct Hr as [Ht' _].
      unfold marker_free in Ht'. apply negb_true_iff, orb_false_iff in Ht'. destruct Ht' as [-> _]. reflexivity. }
    rewrite E. destruct s; rewrite (IH Hr); reflexivity.
  - unfold marker_free in Ht. cbn [act_ltrim act_rtrim] in Ht. apply negb_true_iff, orb_false_iff in Ht.
    destruct Ht as [-> ->]. cbn [apply_trims act_rtrim filter]. rewrite (IH Hr). reflexivity.
Qed.

(* ... and in any program the actions come through untouched and in order *)
Definition is_act (t : tok) : bool := match t with TAct _ _ _ _ => true | TText _ => false end.
Lemma apply_trims_actions ts : forall p, filter is_act (apply_trims p ts) = filter is_act ts.
Proof.
  induction ts as [|t r IH]; intros p; [reflexivity|].
  destruct t as [s|txt l rt a].
  - cbn [apply_trims filter is_act].
    destruct (match r with t :: _ => if act_ltrim t then trim_right (if p then trim_left s else s)
                                     else (if p then trim_left s else s)
                         | [] => (if p then trim_left s else s) end); cbn [filter is_act]; apply IH.
  - cbn [apply_trims filter is_act]. rewrite IH. reflexivity.
Qed.

(* D.2  which tokens of a compiled program carry a trim marker *)
(* control actions: everything except a pipeline that PRINTS; `$o.__assign "k" v` is an assignment *)
Definition ctl_act (a : act) : bool :=
  match a with
  | AcPipe ([], [[APipe [] [(AVar _ [f] :: _)]]]) => beqb f (B "__assign")
  | AcPipe ([], _) => false
  | _ => true
  end.
(* a token with a trim marker is a control action: if / else if / else / end, range, define, template,
   a variable declaration or assignment; never text, never a printing action *)
Definition marker_ctl (t : tok) : bool :=
  match t with
  | TText _ => true
  | TAct _ l r a => negb (l || r) || ctl_act a
  end.

Section Markers.
  Variable funcs : list bytes.

  Lemma text_toks_markers fuel : forall s acc, forallb marker_ctl (text_toks_fuel fuel s acc) = true.
  Proof.
    assert (Hf : forall acc, forallb marker_ctl (flush acc) = true) by (intros [|? ?]; reflexivity).
    induction fuel as [|f IH]; intros s acc.
    - apply Hf.
    - destruct s as [|c r]; [apply Hf|]. rewrite tt_step.
      destruct (prefixb LO (c :: r)); [rewrite forallb_app, Hf; cbn [forallb marker_ctl]; apply IH|].
      destruct (prefixb LC (c :: r)); [rewrite forallb_app, Hf; cbn [forallb marker_ctl]; apply IH|].
      destruct (prefixb LB (c :: r)); [rewrite forallb_app, Hf; cbn [forallb marker_ctl]; apply IH|].
      apply IH.
  Qed.

  Lemma ctext_markers s ts : ctext s = Some ts -> forallb marker_ctl ts = true.
  Proof.
    unfold ctext. destruct (forallb _ _); [|discriminate]. intros H; inversion H; subst.
    apply text_toks_markers.
  Qed.

  Lemma cwrap_markers raw e ts : cwrap funcs raw e = Some ts -> forallb marker_ctl ts = true.
  Proof.
    intros H. destruct e; cbn [cwrap] in H;
      try (destruct (carg funcs true _) as [[t [a|]]|] eqn:Ec; inversion H; subst; reflexivity).
    - inversion H; subst; reflexivity.
    - inversion H; subst; reflexivity.
    - destruct (ctext (escape s)) as [[|t0 r0]|] eqn:Ec; inversion H; subst; [reflexivity|exact (ctext_markers _ _ Ec)].
    - inversion H; subst; reflexivity.
    - inversion H; subst; reflexivity.
    - (* JUn *)
      destruct op;
        try (destruct (negb (mem (op_name (unop_token _)) runtime_funcs)); [discriminate|];
             destruct (carg funcs true e) as [[t [a|]]|]; inversion H; subst; reflexivity);
        try discriminate.
      destruct e; try discriminate.
      destruct (negb (is_ident x) || known funcs x); inversion H; subst. reflexivity.
    - (* JAssign *)
      destruct op; [discriminate|].
      destruct e1; try discriminate.
      + destruct (negb (is_ident x) || known funcs x); [discriminate|].
        destruct (carg funcs true e2) as [[t a]|]; inversion H; subst. reflexivity.
      + destruct e1; try discriminate.
        destruct (negb (is_ident x) || known funcs x || negb (is_ident name)); [discriminate|].
        destruct (carg funcs true e2) as [[t a]|]; inversion H; subst. reflexivity.
    - discriminate.
    - (* JVar *)
      destruct (negb (is_ident x)); [discriminate|].
      destruct init as [i|].
      + destruct (carg funcs true i) as [[t a]|]; inversion H; subst. reflexivity.
      + inversion H; subst. reflexivity.
  Qed.

  Definition opt_P (P : jstmt -> Prop) (e : option jstmt) : Prop :=
    match e with Some x => P x | None => True end.
  Fixpoint jstmt_ind2 (P : jstmt -> Prop)
      (He : forall e, P (SExpr e)) (Hv : forall ds, P (SVar ds))
      (Hi : forall c t e, P t -> opt_P P e -> P (SIf c t e))
      (Hb : forall l, Forall P l -> P (SBlock l)) (Ho : P SOther) (s : jstmt) {struct s} : P s :=
    match s with
    | SExpr e => He e
    | SVar ds => Hv ds
    | SIf c t e =>
      Hi c t e (jstmt_ind2 P He Hv Hi Hb Ho t)
         (match e as e0 return opt_P P e0 with
          | Some x => jstmt_ind2 P He Hv Hi Hb Ho x
          | None => I
          end)
    | SBlock l =>
      Hb l ((fix go (l : list jstmt) : Forall P l :=
               match l with
               | [] => Forall_nil P
               | x :: r => Forall_cons x (jstmt_ind2 P He Hv Hi Hb Ho x) (go r)
               end) l)
    | SOther => Ho
    end.

  Lemma cstmt_markers s : forall raw ts, cstmt funcs raw s = Some ts -> forallb marker_ctl ts = true.
  Proof.
    induction s as [e|ds|c t e IHt IHe|l IHl|] using jstmt_ind2; intros raw ts H; cbn [cstmt] in H.
    - exact (cwrap_markers raw e ts H).
    - revert ts H. induction ds as [|d r IH]; intros ts H.
      + inversion H; subst; reflexivity.
      + destruct (cwrap funcs raw d) as [a|] eqn:Ea; [|discriminate].
        match type of H with match ?g with _ => _ end = _ => destruct g as [b|] eqn:Eb; [|discriminate] end.
        inversion H; subst. rewrite forallb_app, (cwrap_markers _ _ _ Ea), (IH b eq_refl). reflexivity.
    - destruct (carg funcs true c) as [[ct [ca|]]|]; try discriminate.
      destruct (cstmt funcs raw t) as [tq|] eqn:Et; [|discriminate].
      pose proof (IHt raw tq Et) as Htq.
      destruct e as [es|].
      + destruct (cstmt funcs raw es) as [et|] eqn:Ee; [|discriminate].
        pose proof (IHe raw et Ee) as Het.
        destruct et as [|e0 et'].
        * inversion H; subst. cbn [forallb marker_ctl]. rewrite forallb_app, Htq. reflexivity.
        * destruct (beqb (show_toks (e0 :: et')) (B "{{null}}")); inversion H; subst.
          -- cbn [forallb marker_ctl]. rewrite forallb_app, Htq. reflexivity.
          -- cbn [forallb marker_ctl]. rewrite forallb_app, Htq. cbn [forallb marker_ctl andb].
             cbn [forallb] in Het. apply andb_true_iff in Het. destruct Het as [H0 H1].
             rewrite H0, forallb_app, H1. reflexivity.
      + inversion H; subst. cbn [forallb marker_ctl]. rewrite forallb_app, Htq. reflexivity.
    - revert ts H. induction IHl as [|d r Hd Hr IH]; intros ts H.
      + inversion H; subst; reflexivity.
      + destruct (cstmt funcs raw d) as [a|] eqn:Ea; [|discriminate].
        match type of H with match ?g with _ => _ end = _ => destruct g as [b|] eqn:Eb; [|discriminate] end.
        inversion H; subst. rewrite forallb_app, (Hd _ _ Ea), (IH b eq_refl). reflexivity.
    - discriminate.
  Qed.

  Lemma ccode_markers raw stmts ts : ccode funcs false raw stmts = Some ts -> forallb marker_ctl ts = true.
  Proof.
    unfold ccode. generalize (Nat.ltb 1 (length stmts)) as many. intros many.
    revert ts. induction stmts as [|s r IH]; intros ts H.
    - inversion H; subst; reflexivity.
    - destruct (cstmt funcs raw s) as [a|] eqn:Ea; [|discriminate].
      match type of H with match ?g with _ => _ end = _ => destruct g as [b|] eqn:Eb; [|discriminate] end.
      inversion H; subst. cbn [andb app]. rewrite forallb_app, (cstmt_markers _ _ _ Ea), (IH b eq_refl). reflexivity.
  Qed.

  Lemma cattrs_markers attrs ab ts : cattrs funcs attrs ab = Some ts -> forallb marker_ctl ts = true.
  Proof.
    unfold cattrs. intros H.
    repeat match type of H with
           | context [match ?x with _ => _ end] => destruct x eqn:?; try discriminate H
           | context [if ?x then _ else _] => destruct x eqn:?; try discriminate H
           end; inversion H; subst; reflexivity.
  Qed.

  Lemma mixin_param_markers params ts : mixin_param_toks params = Some ts -> forallb marker_ctl ts = true.
  Proof.
    unfold mixin_param_toks. generalize (match params with [] => [[]] | _ :: _ => params end) as ps.
    generalize 0 as i. intros i ps. revert i ts. induction ps as [|p r IH]; intros i ts H.
    - inversion H; subst; reflexivity.
    - destruct (negb match p with [] => true | _ :: _ => is_ident p end); [discriminate|].
      match type of H with match ?g with _ => _ end = _ => destruct g as [b|] eqn:Eb; [|discriminate] end.
      inversion H; subst. cbn [forallb marker_ctl]. rewrite (IH _ _ Eb). reflexivity.
  Qed.
End Markers.

Section Markers2.
  Variable funcs : list bytes.

  (* the compile state: the mixin bodies and blocks collected so far *)
  Definition st_ok (st : cstate) : Prop :=
    forallb (forallb marker_ctl) (cs_blocks st) = true /\
    forallb (fun m => forallb marker_ctl (snd m)) (cs_mixins st) = true.

  Definition node_ok (f : nat) : Prop :=
    forall n raw st ts raw' st', st_ok st -> cnode funcs false f raw st n = Some (ts, raw', st') ->
    forallb marker_ctl ts = true /\ st_ok st'.

  Lemma cnodes_markers f : node_ok f ->
    forall l raw st ts raw' st', st_ok st -> cnodes_fix funcs f raw st l = Some (ts, raw', st') ->
    forallb marker_ctl ts = true /\ st_ok st'.
  Proof.
    intros Hok. induction l as [|x r IH]; intros raw st ts raw' st' Hst H.
    - inversion H; subst. split; [reflexivity|exact Hst].
    - rewrite cnodes_fix_cons in H.
      destruct (cnode funcs false f raw st x) as [[[a r1] s1]|] eqn:Ea; [|discriminate].
      destruct (cnodes_fix funcs f r1 s1 r) as [[[b r2] s2]|] eqn:Eb; [|discriminate].
      inversion H; subst.
      destruct (Hok _ _ _ _ _ _ Hst Ea) as [Ha Hs1]. destruct (IH _ _ _ _ _ Hs1 Eb) as [Hb Hs2].
      split; [rewrite forallb_app, Ha, Hb; reflexivity|exact Hs2].
  Qed.

  Definition case_fix (f : nat) (et : bytes) (ea : targ) :=
    fix go (raw : bool) (st : cstate) (first : bool) (l : list (option jexpr * list pnode))
      : option (list tok * bool * cstate) :=
      match l with
      | [] => Some ([], raw, st)
      | (None, _) :: r => go raw st first r
      | (Some w, body) :: r =>
        match carg funcs true w with
        | Some (wt, Some wa) =>
          match cnodes_fix funcs f raw st body with
          | Some (bt, raw1, st1) =>
            match go raw1 st1 false r with
            | Some (rest, raw2, st2) =>
              let p := ([], [[AIdent (B "__op__eql"); ea; wa]]) in
              let head :=
                if first then TAct (B "{{- if __op__eql " ++ et ++ sp ++ wt ++ B " }}") true false (AcIf p)
                else TAct (B "{{- else if __op__eql " ++ et ++ sp ++ wt ++ B " }}") true false (AcElseIf p) in
              Some (head :: bt ++ rest, raw2, st2)
            | None => None
            end
          | None => None
          end
        | _ => None
        end
      end.

  Lemma case_markers f et ea : node_ok f ->
    forall l raw st first ts raw' st', st_ok st -> case_fix f et ea raw st first l = Some (ts, raw', st') ->
    forallb marker_ctl ts = true /\ st_ok st'.
  Proof.
    intros Hok. induction l as [|[[w|] body] r IH]; intros raw st first ts raw' st' Hst H.
    - inversion H; subst. split; [reflexivity|exact Hst].
    - cbn [case_fix] in H. fold (case_fix f et ea) in H.
      destruct (carg funcs true w) as [[wt [wa|]]|]; try discriminate.
      destruct (cnodes_fix funcs f raw st body) as [[[bt r1] s1]|] eqn:Eb; [|discriminate].
      destruct (case_fix f et ea r1 s1 false r) as [[[rest r2] s2]|] eqn:Er; [|discriminate].
      inversion H; subst.
      destruct (cnodes_markers f Hok _ _ _ _ _ _ Hst Eb) as [Hb Hs1].
      destruct (IH _ _ _ _ _ _ Hs1 Er) as [Hr Hs2].
      split; [|exact Hs2]. cbn [forallb]. rewrite forallb_app, Hb, Hr. destruct first; reflexivity.
    - cbn [case_fix] in H. fold (case_fix f et ea) in H. exact (IH _ _ _ _ _ _ Hst H).
  Qed.
End Markers2.

Section Markers3.
  Variable funcs : list bytes.

  Ltac fin :=
    repeat (rewrite forallb_app || cbn [forallb app]);
    repeat match goal with
           | Hx : forallb marker_ctl ?l = true |- context [forallb marker_ctl ?l] => rewrite Hx
           end;
    reflexivity.

  Lemma cnode_markers fuel : node_ok funcs fuel.
  Proof.
    induction fuel as [|f IHf]; intros n raw st ts raw' st' Hst H; [discriminate|].
    pose proof (cnodes_markers funcs f IHf) as Hnodes.
    destruct n; cbn [cnode] in H; fold (cnodes_fix funcs f) in H.
    - (* Tag *)
      destruct (has_delim name); [discriminate|].
      destruct (cnodes_fix funcs f raw st body) as [[[bt r1] s1]|] eqn:Eb; [|discriminate].
      destruct (cattrs funcs attrs ablocks) as [at_|] eqn:Ea; [|discriminate].
      destruct (Hnodes _ _ _ _ _ _ Hst Eb) as [Hb Hs1].
      pose proof (cattrs_markers funcs _ _ _ Ea) as Hat.
      rewrite !andb_false_r in H.
      destruct (is_void name); [|destruct (beqb name (B "script") && _)];
        inversion H; subst; (split; [fin|exact Hs1]).
    - (* Text *)
      destruct (ctext s) as [t|] eqn:Et; [|discriminate]. inversion H; subst.
      split; [exact (ctext_markers s _ Et)|exact Hst].
    - (* Code *)
      destruct (ccode funcs false (negb must_escape) stmts) as [t|] eqn:Ec; [|discriminate]. inversion H; subst.
      split; [exact (ccode_markers funcs _ _ _ Ec)|exact Hst].
    - (* Conditional *)
      destruct (carg funcs true test) as [[tq [ta|]]|]; try discriminate.
      destruct (cnodes_fix funcs f raw st cons) as [[[ct r1] s1]|] eqn:Ec; [|discriminate].
      destruct (Hnodes _ _ _ _ _ _ Hst Ec) as [Hc Hs1].
      destruct alt as [a|].
      + destruct (cnode funcs false f r1 s1 a) as [[[at_ r2] s2]|] eqn:Ea; [|discriminate].
        inversion H; subst. destruct (IHf _ _ _ _ _ _ Hs1 Ea) as [Ha Hs2]. split; [fin|exact Hs2].
      + inversion H; subst. split; [fin|exact Hs1].
    - (* Case *)
      destruct (carg funcs true e) as [[et [ea|]]|]; try discriminate.
      destruct (negb _); [discriminate|].
      fold (case_fix funcs f et ea) in H.
      destruct (case_fix funcs f et ea raw st true whens) as [[[t1 r1] s1]|] eqn:Ew; [|discriminate].
      destruct (case_markers funcs f et ea IHf _ _ _ _ _ _ _ Hst Ew) as [Hw Hs1].
      destruct (fold_left _ whens None) as [body|].
      + destruct (cnodes_fix funcs f r1 s1 body) as [[[bt r2] s2]|] eqn:Eb; [|discriminate].
        inversion H; subst. destruct (Hnodes _ _ _ _ _ _ Hs1 Eb) as [Hb Hs2]. split; [fin|exact Hs2].
      + inversion H; subst. split; [fin|exact Hs1].
    - (* Each *)
      destruct (negb (is_ident v) || _); [discriminate|].
      destruct (carg funcs true obj) as [[ot [oa|]]|]; try discriminate.
      destruct (cnodes_fix funcs f raw st body) as [[[bt r1] s1]|] eqn:Eb; [|discriminate].
      inversion H; subst. destruct (Hnodes _ _ _ _ _ _ Hst Eb) as [Hb Hs1].
      split; [|exact Hs1]. destruct k; fin.
    - (* While *)
      destruct (carg funcs true test) as [[tq [ta|]]|]; try discriminate.
      destruct (cnodes_fix funcs f raw st body) as [[[bt r1] s1]|] eqn:Eb; [|discriminate].
      inversion H; subst. destruct (Hnodes _ _ _ _ _ _ Hst Eb) as [Hb Hs1]. split; [fin|exact Hs1].
    - (* Mixin definition *)
      destruct (negb (is_ident name)); [discriminate|].
      destruct (lookup name (cs_mixins st)); [inversion H; subst; split; [reflexivity|exact Hst]|].
      destruct (mixin_param_toks params) as [pt|] eqn:Ep; [|discriminate].
      destruct (cnodes_fix funcs f raw st body) as [[[bt r1] s1]|] eqn:Eb; [|discriminate].
      inversion H; subst. destruct (Hnodes _ _ _ _ _ _ Hst Eb) as [Hb [Hs1a Hs1b]].
      pose proof (mixin_param_markers _ _ Ep) as Hp.
      split; [reflexivity|]. split; cbn [cs_blocks cs_mixins]; [exact Hs1a|].
      rewrite forallb_app, Hs1b. cbn [forallb snd]. rewrite andb_true_r. fin.
    - (* Mixin call *)
      destruct (negb (is_ident name)); [discriminate|].
      match type of H with match ?g with _ => _ end = _ => destruct g as [[att ata]|] end; [|discriminate].
      destruct (cnodes_fix funcs f raw st body) as [[[bt r1] s1]|] eqn:Eb; [|discriminate].
      destruct (carg funcs true (JArr args)) as [[argt [arga|]]|]; try discriminate.
      destruct (Hnodes _ _ _ _ _ _ Hst Eb) as [Hb [Hs1a Hs1b]].
      destruct bt as [|b0 bt'].
      + inversion H; subst. split; [reflexivity|split; assumption].
      + destruct (beqb (show_toks (b0 :: bt')) []); [discriminate|].
        inversion H; subst. split; [reflexivity|]. split; cbn [cs_blocks cs_mixins]; [|exact Hs1b].
        rewrite forallb_app, Hs1a. cbn [forallb]. rewrite andb_true_r.
        cbn [forallb] in Hb. apply andb_true_iff in Hb. destruct Hb as [Hb0 Hb1].
        repeat (rewrite forallb_app || cbn [forallb app]). rewrite Hb0, Hb1. reflexivity.
    - (* Mixin block *)
      inversion H; subst. split; [reflexivity|exact Hst].
    - (* Doctype *)
      destruct (has_delim v); inversion H; subst. split; [reflexivity|exact Hst].
    - (* Block *)
      exact (Hnodes _ _ _ _ _ _ Hst H).
    - (* Comment *)
      inversion H; subst. split; [reflexivity|exact Hst].
  Qed.

  (* every token of a compiled production-mode program that carries a trim marker is a control action *)
  Theorem compile_markers nodes ts : compile funcs false nodes = Some ts -> forallb marker_ctl ts = true.
  Proof.
    unfold compile.
    destruct (cnode funcs false _ false cs0 (PBlock nodes)) as [[[main r1] s1]|] eqn:E; [|discriminate].
    intros H; inversion H; subst.
    assert (H0 : st_ok cs0) by (split; reflexivity).
    destruct (cnode_markers _ _ _ _ _ _ _ H0 E) as [Hm [Hb Hx]].
    rewrite !forallb_app, Hm. cbn [andb]. apply andb_true_iff. split.
    - clear -Hb. induction (cs_blocks s1) as [|b r IH]; [reflexivity|].
      cbn [forallb] in Hb. apply andb_true_iff in Hb. destruct Hb as [H1 H2].
      cbn [concat]. rewrite forallb_app, H1, (IH H2). reflexivity.
    - clear -Hx. induction (cs_mixins s1) as [|m r IH]; [reflexivity|].
      cbn [forallb] in Hx. apply andb_true_iff in Hx. destruct Hx as [H1 H2].
      cbn [flat_map]. cbn [app forallb marker_ctl]. rewrite forallb_app, H1, (IH H2). reflexivity.
  Qed.
End Markers3.

(* merging neighbouring texts (what the lexer sees) does not create marker-carrying tokens *)
Lemma merge_text_markers ts : forallb marker_ctl ts = true -> forallb marker_ctl (merge_text ts) = true.
Proof.
  induction ts as [|t r IH]; intros H; [reflexivity|].
  cbn [forallb] in H. apply andb_true_iff in H. destruct H as [Ht Hr]. specialize (IH Hr).
  destruct t as [a|txt l rt ac]; cbn [merge_text].
  - destruct (merge_text r) as [|[b|txt l rt ac] r']; [reflexivity|exact IH|].
    cbn [forallb marker_ctl]. exact IH.
  - cbn [forallb]. rewrite Ht, IH. reflexivity.
Qed.

(* C06_trim_only_ws: in every production-mode program the tokens that carry a trim marker are control
   actions, and lexing changes the token stream only by white space at the edge of a text that directly
   borders such a marker *)
Theorem trim_only_ws funcs nodes ts :
  compile funcs false nodes = Some ts ->
  forallb marker_ctl (merge_text ts) = true /\ trims_rel false (merge_text ts) (lexed ts).
Proof.
  intros H. split; [apply merge_text_markers; exact (compile_markers funcs nodes ts H)|].
  unfold lexed. apply apply_trims_rel.
Qed.

(* ================================================================================================== *)
(* Refuted forms, non-vacuity                                                                          *)
(* ================================================================================================== *)
Local Transparent replace_all.
(* the Text arm as it was in the original tree, and after the first repair only *)
Definition quote_text_v0 (s : bytes) : bytes :=
  replace_all M2 LC (replace_all M1 LO (replace_all RBR M2 (replace_all LBR M1 s))).
Definition quote_text_v1 (s : bytes) : bytes := fix_last (quote_text_v0 s).

(* F-C06-a: without the HasSuffix rule a text ending in "{" forms a delimiter with the action that follows:
   the items are NOT those of the text followed by those of the action *)
Example adjacent_v0_refuted :
  segment (quote_text_v0 (B "{") ++ B "{{$p}}") = Some [SAct false (B "{$p") false] /\
  segment (quote_text (B "{") ++ B "{{$p}}") = Some [SAct false (B """{""") false; SAct false (B "$p") false].
Proof. split; vm_compute; reflexivity. Qed.

(* F-C06-d: with the HasSuffix rule alone the text {}} does not survive even standing alone *)
Example roundtrip_v1_refuted :
  segment (quote_text_v1 (B "{}}")) = Some [SAct false (B "{""}}""") false] /\
  (match segment (quote_text_v1 (B "{}}")) with Some l => segs_value l | None => None end) = None /\
  (match segment (quote_text (B "{}}")) with Some l => segs_value l | None => None end) = Some (B "{}}").
Proof. repeat split; vm_compute; reflexivity. Qed.

(* F-C06-e: the name_ok hypothesis of the static theorem is forced: a script element with a line feed in
   its body is not rendered as html_ser says *)
Definition script_tree : list pnode :=
  [PTag (B "script") false [] [] [PText (B "a"); PText [LF]; PText (B "b")]].
Example static_script_refuted :
  forallb static script_tree = true /\
  (match compile [] false script_tree with
   | Some ts => match segment (show_toks ts) with Some l => segs_value l | None => None end
   | None => None
   end) = Some (B "<script>" ++ [LF] ++ B "a" ++ [LF] ++ B "b" ++ [LF] ++ B "</script>") /\
  html_ser script_tree = B "<script>a" ++ [LF] ++ B "b</script>".
Proof. repeat split; vm_compute; reflexivity. Qed.

(* non-vacuity: a depth-4 tree with void and non-void elements, a void element with children, a doctype,
   a comment, and the text a{{b}}c next to "{" "{" "}}" *)
Definition nv_tree : list pnode :=
  [PDoctype (B "html");
   PTag (B "div") false [] []
     [PTag (B "p") false [] []
        [PText (B "a{{b}}c"); PTag (B "br") true [] [] [PText (B "dropped")];
         PTag (B "b") true [] [] [PTag (B "i") true [] [] [PText (B "{"); PText (B "{"); PText (B "}}")]];
         PComment; PText (B " {{- x -}} {}}{")];
      PBlock [PTag (B "img") true [] [] []; PText (B "{{/* c */}}`")]]].
Example nv_static_domain :
  forallb static nv_tree = true /\ forallb names_ok nv_tree = true /\ doctype_ok nv_tree = true.
Proof. repeat split; vm_compute; reflexivity. Qed.
Example nv_static_value :
  (match compile [] false nv_tree with
   | Some ts => match segment (show_toks ts) with Some l => segs_value l | None => None end
   | None => None
   end) = Some (html_ser nv_tree) /\
  html_ser nv_tree =
    B "<!DOCTYPE html>" ++ [LF] ++
    B "<div><p>a{{b}}c<br><b><i>{{}}</i></b> {{- x -}} {}}{</p><img>{{/* c */}}`</div>".
Proof. split; vm_compute; reflexivity. Qed.

Example nv_text_segs :
  text_segs (B "a{{b}}c{") =
  [SText (B "a"); act_lit LBR; SText (B "b"); act_lit RBR; SText (B "c"); act_lit (B "{")].
Proof. vm_compute; reflexivity. Qed.

(* non-vacuity for the trimming theorems: a conditional around a text with white space at both edges *)
Definition nv_mixed : list pnode :=
  [PText (B "x  "); PCond (JBool true) [PText (B "  y  ")] None; PText (B "  z")].
Example nv_trims :
  (match compile [] false nv_mixed with
   | Some ts => Some (show_toks ts, map seg_of_tok (lexed ts), segment (show_toks ts))
   | None => None
   end) =
  Some (B "x  {{ if true -}}  y  {{ end -}}  z",
        [SText (B "x  "); SAct false (B " if true") true; SText (B "y  "); SAct false (B " end") true; SText (B "z")],
        Some [SText (B "x  "); SAct false (B " if true") true; SText (B "y  "); SAct false (B " end") true; SText (B "z")]).
Proof. vm_compute; reflexivity. Qed.
Global Opaque replace_all.

(* ---- packaged statements for Props/C06.v ---------------------------------------------------------- *)
Lemma quote_one_pass s : quote_text s = rend true (tokz s) /\ flat LBR RBR (tokz s) = s.
Proof. split; [exact (quote_text_rend s)|exact (flat_tokz s)]. Qed.

Lemma text_never_declines s :
  ctext s = Some (text_toks (quote_text s)) /\ show_toks (text_toks (quote_text s)) = quote_text s.
Proof. split; [exact (ctext_total s)|exact (show_text_toks s)]. Qed.

Lemma text_adjacent_full s k :
  segment (quote_text s ++ k) = oapp (text_pre s) (lex_text false (rev (text_last s)) k) /\
  text_segs s = text_pre s ++ emit_text (text_last s) [] /\
  no_trail (rev (text_last s)) = true.
Proof. split; [exact (text_adjacent_any s k)|split; [reflexivity|exact (text_last_no_brace s)]]. Qed.

Lemma static_refuted : exists nodes : list pnode,
  forallb static nodes = true /\
  (match compile [] false nodes with
   | Some ts => match segment (show_toks ts) with Some l => segs_value l | None => None end
   | None => None
   end) <> Some (html_ser nodes).
Proof.
  exists script_tree. split; [exact (proj1 static_script_refuted)|].
  destruct static_script_refuted as [_ [H1 H2]]. rewrite H1, H2. intros H; inversion H.
Qed.
