(* The expression evaluator has enough fuel, for every state: the fuel [eval_cmds] needs on a pipeline of the core
   expression language (literals, variables, `.`, parenthesised pipelines, calls of the core helpers) is a syntactic
   measure [csneed]; with at least that much fuel the evaluation ends (a value, the execution error or "not modelled"
   — never "out of fuel"), whatever the variables and the heap hold.  No run-time helper of the core set can itself
   answer "out of fuel" ([apply_builtin_fin]). *)
From PV Require Import Base.Bytes Base.Escape Tmpl.Value Tmpl.IR Tmpl.Runtime Tmpl.Exec Pug.Compile Proofs.ExecMono
  Proofs.ExecFuelProofs Proofs.ExecFuelPure.
Require Import Lia.

(* ---- ends, whatever the answer -------------------------------------------------------------------------------- *)
Lemma fin_unmod {A} : fin (@Unmod A).
Proof. unfold fin; discriminate. Qed.
Lemma fin_bind_intro {A B} (r : res A) (k : A -> res B) : fin r -> (forall a, fin (k a)) -> fin (bind r k).
Proof. intros Hr Hk. destruct r; cbn [bind]; [apply Hk|apply fin_panic|apply fin_unmod|exfalso; apply Hr; reflexivity]. Qed.
Lemma fin_of_opt {A} (o : option A) : fin (of_opt o).
Proof. destruct o; [apply fin_ok|apply fin_unmod]. Qed.

Ltac fin_tac :=
  repeat first
    [ apply fin_ok | apply fin_panic | apply fin_unmod | apply fin_of_opt
    | apply fin_bind_intro; [|intros]
    | match goal with |- fin (match ?x with _ => _ end) => destruct x end
    | match goal with |- fin (let '(_, _) := ?x in _) => destruct x end ].

Lemma mknum_fin z : fin (mknum z).
Proof. unfold mknum. fin_tac. Qed.
Lemma arith_fin op x y : fin (arith op x y).
Proof. unfold arith. destruct (kind_of x), (kind_of y); first [apply mknum_fin|apply fin_ok]. Qed.
Lemma rt_sub_fin args : fin (rt_sub args).
Proof. unfold rt_sub. destruct args as [|a [|b r]]; first [apply fin_panic|apply arith_fin]. Qed.
Lemma rt_quo_fin x y : fin (rt_quo x y).
Proof.
  unfold rt_quo. destruct (kind_of x), (kind_of y); try apply fin_ok;
    (destruct (Z.eqb _ 0); [apply fin_unmod|]; destruct (Z.eqb _ 0); [apply mknum_fin|apply fin_unmod]).
Qed.
Lemma rt_rem_fin x y : fin (rt_rem x y).
Proof.
  unfold rt_rem. destruct (kind_of x), (kind_of y); try apply fin_ok;
    (destruct (Z.eqb _ 0); [apply fin_panic|apply mknum_fin]).
Qed.
Lemma rt_incdec_fin d x : fin (rt_incdec d x).
Proof. unfold rt_incdec. destruct (kind_of x); first [apply mknum_fin|apply fin_ok]. Qed.
Lemma txt_fin h v : fin (txt h v).
Proof. unfold txt. apply fin_of_opt. Qed.
Lemma rt_add_fin h l r : fin (rt_add h l r).
Proof.
  unfold rt_add. cbv zeta. destruct (box l); try apply fin_unmod.
  - destruct (box r); try apply fin_ok; try apply fin_unmod; try apply mknum_fin.
    destruct (plain_int _); [destruct (Z.ltb _ _); [apply mknum_fin|apply fin_unmod]|].
    destruct (surely_not_float _); [apply fin_ok|apply fin_unmod].
  - apply fin_bind_intro; [apply txt_fin|intros; apply fin_ok].
  - apply fin_bind_intro; [apply txt_fin|intros]. apply fin_bind_intro; [apply txt_fin|intros; apply fin_ok].
  - apply fin_bind_intro; [apply txt_fin|intros]. apply fin_bind_intro; [apply txt_fin|intros; apply fin_ok].
  - apply fin_bind_intro; [apply txt_fin|intros]. apply fin_bind_intro; [apply txt_fin|intros; apply fin_ok].
  - apply fin_bind_intro; [apply txt_fin|intros]. apply fin_bind_intro; [apply txt_fin|intros; apply fin_ok].
Qed.
Lemma rt_eql_fin h x y : fin (rt_eql h x y).
Proof.
  unfold rt_eql. cbv zeta.
  assert (Hfb : forall a b, fin (if is_object a && is_object b then do p <- txt h a; do q <- txt h b; Ok (beqb p q) else Ok false)).
  { intros a b. destruct (is_object a && is_object b); [|apply fin_ok].
    apply fin_bind_intro; [apply txt_fin|intros]. apply fin_bind_intro; [apply txt_fin|intros; apply fin_ok]. }
  destruct x, y; try apply fin_unmod;
    (destruct (is_vnil _ && is_vnil _); [apply fin_ok|]);
    match goal with |- fin (match kind_of ?a with _ => _ end) => destruct (kind_of a) end;
    try match goal with |- fin (match kind_of ?a with _ => _ end) => destruct (kind_of a) end;
    first [apply fin_ok|apply Hfb].
Qed.
Lemma rt_lss_fin x y : fin (rt_lss x y).
Proof.
  unfold rt_lss. cbv zeta.
  destruct x, y; try apply fin_unmod;
    (destruct (is_vnil _ && is_vnil _); [apply fin_ok|]);
    match goal with |- fin (match kind_of ?a with _ => _ end) => destruct (kind_of a) end;
    try match goal with |- fin (match kind_of ?a with _ => _ end) => destruct (kind_of a) end;
    apply fin_ok.
Qed.
Lemma truthy_fin h v : fin (truthy h v).
Proof.
  unfold truthy. destruct v; try apply fin_ok; try apply fin_unmod.
  - destruct (hget h l) as [[|]|]; first [apply fin_ok|apply fin_unmod].
  - destruct (hget h l) as [[|]|]; first [apply fin_ok|apply fin_unmod].
Qed.
Lemma rt_and_fin h : forall rest a, fin (rt_and h a rest).
Proof.
  induction rest as [|b r IH]; intros a; cbn [rt_and]; (apply fin_bind_intro; [apply truthy_fin|intros t]);
    destruct (negb t); try apply fin_ok. apply IH.
Qed.
Lemma rt_or_fin h : forall rest a, fin (rt_or h a rest).
Proof.
  induction rest as [|b r IH]; intros a; cbn [rt_or]; (apply fin_bind_intro; [apply truthy_fin|intros t]);
    destruct t; try apply fin_ok. apply IH.
Qed.
Lemma rt_html_fin h l : fin (rt_html h l).
Proof.
  unfold rt_html. destruct l as [|v [|w r]]; try apply fin_ok; try apply fin_unmod.
  destruct v; try apply fin_ok; (apply fin_bind_intro; [apply txt_fin|intros; apply fin_ok]).
Qed.
Lemma coerce_val_fin t v : fin (coerce_val t v).
Proof. unfold coerce_val. destruct t; destruct v; try destruct (num_text _); first [apply fin_ok|apply fin_unmod|apply fin_panic]. Qed.
Lemma coerce_lit_fin t a : fin (coerce_lit t a).
Proof. unfold coerce_lit. destruct a; destruct t; first [apply fin_ok|apply fin_unmod|apply fin_panic]. Qed.
Lemma print_text_fin h v : fin (print_text h v).
Proof. unfold print_text. destruct v; first [apply fin_ok|apply fin_unmod|apply fin_of_opt]. Qed.

(* ---- the core helpers ------------------------------------------------------------------------------------------- *)
Definition core_fns : list bytes := runtime_funcs ++ [B "__if"; B "__pug__html"].
Definition core_fn (f : bytes) : bool := mem f core_fns.

Lemma core_fn_safe f : core_fn f = true -> safe_fn f = true.
Proof.
  unfold core_fn. intros H. apply mem_In in H. unfold safe_fn.
  repeat (destruct H as [<-|H]; [vm_compute; reflexivity|]). destruct H.
Qed.

Ltac builtin_fin :=
  repeat first
    [ apply fin_ok | apply fin_panic | apply fin_unmod
    | apply rt_add_fin | apply arith_fin | apply rt_quo_fin | apply rt_rem_fin | apply rt_eql_fin
    | apply rt_lss_fin | apply rt_sub_fin | apply rt_and_fin | apply rt_or_fin | apply truthy_fin
    | apply rt_incdec_fin | apply rt_html_fin
    | apply fin_bind_intro; [|intros]
    | match goal with |- fin (if ?c then _ else _) => destruct c end ].

(* a helper that is not in the core set: the name contradicts [core_fn] *)
Ltac not_core Hc :=
  match goal with
  | He : isf ?f ?n = true |- _ =>
    unfold isf in He; apply beqb_eq in He; subst f; vm_compute in Hc; discriminate Hc
  end.

Lemma apply_builtin_fin h f vs : core_fn f = true -> fin (apply_builtin h f vs).
Proof.
  intros Hc. unfold apply_builtin. cbv zeta.
  destruct vs as [|x [|y [|z r]]]; cbv iota beta.
  all: repeat match goal with
              | |- context [if isf ?g ?n then _ else _] => destruct (isf g n) eqn:?; cbv iota
              | |- context [if isf ?g ?n || isf ?g ?m then _ else _] =>
                destruct (isf g n) eqn:?; destruct (isf g m) eqn:?; cbn [orb]; cbv iota
              | |- context [if isf ?g ?n || isf ?g ?m || isf ?g ?k then _ else _] =>
                destruct (isf g n) eqn:?; destruct (isf g m) eqn:?; destruct (isf g k) eqn:?; cbn [orb]; cbv iota
              end.
  all: first [solve [builtin_fin] | not_core Hc].
Qed.

(* ---- the core expression language and the fuel it needs ---------------------------------------------------------- *)
Fixpoint core_arg (a : targ) : bool :=
  match a with
  | ANum _ | ANumF _ | AStr _ | ABool _ | ADot | AField _ => true
  | AVar _ fs => match fs with [] => true | _ => false end
  | AIdent f => core_fn f || beqb f (B "null")
  | APipe _ cmds => forallb (forallb core_arg) cmds
  | AChain _ _ => false
  end.
Definition core_cmd (c : list targ) : bool := forallb core_arg c.
Definition core_cmds (cs : list (list targ)) : bool := forallb core_cmd cs.
Definition core_pipe (p : tpipe) : bool := core_cmds (snd p).
Lemma core_arg_pipe d cmds : core_arg (APipe d cmds) = core_cmds cmds.
Proof. reflexivity. Qed.

Lemma core_arg_pure : forall a, core_arg a = true -> pure_arg a = true.
Proof.
  fix IH 1. intros a H. destruct a as [z|t|s|b| |x fs|fs|f|d cmds|a' fs]; try exact H; try reflexivity.
  - cbn [core_arg] in H. cbn [pure_arg]. apply orb_prop in H. destruct H as [H|H].
    + exact (core_fn_safe f H).
    + apply beqb_eq in H. subst f. reflexivity.
  - rewrite core_arg_pipe in H. rewrite pure_arg_pipe. unfold core_cmds in H. unfold pure_cmds.
    induction cmds as [|c r IHr]; [reflexivity|]. cbn [forallb] in H |- *. apply andb_prop in H. destruct H as [Hc Hr].
    rewrite (IHr Hr), andb_true_r. unfold core_cmd in Hc. unfold pure_cmd.
    induction c as [|x c' IHc]; [reflexivity|]. cbn [forallb] in Hc |- *. apply andb_prop in Hc. destruct Hc as [Hx Hc'].
    rewrite (IH x Hx), (IHc Hc'). reflexivity.
Qed.
Lemma core_cmds_pure cs : core_cmds cs = true -> pure_cmds cs = true.
Proof. intros H. rewrite <- pure_arg_pipe with (d := []). apply core_arg_pure. rewrite core_arg_pipe. exact H. Qed.
Lemma core_pipe_pure p : core_pipe p = true -> pure_pipe p = true.
Proof. apply core_cmds_pure. Qed.

(* the fuel an operand needs; [csneed]: a command list; [cneed]: one command; [amax]: the arguments of a call *)
Fixpoint aneed (a : targ) : nat :=
  match a with
  | APipe _ cmds =>
    S ((fix cs (l : list (list targ)) : nat :=
          match l with
          | [] => 1
          | c :: r =>
            S (Nat.max
                 (match c with
                  | [] => 1
                  | first :: rest =>
                    S (match first with
                       | AIdent _ => 2 + (fix am (l : list targ) : nat :=
                                            match l with [] => 0 | x :: r' => Nat.max (aneed x) (am r') end) rest
                       | APipe _ _ => pred (aneed first)
                       | _ => 0
                       end)
                  end)
                 (cs r))
          end) cmds)
  | AIdent _ => 3
  | _ => 1
  end.
Definition amax := fix am (l : list targ) : nat := match l with [] => 0 | x :: r' => Nat.max (aneed x) (am r') end.
Definition cneed (c : list targ) : nat :=
  match c with
  | [] => 1
  | first :: rest => S (match first with AIdent _ => 2 + amax rest | APipe _ _ => pred (aneed first) | _ => 0 end)
  end.
Definition csneed := fix cs (l : list (list targ)) : nat :=
  match l with [] => 1 | c :: r => S (Nat.max (cneed c) (cs r)) end.
Lemma aneed_pipe d cmds : aneed (APipe d cmds) = S (csneed cmds).
Proof. reflexivity. Qed.
Lemma csneed_cons c r : csneed (c :: r) = S (Nat.max (cneed c) (csneed r)).
Proof. reflexivity. Qed.
Lemma amax_cons x r : amax (x :: r) = Nat.max (aneed x) (amax r).
Proof. reflexivity. Qed.
Lemma aneed_pos a : 1 <= aneed a.
Proof. destruct a; cbn [aneed]; lia. Qed.
Lemma cneed_pos c : 1 <= cneed c.
Proof. destruct c; cbn [cneed]; lia. Qed.
Lemma csneed_pos cs : 1 <= csneed cs.
Proof. destruct cs; [cbn; lia|rewrite csneed_cons; lia]. Qed.

Definition T_cmds f := forall E h cmds final, core_cmds cmds = true -> csneed cmds <= f -> fin (eval_cmds f E h cmds final).
Definition T_cmd f := forall E h args final, core_cmd args = true -> cneed args <= f -> fin (eval_cmd f E h args final).
Definition T_opnd f := forall E h a, core_arg a = true -> aneed a <= f -> fin (eval_operand f E h a).
Definition T_args f := forall E h sg args final, core_cmd args = true -> S (amax args) <= f -> fin (eval_args f E h sg args final).
Definition T_call f := forall E h fn args final, core_fn fn || beqb fn (B "null") = true -> core_cmd args = true ->
  2 + amax args <= f -> fin (call_ident f E h fn args final).

Local Strategy opaque [apply_builtin coerce_val coerce_lit var_val].

Lemma args_go_fin f E final fixed variadic : T_opnd f ->
  forall l i h, core_cmd l = true -> amax l <= f -> fin (args_go f E final fixed variadic l i h).
Proof.
  intros IH. induction l as [|a r IHl]; intros i h Hp Hn; cbn [args_go].
  - destruct (valid final); [|apply fin_ok].
    destruct (match nth_error fixed i with Some t => Some t | None => variadic end) as [t|]; [|apply fin_panic].
    apply fin_bind_intro; [apply coerce_val_fin|intros; apply fin_ok].
  - unfold core_cmd in Hp. cbn [forallb] in Hp. apply andb_prop in Hp. destruct Hp as [Ha Hr]. rewrite amax_cons in Hn.
    destruct (match nth_error fixed i with Some t => Some t | None => variadic end) as [t|]; [|apply fin_panic].
    apply fin_bind_intro.
    + destruct (is_lit a).
      * apply fin_bind_intro; [apply coerce_lit_fin|intros; apply fin_ok].
      * apply fin_bind_intro; [apply (IH E h a Ha); lia|]. intros [v0 h1].
        apply fin_bind_intro; [apply coerce_val_fin|intros; apply fin_ok].
    + intros [v h1]. apply fin_bind_intro; [apply IHl; [exact Hr|lia]|]. intros [vs h2]. apply fin_ok.
Qed.

Lemma total_all f : T_cmds f /\ T_cmd f /\ T_opnd f /\ T_args f /\ T_call f.
Proof.
  induction f as [|f (IHcs & IHc & IHo & IHa & IHk)].
  - unfold T_cmds, T_cmd, T_opnd, T_args, T_call; repeat split; intros.
    + pose proof (csneed_pos cmds); lia.
    + pose proof (cneed_pos args); lia.
    + pose proof (aneed_pos a); lia.
    + lia.
    + lia.
  - repeat split.
    + (* command lists *)
      intros E h cmds final Hp Hn. rewrite eval_cmds_S. destruct cmds as [|c r]; [apply fin_ok|].
      unfold core_cmds in Hp. cbn [forallb] in Hp. apply andb_prop in Hp. destruct Hp as [Hc Hr].
      rewrite csneed_cons in Hn.
      apply fin_bind_intro; [apply IHc; [exact Hc|lia]|]. intros [v h1]. apply IHcs; [exact Hr|lia].
    + (* one command *)
      intros E h args final Hp Hn. rewrite eval_cmd_S. cbv zeta.
      destruct args as [|first rest]; [apply fin_unmod|].
      unfold core_cmd in Hp. cbn [forallb] in Hp. apply andb_prop in Hp. destruct Hp as [Hf Hr].
      destruct first as [z|t|s0|b| |x fs|fs|fn|d cmds|a fs]; cbn [core_arg] in Hf; try discriminate Hf.
      * destruct rest; [destruct (valid final)|]; first [apply fin_ok|apply fin_panic].
      * apply fin_unmod.
      * destruct rest; [destruct (valid final)|]; first [apply fin_ok|apply fin_panic].
      * destruct rest; [destruct (valid final)|]; first [apply fin_ok|apply fin_panic].
      * destruct rest; [destruct (valid final)|]; first [apply fin_ok|apply fin_panic].
      * destruct fs; [|discriminate Hf].
        destruct rest; [destruct (valid final)|]; first [apply fin_ok|apply fin_panic].
      * apply fin_unmod.
      * cbn [cneed] in Hn. apply IHk; [exact Hf|exact Hr|lia].
      * destruct d; [|apply fin_unmod]. cbn [cneed] in Hn. rewrite aneed_pipe in Hn. cbn [pred] in Hn.
        apply IHcs; [exact Hf|lia].
    + (* an operand *)
      intros E h a Hp Hn. rewrite eval_operand_S.
      destruct a as [z|t|s0|b| |x fs|fs|fn|d cmds|a fs]; cbn [core_arg] in Hp; try discriminate Hp;
        try apply fin_ok; try apply fin_unmod.
      * destruct fs; [apply fin_ok|discriminate Hp].
      * cbn [aneed] in Hn. apply IHk; [exact Hp|reflexivity|cbn; lia].
      * destruct d; [|apply fin_unmod]. rewrite aneed_pipe in Hn. apply IHcs; [exact Hp|lia].
    + (* arguments *)
      intros E h [fixed variadic] args final Hp Hn. rewrite eval_args_S. cbv zeta.
      match goal with |- fin (if ?c then _ else _) => destruct c; [apply fin_panic|] end.
      apply (args_go_fin f E final fixed variadic IHo); [exact Hp|lia].
    + (* a call *)
      intros E h fn args final Hs Hp Hn. rewrite call_ident_S.
      destruct (beqb fn (B "null")) eqn:En; [apply fin_ok|]. rewrite orb_false_r in Hs.
      destruct (beqb fn (B "__freeze")); [apply fin_unmod|].
      destruct (lookup fn builtin_sigs) as [sg|]; [|apply fin_unmod].
      apply fin_bind_intro; [apply IHa; [exact Hp|lia]|]. intros [vs h1]. exact (apply_builtin_fin h1 fn vs Hs).
Qed.

(* a pipeline within its fuel *)
Definition pipe_fuel_ok (p : tpipe) : bool := core_pipe p && Nat.leb (csneed (snd p)) expr_fuel.

Local Strategy opaque [eval_cmds eval_cmd expr_fuel].
Lemma core_pipeline_fin E h p : pipe_fuel_ok p = true -> fin (eval_pipeline E h p).
Proof.
  intros H. unfold pipe_fuel_ok in H. apply andb_prop in H. destruct H as [Hc Hn]. apply Nat.leb_le in Hn.
  unfold eval_pipeline. exact (proj1 (total_all expr_fuel) E h (snd p) VInvalid Hc Hn).
Qed.
