(* C02 — the program-level simulation of Proofs/C02SimProofs.v instantiated with the scalar expression fragment
   (Proofs/C01EvalProofs.v), the initial states of a render, and the statement about whole renders. *)
From PV Require Import Base.Bytes Base.Escape Js.Ast Tmpl.Value Tmpl.IR Tmpl.Runtime Tmpl.Exec Pug.Ast Pug.Compile
  Pug.Lower Spec.Sem Spec.HtmlSer Proofs.ExecMono Proofs.C01Proofs Proofs.C02Proofs Proofs.C03Proofs Proofs.C06Proofs
  Proofs.C01EvalProofs Proofs.C02SimProofs Run.Judge_Core.
Local Open Scope Z_scope.

(* ---- the hypotheses of Section Sim for goodb := goodS funcs names, vr := repu, okj := jv_ok -------------------- *)
Lemma repu_truthy h g v j : repu v j -> truthy h v = Ok (fst (to_boolean g j)) /\ snd (to_boolean g j) = g.
Proof. intros R. split; [exact (truthy_u h g v j R)|]. rewrite (to_boolean_u g v j R). reflexivity. Qed.
Lemma repu_bool v b : repu v (JB b) -> v = VBool b \/ v = VGoBool b.
Proof. intros R. apply repu_rep in R; [|discriminate]. inversion R; auto. Qed.
Lemma repu_num v z : repu v (JN z) -> v = VInt z \/ v = VNum z.
Proof. intros R. apply repu_rep in R; [|discriminate]. inversion R; auto. Qed.
Lemma repu_num_intro z : repu (VNum z) (JN z).
Proof. left. constructor. Qed.
Lemma jv_ok_num z : in_range z = true -> jv_ok (JN z).
Proof. exact (fun H => H). Qed.

Lemma goodS_id funcs names x : goodS funcs names (JId x) = true -> In x names.
Proof. intros Hg. destruct (goodS_parts funcs names _ Hg) as (_ & Hfv & _). apply Hfv. left; reflexivity. Qed.

Lemma void_agree_holds name : is_void name = mem name void_tags.
Proof. rewrite is_void_spec. reflexivity. Qed.

Lemma goodS_print_R funcs names e :
  goodS funcs names e = true -> Lower.printable e = true ->
  forall defs f dot s g g1 j t g2, R names repu jv_ok s g ->
    sem_expr efuel g e = SOk (j, g1) -> print_string g1 j = SOk (t, g2) -> s_flags g2 = s_flags g ->
    exists a, lx funcs (goodS funcs names) e = Some a /\
              exec_node defs (S f) dot s (NAction ([], [a] :: esc_cmds false)) = Ok (emit s (escape t)) /\
              s_env g2 = s_env g /\ s_out g2 = s_out g.
Proof.
  intros Hg Hp defs f dot s g g1 j t g2 Rr Hs Hpr Hf.
  exact (goodS_print funcs names e true Hg Hp defs f dot s g g1 j t g2 (R_env _ _ _ _ _ Rr) (R_rng _ _ _ _ _ Rr) Hs Hpr Hf eq_refl).
Qed.

(* the simulation for the scalar, each-free control fragment: every hypothesis discharged *)
Theorem sim_scalar funcs names globals fs :
  P_nodes funcs (goodS funcs names) names globals repu jv_ok fs /\
  P_node funcs (goodS funcs names) names globals repu jv_ok fs.
Proof.
  apply sim_all.
  - exact repu_truthy.
  - exact repu_bool.
  - exact repu_num.
  - exact repu_num_intro.
  - exact jv_ok_num.
  - intros e Hg E h g j g' Hrep Hrng Hs Hf. exact (goodS_eval_pipeline funcs names e Hg E h g j g' Hrep Hrng Hs Hf).
  - intros e Hg. exact (goodS_mono funcs names e Hg).
  - intros e Hg. exact (goodS_noerr funcs names e Hg).
  - exact (goodS_id funcs names).
  - exact (goodS_print_R funcs names).
  - exact void_agree_holds.
Qed.

(* ---- the initial states of a render ----------------------------------------------------------------------------- *)
(* top-level data: a map of scalars (numbers in range) whose keys start with no upper-case letter (the engine
   also binds $lowerFirst(k)); the engine's own variable $global is not a name of the program *)
Definition scalar_d (d : dval) : bool :=
  match d with DNil | DBool _ | DStr _ => true | DInt z => in_range z | _ => false end.
Definition entry_ok (kv : bytes * dval) : bool := scalar_d (snd kv) && beqb (lower_first (fst kv)) (fst kv).
Definition data_ok (names : list bytes) (d : dval) : bool :=
  match d with
  | DMap l => forallb entry_ok l && negb (mem (B "global") names)
  | _ => false
  end.

Definition cv (d : dval) : val :=
  match d with DBool b => VBool b | DInt z => VNum z | DStr s => VStr s | _ => VNil end.
Definition sv (d : dval) : jv :=
  match d with DBool b => JB b | DInt z => JN z | DStr s => JS s | _ => JNul end.
Fixpoint items_of (l : list (bytes * dval)) : list (bytes * val) :=
  match l with [] => [] | (k, x) :: r => insert k (cv x) (items_of r) end.
Fixpoint senv_of (l : list (bytes * dval)) : list (bytes * jv) :=
  match l with [] => [] | (k, x) :: r => insert k (sv x) (senv_of r) end.

Lemma entries_scalar l : forallb entry_ok l = true -> forallb (fun kv => scalar_d (snd kv)) l = true.
Proof.
  induction l as [|kv r IH]; cbn [forallb]; intros H; [reflexivity|].
  apply andb_prop in H. destruct H as [H1 H2]. unfold entry_ok in H1. apply andb_prop in H1. destruct H1 as [H1 _].
  rewrite H1, (IH H2). reflexivity.
Qed.

Lemma convert_scalar h d : scalar_d d = true -> convert h d = (cv d, h).
Proof. destruct d; try discriminate; reflexivity. Qed.
Lemma sdata_scalar h d : scalar_d d = true -> sdata_val h (sd_of d) = (sv d, h).
Proof. destruct d; try discriminate; reflexivity. Qed.

Lemma convert_items l : forall h, forallb (fun kv => scalar_d (snd kv)) l = true ->
  (fix go (l : list (bytes * dval)) (h : heap) : list (bytes * val) * heap :=
     match l with
     | [] => ([], h)
     | (k, x) :: r => let '(v, h1) := convert h x in let '(vs, h2) := go r h1 in (insert k v vs, h2)
     end) l h = (items_of l, h).
Proof.
  induction l as [|[k x] r IH]; intros h H; [reflexivity|].
  cbn [forallb snd] in H. apply andb_prop in H. destruct H as [Hx Hr].
  rewrite (convert_scalar h x Hx), (IH h Hr). reflexivity.
Qed.

Lemma convert_map l h : forallb (fun kv => scalar_d (snd kv)) l = true ->
  convert h (DMap l) = (VMap (length h), h ++ [OMap (items_of l) []]).
Proof. intros H. cbn [convert]. rewrite (convert_items l h H). reflexivity. Qed.

Lemma senv_items l : forall h, forallb (fun kv => scalar_d (snd kv)) l = true ->
  (fix go (l : list (bytes * sdata)) (h : jheap) : list (bytes * jv) * jheap :=
     match l with
     | [] => ([], h)
     | (k, x) :: r => let '(v, h1) := sdata_val h x in let '(e, h2) := go r h1 in (insert k v e, h2)
     end) (map (fun kv => (fst kv, sd_of (snd kv))) l) h = (senv_of l, h).
Proof.
  induction l as [|[k x] r IH]; intros h H; [reflexivity|].
  cbn [forallb snd] in H. apply andb_prop in H. destruct H as [Hx Hr].
  cbn [map fst snd]. rewrite (sdata_scalar h x Hx), (IH h Hr). reflexivity.
Qed.

(* the two initial states *)
Definition g_init (l : list (bytes * dval)) : sstate :=
  {| s_env := senv_of l; s_heap := []; s_out := []; s_flags := []; s_grown := [] |}.
Definition globals_of (l : list (bytes * dval)) : vars :=
  flat_map (fun k => let x := member_lookup (items_of l) k in [(k, x); (lower_first k, x)])
           (sort_bytes (keys (items_of l))) ++ [(B "global", VMap 1)].
Definition s_init (l : list (bytes * dval)) : xstate :=
  {| x_frames := [{| f_vars := globals_of l; f_globals := globals_of l; f_bound := []; f_depth := 0 |}];
     x_heap := [OMap (items_of l) []; OMap [] []]; x_out := [] |}.

Lemma init_state_scalar l :
  forallb (fun kv => scalar_d (snd kv)) l = true -> init_state (DMap l) = Some (s_init l).
Proof. intros H. unfold init_state. rewrite (convert_map l [] H). reflexivity. Qed.

Lemma sem_run_scalar nodes l :
  forallb (fun kv => scalar_d (snd kv)) l = true ->
  sem_run nodes (sd_top (DMap l)) =
  match sem_nodes (senv_of l) sem_fuel [] None (g_init l) nodes with
  | SOk (s, _) => SOut (soutput s) (s_flags s)
  | SErr fl => SError fl
  | SOff => SOffDomain
  | SFuel => SNoFuel
  end.
Proof.
  intros H. unfold sem_run, sd_top. cbn [sd_of]. rewrite (senv_items l [] H). reflexivity.
Qed.

(* lookups in the two environments follow the data (the first binding of a key wins on both sides) *)
Lemma lookup_items x l : lookup x (items_of l) = option_map cv (lookup x l).
Proof.
  induction l as [|[k d] r IH]; [reflexivity|]. cbn [items_of lookup].
  destruct (beqb x k) eqn:E.
  - apply beqb_eq in E. subst. rewrite lookup_insert_same. reflexivity.
  - apply beqb_neq in E. rewrite lookup_insert_other by (intros Hk; apply E; symmetry; exact Hk). exact IH.
Qed.
Lemma lookup_senv x l : lookup x (senv_of l) = option_map sv (lookup x l).
Proof.
  induction l as [|[k d] r IH]; [reflexivity|]. cbn [senv_of lookup].
  destruct (beqb x k) eqn:E.
  - apply beqb_eq in E. subst. rewrite lookup_insert_same. reflexivity.
  - apply beqb_neq in E. rewrite lookup_insert_other by (intros Hk; apply E; symmetry; exact Hk). exact IH.
Qed.

Lemma lookup_In {A} x (l : list (bytes * A)) d : lookup x l = Some d -> In (x, d) l.
Proof.
  induction l as [|[k v] r IH]; [discriminate|]. cbn [lookup]. destruct (beqb x k) eqn:E.
  - apply beqb_eq in E. subst. intros H. injection H as ->. left; reflexivity.
  - intros H. right. exact (IH H).
Qed.

Lemma beqb_sym a b : beqb a b = beqb b a.
Proof.
  destruct (beqb a b) eqn:E.
  - apply beqb_eq in E. subst. symmetry. apply beqb_refl.
  - apply beqb_neq in E. symmetry. apply beqb_neq. congruence.
Qed.

Lemma In_insert_sorted lt (x y : bytes) l : In x (insert_sorted lt y l) <-> x = y \/ In x l.
Proof.
  induction l as [|z r IH]; cbn [insert_sorted].
  - cbn. intuition congruence.
  - destruct (lt y z); cbn [In]; [intuition congruence|]. rewrite IH. intuition congruence.
Qed.
Lemma In_sort_bytes x l : In x (sort_bytes l) <-> In x l.
Proof.
  unfold sort_bytes. induction l as [|y r IH]; cbn [fold_right]; [reflexivity|].
  rewrite In_insert_sorted, IH. cbn [In]. intuition congruence.
Qed.
Lemma mem_sort_bytes x l : mem x (sort_bytes l) = mem x l.
Proof.
  destruct (mem x l) eqn:E.
  - apply (proj2 (mem_In _ _)). apply (proj2 (In_sort_bytes x l)). apply (proj1 (mem_In x l)). exact E.
  - apply mem_false_In. intros H. apply (proj1 (In_sort_bytes x l)) in H. apply (proj2 (mem_In x l)) in H. congruence.
Qed.

(* the engine's double binding ($k and $lowerFirst k) is one binding when lowerFirst k = k *)
Lemma var_get_flat (F : bytes -> val) x : forall ks,
  (forall k, In k ks -> lower_first k = k) ->
  var_get (flat_map (fun k => [(k, F k); (lower_first k, F k)]) ks) x = if mem x ks then Some (F x) else None.
Proof.
  induction ks as [|k r IH]; intros Hk; [reflexivity|].
  cbn [flat_map app]. rewrite (Hk k (or_introl eq_refl)). cbn [var_get].
  rewrite (IH (fun k' H => Hk k' (or_intror H))).
  unfold mem. cbn [existsb]. fold (mem x r). rewrite (beqb_sym x k).
  destruct (mem x r); [rewrite orb_true_r; reflexivity|]. rewrite orb_false_r.
  destruct (beqb k x) eqn:E; [|reflexivity]. apply beqb_eq in E. subst. reflexivity.
Qed.

Lemma keys_items_In x l : In x (keys (items_of l)) <-> exists d, lookup x l = Some d.
Proof.
  rewrite <- lookup_In_keys. rewrite lookup_items. split.
  - intros [v H]. destruct (lookup x l) as [d|]; [exists d; reflexivity|discriminate].
  - intros [d ->]. eexists; reflexivity.
Qed.

Lemma var_val_init l x :
  forallb entry_ok l = true -> x <> B "global" ->
  var_val (globals_of l) x = match lookup x l with Some d => cv d | None => VInvalid end.
Proof.
  intros Hok Hx. unfold var_val, globals_of. rewrite var_get_app_new.
  destruct (beqb (B "global") x) eqn:E; [apply beqb_eq in E; congruence|].
  rewrite (var_get_flat (fun k => member_lookup (items_of l) k) x).
  - rewrite mem_sort_bytes. destruct (lookup x l) as [d|] eqn:El.
    + assert (Hm : mem x (keys (items_of l)) = true) by (apply mem_In, keys_items_In; exists d; exact El).
      rewrite Hm. unfold member_lookup. rewrite lookup_items, El. reflexivity.
    + assert (Hm : mem x (keys (items_of l)) = false).
      { apply mem_false_In. intros H. apply keys_items_In in H. destruct H as [d H]. congruence. }
      rewrite Hm. reflexivity.
  - intros k Hk. apply In_sort_bytes, keys_items_In in Hk. destruct Hk as [d Hd].
    apply lookup_In in Hd. rewrite forallb_forall in Hok. specialize (Hok _ Hd).
    unfold entry_ok in Hok. apply andb_prop in Hok. destruct Hok as [_ Hl]. cbn [fst] in Hl.
    apply beqb_eq in Hl. exact Hl.
Qed.

Lemma rep_cv_sv d : scalar_d d = true -> rep (cv d) (sv d) /\ jv_ok (sv d).
Proof. destruct d; try discriminate; cbn; intros H; split; try constructor; try exact I; exact H. Qed.

Lemma R_init names l :
  forallb entry_ok l = true -> mem (B "global") names = false ->
  R names repu jv_ok (s_init l) (g_init l).
Proof.
  intros Hok Hg.
  assert (Hd : forall x d, lookup x l = Some d -> scalar_d d = true).
  { intros x d H. apply lookup_In in H. rewrite forallb_forall in Hok. specialize (Hok _ H).
    unfold entry_ok in Hok. apply andb_prop in Hok. destruct Hok as [Hs _]. exact Hs. }
  split.
  - unfold live, s_init. cbn [x_frames]. discriminate.
  - intros x Hx. cbn [s_init cur x_frames rev app f_vars g_init s_env].
    assert (Hne : x <> B "global") by (intros ->; apply mem_In in Hx; congruence).
    rewrite (var_val_init l x Hok Hne). unfold env_get. rewrite lookup_senv.
    destruct (lookup x l) as [d|] eqn:El; cbn [option_map].
    + left. exact (proj1 (rep_cv_sv d (Hd x d El))).
    + left. constructor.
  - intros x Hx. cbn [g_init s_env]. unfold env_get. rewrite lookup_senv.
    destruct (lookup x l) as [d|] eqn:El; cbn [option_map]; [|exact I].
    exact (proj2 (rep_cv_sv d (Hd x d El))).
  - reflexivity.
Qed.

(* ---- whole renders -------------------------------------------------------------------------------------------------- *)
Lemma lower_nodes_list funcs goodb nodes t :
  lower_nodes funcs goodb nodes = Some t ->
  lower_list (lower funcs goodb (S (pnode_size (PBlock nodes)))) nodes = Some t.
Proof. exact (fun H => H). Qed.

Local Strategy opaque [exec_nodes exec_node sem_nodes sem_node exec_fuel sem_fuel lower pnode_size].
Theorem program_scalar funcs names nodes t d :
  lower_nodes funcs (goodS funcs names) nodes = Some t -> data_ok names d = true ->
  match sem_run nodes (sd_top d) with
  | SOut o [] => run_program {| p_main := t; p_defs := [] |} d = OOk o \/
                 run_program {| p_main := t; p_defs := [] |} d = OFuel
  | SError [] => run_program {| p_main := t; p_defs := [] |} d = OPanic \/
                 run_program {| p_main := t; p_defs := [] |} d = OFuel
  | _ => True
  end.
Proof.
  intros Hl Hd. destruct d as [| | | | |l]; try discriminate Hd.
  cbn [data_ok] in Hd. apply andb_prop in Hd. destruct Hd as [Hok Hg]. apply negb_true_iff in Hg.
  pose proof (entries_scalar l Hok) as Hsc.
  rewrite (sem_run_scalar nodes l Hsc).
  unfold run_program. rewrite (init_state_scalar l Hsc). cbn [p_main p_defs].
  pose proof (proj1 (sim_scalar funcs names (senv_of l) sem_fuel) nodes [] None (g_init l)
                    (S (pnode_size (PBlock nodes))) t VInvalid (s_init l)
                    (lower_nodes_list _ _ _ _ Hl) (R_init names l Hok Hg)) as Hsim.
  unfold sim_ok, sim_res in Hsim.
  destruct (sem_nodes (senv_of l) sem_fuel [] None (g_init l) nodes) as [[g' m']|fl| |]; try exact I.
  - destruct (s_flags g') as [|k fl'] eqn:Hfl; [|exact I].
    destruct (Hsim eq_refl) as (_ & f & s' & Hx & Rr).
    destruct (exec_nodes [] exec_fuel VInvalid (s_init l) t) as [s2| | |] eqn:He; [left|exfalso|exfalso|right; reflexivity].
    + assert (Heq : exec_nodes [] f VInvalid (s_init l) t = exec_nodes [] exec_fuel VInvalid (s_init l) t).
      { destruct (Nat.le_ge_cases f exec_fuel) as [Hle|Hle].
        - symmetry. apply exec_nodes_mono; [exact Hle|rewrite Hx; apply fin_ok].
        - apply exec_nodes_mono; [exact Hle|rewrite He; apply fin_ok]. }
      rewrite Hx, He in Heq. injection Heq as <-. rewrite (R_out _ _ _ _ _ Rr). reflexivity.
    + assert (Heq : exec_nodes [] f VInvalid (s_init l) t = exec_nodes [] exec_fuel VInvalid (s_init l) t).
      { destruct (Nat.le_ge_cases f exec_fuel) as [Hle|Hle].
        - symmetry. apply exec_nodes_mono; [exact Hle|rewrite Hx; apply fin_ok].
        - apply exec_nodes_mono; [exact Hle|rewrite He; apply fin_panic]. }
      rewrite Hx, He in Heq. discriminate Heq.
    + assert (Heq : exec_nodes [] f VInvalid (s_init l) t = exec_nodes [] exec_fuel VInvalid (s_init l) t).
      { destruct (Nat.le_ge_cases f exec_fuel) as [Hle|Hle].
        - symmetry. apply exec_nodes_mono; [exact Hle|rewrite Hx; apply fin_ok].
        - apply exec_nodes_mono; [exact Hle|rewrite He; unfold fin; discriminate]. }
      rewrite Hx, He in Heq. discriminate Heq.
  - destruct fl as [|k fl']; [|exact I].
    destruct (Hsim eq_refl) as (f & Hx).
    destruct (exec_nodes [] exec_fuel VInvalid (s_init l) t) as [s2| | |] eqn:He; [exfalso|left; reflexivity|exfalso|right; reflexivity].
    + assert (Heq : exec_nodes [] f VInvalid (s_init l) t = exec_nodes [] exec_fuel VInvalid (s_init l) t).
      { destruct (Nat.le_ge_cases f exec_fuel) as [Hle|Hle].
        - symmetry. apply exec_nodes_mono; [exact Hle|rewrite Hx; apply fin_panic].
        - apply exec_nodes_mono; [exact Hle|rewrite He; apply fin_ok]. }
      rewrite Hx, He in Heq. discriminate Heq.
    + assert (Heq : exec_nodes [] f VInvalid (s_init l) t = exec_nodes [] exec_fuel VInvalid (s_init l) t).
      { destruct (Nat.le_ge_cases f exec_fuel) as [Hle|Hle].
        - symmetry. apply exec_nodes_mono; [exact Hle|rewrite Hx; apply fin_panic].
        - apply exec_nodes_mono; [exact Hle|rewrite He; unfold fin; discriminate]. }
      rewrite Hx, He in Heq. discriminate Heq.
Qed.

(* ---- non-vacuity: nested if / else-if / else, a counting while with ++ and an assignment inside, variables
   printed afterwards (escaped buffered code), a tag and a void tag ------------------------------------------------- *)
Definition x_names : list bytes := [B "n"; B "t"; B "p"; B "i"; B "acc"].
Definition x_data : dval := DMap [(B "n", DInt 3); (B "t", DStr (B "k1")); (B "p", DBool true)].
Definition x_nodes : list pnode :=
  [PCode [SVar [JVar (B "i") (Some (JNum 0))]] false false;
   PCode [SVar [JVar (B "acc") (Some (JNum 1))]] false false;
   PWhile (JBin BLt (JId (B "i")) (JId (B "n")))
     [PCode [SExpr (JUn UInc true (JId (B "i")))] false false;
      PCode [SExpr (JAssign None (JId (B "acc")) (JBin BMul (JId (B "acc")) (JNum 2)))] false false;
      PCond (JBin BSEq (JId (B "i")) (JNum 1)) [PText (B "one ")]
        (Some (PCond (JBin BAnd (JBin BSEq (JId (B "i")) (JNum 2)) (JId (B "p"))) [PText (B "two ")]
           (Some (PBlock [PText (B "many ")]))))];
   PTag (B "p") false [] [] [PCode [SExpr (JId (B "acc"))] true true];
   PTag (B "br") false [] [] [];
   PCode [SExpr (JBin BAdd (JId (B "t")) (JId (B "i")))] true true].

Example x_both_sides :
  data_ok x_names x_data = true /\
  sem_run x_nodes (sd_top x_data) = SOut (B "one two many <p>8</p><br>k13") [] /\
  match lower_nodes ex_funcs (goodS ex_funcs x_names) x_nodes with
  | Some t => length t = 10%nat /\
              run_program {| p_main := t; p_defs := [] |} x_data = OOk (B "one two many <p>8</p><br>k13")
  | None => False
  end.
Proof. vm_compute. repeat split; reflexivity. Qed.

(* the theorem applies to it *)
Example x_theorem_applies :
  exists t, lower_nodes ex_funcs (goodS ex_funcs x_names) x_nodes = Some t /\
            (run_program {| p_main := t; p_defs := [] |} x_data = OOk (B "one two many <p>8</p><br>k13") \/
             run_program {| p_main := t; p_defs := [] |} x_data = OFuel).
Proof.
  destruct (lower_nodes ex_funcs (goodS ex_funcs x_names) x_nodes) as [t|] eqn:Hl; [|vm_compute in Hl; discriminate Hl].
  exists t. split; [reflexivity|].
  pose proof (program_scalar ex_funcs x_names x_nodes t x_data Hl (proj1 x_both_sides)) as H.
  rewrite (proj1 (proj2 x_both_sides)) in H. exact H.
Qed.
