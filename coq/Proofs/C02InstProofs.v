(* C02 — the program-level simulation of Proofs/C02SimProofs.v instantiated with the scalar expression fragment
   (Proofs/C01EvalProofs.v), the initial states of a render (top-level data: scalars and arrays of scalars), and the
   statement about whole renders. *)
From PV Require Import Base.Bytes Base.Escape Js.Ast Tmpl.Value Tmpl.IR Tmpl.Runtime Tmpl.Exec Pug.Ast Pug.Compile
  Pug.Lower Spec.Sem Spec.HtmlSer Proofs.ExecMono Proofs.C01Proofs Proofs.C02Proofs Proofs.C03Proofs Proofs.C06Proofs
  Proofs.C01EvalProofs Proofs.C02SimProofs Run.Judge_Core.
Local Open Scope Z_scope.

(* ---- the hypotheses of Section Sim for goodb := goodS funcs names, vr := repu, okj := jv_ok -------------------- *)
Lemma repu_truthy h g v j : repu v j -> truthy h v = Ok (fst (to_boolean g j)) /\ snd (to_boolean g j) = g.
Proof. intros R. split; [exact (truthy_u h g v j R)|]. rewrite (to_boolean_u g v j R). reflexivity. Qed.
Lemma repu_bool v b : repu v (JB b) -> v = VBool b \/ v = VGoBool b.
Proof. intros R. apply repu_rep in R; [|discriminate]. inversion R; auto. Qed.
Lemma repu_num v z : repu v (JN z) -> v = VInt z \/ v = VNum z.
Proof. intros R. apply repu_rep in R; [|discriminate]. inversion R; auto. Qed.
Lemma repu_num_intro z : repu (VNum z) (JN z).
Proof. left. constructor. Qed.
Lemma repu_int_intro z : repu (VInt z) (JN z).
Proof. left. constructor. Qed.
Lemma repu_nullish v j : repu v j -> j = JUndef \/ j = JNul -> v = VNil \/ v = VInvalid.
Proof. intros [H|[-> _]] Hj; [|left; reflexivity]. destruct H; destruct Hj; try discriminate; auto. Qed.
Lemma jv_ok_num z : in_range z = true -> jv_ok (JN z).
Proof. exact (fun H => H). Qed.
Lemma repu_gostr_intro t : repu (VGoStr t) (JS t).
Proof. left. constructor. Qed.
Lemma jv_ok_str t : jv_ok (JS t).
Proof. exact I. Qed.

Lemma void_agree_holds name : is_void name = mem name void_tags.
Proof. rewrite is_void_spec. reflexivity. Qed.

(* on the scalar fragment the identifiers an expression mentions are its variables *)
Lemma evars_fv funcs : forall e, scalar_core funcs e = true -> evars e = fv e.
Proof.
  induction e as [x|z|txt|t|parts|b| |es|kvs|e0 IH0 name|e0 IH0 i IHi|fn IHfn args|fn IHfn args|op p x IHx
                 |op l IHl r IHr|c IHc a IHa b IHb|op l IHl r IHr|es|x init];
    intros Hsc; try discriminate Hsc; try reflexivity.
  - assert (Hscx : scalar_core funcs x = true) by (destruct op; try discriminate Hsc; exact Hsc).
    cbn [evars fv]. exact (IHx Hscx).
  - cbn [scalar_core] in Hsc. apply andb_prop in Hsc. destruct Hsc as [Hsc Hscr].
    apply andb_prop in Hsc. destruct Hsc as [_ Hscl]. cbn [evars fv]. rewrite (IHl Hscl), (IHr Hscr). reflexivity.
  - cbn [scalar_core] in Hsc. apply andb_prop in Hsc. destruct Hsc as [Hsc Hscb].
    apply andb_prop in Hsc. destruct Hsc as [Hscc Hsca]. cbn [evars fv].
    rewrite (IHc Hscc), (IHa Hsca), (IHb Hscb). reflexivity.
Qed.

Lemma goodS_own funcs names e : goodS funcs names e = true -> goodS funcs (fv e) e = true.
Proof.
  intros Hg. destruct (goodS_parts funcs names e Hg) as (Hsc & _ & Hn & Hd). unfold goodS.
  rewrite Hsc, Hd. apply Nat.ltb_lt in Hn. rewrite Hn. rewrite !andb_true_r. cbn [andb].
  apply forallb_forall. intros x Hx. apply mem_In. exact Hx.
Qed.
Lemma lexpr_goodS funcs n1 n2 e :
  goodS funcs n1 e = true -> goodS funcs n2 e = true ->
  lexpr funcs (goodS funcs n1) e = lexpr funcs (goodS funcs n2) e.
Proof. intros H1 H2. unfold lexpr. rewrite H1, H2. reflexivity. Qed.

Definition on_repu (e : jexpr) (vs : vars) (env : list (bytes * jv)) : Prop :=
  on_vars repu jv_ok e vs env.
Lemma on_vars_fv funcs e vs env :
  scalar_core funcs e = true -> on_vars repu jv_ok e vs env -> env_repu_on (fv e) vs env /\ env_range_on (fv e) env.
Proof.
  intros Hsc H. unfold on_vars in H. rewrite (evars_fv funcs e Hsc) in H. split; intros x Hx; [exact (proj1 (H x Hx))|exact (proj2 (H x Hx))].
Qed.

Lemma goodS_eval_on funcs names e :
  goodS funcs names e = true ->
  forall E h g j g', on_vars repu jv_ok e (e_vars E) (s_env g) ->
    sem_expr efuel g e = SOk (j, g') -> s_flags g' = s_flags g ->
    exists a v, lx funcs (goodS funcs names) e = Some a /\
                (forall d, eval_pipeline E h (d, [[a]]) = Ok (v, h)) /\ repu v j /\ jv_ok j.
Proof.
  intros Hg E h g j g' Hon Hs Hf. destruct (goodS_parts funcs names e Hg) as (Hsc & _).
  destruct (on_vars_fv funcs e _ _ Hsc Hon) as [Hrep Hrng].
  destruct (goodS_eval_pipeline funcs (fv e) e (goodS_own funcs names e Hg) E h g j g' Hrep Hrng Hs Hf)
    as (a & v & La & Ev & Hv & Hj & _).
  exists a, v. unfold lx. rewrite (lexpr_goodS funcs names (fv e) e Hg (goodS_own funcs names e Hg)).
  split; [exact La|split; [exact Ev|split; assumption]].
Qed.

Lemma goodS_same funcs names e :
  goodS funcs names e = true ->
  forall g j g', sem_expr efuel g e = SOk (j, g') -> s_flags g' = s_flags g -> g' = g.
Proof.
  intros Hg g j g' Hs Hf. destruct (goodS_parts funcs names e Hg) as (Hsc & _).
  exact (sem_same_state funcs efuel g e j g' Hsc Hs Hf).
Qed.

Lemma goodS_fv funcs names e : goodS funcs names e = true -> forall x, In x (evars e) -> In x names.
Proof.
  intros Hg x Hx. destruct (goodS_parts funcs names e Hg) as (Hsc & Hfv & _).
  rewrite (evars_fv funcs e Hsc) in Hx. exact (Hfv x Hx).
Qed.

Lemma goodS_print_on funcs names e :
  goodS funcs names e = true -> Lower.printable e = true ->
  forall defs f dot s g j t, on_vars repu jv_ok e (f_vars (cur s)) (s_env g) ->
    sem_expr efuel g e = SOk (j, g) -> print_string g j = SOk (t, g) ->
    exists a, lx funcs (goodS funcs names) e = Some a /\
              exec_node defs (S f) dot s (NAction ([], [a] :: esc_cmds false)) = Ok (emit s (escape t)).
Proof.
  intros Hg Hp defs f dot s g j t Hon Hs Hpr. destruct (goodS_parts funcs names e Hg) as (Hsc & _).
  destruct (on_vars_fv funcs e _ _ Hsc Hon) as [Hrep Hrng].
  destruct (goodS_print funcs (fv e) e true (goodS_own funcs names e Hg) Hp defs f dot s g g j t g Hrep Hrng Hs Hpr eq_refl eq_refl)
    as (a & La & X & _).
  exists a. unfold lx. rewrite (lexpr_goodS funcs names (fv e) e Hg (goodS_own funcs names e Hg)).
  split; [exact La|exact X].
Qed.

(* a when's test: `__op__eql e w` is the expression e === w *)
Lemma lexpr_carg funcs gb e a : lexpr funcs gb e = Some a -> exists t, carg funcs true e = Some (t, Some a).
Proof.
  unfold lexpr. destruct (gb e); [|discriminate]. destruct (carg funcs true e) as [[t [a'|]]|]; try discriminate.
  intros H. injection H as ->. exists t. reflexivity.
Qed.

Local Strategy opaque [eval_cmds eval_operand eval_args call_ident field_chain eval_field].
Lemma eval_cmd_pipe f E h cmds : eval_cmd (S f) E h [APipe [] cmds] VInvalid = eval_cmds f E h cmds VInvalid.
Proof. reflexivity. Qed.
Local Strategy opaque [eval_cmd].

Lemma goodS_case funcs names e w :
  goodS funcs names (JBin BSEq e w) = true ->
  forall E h g v wv, on_vars repu jv_ok e (e_vars E) (s_env g) -> on_vars repu jv_ok w (e_vars E) (s_env g) ->
    sem_expr efuel g e = SOk (v, g) -> sem_expr efuel g w = SOk (wv, g) ->
    forall ea wa, lx funcs (goodS funcs names) e = Some ea -> lx funcs (goodS funcs names) w = Some wa ->
    forall b, jv_strict_eq v wv = Some b ->
    exists vb, eval_pipeline E h (eql_pipe ea wa) = Ok (vb, h) /\ truthy h vb = Ok b.
Proof.
  intros Hg E h g v wv One Onw Ee Ew ea wa Le Lw b Eq.
  destruct (goodS_parts funcs names _ Hg) as (Hsc & _ & Hn & Hd).
  pose proof Hsc as Hsc0. cbn [scalar_core] in Hsc0. apply andb_prop in Hsc0. destruct Hsc0 as [Hsc0 Hscw].
  apply andb_prop in Hsc0. destruct Hsc0 as [_ Hsce].
  destruct (on_vars_fv funcs e _ _ Hsce One) as [Hrepe Hrnge].
  destruct (on_vars_fv funcs w _ _ Hscw Onw) as [Hrepw Hrngw].
  assert (Hrep : env_repu_on (fv (JBin BSEq e w)) (e_vars E) (s_env g)).
  { intros x Hx. cbn [fv] in Hx. apply in_app_or in Hx. destruct Hx; [apply Hrepe|apply Hrepw]; assumption. }
  assert (Hrng : env_range_on (fv (JBin BSEq e w)) (s_env g)).
  { intros x Hx. cbn [fv] in Hx. apply in_app_or in Hx. destruct Hx; [apply Hrnge|apply Hrngw]; assumption. }
  assert (Hs : sem_expr (S efuel) g (JBin BSEq e w) = SOk (JB b, g)).
  { rewrite (sem_bin efuel g BSEq e w eq_refl), Ee. cbn [sbind]. rewrite Ew. cbn [sbind sem_binop]. rewrite Eq. reflexivity. }
  destruct (compile_eval_fuel_safe funcs E h (JBin BSEq e w) (S expr_fuel) (S efuel) g (JB b) g Hsc
              (Nat.lt_le_incl _ _ (Nat.lt_lt_succ_r _ _ Hn)) Hrep Hrng Hs eq_refl Hd)
    as (t & a & vb & Hc & _ & Hcmd & Rb & _).
  destruct (lexpr_carg _ _ _ _ Le) as [te Ce]. destruct (lexpr_carg _ _ _ _ Lw) as [tw Cw].
  assert (Ha : a = APipe [] [[AIdent (B "__op__eql"); ea; wa]]).
  { cbn [carg] in Hc. rewrite (helper_name BSEq eq_refl) in Hc. rewrite (helper_runtime BSEq eq_refl) in Hc.
    cbn [negb] in Hc. rewrite Ce, Cw in Hc. injection Hc as _ <-. reflexivity. }
  subst a. exists vb. split.
  - rewrite eval_cmd_pipe in Hcmd. unfold eval_pipeline, eql_pipe. cbn [snd]. exact Hcmd.
  - rewrite (truthy_u h g vb (JB b) Rb). reflexivity.
Qed.

(* the simulation for the scalar control fragment: every hypothesis discharged *)
Theorem sim_scalar funcs names globals fs :
  P_nodes funcs (goodS funcs names) names globals repu jv_ok fs /\
  P_node funcs (goodS funcs names) names globals repu jv_ok fs.
Proof.
  apply sim_all.
  - exact repu_truthy.
  - exact repu_bool.
  - exact repu_num.
  - exact repu_num_intro.
  - exact repu_int_intro.
  - exact repu_not_ref.
  - exact repu_nullish.
  - exact repu_gostr_intro.
  - exact jv_ok_num.
  - exact jv_ok_str.
  - intros e Hg. exact (goodS_eval_on funcs names e Hg).
  - intros e Hg. exact (goodS_same funcs names e Hg).
  - intros e Hg. exact (goodS_mono funcs names e Hg).
  - intros e Hg. exact (goodS_noerr funcs names e Hg).
  - intros e Hg. exact (goodS_fv funcs names e Hg).
  - intros e Hg Hp. exact (goodS_print_on funcs names e Hg Hp).
  - intros e w Hg. exact (goodS_case funcs names e w Hg).
  - exact void_agree_holds.
Qed.
(* ---- the initial states of a render ----------------------------------------------------------------------------- *)
(* top-level data: a map of scalars (numbers in range) whose keys start with no upper-case letter (the engine
   also binds $lowerFirst(k)); the engine's own variable $global is not a name of the program *)
Definition scalar_d (d : dval) : bool :=
  match d with DNil | DBool _ | DStr _ => true | DInt z => in_range z | _ => false end.
Definition entry_ok (kv : bytes * dval) : bool := scalar_d (snd kv) && beqb (lower_first (fst kv)) (fst kv).
Definition data_ok (names : list bytes) (d : dval) : bool :=
  match d with
  | DMap l => forallb entry_ok l && negb (mem (B "global") names)
  | _ => false
  end.

Definition cv (d : dval) : val :=
  match d with DBool b => VBool b | DInt z => VNum z | DStr s => VStr s | _ => VNil end.
Definition sv (d : dval) : jv :=
  match d with DBool b => JB b | DInt z => JN z | DStr s => JS s | _ => JNul end.
Fixpoint items_of (l : list (bytes * dval)) : list (bytes * val) :=
  match l with [] => [] | (k, x) :: r => insert k (cv x) (items_of r) end.
Fixpoint senv_of (l : list (bytes * dval)) : list (bytes * jv) :=
  match l with [] => [] | (k, x) :: r => insert k (sv x) (senv_of r) end.

Lemma entries_scalar l : forallb entry_ok l = true -> forallb (fun kv => scalar_d (snd kv)) l = true.
Proof.
  induction l as [|kv r IH]; cbn [forallb]; intros H; [reflexivity|].
  apply andb_prop in H. destruct H as [H1 H2]. unfold entry_ok in H1. apply andb_prop in H1. destruct H1 as [H1 _].
  rewrite H1, (IH H2). reflexivity.
Qed.

Lemma convert_scalar h d : scalar_d d = true -> convert h d = (cv d, h).
Proof. destruct d; try discriminate; reflexivity. Qed.
Lemma sdata_scalar h d : scalar_d d = true -> sdata_val h (sd_of d) = (sv d, h).
Proof. destruct d; try discriminate; reflexivity. Qed.

Lemma convert_items l : forall h, forallb (fun kv => scalar_d (snd kv)) l = true ->
  (fix go (l : list (bytes * dval)) (h : heap) : list (bytes * val) * heap :=
     match l with
     | [] => ([], h)
     | (k, x) :: r => let '(v, h1) := convert h x in let '(vs, h2) := go r h1 in (insert k v vs, h2)
     end) l h = (items_of l, h).
Proof.
  induction l as [|[k x] r IH]; intros h H; [reflexivity|].
  cbn [forallb snd] in H. apply andb_prop in H. destruct H as [Hx Hr].
  rewrite (convert_scalar h x Hx), (IH h Hr). reflexivity.
Qed.

Lemma convert_map l h : forallb (fun kv => scalar_d (snd kv)) l = true ->
  convert h (DMap l) = (VMap (length h), h ++ [OMap (items_of l) []]).
Proof. intros H. cbn [convert]. rewrite (convert_items l h H). reflexivity. Qed.

Lemma senv_items l : forall h, forallb (fun kv => scalar_d (snd kv)) l = true ->
  (fix go (l : list (bytes * sdata)) (h : jheap) : list (bytes * jv) * jheap :=
     match l with
     | [] => ([], h)
     | (k, x) :: r => let '(v, h1) := sdata_val h x in let '(e, h2) := go r h1 in (insert k v e, h2)
     end) (map (fun kv => (fst kv, sd_of (snd kv))) l) h = (senv_of l, h).
Proof.
  induction l as [|[k x] r IH]; intros h H; [reflexivity|].
  cbn [forallb snd] in H. apply andb_prop in H. destruct H as [Hx Hr].
  cbn [map fst snd]. rewrite (sdata_scalar h x Hx), (IH h Hr). reflexivity.
Qed.

(* the two initial states *)
Definition g_init (l : list (bytes * dval)) : sstate :=
  {| s_env := senv_of l; s_heap := []; s_out := []; s_flags := []; s_grown := [] |}.
Definition globals_of (l : list (bytes * dval)) : vars :=
  flat_map (fun k => let x := member_lookup (items_of l) k in [(k, x); (lower_first k, x)])
           (sort_bytes (keys (items_of l))) ++ [(B "global", VMap 1)].
Definition s_init (l : list (bytes * dval)) : xstate :=
  {| x_frames := [{| f_vars := globals_of l; f_globals := globals_of l; f_bound := []; f_depth := 0 |}];
     x_heap := [OMap (items_of l) []; OMap [] []]; x_out := [] |}.

Lemma init_state_scalar l :
  forallb (fun kv => scalar_d (snd kv)) l = true -> init_state (DMap l) = Some (s_init l).
Proof. intros H. unfold init_state. rewrite (convert_map l [] H). reflexivity. Qed.

Lemma sem_run_scalar nodes l :
  forallb (fun kv => scalar_d (snd kv)) l = true ->
  sem_run nodes (sd_top (DMap l)) =
  match sem_nodes (senv_of l) sem_fuel [] None (g_init l) nodes with
  | SOk (s, _) => SOut (soutput s) (s_flags s)
  | SErr fl => SError fl
  | SOff => SOffDomain
  | SFuel => SNoFuel
  end.
Proof.
  intros H. unfold sem_run, sd_top. cbn [sd_of]. rewrite (senv_items l [] H). reflexivity.
Qed.

(* lookups in the two environments follow the data (the first binding of a key wins on both sides) *)
Lemma lookup_items x l : lookup x (items_of l) = option_map cv (lookup x l).
Proof.
  induction l as [|[k d] r IH]; [reflexivity|]. cbn [items_of lookup].
  destruct (beqb x k) eqn:E.
  - apply beqb_eq in E. subst. rewrite lookup_insert_same. reflexivity.
  - apply beqb_neq in E. rewrite lookup_insert_other by (intros Hk; apply E; symmetry; exact Hk). exact IH.
Qed.
Lemma lookup_senv x l : lookup x (senv_of l) = option_map sv (lookup x l).
Proof.
  induction l as [|[k d] r IH]; [reflexivity|]. cbn [senv_of lookup].
  destruct (beqb x k) eqn:E.
  - apply beqb_eq in E. subst. rewrite lookup_insert_same. reflexivity.
  - apply beqb_neq in E. rewrite lookup_insert_other by (intros Hk; apply E; symmetry; exact Hk). exact IH.
Qed.

Lemma lookup_In {A} x (l : list (bytes * A)) d : lookup x l = Some d -> In (x, d) l.
Proof.
  induction l as [|[k v] r IH]; [discriminate|]. cbn [lookup]. destruct (beqb x k) eqn:E.
  - apply beqb_eq in E. subst. intros H. injection H as ->. left; reflexivity.
  - intros H. right. exact (IH H).
Qed.

Lemma beqb_sym a b : beqb a b = beqb b a.
Proof.
  destruct (beqb a b) eqn:E.
  - apply beqb_eq in E. subst. symmetry. apply beqb_refl.
  - apply beqb_neq in E. symmetry. apply beqb_neq. congruence.
Qed.

Lemma In_insert_sorted lt (x y : bytes) l : In x (insert_sorted lt y l) <-> x = y \/ In x l.
Proof.
  induction l as [|z r IH]; cbn [insert_sorted].
  - cbn. intuition congruence.
  - destruct (lt y z); cbn [In]; [intuition congruence|]. rewrite IH. intuition congruence.
Qed.
Lemma In_sort_bytes x l : In x (sort_bytes l) <-> In x l.
Proof.
  unfold sort_bytes. induction l as [|y r IH]; cbn [fold_right]; [reflexivity|].
  rewrite In_insert_sorted, IH. cbn [In]. intuition congruence.
Qed.
Lemma mem_sort_bytes x l : mem x (sort_bytes l) = mem x l.
Proof.
  destruct (mem x l) eqn:E.
  - apply (proj2 (mem_In _ _)). apply (proj2 (In_sort_bytes x l)). apply (proj1 (mem_In x l)). exact E.
  - apply mem_false_In. intros H. apply (proj1 (In_sort_bytes x l)) in H. apply (proj2 (mem_In x l)) in H. congruence.
Qed.

(* the engine's double binding ($k and $lowerFirst k) is one binding when lowerFirst k = k *)
Lemma var_get_flat (F : bytes -> val) x : forall ks,
  (forall k, In k ks -> lower_first k = k) ->
  var_get (flat_map (fun k => [(k, F k); (lower_first k, F k)]) ks) x = if mem x ks then Some (F x) else None.
Proof.
  induction ks as [|k r IH]; intros Hk; [reflexivity|].
  cbn [flat_map app]. rewrite (Hk k (or_introl eq_refl)). cbn [var_get].
  rewrite (IH (fun k' H => Hk k' (or_intror H))).
  unfold mem. cbn [existsb]. fold (mem x r). rewrite (beqb_sym x k).
  destruct (mem x r); [rewrite orb_true_r; reflexivity|]. rewrite orb_false_r.
  destruct (beqb k x) eqn:E; [|reflexivity]. apply beqb_eq in E. subst. reflexivity.
Qed.

Lemma keys_items_In x l : In x (keys (items_of l)) <-> exists d, lookup x l = Some d.
Proof.
  rewrite <- lookup_In_keys. rewrite lookup_items. split.
  - intros [v H]. destruct (lookup x l) as [d|]; [exists d; reflexivity|discriminate].
  - intros [d ->]. eexists; reflexivity.
Qed.

Lemma var_val_init l x :
  forallb entry_ok l = true -> x <> B "global" ->
  var_val (globals_of l) x = match lookup x l with Some d => cv d | None => VInvalid end.
Proof.
  intros Hok Hx. unfold var_val, globals_of. rewrite var_get_app_new.
  destruct (beqb (B "global") x) eqn:E; [apply beqb_eq in E; congruence|].
  rewrite (var_get_flat (fun k => member_lookup (items_of l) k) x).
  - rewrite mem_sort_bytes. destruct (lookup x l) as [d|] eqn:El.
    + assert (Hm : mem x (keys (items_of l)) = true) by (apply mem_In, keys_items_In; exists d; exact El).
      rewrite Hm. unfold member_lookup. rewrite lookup_items, El. reflexivity.
    + assert (Hm : mem x (keys (items_of l)) = false).
      { apply mem_false_In. intros H. apply keys_items_In in H. destruct H as [d H]. congruence. }
      rewrite Hm. reflexivity.
  - intros k Hk. apply In_sort_bytes, keys_items_In in Hk. destruct Hk as [d Hd].
    apply lookup_In in Hd. rewrite forallb_forall in Hok. specialize (Hok _ Hd).
    unfold entry_ok in Hok. apply andb_prop in Hok. destruct Hok as [_ Hl]. cbn [fst] in Hl.
    apply beqb_eq in Hl. exact Hl.
Qed.

Lemma rep_cv_sv d : scalar_d d = true -> rep (cv d) (sv d) /\ jv_ok (sv d).
Proof. destruct d; try discriminate; cbn; intros H; split; try constructor; try exact I; exact H. Qed.

(* ---- the initial states of a render, data with arrays ------------------------------------------------------------ *)
(* top-level data: a map whose entries are scalars (numbers in range) or — under a key that is not one of the scalar
   names — arrays of scalars (fewer than 10^10 elements) or maps of scalars (keys listed in ascending order); top-level
   keys start with no upper-case letter; the engine's own variable $global is not a name of the program.
   [data_ok] (scalars only) is the special case. *)

Definition arr_d (d : dval) : bool :=
  match d with DArr l => forallb scalar_d l && in_range (Z.of_nat (length l)) | _ => false end.
(* strictly ascending keys: every key is below every later one *)
Fixpoint asc (ks : list bytes) : bool :=
  match ks with [] => true | k :: r => forallb (fun y => bytes_lt k y) r && asc r end.
(* a map of scalars, its keys listed in ascending order (a Go map has no order of its own; this fixes the listing) *)
Definition map_d (d : dval) : bool :=
  match d with DMap l => forallb (fun kv => scalar_d (snd kv)) l && asc (map fst l) | _ => false end.
Definition coll_d (d : dval) : bool := arr_d d || map_d d.
Definition entry_ok_arr (names : list bytes) (kv : bytes * dval) : bool :=
  (scalar_d (snd kv) || (coll_d (snd kv) && negb (mem (fst kv) names))) && beqb (lower_first (fst kv)) (fst kv).
Definition data_ok_arr (names : list bytes) (d : dval) : bool :=
  match d with
  | DMap l => forallb (entry_ok_arr names) l && negb (mem (B "global") names)
  | _ => false
  end.

(* the local loops of convert / sdata_val / sem_run, named *)
Definition conv_list := fix go (l : list dval) (h : heap) : list val * heap :=
  match l with
  | [] => ([], h)
  | x :: r => let '(v, h1) := convert h x in let '(vs, h2) := go r h1 in (v :: vs, h2)
  end.
Definition conv_items := fix go (l : list (bytes * dval)) (h : heap) : list (bytes * val) * heap :=
  match l with
  | [] => ([], h)
  | (k, x) :: r => let '(v, h1) := convert h x in let '(vs, h2) := go r h1 in (insert k v vs, h2)
  end.
Definition sconv_list := fix go (l : list sdata) (h : jheap) : list jv * jheap :=
  match l with
  | [] => ([], h)
  | x :: r => let '(v, h1) := sdata_val h x in let '(vs, h2) := go r h1 in (v :: vs, h2)
  end.
Definition sconv_env := fix go (l : list (bytes * sdata)) (h : jheap) : list (bytes * jv) * jheap :=
  match l with
  | [] => ([], h)
  | (k, x) :: r => let '(v, h1) := sdata_val h x in let '(e, h2) := go r h1 in (insert k v e, h2)
  end.

Lemma convert_arr h l :
  convert h (DArr l) = (let '(items, h1) := conv_list l h in let '(loc, h2) := alloc h1 (OArr items) in (VArr loc, h2)).
Proof. reflexivity. Qed.
Lemma convert_dmap h l :
  convert h (DMap l) = (let '(items, h1) := conv_items l h in let '(loc, h2) := alloc h1 (OMap items []) in (VMap loc, h2)).
Proof. reflexivity. Qed.
Lemma sdata_arr h l :
  sdata_val h (SDArr l) =
  (let '(items, h1) := sconv_list l h in let '(loc, h2) := jalloc h1 (JArrO items) in (JA loc, h2)).
Proof. reflexivity. Qed.

Lemma conv_list_scalar l h : forallb scalar_d l = true -> conv_list l h = (map cv l, h).
Proof.
  induction l as [|x r IH]; intros H; [reflexivity|]. cbn [forallb] in H. apply andb_prop in H. destruct H as [Hx Hr].
  cbn [conv_list map]. rewrite (convert_scalar h x Hx). fold conv_list. rewrite (IH Hr). reflexivity.
Qed.
Lemma sconv_list_scalar l h : forallb scalar_d l = true -> sconv_list (map sd_of l) h = (map sv l, h).
Proof.
  induction l as [|x r IH]; intros H; [reflexivity|]. cbn [forallb] in H. apply andb_prop in H. destruct H as [Hx Hr].
  cbn [sconv_list map]. rewrite (sdata_scalar h x Hx). fold sconv_list. rewrite (IH Hr). reflexivity.
Qed.


(* ---- ascending key lists: both sides' sorting leaves them as they are --------------------------------------------- *)
Lemma bytes_lt_ltb a : forall b, bytes_lt a b = bytes_ltb a b.
Proof. intros b. reflexivity. Qed.
Lemma bytes_ltb_asym a : forall b, bytes_ltb a b = true -> bytes_ltb b a = false.
Proof.
  induction a as [|x a IH]; intros [|y b]; cbn; intros H; try discriminate; try reflexivity.
  destruct (N.ltb (N_of_ascii x) (N_of_ascii y)) eqn:E1.
  - apply N.ltb_lt in E1. assert (E2 : N.ltb (N_of_ascii y) (N_of_ascii x) = false) by (apply N.ltb_ge; lia).
    rewrite E2. reflexivity.
  - destruct (N.ltb (N_of_ascii y) (N_of_ascii x)) eqn:E2; [discriminate H|]. exact (IH b H).
Qed.
Lemma bytes_ltb_irrefl a : bytes_ltb a a = false.
Proof. destruct (bytes_ltb a a) eqn:E; [|reflexivity]. rewrite (bytes_ltb_asym a a E) in E. discriminate E. Qed.

Lemma asc_head k r x : asc (k :: r) = true -> In x r -> bytes_ltb k x = true.
Proof.
  cbn [asc]. intros H Hx. apply andb_prop in H. destruct H as [H _]. rewrite forallb_forall in H.
  rewrite <- bytes_lt_ltb. exact (H x Hx).
Qed.
Lemma asc_tail k r : asc (k :: r) = true -> asc r = true.
Proof. cbn [asc]. intros H. apply andb_prop in H. exact (proj2 H). Qed.
Lemma asc_not_in k r : asc (k :: r) = true -> ~ In k r.
Proof. intros H Hk. pose proof (asc_head k r k H Hk) as E. rewrite bytes_ltb_irrefl in E. discriminate E. Qed.

Lemma insert_sorted_last k : forall acc,
  (forall y, In y acc -> bytes_ltb k y = false) -> insert_sorted bytes_ltb k acc = acc ++ [k].
Proof.
  induction acc as [|y r IH]; intros H; [reflexivity|]. cbn [insert_sorted app]. rewrite (H y (or_introl eq_refl)).
  rewrite IH; [reflexivity|]. intros z Hz. apply H. right; exact Hz.
Qed.
Lemma sort_fold_left ks : forall acc, asc ks = true ->
  (forall y x, In y acc -> In x ks -> bytes_ltb x y = false) ->
  fold_left (fun a x => insert_sorted bytes_ltb x a) ks acc = acc ++ ks.
Proof.
  induction ks as [|k r IH]; intros acc Ha H; [rewrite app_nil_r; reflexivity|]. cbn [fold_left].
  rewrite (insert_sorted_last k acc) by (intros y Hy; exact (H y k Hy (or_introl eq_refl))).
  rewrite (IH (acc ++ [k]) (asc_tail k r Ha)).
  - rewrite <- app_assoc. reflexivity.
  - intros y x Hy Hx. apply in_app_or in Hy. destruct Hy as [Hy|[<-|[]]].
    + exact (H y x Hy (or_intror Hx)).
    + apply bytes_ltb_asym. exact (asc_head k r x Ha Hx).
Qed.
Lemma sort_bytes_rev_asc ks : asc ks = true -> sort_bytes (rev ks) = ks.
Proof.
  intros Ha. unfold sort_bytes. rewrite fold_left_rev_right.
  exact (sort_fold_left ks [] Ha (fun y x Hy _ => match Hy with end)).
Qed.

Lemma insert_fresh {A} k (v : A) : forall m, ~ In k (keys m) -> insert k v m = m ++ [(k, v)].
Proof.
  induction m as [|[k0 v0] r IH]; intros H; [reflexivity|]. cbn [insert app].
  destruct (beqb k k0) eqn:E; [apply beqb_eq in E; subst; exfalso; apply H; left; reflexivity|].
  rewrite IH; [reflexivity|]. intros Hr. apply H. right. exact Hr.
Qed.
Lemma keys_items_asc kvs : asc (map fst kvs) = true -> keys (items_of kvs) = rev (map fst kvs).
Proof.
  induction kvs as [|[k d] r IH]; intros Ha; [reflexivity|]. cbn [map fst] in Ha. cbn [items_of map fst rev].
  pose proof (IH (asc_tail _ _ Ha)) as Hk.
  rewrite insert_fresh.
  - unfold keys in *. rewrite map_app, Hk. reflexivity.
  - rewrite Hk. intros H. apply in_rev in H. exact (asc_not_in _ _ Ha H).
Qed.
Lemma asc_lookup {A} (kvs : list (bytes * A)) : asc (map fst kvs) = true ->
  forall k d, In (k, d) kvs -> lookup k kvs = Some d.
Proof.
  induction kvs as [|[k0 d0] r IH]; intros Ha k d H; [destruct H|]. cbn [map fst] in Ha. cbn [lookup].
  destruct H as [H|H].
  - injection H as -> ->. rewrite beqb_refl. reflexivity.
  - destruct (beqb k k0) eqn:E.
    + apply beqb_eq in E. subst k0. exfalso. apply (asc_not_in _ _ Ha). apply in_map_iff. exists (k, d). split; [reflexivity|exact H].
    + exact (IH (asc_tail _ _ Ha) k d H).
Qed.
Lemma sorted_id (props : list (bytes * jv)) :
  asc (map fst props) = true -> fold_right (fun p acc => ins_sorted bytes_lt p acc) [] props = props.
Proof.
  induction props as [|p r IH]; intros Ha; [reflexivity|]. cbn [map] in Ha. cbn [fold_right].
  rewrite (IH (asc_tail _ _ Ha)). destruct r as [|y r']; [reflexivity|]. cbn [ins_sorted].
  rewrite bytes_lt_ltb, (asc_head _ _ (fst y) Ha (or_introl eq_refl)). reflexivity.
Qed.

Definition sconv_props := fix go (l : list (bytes * sdata)) (h : jheap) : list (bytes * jv) * jheap :=
  match l with
  | [] => ([], h)
  | (k, x) :: r => let '(v, h1) := sdata_val h x in let '(vs, h2) := go r h1 in ((k, v) :: vs, h2)
  end.
Lemma sdata_map h l :
  sdata_val h (SDMap l) =
  (let '(props, h1) := sconv_props l h in
   let sorted := fold_right (fun p acc => ins_sorted bytes_lt p acc) [] props in
   let '(loc, h2) := jalloc h1 (JObjO sorted) in (JO loc, h2)).
Proof. reflexivity. Qed.
Definition props_of (kvs : list (bytes * dval)) : list (bytes * jv) := map (fun kv => (fst kv, sv (snd kv))) kvs.
Lemma sconv_props_scalar kvs h : forallb (fun kv => scalar_d (snd kv)) kvs = true ->
  sconv_props (map (fun kv => (fst kv, sd_of (snd kv))) kvs) h = (props_of kvs, h).
Proof.
  induction kvs as [|[k d] r IH]; intros H; [reflexivity|]. cbn [forallb snd] in H. apply andb_prop in H. destruct H as [Hx Hr].
  cbn [map fst snd sconv_props]. rewrite (sdata_scalar h d Hx). fold sconv_props. rewrite (IH Hr). reflexivity.
Qed.
Lemma props_of_keys kvs : map fst (props_of kvs) = map fst kvs.
Proof. unfold props_of. rewrite map_map. reflexivity. Qed.

(* the members of a data map in the engine's iteration order are S's properties in theirs *)
Lemma map_members_rel kvs :
  forallb (fun kv => scalar_d (snd kv)) kvs = true -> asc (map fst kvs) = true ->
  Forall2 (fun k p => k = fst p /\ repu (member_lookup (items_of kvs) k) (snd p) /\ jv_ok (snd p))
          (sort_bytes (keys (items_of kvs))) (props_of kvs).
Proof.
  intros Hs Ha. rewrite (keys_items_asc kvs Ha), (sort_bytes_rev_asc _ Ha).
  assert (H : forall kv, In kv kvs ->
            fst kv = fst (fst kv, sv (snd kv)) /\ repu (member_lookup (items_of kvs) (fst kv)) (snd (fst kv, sv (snd kv))) /\
            jv_ok (snd (fst kv, sv (snd kv)))).
  { intros [k d] Hin. cbn [fst snd]. split; [reflexivity|].
    rewrite forallb_forall in Hs. pose proof (Hs _ Hin) as Hd. cbn [snd] in Hd.
    unfold member_lookup. rewrite lookup_items, (asc_lookup kvs Ha k d Hin). cbn [option_map].
    destruct (rep_cv_sv d Hd) as [H1 H2]. split; [left; exact H1|exact H2]. }
  unfold props_of. clear Hs Ha. revert H. generalize (items_of kvs). intros items.
  induction kvs as [|kv r IH]; intros H; [constructor|]. cbn [map]. constructor.
  - exact (H kv (or_introl eq_refl)).
  - apply IH. intros kv' Hin. exact (H kv' (or_intror Hin)).
Qed.

(* what a data value becomes on the two sides, relative to the heaps that hold the collections *)
Definition dr (h : heap) (jh : jheap) (d : dval) (v : val) (j : jv) : Prop :=
  (scalar_d d = true /\ v = cv d /\ j = sv d) \/
  (exists ds l l', d = DArr ds /\ arr_d d = true /\ v = VArr l /\ j = JA l' /\
                   hget h l = Some (OArr (map cv ds)) /\ jget jh l' = Some (JArrO (map sv ds))) \/
  (exists kvs l l', d = DMap kvs /\ map_d d = true /\ v = VMap l /\ j = JO l' /\
                    hget h l = Some (OMap (items_of kvs) []) /\ jget jh l' = Some (JObjO (props_of kvs))).

Lemma nth_error_ext {A} (h e : list A) n x : nth_error h n = Some x -> nth_error (h ++ e) n = Some x.
Proof.
  intros H. rewrite nth_error_app1; [exact H|]. apply nth_error_Some. rewrite H. discriminate.
Qed.
Lemma nth_error_last {A} (h : list A) x : nth_error (h ++ [x]) (length h) = Some x.
Proof. rewrite nth_error_app2 by apply le_n. rewrite Nat.sub_diag. reflexivity. Qed.

Lemma dr_ext h jh e e' d v j : dr h jh d v j -> dr (h ++ e) (jh ++ e') d v j.
Proof.
  intros [H|[(ds & l & l' & Hd & Ha & Hv & Hj & Hh & Hjh)|(kvs & l & l' & Hd & Ha & Hv & Hj & Hh & Hjh)]];
    [left; exact H|right; left|right; right].
  - exists ds, l, l'. repeat (split; [assumption|]). split; [exact (nth_error_ext h e l _ Hh)|exact (nth_error_ext jh e' l' _ Hjh)].
  - exists kvs, l, l'. repeat (split; [assumption|]). split; [exact (nth_error_ext h e l _ Hh)|exact (nth_error_ext jh e' l' _ Hjh)].
Qed.

Lemma convert_dr h jh d :
  scalar_d d || coll_d d = true ->
  exists v j e e', convert h d = (v, h ++ e) /\ sdata_val jh (sd_of d) = (j, jh ++ e') /\ dr (h ++ e) (jh ++ e') d v j.
Proof.
  intros H. destruct (scalar_d d) eqn:Hs.
  - exists (cv d), (sv d), [], []. rewrite !app_nil_r.
    split; [exact (convert_scalar h d Hs)|]. split; [exact (sdata_scalar jh d Hs)|]. left. repeat split. exact Hs.
  - cbn [orb] in H. unfold coll_d in H. destruct d as [| | | |ds|kvs]; try discriminate H.
    + cbn [map_d] in H. rewrite orb_false_r in H.
      pose proof H as Ha. cbn [arr_d] in H. apply andb_prop in H. destruct H as [Hall _].
      exists (VArr (length h)), (JA (length jh)), [OArr (map cv ds)], [JArrO (map sv ds)].
      split; [|split].
      * rewrite convert_arr, (conv_list_scalar ds h Hall). reflexivity.
      * cbn [sd_of]. rewrite sdata_arr, (sconv_list_scalar ds jh Hall). reflexivity.
      * right. left. exists ds, (length h), (length jh). repeat (split; [reflexivity || assumption|]).
        split; [apply nth_error_last|apply nth_error_last].
    + cbn [arr_d orb] in H. pose proof H as Ha. cbn [map_d] in H. apply andb_prop in H. destruct H as [Hall Hasc].
      exists (VMap (length h)), (JO (length jh)), [OMap (items_of kvs) []], [JObjO (props_of kvs)].
      split; [|split].
      * exact (convert_map kvs h Hall).
      * cbn [sd_of]. rewrite sdata_map, (sconv_props_scalar kvs jh Hall). cbv zeta.
        rewrite (sorted_id (props_of kvs)) by (rewrite props_of_keys; exact Hasc). reflexivity.
      * right. right. exists kvs, (length h), (length jh). repeat (split; [reflexivity || assumption|]).
        split; [apply nth_error_last|apply nth_error_last].
Qed.

Definition entry_shape (kv : bytes * dval) : bool := scalar_d (snd kv) || coll_d (snd kv).

Lemma conv_items_rel l : forall h jh, forallb entry_shape l = true ->
  exists items env e e',
    conv_items l h = (items, h ++ e) /\
    sconv_env (map (fun kv => (fst kv, sd_of (snd kv))) l) jh = (env, jh ++ e') /\
    forall x, match lookup x l with
              | Some d => exists v j, lookup x items = Some v /\ lookup x env = Some j /\ dr (h ++ e) (jh ++ e') d v j
              | None => lookup x items = None /\ lookup x env = None
              end.
Proof.
  induction l as [|[k d] r IH]; intros h jh H.
  - exists [], [], [], []. rewrite !app_nil_r. split; [reflexivity|]. split; [reflexivity|]. intros x. split; reflexivity.
  - cbn [forallb] in H. apply andb_prop in H. destruct H as [Hd Hr].
    destruct (convert_dr h jh d Hd) as (v & j & e1 & e1' & Cv & Cj & Hdr).
    destruct (IH (h ++ e1) (jh ++ e1') Hr) as (items & env & e2 & e2' & Ci & Ce & Hx).
    exists (insert k v items), (insert k j env), (e1 ++ e2), (e1' ++ e2').
    split; [|split].
    + cbn [conv_items]. rewrite Cv. fold conv_items. rewrite Ci, app_assoc. reflexivity.
    + cbn [map fst snd sconv_env]. rewrite Cj. fold sconv_env. rewrite Ce, app_assoc. reflexivity.
    + intros x. cbn [lookup]. destruct (beqb x k) eqn:E.
      * apply beqb_eq in E. subst x. exists v, j. rewrite !lookup_insert_same. split; [reflexivity|]. split; [reflexivity|].
        rewrite !app_assoc. apply dr_ext. exact Hdr.
      * apply beqb_neq in E. assert (E' : k <> x) by congruence.
        rewrite !(lookup_insert_other k x _ _ E'). rewrite !app_assoc. exact (Hx x).
Qed.

(* the two initial states *)
Definition g_init_arr (l : list (bytes * dval)) : sstate :=
  let '(env, jh) := sconv_env (map (fun kv => (fst kv, sd_of (snd kv))) l) [] in
  {| s_env := env; s_heap := jh; s_out := []; s_flags := []; s_grown := [] |}.
Definition globals_at (items : list (bytes * val)) (gl : nat) : vars :=
  flat_map (fun k => let x := member_lookup items k in [(k, x); (lower_first k, x)])
           (sort_bytes (keys items)) ++ [(B "global", VMap gl)].
Definition s_init_arr (l : list (bytes * dval)) : xstate :=
  let '(items, h1) := conv_items l [] in
  {| x_frames := [{| f_vars := globals_at items (S (length h1)); f_globals := globals_at items (S (length h1));
                     f_bound := []; f_depth := 0 |}];
     x_heap := (h1 ++ [OMap items []]) ++ [OMap [] []]; x_out := [] |}.

Lemma init_state_eq l : init_state (DMap l) = Some (s_init_arr l).
Proof.
  unfold init_state, s_init_arr. rewrite convert_dmap. destruct (conv_items l []) as [items h1]. unfold alloc.
  unfold hget. rewrite nth_error_last. rewrite app_length, Nat.add_1_r. reflexivity.
Qed.

Lemma sem_run_eq nodes l :
  sem_run nodes (sd_top (DMap l)) =
  match sem_nodes (s_env (g_init_arr l)) sem_fuel [] None (g_init_arr l) nodes with
  | SOk (s, _) => SOut (soutput s) (s_flags s)
  | SErr fl => SError fl
  | SOff => SOffDomain
  | SFuel => SNoFuel
  end.
Proof.
  unfold sem_run, sd_top, g_init_arr. cbn [sd_of]. unfold sconv_env.
  match goal with |- context [let '(env, h) := ?t in _] => destruct t as [env jh] end. reflexivity.
Qed.

Lemma var_val_globals items gl x :
  (forall k, In k (keys items) -> lower_first k = k) -> x <> B "global" ->
  var_val (globals_at items gl) x = match lookup x items with Some v => v | None => VInvalid end.
Proof.
  intros Hok Hx. unfold var_val, globals_at. rewrite var_get_app_new.
  destruct (beqb (B "global") x) eqn:E; [apply beqb_eq in E; congruence|].
  rewrite (var_get_flat (fun k => member_lookup items k) x).
  - rewrite mem_sort_bytes. destruct (lookup x items) as [v|] eqn:El.
    + assert (Hm : mem x (keys items) = true) by (apply mem_In, lookup_In_keys; exists v; exact El).
      rewrite Hm. unfold member_lookup. rewrite El. reflexivity.
    + assert (Hm : mem x (keys items) = false).
      { apply mem_false_In. intros H. apply lookup_In_keys in H. destruct H as [v H]. congruence. }
      rewrite Hm. reflexivity.
  - intros k Hk. apply (proj1 (In_sort_bytes _ _)) in Hk. exact (Hok k Hk).
Qed.

Lemma scalars_rel ds : forallb scalar_d ds = true ->
  Forall2 (fun a b => repu a b /\ jv_ok b) (map cv ds) (map sv ds).
Proof.
  induction ds as [|d r IH]; intros H; [constructor|]. cbn [forallb] in H. apply andb_prop in H. destruct H as [Hd Hr].
  cbn [map]. constructor; [|exact (IH Hr)]. destruct (rep_cv_sv d Hd) as [H1 H2]. split; [left; exact H1|exact H2].
Qed.

Lemma entries_shape names l : forallb (entry_ok_arr names) l = true -> forallb entry_shape l = true.
Proof.
  induction l as [|kv r IH]; cbn [forallb]; intros H; [reflexivity|].
  apply andb_prop in H. destruct H as [H1 H2]. rewrite (IH H2), andb_true_r.
  unfold entry_ok_arr in H1. apply andb_prop in H1. destruct H1 as [H1 _]. unfold entry_shape.
  destruct (scalar_d (snd kv)); [reflexivity|]. cbn [orb] in *. apply andb_prop in H1. exact (proj1 H1).
Qed.

Lemma R_init_arr names l D :
  forallb (entry_ok_arr names) l = true -> mem (B "global") D = true ->
  R names repu jv_ok D (s_init_arr l) (g_init_arr l).
Proof.
  intros Hok Hg.
  destruct (conv_items_rel l [] [] (entries_shape names l Hok)) as (items & env & e & e' & Ci & Ce & Hx).
  cbn [app] in Ci, Ce, Hx.
  assert (Hent : forall x d, lookup x l = Some d -> entry_ok_arr names (x, d) = true).
  { intros x d H. apply lookup_In in H. rewrite forallb_forall in Hok. exact (Hok _ H). }
  assert (Hlf : forall k, In k (keys items) -> lower_first k = k).
  { intros k Hk. apply lookup_In_keys in Hk. destruct Hk as [v Hv]. specialize (Hx k).
    destruct (lookup k l) as [d|] eqn:El; [|destruct Hx as [Hn _]; congruence].
    specialize (Hent k d El). unfold entry_ok_arr in Hent. apply andb_prop in Hent. destruct Hent as [_ Hl].
    cbn [fst] in Hl. apply beqb_eq in Hl. exact Hl. }
  unfold s_init_arr, g_init_arr. rewrite Ci, Ce.
  set (gl := S (length e)).
  assert (Hvar : forall x, mem x D = false ->
            var_val (globals_at items gl) x = match lookup x items with Some v => v | None => VInvalid end).
  { intros x Hd. apply var_val_globals; [exact Hlf|]. intros ->. congruence. }
  assert (Hrel : forall x, mem x D = false ->
            match lookup x l with
            | Some d => exists v j, var_val (globals_at items gl) x = v /\ env_get env x = j /\ dr e e' d v j
            | None => var_val (globals_at items gl) x = VInvalid /\ env_get env x = JUndef
            end).
  { intros x Hd. rewrite (Hvar x Hd). unfold env_get. specialize (Hx x). destruct (lookup x l) as [d|].
    - destruct Hx as (v & j & Lv & Lj & Hdr). exists v, j. rewrite Lv, Lj. repeat split. exact Hdr.
    - destruct Hx as [-> ->]. split; reflexivity. }
  split.
  - unfold live. cbn [x_frames]. discriminate.
  - intros x Hd Hn. cbn [cur x_frames rev app f_vars s_env]. specialize (Hrel x Hd).
    destruct (lookup x l) as [d|] eqn:El.
    + destruct Hrel as (v & j & -> & -> & Hdr). specialize (Hent x d El). unfold entry_ok_arr in Hent. cbn [fst snd] in Hent.
      apply andb_prop in Hent. destruct Hent as [Hs _].
      assert (Hsc : scalar_d d = true).
      { destruct (scalar_d d); [reflexivity|]. cbn [orb] in Hs. apply andb_prop in Hs. destruct Hs as [_ Hm].
        apply negb_true_iff in Hm. apply mem_In in Hn. congruence. }
      destruct Hdr as [(_ & -> & ->)|[(ds & ? & ? & -> & _)|(kvs & ? & ? & -> & _)]]; [|discriminate Hsc|discriminate Hsc].
      left. exact (proj1 (rep_cv_sv d Hsc)).
    + destruct Hrel as [-> ->]. left. constructor.
  - intros x Hd Hn. cbn [s_env]. specialize (Hrel x Hd).
    destruct (lookup x l) as [d|] eqn:El.
    + destruct Hrel as (v & j & _ & <- & Hdr).
      destruct Hdr as [(Hsc & _ & ->)|[(ds & ? & ? & _ & _ & _ & -> & _)|(kvs & ? & ? & _ & _ & _ & -> & _)]];
        [exact (proj2 (rep_cv_sv d Hsc))|exact I|exact I].
    + destruct Hrel as [_ ->]. exact I.
  - intros x Hd. cbn [cur x_frames rev app f_vars s_env x_heap s_heap]. specialize (Hrel x Hd).
    destruct (lookup x l) as [d|] eqn:El.
    + destruct Hrel as (v & j & -> & -> & Hdr).
      destruct Hdr as [(Hsc & -> & ->)|[(ds & lo & lo' & -> & Ha & -> & -> & Hh & Hj)|(kvs & lo & lo' & -> & Ha & -> & -> & Hh & Hj)]].
      * left. left. exact (proj1 (rep_cv_sv d Hsc)).
      * right. left. cbn [arr_d] in Ha. apply andb_prop in Ha. destruct Ha as [Hall Hlen].
        exists lo, lo', (map cv ds), (map sv ds). split; [reflexivity|]. split; [reflexivity|].
        split; [rewrite <- app_assoc; exact (nth_error_ext e _ lo _ Hh)|]. split; [exact Hj|].
        split; [exact (scalars_rel ds Hall)|rewrite map_length; exact Hlen].
      * right. right. cbn [map_d] in Ha. apply andb_prop in Ha. destruct Ha as [Hall Hasc].
        exists lo, lo', (items_of kvs), (props_of kvs). split; [reflexivity|]. split; [reflexivity|].
        split; [rewrite <- app_assoc; exact (nth_error_ext e _ lo _ Hh)|]. split; [exact Hj|].
        exact (map_members_rel kvs Hall Hasc).
    + destruct Hrel as [-> ->]. left. left. constructor.
  - reflexivity.
  - reflexivity.
Qed.

(* ---- whole renders -------------------------------------------------------------------------------------------------- *)
Lemma lower_nodes_list funcs goodb nodes t :
  lower_nodes funcs goodb nodes = Some t ->
  lower_list (lower funcs goodb (dead0 nodes) (S (pnode_size (PBlock nodes)))) nodes = Some t.
Proof. unfold lower_nodes. destruct (trim_clash nodes); [discriminate|]. exact (fun H => H). Qed.

Local Strategy opaque [exec_nodes exec_node sem_nodes sem_node exec_fuel sem_fuel lower pnode_size].
Theorem program_each funcs names nodes t d :
  lower_nodes funcs (goodS funcs names) nodes = Some t -> data_ok_arr names d = true ->
  match sem_run nodes (sd_top d) with
  | SOut o [] => run_program {| p_main := t; p_defs := [] |} d = OOk o \/
                 run_program {| p_main := t; p_defs := [] |} d = OFuel
  | SError [] => run_program {| p_main := t; p_defs := [] |} d = OPanic \/
                 run_program {| p_main := t; p_defs := [] |} d = OFuel
  | _ => True
  end.
Proof.
  intros Hl Hd. destruct d as [| | | | |l]; try discriminate Hd.
  cbn [data_ok_arr] in Hd. apply andb_prop in Hd. destruct Hd as [Hok _].
  rewrite (sem_run_eq nodes l).
  unfold run_program. rewrite (init_state_eq l). cbn [p_main p_defs].
  pose proof (proj1 (sim_scalar funcs names (s_env (g_init_arr l)) sem_fuel) nodes [] None (g_init_arr l) (dead0 nodes)
                    (S (pnode_size (PBlock nodes))) t VInvalid (s_init_arr l)
                    (lower_nodes_list _ _ _ _ Hl) (R_init_arr names l (dead0 nodes) Hok eq_refl)) as Hsim.
  unfold sim_ok, sim_res in Hsim.
  destruct (sem_nodes (s_env (g_init_arr l)) sem_fuel [] None (g_init_arr l) nodes) as [[g' m']|fl| |]; try exact I.
  - destruct (s_flags g') as [|k fl'] eqn:Hfl; [|exact I].
    assert (Hf0 : [] = s_flags (g_init_arr l)) by (unfold g_init_arr; destruct (sconv_env _ _); reflexivity).
    destruct (Hsim Hf0) as (_ & f & s' & Hx & Rr).
    destruct (exec_nodes [] exec_fuel VInvalid (s_init_arr l) t) as [s2| | |] eqn:He; [left|exfalso|exfalso|right; reflexivity].
    + assert (Heq : exec_nodes [] f VInvalid (s_init_arr l) t = exec_nodes [] exec_fuel VInvalid (s_init_arr l) t).
      { destruct (Nat.le_ge_cases f exec_fuel) as [Hle|Hle].
        - symmetry. apply exec_nodes_mono; [exact Hle|rewrite Hx; apply fin_ok].
        - apply exec_nodes_mono; [exact Hle|rewrite He; apply fin_ok]. }
      rewrite Hx, He in Heq. injection Heq as <-. rewrite (R_out _ _ _ _ _ _ Rr). reflexivity.
    + assert (Heq : exec_nodes [] f VInvalid (s_init_arr l) t = exec_nodes [] exec_fuel VInvalid (s_init_arr l) t).
      { destruct (Nat.le_ge_cases f exec_fuel) as [Hle|Hle].
        - symmetry. apply exec_nodes_mono; [exact Hle|rewrite Hx; apply fin_ok].
        - apply exec_nodes_mono; [exact Hle|rewrite He; apply fin_panic]. }
      rewrite Hx, He in Heq. discriminate Heq.
    + assert (Heq : exec_nodes [] f VInvalid (s_init_arr l) t = exec_nodes [] exec_fuel VInvalid (s_init_arr l) t).
      { destruct (Nat.le_ge_cases f exec_fuel) as [Hle|Hle].
        - symmetry. apply exec_nodes_mono; [exact Hle|rewrite Hx; apply fin_ok].
        - apply exec_nodes_mono; [exact Hle|rewrite He; unfold fin; discriminate]. }
      rewrite Hx, He in Heq. discriminate Heq.
  - destruct fl as [|k fl']; [|exact I].
    assert (Hf0 : [] = s_flags (g_init_arr l)) by (unfold g_init_arr; destruct (sconv_env _ _); reflexivity).
    destruct (Hsim Hf0) as (f & Hx).
    destruct (exec_nodes [] exec_fuel VInvalid (s_init_arr l) t) as [s2| | |] eqn:He; [exfalso|left; reflexivity|exfalso|right; reflexivity].
    + assert (Heq : exec_nodes [] f VInvalid (s_init_arr l) t = exec_nodes [] exec_fuel VInvalid (s_init_arr l) t).
      { destruct (Nat.le_ge_cases f exec_fuel) as [Hle|Hle].
        - symmetry. apply exec_nodes_mono; [exact Hle|rewrite Hx; apply fin_panic].
        - apply exec_nodes_mono; [exact Hle|rewrite He; apply fin_ok]. }
      rewrite Hx, He in Heq. discriminate Heq.
    + assert (Heq : exec_nodes [] f VInvalid (s_init_arr l) t = exec_nodes [] exec_fuel VInvalid (s_init_arr l) t).
      { destruct (Nat.le_ge_cases f exec_fuel) as [Hle|Hle].
        - symmetry. apply exec_nodes_mono; [exact Hle|rewrite Hx; apply fin_panic].
        - apply exec_nodes_mono; [exact Hle|rewrite He; unfold fin; discriminate]. }
      rewrite Hx, He in Heq. discriminate Heq.
Qed.

(* data without arrays: [data_ok] is a special case of [data_ok_arr] *)
Lemma data_ok_arr_of names d : data_ok names d = true -> data_ok_arr names d = true.
Proof.
  destruct d as [| | | | |l]; try discriminate. cbn [data_ok data_ok_arr]. intros H.
  apply andb_prop in H. destruct H as [He Hg]. rewrite Hg, andb_true_r.
  apply forallb_forall. intros kv Hkv. rewrite forallb_forall in He. specialize (He kv Hkv).
  unfold entry_ok in He. unfold entry_ok_arr. apply andb_prop in He. destruct He as [-> ->]. reflexivity.
Qed.

Theorem program_scalar funcs names nodes t d :
  lower_nodes funcs (goodS funcs names) nodes = Some t -> data_ok names d = true ->
  match sem_run nodes (sd_top d) with
  | SOut o [] => run_program {| p_main := t; p_defs := [] |} d = OOk o \/
                 run_program {| p_main := t; p_defs := [] |} d = OFuel
  | SError [] => run_program {| p_main := t; p_defs := [] |} d = OPanic \/
                 run_program {| p_main := t; p_defs := [] |} d = OFuel
  | _ => True
  end.
Proof. intros Hl Hd. exact (program_each funcs names nodes t d Hl (data_ok_arr_of names d Hd)). Qed.

(* one each node from related states, for the scalar fragment *)
Lemma each_scalar funcs names globals fs m blk g D fl v k c body tb dot s :
  mem c D = false -> mem v D = true -> (forall k', k = Some k' -> mem k' D = true /\ k' <> v) ->
  lower_list (lower funcs (goodS funcs names) (undead (v :: opt_list k) D) fl) body = Some tb ->
  R names repu jv_ok D s g ->
  sim_res names repu jv_ok D (fun fM => exec_node [] fM dot s (NRange (opt_list k ++ [v], [[AVar c []]]) tb [])) g m
          (sem_node globals (S fs) m blk g (PEach v k (JId c) body)).
Proof.
  intros Hc Hv Hk Lb Rr.
  assert (HG : G_nodes funcs (goodS funcs names) globals fs).
  { apply (grows_all funcs (goodS funcs names) globals).
    - intros e Hg. exact (goodS_mono funcs names e Hg).
    - intros e Hg. exact (goodS_noerr funcs names e Hg). }
  apply (each_sim funcs (goodS funcs names) names globals repu jv_ok repu_int_intro repu_not_ref repu_nullish
                  repu_gostr_intro jv_ok_num jv_ok_str
                  fs m blk g D fl v k c body tb dot s (proj1 (sim_scalar funcs names globals fs)) HG Hc Hv Hk Lb Rr).
Qed.

(* ---- non-vacuity: nested if / else-if / else, a counting while with ++ and an assignment inside, variables
   printed afterwards (escaped buffered code), a tag and a void tag ------------------------------------------------- *)
Definition x_names : list bytes := [B "n"; B "t"; B "p"; B "i"; B "acc"].
Definition x_data : dval := DMap [(B "n", DInt 3); (B "t", DStr (B "k1")); (B "p", DBool true)].
Definition x_nodes : list pnode :=
  [PCode [SVar [JVar (B "i") (Some (JNum 0))]] false false;
   PCode [SVar [JVar (B "acc") (Some (JNum 1))]] false false;
   PWhile (JBin BLt (JId (B "i")) (JId (B "n")))
     [PCode [SExpr (JUn UInc true (JId (B "i")))] false false;
      PCode [SExpr (JAssign None (JId (B "acc")) (JBin BMul (JId (B "acc")) (JNum 2)))] false false;
      PCond (JBin BSEq (JId (B "i")) (JNum 1)) [PText (B "one ")]
        (Some (PCond (JBin BAnd (JBin BSEq (JId (B "i")) (JNum 2)) (JId (B "p"))) [PText (B "two ")]
           (Some (PBlock [PText (B "many ")]))))];
   PTag (B "p") false [] [] [PCode [SExpr (JId (B "acc"))] true true];
   PTag (B "br") false [] [] [];
   PCode [SExpr (JBin BAdd (JId (B "t")) (JId (B "i")))] true true].

Example x_both_sides :
  data_ok x_names x_data = true /\
  sem_run x_nodes (sd_top x_data) = SOut (B "one two many <p>8</p><br>k13") [] /\
  match lower_nodes ex_funcs (goodS ex_funcs x_names) x_nodes with
  | Some t => length t = 10%nat /\
              run_program {| p_main := t; p_defs := [] |} x_data = OOk (B "one two many <p>8</p><br>k13")
  | None => False
  end.
Proof. vm_compute. repeat split; reflexivity. Qed.

(* the theorem applies to it *)
Example x_theorem_applies :
  exists t, lower_nodes ex_funcs (goodS ex_funcs x_names) x_nodes = Some t /\
            (run_program {| p_main := t; p_defs := [] |} x_data = OOk (B "one two many <p>8</p><br>k13") \/
             run_program {| p_main := t; p_defs := [] |} x_data = OFuel).
Proof.
  destruct (lower_nodes ex_funcs (goodS ex_funcs x_names) x_nodes) as [t|] eqn:Hl; [|vm_compute in Hl; discriminate Hl].
  exists t. split; [reflexivity|].
  pose proof (program_scalar ex_funcs x_names x_nodes t x_data Hl (proj1 x_both_sides)) as H.
  rewrite (proj1 (proj2 x_both_sides)) in H. exact H.
Qed.

(* ---- non-vacuity of the each / case / literal part: each with and without key over an array of the data (a sum kept
   after the loop, an if inside the body), each over an empty array and over a missing variable, each over a data map, a case with a hit, a
   case falling to its default, buffered literals ------------------------------------------------------------------- *)
Definition e_names : list bytes := [B "n"; B "sum"; B "v"; B "k"; B "w"].
Definition e_data : dval :=
  DMap [(B "n", DInt 3); (B "xs", DArr [DInt 10; DInt 20; DInt 12]); (B "ys", DArr [DStr (B "a<"); DBool true; DNil]);
        (B "none", DArr []); (B "conf", DMap [(B "a", DInt 1); (B "b", DStr (B "x")); (B "c", DBool false)])].
Definition e_nodes : list pnode :=
  [PCode [SVar [JVar (B "sum") (Some (JNum 0))]] false false;
   PTag (B "ul") false [] []
     [PEach (B "v") (Some (B "k")) (JId (B "xs"))
        [PTag (B "li") false [] []
           [PCode [SExpr (JId (B "k"))] true true; PText (B ":"); PCode [SExpr (JId (B "v"))] true true;
            PCond (JBin BGt (JId (B "v")) (JNum 15)) [PText (B "!")] None];
         PCode [SExpr (JAssign None (JId (B "sum")) (JBin BAdd (JId (B "sum")) (JId (B "v"))))] false false]];
   PCode [SExpr (JId (B "sum"))] true true;
   PEach (B "w") None (JId (B "ys")) [PText (B "["); PCode [SExpr (JId (B "w"))] true true; PText (B "]")];
   PEach (B "w") None (JId (B "none")) [PText (B "never")];
   PEach (B "w") None (JId (B "missing")) [PText (B "never")];
   PEach (B "v") (Some (B "k")) (JId (B "conf"))
     [PCode [SExpr (JId (B "k"))] true true; PText (B "="); PCode [SExpr (JId (B "v"))] true true; PText (B ";")];
   PCase (JId (B "n"))
     [(Some (JNum 1), [PText (B "one")]); (None, [PText (B "other")]); (Some (JBin BAdd (JNum 1) (JNum 2)), [PText (B "three")])];
   PCase (JId (B "sum")) [(Some (JNum 1), [PText (B "one")]); (None, [PText (B "dflt")])];
   PCode [SExpr (JStr (B "a<b"))] true true; PCode [SExpr (JNum 12)] true true; PCode [SExpr (JBool true)] false true].

Definition e_out : bytes := B "<ul><li>0:10</li><li>1:20!</li><li>2:12</li></ul>42[a&lt;][true][]a=1;b=x;c=false;threedflta&lt;b12true".

Example e_both_sides :
  data_ok_arr e_names e_data = true /\
  sem_run e_nodes (sd_top e_data) = SOut e_out [] /\
  match lower_nodes ex_funcs (goodS ex_funcs e_names) e_nodes with
  | Some t => run_program {| p_main := t; p_defs := [] |} e_data = OOk e_out
  | None => False
  end.
Proof. vm_compute. repeat split; reflexivity. Qed.

Example e_theorem_applies :
  exists t, lower_nodes ex_funcs (goodS ex_funcs e_names) e_nodes = Some t /\
            (run_program {| p_main := t; p_defs := [] |} e_data = OOk e_out \/
             run_program {| p_main := t; p_defs := [] |} e_data = OFuel).
Proof.
  destruct (lower_nodes ex_funcs (goodS ex_funcs e_names) e_nodes) as [t|] eqn:Hl; [|vm_compute in Hl; discriminate Hl].
  exists t. split; [reflexivity|].
  pose proof (program_each ex_funcs e_names e_nodes t e_data Hl (proj1 e_both_sides)) as H.
  rewrite (proj1 (proj2 e_both_sides)) in H. exact H.
Qed.

(* the scoping discipline is what makes the theorem true: a loop variable read after its loop is pug's undefined
   but the engine's last element — S and the engine differ there, and the lowering declines such a program *)
Definition leak_nodes : list pnode :=
  [PEach (B "w") None (JId (B "xs")) [PText (B ".")]; PCode [SExpr (JId (B "w"))] true true].
Example loop_variable_leak_declined :
  lower_nodes ex_funcs (goodS ex_funcs e_names) leak_nodes = None /\
  sem_run leak_nodes (sd_top e_data) = SOut (B "...") [].
Proof. vm_compute. split; reflexivity. Qed.

Lemma e_program_runs :
  data_ok_arr e_names e_data = true /\
  exists t, lower_nodes ex_funcs (goodS ex_funcs e_names) e_nodes = Some t /\
            (run_program {| p_main := t; p_defs := [] |} e_data = OOk e_out \/
             run_program {| p_main := t; p_defs := [] |} e_data = OFuel).
Proof. exact (conj (proj1 e_both_sides) e_theorem_applies). Qed.

(* a doctype and a buffered null *)
Definition d_nodes : list pnode := [PDoctype (B "html"); PCode [SExpr JNull] true true; PTag (B "p") false [] [] [PText (B "x")]].
Example d_both_sides :
  sem_run d_nodes (sd_top x_data) = SOut (B "<!DOCTYPE html>" ++ [ascii_of_N 10] ++ B "<p>x</p>") [] /\
  match lower_nodes ex_funcs (goodS ex_funcs x_names) d_nodes with
  | Some t => run_program {| p_main := t; p_defs := [] |} x_data = OOk (B "<!DOCTYPE html>" ++ [ascii_of_N 10] ++ B "<p>x</p>")
  | None => False
  end.
Proof. vm_compute. split; reflexivity. Qed.

(* on both examples the tree-level lowering runs as the parsed compiled token stream does (the judge's [lower_seam],
   which checks this on every correspondence case of the fragment) *)
Definition seam_case (ns : list pnode) : caseC :=
  {| c_nodes := ns; c_datas := []; c_funcs := ex_funcs;
     c_prod := {| o_loaded := true; o_code := []; o_res := [] |}; c_debug := None |}.
Example e_seam_agrees : lower_seam (seam_case e_nodes) e_data = 0%nat /\ lower_seam (seam_case d_nodes) x_data = 0%nat.
Proof. vm_compute. split; reflexivity. Qed.
