(* Fuel monotonicity of the executor model (Tmpl/Exec.v): an execution that ends (Ok, Panic or Unmod — anything
   but OutOfFuel) gives the same result with any larger fuel.  Used by the C02 / C03 / C13 proofs to combine
   executions; no theorem is true "because fuel ran out". *)
From PV Require Import Base.Bytes Base.Escape Tmpl.Value Tmpl.IR Tmpl.Runtime Tmpl.Exec.

Definition fin {A} (r : res A) : Prop := r <> OutOfFuel.

Lemma bind_fin {A B} (r : res A) (k : A -> res B) : fin (bind r k) -> fin r.
Proof. destruct r; simpl; unfold fin; congruence. Qed.

Local Strategy opaque [eval_pipeline eval_cmds range_plan template_plan truthy while_cap set_heap set_vars env_of].
Section Mono.
  Variable defs : list (bytes * list tnode).

  Definition P_nodes f := forall dot s ns, fin (exec_nodes defs f dot s ns) -> exec_nodes defs (S f) dot s ns = exec_nodes defs f dot s ns.
  Definition P_node f := forall dot s n, fin (exec_node defs f dot s n) -> exec_node defs (S f) dot s n = exec_node defs f dot s n.
  Definition P_iter f := forall s decl body pairs, fin (exec_iter defs f s decl body pairs) -> exec_iter defs (S f) s decl body pairs = exec_iter defs f s decl body pairs.
  Definition P_while f := forall dot s p body b v, fin (exec_while defs f dot s p body b v) -> exec_while defs (S f) dot s p body b v = exec_while defs f dot s p body b v.

  Ltac base := intros; exfalso; match goal with H : fin _ |- _ => apply H; reflexivity end.

  Lemma nodes_cons f dot s n r :
    exec_nodes defs (S f) dot s (n :: r) = (do s1 <- exec_node defs f dot s n; exec_nodes defs f dot s1 r).
  Proof. reflexivity. Qed.

  Lemma node_if f dot s p th el :
    exec_node defs (S f) dot s (NIf p th el) =
    (do x <- eval_pipeline (env_of s dot) (x_heap s) p;
     let '(v, h1) := x in
     let s1 := set_heap s h1 in
     let s2 := set_vars s1 (set_decl (f_vars (cur s1)) (fst p) v) in
     do t <- truthy h1 v;
     exec_nodes defs f dot s2 (if t then th else el)).
  Proof. reflexivity. Qed.

  Lemma iter_cons f s decl body k v r :
    exec_iter defs (S f) s decl body ((k, v) :: r) =
    (let vs := f_vars (cur s) in
     let vs' := match decl with
                | [a; b] => var_set (var_set vs a k) b v
                | [a] => var_set vs a v
                | _ => vs
                end in
     do s1 <- exec_nodes defs f v (set_vars s vs') body;
     exec_iter defs f s1 decl body r).
  Proof. reflexivity. Qed.

  Lemma while_step f dot s p body budget v :
    exec_while defs (S f) dot s p body budget v =
    (do s1 <- exec_nodes defs f v s body;
     do x <- eval_pipeline (env_of s1 dot) (x_heap s1) p;
     let '(v', h1) := x in
     let s2 := set_heap s1 h1 in
     match budget with
     | O => Panic
     | S b =>
       match v' with
       | VBool true | VGoBool true => exec_while defs f dot s2 p body b v'
       | VBool false | VGoBool false => Ok s2
       | VAttrs _ | VMod _ => Unmod
       | _ => Panic
       end
     end).
  Proof. reflexivity. Qed.

  Lemma node_range f dot s p body el :
    exec_node defs (S f) dot s (NRange p body el) =
    (do pl <- range_plan dot s p;
     match pl with
     | RElse s2 => exec_nodes defs f dot s2 el
     | RIter s2 pairs => exec_iter defs f s2 (fst p) body pairs
     | RWhile s2 v => exec_while defs f dot s2 p body while_cap v
     | RDone s2 => Ok s2
     end).
  Proof. reflexivity. Qed.

  Lemma node_template f dot s name is_var arg :
    exec_node defs (S f) dot s (NTemplate name is_var arg) =
    (do tp <- template_plan defs dot s name is_var arg;
     match tp with
     | None => Ok s
     | Some (body, newdot, s3) =>
       do s4 <- exec_nodes defs f newdot s3 body;
       Ok {| x_frames := removelast (x_frames s4); x_heap := x_heap s4; x_out := x_out s4 |}
     end).
  Proof. reflexivity. Qed.

  Lemma step_nodes f : P_node f -> P_nodes f -> P_nodes (S f).
  Proof.
    intros IHn IHns dot s ns H. destruct ns as [|n r]; [reflexivity|].
    rewrite (nodes_cons (S f)), (nodes_cons f). rewrite (nodes_cons f) in H.
    rewrite (IHn dot s n (bind_fin _ _ H)).
    destruct (exec_node defs f dot s n) as [s1| | |] eqn:E; cbn [bind] in *; try reflexivity.
    apply IHns; exact H.
  Qed.

  Lemma step_iter f : P_nodes f -> P_iter f -> P_iter (S f).
  Proof.
    intros IHns IHi s decl body pairs H. destruct pairs as [|[k v] r]; [reflexivity|].
    rewrite (iter_cons (S f)), (iter_cons f). rewrite (iter_cons f) in H. cbv zeta in *.
    match goal with |- context [exec_nodes defs (S f) ?d ?s0 ?b] =>
      rewrite (IHns d s0 b (bind_fin _ _ H));
      destruct (exec_nodes defs f d s0 b) as [s1| | |] eqn:E; cbn [bind] in *; try reflexivity end.
    apply IHi; exact H.
  Qed.

  Lemma step_while f : P_nodes f -> P_while f -> P_while (S f).
  Proof.
    intros IHns IHw dot s p body b v H.
    rewrite (while_step (S f)), (while_step f). rewrite (while_step f) in H.
    rewrite (IHns _ _ _ (bind_fin _ _ H)).
    destruct (exec_nodes defs f v s body) as [s1| | |]; cbn [bind] in *; try reflexivity.
    destruct (eval_pipeline (env_of s1 dot) (x_heap s1) p) as [[v' h1]| | |]; cbn [bind] in *; try reflexivity.
    destruct b as [|b]; [reflexivity|].
    destruct v' as [| | |[|]| | |[|]| | | | |]; cbn beta iota in H |- *.
    all: try reflexivity.
    all: apply IHw; exact H.
  Qed.

  Lemma step_node f : P_nodes f -> P_iter f -> P_while f -> P_node (S f).
  Proof.
    intros IHns IHi IHw dot s n H. destruct n as [t|p|p th el|p body el|name isv arg].
    - reflexivity.
    - reflexivity.
    - rewrite (node_if (S f)), (node_if f). rewrite (node_if f) in H.
      destruct (eval_pipeline (env_of s dot) (x_heap s) p) as [[v h1]| | |]; cbn [bind] in *; try reflexivity.
      destruct (truthy h1 v) as [t| | |]; cbn [bind] in *; try reflexivity.
      apply IHns; exact H.
    - rewrite (node_range (S f)), (node_range f). rewrite (node_range f) in H.
      destruct (range_plan dot s p) as [[s2|s2 pairs|s2 v|s2]| | |]; cbn [bind] in *; try reflexivity.
      + apply IHns; exact H.
      + apply IHi; exact H.
      + apply IHw; exact H.
    - rewrite (node_template (S f)), (node_template f). rewrite (node_template f) in H.
      destruct (template_plan defs dot s name isv arg) as [[[[body newdot] s3]|]| | |]; cbn [bind] in *; try reflexivity.
      rewrite (IHns _ _ _ (bind_fin _ _ H)). reflexivity.
  Qed.

  Lemma mono_all f : P_nodes f /\ P_node f /\ P_iter f /\ P_while f.
  Proof.
    induction f as [|f [IHns [IHn [IHi IHw]]]].
    - unfold P_nodes, P_node, P_iter, P_while; repeat split; base.
    - repeat split.
      + apply step_nodes; assumption.
      + apply step_node; assumption.
      + apply step_iter; assumption.
      + apply step_while; assumption.
  Qed.

  Lemma exec_nodes_mono f f' dot s ns :
    f <= f' -> fin (exec_nodes defs f dot s ns) -> exec_nodes defs f' dot s ns = exec_nodes defs f dot s ns.
  Proof.
    intros Hle H. induction Hle as [|m Hle IH]; [reflexivity|].
    rewrite <- IH. apply (proj1 (mono_all m)). rewrite IH; exact H.
  Qed.
  Lemma exec_node_mono f f' dot s n :
    f <= f' -> fin (exec_node defs f dot s n) -> exec_node defs f' dot s n = exec_node defs f dot s n.
  Proof.
    intros Hle H. induction Hle as [|m Hle IH]; [reflexivity|].
    rewrite <- IH. apply (proj1 (proj2 (mono_all m))). rewrite IH; exact H.
  Qed.
  Lemma exec_iter_mono f f' s decl body pairs :
    f <= f' -> fin (exec_iter defs f s decl body pairs) ->
    exec_iter defs f' s decl body pairs = exec_iter defs f s decl body pairs.
  Proof.
    intros Hle H. induction Hle as [|m Hle IH]; [reflexivity|].
    rewrite <- IH. apply (proj1 (proj2 (proj2 (mono_all m)))). rewrite IH; exact H.
  Qed.
  Lemma exec_while_mono f f' dot s p body b v :
    f <= f' -> fin (exec_while defs f dot s p body b v) ->
    exec_while defs f' dot s p body b v = exec_while defs f dot s p body b v.
  Proof.
    intros Hle H. induction Hle as [|m Hle IH]; [reflexivity|].
    rewrite <- IH. apply (proj2 (proj2 (proj2 (mono_all m)))). rewrite IH; exact H.
  Qed.
End Mono.

Lemma fin_ok {A} (a : A) : fin (Ok a).
Proof. unfold fin; discriminate. Qed.
Lemma fin_panic {A} : fin (@Panic A).
Proof. unfold fin; discriminate. Qed.
Lemma bind_ok_r {A} (r : res A) : (do x <- r; Ok x) = r.
Proof. destruct r; reflexivity. Qed.
