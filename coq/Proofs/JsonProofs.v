(* C12 proofs: the round trip  decode (encode_go j) = Some j  for canonical trees of any nesting and size,
   validity of every text encode_go writes, marshal/convert against json_of on the property's domain,
   the re-parse fixpoint, and the witnesses that show which hypotheses are forced. *)
From PV Require Import Base.Bytes Models.Json.
From Coq Require Import Decimal Permutation Lia.
From Coq Require DecimalFacts DecimalPos DecimalN DecimalZ.   (* qualified: their app_nil_r etc. shadow List's *)

Local Open Scope list_scope.

(* ------------------------------------------------------------------ characters *)

Lemma chr_code c : chr (code c) = c.
Proof. apply ascii_N_embedding. Qed.

Lemma code_inj a b : code a = code b -> a = b.
Proof. intros H. rewrite <- (chr_code a), <- (chr_code b), H. reflexivity. Qed.

(* ------------------------------------------------------------------ the order on byte strings *)

Lemma bytes_cmp_refl a : bytes_cmp a a = Eq.
Proof. induction a as [|x a IH]; simpl; [reflexivity|]. rewrite N.compare_refl. exact IH. Qed.

Lemma bytes_cmp_eq a : forall b, bytes_cmp a b = Eq -> a = b.
Proof.
  induction a as [|x a IH]; intros [|y b] H; simpl in H; try discriminate; [reflexivity|].
  destruct (N.compare (code x) (code y)) eqn:E; try discriminate.
  apply N.compare_eq in E. apply code_inj in E. subst y. f_equal. apply IH. exact H.
Qed.

Lemma bytes_cmp_antisym a : forall b, bytes_cmp b a = CompOpp (bytes_cmp a b).
Proof.
  induction a as [|x a IH]; intros [|y b]; simpl; try reflexivity.
  rewrite (N.compare_antisym (code x) (code y)).
  destruct (N.compare (code x) (code y)); simpl; [apply IH|reflexivity|reflexivity].
Qed.

Lemma bytes_ltb_irrefl a : bytes_ltb a a = false.
Proof. unfold bytes_ltb. rewrite bytes_cmp_refl. reflexivity. Qed.

(* not (k <= k') means k' < k *)
Lemma leb_false_ltb k k' : bytes_leb k k' = false -> bytes_ltb k' k = true.
Proof.
  unfold bytes_leb, bytes_ltb. rewrite (bytes_cmp_antisym k k').
  destruct (bytes_cmp k k'); simpl; congruence.
Qed.

Lemma leb_neq_ltb k k' : bytes_leb k k' = true -> k <> k' -> bytes_ltb k k' = true.
Proof.
  unfold bytes_leb, bytes_ltb. destruct (bytes_cmp k k') eqn:E; intros H Hn; try congruence.
  apply bytes_cmp_eq in E. contradiction.
Qed.

Lemma ltb_leb k k' : bytes_ltb k k' = true -> bytes_leb k k' = true.
Proof. unfold bytes_leb, bytes_ltb. destruct (bytes_cmp k k'); congruence. Qed.

(* ------------------------------------------------------------------ sorted association lists *)

Definition hd_lt (a : bytes) (l : list bytes) : Prop :=
  match l with
  | [] => True
  | b :: _ => bytes_ltb a b = true
  end.

Lemma sorted_strict_cons a l : sorted_strict (a :: l) = true <-> hd_lt a l /\ sorted_strict l = true.
Proof.
  destruct l as [|b l]; simpl.
  - intuition.
  - rewrite andb_true_iff. reflexivity.
Qed.

Lemma keys_ins_kv {A} k (v : A) l x : In x (keys (ins_kv k v l)) <-> x = k \/ In x (keys l).
Proof.
  unfold keys. induction l as [|[k' v'] r IH]; simpl.
  - intuition.
  - destruct (bytes_leb k k'); simpl; [intuition|]. rewrite IH. intuition.
Qed.

Lemma keys_sort_kv {A} (l : list (bytes * A)) x : In x (keys (sort_kv l)) <-> In x (keys l).
Proof.
  induction l as [|[k v] r IH]; simpl; [reflexivity|].
  rewrite keys_ins_kv, IH. unfold keys; simpl. intuition.
Qed.

Lemma hd_lt_ins {A} a k (v : A) l :
  hd_lt a (keys l) -> bytes_ltb a k = true -> hd_lt a (keys (ins_kv k v l)).
Proof.
  destruct l as [|[k' v'] r]; simpl; intros H1 H2; [exact H2|].
  destruct (bytes_leb k k'); simpl; assumption.
Qed.

Lemma ins_kv_sorted {A} k (v : A) l :
  sorted_strict (keys l) = true -> ~ In k (keys l) -> sorted_strict (keys (ins_kv k v l)) = true.
Proof.
  induction l as [|[k' v'] r IH]; intros Hs Hn; [reflexivity|].
  simpl. destruct (bytes_leb k k') eqn:E.
  - change (sorted_strict (k :: keys ((k', v') :: r)) = true).
    apply sorted_strict_cons. split; [|exact Hs].
    simpl. apply leb_neq_ltb; [exact E|]. intros ->. apply Hn. left. reflexivity.
  - change (sorted_strict (k' :: keys (ins_kv k v r)) = true).
    change (sorted_strict (k' :: keys r) = true) in Hs.
    apply sorted_strict_cons in Hs. destruct Hs as [Hh Hs].
    apply sorted_strict_cons. split.
    + apply hd_lt_ins; [exact Hh|apply leb_false_ltb; exact E].
    + apply IH; [exact Hs|]. intros Hin. apply Hn. right. exact Hin.
Qed.

Lemma sort_kv_sorted {A} (l : list (bytes * A)) :
  NoDup (keys l) -> sorted_strict (keys (sort_kv l)) = true.
Proof.
  induction l as [|[k v] r IH]; intros Hnd; [reflexivity|].
  unfold keys in Hnd; simpl in Hnd. inversion Hnd as [|? ? Hni Hnd']; subst.
  simpl. apply ins_kv_sorted; [apply IH; exact Hnd'|].
  rewrite keys_sort_kv. exact Hni.
Qed.

Lemma ins_kv_head {A} k (v : A) l : hd_lt k (keys l) -> ins_kv k v l = (k, v) :: l.
Proof.
  destruct l as [|[k' v'] r]; simpl; intros H; [reflexivity|].
  rewrite (ltb_leb _ _ H). reflexivity.
Qed.

Lemma sort_kv_id {A} (l : list (bytes * A)) : sorted_strict (keys l) = true -> sort_kv l = l.
Proof.
  induction l as [|[k v] r IH]; intros Hs; [reflexivity|].
  change (sorted_strict (k :: keys r) = true) in Hs. apply sorted_strict_cons in Hs. destruct Hs as [Hh Hs].
  simpl. rewrite (IH Hs). apply ins_kv_head. exact Hh.
Qed.

Lemma sorted_strict_NoDup l : sorted_strict l = true -> NoDup l.
Proof.
  (* a strictly sorted list has no duplicates; shown through the sort being the identity on it *)
  induction l as [|a r IH]; intros Hs; [constructor|].
  apply sorted_strict_cons in Hs. destruct Hs as [Hh Hs]. constructor; [|apply IH; exact Hs].
  clear IH. revert a Hh Hs. induction r as [|b r IH]; intros a Hh Hs Hin; [exact Hin|].
  apply sorted_strict_cons in Hs. destruct Hs as [Hh' Hs]. simpl in Hh.
  destruct Hin as [->|Hin]; [rewrite bytes_ltb_irrefl in Hh; discriminate|].
  (* a < b and a in r with b < head r ...: push a below b *)
  revert Hin. apply IH; [|exact Hs].
  destruct r as [|c r]; [exact I|]. simpl in *.
  unfold bytes_ltb in *.
  destruct (bytes_cmp a b) eqn:E1; try discriminate.
  destruct (bytes_cmp b c) eqn:E2; try discriminate.
  clear -E1 E2. revert b c E1 E2. induction a as [|x a IHa]; intros [|y b] [|z c] E1 E2; simpl in *; try discriminate; try reflexivity.
  destruct (N.compare (code x) (code y)) eqn:C1; try discriminate;
  destruct (N.compare (code y) (code z)) eqn:C2; try discriminate.
  - apply N.compare_eq in C1, C2. rewrite C1, C2, N.compare_refl. eapply IHa; eassumption.
  - apply N.compare_eq in C1. rewrite C1, C2. reflexivity.
  - apply N.compare_eq in C2. rewrite <- C2, C1. reflexivity.
  - rewrite N.compare_lt_iff in C1, C2. assert (H : (code x < code z)%N) by lia.
    rewrite <- N.compare_lt_iff in H. rewrite H. reflexivity.
Qed.

Lemma nodupb_NoDup l : nodupb l = true -> NoDup l.
Proof.
  induction l as [|a r IH]; simpl; intros H; [constructor|].
  apply andb_true_iff in H. destruct H as [H1 H2]. constructor; [|apply IH; exact H2].
  apply negb_true_iff in H1. apply mem_false_In. exact H1.
Qed.

Lemma keys_map_val {A C} (f : A -> C) (l : list (bytes * A)) :
  keys (map (fun kv => match kv with (k, v) => (k, f v) end) l) = keys l.
Proof. unfold keys. induction l as [|[k v] r IH]; simpl; [reflexivity|]. rewrite IH. reflexivity. Qed.

Lemma Forall_ins_kv {A} (Q : bytes * A -> Prop) k v l : Q (k, v) -> Forall Q l -> Forall Q (ins_kv k v l).
Proof.
  intros Hq Hl. induction Hl as [|[k' v'] r Hx Hr IH]; simpl.
  - constructor; [exact Hq|constructor].
  - destruct (bytes_leb k k'); constructor; auto.
Qed.

Lemma Forall_sort_kv {A} (Q : bytes * A -> Prop) l : Forall Q l -> Forall Q (sort_kv l).
Proof.
  intros Hl. induction Hl as [|[k v] r Hx Hr IH]; simpl; [constructor|].
  apply Forall_ins_kv; assumption.
Qed.

(* ------------------------------------------------------------------ Map.MarshalJSON's temporary map *)

Lemma insert_notin {A} k (v : A) acc : ~ In k (keys acc) -> insert k v acc = acc ++ [(k, v)].
Proof.
  unfold keys. induction acc as [|[k' v'] r IH]; simpl; intros Hn; [reflexivity|].
  destruct (beqb k k') eqn:E.
  - apply beqb_eq in E. subst. exfalso. apply Hn. left. reflexivity.
  - rewrite IH; [reflexivity|]. intros Hin. apply Hn. right. exact Hin.
Qed.

Definition tmp_step {A} (acc : list (bytes * A)) (kv : bytes * A) := insert (lower_first (fst kv)) (snd kv) acc.

Lemma tmp_map_fixed_gen {A} (l acc : list (bytes * A)) :
  NoDup (keys (acc ++ l)) -> Forall (fun kv => lower_first (fst kv) = fst kv) l ->
  fold_left tmp_step l acc = acc ++ l.
Proof.
  revert acc. induction l as [|[k v] r IH]; intros acc Hnd Hf; simpl.
  - rewrite app_nil_r. reflexivity.
  - inversion Hf as [|? ? Hk Hr]; subst. simpl in Hk.
    unfold tmp_step at 2. simpl. rewrite Hk.
    assert (Hni : ~ In k (keys acc)).
    { unfold keys in *. rewrite map_app in Hnd. simpl in Hnd.
      apply NoDup_remove_2 in Hnd. intros Hin. apply Hnd. apply in_or_app. left. exact Hin. }
    rewrite (insert_notin k v acc Hni).
    rewrite IH; [rewrite <- app_assoc; reflexivity| |exact Hr].
    rewrite <- app_assoc. exact Hnd.
Qed.

Lemma tmp_map_fixed {A} (l : list (bytes * A)) :
  NoDup (keys l) -> Forall (fun kv => lower_first (fst kv) = fst kv) l -> tmp_map l = l.
Proof. intros Hnd Hf. unfold tmp_map. apply (tmp_map_fixed_gen l []); assumption. Qed.

Lemma tmp_map_NoDup {A} (l : list (bytes * A)) : NoDup (keys (tmp_map l)).
Proof.
  unfold tmp_map. assert (H : NoDup (keys (@nil (bytes * A)))) by constructor.
  revert H. generalize (@nil (bytes * A)) as acc.
  induction l as [|kv r IH]; intros acc H; simpl; [exact H|].
  apply IH. apply NoDup_keys_insert. exact H.
Qed.

Lemma Forall_insert {A} (Q : bytes * A -> Prop) k v acc :
  (forall k' v', Q (k', v') -> beqb k k' = true -> Q (k', v)) ->
  Q (k, v) -> Forall Q acc -> Forall Q (insert k v acc).
Proof.
  intros Hrep Hq Hacc. induction Hacc as [|[k' v'] r Hx Hr IH]; simpl.
  - constructor; [exact Hq|constructor].
  - destruct (beqb k k') eqn:E.
    + constructor; [eapply Hrep; [exact Hx|exact E]|exact Hr].
    + constructor; [exact Hx|exact IH].
Qed.

Lemma Forall_tmp_map {A} (P Q : bytes * A -> Prop) (l : list (bytes * A)) :
  (forall k v, P (k, v) -> Q (lower_first k, v)) ->
  Forall P l -> Forall Q (tmp_map l).
Proof.
  intros Hpq Hl. unfold tmp_map.
  assert (H : Forall Q (@nil (bytes * A))) by constructor.
  revert H. generalize (@nil (bytes * A)) as acc.
  induction Hl as [|[k v] r Hx Hr IH]; intros acc H; simpl; [exact H|].
  apply IH. apply Forall_insert; [|apply Hpq; exact Hx|exact H].
  intros k' v' _ E. apply beqb_eq in E. subst k'. apply Hpq. exact Hx.
Qed.

Lemma lower_first_idem k : lower_first (lower_first k) = lower_first k.
Proof.
  destruct k as [|c r]; [reflexivity|]. simpl.
  destruct ((65 <=? code c)%N && (code c <=? 90)%N) eqn:E; simpl; [|rewrite E; reflexivity].
  apply andb_true_iff in E. destruct E as [E1 E2]. apply N.leb_le in E1, E2.
  unfold chr, code. rewrite N_ascii_embedding by (unfold code in *; lia).
  replace ((65 <=? N_of_ascii c + 32)%N && (N_of_ascii c + 32 <=? 90)%N) with false; [reflexivity|].
  symmetry. apply andb_false_iff. right. apply N.leb_gt. unfold code in *. lia.
Qed.

Lemma lower_first_fixed k : key_lower_initial k = true -> lower_first k = k.
Proof.
  destruct k as [|c r]; [reflexivity|]. simpl. intros H.
  apply andb_true_iff in H. destruct H as [_ H]. apply negb_true_iff in H. rewrite H. reflexivity.
Qed.

(* ------------------------------------------------------------------ strings: one byte at a time
   (the per-byte facts are closed computations over the 256 bytes) *)

Lemma dstr_ascii c rest : (code c <? 128)%N = true ->
  dstr (esc_ascii c ++ rest) = push [c] (dstr rest).
Proof.
  intros H. destruct c as [[] [] [] [] [] [] [] []]; try (vm_compute in H; discriminate H); reflexivity.
Qed.

Lemma dstr_high c rest : (128 <=? code c)%N = true -> dstr (c :: rest) = push [c] (dstr rest).
Proof.
  intros H. destruct c as [[] [] [] [] [] [] [] []]; try (vm_compute in H; discriminate H); reflexivity.
Qed.

Lemma rstr_ascii c rest : (code c <? 128)%N = true -> rstr (esc_ascii c ++ rest) = rstr rest.
Proof.
  intros H. destruct c as [[] [] [] [] [] [] [] []]; try (vm_compute in H; discriminate H); reflexivity.
Qed.

Lemma rstr_high c rest : (128 <=? code c)%N = true -> rstr (c :: rest) = rstr rest.
Proof.
  intros H. destruct c as [[] [] [] [] [] [] [] []]; try (vm_compute in H; discriminate H); reflexivity.
Qed.

Lemma contb_high c : contb c = true -> (128 <=? code c)%N = true.
Proof. unfold contb. intros H. apply andb_true_iff in H. tauto. Qed.

Lemma lt128_false_high c : (code c <? 128)%N = false -> (128 <=? code c)%N = true.
Proof. intros H. apply N.ltb_ge in H. apply N.leb_le. exact H. Qed.

Lemma is_ls_eq c b1 b2 : is_ls c b1 b2 = true -> c = chr 226 /\ b1 = chr 128 /\ b2 = chr 168.
Proof.
  unfold is_ls. intros H. apply andb_true_iff in H. destruct H as [H H3].
  apply andb_true_iff in H. destruct H as [H1 H2].
  apply N.eqb_eq in H1, H2, H3. repeat split; apply code_inj; [rewrite H1|rewrite H2|rewrite H3]; reflexivity.
Qed.

Lemma is_ps_eq c b1 b2 : is_ps c b1 b2 = true -> c = chr 226 /\ b1 = chr 128 /\ b2 = chr 169.
Proof.
  unfold is_ps. intros H. apply andb_true_iff in H. destruct H as [H H3].
  apply andb_true_iff in H. destruct H as [H1 H2].
  apply N.eqb_eq in H1, H2, H3. repeat split; apply code_inj; [rewrite H1|rewrite H2|rewrite H3]; reflexivity.
Qed.

Definition enc_hi (c : ascii) (r : bytes) : bytes :=
  match rune_len c r with
  | O => ["\"; "u"; "f"; "f"; "f"; "d"]%char ++ enc_str_body 0 r
  | S m =>
    match r with
    | b1 :: b2 :: r2 =>
      if is_ls c b1 b2 then ["\"; "u"; "2"; "0"; "2"; "8"]%char ++ enc_str_body 0 r2
      else if is_ps c b1 b2 then ["\"; "u"; "2"; "0"; "2"; "9"]%char ++ enc_str_body 0 r2
      else c :: enc_str_body m r
    | _ => c :: enc_str_body m r
    end
  end.

Lemma enc_str_body_0 c r :
  enc_str_body 0 (c :: r) = if (code c <? 128)%N then esc_ascii c ++ enc_str_body 0 r else enc_hi c r.
Proof. reflexivity. Qed.

Lemma enc_str_body_S k c r : enc_str_body (S k) (c :: r) = c :: enc_str_body k r.
Proof. reflexivity. Qed.

Lemma rune_len_ascii c r : (code c <? 128)%N = true -> rune_len c r = 1.
Proof. unfold rune_len. intros ->. reflexivity. Qed.

Lemma dstr_close rest : dstr (dq :: rest) = Some ([], rest).
Proof. reflexivity. Qed.

Lemma rstr_close rest : rstr (dq :: rest) = Some rest.
Proof. reflexivity. Qed.

(* reading back a Unicode string: every byte survives *)
Lemma dstr_enc n : forall s k rest, length s <= n -> utf8_valid_k k s = true ->
  dstr (enc_str_body k s ++ dq :: rest) = Some (s, rest).
Proof.
  induction n as [|n IH]; intros s k rest Hlen Hv.
  - destruct s; [|simpl in Hlen; lia]. destruct k; [|discriminate Hv]. apply dstr_close.
  - destruct s as [|c r].
    + destruct k; [|discriminate Hv]. apply dstr_close.
    + simpl in Hlen. destruct k as [|k].
      * simpl in Hv. rewrite enc_str_body_0.
        destruct (code c <? 128)%N eqn:Ea.
        -- rewrite (rune_len_ascii c r Ea) in Hv.
           rewrite <- app_assoc, (dstr_ascii c _ Ea), (IH r 0 rest); [reflexivity|lia|exact Hv].
        -- unfold enc_hi. destruct (rune_len c r) as [|m] eqn:Er; [discriminate Hv|].
           assert (Hhi := lt128_false_high c Ea).
           assert (Hplain : dstr ((c :: enc_str_body m r) ++ dq :: rest) = Some (c :: r, rest)).
           { rewrite <- app_comm_cons. rewrite (dstr_high c _ Hhi), (IH r m rest); [reflexivity|lia|exact Hv]. }
           destruct r as [|b1 [|b2 r2]]; try exact Hplain.
           destruct (is_ls c b1 b2) eqn:Els.
           { apply is_ls_eq in Els. destruct Els as [-> [-> ->]].
             vm_compute in Er. injection Er as <-.
             change (utf8_valid_k 2 (chr 128 :: chr 168 :: r2)) with (utf8_valid_k 0 r2) in Hv.
             rewrite <- app_assoc.
             change (dstr (["\"; "u"; "2"; "0"; "2"; "8"]%char ++ enc_str_body 0 r2 ++ dq :: rest))
               with (push [chr 226; chr 128; chr 168] (dstr (enc_str_body 0 r2 ++ dq :: rest))).
             rewrite (IH r2 0 rest); [reflexivity|simpl in Hlen; lia|exact Hv]. }
           destruct (is_ps c b1 b2) eqn:Eps; [|exact Hplain].
           apply is_ps_eq in Eps. destruct Eps as [-> [-> ->]].
           vm_compute in Er. injection Er as <-.
           change (utf8_valid_k 2 (chr 128 :: chr 169 :: r2)) with (utf8_valid_k 0 r2) in Hv.
           rewrite <- app_assoc.
           change (dstr (["\"; "u"; "2"; "0"; "2"; "9"]%char ++ enc_str_body 0 r2 ++ dq :: rest))
             with (push [chr 226; chr 128; chr 169] (dstr (enc_str_body 0 r2 ++ dq :: rest))).
           rewrite (IH r2 0 rest); [reflexivity|simpl in Hlen; lia|exact Hv].
      * simpl in Hv. apply andb_true_iff in Hv. destruct Hv as [Hc Hv].
        rewrite enc_str_body_S. rewrite <- app_comm_cons.
        rewrite (dstr_high c _ (contb_high c Hc)), (IH r k rest); [reflexivity|lia|exact Hv].
Qed.

Lemma dstr_enc_str s rest : utf8_valid s = true -> dstr (enc_str_body 0 s ++ dq :: rest) = Some (s, rest).
Proof. intros H. apply (dstr_enc (length s)); [lia|exact H]. Qed.

(* the continuation bytes that rune_len has checked *)
Fixpoint cont_prefix (k : nat) (s : bytes) : bool :=
  match k with
  | O => true
  | S k' => match s with
            | c :: r => contb c && cont_prefix k' r
            | [] => false
            end
  end.

Lemma rune_len_cont c r m : rune_len c r = S m -> (code c <? 128)%N = false -> cont_prefix m r = true.
Proof.
  unfold rune_len. intros H Ha. rewrite Ha in H.
  destruct (code c <? 194)%N; [discriminate|].
  destruct (code c <? 224)%N.
  { destruct r as [|b1 r]; [discriminate|]. destruct (contb b1) eqn:E; [|discriminate].
    injection H as <-. simpl. rewrite E. reflexivity. }
  destruct (code c <? 240)%N.
  { destruct r as [|b1 [|b2 r]]; try discriminate.
    match type of H with (if ?t && ?u then _ else _) = _ => destruct t eqn:E1; destruct u eqn:E2; simpl in H; try discriminate end.
    injection H as <-.
    assert (Hb1 : contb b1 = true).
    { apply andb_true_iff in E1. destruct E1 as [X Y]. apply N.leb_le in X, Y. unfold contb.
      destruct (code c =? 224)%N, (code c =? 237)%N; apply andb_true_iff; split;
        try apply N.leb_le; try apply N.ltb_lt; lia. }
    simpl. rewrite Hb1, E2. reflexivity. }
  destruct (code c <? 245)%N; [|discriminate].
  destruct r as [|b1 [|b2 [|b3 r]]]; try discriminate.
  match type of H with (if ?t && ?u && ?w then _ else _) = _ => destruct t eqn:E1; destruct u eqn:E2; destruct w eqn:E3; simpl in H; try discriminate end.
  injection H as <-.
  assert (Hb1 : contb b1 = true).
  { apply andb_true_iff in E1. destruct E1 as [X Y]. apply N.leb_le in X, Y. unfold contb.
    destruct (code c =? 240)%N, (code c =? 244)%N; apply andb_true_iff; split;
      try apply N.leb_le; try apply N.ltb_lt; lia. }
  simpl. rewrite Hb1, E2, E3. reflexivity.
Qed.

(* every string body the encoder writes, for ANY byte string, is a JSON string body *)
Lemma rstr_enc n : forall s k rest, length s <= n -> cont_prefix k s = true ->
  rstr (enc_str_body k s ++ dq :: rest) = Some rest.
Proof.
  induction n as [|n IH]; intros s k rest Hlen Hv.
  - destruct s; [|simpl in Hlen; lia]. destruct k; [|discriminate Hv]. apply rstr_close.
  - destruct s as [|c r].
    + destruct k; [|discriminate Hv]. apply rstr_close.
    + simpl in Hlen. destruct k as [|k].
      * rewrite enc_str_body_0.
        destruct (code c <? 128)%N eqn:Ea.
        -- rewrite <- app_assoc, (rstr_ascii c _ Ea). apply IH; [lia|reflexivity].
        -- unfold enc_hi. destruct (rune_len c r) as [|m] eqn:Er.
           { rewrite <- app_assoc.
             change (rstr (["\"; "u"; "f"; "f"; "f"; "d"]%char ++ enc_str_body 0 r ++ dq :: rest))
               with (rstr (enc_str_body 0 r ++ dq :: rest)).
             apply IH; [lia|reflexivity]. }
           assert (Hhi := lt128_false_high c Ea).
           assert (Hplain : rstr ((c :: enc_str_body m r) ++ dq :: rest) = Some rest).
           { rewrite <- app_comm_cons. rewrite (rstr_high c _ Hhi). apply IH; [lia|]. apply (rune_len_cont c r m Er Ea). }
           destruct r as [|b1 [|b2 r2]]; try exact Hplain.
           destruct (is_ls c b1 b2).
           { rewrite <- app_assoc.
             change (rstr (["\"; "u"; "2"; "0"; "2"; "8"]%char ++ enc_str_body 0 r2 ++ dq :: rest))
               with (rstr (enc_str_body 0 r2 ++ dq :: rest)).
             apply IH; [simpl in Hlen; lia|reflexivity]. }
           destruct (is_ps c b1 b2); [|exact Hplain].
           rewrite <- app_assoc.
           change (rstr (["\"; "u"; "2"; "0"; "2"; "9"]%char ++ enc_str_body 0 r2 ++ dq :: rest))
             with (rstr (enc_str_body 0 r2 ++ dq :: rest)).
           apply IH; [simpl in Hlen; lia|reflexivity].
      * simpl in Hv. apply andb_true_iff in Hv. destruct Hv as [Hc Hv].
        rewrite enc_str_body_S. rewrite <- app_comm_cons.
        rewrite (rstr_high c _ (contb_high c Hc)). apply IH; [lia|exact Hv].
Qed.

Lemma rstr_enc_str s rest : rstr (enc_str_body 0 s ++ dq :: rest) = Some rest.
Proof. apply (rstr_enc (length s)); [lia|reflexivity]. Qed.

(* ------------------------------------------------------------------ numbers *)

(* what may follow a value in a JSON text: nothing, or , ] } *)
Definition delim_hd (rest : bytes) : Prop :=
  match rest with
  | [] => True
  | c :: _ => c = ","%char \/ c = "]"%char \/ c = "}"%char
  end.

Lemma delim_digit_of rest : delim_hd rest -> match rest with [] => True | c :: _ => digit_of c = None end.
Proof. destruct rest as [|c r]; simpl; [trivial|]. intros [->|[->| ->]]; reflexivity. Qed.

Lemma read_enc_uint u rest : delim_hd rest -> read_uint (enc_uint u ++ rest) = (u, rest).
Proof.
  intros Hd. induction u; simpl; try (rewrite IHu; reflexivity).
  destruct rest as [|c r]; [reflexivity|]. simpl.
  rewrite (delim_digit_of (c :: r) Hd). reflexivity.
Qed.

Lemma uint_beq_refl u : uint_beq u u = true.
Proof. apply internal_uint_dec_lb. reflexivity. Qed.

Lemma unorm_to_uint p : unorm (Pos.to_uint p) = Pos.to_uint p.
Proof.
  rewrite <- (DecimalPos.Unsigned.to_of (Pos.to_uint p)), DecimalPos.Unsigned.of_to. reflexivity.
Qed.

Lemma enc_uint_hd u : u <> Nil -> exists c t, enc_uint u = c :: t /\ (code c =? 45)%N = false /\ is_digit c = true.
Proof. destruct u; intros H; [contradiction| | | | | | | | | |]; simpl; eexists; eexists; repeat split. Qed.

Lemma dnum_pos_eq c r : (code c =? 45)%N = false ->
  dnum (c :: r) = (let (u, rest) := read_uint (c :: r) in
                   if uint_beq (unorm u) u then Some (JInt (Z.of_int (Pos u)), rest) else None).
Proof. intros H. unfold dnum. rewrite H. reflexivity. Qed.

Lemma dnum_neg_eq r :
  dnum ("-"%char :: r) = (let (u, rest) := read_uint r in
                          if uint_beq (unorm u) u
                          then (if uint_beq u zero then None else Some (JInt (Z.of_int (Neg u)), rest))
                          else None).
Proof. reflexivity. Qed.

Lemma dnum_enc z rest : delim_hd rest -> dnum (enc_int z ++ rest) = Some (JInt z, rest).
Proof.
  intros Hd. unfold enc_int. destruct z as [|p|p]; simpl Z.to_int.
  - change (dnum ("0"%char :: rest) = Some (JInt 0, rest)). rewrite dnum_pos_eq by reflexivity.
    change ("0"%char :: rest) with (enc_uint zero ++ rest). rewrite (read_enc_uint zero rest Hd). reflexivity.
  - change (dnum (enc_uint (Pos.to_uint p) ++ rest) = Some (JInt (Zpos p), rest)).
    destruct (enc_uint_hd (Pos.to_uint p) (DecimalPos.Unsigned.to_uint_nonnil p)) as [c [t [E [Hm _]]]].
    assert (E2 : enc_uint (Pos.to_uint p) ++ rest = c :: (t ++ rest)) by (rewrite E; reflexivity).
    rewrite E2, (dnum_pos_eq c _ Hm), <- E2.
    rewrite (read_enc_uint _ rest Hd), unorm_to_uint, uint_beq_refl.
    f_equal. f_equal. f_equal. exact (DecimalZ.of_to (Zpos p)).
  - change (dnum ("-"%char :: (enc_uint (Pos.to_uint p) ++ rest)) = Some (JInt (Zneg p), rest)).
    rewrite dnum_neg_eq.
    rewrite (read_enc_uint _ rest Hd), unorm_to_uint, uint_beq_refl.
    destruct (uint_beq (Pos.to_uint p) zero) eqn:E.
    + apply internal_uint_dec_bl in E. exfalso. exact (DecimalPos.Unsigned.to_uint_nonzero p E).
    + f_equal. f_equal. f_equal. exact (DecimalZ.of_to (Zneg p)).
Qed.

(* the digits of a positive number do not start with 0 *)
Lemma to_uint_no_leading_zero p u' : Pos.to_uint p <> D0 u'.
Proof.
  intros E. assert (H := unorm_to_uint p). rewrite E in H. unfold unorm in H. simpl nzhead in H.
  destruct (nzhead u') eqn:En; try (rewrite <- En in H; exact (DecimalFacts.nzhead_nonzero u' u' H)).
  injection H as H. subst u'. exact (DecimalPos.Unsigned.to_uint_nonzero p E).
Qed.

Lemma skip_digits_enc u rest : delim_hd rest -> skip_digits (enc_uint u ++ rest) = rest.
Proof.
  intros Hd. induction u; simpl; try exact IHu.
  destruct rest as [|c r]; [reflexivity|]. destruct Hd as [->|[->| ->]]; reflexivity.
Qed.

Lemma rfrac_delim rest : delim_hd rest -> rfrac rest = Some rest.
Proof. destruct rest as [|c r]; [reflexivity|]. intros [->|[->| ->]]; reflexivity. Qed.

Lemma rexp_delim rest : delim_hd rest -> rexp rest = Some rest.
Proof. destruct rest as [|c r]; [reflexivity|]. intros [->|[->| ->]]; reflexivity. Qed.

Lemma rnum_nz c r : Ascii.eqb c "-" = false -> Ascii.eqb c "0" = false -> is_digit c = true ->
  rnum (c :: r) = match rfrac (skip_digits r) with Some r1 => rexp r1 | None => None end.
Proof. intros H1 H2 H3. unfold rnum. rewrite H1, H2, H3. reflexivity. Qed.

Lemma rnum_pos p rest : delim_hd rest -> rnum (enc_uint (Pos.to_uint p) ++ rest) = Some rest.
Proof.
  intros Hd. assert (Hz := to_uint_no_leading_zero p). assert (Hn := DecimalPos.Unsigned.to_uint_nonnil p).
  destruct (Pos.to_uint p) as [|u|u|u|u|u|u|u|u|u|u]; [contradiction|exfalso; exact (Hz u eq_refl)| | | | | | | | |];
    simpl enc_uint; rewrite <- app_comm_cons; rewrite rnum_nz by reflexivity;
    rewrite (skip_digits_enc u rest Hd), (rfrac_delim rest Hd); apply (rexp_delim rest Hd).
Qed.

Lemma rnum_minus c r : Ascii.eqb c "-" = false -> rnum ("-"%char :: c :: r) = rnum (c :: r).
Proof. intros H. unfold rnum. rewrite H. reflexivity. Qed.

Lemma rnum_enc z rest : delim_hd rest -> rnum (enc_int z ++ rest) = Some rest.
Proof.
  intros Hd. unfold enc_int. destruct z as [|p|p]; simpl Z.to_int.
  - change (match rfrac rest with Some r1 => rexp r1 | None => None end = Some rest).
    rewrite (rfrac_delim rest Hd). apply (rexp_delim rest Hd).
  - apply rnum_pos. exact Hd.
  - change (rnum ("-"%char :: (enc_uint (Pos.to_uint p) ++ rest)) = Some rest).
    assert (H := rnum_pos p rest Hd).
    destruct (enc_uint_hd (Pos.to_uint p) (DecimalPos.Unsigned.to_uint_nonnil p)) as [c [t [E [Hm _]]]].
    rewrite E in *. rewrite <- app_comm_cons in *.
    assert (Hc : Ascii.eqb c "-" = false).
    { destruct (Ascii.eqb c "-") eqn:X; [|reflexivity]. apply Ascii.eqb_eq in X. subst c. discriminate Hm. }
    rewrite (rnum_minus c _ Hc). exact H.
Qed.

(* ------------------------------------------------------------------ induction over nested values *)

Fixpoint jv_ind2 (P : jv -> Prop)
  (Hn : P JNull) (Hb : forall b, P (JBool b)) (Hi : forall z, P (JInt z)) (Hs : forall s, P (JStr s))
  (Ha : forall l, Forall P l -> P (JArr l))
  (Ho : forall m, Forall (fun kv => P (snd kv)) m -> P (JObj m)) (j : jv) : P j :=
  match j with
  | JNull => Hn
  | JBool b => Hb b
  | JInt z => Hi z
  | JStr s => Hs s
  | JArr l => Ha l ((fix go (l : list jv) : Forall P l :=
                       match l with
                       | [] => Forall_nil P
                       | x :: r => Forall_cons x (jv_ind2 P Hn Hb Hi Hs Ha Ho x) (go r)
                       end) l)
  | JObj m => Ho m ((fix go (m : list (bytes * jv)) : Forall (fun kv => P (snd kv)) m :=
                       match m with
                       | [] => Forall_nil _
                       | kv :: r => Forall_cons kv (jv_ind2 P Hn Hb Hi Hs Ha Ho (snd kv)) (go r)
                       end) m)
  end.

Fixpoint obj_ind2 (P : obj -> Prop)
  (Hn : P ONil) (Hb : forall b, P (OBool b)) (Hi : forall z, P (ONum z)) (Hs : forall s, P (OStr s))
  (Ha : forall l, Forall P l -> P (OArr l))
  (Ho : forall m, Forall (fun kv => P (snd kv)) m -> P (OMap m)) (o : obj) : P o :=
  match o with
  | ONil => Hn
  | OBool b => Hb b
  | ONum z => Hi z
  | OStr s => Hs s
  | OArr l => Ha l ((fix go (l : list obj) : Forall P l :=
                       match l with
                       | [] => Forall_nil P
                       | x :: r => Forall_cons x (obj_ind2 P Hn Hb Hi Hs Ha Ho x) (go r)
                       end) l)
  | OMap m => Ho m ((fix go (m : list (bytes * obj)) : Forall (fun kv => P (snd kv)) m :=
                       match m with
                       | [] => Forall_nil _
                       | kv :: r => Forall_cons kv (obj_ind2 P Hn Hb Hi Hs Ha Ho (snd kv)) (go r)
                       end) m)
  end.

Fixpoint gv_ind2 (P : gv -> Prop)
  (Hn : P GNil) (Hb : forall b, P (GBool b)) (Hi : forall z, P (GInt z)) (Hs : forall s, P (GStr s))
  (Ha : forall l, Forall P l -> P (GArr l))
  (Ho : forall m, Forall (fun kv => P (snd kv)) m -> P (GMap m)) (Hx : P GOther) (d : gv) : P d :=
  match d with
  | GNil => Hn
  | GBool b => Hb b
  | GInt z => Hi z
  | GStr s => Hs s
  | GArr l => Ha l ((fix go (l : list gv) : Forall P l :=
                       match l with
                       | [] => Forall_nil P
                       | x :: r => Forall_cons x (gv_ind2 P Hn Hb Hi Hs Ha Ho Hx x) (go r)
                       end) l)
  | GMap m => Ho m ((fix go (m : list (bytes * gv)) : Forall (fun kv => P (snd kv)) m :=
                       match m with
                       | [] => Forall_nil _
                       | kv :: r => Forall_cons kv (gv_ind2 P Hn Hb Hi Hs Ha Ho Hx (snd kv)) (go r)
                       end) m)
  | GOther => Hx
  end.

(* ------------------------------------------------------------------ one step of the reader / recogniser *)

Lemma pval_str f r :
  pval (S f) (dq :: r) = match dstr r with Some (t, r1) => Some (JStr t, r1) | None => None end.
Proof. reflexivity. Qed.

Lemma skip_ws_nonws c r : is_ws c = false -> skip_ws (c :: r) = c :: r.
Proof. intros H. simpl. rewrite H. reflexivity. Qed.

Lemma pval_arr f r :
  pval (S f) ("["%char :: r) =
  match skip_ws r with
  | [] => None
  | c1 :: r1 =>
    if (code c1 =? 93)%N then Some (JArr [], r1)
    else match pval f r with
         | Some (v, r2) => match parr f r2 with
                           | Some (l, r3) => Some (JArr (v :: l), r3)
                           | None => None
                           end
         | None => None
         end
  end.
Proof. reflexivity. Qed.

Lemma pval_obj f r :
  pval (S f) ("{"%char :: r) =
  match skip_ws r with
  | [] => None
  | c1 :: r1 =>
    if (code c1 =? 125)%N then Some (JObj [], r1)
    else match pmem f r with
         | Some (kv, r2) => match pobj f r2 with
                            | Some (l, r3) => Some (JObj (kv :: l), r3)
                            | None => None
                            end
         | None => None
         end
  end.
Proof. reflexivity. Qed.

Lemma parr_close f r : parr (S f) ("]"%char :: r) = Some ([], r).
Proof. reflexivity. Qed.

Lemma parr_comma f r :
  parr (S f) (","%char :: r) = match pval f r with
                               | Some (v, r1) => match parr f r1 with
                                                 | Some (l, r2) => Some (v :: l, r2)
                                                 | None => None
                                                 end
                               | None => None
                               end.
Proof. reflexivity. Qed.

Lemma pobj_close f r : pobj (S f) ("}"%char :: r) = Some ([], r).
Proof. reflexivity. Qed.

Lemma pobj_comma f r :
  pobj (S f) (","%char :: r) = match pmem f r with
                               | Some (kv, r1) => match pobj f r1 with
                                                  | Some (l, r2) => Some (kv :: l, r2)
                                                  | None => None
                                                  end
                               | None => None
                               end.
Proof. reflexivity. Qed.

Lemma pmem_eq f r :
  pmem (S f) (dq :: r) = match dstr r with
                         | Some (k, r0) =>
                           match skip_ws r0 with
                           | c2 :: r1 =>
                             if (code c2 =? 58)%N then match pval f r1 with
                                                       | Some (v, r2) => Some ((k, v), r2)
                                                       | None => None
                                                       end
                             else None
                           | [] => None
                           end
                         | None => None
                         end.
Proof. reflexivity. Qed.

Lemma pval_num c r f : is_digit c || (code c =? 45)%N = true -> pval (S f) (c :: r) = dnum (c :: r).
Proof.
  intros H. destruct c as [[] [] [] [] [] [] [] []]; try (vm_compute in H; discriminate H); reflexivity.
Qed.

Lemma rval_str f r : rval (S f) (dq :: r) = rstr r.
Proof. reflexivity. Qed.

Lemma rval_arr f r :
  rval (S f) ("["%char :: r) =
  match skip_ws r with
  | c1 :: r1 => if Ascii.eqb c1 "]"%char then Some r1
                else match rval f r with Some r2 => rarr f r2 | None => None end
  | [] => None
  end.
Proof. reflexivity. Qed.

Lemma rval_obj f r :
  rval (S f) ("{"%char :: r) =
  match skip_ws r with
  | c1 :: r1 => if Ascii.eqb c1 "}"%char then Some r1
                else match rmem f r with Some r2 => robj f r2 | None => None end
  | [] => None
  end.
Proof. reflexivity. Qed.

Lemma rarr_close f r : rarr (S f) ("]"%char :: r) = Some r.
Proof. reflexivity. Qed.

Lemma rarr_comma f r : rarr (S f) (","%char :: r) = match rval f r with Some r1 => rarr f r1 | None => None end.
Proof. reflexivity. Qed.

Lemma robj_close f r : robj (S f) ("}"%char :: r) = Some r.
Proof. reflexivity. Qed.

Lemma robj_comma f r : robj (S f) (","%char :: r) = match rmem f r with Some r1 => robj f r1 | None => None end.
Proof. reflexivity. Qed.

Lemma rmem_eq f r :
  rmem (S f) (dq :: r) = match rstr r with
                         | Some r0 => match skip_ws r0 with
                                      | c2 :: r1 => if Ascii.eqb c2 ":"%char then rval f r1 else None
                                      | [] => None
                                      end
                         | None => None
                         end.
Proof. reflexivity. Qed.

Lemma rval_num c r f : is_digit c || (code c =? 45)%N = true -> rval (S f) (c :: r) = rnum (c :: r).
Proof.
  intros H. destruct c as [[] [] [] [] [] [] [] []]; try (vm_compute in H; discriminate H); reflexivity.
Qed.

(* first byte of a value's text *)
Lemma enc_int_hd z : exists c t, enc_int z = c :: t /\ is_digit c || (code c =? 45)%N = true.
Proof.
  unfold enc_int. destruct z as [|p|p]; simpl Z.to_int; cbv iota.
  - eexists; eexists; split; reflexivity.
  - destruct (enc_uint_hd (Pos.to_uint p) (DecimalPos.Unsigned.to_uint_nonnil p)) as [c [t [E [_ Hd]]]].
    exists c, t. split; [exact E|]. rewrite Hd. reflexivity.
  - eexists; eexists; split; reflexivity.
Qed.

Definition opens_value (c : ascii) : Prop := (code c =? 93)%N = false /\ (code c =? 125)%N = false /\ is_ws c = false.

Lemma digit_opens c : is_digit c || (code c =? 45)%N = true -> opens_value c.
Proof.
  intros H. destruct c as [[] [] [] [] [] [] [] []]; try (vm_compute in H; discriminate H); repeat split; reflexivity.
Qed.

Lemma encode_hd j : exists c t, encode_go j = c :: t /\ opens_value c.
Proof.
  destruct j as [|[]|z|s|l|m]; simpl; try (eexists; eexists; split; [reflexivity|repeat split; reflexivity]).
  destruct (enc_int_hd z) as [c [t [E H]]]. exists c, t. split; [exact E|]. apply digit_opens. exact H.
Qed.

Lemma delim_arr_tail l rest : delim_hd (arr_tail l ++ rest).
Proof. destruct l; simpl; auto. Qed.

Lemma delim_obj_tail l rest : delim_hd (obj_tail l ++ rest).
Proof. destruct l as [|[k t] r]; simpl; auto. Qed.

(* ------------------------------------------------------------------ the round trip, for trees of any nesting and size *)

Local Arguments enc_str : simpl never.

Lemma length_obj_tail_cons k t r :
  length (obj_tail ((k, t) :: r)) = S (length (enc_str k) + S (length t + length (obj_tail r))).
Proof.
  change (obj_tail ((k, t) :: r)) with ([","%char] ++ enc_str k ++ [":"%char] ++ t ++ obj_tail r).
  rewrite !app_length. reflexivity.
Qed.

Lemma length_obj_body_cons k t r :
  length (obj_body ((k, t) :: r)) = length (enc_str k) + S (length t + length (obj_tail r)).
Proof.
  change (obj_body ((k, t) :: r)) with (enc_str k ++ [":"%char] ++ t ++ obj_tail r).
  rewrite !app_length. reflexivity.
Qed.

Lemma enc_str_app k X : enc_str k ++ X = dq :: (enc_str_body 0 k ++ dq :: X).
Proof. unfold enc_str. simpl. rewrite <- app_assoc. reflexivity. Qed.

Lemma arr_tail_cons_app t r rest : arr_tail (t :: r) ++ rest = ","%char :: (t ++ arr_tail r ++ rest).
Proof. change (arr_tail (t :: r)) with ([","%char] ++ t ++ arr_tail r). rewrite <- !app_assoc. reflexivity. Qed.

Lemma arr_body_cons_app t r rest : arr_body (t :: r) ++ rest = t ++ arr_tail r ++ rest.
Proof. change (arr_body (t :: r)) with (t ++ arr_tail r). rewrite <- !app_assoc. reflexivity. Qed.

Lemma obj_tail_cons_app k t r rest :
  obj_tail ((k, t) :: r) ++ rest = ","%char :: (enc_str k ++ ":"%char :: (t ++ obj_tail r ++ rest)).
Proof.
  change (obj_tail ((k, t) :: r)) with ([","%char] ++ enc_str k ++ [":"%char] ++ t ++ obj_tail r).
  rewrite <- !app_assoc. reflexivity.
Qed.

Lemma obj_body_cons_app k t r rest :
  obj_body ((k, t) :: r) ++ rest = enc_str k ++ ":"%char :: (t ++ obj_tail r ++ rest).
Proof.
  change (obj_body ((k, t) :: r)) with (enc_str k ++ [":"%char] ++ t ++ obj_tail r).
  rewrite <- !app_assoc. reflexivity.
Qed.

Lemma length_arr_tail_cons t r : length (arr_tail (t :: r)) = S (length t + length (arr_tail r)).
Proof. change (arr_tail (t :: r)) with ([","%char] ++ t ++ arr_tail r). rewrite !app_length. reflexivity. Qed.

Lemma length_arr_body_cons t r : length (arr_body (t :: r)) = length t + length (arr_tail r).
Proof. change (arr_body (t :: r)) with (t ++ arr_tail r). rewrite !app_length. reflexivity. Qed.

Lemma enc_str_len s : 1 <= length (enc_str s).
Proof. unfold enc_str. simpl. lia. Qed.

Opaque enc_str.

Definition reads_back (j : jv) : Prop :=
  forall f rest, length (encode_go j) <= f -> delim_hd rest ->
  pval f (encode_go j ++ rest) = Some (j, rest).

Lemma parr_enc l rest : Forall reads_back l ->
  forall f, length (arr_tail (map encode_go l)) <= f ->
  parr f (arr_tail (map encode_go l) ++ rest) = Some (l, rest).
Proof.
  induction 1 as [|x r Hx Hr IH]; intros f Hf.
  - destruct f; [simpl in Hf; lia|]. apply parr_close.
  - simpl map in *. rewrite length_arr_tail_cons in Hf. destruct f; [lia|].
    rewrite arr_tail_cons_app, parr_comma.
    rewrite (Hx f _ ltac:(lia) (delim_arr_tail _ rest)).
    rewrite (IH f ltac:(lia)). reflexivity.
Qed.

Definition member_reads_back (kv : bytes * jv) : Prop := utf8_valid (fst kv) = true /\ reads_back (snd kv).

Definition enc_member (kv : bytes * jv) : bytes * bytes := match kv with (k, v) => (k, encode_go v) end.

Lemma pmem_enc k v f rest : utf8_valid k = true -> reads_back v -> length (encode_go v) < f -> delim_hd rest ->
  pmem f (enc_str k ++ ":"%char :: (encode_go v ++ rest)) = Some ((k, v), rest).
Proof.
  intros Hk Hv Hf Hd. destruct f; [lia|].
  rewrite enc_str_app, pmem_eq, (dstr_enc_str k _ Hk), (skip_ws_nonws ":"%char _ eq_refl).
  change (code ":" =? 58)%N with true. cbv iota.
  rewrite (Hv f rest ltac:(lia) Hd). reflexivity.
Qed.

Lemma pobj_enc m rest : Forall member_reads_back m ->
  forall f, length (obj_tail (map enc_member m)) <= f ->
  pobj f (obj_tail (map enc_member m) ++ rest) = Some (m, rest).
Proof.
  induction 1 as [|[k v] r [Hk Hv] Hr IH]; intros f Hf.
  - destruct f; [simpl in Hf; lia|]. apply pobj_close.
  - simpl map in *. simpl fst in *. simpl snd in *. rewrite length_obj_tail_cons in Hf.
    destruct f; [lia|].
    rewrite obj_tail_cons_app, pobj_comma.
    rewrite (pmem_enc k v f _ Hk Hv ltac:(lia) (delim_obj_tail _ rest)).
    rewrite (IH f ltac:(lia)). reflexivity.
Qed.

Lemma enc_member_eq m : map (fun kv => match kv with (k, v) => (k, encode_go v) end) m = map enc_member m.
Proof. reflexivity. Qed.

Lemma pval_enc j : wf_jv j = true -> reads_back j.
Proof.
  induction j as [| b | z | s | l IHl | m IHm] using jv_ind2; intros Hwf f rest Hf Hd.
  - destruct f; [simpl in Hf; lia|]. reflexivity.
  - destruct f; [destruct b; simpl in Hf; lia|]. destruct b; reflexivity.
  - simpl encode_go in *. destruct (enc_int_hd z) as [c [t [E Hc]]].
    destruct f; [rewrite E in Hf; simpl in Hf; lia|].
    assert (Eh : enc_int z ++ rest = c :: (t ++ rest)) by (rewrite E; reflexivity).
    rewrite Eh, (pval_num c _ f Hc), <- Eh. apply dnum_enc. exact Hd.
  - simpl encode_go in *. destruct f; [pose proof (enc_str_len s); lia|].
    rewrite enc_str_app, pval_str, (dstr_enc_str s rest Hwf). reflexivity.
  - simpl in Hwf. assert (Hall : Forall reads_back l).
    { rewrite Forall_forall in *. intros x Hx. apply IHl; [exact Hx|].
      rewrite forallb_forall in Hwf. apply Hwf. exact Hx. }
    clear IHl Hwf. simpl encode_go in *. destruct f; [simpl in Hf; lia|]. simpl length in Hf.
    destruct Hall as [|x r Hx Hr].
    + reflexivity.
    + simpl map in *. rewrite length_arr_body_cons in Hf.
      destruct (encode_hd x) as [c [t [E [H93 [_ Hws]]]]].
      rewrite <- app_comm_cons, arr_body_cons_app.
      assert (Eh : encode_go x ++ arr_tail (map encode_go r) ++ rest = c :: (t ++ arr_tail (map encode_go r) ++ rest))
        by (rewrite E; reflexivity).
      rewrite pval_arr. rewrite Eh at 1. rewrite (skip_ws_nonws c _ Hws), H93.
      rewrite (Hx f _ ltac:(lia) (delim_arr_tail _ rest)).
      rewrite (parr_enc r rest Hr f ltac:(lia)). reflexivity.
  - simpl in Hwf. apply andb_true_iff in Hwf. destruct Hwf as [Hsorted Hwf].
    assert (Hall : Forall member_reads_back m).
    { rewrite Forall_forall in *. intros [k v] Hx. rewrite forallb_forall in Hwf.
      specialize (Hwf (k, v) Hx). simpl in Hwf. apply andb_true_iff in Hwf. destruct Hwf as [Hk Hv].
      split; [exact Hk|]. apply (IHm (k, v) Hx). exact Hv. }
    clear IHm Hwf. simpl encode_go in *.
    rewrite sort_kv_id in * by (rewrite keys_map_val; exact Hsorted).
    rewrite enc_member_eq in *.
    destruct f; [simpl in Hf; lia|]. simpl length in Hf.
    destruct Hall as [|[k v] r [Hk Hv] Hr].
    + reflexivity.
    + simpl map in *. simpl fst in *. simpl snd in *. rewrite length_obj_body_cons in Hf.
      rewrite <- app_comm_cons, obj_body_cons_app.
      rewrite pval_obj. rewrite enc_str_app at 1. rewrite (skip_ws_nonws dq _ eq_refl).
      change (code dq =? 125)%N with false. cbv iota.
      rewrite (pmem_enc k v f _ Hk Hv ltac:(lia) (delim_obj_tail _ rest)).
      rewrite (pobj_enc r rest Hr f ltac:(lia)). reflexivity.
Qed.

Theorem decode_encode j : wf_jv j = true -> decode (encode_go j) = Some j.
Proof.
  intros Hwf. unfold decode.
  rewrite <- (app_nil_r (encode_go j)) at 2.
  rewrite (pval_enc j Hwf (S (length (encode_go j))) [] ltac:(lia) I). reflexivity.
Qed.

(* ------------------------------------------------------------------ every text the encoder writes is JSON
   (any tree: unsorted or duplicate keys, bytes that are not UTF-8) *)

Definition accepted (t : bytes) : Prop :=
  forall f rest, length t <= f -> delim_hd rest -> rval f (t ++ rest) = Some rest.

Lemma rarr_enc ts rest : Forall accepted ts ->
  forall f, length (arr_tail ts) <= f -> rarr f (arr_tail ts ++ rest) = Some rest.
Proof.
  induction 1 as [|t r Ht Hr IH]; intros f Hf.
  - destruct f; [simpl in Hf; lia|]. apply rarr_close.
  - rewrite length_arr_tail_cons in Hf. destruct f; [lia|].
    rewrite arr_tail_cons_app, rarr_comma.
    rewrite (Ht f _ ltac:(lia) (delim_arr_tail _ rest)).
    apply IH. lia.
Qed.

Lemma rmem_enc k t f rest : accepted t -> length t < f -> delim_hd rest ->
  rmem f (enc_str k ++ ":"%char :: (t ++ rest)) = Some rest.
Proof.
  intros Ht Hf Hd. destruct f; [lia|].
  rewrite enc_str_app, rmem_eq, rstr_enc_str, (skip_ws_nonws ":"%char _ eq_refl).
  change (Ascii.eqb ":" ":") with true. cbv iota.
  apply Ht; [lia|exact Hd].
Qed.

Lemma robj_enc kts rest : Forall (fun kt : bytes * bytes => accepted (snd kt)) kts ->
  forall f, length (obj_tail kts) <= f -> robj f (obj_tail kts ++ rest) = Some rest.
Proof.
  induction 1 as [|[k t] r Ht Hr IH]; intros f Hf.
  - destruct f; [simpl in Hf; lia|]. apply robj_close.
  - simpl snd in *. rewrite length_obj_tail_cons in Hf. destruct f; [lia|].
    rewrite obj_tail_cons_app, robj_comma.
    rewrite (rmem_enc k t f _ Ht ltac:(lia) (delim_obj_tail _ rest)).
    apply IH. lia.
Qed.

Lemma opens_not_close c : opens_value c -> Ascii.eqb c "]" = false /\ Ascii.eqb c "}" = false.
Proof.
  intros [H1 [H2 _]]. split.
  - destruct (Ascii.eqb c "]") eqn:E; [|reflexivity]. apply Ascii.eqb_eq in E. subst c. discriminate H1.
  - destruct (Ascii.eqb c "}") eqn:E; [|reflexivity]. apply Ascii.eqb_eq in E. subst c. discriminate H2.
Qed.

Lemma rval_enc j : accepted (encode_go j).
Proof.
  induction j as [| b | z | s | l IHl | m IHm] using jv_ind2; intros f rest Hf Hd.
  - destruct f; [simpl in Hf; lia|]. reflexivity.
  - destruct f; [destruct b; simpl in Hf; lia|]. destruct b; reflexivity.
  - simpl encode_go in *. destruct (enc_int_hd z) as [c [t [E Hc]]].
    destruct f; [rewrite E in Hf; simpl in Hf; lia|].
    assert (Eh : enc_int z ++ rest = c :: (t ++ rest)) by (rewrite E; reflexivity).
    rewrite Eh, (rval_num c _ f Hc), <- Eh. apply rnum_enc. exact Hd.
  - simpl encode_go in *. destruct f; [pose proof (enc_str_len s); lia|].
    rewrite enc_str_app, rval_str. apply rstr_enc_str.
  - simpl encode_go in *. destruct f; [simpl in Hf; lia|]. simpl length in Hf.
    destruct IHl as [|x r Hx Hr].
    + reflexivity.
    + simpl map in *. rewrite length_arr_body_cons in Hf.
      destruct (encode_hd x) as [c [t [E Ho]]]. destruct (opens_not_close c Ho) as [Hc _].
      destruct Ho as [_ [_ Hws]].
      rewrite <- app_comm_cons, arr_body_cons_app.
      assert (Eh : encode_go x ++ arr_tail (map encode_go r) ++ rest = c :: (t ++ arr_tail (map encode_go r) ++ rest))
        by (rewrite E; reflexivity).
      rewrite rval_arr. rewrite Eh at 1. rewrite (skip_ws_nonws c _ Hws), Hc.
      rewrite (Hx f _ ltac:(lia) (delim_arr_tail _ rest)).
      apply rarr_enc; [|lia].
      clear -Hr. induction Hr; simpl; constructor; assumption.
  - simpl encode_go in *. rewrite enc_member_eq in *.
    assert (Hall : Forall (fun kt : bytes * bytes => accepted (snd kt)) (sort_kv (map enc_member m))).
    { apply Forall_sort_kv. clear -IHm. induction IHm as [|[k v] r Hx Hr IH]; simpl; constructor; assumption. }
    clear IHm. destruct f; [simpl in Hf; lia|]. simpl length in Hf.
    destruct Hall as [|[k t] r Ht Hr].
    + reflexivity.
    + simpl snd in *. rewrite length_obj_body_cons in Hf.
      rewrite <- app_comm_cons, obj_body_cons_app.
      rewrite rval_obj. rewrite enc_str_app at 1. rewrite (skip_ws_nonws dq _ eq_refl).
      change (Ascii.eqb dq "}") with false. cbv iota.
      rewrite (rmem_enc k t f _ Ht ltac:(lia) (delim_obj_tail _ rest)).
      apply robj_enc; [exact Hr|lia].
Qed.

Theorem encode_valid_json j : valid_json (encode_go j) = true.
Proof.
  unfold valid_json.
  rewrite <- (app_nil_r (encode_go j)) at 2.
  rewrite (rval_enc j (S (length (encode_go j))) [] ltac:(lia) I). reflexivity.
Qed.

Transparent enc_str.

(* ------------------------------------------------------------------ marshal: always a canonical tree *)

Lemma lower_first_valid k : key_modelled k = true -> utf8_valid k = true -> utf8_valid (lower_first k) = true.
Proof.
  destruct k as [|c r]; [trivial|]. simpl key_modelled. intros Ha Hv. simpl lower_first.
  destruct ((65 <=? code c)%N && (code c <=? 90)%N) eqn:E; [|exact Hv].
  apply andb_true_iff in E. destruct E as [E1 E2]. apply N.leb_le in E1, E2.
  unfold utf8_valid in *. simpl in *. rewrite (rune_len_ascii c r Ha) in Hv.
  rewrite rune_len_ascii; [exact Hv|].
  unfold chr, code in *. rewrite N_ascii_embedding by lia. apply N.ltb_lt. lia.
Qed.

Definition entry_wf (kv : bytes * jv) : Prop := utf8_valid (fst kv) && wf_jv (snd kv) = true.

Lemma forallb_entry_wf m :
  forallb (fun kv : bytes * jv => match kv with (k, v) => utf8_valid k && wf_jv v end) m = true <-> Forall entry_wf m.
Proof.
  rewrite forallb_forall, Forall_forall. unfold entry_wf.
  split; intros H [k v] Hin; exact (H (k, v) Hin).
Qed.

Definition marshal_entry (kv : bytes * obj) : bytes * jv := match kv with (k, v) => (k, marshal v) end.

Lemma marshal_map_eq m :
  marshal (OMap m) = JObj (sort_kv (tmp_map (sort_kv (map marshal_entry m)))).
Proof. reflexivity. Qed.

Lemma marshal_wf o : obj_ok o = true -> wf_jv (marshal o) = true.
Proof.
  induction o as [| b | z | s | l IHl | m IHm] using obj_ind2; intros Hok; try exact Hok; try reflexivity.
  - simpl in *. rewrite forallb_forall in *. intros j Hj. apply in_map_iff in Hj. destruct Hj as [x [<- Hx]].
    rewrite Forall_forall in IHl. apply IHl; [exact Hx|apply Hok; exact Hx].
  - rewrite marshal_map_eq. simpl wf_jv. apply andb_true_iff. split.
    + apply (sort_kv_sorted (tmp_map (sort_kv (map marshal_entry m)))). apply tmp_map_NoDup.
    + apply forallb_entry_wf. apply Forall_sort_kv.
      apply (Forall_tmp_map (fun kv => key_modelled (fst kv) = true /\ utf8_valid (fst kv) = true /\ wf_jv (snd kv) = true)).
      * intros k v [H1 [H2 H3]]. unfold entry_wf. simpl in *. rewrite (lower_first_valid k H1 H2), H3. reflexivity.
      * apply Forall_sort_kv. simpl in Hok. rewrite forallb_forall in Hok. rewrite Forall_forall in *.
        intros [k j] Hin. apply in_map_iff in Hin. destruct Hin as [[k' v] [E Hin]]. simpl in E. injection E as <- <-.
        specialize (Hok (k', v) Hin). simpl in Hok.
        apply andb_true_iff in Hok. destruct Hok as [Hok H3]. apply andb_true_iff in Hok. destruct Hok as [H1 H2].
        simpl. repeat split; try assumption. apply (IHm (k', v) Hin). exact H3.
Qed.

(* keys that lowerFirst leaves alone, at every level *)
Fixpoint lf_fixedb (j : jv) : bool :=
  match j with
  | JArr l => forallb lf_fixedb l
  | JObj m => forallb (fun kv => match kv with (k, v) => beqb (lower_first k) k && lf_fixedb v end) m
  | _ => true
  end.

Definition entry_lf (kv : bytes * jv) : Prop := beqb (lower_first (fst kv)) (fst kv) && lf_fixedb (snd kv) = true.

Lemma forallb_entry_lf m :
  forallb (fun kv : bytes * jv => match kv with (k, v) => beqb (lower_first k) k && lf_fixedb v end) m = true
  <-> Forall entry_lf m.
Proof.
  rewrite forallb_forall, Forall_forall. unfold entry_lf.
  split; intros H [k v] Hin; exact (H (k, v) Hin).
Qed.

Lemma marshal_lf o : lf_fixedb (marshal o) = true.
Proof.
  induction o as [| b | z | s | l IHl | m IHm] using obj_ind2; try reflexivity.
  - simpl. rewrite forallb_forall. intros j Hj. apply in_map_iff in Hj. destruct Hj as [x [<- Hx]].
    rewrite Forall_forall in IHl. apply IHl. exact Hx.
  - rewrite marshal_map_eq. simpl lf_fixedb. apply forallb_entry_lf. apply Forall_sort_kv.
    apply (Forall_tmp_map (fun kv => lf_fixedb (snd kv) = true)).
    + intros k v H. unfold entry_lf. simpl in *. rewrite lower_first_idem, beqb_refl, H. reflexivity.
    + apply Forall_sort_kv. rewrite Forall_forall in *.
      intros [k j] Hin. apply in_map_iff in Hin. destruct Hin as [[k' v] [E Hin]]. simpl in E. injection E as <- <-.
      simpl. apply (IHm (k', v) Hin).
Qed.

Lemma map_id_Forall {A} (f : A -> A) l : Forall (fun x => f x = x) l -> map f l = l.
Proof. induction 1 as [|x r Hx Hr IH]; simpl; [reflexivity|]. rewrite Hx, IH. reflexivity. Qed.

(* Unmarshal + Convert + MarshalJSON gives the tree back *)
Lemma marshal_obj_of_jv j : wf_jv j = true -> lf_fixedb j = true -> marshal (obj_of_jv j) = j.
Proof.
  induction j as [| b | z | s | l IHl | m IHm] using jv_ind2; intros Hwf Hlf; try reflexivity.
  - simpl in *. f_equal. rewrite map_map. apply map_id_Forall.
    rewrite forallb_forall in Hwf, Hlf. rewrite Forall_forall in *. intros x Hx. apply IHl; auto.
  - simpl obj_of_jv. rewrite marshal_map_eq. rewrite map_map.
    simpl in Hwf, Hlf. apply andb_true_iff in Hwf. destruct Hwf as [Hsorted Hwf].
    apply forallb_entry_wf in Hwf. apply forallb_entry_lf in Hlf.
    assert (E : map (fun x : bytes * jv => marshal_entry (let (k, v) := x in (k, obj_of_jv v))) m = m).
    { apply map_id_Forall. rewrite Forall_forall in *. intros [k v] Hin. simpl. f_equal.
      specialize (Hwf (k, v) Hin). specialize (Hlf (k, v) Hin). unfold entry_wf, entry_lf in *. simpl in *.
      apply andb_true_iff in Hwf, Hlf. apply (IHm (k, v) Hin); tauto. }
    rewrite E. rewrite (sort_kv_id m Hsorted).
    rewrite tmp_map_fixed; [rewrite (sort_kv_id m Hsorted); reflexivity| |].
    + apply sorted_strict_NoDup. exact Hsorted.
    + rewrite Forall_forall in *. intros [k v] Hin. specialize (Hlf (k, v) Hin). unfold entry_lf in Hlf. simpl in *.
      apply andb_true_iff in Hlf. destruct Hlf as [Hlf _]. apply beqb_eq in Hlf. exact Hlf.
Qed.

Theorem decode_stringify o : obj_ok o = true -> decode (stringify o) = Some (marshal o).
Proof. intros H. apply decode_encode. apply marshal_wf. exact H. Qed.

Theorem reparse_fixpoint x : obj_ok x = true ->
  exists y, parse (stringify x) = Some y /\ stringify y = stringify x.
Proof.
  intros Hok. exists (obj_of_jv (marshal x)). split.
  - unfold parse. rewrite (decode_stringify x Hok). reflexivity.
  - unfold stringify. rewrite marshal_obj_of_jv; [reflexivity|apply marshal_wf; exact Hok|apply marshal_lf].
Qed.

(* ------------------------------------------------------------------ page data against its JSON value *)

Lemma f64_of_int_exact z : (Z.abs z <=? two53)%Z = true -> f64_of_int z = z.
Proof. intros H. unfold f64_of_int. rewrite H. reflexivity. Qed.

Definition json_entry (kv : bytes * gv) : bytes * jv := match kv with (k, v) => (k, json_of v) end.

Lemma json_of_map_eq m : json_of (GMap m) = JObj (sort_kv (map json_entry m)).
Proof. reflexivity. Qed.

Lemma keys_json_entry m : keys (map json_entry m) = map fst m.
Proof. unfold keys. rewrite map_map. apply map_ext. intros [k v]. reflexivity. Qed.

Lemma marshal_convert d : dom_C12 d = true -> marshal (convert d) = json_of d.
Proof.
  induction d as [| b | z | s | l IHl | m IHm |] using gv_ind2; intros Hdom; try reflexivity; try discriminate.
  - simpl in *. rewrite (f64_of_int_exact z Hdom). reflexivity.
  - simpl in *. f_equal. rewrite map_map. apply map_ext_in. intros x Hx.
    rewrite forallb_forall in Hdom. rewrite Forall_forall in IHl. apply IHl; auto.
  - simpl convert. rewrite marshal_map_eq, json_of_map_eq, map_map.
    simpl in Hdom. apply andb_true_iff in Hdom. destruct Hdom as [Hnd Hdom]. rewrite forallb_forall in Hdom.
    assert (E : map (fun x : bytes * gv => marshal_entry (let (k, v) := x in (k, convert v))) m = map json_entry m).
    { apply map_ext_in. intros [k v] Hin. simpl. f_equal. rewrite Forall_forall in IHm.
      specialize (Hdom (k, v) Hin). simpl in Hdom. apply andb_true_iff in Hdom. apply (IHm (k, v) Hin); tauto. }
    rewrite E. f_equal.
    assert (Hs : sorted_strict (keys (sort_kv (map json_entry m))) = true).
    { apply sort_kv_sorted. rewrite keys_json_entry. apply nodupb_NoDup. exact Hnd. }
    rewrite tmp_map_fixed; [apply sort_kv_id; exact Hs|apply sorted_strict_NoDup; exact Hs|].
    apply Forall_sort_kv. rewrite Forall_forall. intros [k j] Hin.
    apply in_map_iff in Hin. destruct Hin as [[k' v] [E2 Hin]]. simpl in E2. injection E2 as <- <-.
    specialize (Hdom (k', v) Hin). simpl in Hdom.
    apply andb_true_iff in Hdom. destruct Hdom as [Hdom _]. apply andb_true_iff in Hdom. destruct Hdom as [Hk _].
    simpl. apply lower_first_fixed. exact Hk.
Qed.

Lemma json_of_wf d : dom_C12 d = true -> wf_jv (json_of d) = true.
Proof.
  induction d as [| b | z | s | l IHl | m IHm |] using gv_ind2; intros Hdom; try reflexivity; try discriminate.
  - exact Hdom.
  - simpl in *. rewrite forallb_forall in *. intros j Hj. apply in_map_iff in Hj. destruct Hj as [x [<- Hx]].
    rewrite Forall_forall in IHl. apply IHl; auto.
  - rewrite json_of_map_eq. simpl wf_jv.
    simpl in Hdom. apply andb_true_iff in Hdom. destruct Hdom as [Hnd Hdom]. rewrite forallb_forall in Hdom.
    apply andb_true_iff. split.
    + apply (sort_kv_sorted (map json_entry m)). rewrite keys_json_entry. apply nodupb_NoDup. exact Hnd.
    + apply forallb_entry_wf. apply Forall_sort_kv. rewrite Forall_forall. intros [k j] Hin.
      apply in_map_iff in Hin. destruct Hin as [[k' v] [E2 Hin]]. simpl in E2. injection E2 as <- <-.
      specialize (Hdom (k', v) Hin). simpl in Hdom.
      apply andb_true_iff in Hdom. destruct Hdom as [Hdom Hv]. apply andb_true_iff in Hdom. destruct Hdom as [_ Hk].
      unfold entry_wf. simpl. rewrite Hk. rewrite Forall_forall in IHm. assert (Hj := IHm (k', v) Hin Hv). simpl in Hj. rewrite Hj. reflexivity.
Qed.

Theorem stringify_equals_source d : dom_C12 d = true -> decode (stringify_data d) = Some (json_of d).
Proof.
  intros Hdom. unfold stringify_data, stringify. rewrite (marshal_convert d Hdom).
  apply decode_encode. apply json_of_wf. exact Hdom.
Qed.

Theorem stringify_text d : dom_C12 d = true -> stringify_data d = encode_go (json_of d).
Proof. intros Hdom. unfold stringify_data, stringify. rewrite (marshal_convert d Hdom). reflexivity. Qed.

Theorem string_transparent s :
  marshal (convert (GStr s)) = JStr s /\
  (utf8_valid s = true -> decode (stringify_data (GStr s)) = Some (JStr s)).
Proof. split; [reflexivity|]. intros H. apply (stringify_equals_source (GStr s)). exact H. Qed.

Theorem stringify_valid o : valid_json (stringify o) = true.
Proof. apply encode_valid_json. Qed.

(* the text of in-domain data, parsed in a template and stringified again, is the same text *)
Lemma dom_obj_ok d : dom_C12 d = true -> obj_ok (convert d) = true.
Proof.
  induction d as [| b | z | s | l IHl | m IHm |] using gv_ind2; intros Hdom; try reflexivity; try discriminate.
  - exact Hdom.
  - simpl in *. rewrite forallb_forall in *. intros j Hj. apply in_map_iff in Hj. destruct Hj as [x [<- Hx]].
    rewrite Forall_forall in IHl. apply IHl; auto.
  - simpl in *. apply andb_true_iff in Hdom. destruct Hdom as [_ Hdom].
    rewrite forallb_forall in *. intros [k o] Hin.
    apply in_map_iff in Hin. destruct Hin as [[k' v] [E2 Hin]]. injection E2 as <- <-.
    specialize (Hdom (k', v) Hin). simpl in Hdom.
    apply andb_true_iff in Hdom. destruct Hdom as [Hdom Hv]. apply andb_true_iff in Hdom. destruct Hdom as [Hk Hu].
    rewrite Forall_forall in IHm. assert (Hj := IHm (k', v) Hin Hv). simpl in Hj. rewrite Hu, Hj.
    destruct k' as [|c r]; [reflexivity|]. simpl in *. apply andb_true_iff in Hk. destruct Hk as [Hk _]. rewrite Hk. reflexivity.
Qed.

Theorem data_reparse_fixpoint d : dom_C12 d = true ->
  exists y, parse (stringify_data d) = Some y /\ stringify y = stringify_data d.
Proof. intros H. apply reparse_fixpoint. apply dom_obj_ok. exact H. Qed.

(* two canonical trees with the same text are the same tree *)
Theorem encode_injective a b : wf_jv a = true -> wf_jv b = true -> encode_go a = encode_go b -> a = b.
Proof.
  intros Ha Hb E. assert (H := decode_encode a Ha). rewrite E, (decode_encode b Hb) in H. congruence.
Qed.

(* ------------------------------------------------------------------ the judge's equality test is sound *)

Lemma bytes_eqb_eq a : forall b, bytes_eqb a b = true -> a = b.
Proof.
  induction a as [|x a IH]; intros [|y b] H; simpl in H; try discriminate; [reflexivity|].
  apply andb_true_iff in H. destruct H as [H1 H2]. apply Ascii.eqb_eq in H1. subst y. f_equal. apply IH. exact H2.
Qed.

Lemma jv_eqb_eq a : forall b, jv_eqb a b = true -> a = b.
Proof.
  induction a as [| x | z | s | l IHl | m IHm] using jv_ind2; intros [| y | z' | s' | l' | m'] H; simpl in H;
    try discriminate; try reflexivity.
  - apply Bool.eqb_prop in H. congruence.
  - apply Z.eqb_eq in H. congruence.
  - apply bytes_eqb_eq in H. congruence.
  - f_equal. revert l' H. induction IHl as [|x r Hx Hr IH]; intros [|y r'] H; try discriminate; [reflexivity|].
    apply andb_true_iff in H. destruct H as [H1 H2]. f_equal; [apply Hx; exact H1|apply IH; exact H2].
  - f_equal. revert m' H. induction IHm as [|[k x] r Hx Hr IH]; intros [|[k' y] r'] H; try discriminate; [reflexivity|].
    apply andb_true_iff in H. destruct H as [H1 H2]. apply andb_true_iff in H1. destruct H1 as [Hk Hv].
    apply bytes_eqb_eq in Hk. simpl in Hx. rewrite Hk, (Hx y Hv). f_equal. apply IH. exact H2.
Qed.

(* ------------------------------------------------------------------ non-vacuity *)

Definition ex_data : gv :=
  GMap [ (B "title", GStr (B "He said ""hi"" \ <b>&</b>"));
         (B "items", GArr [GInt 0; GInt (-1); GInt 9007199254740992; GInt (-9007199254740992); GNil; GBool true;
                           GArr []; GMap []]);
         (B "ctl", GStr [chr 0; chr 8; chr 9; chr 10; chr 12; chr 13; chr 31; chr 127]);
         (B "sep", GStr [chr 226; chr 128; chr 168; "x"%char; chr 226; chr 128; chr 169]);
         (B "astral", GStr [chr 240; chr 159; chr 152; chr 128]);
         (B "", GStr (B "empty key"));
         ([ "k"%char; chr 195; chr 169; """"%char ], GMap [(B "aB", GInt 1); (B "ab", GInt 2)]) ].

Example ex_in_domain : dom_C12 ex_data = true.
Proof. vm_compute. reflexivity. Qed.

Example ex_text :
  stringify_data ex_data =
  B "{"""":""empty key"",""astral"":""" ++ [chr 240; chr 159; chr 152; chr 128] ++
  B """,""ctl"":""\u0000\b\t\n\f\r\u001f" ++ [chr 127] ++
  B """,""items"":[0,-1,9007199254740992,-9007199254740992,null,true,[],{}],""k" ++ [chr 195; chr 169] ++
  B "\"""":{""aB"":1,""ab"":2},""sep"":""\u2028x\u2029"",""title"":""He said \""hi\"" \\ \u003cb\u003e\u0026\u003c/b\u003e""}".
Proof. vm_compute. reflexivity. Qed.

Example ex_round_trip : decode (stringify_data ex_data) = Some (json_of ex_data).
Proof. vm_compute. reflexivity. Qed.

Example ex_valid : valid_json (stringify_data ex_data) = true.
Proof. vm_compute. reflexivity. Qed.

(* the recogniser is not trivially true, and the reader is not trivially Some *)
Example ex_recogniser_rejects :
  map valid_json [B "{""a"":1,}"; B "[1 2]"; B """" ++ [chr 10] ++ B """"; B "01"; B "{a:1}"; B "nul"; B "[1]]"; B """\x"""; B ""]
  = [false; false; false; false; false; false; false; false; false].
Proof. vm_compute. reflexivity. Qed.

Example ex_recogniser_accepts :
  map valid_json [B "-1.5e+10"; B "[]"; B "{""a"":[true,false,null,""\ud83d\ude00\/""]}"; B "0"]
  = [true; true; true; true].
Proof. vm_compute. reflexivity. Qed.

Example ex_reader_rejects :
  map decode [B "{""a"":1,}"; B "[1,]"; B "-0"; B "1.5"; B "01"; B """abc"; B "[1]x"; B """\ud83d"""]
  = [None; None; None; None; None; None; None; None].
Proof. vm_compute. reflexivity. Qed.

(* white space the grammar allows is read (a pretty-printed text is still the same value) *)
Example ex_whitespace :
  let t := B " { ""a"" : [ 1 ,2 ] ," ++ [chr 10; chr 9] ++ B """b"":null } " ++ [chr 13; chr 10] in
  decode t = Some (JObj [(B "a", JArr [JInt 1; JInt 2]); (B "b", JNull)]) /\ valid_json t = true.
Proof. vm_compute. split; reflexivity. Qed.

(* the empty array, the empty object and null are three different texts; nil slices and nil maps (GArr [], GMap [])
   are the empty array and the empty object *)
Example ex_empty_vs_null :
  stringify_data (GArr []) = B "[]" /\ stringify_data (GMap []) = B "{}" /\ stringify_data GNil = B "null" /\
  stringify_data (GMap [(B "a", GArr []); (B "b", GNil)]) = B "{""a"":[],""b"":null}".
Proof. vm_compute. repeat split; reflexivity. Qed.

(* JSON.parse of a text that is not an object: a Number, a String, a Bool, Nil, an Array - each stringifies back *)
Example ex_parse_non_object :
  map parse [B "1"; B """a<b"""; B "true"; B "null"; B "[1,[]]"; B "-9007199254740992"]
  = [Some (ONum 1); Some (OStr (B "a<b")); Some (OBool true); Some ONil; Some (OArr [ONum 1; OArr []]);
     Some (ONum (-9007199254740992))] /\
  map (fun t => option_map stringify (parse t)) [B "1"; B """a<b"""; B "true"; B "null"; B "[1,[]]"]
  = [Some (B "1"); Some (B """a\u003cb"""); Some (B "true"); Some (B "null"); Some (B "[1,[]]")].
Proof. vm_compute. split; reflexivity. Qed.

(* template objects with upper-case keys are inside the re-parse theorem *)
Definition ex_obj : obj := OMap [(B "Name", OStr (B "x")); (B "ID", ONum 7); (B "tags", OArr [OStr (B "<a>")])].

Example ex_obj_ok : obj_ok ex_obj = true.
Proof. vm_compute. reflexivity. Qed.

Example ex_obj_text : stringify ex_obj = B "{""iD"":7,""name"":""x"",""tags"":[""\u003ca\u003e""]}".
Proof. vm_compute. reflexivity. Qed.

(* ------------------------------------------------------------------ which hypotheses are forced
   (each witness is also a corpus case: the real code behaves as the model says) *)

(* keys with an upper-case initial are folded by Map.MarshalJSON: outside the property's domain *)
Lemma upper_case_key_refuted :
  exists d, modelled d = true /\ dom_C12 d = false /\
            stringify_data d = B "{""foo"":1}" /\ decode (stringify_data d) <> Some (json_of d).
Proof.
  exists (GMap [(B "Foo", GInt 1)]). repeat split; try (vm_compute; reflexivity).
  intros H. vm_compute in H. discriminate H.
Qed.

(* two keys that collide after lowerFirst: one entry is lost (the bytewise larger key wins) *)
Lemma colliding_keys_refuted :
  exists d, modelled d = true /\ dom_C12 d = false /\
            stringify_data d = B "{""foo"":2}" /\ decode (stringify_data d) <> Some (json_of d).
Proof.
  exists (GMap [(B "foo", GInt 2); (B "Foo", GInt 1)]). repeat split; try (vm_compute; reflexivity).
  intros H. vm_compute in H. discriminate H.
Qed.

(* integers beyond 2^53 are rounded by float64 *)
Lemma beyond_2_53_refuted :
  exists d, modelled d = true /\ dom_C12 d = false /\
            decode (stringify_data d) = Some (JInt 9007199254740992) /\ json_of d = JInt 9007199254740993.
Proof. exists (GInt 9007199254740993). repeat split; vm_compute; reflexivity. Qed.

(* bytes that are not UTF-8 come back as U+FFFD *)
Lemma not_utf8_refuted :
  exists d, modelled d = true /\ dom_C12 d = false /\
            decode (stringify_data d) = Some (JStr [chr 239; chr 191; chr 189]) /\ json_of d = JStr [chr 255].
Proof. exists (GStr [chr 255]). repeat split; vm_compute; reflexivity. Qed.

(* ... and then even the re-parse fixpoint fails: the escape for U+FFFD becomes the raw character *)
Lemma reparse_not_utf8_refuted :
  exists x y, obj_ok x = false /\ parse (stringify x) = Some y /\ stringify y <> stringify x.
Proof.
  exists (OStr [chr 255]), (OStr [chr 239; chr 191; chr 189]). repeat split; try (vm_compute; reflexivity).
  intros H. vm_compute in H. discriminate H.
Qed.

(* the reader returns members in text order: the round trip needs canonical (sorted) trees *)
Lemma unsorted_tree_refuted :
  exists j, wf_jv j = false /\ decode (encode_go j) <> Some j /\ valid_json (encode_go j) = true.
Proof.
  exists (JObj [(B "b", JNull); (B "a", JNull)]). repeat split; try (vm_compute; reflexivity).
  intros H. vm_compute in H. discriminate H.
Qed.
