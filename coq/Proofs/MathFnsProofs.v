(* C18 proofs: the repaired model agrees with ECMAScript for ALL rationals
   (the [_all] lemmas); the domain hypothesis is needed only for the
   float64 -> int conversion, for Min's initial value MaxFloat64 and for
   strconv's range check. *)
From Coq Require Import QArith Qround Qabs.
From PV Require Import Base.Bytes Models.MathFns.
Local Open Scope Q_scope.

(* ------------------------------------------------------------------ *)
(* boolean comparisons                                                 *)

Lemma qlt_iff x y : qlt x y = true <-> x < y.
Proof. unfold qlt, Qlt. apply Z.ltb_lt. Qed.

Lemma qle_iff x y : qle x y = true <-> x <= y.
Proof. unfold qle, Qle. apply Z.leb_le. Qed.

Lemma qlt_false x y : qlt x y = false <-> y <= x.
Proof. unfold qlt, Qle. rewrite Z.ltb_ge. reflexivity. Qed.

Lemma qle_false x y : qle x y = false <-> y < x.
Proof. unfold qle, Qlt. rewrite Z.leb_gt. reflexivity. Qed.

(* ------------------------------------------------------------------ *)
(* S is what it says: characterisations                                *)

Lemma es_floor_spec x : inject_Z (es_floor x) <= x /\ x < inject_Z (es_floor x + 1).
Proof. unfold es_floor. split; [apply Qfloor_le|apply Qlt_floor]. Qed.

Lemma es_ceil_spec x : inject_Z (es_ceil x - 1) < x /\ x <= inject_Z (es_ceil x).
Proof.
  unfold es_ceil, es_floor. destruct x as [n d].
  unfold Qeq_bool, Qlt, Qle, inject_Z, Qfloor; simpl.
  destruct (Zeq_bool (n / Z.pos d * Z.pos d) (n * 1)) eqn:E.
  - apply Zeq_bool_eq in E.
    pose proof (Z.div_mod n (Z.pos d)) as Hd.
    pose proof (Z.mod_pos_bound n (Z.pos d)) as Hb. nia.
  - apply Zeq_bool_neq in E.
    pose proof (Z.div_mod n (Z.pos d)) as Hd.
    pose proof (Z.mod_pos_bound n (Z.pos d)) as Hb. nia.
Qed.

(* ------------------------------------------------------------------ *)
(* ceil, trunc, round for all rationals                                *)

Lemma m_ceilf_all x : m_ceilf x = es_ceil x.
Proof.
  unfold m_ceilf, es_ceil, es_floor. destruct x as [n d].
  unfold Qeq_bool, inject_Z, Qfloor; simpl.
  destruct (Zeq_bool (n / Z.pos d * Z.pos d) (n * 1)) eqn:E.
  - apply Zeq_bool_eq in E. Z.div_mod_to_equations. nia.
  - apply Zeq_bool_neq in E. Z.div_mod_to_equations. nia.
Qed.

Lemma quot_floor_nonneg n d : (0 <= n -> 0 < d -> n ÷ d = n / d)%Z.
Proof. intros Hn Hd. apply Z.quot_div_nonneg; assumption. Qed.

Lemma quot_floor_neg n d : (n <= 0 -> 0 < d -> n ÷ d = - ((- n) / d))%Z.
Proof.
  intros Hn Hd.
  replace n with (- - n)%Z at 1 by lia.
  rewrite Z.quot_opp_l by lia.
  rewrite Z.quot_div_nonneg by lia. reflexivity.
Qed.

Lemma m_truncf_all x : m_truncf x = es_trunc x.
Proof.
  unfold m_truncf, es_trunc, es_floor. destruct x as [n d].
  destruct (qle 0 (n # d)) eqn:E.
  - apply qle_iff in E. unfold Qle in E; simpl in E.
    unfold Qfloor; simpl. apply quot_floor_nonneg; lia.
  - apply qle_false in E. unfold Qlt in E; simpl in E.
    unfold Qfloor, Qopp; simpl. apply quot_floor_neg; lia.
Qed.

Lemma m_floor_all x : m_floor x = es_floor x.
Proof. destruct x as [n d]. reflexivity. Qed.

Lemma m_round_all x : m_round x = es_round x.
Proof.
  unfold m_round, es_round.
  destruct (qle (1 # 2) x) eqn:E1.
  - apply qle_iff in E1. rewrite m_truncf_all. unfold es_trunc.
    assert (H : qle 0 (x + (1 # 2)) = true).
    { apply qle_iff. apply Qle_trans with (1 # 2); [discriminate|].
      rewrite <- (Qplus_0_l (1 # 2)) at 1. apply Qplus_le_compat; [|apply Qle_refl].
      apply Qle_trans with (1 # 2); [discriminate|exact E1]. }
    rewrite H. reflexivity.
  - destruct (qle x (- (1 # 2))) eqn:E2.
    + apply m_floor_all.
    + apply qle_false in E1. apply qle_false in E2.
      unfold es_floor. destruct x as [n d].
      unfold Qlt in E1, E2; simpl in E1, E2.
      unfold Qfloor, Qplus; simpl.
      symmetry. apply Z.div_small. lia.
Qed.

(* the unrepaired round is right except on negative halves (x + 1/2 an integer, x <= -1/2) *)
Lemma m_round_unrepaired_partial x :
  (qle x (- (1 # 2)) = false \/ Qeq_bool (inject_Z (es_floor (x + (1 # 2)))) (x + (1 # 2)) = false) ->
  m_round_unrepaired x = es_round x.
Proof.
  intros H. rewrite <- m_round_all. unfold m_round_unrepaired, m_round.
  destruct (qle (1 # 2) x) eqn:E1; [reflexivity|].
  destruct (qle x (- (1 # 2))) eqn:E2; [|reflexivity].
  destruct H as [H|H]; [discriminate|].
  apply qle_iff in E2.
  unfold m_truncf, m_floor, es_floor in *. destruct x as [n d].
  unfold Qle in E2; simpl in E2.
  unfold Qeq_bool, inject_Z, Qfloor, Qplus, Qminus, Qopp in *; simpl in *.
  apply Zeq_bool_neq in H.
  rewrite quot_floor_neg by lia.
  Z.div_mod_to_equations. nia.
Qed.

(* ------------------------------------------------------------------ *)
(* bounds: results fit an int on the domain                            *)

Lemma to_int_small z : (- two52 <= z <= two52)%Z -> to_int z = Val (inject_Z z).
Proof.
  intros H. unfold to_int.
  assert (E : ((- two63 <=? z) && (z <? two63))%Z = true).
  { apply andb_true_iff; split; [apply Z.leb_le|apply Z.ltb_lt]; unfold two52, two63 in *; lia. }
  rewrite E. reflexivity.
Qed.

Lemma dom_num_Z n d : dom_num (n # d) = true <-> (Z.abs n < two52 * Z.pos d)%Z.
Proof.
  unfold dom_num. rewrite qlt_iff. unfold Qlt, Qabs, inject_Z; simpl. lia.
Qed.

Lemma floor_bound n d K : (0 < d -> 0 <= K -> Z.abs n < K * d -> - K <= n / d <= K)%Z.
Proof.
  intros Hd HK Hn.
  assert (Hn' : (- (K * d) < n < K * d)%Z) by lia.
  split.
  - apply Z.div_le_lower_bound; [exact Hd|]. lia.
  - apply Z.lt_le_incl. apply Z.div_lt_upper_bound; [exact Hd|]. lia.
Qed.

Lemma es_floor_bound x : dom_num x = true -> (- two52 <= es_floor x <= two52)%Z.
Proof.
  destruct x as [n d]. rewrite dom_num_Z. intros H.
  unfold es_floor, Qfloor. apply floor_bound; unfold two52 in *; lia.
Qed.

Lemma es_ceil_bound x : dom_num x = true -> (- two52 <= es_ceil x <= two52)%Z.
Proof.
  intros H. rewrite <- m_ceilf_all. destruct x as [n d]. apply dom_num_Z in H.
  unfold m_ceilf; simpl.
  pose proof (floor_bound (- n) (Z.pos d) two52) as B.
  unfold two52 in *. lia.
Qed.

Lemma es_trunc_bound x : dom_num x = true -> (- two52 <= es_trunc x <= two52)%Z.
Proof.
  intros H. unfold es_trunc. destruct (qle 0 x).
  - apply es_floor_bound; exact H.
  - assert (H' : dom_num (- x) = true).
    { destruct x as [n d]. apply dom_num_Z in H.
      change (- (n # d)) with ((- n) # d). apply dom_num_Z. lia. }
    pose proof (es_floor_bound _ H'). lia.
Qed.

Lemma es_round_bound x : dom_num x = true -> (- two52 <= es_round x <= two52)%Z.
Proof.
  destruct x as [n d]. rewrite dom_num_Z. intros H.
  unfold es_round, es_floor, Qfloor, Qplus; simpl.
  unfold two52 in *. Z.div_mod_to_equations. nia.
Qed.

(* ------------------------------------------------------------------ *)
(* the Go-level statements                                             *)

Lemma kind_switch_num k x : kind_switch (ANum k x) = Some x.
Proof. destruct k; reflexivity. Qed.

Theorem ceil_ok k x : dom_num x = true -> go_ceil (ANum k x) = Val (inject_Z (es_ceil x)).
Proof.
  intros H. unfold go_ceil. rewrite kind_switch_num, m_ceilf_all.
  apply to_int_small, es_ceil_bound, H.
Qed.

Theorem trunc_ok k x : dom_num x = true -> go_trunc (ANum k x) = Val (inject_Z (es_trunc x)).
Proof.
  intros H. unfold go_trunc. rewrite kind_switch_num, m_truncf_all.
  apply to_int_small, es_trunc_bound, H.
Qed.

Theorem round_ok k x : dom_num x = true -> go_round (ANum k x) = Val (inject_Z (es_round x)).
Proof.
  intros H. unfold go_round. rewrite kind_switch_num, m_round_all.
  apply to_int_small, es_round_bound, H.
Qed.

Theorem parse_int_number_ok k x :
  dom_pnum x = true -> go_parse_int (ANum k x) = Val (inject_Z (es_parse_int_num x)).
Proof.
  unfold dom_pnum. intros H. apply andb_true_iff in H. destruct H as [H _].
  unfold es_parse_int_num.
  assert (E : to_int (m_truncf x) = Val (inject_Z (es_trunc x))).
  { rewrite m_truncf_all. apply to_int_small, es_trunc_bound, H. }
  destruct k; simpl; exact E.
Qed.

(* ------------------------------------------------------------------ *)
(* min / max                                                           *)

Definition is_least (m : Q) (l : list Q) : Prop := In m l /\ forall y, In y l -> m <= y.
Definition is_greatest (m : Q) (l : list Q) : Prop := In m l /\ forall y, In y l -> y <= m.

Lemma es_min_least l : l <> [] -> is_least (es_min l) l.
Proof.
  induction l as [|x r IH]; [congruence|]. intros _.
  destruct r as [|x' r'].
  - simpl. split; [left; reflexivity|]. intros y [<-|[]]. apply Qle_refl.
  - assert (Hr : x' :: r' <> []) by discriminate.
    destruct (IH Hr) as [Hin Hlb].
    change (es_min (x :: x' :: r')) with (qmin x (es_min (x' :: r'))).
    unfold qmin. destruct (qle x (es_min (x' :: r'))) eqn:E.
    + apply qle_iff in E. split; [left; reflexivity|].
      intros y [<-|Hy]; [apply Qle_refl|].
      apply Qle_trans with (es_min (x' :: r')); [exact E|apply Hlb, Hy].
    + apply qle_false in E. split; [right; exact Hin|].
      intros y [<-|Hy]; [apply Qlt_le_weak, E|apply Hlb, Hy].
Qed.

Lemma es_max_greatest l : l <> [] -> is_greatest (es_max l) l.
Proof.
  induction l as [|x r IH]; [congruence|]. intros _.
  destruct r as [|x' r'].
  - simpl. split; [left; reflexivity|]. intros y [<-|[]]. apply Qle_refl.
  - assert (Hr : x' :: r' <> []) by discriminate.
    destruct (IH Hr) as [Hin Hub].
    change (es_max (x :: x' :: r')) with (qmax x (es_max (x' :: r'))).
    unfold qmax. destruct (qle (es_max (x' :: r')) x) eqn:E.
    + apply qle_iff in E. split; [left; reflexivity|].
      intros y [<-|Hy]; [apply Qle_refl|].
      apply Qle_trans with (es_max (x' :: r')); [apply Hub, Hy|exact E].
    + apply qle_false in E. split; [right; exact Hin|].
      intros y [<-|Hy]; [apply Qlt_le_weak, E|apply Hub, Hy].
Qed.

Lemma least_unique m m' l : is_least m l -> is_least m' l -> m == m'.
Proof. intros [Hi Hl] [Hi' Hl']. apply Qle_antisym; auto. Qed.

Lemma greatest_unique m m' l : is_greatest m l -> is_greatest m' l -> m == m'.
Proof. intros [Hi Hl] [Hi' Hl']. apply Qle_antisym; auto. Qed.

(* the loops, for any list and any start value (induction on the list) *)
Lemma min_loop_spec l : forall res,
  (min_loop res l = res \/ In (min_loop res l) l) /\
  min_loop res l <= res /\ forall y, In y l -> min_loop res l <= y.
Proof.
  induction l as [|v r IH]; intros res; simpl.
  - split; [left; reflexivity|]. split; [apply Qle_refl|intros y []].
  - destruct (qlt v res) eqn:E.
    + apply qlt_iff in E. destruct (IH v) as [Ho [Hle Hlb]].
      split; [destruct Ho as [->|Ho]; auto|].
      split; [apply Qle_trans with v; [exact Hle|apply Qlt_le_weak, E]|].
      intros y [<-|Hy]; [exact Hle|apply Hlb, Hy].
    + apply qlt_false in E. destruct (IH res) as [Ho [Hle Hlb]].
      split; [destruct Ho as [->|Ho]; auto|].
      split; [exact Hle|].
      intros y [<-|Hy]; [apply Qle_trans with res; assumption|apply Hlb, Hy].
Qed.

Lemma max_loop_spec l : forall res,
  (max_loop res l = res \/ In (max_loop res l) l) /\
  res <= max_loop res l /\ forall y, In y l -> y <= max_loop res l.
Proof.
  induction l as [|v r IH]; intros res; simpl.
  - split; [left; reflexivity|]. split; [apply Qle_refl|intros y []].
  - destruct (qlt res v) eqn:E.
    + apply qlt_iff in E. destruct (IH v) as [Ho [Hle Hub]].
      split; [destruct Ho as [->|Ho]; auto|].
      split; [apply Qle_trans with v; [apply Qlt_le_weak, E|exact Hle]|].
      intros y [<-|Hy]; [exact Hle|apply Hub, Hy].
    + apply qlt_false in E. destruct (IH res) as [Ho [Hle Hub]].
      split; [destruct Ho as [->|Ho]; auto|].
      split; [exact Hle|].
      intros y [<-|Hy]; [apply Qle_trans with res; assumption|apply Hub, Hy].
Qed.

Lemma max_loop_i_false l res : max_loop_i false res l = max_loop res l.
Proof. revert res; induction l as [|v r IH]; intros res; simpl; [reflexivity|apply IH]. Qed.

(* repaired Max: correct for every non-empty list of rationals, no domain needed *)
Theorem m_max_all l : l <> [] -> is_greatest (m_max l) l.
Proof.
  destruct l as [|v r]; [congruence|]. intros _.
  unfold m_max; simpl. rewrite max_loop_i_false.
  destruct (max_loop_spec r v) as [Ho [Hle Hub]].
  split; [destruct Ho as [->|Ho]; [left; reflexivity|right; exact Ho]|].
  intros y [<-|Hy]; [exact Hle|apply Hub, Hy].
Qed.

Lemma max_float64_big : inject_Z two52 <= max_float64.
Proof. unfold max_float64, two52, Qle, inject_Z; simpl Qnum; simpl Qden. vm_compute. discriminate. Qed.

Lemma dom_num_lt_max x : dom_num x = true -> x < max_float64.
Proof.
  unfold dom_num. rewrite qlt_iff. intros H.
  apply Qle_lt_trans with (Qabs x); [apply Qle_Qabs|].
  apply Qlt_le_trans with (inject_Z two52); [exact H|apply max_float64_big].
Qed.

Lemma dom_args_inv l : dom_args l = true -> l <> [] /\ forall y, In y l -> dom_num y = true.
Proof.
  destruct l as [|x r]; [discriminate|]. unfold dom_args. intros H.
  split; [discriminate|]. apply forallb_forall. exact H.
Qed.

(* Min: the start value MaxFloat64 must lose against some argument — that is the domain *)
Theorem m_min_dom l : dom_args l = true -> is_least (m_min l) l.
Proof.
  intros H. destruct (dom_args_inv _ H) as [Hne Hd].
  unfold m_min. destruct (min_loop_spec l max_float64) as [Ho [Hle Hlb]].
  split; [|exact Hlb].
  destruct Ho as [Ho|Ho]; [|exact Ho]. exfalso.
  destruct l as [|y r]; [congruence|].
  assert (Hy : In y (y :: r)) by (left; reflexivity).
  pose proof (dom_num_lt_max _ (Hd _ Hy)) as Hlt.
  pose proof (Hlb _ Hy) as Hm. rewrite Ho in Hm.
  apply (Qlt_irrefl y). apply Qlt_le_trans with max_float64; assumption.
Qed.

(* the unrepaired Max is right as soon as one argument reaches the start value 5e-324 *)
Theorem m_max_unrepaired_partial l :
  (exists y, In y l /\ smallest_nonzero_float64 <= y) ->
  l <> [] /\ m_max_unrepaired l == es_max l.
Proof.
  intros [y [Hy Hs]].
  assert (Hne : l <> []) by (intros ->; destruct Hy).
  split; [exact Hne|].
  destruct (es_max_greatest l Hne) as [Hin Hub].
  unfold m_max_unrepaired.
  destruct (max_loop_spec l smallest_nonzero_float64) as [Ho [Hle Hub']].
  apply Qle_antisym.
  - destruct Ho as [Ho|Ho]; [|apply Hub, Ho].
    rewrite Ho. apply Qle_trans with y; [exact Hs|apply Hub, Hy].
  - apply Hub', Hin.
Qed.

(* values of a list of numbers *)
Definition mk_arg (kv : kind * Q) : arg := ANum (fst kv) (snd kv).

Lemma values_nums kvs : values (map mk_arg kvs) = Some (map snd kvs).
Proof.
  induction kvs as [|[k v] r IH]; simpl; [reflexivity|].
  rewrite IH. destruct k; reflexivity.
Qed.

Theorem min_ok kvs :
  dom_args (map snd kvs) = true ->
  exists m, go_min (map mk_arg kvs) = Val m /\
            In m (map snd kvs) /\ (forall y, In y (map snd kvs) -> m <= y) /\
            m == es_min (map snd kvs).
Proof.
  intros H. exists (m_min (map snd kvs)).
  unfold go_min. rewrite values_nums.
  pose proof (m_min_dom _ H) as L. destruct (dom_args_inv _ H) as [Hne _].
  split; [reflexivity|]. split; [apply L|]. split; [apply L|].
  apply least_unique with (map snd kvs); [exact L|apply es_min_least, Hne].
Qed.

Theorem max_ok kvs :
  dom_args (map snd kvs) = true ->
  exists m, go_max (map mk_arg kvs) = Val m /\
            In m (map snd kvs) /\ (forall y, In y (map snd kvs) -> y <= m) /\
            m == es_max (map snd kvs).
Proof.
  intros H. exists (m_max (map snd kvs)).
  unfold go_max. rewrite values_nums.
  destruct (dom_args_inv _ H) as [Hne _].
  pose proof (m_max_all _ Hne) as G.
  split; [reflexivity|]. split; [apply G|]. split; [apply G|].
  apply greatest_unique with (map snd kvs); [exact G|apply es_max_greatest, Hne].
Qed.

(* ------------------------------------------------------------------ *)
(* parseInt on digit strings                                           *)

Lemma digit_val_is_digit c :
  is_digit c = true -> digit_val c = Some (Z.of_N (N_of_ascii c) - 48)%Z /\
                       (0 <= Z.of_N (N_of_ascii c) - 48 <= 9)%Z.
Proof.
  unfold is_digit, digit_val. intros H. apply andb_true_iff in H. destruct H as [H1 H2].
  apply N.leb_le in H1. apply N.leb_le in H2.
  assert (E : ((48 <=? Z.of_N (N_of_ascii c)) && (Z.of_N (N_of_ascii c) <=? 57))%Z = true).
  { apply andb_true_iff; split; apply Z.leb_le; lia. }
  rewrite E. split; [reflexivity|lia].
Qed.

Lemma positional_nonneg s : forallb is_digit s = true -> (0 <= positional (digits_of s))%Z.
Proof.
  induction s as [|c r IH]; simpl; intros H; [lia|].
  apply andb_true_iff in H. destruct H as [Hc Hr].
  destruct (digit_val_is_digit c Hc) as [_ Hb].
  specialize (IH Hr).
  assert (0 <= 10 ^ Z.of_nat (length (digits_of r)))%Z by (apply Z.pow_nonneg; lia).
  nia.
Qed.

Lemma parse_uint_loop_digits s : forall acc,
  forallb is_digit s = true ->
  parse_uint_loop acc s = Some (acc * 10 ^ Z.of_nat (length s) + positional (digits_of s))%Z.
Proof.
  induction s as [|c r IH]; intros acc H.
  - simpl. f_equal. lia.
  - simpl in H. apply andb_true_iff in H. destruct H as [Hc Hr].
    destruct (digit_val_is_digit c Hc) as [Hv _].
    cbn [parse_uint_loop]. rewrite Hv, (IH _ Hr). f_equal.
    cbn [digits_of map positional length]. rewrite map_length. fold (digits_of r).
    rewrite Nat2Z.inj_succ, Z.pow_succ_r by lia. ring.
Qed.

Lemma parse_uint_digits b :
  b <> [] -> forallb is_digit b = true -> (positional (digits_of b) < two52)%Z ->
  parse_uint b = Some (positional (digits_of b)).
Proof.
  intros Hne Hd Hlt. unfold parse_uint.
  destruct b as [|c r]; [congruence|].
  rewrite (parse_uint_loop_digits _ 0%Z Hd).
  replace (0 * 10 ^ Z.of_nat (length (c :: r)) + positional (digits_of (c :: r)))%Z
    with (positional (digits_of (c :: r))) by ring.
  assert (E : (positional (digits_of (c :: r)) <? two64)%Z = true)
    by (apply Z.ltb_lt; unfold two52, two64 in *; lia).
  rewrite E. reflexivity.
Qed.

Lemma not_digit_sign c : (Ascii.eqb c "-" = true \/ Ascii.eqb c "+" = true) -> is_digit c = false.
Proof.
  intros [H|H]; apply Ascii.eqb_eq in H; subst; reflexivity.
Qed.

Ltac finish_val :=
  match goal with
  | |- Val (inject_Z ?a) = Val (inject_Z ?b) => replace b with a by lia; reflexivity
  end.

Theorem parse_int_digits_ok s :
  dom_digits s = true -> go_parse_int (AStr s) = Val (inject_Z (es_parse_int_digits s)).
Proof.
  unfold dom_digits, is_digit_string, es_parse_int_digits. intros H.
  apply andb_true_iff in H. destruct H as [Hds Hlt]. apply Z.ltb_lt in Hlt.
  unfold go_parse_int, parse_int_10.
  destruct s as [|c r]; [discriminate|].
  unfold split_sign in *.
  destruct (Ascii.eqb c "-") eqn:Em.
  - (* "-" digits *)
    assert (Ep : Ascii.eqb c "+" = false).
    { apply Ascii.eqb_eq in Em; subst; reflexivity. }
    rewrite Ep. simpl fst in *; simpl snd in *.
    destruct r as [|c' r']; [discriminate|].
    pose proof (positional_nonneg _ Hds) as Hnn.
    rewrite parse_uint_digits; [|discriminate|exact Hds|lia].
    assert (E1 : (two63 <? positional (digits_of (c' :: r')))%Z = false)
      by (apply Z.ltb_ge; unfold two52, two63 in *; lia).
    simpl negb. rewrite E1. cbn [andb]. finish_val.
  - destruct (Ascii.eqb c "+") eqn:Ep.
    + (* "+" digits *)
      simpl fst in *; simpl snd in *.
      destruct r as [|c' r']; [discriminate|].
      pose proof (positional_nonneg _ Hds) as Hnn.
      rewrite parse_uint_digits; [|discriminate|exact Hds|lia].
      assert (E1 : (two63 <=? positional (digits_of (c' :: r')))%Z = false)
        by (apply Z.leb_gt; unfold two52, two63 in *; lia).
      simpl negb. rewrite E1. cbn [andb]. finish_val.
    + (* digits *)
      simpl fst in *; simpl snd in *.
      pose proof (positional_nonneg _ Hds) as Hnn.
      rewrite parse_uint_digits; [|discriminate|exact Hds|lia].
      assert (E1 : (two63 <=? positional (digits_of (c :: r)))%Z = false)
        by (apply Z.leb_gt; unfold two52, two63 in *; lia).
      simpl negb. rewrite E1. cbn [andb]. finish_val.
Qed.

(* ------------------------------------------------------------------ *)
(* the source as it is: refuted                                        *)

Theorem max_unrepaired_refuted :
  exists l, dom_args l = true /\ ~ (m_max_unrepaired l == es_max l).
Proof.
  exists [(-1) # 1; (-2) # 1]. split; [vm_compute; reflexivity|].
  vm_compute. discriminate.
Qed.

Theorem round_unrepaired_refuted :
  (dom_num (-5 # 2) = true /\ m_round_unrepaired (-5 # 2) = (-3)%Z /\ es_round (-5 # 2) = (-2)%Z) /\
  (dom_num (-1 # 2) = true /\ m_round_unrepaired (-1 # 2) = (-1)%Z /\ es_round (-1 # 2) = 0%Z) /\
  exists x, dom_num x = true /\ m_round_unrepaired x <> es_round x.
Proof.
  split; [vm_compute; auto|]. split; [vm_compute; auto|].
  exists (-5 # 2). split; [vm_compute; reflexivity|]. vm_compute. discriminate.
Qed.

(* ------------------------------------------------------------------ *)
(* non-vacuity: the domain is inhabited by the interesting inputs, the
   model computes, the repaired model gives ECMAScript's answers         *)

Example nv_dom_num : forallb dom_num [(-5) # 2; (-1) # 2; 0; 1 # 2; 2147483647 # 1; (-4503599627370495) # 1] = true.
Proof. vm_compute. reflexivity. Qed.

Example nv_dom_edge : dom_num (4503599627370496 # 1) = false.
Proof. vm_compute. reflexivity. Qed.

Example nv_dom_args : dom_args [(-1) # 1; (-2) # 1; (-2) # 1; (-5) # 2] = true /\ dom_args [] = false.
Proof. vm_compute. auto. Qed.

Example nv_round :
  map go_round [ANum KFloat64 ((-5) # 2); ANum KFloat64 ((-1) # 2); ANum KFloat64 (5 # 2);
                ANum KFloat64 ((-13) # 5); ANum KInt ((-3) # 1); ANum KFloat64 (49 # 100)] =
  [Val ((-2) # 1); Val 0; Val (3 # 1); Val ((-3) # 1); Val ((-3) # 1); Val 0].
Proof. vm_compute. reflexivity. Qed.

Example nv_ceil_trunc :
  (go_ceil (ANum KFloat64 ((-5) # 2)), go_ceil (ANum KFloat64 (12 # 5)),
   go_trunc (ANum KFloat64 ((-5) # 2)), go_trunc (ANum KFloat64 (21 # 10))) =
  (Val ((-2) # 1), Val (3 # 1), Val ((-2) # 1), Val (2 # 1)).
Proof. vm_compute. reflexivity. Qed.

Example nv_min_max :
  go_max [ANum KInt ((-1) # 1); ANum KFloat64 ((-5) # 2)] = Val ((-1) # 1) /\
  go_min [ANum KInt (1 # 1); ANum KInt64 (2 # 1); ANum KFloat64 (3 # 1)] = Val (1 # 1) /\
  go_max [] = Val smallest_nonzero_float64 /\ go_min [] = Val max_float64 /\
  go_max [ANum KInt (1 # 1); AStr (B "x")] = Panic.
Proof. vm_compute. auto. Qed.

Example nv_other_kind : go_ceil (ABool true) = Panic /\ go_round (AStr (B "2")) = Val 0.
Proof. vm_compute. auto. Qed.

Example nv_to_int_declines : go_ceil (ANum KFloat64 (inject_Z two63)) = Declined.
Proof. vm_compute. reflexivity. Qed.

Example nv_dom_digits :
  map dom_digits [B "-012"; B "+7"; B "4503599627370495"; B ""; B "-"; B "12a"; B " 1"; B "4503599627370496"] =
  [true; true; true; false; false; false; false; false].
Proof. vm_compute. reflexivity. Qed.

Example nv_parse_int :
  map go_parse_int [AStr (B "-012"); AStr (B "+7"); AStr (B "12a"); AStr (B "");
                    AStr (B "9223372036854775807"); AStr (B "9223372036854775808");
                    AStr (B "-9223372036854775808"); AStr (B "1_0");
                    ANum KFloat64 ((-27) # 10); ANum KInt (5 # 1); ABool true] =
  [Val ((-12) # 1); Val (7 # 1); Val 0; Val 0;
   Val (9223372036854775807 # 1); Val 0;
   Val ((-9223372036854775808) # 1); Val 0;
   Val ((-2) # 1); Val (5 # 1); Val 0].
Proof. vm_compute. reflexivity. Qed.

Example nv_dom_pnum : dom_pnum ((-27) # 10) = true /\ dom_pnum 0 = true /\ dom_pnum (1 # 2000000) = false.
Proof. vm_compute. auto. Qed.
