(* The only tie of the fuel statements to the shape of the lowering (Pug/Lower.v): every pipeline of a tree lowered
   from scalar expressions ([goodS]) is a core pipeline within the expression fuel ([core_nodes] of
   Proofs/ExecFuelTotal.v), hence heap-pure ([pure_nodes]).  One case per arm of [lower]; the expression side is
   [carg_core]: literals, variables, the core operators' helpers and __if, needing no more fuel than [need e]. *)
From PV Require Import Base.Bytes Base.Escape Js.Ast Tmpl.Value Tmpl.IR Tmpl.Runtime Tmpl.Exec Pug.Ast Pug.Compile
  Pug.Lower Spec.Sem Proofs.C01EvalProofs Proofs.C02InstProofs Run.Judge_Core
  Proofs.ExecFuelProofs Proofs.ExecFuelPure Proofs.ExecFuelExpr Proofs.ExecFuelInst Proofs.ExecFuelTotal.
Require Import Lia.

Lemma core_nodes_app a b : core_nodes (a ++ b) = core_nodes a && core_nodes b.
Proof.
  unfold core_nodes. induction a as [|x r IH]; cbn [app nodes_ok]; [reflexivity|]. rewrite IH, andb_assoc. reflexivity.
Qed.
Lemma core_nodes_cons x r : core_nodes (x :: r) = node_ok pipe_fuel_ok x && core_nodes r.
Proof. reflexivity. Qed.
Lemma core_node_if p th el : node_ok pipe_fuel_ok (NIf p th el) = pipe_fuel_ok p && core_nodes th && core_nodes el.
Proof. reflexivity. Qed.
Lemma core_node_range p body el :
  node_ok pipe_fuel_ok (NRange p body el) = pipe_fuel_ok p && core_nodes body && core_nodes el.
Proof. reflexivity. Qed.

Lemma helper_core op : core_binop op = true -> core_fn (helper op) = true.
Proof. destruct op; try discriminate; intros _; vm_compute; reflexivity. Qed.

Lemma cneed_single x : cneed [x] = aneed x.
Proof. destruct x; cbn [cneed aneed amax pred]; lia. Qed.
Lemma aneed_cmd1 x : aneed (cmd1 x) = 2 + aneed x.
Proof.
  unfold cmd1. rewrite aneed_pipe, csneed_cons, cneed_single. cbn [csneed]. pose proof (aneed_pos x). lia.
Qed.
Lemma aneed_call f args : aneed (call f args) = 5 + amax args.
Proof. unfold call. rewrite aneed_pipe, csneed_cons. cbn [cneed csneed]. lia. Qed.
Lemma core_call f args : core_fn f = true -> core_cmd args = true -> core_arg (call f args) = true.
Proof.
  intros Hf Ha. unfold call. rewrite core_arg_pipe. unfold core_cmds, core_cmd. cbn [forallb core_arg].
  rewrite Hf. unfold core_cmd in Ha. rewrite Ha. reflexivity.
Qed.
Lemma core_cmd1 x : core_arg x = true -> core_arg (cmd1 x) = true.
Proof. intros H. unfold cmd1. rewrite core_arg_pipe. unfold core_cmds, core_cmd. cbn [forallb]. rewrite H. reflexivity. Qed.

(* the expression compiler on the scalar fragment: a core argument that needs no more fuel than [need e] *)
Lemma carg_core funcs : forall e, scalar_core funcs e = true ->
  forall t a, carg funcs true e = Some (t, a) -> exists a', a = Some a' /\ core_arg a' = true /\ aneed a' <= need e.
Proof.
  induction e as [x|z|txt|s|parts|b| |es|kvs|e0 IH0 name|e0 IH0 i IHi|fn IHfn args|fn IHfn args|op p x IHx
                 |op l IHl r IHr|c IHc a IHa b IHb|op l IHl r IHr|es|x init];
    intros Hsc t0 a0 Hc; try discriminate Hsc.
  - (* identifier *)
    cbn [scalar_core] in Hsc. apply andb_prop in Hsc. destruct Hsc as [Hsc Hrange].
    apply andb_prop in Hsc. destruct Hsc as [Hid Hk]. apply negb_true_iff in Hk.
    rewrite carg_id, Hid in Hc. injection Hc as _ <-. unfold ident_arg. rewrite Hk. cbn [andb negb].
    eexists; split; [reflexivity|]. split; [reflexivity|cbn [aneed need]; lia].
  - injection Hc as _ <-. eexists; split; [reflexivity|]. split; [reflexivity|cbn [aneed need]; lia].
  - cbn [carg] in Hc. destruct (goquote s); [|discriminate Hc]. injection Hc as _ <-.
    eexists; split; [reflexivity|]. split; [reflexivity|cbn [aneed need]; lia].
  - injection Hc as _ <-. eexists; split; [reflexivity|]. split; [reflexivity|cbn [aneed need]; lia].
  - (* unary *)
    destruct op; try discriminate Hsc; cbn [scalar_core] in Hsc.
    + rewrite carg_not in Hc. destruct (carg funcs true x) as [[tx ax]|] eqn:Ex; [|discriminate Hc].
      destruct (IHx Hsc tx ax eq_refl) as (ax' & -> & Hcx & Hnx). injection Hc as _ <-. cbn [opt_cons].
      eexists; split; [reflexivity|]. split.
      * apply core_call; [vm_compute; reflexivity|]. unfold core_cmd. cbn [forallb]. rewrite Hcx. reflexivity.
      * rewrite aneed_call. cbn [amax need]. lia.
    + rewrite carg_neg in Hc. destruct (carg funcs true x) as [[tx ax]|] eqn:Ex; [|discriminate Hc].
      destruct (IHx Hsc tx ax eq_refl) as (ax' & -> & Hcx & Hnx). injection Hc as _ <-. cbn [opt_cons].
      eexists; split; [reflexivity|]. split.
      * apply core_call; [vm_compute; reflexivity|]. unfold core_cmd. cbn [forallb]. rewrite Hcx. reflexivity.
      * rewrite aneed_call. cbn [amax need]. lia.
  - (* binary *)
    cbn [scalar_core] in Hsc. apply andb_prop in Hsc. destruct Hsc as [Hsc Hr]. apply andb_prop in Hsc.
    destruct Hsc as [Hop Hl].
    rewrite carg_bin in Hc. cbv zeta in Hc. rewrite (helper_name op Hop), (helper_runtime op Hop) in Hc. cbn [negb] in Hc.
    destruct (carg funcs true l) as [[tl al]|] eqn:El; [|discriminate Hc].
    destruct (carg funcs true r) as [[tr ar]|] eqn:Er; [|discriminate Hc].
    destruct (IHl Hl tl al eq_refl) as (al' & -> & Hcl & Hnl). destruct (IHr Hr tr ar eq_refl) as (ar' & -> & Hcr & Hnr).
    injection Hc as _ <-. cbn [opt_cons].
    eexists; split; [reflexivity|]. split.
    + apply core_call; [exact (helper_core op Hop)|]. unfold core_cmd. cbn [forallb]. rewrite Hcl, Hcr. reflexivity.
    + rewrite aneed_call. cbn [amax need]. lia.
  - (* ?: *)
    cbn [scalar_core] in Hsc. apply andb_prop in Hsc. destruct Hsc as [Hsc Hb]. apply andb_prop in Hsc.
    destruct Hsc as [Hcc Ha].
    rewrite carg_cond in Hc.
    destruct (carg funcs true c) as [[tc ac]|] eqn:Ec; [|discriminate Hc].
    destruct (IHc Hcc tc ac eq_refl) as (ac' & -> & Hc1 & Hn1).
    destruct (carg funcs true a) as [[ta aa]|] eqn:Ea; [|discriminate Hc].
    destruct (IHa Ha ta aa eq_refl) as (aa' & -> & Hc2 & Hn2).
    destruct (carg funcs true b) as [[tb ab]|] eqn:Eb; [|discriminate Hc].
    destruct (IHb Hb tb ab eq_refl) as (ab' & -> & Hc3 & Hn3).
    injection Hc as _ <-. cbn [or_null_a].
    eexists; split; [reflexivity|]. split.
    + apply core_call; [vm_compute; reflexivity|]. unfold core_cmd. cbn [forallb].
      rewrite (core_cmd1 ac' Hc1), (core_cmd1 aa' Hc2), (core_cmd1 ab' Hc3). reflexivity.
    + rewrite aneed_call. cbn [amax need]. rewrite !aneed_cmd1. lia.
Qed.

Lemma expr_fuel_5 : 5 <= expr_fuel.
Proof. unfold expr_fuel. lia. Qed.

Section LowerCore.
  Variables funcs names : list bytes.
  Let gb := goodS funcs names.

  Lemma lexpr_core e a : lexpr funcs gb e = Some a -> core_arg a = true /\ aneed a < expr_fuel.
  Proof.
    unfold lexpr. destruct (gb e) eqn:Hg; [|discriminate].
    destruct (carg funcs true e) as [[t [a'|]]|] eqn:Ec; try discriminate. intros H. injection H as <-.
    unfold gb in Hg. destruct (goodS_parts funcs names e Hg) as (Hsc & _ & Hn & _).
    destruct (carg_core funcs e Hsc t (Some a') Ec) as (a'' & Heq & Hc & Hle). injection Heq as <-.
    split; [exact Hc|lia].
  Qed.
  Lemma lexprd_core dead e a : lexprd funcs gb dead e = Some a -> core_arg a = true /\ aneed a < expr_fuel.
  Proof. unfold lexprd. destruct (alive dead e); [apply lexpr_core|discriminate]. Qed.

  (* the pipeline shapes of the lowering *)
  Lemma ok_single d a : core_arg a = true -> aneed a < expr_fuel -> pipe_fuel_ok (d, [[a]]) = true.
  Proof.
    intros Hc Hn. unfold pipe_fuel_ok, core_pipe, core_cmds, core_cmd. cbn [snd forallb]. rewrite Hc. cbn [andb].
    apply Nat.leb_le. rewrite csneed_cons, cneed_single. cbn [csneed]. pose proof (aneed_pos a). lia.
  Qed.
  Lemma ok_print a : core_arg a = true -> aneed a < expr_fuel -> pipe_fuel_ok ([], [a] :: esc_cmds false) = true.
  Proof.
    intros Hc Hn. unfold pipe_fuel_ok, core_pipe, core_cmds, core_cmd, esc_cmds. cbn [snd forallb]. rewrite Hc.
    change (core_arg (AIdent (B "__pug__html"))) with true. cbn [andb].
    apply Nat.leb_le. rewrite !csneed_cons, cneed_single. cbn [csneed cneed amax]. pose proof expr_fuel_5. lia.
  Qed.
  Lemma ok_eql ea wa : core_arg ea = true -> core_arg wa = true -> 5 + Nat.max (aneed ea) (aneed wa) < expr_fuel ->
    pipe_fuel_ok (eql_pipe ea wa) = true.
  Proof.
    intros H1 H2 Hn. unfold pipe_fuel_ok, core_pipe, core_cmds, core_cmd, eql_pipe. cbn [snd forallb]. rewrite H1, H2.
    change (core_arg (AIdent (B "__op__eql"))) with true. cbn [andb].
    apply Nat.leb_le. rewrite csneed_cons. cbn [csneed cneed amax]. lia.
  Qed.
  Lemma ok_closed p : pipe_fuel_ok p = true -> core_nodes [NAction p] = true.
  Proof. intros H. unfold core_nodes. cbn [nodes_ok node_ok]. rewrite H. reflexivity. Qed.

  Lemma lower_code_core dead stmts esc t : lower_code funcs gb dead stmts esc = Some t -> core_nodes t = true.
  Proof.
    unfold lower_code. intros H.
    repeat match type of H with
           | (match ?x with _ => _ end) = Some _ => destruct x eqn:?; try discriminate H
           end;
      injection H as <-; try reflexivity.
    all: try match goal with Hb : _ && ?b = true |- _ => apply andb_prop in Hb; destruct Hb as [_ Hb]; subst b end.
    all: match goal with
         | He : lexprd _ _ _ _ = Some ?a |- _ =>
           destruct (lexprd_core _ _ _ He) as [Hca Hna]; apply ok_closed;
           first [apply ok_single; assumption | apply ok_print; assumption]
         end.
  Qed.

  Lemma lower_list_core (lw : pnode -> option (list tnode)) :
    (forall n t, lw n = Some t -> core_nodes t = true) ->
    forall l t, lower_list lw l = Some t -> core_nodes t = true.
  Proof.
    intros Hlw. induction l as [|x r IH]; intros t H; cbn [lower_list] in H.
    - injection H as <-. reflexivity.
    - destruct (lw x) as [a|] eqn:Ea; [|discriminate H]. destruct (lower_list lw r) as [b|] eqn:Eb; [|discriminate H].
      injection H as <-. rewrite core_nodes_app, (Hlw x a Ea), (IH b eq_refl). reflexivity.
  Qed.

  Lemma lower_whens_core (lowers : list pnode -> option (list tnode)) dead e ea el :
    (forall b t, lowers b = Some t -> core_nodes t = true) -> lexprd funcs gb dead e = Some ea -> core_nodes el = true ->
    forall l t, lower_whens funcs gb lowers dead e ea el l = Some t -> core_nodes t = true.
  Proof.
    intros Hlw Hea Hel. induction l as [|[[w|] body] r IH]; intros t H; cbn [lower_whens] in H.
    - injection H as <-. exact Hel.
    - destruct (gb (JBin BSEq e w)) eqn:Hg; [|discriminate H].
      destruct (lexprd funcs gb dead w) as [wa|] eqn:Ew; [|discriminate H].
      destruct (lowers body) as [b|] eqn:Eb; [|discriminate H].
      destruct (lower_whens funcs gb lowers dead e ea el r) as [rest|] eqn:Er; [|discriminate H].
      injection H as <-. rewrite core_nodes_cons, core_node_if, (Hlw body b Eb), (IH rest eq_refl).
      assert (Hp : pipe_fuel_ok (eql_pipe ea wa) = true).
      { (* the fuel of e === w bounds the test's *)
        unfold gb in Hg. destruct (goodS_parts funcs names _ Hg) as (Hsc & _ & Hn & _).
        cbn [scalar_core] in Hsc. apply andb_prop in Hsc. destruct Hsc as [Hsc Hsw]. apply andb_prop in Hsc.
        destruct Hsc as [_ Hse]. cbn [need] in Hn.
        assert (Hle : forall x a, scalar_core funcs x = true -> lexprd funcs gb dead x = Some a ->
                                  core_arg a = true /\ aneed a <= need x).
        { intros x a Hsx Hx. unfold lexprd in Hx. destruct (alive dead x); [|discriminate Hx]. unfold lexpr in Hx.
          destruct (gb x); [|discriminate Hx]. destruct (carg funcs true x) as [[tx [ax|]]|] eqn:Ec; try discriminate Hx.
          injection Hx as <-. destruct (carg_core funcs x Hsx tx (Some ax) Ec) as (a'' & Heq & Hc & Hl).
          injection Heq as <-. split; assumption. }
        destruct (Hle e ea Hse Hea) as [Hce Hne]. destruct (Hle w wa Hsw Ew) as [Hcw Hnw].
        apply ok_eql; [exact Hce|exact Hcw|lia]. }
      rewrite Hp. reflexivity.
    - exact (IH t H).
  Qed.

  Lemma lower_core : forall fuel dead n t, lower funcs gb dead fuel n = Some t -> core_nodes t = true.
  Proof.
    induction fuel as [|f IH]; intros dead n t H; [discriminate H|].
    assert (IHl : forall dead l t, lower_list (lower funcs gb dead f) l = Some t -> core_nodes t = true).
    { intros dead' l t'. apply lower_list_core. intros n' t''. apply IH. }
    cbn [lower] in H. destruct n as [name inl attrs ablocks body|s|stmts esc inl|test cons_ alt|e whens|v k obj body
                                     |test body|mname params body|mname args attrs body| |dv|l| ]; try discriminate H.
    all: try (destruct (has_delim dv); [discriminate H|injection H as <-; reflexivity]).
    - (* tag *)
      destruct attrs; [|discriminate H]. destruct ablocks; [|discriminate H].
      destruct (has_delim name); [discriminate H|].
      destruct (lower_list (lower funcs gb dead f) body) as [b|] eqn:Eb; [|discriminate H].
      destruct (is_void name); [injection H as <-; reflexivity|].
      destruct (beqb name (B "script")); [discriminate H|]. injection H as <-.
      rewrite !core_nodes_cons, core_nodes_app, (IHl dead body b Eb). reflexivity.
    - (* text *) destruct (plain_text s); [|discriminate H]. injection H as <-. reflexivity.
    - (* code *) exact (lower_code_core dead stmts esc t H).
    - (* if *)
      destruct (lexprd funcs gb dead test) as [ta|] eqn:Et; [|discriminate H].
      destruct (lower_list (lower funcs gb dead f) cons_) as [th|] eqn:Ec; [|discriminate H].
      destruct (lexprd_core dead test ta Et) as [Hca Hna]. pose proof (ok_single [] ta Hca Hna) as Hp.
      destruct alt as [a|].
      + destruct (lower funcs gb dead f a) as [el|] eqn:Ea; [|discriminate H]. injection H as <-.
        rewrite core_nodes_cons, core_node_if. unfold pipe1. rewrite Hp, (IHl dead cons_ th Ec), (IH dead a el Ea). reflexivity.
      + injection H as <-. rewrite core_nodes_cons, core_node_if. unfold pipe1. rewrite Hp, (IHl dead cons_ th Ec). reflexivity.
    - (* case *)
      destruct (negb (has_when whens)); [discriminate H|].
      destruct (lexprd funcs gb dead e) as [ea|] eqn:Ee; [|discriminate H].
      destruct (match case_default whens with Some b => lower_list (lower funcs gb dead f) b | None => Some [] end)
        as [el|] eqn:Ed; [|discriminate H].
      apply (lower_whens_core (lower_list (lower funcs gb dead f)) dead e ea el (IHl dead) Ee) with (l := whens).
      + destruct (case_default whens) as [b|]; [exact (IHl dead b el Ed)|injection Ed as <-; reflexivity].
      + exact H.
    - (* each *)
      destruct obj; try discriminate H.
      match type of H with (if ?c then _ else _) = _ => destruct c; [discriminate H|] end.
      destruct (lower_list (lower funcs gb (undead (v :: opt_list k) dead) f) body) as [b|] eqn:Eb; [|discriminate H].
      injection H as <-. rewrite core_nodes_cons, core_node_range, (IHl _ body b Eb).
      rewrite (ok_single (opt_list k ++ [v]) (AVar x []) eq_refl); [reflexivity|]. cbn [aneed]. pose proof expr_fuel_5. lia.
    - (* while *)
      destruct (lexprd funcs gb dead test) as [ta|] eqn:Et; [|discriminate H].
      destruct (lower_list (lower funcs gb dead f) body) as [b|] eqn:Eb; [|discriminate H].
      destruct (lexprd_core dead test ta Et) as [Hca Hna].
      injection H as <-. rewrite core_nodes_cons, core_node_range. unfold pipe1.
      rewrite (ok_single [] ta Hca Hna), (IHl dead body b Eb). reflexivity.
    - (* block *) exact (IHl dead l t H).
    - (* comment *) injection H as <-. reflexivity.
  Qed.

  Theorem lower_nodes_core nodes t : lower_nodes funcs gb nodes = Some t -> core_nodes t = true.
  Proof.
    unfold lower_nodes. intros H.
    repeat match type of H with (if ?c then _ else _) = _ => destruct c; [discriminate H|] end.
    exact (lower_core _ _ _ _ H).
  Qed.
  Theorem lower_nodes_pure nodes t : lower_nodes funcs gb nodes = Some t -> pure_nodes t = true.
  Proof. intros H. exact (core_nodes_pure t (lower_nodes_core nodes t H)). Qed.
End LowerCore.

(* ---- the fuel-sufficiency theorem of the fragment: never out of fuel, whatever the data -------------------------- *)
Theorem fragment_never_out_of_fuel funcs names nodes t d :
  lower_nodes funcs (goodS funcs names) nodes = Some t ->
  Nat.leb (cost_nodes (rounds (dwidth d)) t) exec_fuel = true ->
  run_program {| p_main := t; p_defs := [] |} d <> OFuel.
Proof. intros Hl Hc. exact (run_never_out_of_fuel t d (lower_nodes_core funcs names nodes t Hl) Hc). Qed.

(* ---- the program-level theorems with the bound on the measure as the only extra hypothesis ----------------------- *)
Lemma fuel_ok_of_cost funcs names nodes t d :
  lower_nodes funcs (goodS funcs names) nodes = Some t ->
  Nat.leb (cost_nodes (rounds (dwidth d)) t) exec_fuel = true -> fuel_ok d t = true.
Proof. intros Hl Hc. unfold fuel_ok. rewrite (lower_nodes_pure funcs names nodes t Hl), Hc. reflexivity. Qed.

Theorem program_each_exact_cost funcs names nodes t d :
  lower_nodes funcs (goodS funcs names) nodes = Some t -> data_ok_arr names d = true ->
  Nat.leb (cost_nodes (rounds (dwidth d)) t) exec_fuel = true ->
  match sem_run nodes (sd_top d) with
  | SOut o [] => run_program {| p_main := t; p_defs := [] |} d = OOk o
  | SError [] => run_program {| p_main := t; p_defs := [] |} d = OPanic
  | _ => True
  end.
Proof.
  intros Hl Hd Hc. exact (program_each_exact funcs names nodes t d Hl Hd (fuel_ok_of_cost funcs names nodes t d Hl Hc)).
Qed.

Theorem program_scalar_exact_cost funcs names nodes t d :
  lower_nodes funcs (goodS funcs names) nodes = Some t -> data_ok names d = true ->
  Nat.leb (cost_nodes (rounds (dwidth d)) t) exec_fuel = true ->
  match sem_run nodes (sd_top d) with
  | SOut o [] => run_program {| p_main := t; p_defs := [] |} d = OOk o
  | SError [] => run_program {| p_main := t; p_defs := [] |} d = OPanic
  | _ => True
  end.
Proof.
  intros Hl Hd Hc. exact (program_scalar_exact funcs names nodes t d Hl Hd (fuel_ok_of_cost funcs names nodes t d Hl Hc)).
Qed.
