(* The executor ends within its static measure, for every state: with fuel of at least [cost_nodes L ns] the execution
   of a tree whose pipelines end (and keep the heap invariant that bounds what is iterated) is never "out of fuel".
   The loops end because the while loop has its cap and a collection is finite — the measure accounts for both.
   Instantiated for the core pipelines of Proofs/ExecFuelExpr.v: [run_program] is never out of fuel on such a tree
   whose measure is within [exec_fuel], whatever the data. *)
From PV Require Import Base.Bytes Base.Escape Tmpl.Value Tmpl.IR Tmpl.Runtime Tmpl.Exec Proofs.ExecMono
  Proofs.ExecFuelProofs Proofs.ExecFuelPure Proofs.ExecFuelExpr Proofs.ExecFuelInst.
Require Import Lia.

Local Strategy opaque [eval_pipeline eval_cmds truthy while_cap exec_fuel expr_fuel].

Lemma template_plan_nil_fin dot s name isv arg : fin (template_plan [] dot s name isv arg).
Proof. destruct (template_plan_nil dot s name isv arg) as [E|E]; rewrite E; [apply fin_ok|apply fin_unmod]. Qed.

Section Total.
  Variable L : nat.
  Variable HJ : heap -> Prop.
  Variable okp : tpipe -> bool.
  Hypothesis HL : S while_cap <= L.
  Hypothesis H_pipe : forall p E h v h', okp p = true -> HJ h -> eval_pipeline E h p = Ok (v, h') -> HJ h'.
  Hypothesis H_size : forall h l o, HJ h -> hget h l = Some o -> osize o <= L.
  Hypothesis H_fin : forall p E h, okp p = true -> fin (eval_pipeline E h p).

  Local Notation defs := (@nil (bytes * list tnode)).
  Local Notation ok := (nodes_ok okp).

  Lemma range_plan_fin dot s p : okp p = true -> fin (range_plan dot s p).
  Proof.
    intros Hp. destruct p as [decl cmds]. unfold range_plan.
    apply fin_bind_intro; [apply H_fin; exact Hp|]. intros [v h1].
    destruct v; try apply fin_ok; try apply fin_unmod; try apply fin_panic.
    - destruct (hget h1 l) as [[items|items order]|]; first [apply fin_ok|apply fin_unmod].
    - destruct (hget h1 l) as [[items|items order]|]; try apply fin_unmod. destruct order; apply fin_ok.
  Qed.

  Lemma action_fin f dot s p : okp p = true -> fin (exec_node defs (S f) dot s (NAction p)).
  Proof.
    intros Hp. destruct (action_cases defs f dot s p) as [Hg|[s1 [H1 _]]].
    - rewrite Hg. unfold action_generic. apply fin_bind_intro; [apply H_fin; exact Hp|]. intros [v h1]. cbv zeta.
      destruct (fst p); [|apply fin_ok]. apply fin_bind_intro; [apply print_text_fin|intros; apply fin_ok].
    - rewrite H1. apply fin_ok.
  Qed.

  Definition N_nodes f := forall dot s ns, ok ns = true -> HJ (x_heap s) -> cost_nodes L ns <= f ->
    fin (exec_nodes defs f dot s ns).
  Definition N_node f := forall dot s n, node_ok okp n = true -> HJ (x_heap s) -> cost_node L n <= f ->
    fin (exec_node defs f dot s n).
  Definition N_iter f := forall s decl body pairs, ok body = true -> HJ (x_heap s) ->
    length pairs + cost_nodes L body <= f -> fin (exec_iter defs f s decl body pairs).
  Definition N_while f := forall dot s p body b v, okp p = true -> ok body = true -> HJ (x_heap s) ->
    S b + cost_nodes L body <= f -> fin (exec_while defs f dot s p body b v).

  Let inv g := inv_all L HJ okp HL H_pipe H_size g.

  Lemma fin_bind_ok {A B} (r : res A) (k : A -> res B) : fin r -> (forall a, r = Ok a -> fin (k a)) -> fin (bind r k).
  Proof.
    intros Hr Hk. destruct r; cbn [bind]; [apply Hk; reflexivity|apply fin_panic|apply fin_unmod|exfalso; apply Hr; reflexivity].
  Qed.

  Lemma total_step_nodes f : N_node f -> N_nodes f -> N_nodes (S f).
  Proof.
    intros IHn IHns dot s ns Hok Hs Hc. destruct ns as [|n r]; [apply fin_ok|].
    rewrite cost_nodes_cons in Hc. cbn [nodes_ok] in Hok. apply andb_prop in Hok. destruct Hok as [Hn Hr].
    rewrite nodes_cons. apply fin_bind_ok; [apply IHn; [exact Hn|exact Hs|lia]|].
    intros s1 E. apply IHns; [exact Hr|exact (proj1 (proj2 (inv f)) dot s n s1 Hn Hs E)|lia].
  Qed.

  Lemma total_step_iter f : N_nodes f -> N_iter f -> N_iter (S f).
  Proof.
    intros IHns IHi s decl body pairs Hb Hs Hc. pose proof (cost_nodes_pos L body) as Hpos.
    destruct pairs as [|[k v] r]; [apply fin_ok|]. cbn [length] in Hc. rewrite iter_cons. cbv zeta.
    match goal with |- fin (do s1 <- exec_nodes defs f ?d ?s0 ?b; _) =>
      apply fin_bind_ok; [apply IHns; [exact Hb|exact Hs|lia]|];
      intros s1 E; pose proof (proj1 (inv f) d s0 b s1 Hb Hs E) as H1 end.
    apply IHi; [exact Hb|exact H1|lia].
  Qed.

  Lemma total_step_while f : N_nodes f -> N_while f -> N_while (S f).
  Proof.
    intros IHns IHw dot s p body b v Hp Hb Hs Hc. rewrite while_step.
    apply fin_bind_ok; [apply IHns; [exact Hb|exact Hs|lia]|]. intros s1 E.
    pose proof (proj1 (inv f) v s body s1 Hb Hs E) as H1.
    apply fin_bind_ok; [apply H_fin; exact Hp|]. intros [v' h1] Ev.
    pose proof (H_pipe p _ _ v' h1 Hp H1 Ev) as H2. cbv zeta.
    destruct b as [|b]; [apply fin_panic|].
    destruct v' as [| | |[|]| | |[|]| | | | |]; try apply fin_ok; try apply fin_panic; try apply fin_unmod.
    all: apply IHw; [exact Hp|exact Hb|exact H2|lia].
  Qed.

  Lemma total_step_node f : N_nodes f -> N_iter f -> N_while f -> N_node (S f).
  Proof.
    intros IHns IHi IHw dot s n Hok Hs Hc. destruct n as [t|p|p th el|p body el|name isv arg].
    - apply fin_ok.
    - exact (action_fin f dot s p Hok).
    - rewrite cost_node_if in Hc.
      rewrite node_ok_if in Hok. apply andb_prop in Hok. destruct Hok as [Hok Hel]. apply andb_prop in Hok.
      destruct Hok as [Hp Hth]. rewrite node_if.
      apply fin_bind_ok; [apply H_fin; exact Hp|]. intros [v h1] Ev. cbv zeta.
      pose proof (H_pipe p _ _ v h1 Hp Hs Ev) as H1.
      apply fin_bind_intro; [apply truthy_fin|]. intros t.
      apply IHns; [destruct t; assumption|exact H1|destruct t; lia].
    - rewrite cost_node_range in Hc.
      rewrite node_ok_range in Hok. apply andb_prop in Hok. destruct Hok as [Hok Hel]. apply andb_prop in Hok.
      destruct Hok as [Hp Hb]. rewrite node_range.
      apply fin_bind_ok; [apply range_plan_fin; exact Hp|]. intros pl Er.
      destruct (range_plan_keeps L HJ okp HL H_pipe H_size dot s p pl Hp Hs Er) as [H1 Hlen].
      destruct pl as [s2|s2 pairs|s2 v|s2]; cbn [plan_state] in H1.
      + apply IHns; [exact Hel|exact H1|lia].
      + pose proof (Hlen s2 pairs eq_refl). apply IHi; [exact Hb|exact H1|lia].
      + apply IHw; [exact Hp|exact Hb|exact H1|lia].
      + apply fin_ok.
    - rewrite node_template. apply fin_bind_ok; [apply template_plan_nil_fin|]. intros tp E.
      destruct (template_plan_nil dot s name isv arg) as [E'|E']; rewrite E' in E; [|discriminate E].
      injection E as <-. apply fin_ok.
  Qed.

  Lemma total_exec f : N_nodes f /\ N_node f /\ N_iter f /\ N_while f.
  Proof.
    induction f as [|f [IHns [IHn [IHi IHw]]]].
    - unfold N_nodes, N_node, N_iter, N_while; repeat split; intros.
      + pose proof (cost_nodes_pos L ns). lia.
      + assert (1 <= cost_node L n); [|lia].
        destruct n; cbn [cost_node]; lia.
      + pose proof (cost_nodes_pos L body). lia.
      + lia.
    - repeat split.
      + apply total_step_nodes; assumption.
      + apply total_step_node; assumption.
      + apply total_step_iter; assumption.
      + apply total_step_while; assumption.
  Qed.

  Theorem exec_never_out_of_fuel f dot s ns :
    ok ns = true -> HJ (x_heap s) -> cost_nodes L ns <= f -> fin (exec_nodes defs f dot s ns).
  Proof. exact (proj1 (total_exec f) dot s ns). Qed.
End Total.

(* ---- trees of core pipelines within their fuel -------------------------------------------------------------------- *)
Definition core_nodes : list tnode -> bool := nodes_ok pipe_fuel_ok.

Lemma nodes_ok_weaken (p q : tpipe -> bool) : (forall x, p x = true -> q x = true) ->
  (forall n, node_ok p n = true -> node_ok q n = true) /\ (forall ns, nodes_ok p ns = true -> nodes_ok q ns = true).
Proof.
  intros Hpq.
  assert (Hn : forall n, node_ok p n = true -> node_ok q n = true).
  { fix IH 1. intros n.
    assert (Hl : forall ns, nodes_ok p ns = true -> nodes_ok q ns = true).
    { induction ns as [|x r IHr]; [reflexivity|]. cbn [nodes_ok]. intros H. apply andb_prop in H. destruct H as [Hx Hr].
      rewrite (IH x Hx), (IHr Hr). reflexivity. }
    destruct n as [t|pp|pp th el|pp body el|name isv arg]; try (intros; reflexivity).
    - exact (Hpq pp).
    - rewrite !node_ok_if. intros H. apply andb_prop in H. destruct H as [H Hel]. apply andb_prop in H. destruct H as [Hp Hth].
      rewrite (Hpq pp Hp), (Hl th Hth), (Hl el Hel). reflexivity.
    - rewrite !node_ok_range. intros H. apply andb_prop in H. destruct H as [H Hel]. apply andb_prop in H. destruct H as [Hp Hb].
      rewrite (Hpq pp Hp), (Hl body Hb), (Hl el Hel). reflexivity. }
  split; [exact Hn|].
  induction ns as [|x r IHr]; [reflexivity|]. cbn [nodes_ok]. intros H. apply andb_prop in H. destruct H as [Hx Hr].
  rewrite (Hn x Hx), (IHr Hr). reflexivity.
Qed.

Lemma pipe_fuel_ok_pure p : pipe_fuel_ok p = true -> pure_pipe p = true.
Proof. unfold pipe_fuel_ok. intros H. apply andb_prop in H. destruct H as [H _]. exact (core_pipe_pure p H). Qed.
Lemma core_nodes_pure ns : core_nodes ns = true -> pure_nodes ns = true.
Proof. exact (proj2 (nodes_ok_weaken pipe_fuel_ok pure_pipe pipe_fuel_ok_pure) ns). Qed.

Theorem core_never_out_of_fuel f dot s ns :
  core_nodes ns = true -> cost_nodes (rounds (hsize (x_heap s))) ns <= f -> fin (exec_nodes [] f dot s ns).
Proof.
  intros Hc Hn.
  apply (exec_never_out_of_fuel (rounds (hsize (x_heap s))) (fun h => h = x_heap s) pipe_fuel_ok).
  - unfold rounds. lia.
  - intros p E h v h' Hp Hh He. rewrite (pure_pipeline_heap E h p v h' (pipe_fuel_ok_pure p Hp) He). exact Hh.
  - intros h l o Hh Hg. subst h. pose proof (hsize_get _ l o Hg). unfold rounds. lia.
  - intros p E h Hp. exact (core_pipeline_fin E h p Hp).
  - exact Hc.
  - reflexivity.
  - exact Hn.
Qed.

(* whole renders, ANY data: never out of fuel *)
Theorem run_never_out_of_fuel t d :
  core_nodes t = true -> Nat.leb (cost_nodes (rounds (dwidth d)) t) exec_fuel = true ->
  run_program {| p_main := t; p_defs := [] |} d <> OFuel.
Proof.
  intros Hc Hn. unfold run_program. destruct (init_state d) as [s|] eqn:Hi; [|discriminate]. cbn [p_main p_defs].
  apply Nat.leb_le in Hn. pose proof (init_state_hsize d s Hi) as Hw.
  assert (Hr : rounds (hsize (x_heap s)) <= rounds (dwidth d)) by (unfold rounds; lia).
  pose proof (proj2 (cost_mono _ _ Hr) t) as Hm.
  pose proof (core_never_out_of_fuel exec_fuel VInvalid s t Hc ltac:(lia)) as Hf.
  destruct (exec_nodes [] exec_fuel VInvalid s t); try discriminate. exfalso; apply Hf; reflexivity.
Qed.
