(* C06 — fields of the AST JSON that ordinary templates never set (Models/AstFields.v): proofs.
   The Tag arm of buildNode lets the void-element table alone decide whether an element is written without
   end tag and content; the `selfClosing` flag of the AST (pug source `div/`) has no say.  So the rendering of a
   decorated tree is the rendering of the erased tree, and everything proved about Pug/Compile.v on pnode
   (Proofs/C06Proofs.v) carries over to the trees the decoder sees. *)
From PV Require Import Base.Bytes Js.Ast Tmpl.IR Tmpl.Lexer Pug.Ast Pug.Compile Spec.HtmlSer
  Models.AstFields Proofs.C06Proofs.

Lemma bn_tag_table name self : b_name (bn_tag name self) = name /\ b_self (bn_tag name self) = void_el name.
Proof. unfold bn_tag. cbn [b_name b_self]. split; [reflexivity|apply is_void_spec]. Qed.

(* the branch CommonTag.render takes on the built tag is the branch Pug/Compile.v and Spec/HtmlSer.v take on the
   name: ALL trees (static or not: other node kinds contribute no event on either side), ALL flag values *)
Fixpoint mevents1_erase (n : tnode) {struct n} : mevents1 bn_tag n = events1 (erase n).
Proof.
  destruct n as [name self i at_ ab body|s|st e i|t cs alt|e ws|v k o b|t b|nm ps b|nm args at_ b| |v|l|];
    try reflexivity.
  - cbn [mevents1 erase events1].
    destruct (bn_tag_table name self) as [Hn Hs]. rewrite Hn, Hs.
    destruct (void_el name); [reflexivity|].
    f_equal. f_equal.
    induction body as [|x r IH]; [reflexivity|].
    cbn [flat_map map]. rewrite (mevents1_erase x), IH. reflexivity.
  - cbn [mevents1 erase events1].
    induction l as [|x r IH]; [reflexivity|].
    cbn [flat_map map]. rewrite (mevents1_erase x), IH. reflexivity.
Qed.

Lemma mevents_erase l : mevents bn_tag l = events (map erase l).
Proof.
  unfold mevents, events. induction l as [|x r IH]; [reflexivity|].
  cbn [flat_map map]. rewrite mevents1_erase, IH. reflexivity.
Qed.

(* ALL static trees as the decoder sees them, ANY value of the flag on ANY element: the emitted template source
   is text and string-literal actions whose values are the printing of the model's events, and these are the
   serialisation of the erased tree *)
Theorem ast_static (funcs : list bytes) (l : list tnode) :
  forallb static (map erase l) = true -> forallb names_ok (map erase l) = true ->
  ser_events (mevents bn_tag l) = html_ser (map erase l) /\
  exists ts segs, compile funcs false (map erase l) = Some ts /\ segment (show_toks ts) = Some segs /\
                  segs_value segs = Some (ser_events (mevents bn_tag l)) /\ forallb lit_seg segs = true.
Proof.
  intros Hs Hn.
  assert (E : ser_events (mevents bn_tag l) = html_ser (map erase l)).
  { rewrite mevents_erase. apply ser_events_html. exact Hs. }
  split; [exact E|].
  destruct (static_bytes funcs (map erase l) Hs Hn) as (ts & segs & Hc & Hg & Hv & Hl).
  exists ts, segs. rewrite E. repeat split; assumption.
Qed.

(* ... and a well-formed document: every element that is not void is opened and closed, whatever its flag *)
Theorem ast_static_wf (l : list tnode) :
  forallb static (map erase l) = true -> doctype_ok (map erase l) = true ->
  wf_html (mevents bn_tag l) = true.
Proof.
  intros Hs Hd. rewrite mevents_erase. exact (proj2 (html_ser_wf (map erase l) Hs Hd)).
Qed.

(* the seeded reading ("the table can only add the mark") on the demonstration tree
     section
       div/          <- selfClosing: true on an element that is not void, no content: inside pug's domain
       br
       span after
   writes <section><div><br><span>after</span></section>: not the serialisation, and not well-formed *)
Definition sc_tree : list tnode :=
  [TNTag (B "section") (Some false) false [] []
     [TNTag (B "div") (Some true) false [] [] [];
      TNTag (B "br") (Some false) true [] [] [];
      TNTag (B "span") None true [] [] [TNText (B "after")]]].

Theorem guarded_refuted : exists l : list tnode,
  forallb sc_dom l = true /\ forallb static (map erase l) = true /\ doctype_ok (map erase l) = true /\
  wf_html (mevents bn_tag_guarded l) = false /\
  ser_events (mevents bn_tag_guarded l) <> html_ser (map erase l).
Proof.
  exists sc_tree. repeat split; try (vm_compute; reflexivity).
  vm_compute. intro H. discriminate H.
Qed.

(* non-vacuity: the domain holds trees with the flag set on elements that are not void (empty, white-space
   text), and excludes exactly what pug rejects *)
Example sc_dom_holds :
  forallb sc_dom sc_tree = true /\
  sc_dom (TNTag (B "p") (Some true) false [] [] [TNText (B " "); TNText [ascii_of_N 10]]) = true /\
  sc_dom (TNTag (B "img") (Some true) true [] [] [TNText (B "x")]) = true /\
  sc_dom (TNTag (B "p") (Some true) false [] [] [TNText (B "x")]) = false /\
  sc_dom (TNTag (B "p") (Some true) false [] [] [TNComment]) = false /\
  sc_dom (TNTag (B "ul") None false [] [] [TNTag (B "li") (Some true) false [] [] [TNBlock []]]) = false /\
  ser_events (mevents bn_tag sc_tree) = B "<section><div></div><br><span>after</span></section>".
Proof. vm_compute. repeat split; reflexivity. Qed.
