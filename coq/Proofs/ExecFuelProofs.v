(* Fuel sufficiency of the statement executor (Tmpl/Exec.v).
   [exec_nodes] takes one unit of fuel per list position and per nesting level, and [exec_iter] / [exec_while] one
   per iteration; the expression evaluator has its own constant fuel ([expr_fuel]) that does not depend on the
   statement fuel.  So the fuel a node list needs is bounded by a static measure [cost_nodes L] (L: a bound on the
   iterations of one range action: the while cap + 1 and the longest collection), and

     an execution that ends with SOME fuel g ends, with the same result, with EVERY fuel f >= cost_nodes L ns

   ([fuel_enough], no hypothesis about what the pipelines compute).  The only semantic hypothesis is the bound on
   the iterated collections; it enters through an abstract heap invariant [HJ] that the pipelines of the tree keep
   ([okp], [H_pipe]) and that bounds the sizes of the heap objects ([H_size]).  Proofs/ExecFuelPure.v instantiates it
   for pipelines that cannot change the heap. *)
From PV Require Import Base.Bytes Base.Escape Tmpl.Value Tmpl.IR Tmpl.Runtime Tmpl.Exec Proofs.ExecMono.
Require Import Lia.

(* ---- the static measure ------------------------------------------------------------------------------------ *)
Section Cost.
  Variable L : nat.

  Fixpoint cost_node (n : tnode) : nat :=
    let cl := fix cl (ns : list tnode) : nat :=
      match ns with [] => 1 | x :: r => S (Nat.max (cost_node x) (cl r)) end in
    match n with
    | NText _ | NAction _ | NTemplate _ _ _ => 1
    | NIf _ th el => S (Nat.max (cl th) (cl el))
    | NRange _ body el => S (Nat.max (cl el) (L + cl body))
    end.
  Fixpoint cost_nodes (ns : list tnode) : nat :=
    match ns with [] => 1 | x :: r => S (Nat.max (cost_node x) (cost_nodes r)) end.

  Lemma cost_node_if p th el : cost_node (NIf p th el) = S (Nat.max (cost_nodes th) (cost_nodes el)).
  Proof. reflexivity. Qed.
  Lemma cost_node_range p body el : cost_node (NRange p body el) = S (Nat.max (cost_nodes el) (L + cost_nodes body)).
  Proof. reflexivity. Qed.
  Lemma cost_nodes_cons x r : cost_nodes (x :: r) = S (Nat.max (cost_node x) (cost_nodes r)).
  Proof. reflexivity. Qed.
  Lemma cost_nodes_pos ns : 1 <= cost_nodes ns.
  Proof. destruct ns; cbn [cost_nodes]; lia. Qed.
End Cost.

(* a bound one can read off the tree: its number of nodes, plus L for every level of range nesting *)
Fixpoint tsize_node (n : tnode) : nat :=
  let l := fix l (ns : list tnode) : nat := match ns with [] => 1 | x :: r => tsize_node x + l r end in
  match n with
  | NText _ | NAction _ | NTemplate _ _ _ => 1
  | NIf _ th el => S (l th + l el)
  | NRange _ body el => S (l body + l el)
  end.
Fixpoint tsize_nodes (ns : list tnode) : nat :=
  match ns with [] => 1 | x :: r => tsize_node x + tsize_nodes r end.
Fixpoint rdepth_node (n : tnode) : nat :=
  let l := fix l (ns : list tnode) : nat := match ns with [] => 0 | x :: r => Nat.max (rdepth_node x) (l r) end in
  match n with
  | NText _ | NAction _ | NTemplate _ _ _ => 0
  | NIf _ th el => Nat.max (l th) (l el)
  | NRange _ body el => Nat.max (l el) (S (l body))
  end.
Fixpoint rdepth_nodes (ns : list tnode) : nat :=
  match ns with [] => 0 | x :: r => Nat.max (rdepth_node x) (rdepth_nodes r) end.

Lemma tsize_nodes_pos ns : 1 <= tsize_nodes ns.
Proof. induction ns as [|x r IH]; cbn [tsize_nodes]; lia. Qed.

Lemma cost_le_size_node L : forall n, cost_node L n <= tsize_node n + L * rdepth_node n.
Proof.
  fix IH 1. intros n.
  assert (Hl : forall ns, cost_nodes L ns <= tsize_nodes ns + L * rdepth_nodes ns).
  { induction ns as [|x r IHr]; [cbn [cost_nodes tsize_nodes]; lia|].
    rewrite cost_nodes_cons. cbn [tsize_nodes rdepth_nodes]. rewrite <- Nat.mul_max_distr_l.
    pose proof (IH x). pose proof (tsize_nodes_pos r).
    assert (1 <= tsize_node x) by (destruct x; cbn [tsize_node]; lia). lia. }
  destruct n as [t|p|p th el|p body el|name isv arg]; try (cbn [cost_node tsize_node]; lia).
  - rewrite cost_node_if.
    change (tsize_node (NIf p th el)) with (S (tsize_nodes th + tsize_nodes el)).
    change (rdepth_node (NIf p th el)) with (Nat.max (rdepth_nodes th) (rdepth_nodes el)).
    rewrite <- Nat.mul_max_distr_l. pose proof (Hl th). pose proof (Hl el).
    pose proof (tsize_nodes_pos th). pose proof (tsize_nodes_pos el). lia.
  - rewrite cost_node_range.
    change (tsize_node (NRange p body el)) with (S (tsize_nodes body + tsize_nodes el)).
    change (rdepth_node (NRange p body el)) with (Nat.max (rdepth_nodes el) (S (rdepth_nodes body))).
    rewrite <- Nat.mul_max_distr_l, Nat.mul_succ_r. pose proof (Hl body). pose proof (Hl el).
    pose proof (tsize_nodes_pos body). pose proof (tsize_nodes_pos el). lia.
Qed.
Lemma cost_le_size L ns : cost_nodes L ns <= tsize_nodes ns + L * rdepth_nodes ns.
Proof.
  induction ns as [|x r IHr]; [cbn [cost_nodes tsize_nodes]; lia|].
  rewrite cost_nodes_cons. cbn [tsize_nodes rdepth_nodes]. rewrite <- Nat.mul_max_distr_l.
  pose proof (cost_le_size_node L x). pose proof (tsize_nodes_pos r).
  assert (1 <= tsize_node x) by (destruct x; cbn [tsize_node]; lia). lia.
Qed.

(* the size of a heap object: what a range action can iterate over *)
Definition osize (o : obj) : nat :=
  match o with OArr items => length items | OMap items order => Nat.max (length items) (length order) end.

(* the state a range plan continues from *)
Definition plan_state (pl : rplan) : xstate :=
  match pl with RElse s | RIter s _ | RWhile s _ | RDone s => s end.

Lemma insert_sorted_length {A} lt (x : A) l : length (insert_sorted lt x l) = S (length l).
Proof. induction l as [|y r IH]; cbn [insert_sorted length]; [reflexivity|]. destruct (lt x y); cbn [length]; [reflexivity|rewrite IH; reflexivity]. Qed.
Lemma sort_bytes_length l : length (sort_bytes l) = length l.
Proof. unfold sort_bytes. induction l as [|x r IH]; cbn [fold_right length]; [reflexivity|]. rewrite insert_sorted_length, IH. reflexivity. Qed.
Lemma filter_length {A} (f : A -> bool) l : length (filter f l) <= length l.
Proof. induction l as [|x r IH]; cbn [filter length]; [lia|]. destruct (f x); cbn [length]; lia. Qed.

Local Strategy opaque [eval_pipeline eval_cmds truthy while_cap exec_fuel expr_fuel].

(* range_plan: the plan's state carries the heap the pipeline left, and what is iterated is the content of one
   heap object *)
Lemma range_plan_inv dot s p pl :
  range_plan dot s p = Ok pl ->
  exists v h1,
    eval_pipeline (env_of (set_vars s (f_vars (cur s) ++ map (fun x => (x, VInvalid)) (fst p))) dot) (x_heap s) p = Ok (v, h1) /\
    x_heap (plan_state pl) = h1 /\
    forall s2 pairs, pl = RIter s2 pairs -> exists l o, hget h1 l = Some o /\ length pairs <= osize o.
Proof.
  destruct p as [decl cmds]. unfold range_plan. cbn [fst].
  change (x_heap (set_vars s (f_vars (cur s) ++ map (fun x => (x, VInvalid)) decl))) with (x_heap s).
  destruct (eval_pipeline _ (x_heap s) (decl, cmds)) as [[v h1]| | |]; cbn [bind]; try discriminate.
  intros H. exists v, h1. split; [reflexivity|].
  destruct v as [|z|gs|gb|z|s0|b| |l|l|ats|m]; try discriminate H.
  - (* VInvalid *) injection H as <-. split; [reflexivity|discriminate].
  - (* VGoBool *) destruct gb; injection H as <-; (split; [reflexivity|discriminate]).
  - (* VBool *) destruct b; injection H as <-; (split; [reflexivity|discriminate]).
  - (* VNil *) injection H as <-. split; [reflexivity|discriminate].
  - (* VArr *)
    destruct (hget h1 l) as [[items|items order]|] eqn:Hg; try discriminate H.
    injection H as <-.
    match goal with |- context [combine ?a ?b] => set (pairs := combine a b) end.
    assert (Hlen : length pairs = length items).
    { unfold pairs. rewrite combine_length, map_length, seq_length. lia. }
    destruct pairs as [|pr prs] eqn:Ep; (split; [reflexivity|]); [discriminate|].
    intros s2 pairs' Heq. injection Heq as _ <-. exists l, (OArr items). split; [exact Hg|]. cbn [osize]. lia.
  - (* VMap *)
    destruct (hget h1 l) as [[items|items order]|] eqn:Hg; try discriminate H.
    destruct order as [|o1 orest].
    + injection H as <-.
      match goal with |- context [map ?f (sort_bytes ?k)] => set (pairs := map f (sort_bytes k)) end.
      assert (Hlen : length pairs = length items).
      { unfold pairs. rewrite map_length, sort_bytes_length. unfold keys. rewrite map_length. reflexivity. }
      destruct pairs as [|pr prs] eqn:Ep; (split; [reflexivity|]); [discriminate|].
      intros s2 pairs' Heq. injection Heq as _ <-. exists l, (OMap items []). split; [exact Hg|]. cbn [osize]. lia.
    + assert (Hfl : length (filter (fun k => mem k (keys items)) (o1 :: orest)) <= length (o1 :: orest))
        by apply filter_length.
      revert H Hfl. generalize (filter (fun k => mem k (keys items)) (o1 :: orest)). intros fl H Hfl.
      injection H as <-.
      match goal with |- context [map ?f fl] => set (pairs := map f fl) end.
      assert (Hlen : length pairs <= length (o1 :: orest)).
      { unfold pairs. rewrite map_length. exact Hfl. }
      destruct pairs as [|pr prs] eqn:Ep; (split; [reflexivity|]); [discriminate|].
      intros s2 pairs' Heq. injection Heq as _ <-. exists l, (OMap items (o1 :: orest)). split; [exact Hg|].
      cbn [osize]. lia.
Qed.

(* without definitions a template action finds nothing to call *)
Lemma template_plan_nil dot s name isv arg :
  template_plan [] dot s name isv arg = Ok None \/ template_plan [] dot s name isv arg = Unmod.
Proof.
  unfold template_plan. destruct isv.
  - destruct (var_val (f_vars (cur s)) name); cbn [bind]; auto.
  - cbn [bind]. auto.
Qed.

(* an action: either the block binding of __freeze (no evaluation) or the generic form *)
Definition action_generic (dot : val) (s : xstate) (p : tpipe) : res xstate :=
  do x <- eval_pipeline (env_of s dot) (x_heap s) p;
  let '(v, h1) := x in
  let s1 := set_heap s h1 in
  match fst p with
  | [] => do t <- print_text h1 v; Ok (emit s1 t)
  | _ => Ok (set_vars s1 (set_decl (f_vars (cur s1)) (fst p) v))
  end.

Lemma action_cases defs f dot s p :
  exec_node defs (S f) dot s (NAction p) = action_generic dot s p \/
  exists s', exec_node defs (S f) dot s (NAction p) = Ok s' /\ x_heap s' = x_heap s.
Proof.
  destruct p as [decl cmds]. destruct decl as [|d ds]; [|left; reflexivity].
  destruct cmds as [|c cr]; try (left; reflexivity).
  destruct c as [|a1 c']; try (left; reflexivity).
  destruct a1; try (left; reflexivity).
  destruct c' as [|a2 c'']; try (left; reflexivity).
  destruct a2; try (left; reflexivity).
  destruct c'' as [|a3 c3]; try (left; reflexivity).
  destruct cr as [|c2 cr]; try (left; reflexivity).
  cbn [exec_node]. destruct (beqb f0 (B "__freeze")); [right|left; reflexivity].
  eexists. split; [reflexivity|reflexivity].
Qed.

(* ---- the general statement ---------------------------------------------------------------------------------- *)
Section Enough.
  Variable L : nat.                       (* iterations of one range action *)
  Variable HJ : heap -> Prop.             (* what the pipelines keep true of the heap *)
  Variable okp : tpipe -> bool.           (* the pipelines of the tree *)
  Hypothesis HL : S while_cap <= L.
  Hypothesis H_pipe : forall p E h v h', okp p = true -> HJ h -> eval_pipeline E h p = Ok (v, h') -> HJ h'.
  Hypothesis H_size : forall h l o, HJ h -> hget h l = Some o -> osize o <= L.

  Fixpoint node_ok (n : tnode) : bool :=
    let l := fix l (ns : list tnode) : bool := match ns with [] => true | x :: r => node_ok x && l r end in
    match n with
    | NText _ | NTemplate _ _ _ => true
    | NAction p => okp p
    | NIf p th el => okp p && l th && l el
    | NRange p body el => okp p && l body && l el
    end.
  Fixpoint nodes_ok (ns : list tnode) : bool :=
    match ns with [] => true | x :: r => node_ok x && nodes_ok r end.
  Lemma node_ok_if p th el : node_ok (NIf p th el) = okp p && nodes_ok th && nodes_ok el.
  Proof. reflexivity. Qed.
  Lemma node_ok_range p body el : node_ok (NRange p body el) = okp p && nodes_ok body && nodes_ok el.
  Proof. reflexivity. Qed.

  Local Notation defs := (@nil (bytes * list tnode)).

  (* -- the invariant is kept -- *)
  Definition I_nodes g := forall dot s ns s', nodes_ok ns = true -> HJ (x_heap s) ->
    exec_nodes defs g dot s ns = Ok s' -> HJ (x_heap s').
  Definition I_node g := forall dot s n s', node_ok n = true -> HJ (x_heap s) ->
    exec_node defs g dot s n = Ok s' -> HJ (x_heap s').
  Definition I_iter g := forall s decl body pairs s', nodes_ok body = true -> HJ (x_heap s) ->
    exec_iter defs g s decl body pairs = Ok s' -> HJ (x_heap s').
  Definition I_while g := forall dot s p body b v s', okp p = true -> nodes_ok body = true -> HJ (x_heap s) ->
    exec_while defs g dot s p body b v = Ok s' -> HJ (x_heap s').

  Lemma range_plan_keeps dot s p pl :
    okp p = true -> HJ (x_heap s) -> range_plan dot s p = Ok pl ->
    HJ (x_heap (plan_state pl)) /\ forall s2 pairs, pl = RIter s2 pairs -> length pairs <= L.
  Proof.
    intros Hp Hs H. destruct (range_plan_inv dot s p pl H) as (v & h1 & He & Hh & Hit).
    assert (H1 : HJ h1) by exact (H_pipe p _ _ v h1 Hp Hs He).
    split; [rewrite Hh; exact H1|].
    intros s2 pairs Hpl. destruct (Hit s2 pairs Hpl) as (l & o & Hg & Hle).
    pose proof (H_size h1 l o H1 Hg). lia.
  Qed.

  Lemma action_keeps f dot s p s' :
    okp p = true -> HJ (x_heap s) -> exec_node defs (S f) dot s (NAction p) = Ok s' -> HJ (x_heap s').
  Proof.
    intros Hp Hs H. destruct (action_cases defs f dot s p) as [Hg|[s1 [H1 Hh]]].
    - rewrite Hg in H. unfold action_generic in H.
      destruct (eval_pipeline (env_of s dot) (x_heap s) p) as [[v h1]| | |] eqn:He; cbn [bind] in H; try discriminate H.
      pose proof (H_pipe p _ _ v h1 Hp Hs He) as H1.
      destruct (fst p) as [|d ds].
      + destruct (print_text h1 v) as [t| | |]; cbn [bind] in H; try discriminate H. injection H as <-. exact H1.
      + injection H as <-. exact H1.
    - rewrite H1 in H. injection H as <-. rewrite Hh. exact Hs.
  Qed.

  Lemma inv_step_nodes g : I_node g -> I_nodes g -> I_nodes (S g).
  Proof.
    intros IHn IHns dot s ns s' Hok Hs H. destruct ns as [|n r].
    - injection H as <-. exact Hs.
    - rewrite nodes_cons in H. cbn [nodes_ok] in Hok. apply andb_prop in Hok. destruct Hok as [Hn Hr].
      destruct (exec_node defs g dot s n) as [s1| | |] eqn:E; cbn [bind] in H; try discriminate H.
      exact (IHns dot s1 r s' Hr (IHn dot s n s1 Hn Hs E) H).
  Qed.

  Lemma inv_step_iter g : I_nodes g -> I_iter g -> I_iter (S g).
  Proof.
    intros IHns IHi s decl body pairs s' Hb Hs H. destruct pairs as [|[k v] r].
    - injection H as <-. exact Hs.
    - rewrite iter_cons in H. cbv zeta in H.
      match type of H with (do s1 <- exec_nodes defs g ?d ?s0 ?b; _) = _ =>
        destruct (exec_nodes defs g d s0 b) as [s1| | |] eqn:E; cbn [bind] in H; try discriminate H;
        pose proof (IHns d s0 b s1 Hb Hs E) as H1 end.
      exact (IHi s1 decl body r s' Hb H1 H).
  Qed.

  Lemma inv_step_while g : I_nodes g -> I_while g -> I_while (S g).
  Proof.
    intros IHns IHw dot s p body b v s' Hp Hb Hs H. rewrite while_step in H.
    destruct (exec_nodes defs g v s body) as [s1| | |] eqn:E; cbn [bind] in H; try discriminate H.
    pose proof (IHns v s body s1 Hb Hs E) as H1.
    destruct (eval_pipeline (env_of s1 dot) (x_heap s1) p) as [[v' h1]| | |] eqn:Ev; cbn [bind] in H; try discriminate H.
    pose proof (H_pipe p _ _ v' h1 Hp H1 Ev) as H2.
    destruct b as [|b]; [discriminate H|].
    destruct v' as [| | |[|]| | |[|]| | | | |]; cbn beta iota in H; try discriminate H.
    - exact (IHw dot (set_heap s1 h1) p body b _ s' Hp Hb H2 H).
    - injection H as <-. exact H2.
    - exact (IHw dot (set_heap s1 h1) p body b _ s' Hp Hb H2 H).
    - injection H as <-. exact H2.
  Qed.

  Lemma inv_step_node g : I_nodes g -> I_iter g -> I_while g -> I_node (S g).
  Proof.
    intros IHns IHi IHw dot s n s' Hok Hs H. destruct n as [t|p|p th el|p body el|name isv arg].
    - injection H as <-. exact Hs.
    - exact (action_keeps g dot s p s' Hok Hs H).
    - rewrite node_ok_if in Hok. apply andb_prop in Hok. destruct Hok as [Hok Hel]. apply andb_prop in Hok.
      destruct Hok as [Hp Hth]. rewrite node_if in H.
      destruct (eval_pipeline (env_of s dot) (x_heap s) p) as [[v h1]| | |] eqn:Ev; cbn [bind] in H; try discriminate H.
      pose proof (H_pipe p _ _ v h1 Hp Hs Ev) as H1.
      destruct (truthy h1 v) as [t| | |]; cbn [bind] in H; try discriminate H.
      refine (IHns dot _ (if t then th else el) s' _ _ H); [destruct t; assumption|exact H1].
    - rewrite node_ok_range in Hok. apply andb_prop in Hok. destruct Hok as [Hok Hel]. apply andb_prop in Hok.
      destruct Hok as [Hp Hb]. rewrite node_range in H.
      destruct (range_plan dot s p) as [pl| | |] eqn:Er; cbn [bind] in H; try discriminate H.
      destruct (range_plan_keeps dot s p pl Hp Hs Er) as [H1 _].
      destruct pl as [s2|s2 pairs|s2 v|s2]; cbn [plan_state] in H1.
      + exact (IHns dot s2 el s' Hel H1 H).
      + exact (IHi s2 (fst p) body pairs s' Hb H1 H).
      + exact (IHw dot s2 p body while_cap v s' Hp Hb H1 H).
      + injection H as <-. exact H1.
    - rewrite node_template in H.
      destruct (template_plan_nil dot s name isv arg) as [E|E]; rewrite E in H; cbn [bind] in H; [|discriminate H].
      injection H as <-. exact Hs.
  Qed.

  Lemma inv_all g : I_nodes g /\ I_node g /\ I_iter g /\ I_while g.
  Proof.
    induction g as [|g [IHns [IHn [IHi IHw]]]].
    - unfold I_nodes, I_node, I_iter, I_while; repeat split; intros; discriminate.
    - repeat split.
      + apply inv_step_nodes; assumption.
      + apply inv_step_node; assumption.
      + apply inv_step_iter; assumption.
      + apply inv_step_while; assumption.
  Qed.

  (* -- the measure is enough -- *)
  Definition F_nodes g := forall f dot s ns, nodes_ok ns = true -> HJ (x_heap s) -> cost_nodes L ns <= f ->
    fin (exec_nodes defs g dot s ns) -> exec_nodes defs f dot s ns = exec_nodes defs g dot s ns.
  Definition F_node g := forall f dot s n, node_ok n = true -> HJ (x_heap s) -> cost_node L n <= f ->
    fin (exec_node defs g dot s n) -> exec_node defs f dot s n = exec_node defs g dot s n.
  Definition F_iter g := forall f s decl body pairs, nodes_ok body = true -> HJ (x_heap s) ->
    length pairs + cost_nodes L body <= f ->
    fin (exec_iter defs g s decl body pairs) -> exec_iter defs f s decl body pairs = exec_iter defs g s decl body pairs.
  Definition F_while g := forall f dot s p body b v, okp p = true -> nodes_ok body = true -> HJ (x_heap s) ->
    S b + cost_nodes L body <= f ->
    fin (exec_while defs g dot s p body b v) -> exec_while defs f dot s p body b v = exec_while defs g dot s p body b v.

  Ltac base := intros; exfalso; match goal with H : fin _ |- _ => apply H; reflexivity end.

  Lemma fuel_step_nodes g : F_node g -> F_nodes g -> F_nodes (S g).
  Proof.
    intros IHn IHns f dot s ns Hok Hs Hc Hf. destruct ns as [|n r].
    - pose proof (cost_nodes_pos L []). destruct f as [|f]; [lia|reflexivity].
    - rewrite cost_nodes_cons in Hc. destruct f as [|f]; [lia|].
      cbn [nodes_ok] in Hok. apply andb_prop in Hok. destruct Hok as [Hn Hr].
      rewrite (nodes_cons defs f), (nodes_cons defs g). rewrite (nodes_cons defs g) in Hf.
      rewrite (IHn f dot s n Hn Hs ltac:(lia) (bind_fin _ _ Hf)).
      destruct (exec_node defs g dot s n) as [s1| | |] eqn:E; cbn [bind] in *; try reflexivity.
      apply IHns; [exact Hr|exact (proj1 (proj2 (inv_all g)) dot s n s1 Hn Hs E)|lia|exact Hf].
  Qed.

  Lemma fuel_step_iter g : F_nodes g -> F_iter g -> F_iter (S g).
  Proof.
    intros IHns IHi f s decl body pairs Hb Hs Hc Hf. pose proof (cost_nodes_pos L body) as Hpos.
    destruct f as [|f]; [lia|]. destruct pairs as [|[k v] r]; [reflexivity|]. cbn [length] in Hc.
    rewrite (iter_cons defs f), (iter_cons defs g). rewrite (iter_cons defs g) in Hf. cbv zeta in *.
    match goal with |- context [exec_nodes defs f ?d ?s0 ?b] =>
      rewrite (IHns f d s0 b Hb Hs ltac:(lia) (bind_fin _ _ Hf));
      destruct (exec_nodes defs g d s0 b) as [s1| | |] eqn:E; cbn [bind] in *; try reflexivity;
      pose proof (proj1 (inv_all g) d s0 b s1 Hb Hs E) as H1 end.
    apply IHi; [exact Hb|exact H1|lia|exact Hf].
  Qed.

  Lemma fuel_step_while g : F_nodes g -> F_while g -> F_while (S g).
  Proof.
    intros IHns IHw f dot s p body b v Hp Hb Hs Hc Hf.
    destruct f as [|f]; [lia|].
    rewrite (while_step defs f), (while_step defs g). rewrite (while_step defs g) in Hf.
    rewrite (IHns f v s body Hb Hs ltac:(lia) (bind_fin _ _ Hf)).
    destruct (exec_nodes defs g v s body) as [s1| | |] eqn:E; cbn [bind] in *; try reflexivity.
    pose proof (proj1 (inv_all g) v s body s1 Hb Hs E) as H1.
    destruct (eval_pipeline (env_of s1 dot) (x_heap s1) p) as [[v' h1]| | |] eqn:Ev; cbn [bind] in *; try reflexivity.
    pose proof (H_pipe p _ _ v' h1 Hp H1 Ev) as H2.
    destruct b as [|b]; [reflexivity|].
    destruct v' as [| | |[|]| | |[|]| | | | |]; cbn beta iota in Hf |- *.
    all: try reflexivity.
    all: apply IHw; [exact Hp|exact Hb|exact H2|lia|exact Hf].
  Qed.

  Lemma fuel_step_node g : F_nodes g -> F_iter g -> F_while g -> F_node (S g).
  Proof.
    intros IHns IHi IHw f dot s n Hok Hs Hc Hf. destruct n as [t|p|p th el|p body el|name isv arg].
    - destruct f as [|f]; [cbn [cost_node] in Hc; lia|reflexivity].
    - destruct f as [|f]; [cbn [cost_node] in Hc; lia|reflexivity].
    - rewrite cost_node_if in Hc. destruct f as [|f]; [lia|].
      rewrite node_ok_if in Hok. apply andb_prop in Hok. destruct Hok as [Hok Hel]. apply andb_prop in Hok.
      destruct Hok as [Hp Hth].
      rewrite (node_if defs f), (node_if defs g). rewrite (node_if defs g) in Hf.
      destruct (eval_pipeline (env_of s dot) (x_heap s) p) as [[v h1]| | |] eqn:Ev; cbn [bind] in *; try reflexivity.
      pose proof (H_pipe p _ _ v h1 Hp Hs Ev) as H1.
      destruct (truthy h1 v) as [t| | |]; cbn [bind] in *; try reflexivity.
      apply IHns; [destruct t; assumption|exact H1|destruct t; lia|exact Hf].
    - rewrite cost_node_range in Hc. destruct f as [|f]; [lia|].
      rewrite node_ok_range in Hok. apply andb_prop in Hok. destruct Hok as [Hok Hel]. apply andb_prop in Hok.
      destruct Hok as [Hp Hb].
      rewrite (node_range defs f), (node_range defs g). rewrite (node_range defs g) in Hf.
      destruct (range_plan dot s p) as [pl| | |] eqn:Er; cbn [bind] in *; try reflexivity.
      destruct (range_plan_keeps dot s p pl Hp Hs Er) as [H1 Hlen].
      destruct pl as [s2|s2 pairs|s2 v|s2]; cbn [plan_state] in H1.
      + apply IHns; [exact Hel|exact H1|lia|exact Hf].
      + pose proof (Hlen s2 pairs eq_refl). apply IHi; [exact Hb|exact H1|lia|exact Hf].
      + apply IHw; [exact Hp|exact Hb|exact H1|lia|exact Hf].
      + reflexivity.
    - destruct f as [|f]; [cbn [cost_node] in Hc; lia|].
      rewrite (node_template defs f), (node_template defs g).
      destruct (template_plan_nil dot s name isv arg) as [E|E]; rewrite E; reflexivity.
  Qed.

  Lemma fuel_all g : F_nodes g /\ F_node g /\ F_iter g /\ F_while g.
  Proof.
    induction g as [|g [IHns [IHn [IHi IHw]]]].
    - unfold F_nodes, F_node, F_iter, F_while; repeat split; base.
    - repeat split.
      + apply fuel_step_nodes; assumption.
      + apply fuel_step_node; assumption.
      + apply fuel_step_iter; assumption.
      + apply fuel_step_while; assumption.
  Qed.

  (* an execution that ends with some fuel ends the same way with every fuel of at least the measure *)
  Theorem fuel_enough g f dot s ns :
    nodes_ok ns = true -> HJ (x_heap s) -> cost_nodes L ns <= f ->
    fin (exec_nodes defs g dot s ns) -> exec_nodes defs f dot s ns = exec_nodes defs g dot s ns.
  Proof. exact (proj1 (fuel_all g) f dot s ns). Qed.

  Theorem heap_inv_kept g dot s ns s' :
    nodes_ok ns = true -> HJ (x_heap s) -> exec_nodes defs g dot s ns = Ok s' -> HJ (x_heap s').
  Proof. exact (proj1 (inv_all g) dot s ns s'). Qed.
End Enough.
