(* C05 proofs: escaping and its inverse, the reader on well-formed text, well-formedness of everything
   __attrs renders, the closed form of the name -> entries map it builds, per-name readings, examples. *)
From PV Require Import Base.Bytes Base.Escape Models.Attrs.


(* ---------- escaping ---------- *)
Lemma escape_app a b : escape (a ++ b) = escape a ++ escape b.
Proof. unfold escape. apply flat_map_app. Qed.

Lemma go_escape_app a b : go_escape (a ++ b) = go_escape a ++ go_escape b.
Proof. unfold go_escape. apply flat_map_app. Qed.

Lemma go_escape_no_nul s : no_nul s = true -> go_escape s = escape s.
Proof.
  induction s as [|c s IH]; simpl; intros H; [reflexivity|].
  apply andb_true_iff in H. destruct H as [Hc Hs].
  unfold go_esc_char. destruct (Ascii.eqb c zero); [discriminate|].
  f_equal. apply IH, Hs.
Qed.

Lemma is_special_cases c :
  is_special c = true ->
  c = """"%char \/ c = "'"%char \/ c = "&"%char \/ c = "<"%char \/ c = ">"%char.
Proof.
  unfold is_special. intros H.
  repeat (apply orb_true_iff in H; destruct H as [H|H]);
    apply Ascii.eqb_eq in H; auto.
Qed.

Lemma esc_char_plain c : is_special c = false -> esc_char c = [c].
Proof.
  unfold is_special, esc_char. intros H.
  repeat (apply orb_false_iff in H; destruct H as [H ?]).
  rewrite H. destruct (Ascii.eqb c "'"); [discriminate|].
  destruct (Ascii.eqb c "&"); [discriminate|].
  destruct (Ascii.eqb c "<"); [discriminate|].
  destruct (Ascii.eqb c ">"); [discriminate|]. reflexivity.
Qed.

Lemma not_special_not_amp c : is_special c = false -> Ascii.eqb c "&" = false.
Proof.
  unfold is_special. intros H.
  repeat (apply orb_false_iff in H; destruct H as [H ?]). assumption.
Qed.

Lemma unesc_escape s : unescape5 (escape s) = s.
Proof.
  unfold unescape5. induction s as [|c s IH]; [reflexivity|].
  change (escape (c :: s)) with (esc_char c ++ escape s).
  destruct (is_special c) eqn:E.
  - apply is_special_cases in E.
    destruct E as [->|[->|[->|[->| ->]]]]; simpl; f_equal; exact IH.
  - rewrite (esc_char_plain c E). simpl.
    rewrite (not_special_not_amp c E). f_equal. exact IH.
Qed.

Lemma esc_text_escape s : esc_text (escape s) = true.
Proof.
  induction s as [|c s IH]; [reflexivity|].
  change (escape (c :: s)) with (esc_char c ++ escape s).
  destruct (is_special c) eqn:E.
  - apply is_special_cases in E.
    destruct E as [->|[->|[->|[->| ->]]]]; simpl; exact IH.
  - rewrite (esc_char_plain c E). simpl.
    rewrite (not_special_not_amp c E), E. simpl. exact IH.
Qed.

Lemma prefixb_app p r b : prefixb p r = true -> prefixb p (r ++ b) = true.
Proof.
  intros H. apply prefixb_spec in H. destruct H as [x ->].
  apply prefixb_spec. exists (x ++ b). rewrite app_assoc. reflexivity.
Qed.

Definition is_ref (r : bytes) : bool :=
  prefixb (B "#34;") r || prefixb (B "#39;") r || prefixb (B "amp;") r
  || prefixb (B "lt;") r || prefixb (B "gt;") r.

Lemma esc_text_cons c r :
  esc_text (c :: r) = if Ascii.eqb c "&" then is_ref r && esc_text r else negb (is_special c) && esc_text r.
Proof. reflexivity. Qed.

Lemma is_ref_app r b : is_ref r = true -> is_ref (r ++ b) = true.
Proof.
  unfold is_ref. intros Hp.
  repeat (apply orb_true_iff in Hp; destruct Hp as [Hp|Hp]);
    rewrite (prefixb_app _ _ b Hp); repeat rewrite orb_true_r; reflexivity.
Qed.

Lemma esc_text_app a b : esc_text a = true -> esc_text b = true -> esc_text (a ++ b) = true.
Proof.
  induction a as [|c a IH]; intros Ha Hb; [exact Hb|].
  rewrite <- app_comm_cons. rewrite esc_text_cons in *.
  destruct (Ascii.eqb c "&").
  - apply andb_true_iff in Ha. destruct Ha as [Hp Ha].
    rewrite (IH Ha Hb), (is_ref_app _ b Hp). reflexivity.
  - apply andb_true_iff in Ha. destruct Ha as [Hc Ha].
    rewrite Hc, (IH Ha Hb). reflexivity.
Qed.

(* the NUL replacement U+FFFD consists of three non-special bytes *)
Lemma esc_text_go_escape s : esc_text (go_escape s) = true.
Proof.
  induction s as [|c s IH]; [reflexivity|].
  change (go_escape (c :: s)) with (go_esc_char c ++ go_escape s).
  apply esc_text_app; [|exact IH].
  unfold go_esc_char. destruct (Ascii.eqb c zero); [reflexivity|].
  replace (esc_char c) with (escape [c]) by (simpl; apply app_nil_r).
  apply esc_text_escape.
Qed.

Lemma plain_not_special c : plain c = true -> is_special c = false.
Proof.
  unfold plain. intros H. repeat (apply andb_true_iff in H; destruct H as [H ?]).
  destruct (is_special c); [discriminate|reflexivity].
Qed.

Lemma escape_plain s : forallb plain s = true -> escape s = s.
Proof.
  induction s as [|c s IH]; simpl; intros H; [reflexivity|].
  apply andb_true_iff in H. destruct H as [Hc Hs].
  change (escape (c :: s)) with (esc_char c ++ escape s).
  rewrite (esc_char_plain c (plain_not_special c Hc)), (IH Hs). reflexivity.
Qed.

Lemma esc_text_plain s : forallb plain s = true -> esc_text s = true.
Proof. intros H. rewrite <- (escape_plain s H). apply esc_text_escape. Qed.

Lemma unesc_plain s : forallb plain s = true -> unescape5 s = s.
Proof. intros H. rewrite <- (escape_plain s H) at 1. apply unesc_escape. Qed.


(* ---------- the reader on well-formed text ---------- *)
Definition fmt_items (items : list (bytes * bytes)) : bytes :=
  flat_map (fun nv => fmt_attr (fst nv) (snd nv)) items.

Lemma name_char_plain c : name_char c = true -> plain c = true.
Proof. destruct c as [[] [] [] [] [] [] [] []]; try reflexivity; discriminate. Qed.

Lemma name_char_not_eq c : name_char c = true -> Ascii.eqb c "=" = false.
Proof. destruct c as [[] [] [] [] [] [] [] []]; try reflexivity; discriminate. Qed.

Lemma name_ok_plain n : name_ok n = true -> forallb plain n = true.
Proof.
  unfold name_ok. intros H. apply andb_true_iff in H. destruct H as [_ H].
  rewrite forallb_forall in *. intros c Hc. apply name_char_plain, H, Hc.
Qed.

Lemma parse_name n : forall acc rest out,
  forallb name_char n = true ->
  parse_go (PName acc) (n ++ "="%char :: rest) out =
  if name_ok (rev acc ++ n) then parse_go (PQuote (rev acc ++ n)) rest out else None.
Proof.
  induction n as [|c n IH]; intros acc rest out H.
  - simpl. rewrite app_nil_r. reflexivity.
  - simpl in H. apply andb_true_iff in H. destruct H as [Hc Hn].
    simpl. rewrite (name_char_not_eq c Hc). rewrite IH by exact Hn.
    simpl. rewrite <- app_assoc. reflexivity.
Qed.

Lemma esc_text_no_quote v : esc_text v = true -> forallb (fun c => negb (Ascii.eqb c """")) v = true.
Proof.
  induction v as [|c v IH]; intros H; [reflexivity|].
  rewrite esc_text_cons in H. simpl.
  destruct (Ascii.eqb c "&") eqn:E.
  - apply andb_true_iff in H. destruct H as [_ H]. rewrite (IH H), andb_true_r.
    apply Ascii.eqb_eq in E. subst c. reflexivity.
  - apply andb_true_iff in H. destruct H as [Hc H]. rewrite (IH H), andb_true_r.
    unfold is_special in Hc. destruct (Ascii.eqb c """"); [discriminate|reflexivity].
Qed.

Lemma parse_val v : forall acc name rest out,
  forallb (fun c => negb (Ascii.eqb c """")) v = true ->
  parse_go (PVal name acc) (v ++ """"%char :: rest) out =
  if esc_text (rev acc ++ v)
  then parse_go PStart rest ((name, unescape5 (rev acc ++ v)) :: out) else None.
Proof.
  induction v as [|c v IH]; intros acc name rest out H.
  - simpl. rewrite app_nil_r. reflexivity.
  - simpl in H. apply andb_true_iff in H. destruct H as [Hc Hv].
    simpl. destruct (Ascii.eqb c """"); [discriminate|].
    rewrite IH by exact Hv. simpl. rewrite <- app_assoc. reflexivity.
Qed.

Lemma parse_fmt n v rest out :
  name_ok n = true -> esc_text v = true ->
  parse_go PStart (fmt_attr n v ++ rest) out = parse_go PStart rest ((n, unescape5 v) :: out).
Proof.
  intros Hn Hv. unfold fmt_attr, sp.
  change (B " ") with [" "%char]. change (B "=""") with ["="%char; """"%char]. change (B """") with [""""%char].
  simpl. rewrite <- !app_assoc. simpl.
  rewrite parse_name.
  2:{ unfold name_ok in Hn. apply andb_true_iff in Hn. apply Hn. }
  simpl. rewrite Hn. simpl.
  rewrite <- app_assoc. simpl.
  rewrite parse_val by (apply esc_text_no_quote, Hv).
  simpl. rewrite Hv. reflexivity.
Qed.

Definition item_ok (nv : bytes * bytes) : bool := name_ok (fst nv) && esc_text (snd nv).
Definition decode (items : list (bytes * bytes)) : list (bytes * bytes) :=
  map (fun nv => (fst nv, unescape5 (snd nv))) items.

Lemma parse_items items : forall out,
  forallb item_ok items = true ->
  parse_go PStart (fmt_items items) out = Some (rev out ++ decode items).
Proof.
  induction items as [|[n v] items IH]; intros out H.
  - simpl. rewrite app_nil_r. reflexivity.
  - simpl in H. apply andb_true_iff in H. destruct H as [Hi H].
    unfold item_ok in Hi. simpl in Hi. apply andb_true_iff in Hi. destruct Hi as [Hn Hv].
    change (fmt_items ((n, v) :: items)) with (fmt_attr n v ++ fmt_items items).
    rewrite parse_fmt by assumption. rewrite IH by exact H.
    simpl. rewrite <- app_assoc. reflexivity.
Qed.

Lemma parse_attrs_items items :
  forallb item_ok items = true -> parse_attrs (fmt_items items) = Some (decode items).
Proof. intros H. unfold parse_attrs. rewrite parse_items by exact H. reflexivity. Qed.

(* ---------- rendering yields well-formed text ---------- *)
Definition tmp_okb (t : tmpattr) : bool :=
  t_esc t ||
  match t_val t with
  | [] => false
  | c :: rest => if Ascii.eqb c """" then negb (is_nil rest) && forallb plain (removelast rest) else true
  end.

Lemma piece_ok t : tmp_okb t = true -> exists p, piece t = Some p /\ esc_text p = true.
Proof.
  unfold tmp_okb, piece. destruct (t_esc t); simpl.
  - intros _. eexists; split; [reflexivity|apply esc_text_go_escape].
  - destruct (t_val t) as [|c rest]; [discriminate|].
    destruct (Ascii.eqb c """").
    + destruct rest as [|d rest]; [discriminate|]. simpl. intros H.
      eexists; split; [reflexivity|]. apply esc_text_plain, H.
    + intros _. exists []. split; reflexivity.
Qed.

Lemma attr_value_ok cls vals : forall tmp,
  forallb tmp_okb vals = true -> esc_text tmp = true ->
  match attr_value cls vals tmp with
  | APanic => False | ASkip => True | AText t => esc_text t = true
  end.
Proof.
  induction vals as [|v vals IH]; intros tmp H Ht; simpl; [exact Ht|].
  simpl in H. apply andb_true_iff in H. destruct H as [Hv H].
  destruct (piece_ok v Hv) as [p [Hp Hpe]].
  assert (Hnext : esc_text ((match tmp with [] => [] | _ => tmp ++ sp end) ++ p) = true).
  { apply esc_text_app; [|exact Hpe]. destruct tmp; [reflexivity|]. apply esc_text_app; [exact Ht|reflexivity]. }
  destruct (t_bool v) as [[|]|]; rewrite ?Hp.
  - destruct (cls && is_nil p); apply IH; assumption.
  - destruct cls; [apply IH; assumption|exact I].
  - destruct (cls && is_nil p); apply IH; assumption.
Qed.

Fixpoint entry_items (l : list (bytes * list tmpattr)) : list (bytes * bytes) :=
  match l with
  | [] => []
  | (n, vals) :: r =>
    match attr_value (is_class n) vals [] with
    | AText t => if is_class n && is_nil t then entry_items r else (n, t) :: entry_items r
    | _ => entry_items r
    end
  end.

Definition entry_okb (e : bytes * list tmpattr) : bool := name_ok (fst e) && forallb tmp_okb (snd e).

Lemma render_entries_items l :
  forallb entry_okb l = true ->
  render_entries l = Some (fmt_items (entry_items l)) /\ forallb item_ok (entry_items l) = true.
Proof.
  induction l as [|[n vals] l IH]; intros H; [split; reflexivity|].
  simpl in H. apply andb_true_iff in H. destruct H as [He H].
  unfold entry_okb in He. simpl in He. apply andb_true_iff in He. destruct He as [Hn Hvals].
  destruct (IH H) as [IH1 IH2]. simpl.
  pose proof (attr_value_ok (is_class n) vals [] Hvals eq_refl) as Hav.
  destruct (attr_value (is_class n) vals []) as [| |t]; [contradiction|split; assumption|].
  destruct (is_class n && is_nil t); [split; assumption|].
  rewrite IH1. simpl. split; [reflexivity|].
  unfold item_ok at 1. simpl. rewrite Hn, Hav, IH2. reflexivity.
Qed.

(* records that make well-formed text: proper name; unescaped text only as a quoted run of plain characters *)
Definition rec_okb (a : attr_rec) : bool :=
  name_ok (a_name a) &&
  match a_bool a with
  | Some _ => true
  | None => tmp_okb (to_tmp a)
  end.

Lemma removelast_snoc {A} (l : list A) x : removelast (l ++ [x]) = l.
Proof. apply removelast_last. Qed.

Lemma to_tmp_ok a : rec_okb a = true -> tmp_okb (to_tmp a) = true.
Proof.
  unfold rec_okb. intros H. apply andb_true_iff in H. destruct H as [Hn H].
  unfold to_tmp in *. destruct (a_bool a); [|exact H].
  unfold tmp_okb. simpl. destruct (a_esc a); [reflexivity|]. simpl.
  change (B """") with [""""%char]. simpl.
  rewrite removelast_snoc. rewrite (name_ok_plain _ Hn), andb_true_r.
  destruct (a_name a); [discriminate|reflexivity].
Qed.

Lemma lookup_forallb {A} (P : bytes * A -> bool) n (acc : list (bytes * A)) v :
  forallb P acc = true -> lookup n acc = Some v -> P (n, v) = true.
Proof.
  induction acc as [|[k w] acc IH]; simpl; [discriminate|].
  intros H. apply andb_true_iff in H. destruct H as [Hk H].
  destruct (beqb n k) eqn:E.
  - apply beqb_eq in E. subst k. intros Hv. inversion Hv. subst. exact Hk.
  - apply IH, H.
Qed.

Lemma insert_forallb {A} (P : bytes * A -> bool) n v (acc : list (bytes * A)) :
  forallb P acc = true -> P (n, v) = true -> forallb P (insert n v acc) = true.
Proof.
  induction acc as [|[k w] acc IH]; simpl; intros H Hv.
  - rewrite Hv. reflexivity.
  - apply andb_true_iff in H. destruct H as [Hk H].
    destruct (beqb n k) eqn:E; simpl.
    + apply beqb_eq in E. subst k. rewrite Hv, H. reflexivity.
    + rewrite Hk, IH by assumption. reflexivity.
Qed.

Lemma collect_step_ok acc a :
  forallb entry_okb acc = true -> rec_okb a = true -> forallb entry_okb (collect_step acc a) = true.
Proof.
  intros Hacc Ha. pose proof (to_tmp_ok a Ha) as Ht.
  assert (Hn : name_ok (a_name a) = true).
  { unfold rec_okb in Ha. apply andb_true_iff in Ha. apply Ha. }
  unfold collect_step.
  destruct (lookup (a_name a) acc) as [olds|] eqn:L.
  - pose proof (lookup_forallb entry_okb _ _ _ Hacc L) as Ho.
    unfold entry_okb in Ho. simpl in Ho. apply andb_true_iff in Ho. destruct Ho as [_ Ho].
    destruct (is_class (a_name a)).
    + destruct (existsb (tmp_eqb (to_tmp a)) olds); [exact Hacc|].
      apply insert_forallb; [exact Hacc|]. unfold entry_okb. simpl.
      rewrite Hn, forallb_app, Ho. simpl. rewrite Ht. reflexivity.
    + apply insert_forallb; [exact Hacc|]. unfold entry_okb. simpl. rewrite Hn, Ht. reflexivity.
  - apply insert_forallb; [exact Hacc|]. unfold entry_okb. simpl. rewrite Hn, Ht. reflexivity.
Qed.

Lemma collect_ok rs : forallb rec_okb rs = true -> forallb entry_okb (collect rs) = true.
Proof.
  unfold collect. generalize (@nil (bytes * list tmpattr)) (eq_refl : forallb entry_okb [] = true).
  induction rs as [|a rs IH]; intros acc Hacc H; simpl; [exact Hacc|].
  simpl in H. apply andb_true_iff in H. destruct H as [Ha H].
  apply IH; [apply collect_step_ok; assumption|exact H].
Qed.

Definition rendered_items (rs : list attr_rec) : list (bytes * bytes) := entry_items (collect rs).

Lemma grammar rs :
  forallb rec_okb rs = true ->
  render_attrs rs = Some (fmt_items (rendered_items rs))
  /\ forallb item_ok (rendered_items rs) = true
  /\ parse_attrs (fmt_items (rendered_items rs)) = Some (decode (rendered_items rs)).
Proof.
  intros H. pose proof (render_entries_items _ (collect_ok rs H)) as [H1 H2].
  split; [exact H1|]. split; [exact H2|]. apply parse_attrs_items, H2.
Qed.


(* ---------- first-occurrence order ---------- *)
Lemma nodup_first_snoc l x :
  nodup_first (l ++ [x]) = if mem x (nodup_first l) then nodup_first l else nodup_first l ++ [x].
Proof. unfold nodup_first. rewrite fold_left_app. reflexivity. Qed.

Lemma mem_app x a b : mem x (a ++ b) = mem x a || mem x b.
Proof. unfold mem. apply existsb_app. Qed.

Lemma mem_nodup_first x l : mem x (nodup_first l) = mem x l.
Proof.
  induction l as [|y l IH] using rev_ind; [reflexivity|].
  rewrite nodup_first_snoc, mem_app.
  destruct (mem y (nodup_first l)) eqn:E.
  - rewrite IH. simpl. rewrite orb_false_r.
    destruct (beqb x y) eqn:B; [|rewrite orb_false_r; reflexivity].
    apply beqb_eq in B. subst y. rewrite <- IH, E. reflexivity.
  - rewrite mem_app, IH. reflexivity.
Qed.

Lemma nodup_first_NoDup l : NoDup (nodup_first l).
Proof.
  induction l as [|y l IH] using rev_ind; [constructor|].
  rewrite nodup_first_snoc. destruct (mem y (nodup_first l)) eqn:E; [exact IH|].
  apply mem_false_In in E. clear - IH E.
  induction (nodup_first l) as [|z r IHr]; simpl.
  - constructor; [intros []|constructor].
  - inversion IH; subst. constructor.
    + rewrite in_app_iff. intros [H|[H|[]]]; [contradiction|]. subst. apply E. left. reflexivity.
    + apply IHr; [assumption|]. intros H. apply E. right. exact H.
Qed.

Lemma nodup_first_In x l : In x (nodup_first l) <-> In x l.
Proof. rewrite <- !mem_In, mem_nodup_first. reflexivity. Qed.

(* ---------- closed form of the map [a] / slice [order] built by __attrs ---------- *)
Definition grp_step (n : bytes) (g : list tmpattr) (a : attr_rec) : list tmpattr :=
  if beqb (a_name a) n then
    (if is_class n then (if existsb (tmp_eqb (to_tmp a)) g then g else g ++ [to_tmp a])
     else [to_tmp a])
  else g.
Definition grp (n : bytes) (rs : list attr_rec) : list tmpattr := fold_left (grp_step n) rs [].
Definition rec_names (rs : list attr_rec) : list bytes := nodup_first (map a_name rs).

Lemma lookup_map {A} (g : bytes -> A) n names :
  lookup n (map (fun m => (m, g m)) names) = if mem n names then Some (g n) else None.
Proof.
  induction names as [|m r IH]; simpl; [reflexivity|].
  destruct (beqb n m) eqn:E; simpl; [|exact IH].
  apply beqb_eq in E. subst. reflexivity.
Qed.

Lemma insert_map_in {A} (g : bytes -> A) n v names :
  NoDup names -> In n names ->
  insert n v (map (fun m => (m, g m)) names) = map (fun m => (m, if beqb n m then v else g m)) names.
Proof.
  induction names as [|m r IH]; intros ND Hin; [destruct Hin|].
  inversion ND as [|? ? Hm NDr]; subst. simpl.
  destruct (beqb n m) eqn:E.
  - apply beqb_eq in E. subst m. f_equal.
    apply map_ext_in. intros m' Hm'.
    destruct (beqb n m') eqn:E'; [|reflexivity].
    apply beqb_eq in E'. subst. contradiction.
  - f_equal. apply IH; [exact NDr|].
    destruct Hin as [->|H]; [rewrite beqb_refl in E; discriminate|exact H].
Qed.

Lemma insert_map_notin {A} (f : bytes -> bytes * A) n v names :
  (forall m, fst (f m) = m) -> mem n names = false ->
  insert n v (map f names) = map f names ++ [(n, v)].
Proof.
  intros Hf. induction names as [|m r IH]; simpl; intros H; [reflexivity|].
  apply orb_false_iff in H. destruct H as [Hm Hr].
  destruct (f m) as [k w] eqn:Fm. pose proof (Hf m) as Hk. rewrite Fm in Hk. simpl in Hk. subst k.
  rewrite Hm. f_equal. apply IH, Hr.
Qed.

Lemma grp_snoc n rs a : grp n (rs ++ [a]) = grp_step n (grp n rs) a.
Proof. unfold grp. rewrite fold_left_app. reflexivity. Qed.

Lemma grp_absent n rs : mem n (map a_name rs) = false -> grp n rs = [].
Proof.
  induction rs as [|a rs IH] using rev_ind; intros H; [reflexivity|].
  rewrite map_app, mem_app in H. apply orb_false_iff in H. destruct H as [H1 H2].
  rewrite grp_snoc, (IH H1). unfold grp_step. simpl in H2. rewrite orb_false_r in H2.
  destruct (beqb (a_name a) n) eqn:E; [|reflexivity].
  apply beqb_eq in E. subst n. rewrite beqb_refl in H2. discriminate.
Qed.

Lemma collect_snoc rs a : collect (rs ++ [a]) = collect_step (collect rs) a.
Proof. unfold collect. rewrite fold_left_app. reflexivity. Qed.

Lemma collect_closed rs : collect rs = map (fun n => (n, grp n rs)) (rec_names rs).
Proof.
  induction rs as [|a rs IH] using rev_ind; [reflexivity|].
  rewrite collect_snoc, IH. unfold rec_names. rewrite map_app. simpl.
  rewrite nodup_first_snoc. fold (rec_names rs).
  unfold collect_step. rewrite lookup_map.
  destruct (mem (a_name a) (rec_names rs)) eqn:M.
  - assert (Hin : In (a_name a) (rec_names rs)) by (apply mem_In, M).
    pose proof (nodup_first_NoDup (map a_name rs)) as ND. fold (rec_names rs) in ND.
    destruct (is_class (a_name a)) eqn:C.
    + destruct (existsb (tmp_eqb (to_tmp a)) (grp (a_name a) rs)) eqn:X.
      * apply map_ext. intros n. rewrite grp_snoc. unfold grp_step.
        destruct (beqb (a_name a) n) eqn:E; [|reflexivity].
        apply beqb_eq in E. subst n. rewrite C, X. reflexivity.
      * rewrite insert_map_in by assumption.
        apply map_ext. intros n. rewrite grp_snoc. unfold grp_step.
        destruct (beqb (a_name a) n) eqn:E; [|reflexivity].
        apply beqb_eq in E. subst n. rewrite C, X. reflexivity.
    + rewrite insert_map_in by assumption.
      apply map_ext. intros n. rewrite grp_snoc. unfold grp_step.
      destruct (beqb (a_name a) n) eqn:E; [|reflexivity].
      apply beqb_eq in E. subst n. rewrite C. reflexivity.
  - rewrite insert_map_notin by (auto). rewrite map_app. simpl.
    f_equal.
    + apply map_ext_in. intros n Hn. rewrite grp_snoc. unfold grp_step.
      destruct (beqb (a_name a) n) eqn:E; [|reflexivity].
      apply beqb_eq in E. subst n. apply mem_In in Hn. rewrite Hn in M. discriminate.
    + rewrite grp_snoc. unfold rec_names in M. rewrite mem_nodup_first in M.
      rewrite (grp_absent _ _ M). unfold grp_step. rewrite beqb_refl.
      destruct (is_class (a_name a)); reflexivity.
Qed.

(* a non-class name keeps only the last record given for it *)
Definition last_named (n : bytes) (rs : list attr_rec) : option attr_rec :=
  fold_left (fun o a => if beqb (a_name a) n then Some a else o) rs None.

Lemma grp_nonclass n rs :
  is_class n = false ->
  grp n rs = match last_named n rs with Some a => [to_tmp a] | None => [] end.
Proof.
  intros C. induction rs as [|a rs IH] using rev_ind; [reflexivity|].
  rewrite grp_snoc. unfold last_named. rewrite fold_left_app. simpl. fold (last_named n rs).
  unfold grp_step. rewrite C. destruct (beqb (a_name a) n); [reflexivity|exact IH].
Qed.

(* class keeps every record given for it, in order, except verbatim repetitions *)
Fixpoint dedup_tmp (l : list tmpattr) (seen : list tmpattr) : list tmpattr :=
  match l with
  | [] => seen
  | t :: r => if existsb (tmp_eqb t) seen then dedup_tmp r seen else dedup_tmp r (seen ++ [t])
  end.

Lemma grp_class_gen n rs : is_class n = true -> forall g,
  fold_left (grp_step n) rs g =
  dedup_tmp (map to_tmp (filter (fun a => beqb (a_name a) n) rs)) g.
Proof.
  intros C. induction rs as [|a rs IH]; intros g; [reflexivity|].
  simpl. rewrite IH. unfold grp_step. rewrite C.
  destruct (beqb (a_name a) n); simpl; [|reflexivity].
  destruct (existsb (tmp_eqb (to_tmp a)) g); reflexivity.
Qed.

Lemma grp_class n rs :
  is_class n = true ->
  grp n rs = dedup_tmp (map to_tmp (filter (fun a => beqb (a_name a) n) rs)) [].
Proof. intros C. apply grp_class_gen, C. Qed.

Lemma beqb_sym a b : beqb a b = beqb b a.
Proof.
  destruct (beqb a b) eqn:E1, (beqb b a) eqn:E2; try reflexivity.
  - apply beqb_eq in E1. subst. rewrite beqb_refl in E2. discriminate.
  - apply beqb_eq in E2. subst. rewrite beqb_refl in E1. discriminate.
Qed.

Lemma tmp_eqb_sym x y : tmp_eqb x y = tmp_eqb y x.
Proof.
  unfold tmp_eqb. rewrite (beqb_sym (t_val x) (t_val y)).
  destruct (t_esc x), (t_esc y), (t_bool x), (t_bool y); reflexivity.
Qed.

Lemma dedup_nodup l : forall seen,
  tmp_nodupb (seen ++ l) = true -> dedup_tmp l seen = seen ++ l.
Proof.
  induction l as [|t l IH]; intros seen H; simpl; [rewrite app_nil_r; reflexivity|].
  assert (X : existsb (tmp_eqb t) seen = false).
  { clear IH. induction seen as [|s seen IHs]; [reflexivity|].
    simpl in H. apply andb_true_iff in H. destruct H as [Hs H].
    simpl. rewrite (IHs H), orb_false_r.
    rewrite existsb_app in Hs. simpl in Hs.
    rewrite tmp_eqb_sym.
    destruct (tmp_eqb s t); [rewrite orb_true_r in Hs; discriminate|reflexivity]. }
  rewrite X. rewrite IH by (rewrite <- app_assoc; exact H). rewrite <- app_assoc. reflexivity.
Qed.


(* ---------- what is rendered, name by name ---------- *)
Definition item_of (n : bytes) (g : list tmpattr) : list (bytes * bytes) :=
  match attr_value (is_class n) g [] with
  | AText t => if is_class n && is_nil t then [] else [(n, t)]
  | _ => []
  end.

Lemma entry_items_map (g : bytes -> list tmpattr) names :
  entry_items (map (fun n => (n, g n)) names) = flat_map (fun n => item_of n (g n)) names.
Proof.
  induction names as [|n r IH]; [reflexivity|]. simpl. unfold item_of.
  destruct (attr_value (is_class n) (g n) []) as [| |t]; simpl; try exact IH.
  destruct (is_class n && is_nil t); simpl; rewrite IH; reflexivity.
Qed.

Lemma rendered_closed rs :
  rendered_items rs = flat_map (fun n => item_of n (grp n rs)) (nodup_first (map a_name rs)).
Proof. unfold rendered_items. rewrite collect_closed. apply entry_items_map. Qed.

Lemma item_of_names n g : forall nv, In nv (item_of n g) -> fst nv = n.
Proof.
  unfold item_of. intros nv. destruct (attr_value (is_class n) g []) as [| |t]; try (intros []).
  destruct (is_class n && is_nil t); [intros []|]. intros [<-|[]]. reflexivity.
Qed.

Lemma item_of_length n g : length (item_of n g) <= 1.
Proof.
  unfold item_of. destruct (attr_value (is_class n) g []) as [| |t]; simpl; try lia.
  destruct (is_class n && is_nil t); simpl; lia.
Qed.

(* every name at most once, in the order of first occurrence *)
Lemma once_in_order rs :
  map fst (rendered_items rs) =
  filter (fun n => negb (is_nil (item_of n (grp n rs)))) (nodup_first (map a_name rs))
  /\ NoDup (map fst (rendered_items rs)).
Proof.
  rewrite rendered_closed.
  assert (E : forall names,
    map fst (flat_map (fun n => item_of n (grp n rs)) names) =
    filter (fun n => negb (is_nil (item_of n (grp n rs)))) names).
  { induction names as [|n r IH]; [reflexivity|]. simpl. rewrite map_app, IH.
    pose proof (item_of_names n (grp n rs)) as Hn. pose proof (item_of_length n (grp n rs)) as Hl.
    destruct (item_of n (grp n rs)) as [|nv [|? ?]]; simpl in *; [reflexivity| |lia].
    rewrite (Hn nv (or_introl eq_refl)). reflexivity. }
  rewrite E. split; [reflexivity|]. apply NoDup_filter. apply nodup_first_NoDup.
Qed.

Lemma go_escape_plain s : forallb plain s = true -> go_escape s = s.
Proof.
  intros H. rewrite go_escape_no_nul; [apply escape_plain, H|].
  unfold no_nul. rewrite forallb_forall in *. intros c Hc. specialize (H c Hc).
  destruct (Ascii.eqb c zero) eqn:E; [|reflexivity]. apply Ascii.eqb_eq in E. subst c. discriminate.
Qed.

(* a name other than class: only the last record counts; false/null/undefined -> omitted,
   true -> name="name", text -> the escaped text *)
Lemma nonclass_item n rs a :
  is_class n = false -> last_named n rs = Some a -> name_ok (a_name a) = true ->
  item_of n (grp n rs) =
  match a_bool a with
  | Some false => []
  | Some true => [(n, a_name a)]
  | None => if a_esc a then [(n, go_escape (a_val a))]
            else match piece (to_tmp a) with Some p => [(n, p)] | None => [] end
  end.
Proof.
  intros C L Hn. rewrite (grp_nonclass n rs C), L. unfold item_of. rewrite C. simpl.
  unfold to_tmp. destruct (a_bool a) as [[|]|]; simpl; [|reflexivity|].
  - unfold piece. simpl. destruct (a_esc a); simpl.
    + rewrite (go_escape_plain _ (name_ok_plain _ Hn)). reflexivity.
    + change (B """") with [""""%char]. simpl.
      destruct (a_name a) as [|c r]; [discriminate|]. simpl.
      rewrite removelast_last.
      destruct (r ++ [""""%char]) eqn:X; [destruct r; discriminate|]. reflexivity.
  - unfold piece. simpl. destruct (a_esc a); simpl; [reflexivity|].
    destruct (a_val a) as [|c rest]; [reflexivity|].
    destruct (Ascii.eqb c """"); [destruct rest; reflexivity|reflexivity].
Qed.

Lemma last_named_name n rs a : last_named n rs = Some a -> a_name a = n /\ In a rs.
Proof.
  induction rs as [|b rs IH] using rev_ind; [discriminate|].
  unfold last_named. rewrite fold_left_app. simpl. fold (last_named n rs).
  destruct (beqb (a_name b) n) eqn:E.
  - intros H. inversion H. subst. apply beqb_eq in E. split; [exact E|]. apply in_or_app. right. left. reflexivity.
  - intros H. destruct (IH H) as [H1 H2]. split; [exact H1|]. apply in_or_app. left. exact H2.
Qed.

(* reading back an escaped value gives the original value *)
Lemma value_roundtrip s : no_nul s = true -> esc_text (go_escape s) = true /\ unescape5 (go_escape s) = s.
Proof.
  intros H. split; [apply esc_text_go_escape|]. rewrite go_escape_no_nul by exact H. apply unesc_escape.
Qed.

(* class keeps all its records, in order (none dropped unless it repeats an earlier one verbatim) *)
Lemma class_accumulates rs :
  let cl := map to_tmp (filter (fun a => beqb (a_name a) (B "class")) rs) in
  grp (B "class") rs = dedup_tmp cl [] /\ (tmp_nodupb cl = true -> grp (B "class") rs = cl).
Proof.
  simpl. split; [apply grp_class; reflexivity|].
  intros H. rewrite grp_class by reflexivity. apply (dedup_nodup _ []). exact H.
Qed.

(* ---------- non-vacuity and the behaviour before the repairs ---------- *)
Definition ex_srcs : list asrc :=
  [ SrcAttr (B "class") (AOne (SStr (B "c1"))) false true;
    SrcAttr (B "href") (AOne (SStr (B "x""<>&'"))) true false;
    SrcAttr (B "n") (AOne (SNum 1)) true true;
    SrcAttr (B "t") (AOne (SBool true)) true true;
    SrcAttr (B "f") (AOne (SBool false)) true false;
    SrcAttr (B "u") (AOne SUndef) true false;
    SrcAttr (B "class") (AArr [SStr (B "x"); SBool false; SStr (B "y"); SNull]) true true;
    SrcAttr (B "href") (AOne (SStr (B " z "))) true true;
    SrcSpread false [(B "k2", AOne (SStr (B "2"))); (B "class", AOne (SStr (B "w"))); (B "k1", AOne SNull);
                     (B "a", AOne (SNum 7))] ].

Example ex_dom : dom_C05 ex_srcs = true.
Proof. vm_compute. reflexivity. Qed.

Example ex_model :
  model_attrs ex_srcs =
  Some (Some (B " class=""c1 x y w"" href="" z "" n=""1"" t=""t"" a=""7"" k2=""2""")).
Proof. vm_compute. reflexivity. Qed.

Example ex_spec :
  attr_spec ex_srcs =
  [(B "class", B "c1 x y w"); (B "href", B " z "); (B "n", B "1"); (B "t", B "t"); (B "a", B "7"); (B "k2", B "2")].
Proof. vm_compute. reflexivity. Qed.

Example ex_spec_holds :
  match model_attrs ex_srcs with
  | Some (Some out) => parse_attrs out = Some (attr_spec ex_srcs)
  | _ => False
  end.
Proof. vm_compute. reflexivity. Qed.

Example ex_hostile :
  render_attrs [lower_attr (B "title") (AOne (SStr (B """><script>alert(1)</script>"))) true false]
  = Some (B " title=""&#34;&gt;&lt;script&gt;alert(1)&lt;/script&gt;""").
Proof. vm_compute. reflexivity. Qed.

Example ex_mixin :
  model_attrs [SrcAttr (B "class") (AOne (SStr (B "own"))) false true;
               SrcMixin [(B "class", AOne (SStr (B "k")), true); (B "t", AOne (SBool true), true);
                         (B "class", AArr [SStr (B "l"); SBool false], true); (B "n", AOne (SNum 4), true);
                         (B "f", AOne SNull, true)]]
  = Some (Some (B " class=""own k l"" n=""4"" t=""t""")).
Proof. vm_compute. reflexivity. Qed.

(* without the domain the order-independence of class repetitions fails: a repeated class source is dropped *)
Example ex_dup_class_outside_domain :
  dom_C05 [SrcAttr (B "class") (AOne (SStr (B "a"))) false true; SrcAttr (B "class") (AOne (SStr (B "a"))) false true] = false.
Proof. vm_compute. reflexivity. Qed.
