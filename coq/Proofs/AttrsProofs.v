(* C05 proofs: escaping and its inverse, the reader on well-formed text, well-formedness of everything
   __attrs renders, the closed form of the name -> entries map it builds, per-name readings, examples. *)
From PV Require Import Base.Bytes Base.Escape Models.Attrs.


(* ---------- escaping ---------- *)
Lemma escape_app a b : escape (a ++ b) = escape a ++ escape b.
Proof. unfold escape. apply flat_map_app. Qed.

Lemma go_escape_app a b : go_escape (a ++ b) = go_escape a ++ go_escape b.
Proof. unfold go_escape. apply flat_map_app. Qed.

Lemma go_escape_no_nul s : no_nul s = true -> go_escape s = escape s.
Proof.
  induction s as [|c s IH]; simpl; intros H; [reflexivity|].
  apply andb_true_iff in H. destruct H as [Hc Hs].
  unfold go_esc_char. destruct (Ascii.eqb c zero); [discriminate|].
  f_equal. apply IH, Hs.
Qed.

Lemma is_special_cases c :
  is_special c = true ->
  c = """"%char \/ c = "'"%char \/ c = "&"%char \/ c = "<"%char \/ c = ">"%char.
Proof.
  unfold is_special. intros H.
  repeat (apply orb_true_iff in H; destruct H as [H|H]);
    apply Ascii.eqb_eq in H; auto.
Qed.

Lemma esc_char_plain c : is_special c = false -> esc_char c = [c].
Proof.
  unfold is_special, esc_char. intros H.
  repeat (apply orb_false_iff in H; destruct H as [H ?]).
  rewrite H. destruct (Ascii.eqb c "'"); [discriminate|].
  destruct (Ascii.eqb c "&"); [discriminate|].
  destruct (Ascii.eqb c "<"); [discriminate|].
  destruct (Ascii.eqb c ">"); [discriminate|]. reflexivity.
Qed.

Lemma not_special_not_amp c : is_special c = false -> Ascii.eqb c "&" = false.
Proof.
  unfold is_special. intros H.
  repeat (apply orb_false_iff in H; destruct H as [H ?]). assumption.
Qed.

Lemma unesc_escape s : unescape5 (escape s) = s.
Proof.
  unfold unescape5. induction s as [|c s IH]; [reflexivity|].
  change (escape (c :: s)) with (esc_char c ++ escape s).
  destruct (is_special c) eqn:E.
  - apply is_special_cases in E.
    destruct E as [->|[->|[->|[->| ->]]]]; simpl; f_equal; exact IH.
  - rewrite (esc_char_plain c E). simpl.
    rewrite (not_special_not_amp c E). f_equal. exact IH.
Qed.

Lemma esc_text_escape s : esc_text (escape s) = true.
Proof.
  induction s as [|c s IH]; [reflexivity|].
  change (escape (c :: s)) with (esc_char c ++ escape s).
  destruct (is_special c) eqn:E.
  - apply is_special_cases in E.
    destruct E as [->|[->|[->|[->| ->]]]]; simpl; exact IH.
  - rewrite (esc_char_plain c E). simpl.
    rewrite (not_special_not_amp c E), E. simpl. exact IH.
Qed.

Lemma prefixb_app p r b : prefixb p r = true -> prefixb p (r ++ b) = true.
Proof.
  intros H. apply prefixb_spec in H. destruct H as [x ->].
  apply prefixb_spec. exists (x ++ b). rewrite app_assoc. reflexivity.
Qed.

Definition is_ref (r : bytes) : bool :=
  prefixb (B "#34;") r || prefixb (B "#39;") r || prefixb (B "amp;") r
  || prefixb (B "lt;") r || prefixb (B "gt;") r.

Lemma esc_text_cons c r :
  esc_text (c :: r) = if Ascii.eqb c "&" then is_ref r && esc_text r else negb (is_special c) && esc_text r.
Proof. reflexivity. Qed.

Lemma is_ref_app r b : is_ref r = true -> is_ref (r ++ b) = true.
Proof.
  unfold is_ref. intros Hp.
  repeat (apply orb_true_iff in Hp; destruct Hp as [Hp|Hp]);
    rewrite (prefixb_app _ _ b Hp); repeat rewrite orb_true_r; reflexivity.
Qed.

Lemma esc_text_app a b : esc_text a = true -> esc_text b = true -> esc_text (a ++ b) = true.
Proof.
  induction a as [|c a IH]; intros Ha Hb; [exact Hb|].
  rewrite <- app_comm_cons. rewrite esc_text_cons in *.
  destruct (Ascii.eqb c "&").
  - apply andb_true_iff in Ha. destruct Ha as [Hp Ha].
    rewrite (IH Ha Hb), (is_ref_app _ b Hp). reflexivity.
  - apply andb_true_iff in Ha. destruct Ha as [Hc Ha].
    rewrite Hc, (IH Ha Hb). reflexivity.
Qed.

(* the NUL replacement U+FFFD consists of three non-special bytes *)
Lemma esc_text_go_escape s : esc_text (go_escape s) = true.
Proof.
  induction s as [|c s IH]; [reflexivity|].
  change (go_escape (c :: s)) with (go_esc_char c ++ go_escape s).
  apply esc_text_app; [|exact IH].
  unfold go_esc_char. destruct (Ascii.eqb c zero); [reflexivity|].
  replace (esc_char c) with (escape [c]) by (simpl; apply app_nil_r).
  apply esc_text_escape.
Qed.

Lemma plain_not_special c : plain c = true -> is_special c = false.
Proof.
  unfold plain. intros H. repeat (apply andb_true_iff in H; destruct H as [H ?]).
  destruct (is_special c); [discriminate|reflexivity].
Qed.

Lemma escape_plain s : forallb plain s = true -> escape s = s.
Proof.
  induction s as [|c s IH]; simpl; intros H; [reflexivity|].
  apply andb_true_iff in H. destruct H as [Hc Hs].
  change (escape (c :: s)) with (esc_char c ++ escape s).
  rewrite (esc_char_plain c (plain_not_special c Hc)), (IH Hs). reflexivity.
Qed.

Lemma esc_text_plain s : forallb plain s = true -> esc_text s = true.
Proof. intros H. rewrite <- (escape_plain s H). apply esc_text_escape. Qed.

Lemma unesc_plain s : forallb plain s = true -> unescape5 s = s.
Proof. intros H. rewrite <- (escape_plain s H) at 1. apply unesc_escape. Qed.


(* ---------- the reader on well-formed text ---------- *)
Definition fmt_items (items : list (bytes * bytes)) : bytes :=
  flat_map (fun nv => fmt_attr (fst nv) (snd nv)) items.

Lemma name_char_plain c : name_char c = true -> plain c = true.
Proof. destruct c as [[] [] [] [] [] [] [] []]; try reflexivity; discriminate. Qed.

Lemma name_char_not_eq c : name_char c = true -> Ascii.eqb c "=" = false.
Proof. destruct c as [[] [] [] [] [] [] [] []]; try reflexivity; discriminate. Qed.

Lemma name_ok_plain n : name_ok n = true -> forallb plain n = true.
Proof.
  unfold name_ok. intros H. apply andb_true_iff in H. destruct H as [_ H].
  rewrite forallb_forall in *. intros c Hc. apply name_char_plain, H, Hc.
Qed.

Lemma parse_name n : forall acc rest out,
  forallb name_char n = true ->
  parse_go (PName acc) (n ++ "="%char :: rest) out =
  if name_ok (rev acc ++ n) then parse_go (PQuote (rev acc ++ n)) rest out else None.
Proof.
  induction n as [|c n IH]; intros acc rest out H.
  - simpl. rewrite app_nil_r. reflexivity.
  - simpl in H. apply andb_true_iff in H. destruct H as [Hc Hn].
    simpl. rewrite (name_char_not_eq c Hc). rewrite IH by exact Hn.
    simpl. rewrite <- app_assoc. reflexivity.
Qed.

Lemma esc_text_no_quote v : esc_text v = true -> forallb (fun c => negb (Ascii.eqb c """")) v = true.
Proof.
  induction v as [|c v IH]; intros H; [reflexivity|].
  rewrite esc_text_cons in H. simpl.
  destruct (Ascii.eqb c "&") eqn:E.
  - apply andb_true_iff in H. destruct H as [_ H]. rewrite (IH H), andb_true_r.
    apply Ascii.eqb_eq in E. subst c. reflexivity.
  - apply andb_true_iff in H. destruct H as [Hc H]. rewrite (IH H), andb_true_r.
    unfold is_special in Hc. destruct (Ascii.eqb c """"); [discriminate|reflexivity].
Qed.

Lemma parse_val v : forall acc name rest out,
  forallb (fun c => negb (Ascii.eqb c """")) v = true ->
  parse_go (PVal name acc) (v ++ """"%char :: rest) out =
  if esc_text (rev acc ++ v)
  then parse_go PStart rest ((name, unescape5 (rev acc ++ v)) :: out) else None.
Proof.
  induction v as [|c v IH]; intros acc name rest out H.
  - simpl. rewrite app_nil_r. reflexivity.
  - simpl in H. apply andb_true_iff in H. destruct H as [Hc Hv].
    simpl. destruct (Ascii.eqb c """"); [discriminate|].
    rewrite IH by exact Hv. simpl. rewrite <- app_assoc. reflexivity.
Qed.

Lemma parse_fmt n v rest out :
  name_ok n = true -> esc_text v = true ->
  parse_go PStart (fmt_attr n v ++ rest) out = parse_go PStart rest ((n, unescape5 v) :: out).
Proof.
  intros Hn Hv. unfold fmt_attr, sp.
  change (B " ") with [" "%char]. change (B "=""") with ["="%char; """"%char]. change (B """") with [""""%char].
  simpl. rewrite <- !app_assoc. simpl.
  rewrite parse_name.
  2:{ unfold name_ok in Hn. apply andb_true_iff in Hn. apply Hn. }
  simpl. rewrite Hn. simpl.
  rewrite <- app_assoc. simpl.
  rewrite parse_val by (apply esc_text_no_quote, Hv).
  simpl. rewrite Hv. reflexivity.
Qed.

Definition item_ok (nv : bytes * bytes) : bool := name_ok (fst nv) && esc_text (snd nv).
Definition decode (items : list (bytes * bytes)) : list (bytes * bytes) :=
  map (fun nv => (fst nv, unescape5 (snd nv))) items.

Lemma parse_items items : forall out,
  forallb item_ok items = true ->
  parse_go PStart (fmt_items items) out = Some (rev out ++ decode items).
Proof.
  induction items as [|[n v] items IH]; intros out H.
  - simpl. rewrite app_nil_r. reflexivity.
  - simpl in H. apply andb_true_iff in H. destruct H as [Hi H].
    unfold item_ok in Hi. simpl in Hi. apply andb_true_iff in Hi. destruct Hi as [Hn Hv].
    change (fmt_items ((n, v) :: items)) with (fmt_attr n v ++ fmt_items items).
    rewrite parse_fmt by assumption. rewrite IH by exact H.
    simpl. rewrite <- app_assoc. reflexivity.
Qed.

Lemma parse_attrs_items items :
  forallb item_ok items = true -> parse_attrs (fmt_items items) = Some (decode items).
Proof. intros H. unfold parse_attrs. rewrite parse_items by exact H. reflexivity. Qed.

(* ---------- rendering yields well-formed text ---------- *)
Definition tmp_okb (t : tmpattr) : bool :=
  t_esc t ||
  match t_val t with
  | [] => false
  | c :: rest => if Ascii.eqb c """" then negb (is_nil rest) && forallb plain (removelast rest) else true
  end.

Lemma piece_ok t : tmp_okb t = true -> exists p, piece t = Some p /\ esc_text p = true.
Proof.
  unfold tmp_okb, piece. destruct (t_esc t); simpl.
  - intros _. eexists; split; [reflexivity|apply esc_text_go_escape].
  - destruct (t_val t) as [|c rest]; [discriminate|].
    destruct (Ascii.eqb c """").
    + destruct rest as [|d rest]; [discriminate|]. simpl. intros H.
      eexists; split; [reflexivity|]. apply esc_text_plain, H.
    + intros _. exists []. split; reflexivity.
Qed.

Lemma attr_value_ok cls vals : forall tmp,
  forallb tmp_okb vals = true -> esc_text tmp = true ->
  match attr_value cls vals tmp with
  | APanic => False | ASkip => True | AText t => esc_text t = true
  end.
Proof.
  induction vals as [|v vals IH]; intros tmp H Ht; simpl; [exact Ht|].
  simpl in H. apply andb_true_iff in H. destruct H as [Hv H].
  destruct (piece_ok v Hv) as [p [Hp Hpe]].
  assert (Hnext : esc_text ((match tmp with [] => [] | _ => tmp ++ sp end) ++ p) = true).
  { apply esc_text_app; [|exact Hpe]. destruct tmp; [reflexivity|]. apply esc_text_app; [exact Ht|reflexivity]. }
  destruct (t_bool v) as [[|]|]; rewrite ?Hp.
  - destruct (cls && is_nil p); apply IH; assumption.
  - destruct cls; [apply IH; assumption|exact I].
  - destruct (cls && is_nil p); apply IH; assumption.
Qed.

Fixpoint entry_items (l : list (bytes * list tmpattr)) : list (bytes * bytes) :=
  match l with
  | [] => []
  | (n, vals) :: r =>
    match attr_value (is_class n) vals [] with
    | AText t => if is_class n && is_nil t then entry_items r else (n, t) :: entry_items r
    | _ => entry_items r
    end
  end.

Definition entry_okb (e : bytes * list tmpattr) : bool := name_ok (fst e) && forallb tmp_okb (snd e).

Lemma render_entries_items l :
  forallb entry_okb l = true ->
  render_entries l = Some (fmt_items (entry_items l)) /\ forallb item_ok (entry_items l) = true.
Proof.
  induction l as [|[n vals] l IH]; intros H; [split; reflexivity|].
  simpl in H. apply andb_true_iff in H. destruct H as [He H].
  unfold entry_okb in He. simpl in He. apply andb_true_iff in He. destruct He as [Hn Hvals].
  destruct (IH H) as [IH1 IH2]. simpl.
  pose proof (attr_value_ok (is_class n) vals [] Hvals eq_refl) as Hav.
  destruct (attr_value (is_class n) vals []) as [| |t]; [contradiction|split; assumption|].
  destruct (is_class n && is_nil t); [split; assumption|].
  rewrite IH1. simpl. split; [reflexivity|].
  unfold item_ok at 1. simpl. rewrite Hn, Hav, IH2. reflexivity.
Qed.

(* records that make well-formed text: proper name; unescaped text only as a quoted run of plain characters *)
Definition rec_okb (a : attr_rec) : bool :=
  name_ok (a_name a) &&
  match a_bool a with
  | Some _ => true
  | None => tmp_okb (to_tmp a)
  end.

Lemma removelast_snoc {A} (l : list A) x : removelast (l ++ [x]) = l.
Proof. apply removelast_last. Qed.

Lemma to_tmp_ok a : rec_okb a = true -> tmp_okb (to_tmp a) = true.
Proof.
  unfold rec_okb. intros H. apply andb_true_iff in H. destruct H as [Hn H].
  unfold to_tmp in *. destruct (a_bool a); [|exact H].
  unfold tmp_okb. simpl. destruct (a_esc a); [reflexivity|]. simpl.
  change (B """") with [""""%char]. simpl.
  rewrite removelast_snoc. rewrite (name_ok_plain _ Hn), andb_true_r.
  destruct (a_name a); [discriminate|reflexivity].
Qed.

Lemma lookup_forallb {A} (P : bytes * A -> bool) n (acc : list (bytes * A)) v :
  forallb P acc = true -> lookup n acc = Some v -> P (n, v) = true.
Proof.
  induction acc as [|[k w] acc IH]; simpl; [discriminate|].
  intros H. apply andb_true_iff in H. destruct H as [Hk H].
  destruct (beqb n k) eqn:E.
  - apply beqb_eq in E. subst k. intros Hv. inversion Hv. subst. exact Hk.
  - apply IH, H.
Qed.

Lemma insert_forallb {A} (P : bytes * A -> bool) n v (acc : list (bytes * A)) :
  forallb P acc = true -> P (n, v) = true -> forallb P (insert n v acc) = true.
Proof.
  induction acc as [|[k w] acc IH]; simpl; intros H Hv.
  - rewrite Hv. reflexivity.
  - apply andb_true_iff in H. destruct H as [Hk H].
    destruct (beqb n k) eqn:E; simpl.
    + apply beqb_eq in E. subst k. rewrite Hv, H. reflexivity.
    + rewrite Hk, IH by assumption. reflexivity.
Qed.

Lemma collect_step_ok acc a :
  forallb entry_okb acc = true -> rec_okb a = true -> forallb entry_okb (collect_step acc a) = true.
Proof.
  intros Hacc Ha. pose proof (to_tmp_ok a Ha) as Ht.
  assert (Hn : name_ok (a_name a) = true).
  { unfold rec_okb in Ha. apply andb_true_iff in Ha. apply Ha. }
  unfold collect_step.
  destruct (lookup (a_name a) acc) as [olds|] eqn:L.
  - pose proof (lookup_forallb entry_okb _ _ _ Hacc L) as Ho.
    unfold entry_okb in Ho. simpl in Ho. apply andb_true_iff in Ho. destruct Ho as [_ Ho].
    destruct (is_class (a_name a)).
    + destruct (existsb (tmp_eqb (to_tmp a)) olds); [exact Hacc|].
      apply insert_forallb; [exact Hacc|]. unfold entry_okb. simpl.
      rewrite Hn, forallb_app, Ho. simpl. rewrite Ht. reflexivity.
    + apply insert_forallb; [exact Hacc|]. unfold entry_okb. simpl. rewrite Hn, Ht. reflexivity.
  - apply insert_forallb; [exact Hacc|]. unfold entry_okb. simpl. rewrite Hn, Ht. reflexivity.
Qed.

Lemma collect_ok rs : forallb rec_okb rs = true -> forallb entry_okb (collect rs) = true.
Proof.
  unfold collect. generalize (@nil (bytes * list tmpattr)) (eq_refl : forallb entry_okb [] = true).
  induction rs as [|a rs IH]; intros acc Hacc H; simpl; [exact Hacc|].
  simpl in H. apply andb_true_iff in H. destruct H as [Ha H].
  apply IH; [apply collect_step_ok; assumption|exact H].
Qed.

Definition rendered_items (rs : list attr_rec) : list (bytes * bytes) := entry_items (collect rs).

Lemma grammar rs :
  forallb rec_okb rs = true ->
  render_attrs rs = Some (fmt_items (rendered_items rs))
  /\ forallb item_ok (rendered_items rs) = true
  /\ parse_attrs (fmt_items (rendered_items rs)) = Some (decode (rendered_items rs)).
Proof.
  intros H. pose proof (render_entries_items _ (collect_ok rs H)) as [H1 H2].
  split; [exact H1|]. split; [exact H2|]. apply parse_attrs_items, H2.
Qed.


(* ---------- first-occurrence order ---------- *)
Lemma nodup_first_snoc l x :
  nodup_first (l ++ [x]) = if mem x (nodup_first l) then nodup_first l else nodup_first l ++ [x].
Proof. unfold nodup_first. rewrite fold_left_app. reflexivity. Qed.

Lemma mem_app x a b : mem x (a ++ b) = mem x a || mem x b.
Proof. unfold mem. apply existsb_app. Qed.

Lemma mem_nodup_first x l : mem x (nodup_first l) = mem x l.
Proof.
  induction l as [|y l IH] using rev_ind; [reflexivity|].
  rewrite nodup_first_snoc, mem_app.
  destruct (mem y (nodup_first l)) eqn:E.
  - rewrite IH. simpl. rewrite orb_false_r.
    destruct (beqb x y) eqn:B; [|rewrite orb_false_r; reflexivity].
    apply beqb_eq in B. subst y. rewrite <- IH, E. reflexivity.
  - rewrite mem_app, IH. reflexivity.
Qed.

Lemma nodup_first_NoDup l : NoDup (nodup_first l).
Proof.
  induction l as [|y l IH] using rev_ind; [constructor|].
  rewrite nodup_first_snoc. destruct (mem y (nodup_first l)) eqn:E; [exact IH|].
  apply mem_false_In in E. clear - IH E.
  induction (nodup_first l) as [|z r IHr]; simpl.
  - constructor; [intros []|constructor].
  - inversion IH; subst. constructor.
    + rewrite in_app_iff. intros [H|[H|[]]]; [contradiction|]. subst. apply E. left. reflexivity.
    + apply IHr; [assumption|]. intros H. apply E. right. exact H.
Qed.

Lemma nodup_first_In x l : In x (nodup_first l) <-> In x l.
Proof. rewrite <- !mem_In, mem_nodup_first. reflexivity. Qed.

(* ---------- closed form of the map [a] / slice [order] built by __attrs ---------- *)
Definition grp_step (n : bytes) (g : list tmpattr) (a : attr_rec) : list tmpattr :=
  if beqb (a_name a) n then
    (if is_class n then (if existsb (tmp_eqb (to_tmp a)) g then g else g ++ [to_tmp a])
     else [to_tmp a])
  else g.
Definition grp (n : bytes) (rs : list attr_rec) : list tmpattr := fold_left (grp_step n) rs [].
Definition rec_names (rs : list attr_rec) : list bytes := nodup_first (map a_name rs).

Lemma lookup_map {A} (g : bytes -> A) n names :
  lookup n (map (fun m => (m, g m)) names) = if mem n names then Some (g n) else None.
Proof.
  induction names as [|m r IH]; simpl; [reflexivity|].
  destruct (beqb n m) eqn:E; simpl; [|exact IH].
  apply beqb_eq in E. subst. reflexivity.
Qed.

Lemma insert_map_in {A} (g : bytes -> A) n v names :
  NoDup names -> In n names ->
  insert n v (map (fun m => (m, g m)) names) = map (fun m => (m, if beqb n m then v else g m)) names.
Proof.
  induction names as [|m r IH]; intros ND Hin; [destruct Hin|].
  inversion ND as [|? ? Hm NDr]; subst. simpl.
  destruct (beqb n m) eqn:E.
  - apply beqb_eq in E. subst m. f_equal.
    apply map_ext_in. intros m' Hm'.
    destruct (beqb n m') eqn:E'; [|reflexivity].
    apply beqb_eq in E'. subst. contradiction.
  - f_equal. apply IH; [exact NDr|].
    destruct Hin as [->|H]; [rewrite beqb_refl in E; discriminate|exact H].
Qed.

Lemma insert_map_notin {A} (f : bytes -> bytes * A) n v names :
  (forall m, fst (f m) = m) -> mem n names = false ->
  insert n v (map f names) = map f names ++ [(n, v)].
Proof.
  intros Hf. induction names as [|m r IH]; simpl; intros H; [reflexivity|].
  apply orb_false_iff in H. destruct H as [Hm Hr].
  destruct (f m) as [k w] eqn:Fm. pose proof (Hf m) as Hk. rewrite Fm in Hk. simpl in Hk. subst k.
  rewrite Hm. f_equal. apply IH, Hr.
Qed.

Lemma grp_snoc n rs a : grp n (rs ++ [a]) = grp_step n (grp n rs) a.
Proof. unfold grp. rewrite fold_left_app. reflexivity. Qed.

Lemma grp_absent n rs : mem n (map a_name rs) = false -> grp n rs = [].
Proof.
  induction rs as [|a rs IH] using rev_ind; intros H; [reflexivity|].
  rewrite map_app, mem_app in H. apply orb_false_iff in H. destruct H as [H1 H2].
  rewrite grp_snoc, (IH H1). unfold grp_step. simpl in H2. rewrite orb_false_r in H2.
  destruct (beqb (a_name a) n) eqn:E; [|reflexivity].
  apply beqb_eq in E. subst n. rewrite beqb_refl in H2. discriminate.
Qed.

Lemma collect_snoc rs a : collect (rs ++ [a]) = collect_step (collect rs) a.
Proof. unfold collect. rewrite fold_left_app. reflexivity. Qed.

Lemma collect_closed rs : collect rs = map (fun n => (n, grp n rs)) (rec_names rs).
Proof.
  induction rs as [|a rs IH] using rev_ind; [reflexivity|].
  rewrite collect_snoc, IH. unfold rec_names. rewrite map_app. simpl.
  rewrite nodup_first_snoc. fold (rec_names rs).
  unfold collect_step. rewrite lookup_map.
  destruct (mem (a_name a) (rec_names rs)) eqn:M.
  - assert (Hin : In (a_name a) (rec_names rs)) by (apply mem_In, M).
    pose proof (nodup_first_NoDup (map a_name rs)) as ND. fold (rec_names rs) in ND.
    destruct (is_class (a_name a)) eqn:C.
    + destruct (existsb (tmp_eqb (to_tmp a)) (grp (a_name a) rs)) eqn:X.
      * apply map_ext. intros n. rewrite grp_snoc. unfold grp_step.
        destruct (beqb (a_name a) n) eqn:E; [|reflexivity].
        apply beqb_eq in E. subst n. rewrite C, X. reflexivity.
      * rewrite insert_map_in by assumption.
        apply map_ext. intros n. rewrite grp_snoc. unfold grp_step.
        destruct (beqb (a_name a) n) eqn:E; [|reflexivity].
        apply beqb_eq in E. subst n. rewrite C, X. reflexivity.
    + rewrite insert_map_in by assumption.
      apply map_ext. intros n. rewrite grp_snoc. unfold grp_step.
      destruct (beqb (a_name a) n) eqn:E; [|reflexivity].
      apply beqb_eq in E. subst n. rewrite C. reflexivity.
  - rewrite insert_map_notin by (auto). rewrite map_app. simpl.
    f_equal.
    + apply map_ext_in. intros n Hn. rewrite grp_snoc. unfold grp_step.
      destruct (beqb (a_name a) n) eqn:E; [|reflexivity].
      apply beqb_eq in E. subst n. apply mem_In in Hn. rewrite Hn in M. discriminate.
    + rewrite grp_snoc. unfold rec_names in M. rewrite mem_nodup_first in M.
      rewrite (grp_absent _ _ M). unfold grp_step. rewrite beqb_refl.
      destruct (is_class (a_name a)); reflexivity.
Qed.

(* a non-class name keeps only the last record given for it *)
Definition last_named (n : bytes) (rs : list attr_rec) : option attr_rec :=
  fold_left (fun o a => if beqb (a_name a) n then Some a else o) rs None.

Lemma grp_nonclass n rs :
  is_class n = false ->
  grp n rs = match last_named n rs with Some a => [to_tmp a] | None => [] end.
Proof.
  intros C. induction rs as [|a rs IH] using rev_ind; [reflexivity|].
  rewrite grp_snoc. unfold last_named. rewrite fold_left_app. simpl. fold (last_named n rs).
  unfold grp_step. rewrite C. destruct (beqb (a_name a) n); [reflexivity|exact IH].
Qed.

(* class keeps every record given for it, in order, except verbatim repetitions *)
Fixpoint dedup_tmp (l : list tmpattr) (seen : list tmpattr) : list tmpattr :=
  match l with
  | [] => seen
  | t :: r => if existsb (tmp_eqb t) seen then dedup_tmp r seen else dedup_tmp r (seen ++ [t])
  end.

Lemma grp_class_gen n rs : is_class n = true -> forall g,
  fold_left (grp_step n) rs g =
  dedup_tmp (map to_tmp (filter (fun a => beqb (a_name a) n) rs)) g.
Proof.
  intros C. induction rs as [|a rs IH]; intros g; [reflexivity|].
  simpl. rewrite IH. unfold grp_step. rewrite C.
  destruct (beqb (a_name a) n); simpl; [|reflexivity].
  destruct (existsb (tmp_eqb (to_tmp a)) g); reflexivity.
Qed.

Lemma grp_class n rs :
  is_class n = true ->
  grp n rs = dedup_tmp (map to_tmp (filter (fun a => beqb (a_name a) n) rs)) [].
Proof. intros C. apply grp_class_gen, C. Qed.

Lemma beqb_sym a b : beqb a b = beqb b a.
Proof.
  destruct (beqb a b) eqn:E1, (beqb b a) eqn:E2; try reflexivity.
  - apply beqb_eq in E1. subst. rewrite beqb_refl in E2. discriminate.
  - apply beqb_eq in E2. subst. rewrite beqb_refl in E1. discriminate.
Qed.

Lemma tmp_eqb_sym x y : tmp_eqb x y = tmp_eqb y x.
Proof.
  unfold tmp_eqb. rewrite (beqb_sym (t_val x) (t_val y)).
  destruct (t_esc x), (t_esc y), (t_bool x), (t_bool y); reflexivity.
Qed.

Lemma dedup_nodup l : forall seen,
  tmp_nodupb (seen ++ l) = true -> dedup_tmp l seen = seen ++ l.
Proof.
  induction l as [|t l IH]; intros seen H; simpl; [rewrite app_nil_r; reflexivity|].
  assert (X : existsb (tmp_eqb t) seen = false).
  { clear IH. induction seen as [|s seen IHs]; [reflexivity|].
    simpl in H. apply andb_true_iff in H. destruct H as [Hs H].
    simpl. rewrite (IHs H), orb_false_r.
    rewrite existsb_app in Hs. simpl in Hs.
    rewrite tmp_eqb_sym.
    destruct (tmp_eqb s t); [rewrite orb_true_r in Hs; discriminate|reflexivity]. }
  rewrite X. rewrite IH by (rewrite <- app_assoc; exact H). rewrite <- app_assoc. reflexivity.
Qed.


(* ---------- what is rendered, name by name ---------- *)
Definition item_of (n : bytes) (g : list tmpattr) : list (bytes * bytes) :=
  match attr_value (is_class n) g [] with
  | AText t => if is_class n && is_nil t then [] else [(n, t)]
  | _ => []
  end.

Lemma entry_items_map (g : bytes -> list tmpattr) names :
  entry_items (map (fun n => (n, g n)) names) = flat_map (fun n => item_of n (g n)) names.
Proof.
  induction names as [|n r IH]; [reflexivity|]. simpl. unfold item_of.
  destruct (attr_value (is_class n) (g n) []) as [| |t]; simpl; try exact IH.
  destruct (is_class n && is_nil t); simpl; rewrite IH; reflexivity.
Qed.

Lemma rendered_closed rs :
  rendered_items rs = flat_map (fun n => item_of n (grp n rs)) (nodup_first (map a_name rs)).
Proof. unfold rendered_items. rewrite collect_closed. apply entry_items_map. Qed.

Lemma item_of_names n g : forall nv, In nv (item_of n g) -> fst nv = n.
Proof.
  unfold item_of. intros nv. destruct (attr_value (is_class n) g []) as [| |t]; try (intros []).
  destruct (is_class n && is_nil t); [intros []|]. intros [<-|[]]. reflexivity.
Qed.

Lemma item_of_length n g : length (item_of n g) <= 1.
Proof.
  unfold item_of. destruct (attr_value (is_class n) g []) as [| |t]; simpl; try lia.
  destruct (is_class n && is_nil t); simpl; lia.
Qed.

(* every name at most once, in the order of first occurrence *)
Lemma once_in_order rs :
  map fst (rendered_items rs) =
  filter (fun n => negb (is_nil (item_of n (grp n rs)))) (nodup_first (map a_name rs))
  /\ NoDup (map fst (rendered_items rs)).
Proof.
  rewrite rendered_closed.
  assert (E : forall names,
    map fst (flat_map (fun n => item_of n (grp n rs)) names) =
    filter (fun n => negb (is_nil (item_of n (grp n rs)))) names).
  { induction names as [|n r IH]; [reflexivity|]. simpl. rewrite map_app, IH.
    pose proof (item_of_names n (grp n rs)) as Hn. pose proof (item_of_length n (grp n rs)) as Hl.
    destruct (item_of n (grp n rs)) as [|nv [|? ?]]; simpl in *; [reflexivity| |lia].
    rewrite (Hn nv (or_introl eq_refl)). reflexivity. }
  rewrite E. split; [reflexivity|]. apply NoDup_filter. apply nodup_first_NoDup.
Qed.

Lemma go_escape_plain s : forallb plain s = true -> go_escape s = s.
Proof.
  intros H. rewrite go_escape_no_nul; [apply escape_plain, H|].
  unfold no_nul. rewrite forallb_forall in *. intros c Hc. specialize (H c Hc).
  destruct (Ascii.eqb c zero) eqn:E; [|reflexivity]. apply Ascii.eqb_eq in E. subst c. discriminate.
Qed.

(* a name other than class: only the last record counts; false/null/undefined -> omitted,
   true -> name="name", text -> the escaped text *)
Lemma nonclass_item n rs a :
  is_class n = false -> last_named n rs = Some a -> name_ok (a_name a) = true ->
  item_of n (grp n rs) =
  match a_bool a with
  | Some false => []
  | Some true => [(n, a_name a)]
  | None => if a_esc a then [(n, go_escape (a_val a))]
            else match piece (to_tmp a) with Some p => [(n, p)] | None => [] end
  end.
Proof.
  intros C L Hn. rewrite (grp_nonclass n rs C), L. unfold item_of. rewrite C. simpl.
  unfold to_tmp. destruct (a_bool a) as [[|]|]; simpl; [|reflexivity|].
  - unfold piece. simpl. destruct (a_esc a); simpl.
    + rewrite (go_escape_plain _ (name_ok_plain _ Hn)). reflexivity.
    + change (B """") with [""""%char]. simpl.
      destruct (a_name a) as [|c r]; [discriminate|]. simpl.
      rewrite removelast_last.
      destruct (r ++ [""""%char]) eqn:X; [destruct r; discriminate|]. reflexivity.
  - unfold piece. simpl. destruct (a_esc a); simpl; [reflexivity|].
    destruct (a_val a) as [|c rest]; [reflexivity|].
    destruct (Ascii.eqb c """"); [destruct rest; reflexivity|reflexivity].
Qed.

Lemma last_named_name n rs a : last_named n rs = Some a -> a_name a = n /\ In a rs.
Proof.
  induction rs as [|b rs IH] using rev_ind; [discriminate|].
  unfold last_named. rewrite fold_left_app. simpl. fold (last_named n rs).
  destruct (beqb (a_name b) n) eqn:E.
  - intros H. inversion H. subst. apply beqb_eq in E. split; [exact E|]. apply in_or_app. right. left. reflexivity.
  - intros H. destruct (IH H) as [H1 H2]. split; [exact H1|]. apply in_or_app. left. exact H2.
Qed.

(* reading back an escaped value gives the original value *)
Lemma value_roundtrip s : no_nul s = true -> esc_text (go_escape s) = true /\ unescape5 (go_escape s) = s.
Proof.
  intros H. split; [apply esc_text_go_escape|]. rewrite go_escape_no_nul by exact H. apply unesc_escape.
Qed.

(* class keeps all its records, in order (none dropped unless it repeats an earlier one verbatim) *)
Lemma class_accumulates rs :
  let cl := map to_tmp (filter (fun a => beqb (a_name a) (B "class")) rs) in
  grp (B "class") rs = dedup_tmp cl [] /\ (tmp_nodupb cl = true -> grp (B "class") rs = cl).
Proof.
  simpl. split; [apply grp_class; reflexivity|].
  intros H. rewrite grp_class by reflexivity. apply (dedup_nodup _ []). exact H.
Qed.

(* ---------- non-vacuity and the behaviour before the repairs ---------- *)
Definition ex_srcs : list asrc :=
  [ SrcAttr (B "class") (AOne (SStr (B "c1"))) false true;
    SrcAttr (B "href") (AOne (SStr (B "x""<>&'"))) true false;
    SrcAttr (B "n") (AOne (SNum 1)) true true;
    SrcAttr (B "t") (AOne (SBool true)) true true;
    SrcAttr (B "f") (AOne (SBool false)) true false;
    SrcAttr (B "u") (AOne SUndef) true false;
    SrcAttr (B "class") (AArr [SStr (B "x"); SBool false; SStr (B "y"); SNull]) true true;
    SrcAttr (B "href") (AOne (SStr (B " z "))) true true;
    SrcSpread false [(B "k2", AOne (SStr (B "2"))); (B "class", AOne (SStr (B "w"))); (B "k1", AOne SNull);
                     (B "a", AOne (SNum 7))] ].

Example ex_dom : dom_C05 ex_srcs = true.
Proof. vm_compute. reflexivity. Qed.

Example ex_model :
  model_attrs ex_srcs =
  Some (Some (B " class=""c1 x y w"" href="" z "" n=""1"" t=""t"" a=""7"" k2=""2""")).
Proof. vm_compute. reflexivity. Qed.

Example ex_spec :
  attr_spec ex_srcs =
  [(B "class", B "c1 x y w"); (B "href", B " z "); (B "n", B "1"); (B "t", B "t"); (B "a", B "7"); (B "k2", B "2")].
Proof. vm_compute. reflexivity. Qed.

Example ex_spec_holds :
  match model_attrs ex_srcs with
  | Some (Some out) => parse_attrs out = Some (attr_spec ex_srcs)
  | _ => False
  end.
Proof. vm_compute. reflexivity. Qed.

Example ex_hostile :
  render_attrs [lower_attr (B "title") (AOne (SStr (B """><script>alert(1)</script>"))) true false]
  = Some (B " title=""&#34;&gt;&lt;script&gt;alert(1)&lt;/script&gt;""").
Proof. vm_compute. reflexivity. Qed.

Example ex_mixin :
  model_attrs [SrcAttr (B "class") (AOne (SStr (B "own"))) false true;
               SrcMixin [(B "class", AOne (SStr (B "k")), true); (B "t", AOne (SBool true), true);
                         (B "class", AArr [SStr (B "l"); SBool false], true); (B "n", AOne (SNum 4), true);
                         (B "f", AOne SNull, true)]]
  = Some (Some (B " class=""own k l"" n=""4"" t=""t""")).
Proof. vm_compute. reflexivity. Qed.

(* without the domain the order-independence of class repetitions fails: a repeated class source is dropped *)
Example ex_dup_class_outside_domain :
  dom_C05 [SrcAttr (B "class") (AOne (SStr (B "a"))) false true; SrcAttr (B "class") (AOne (SStr (B "a"))) false true] = false.
Proof. vm_compute. reflexivity. Qed.


(* ====================================================================== source level: C05_spec, C05_class_merge,
   C05_spread_order (appended; everything above is unchanged) *)
From Coq Require Import Permutation Sorted.

(* ---------- definitions used in the statements of C05_spec / C05_class_merge / C05_spread_order ----------
   (kept here and not in Models/Attrs.v: that file is upstream of Tmpl/Runtime.v and so of most other properties' builds;
   no existing definition changes) *)
(* the reader of the property statement: the one the judge uses *)
Definition read_attrs (s : bytes) : option (list (bytes * bytes)) := parse_attrs s.

(* closed form of the joined class text: the pieces joined by one space, empty pieces dropped *)
Definition cat_sp (a b : bytes) : bytes :=
  match a, b with
  | [], _ => b
  | _, [] => a
  | _, _ => a ++ sp ++ b
  end.
Definition joinne (l : list bytes) : bytes := fold_right cat_sp [] l.

(* what one class entry contributes: a false entry and an empty text contribute nothing *)
Definition cls_piece (t : tmpattr) : option bytes :=
  match t_bool t with Some false => Some [] | _ => piece t end.

(* the class text the property demands for the values given for class, in source order *)
Definition class_text (vs : list aval) : bytes := joinne (flat_map class_tokens vs).

(* __and_attrs on one key whose Member is o *)
Definition and_rec (k : bytes) (o : obj) : attr_rec :=
  match o with
  | OBool b => {| a_name := k; a_val := if b then B "true" else B "false"; a_esc := true; a_bool := Some b |}
  | ONil => {| a_name := k; a_val := []; a_esc := true; a_bool := Some false |}
  | v => {| a_name := k; a_val := if is_class k then class_names v else obj_string v;
            a_esc := true; a_bool := None |}
  end.

(* one array item of classNames *)
Definition item_toks (item : obj) : list bytes :=
  match item with
  | ONil => []
  | OBool false => []
  | _ => match class_names item with [] => [] | n => [n] end
  end.
Definition item_text (item : obj) : bytes :=
  match item with
  | ONil => []
  | OBool false => []
  | _ => class_names item
  end.

(* Map.Keys before the repair F-C05-c: the Go map's iteration order *)
Definition and_attrs_iter (m : gmap) : list attr_rec := map (and_attr_one m) (keys (m_items m)).

(* src_ok without the restriction of unescaped attributes to string literals (F-C05-d) *)
Definition src_ok_d (s : asrc) : bool :=
  match s with
  | SrcAttr n v esc lit => name_ok n && value_ok n v && aval_modelled lit v
  | _ => src_ok s
  end.

(* the statement of C05_spec for one source list *)
Definition spec_holds (srcs : list asrc) : Prop :=
  exists text, model_attrs srcs = Some (Some text) /\ read_attrs text = Some (attr_spec srcs).

(* ====================================================================== C05_spec *)
(* ---------- joinne: join by one space, dropping empty pieces ---------- *)
Lemma cat_sp_nil_r a : cat_sp a [] = a.
Proof. destruct a; reflexivity. Qed.

Lemma cat_sp_ne a b : a <> [] -> b <> [] -> cat_sp a b = a ++ sp ++ b.
Proof. destruct a, b; intros Ha Hb; try congruence. reflexivity. Qed.

Lemma cat_sp_nonnil_l a b : a <> [] -> cat_sp a b <> [].
Proof. destruct a as [|x a]; [congruence|]. intros _. destruct b; discriminate. Qed.

Lemma cat_sp_nonnil_r a b : b <> [] -> cat_sp a b <> [].
Proof. destruct b as [|y b]; [congruence|]. intros _. destruct a; discriminate. Qed.

Lemma cat_sp_assoc a b c : cat_sp (cat_sp a b) c = cat_sp a (cat_sp b c).
Proof.
  destruct a as [|x a]; [reflexivity|].
  destruct b as [|y b]; [reflexivity|].
  destruct c as [|z c].
  - rewrite !cat_sp_nil_r. reflexivity.
  - rewrite (cat_sp_ne (x :: a) (y :: b)) by discriminate.
    rewrite (cat_sp_ne (y :: b) (z :: c)) by discriminate.
    rewrite cat_sp_ne; [|discriminate|discriminate].
    rewrite cat_sp_ne; [|discriminate|discriminate].
    rewrite <- !app_assoc. reflexivity.
Qed.

Lemma joinne_app l1 l2 : joinne (l1 ++ l2) = cat_sp (joinne l1) (joinne l2).
Proof.
  induction l1 as [|x l1 IH]; [reflexivity|].
  simpl. rewrite IH, cat_sp_assoc. reflexivity.
Qed.

Lemma joinne_flat_map {A} (f : A -> list bytes) l :
  joinne (flat_map f l) = joinne (map (fun x => joinne (f x)) l).
Proof.
  induction l as [|x l IH]; [reflexivity|].
  simpl. rewrite joinne_app, IH. reflexivity.
Qed.

Definition nonnil (x : bytes) : bool := negb (is_nil x).

Lemma nonnil_spec x : nonnil x = true <-> x <> [].
Proof.
  destruct x; unfold nonnil; simpl; split; intros H; try discriminate; try reflexivity.
  exfalso. apply H. reflexivity.
Qed.

Lemma joinne_nonnil l : forallb nonnil l = true -> l <> [] -> joinne l <> [].
Proof.
  destruct l as [|x l]; [intros _ H; congruence|]. simpl. intros H _.
  apply andb_true_iff in H. destruct H as [Hx _].
  apply cat_sp_nonnil_l, nonnil_spec, Hx.
Qed.

Lemma join_joinne l : forallb nonnil l = true -> join sp l = joinne l.
Proof.
  induction l as [|x l IH]; [reflexivity|].
  intros H. simpl in H. apply andb_true_iff in H. destruct H as [Hx Hl].
  destruct l as [|y l].
  - simpl. rewrite cat_sp_nil_r. reflexivity.
  - change (join sp (x :: y :: l)) with (x ++ sp ++ join sp (y :: l)).
    change (joinne (x :: y :: l)) with (cat_sp x (joinne (y :: l))).
    rewrite (IH Hl). rewrite cat_sp_ne; [reflexivity|apply nonnil_spec, Hx|].
    apply joinne_nonnil; [exact Hl|discriminate].
Qed.

Lemma forallb_app_true {A} (f : A -> bool) l1 l2 :
  forallb f l1 = true -> forallb f l2 = true -> forallb f (l1 ++ l2) = true.
Proof. intros H1 H2. rewrite forallb_app, H1, H2. reflexivity. Qed.

Lemma forallb_flat_map {A B} (f : B -> bool) (g : A -> list B) l :
  (forall x, In x l -> forallb f (g x) = true) -> forallb f (flat_map g l) = true.
Proof.
  induction l as [|x l IH]; intros H; [reflexivity|].
  simpl. apply forallb_app_true; [apply H; left; reflexivity|].
  apply IH. intros y Hy. apply H. right. exact Hy.
Qed.

(* ---------- escaping commutes with joining ---------- *)
Lemma escape_nonnil s : s <> [] -> escape s <> [].
Proof.
  destruct s as [|c s]; [congruence|]. intros _.
  change (escape (c :: s)) with (esc_char c ++ escape s).
  unfold esc_char.
  destruct (Ascii.eqb c """"); [discriminate|].
  destruct (Ascii.eqb c "'"); [discriminate|].
  destruct (Ascii.eqb c "&"); [discriminate|].
  destruct (Ascii.eqb c "<"); [discriminate|].
  destruct (Ascii.eqb c ">"); discriminate.
Qed.

Lemma escape_cat_sp a b : escape (cat_sp a b) = cat_sp (escape a) (escape b).
Proof.
  destruct a as [|x a]; [reflexivity|].
  destruct b as [|y b].
  - rewrite !cat_sp_nil_r. reflexivity.
  - rewrite cat_sp_ne by discriminate.
    rewrite cat_sp_ne by (apply escape_nonnil; discriminate).
    rewrite !escape_app. reflexivity.
Qed.

Lemma escape_joinne l : escape (joinne l) = joinne (map escape l).
Proof.
  induction l as [|x l IH]; [reflexivity|].
  simpl. rewrite escape_cat_sp, IH. reflexivity.
Qed.

Lemma no_nul_app a b : no_nul a = true -> no_nul b = true -> no_nul (a ++ b) = true.
Proof. unfold no_nul. apply forallb_app_true. Qed.

Lemma no_nul_cat_sp a b : no_nul a = true -> no_nul b = true -> no_nul (cat_sp a b) = true.
Proof.
  intros Ha Hb. destruct a as [|x a]; [exact Hb|]. destruct b as [|y b]; [exact Ha|].
  rewrite cat_sp_ne by discriminate. apply no_nul_app; [exact Ha|]. apply no_nul_app; [reflexivity|exact Hb].
Qed.

Lemma no_nul_joinne l : forallb no_nul l = true -> no_nul (joinne l) = true.
Proof.
  induction l as [|x l IH]; [reflexivity|]. simpl. intros H.
  apply andb_true_iff in H. destruct H as [Hx Hl]. apply no_nul_cat_sp; [exact Hx|apply IH, Hl].
Qed.

(* ---------- the class text __attrs renders, in closed form (C05_class_merge) ---------- *)
Lemma class_merge vals : forall ps tmp,
  map cls_piece vals = map Some ps ->
  attr_value true vals tmp = AText (cat_sp tmp (joinne ps)).
Proof.
  induction vals as [|v vals IH]; intros ps tmp H.
  - destruct ps; [|discriminate]. simpl. rewrite cat_sp_nil_r. reflexivity.
  - destruct ps as [|p ps]; [discriminate|]. simpl in H. inversion H as [[Hp Hps]]. clear H.
    change (joinne (p :: ps)) with (cat_sp p (joinne ps)).
    simpl. unfold cls_piece in Hp.
    assert (Hskip : p = [] -> attr_value true vals tmp = AText (cat_sp tmp (cat_sp p (joinne ps)))).
    { intros ->. rewrite (IH ps tmp Hps). reflexivity. }
    assert (Htext : piece v = Some p ->
            (if true && is_nil p then attr_value true vals tmp
             else attr_value true vals ((match tmp with [] => [] | _ => tmp ++ sp end) ++ p))
            = AText (cat_sp tmp (cat_sp p (joinne ps)))).
    { intros _. destruct p as [|c p]; [apply Hskip; reflexivity|]. simpl andb. cbv iota.
      rewrite (IH ps _ Hps). rewrite <- cat_sp_assoc. f_equal. f_equal.
      destruct tmp as [|t tmp]; [reflexivity|].
      rewrite cat_sp_ne by discriminate. rewrite <- app_assoc. reflexivity. }
    destruct (t_bool v) as [[|]|].
    + rewrite Hp. apply Htext, Hp.
    + apply Hskip. congruence.
    + rewrite Hp. apply Htext, Hp.
Qed.

(* ---------- decimal digits are plain characters ---------- *)
Lemma digit_plain m : (m < 10)%N -> plain (digit m) = true.
Proof.
  intros H. destruct m as [|p]; [reflexivity|].
  do 4 (try destruct p as [p|p|]); try reflexivity; exfalso; lia.
Qed.

Lemma show_N_fuel_plain fuel : forall n acc,
  forallb plain acc = true -> forallb plain (show_N_fuel fuel n acc) = true.
Proof.
  induction fuel as [|f IH]; intros n acc H; [exact H|].
  simpl.
  assert (Hd : forallb plain (digit (n mod 10) :: acc) = true).
  { simpl. rewrite H, digit_plain; [reflexivity|]. apply N.mod_lt. discriminate. }
  destruct (N.ltb n 10); [exact Hd|]. apply IH, Hd.
Qed.

Lemma show_Z_plain z : forallb plain (show_Z z) = true.
Proof.
  destruct z as [|p|p]; [reflexivity| |].
  - apply show_N_fuel_plain. reflexivity.
  - simpl. apply show_N_fuel_plain. reflexivity.
Qed.

Lemma show_N_fuel_nonnil fuel : forall n acc, acc <> [] -> show_N_fuel fuel n acc <> [].
Proof.
  induction fuel as [|f IH]; intros n acc H; [exact H|].
  simpl. destruct (N.ltb n 10); [discriminate|]. apply IH. discriminate.
Qed.

Lemma show_Z_nonnil z : show_Z z <> [].
Proof.
  destruct z as [|p|p]; [discriminate| |discriminate].
  unfold show_Z, show_N. simpl show_N_fuel.
  destruct (N.ltb (N.pos p) 10); [discriminate|]. apply show_N_fuel_nonnil. discriminate.
Qed.

Lemma plain_no_nul s : forallb plain s = true -> no_nul s = true.
Proof.
  intros H. unfold no_nul. rewrite forallb_forall in *. intros c Hc. specialize (H c Hc).
  destruct (Ascii.eqb c zero) eqn:E; [|reflexivity]. apply Ascii.eqb_eq in E. subst c. discriminate.
Qed.

(* ---------- classNames in closed form ---------- *)
Lemma class_names_arr_unfold l : class_names (OArr l) = join sp (flat_map item_toks l).
Proof. reflexivity. Qed.

Lemma item_toks_nonnil item : forallb nonnil (item_toks item) = true.
Proof.
  unfold item_toks.
  assert (H : forallb nonnil (match class_names item with [] => [] | n => [n] end) = true)
    by (destruct (class_names item); reflexivity).
  destruct item as [s|z|[|]| |l]; try exact H; reflexivity.
Qed.

Lemma item_toks_text item : joinne (item_toks item) = item_text item.
Proof.
  unfold item_toks, item_text.
  assert (H : joinne (match class_names item with [] => [] | n => [n] end) = class_names item)
    by (destruct (class_names item); reflexivity).
  destruct item as [s|z|[|]| |l]; try exact H; reflexivity.
Qed.

Lemma class_names_arr l : class_names (OArr l) = joinne (map item_text l).
Proof.
  rewrite class_names_arr_unfold, join_joinne.
  - rewrite joinne_flat_map. f_equal. apply map_ext. intros item. apply item_toks_text.
  - apply forallb_flat_map. intros item _. apply item_toks_nonnil.
Qed.

(* tokens of a class value in the domain: non-empty, without NUL *)
Definition tok_ok (t : bytes) : bool := nonnil t && no_nul t.

Lemma scalar_tokens_ok s : scalar_ok s = true -> forallb tok_ok (scalar_tokens s) = true.
Proof.
  destruct s as [s|z|b| |]; intros H; try reflexivity.
  - destruct s as [|c s]; [reflexivity|]. simpl in *. unfold tok_ok. simpl nonnil.
    simpl. simpl in H. rewrite H. reflexivity.
  - simpl. unfold tok_ok. rewrite (plain_no_nul _ (show_Z_plain z)).
    destruct (show_Z z) eqn:E; [exfalso; exact (show_Z_nonnil z E)|reflexivity].
Qed.

Lemma class_scalar_ok_scalar s : class_scalar_ok s = true -> scalar_ok s = true.
Proof. unfold class_scalar_ok. intros H. apply andb_true_iff in H. apply H. Qed.

Lemma class_tokens_ok v :
  forallb class_scalar_ok (aval_scalars v) = true -> forallb tok_ok (class_tokens v) = true.
Proof.
  intros H. unfold class_tokens. apply forallb_flat_map. intros s Hs.
  apply scalar_tokens_ok, class_scalar_ok_scalar. rewrite forallb_forall in H. apply H, Hs.
Qed.

Lemma tok_ok_nonnil l : forallb tok_ok l = true -> forallb nonnil l = true.
Proof.
  rewrite !forallb_forall. intros H x Hx. specialize (H x Hx). unfold tok_ok in H.
  apply andb_true_iff in H. apply H.
Qed.

Lemma tok_ok_no_nul l : forallb tok_ok l = true -> forallb no_nul l = true.
Proof.
  rewrite !forallb_forall. intros H x Hx. specialize (H x Hx). unfold tok_ok in H.
  apply andb_true_iff in H. apply H.
Qed.

Lemma item_text_scalar s :
  class_scalar_ok s = true -> item_text (scalar_obj s) = joinne (scalar_tokens s).
Proof.
  destruct s as [s|z|[|]| |]; intros H; try reflexivity; try discriminate.
  - destruct s; reflexivity.
  - simpl. rewrite cat_sp_nil_r. reflexivity.
Qed.

Lemma item_text_aval v :
  forallb class_scalar_ok (aval_scalars v) = true -> item_text (aval_obj v) = joinne (class_tokens v).
Proof.
  destruct v as [s|l]; intros H.
  - simpl in H. apply andb_true_iff in H. destruct H as [H _].
    unfold class_tokens. simpl. rewrite app_nil_r. apply item_text_scalar, H.
  - simpl in H. change (item_text (aval_obj (AArr l))) with (class_names (OArr (map scalar_obj l))).
    rewrite class_names_arr, map_map. unfold class_tokens. simpl aval_scalars.
    rewrite joinne_flat_map. f_equal. apply map_ext_in. intros s Hs.
    apply item_text_scalar. rewrite forallb_forall in H. apply H, Hs.
Qed.

(* the class text of a value that is not false/null/undefined (these become bool records) *)
Lemma class_names_item o :
  match o with OBool _ => False | ONil => False | _ => True end -> class_names o = item_text o.
Proof. destruct o; intros H; try reflexivity; destruct H. Qed.

Lemma flat_map_flat_map {A B C} (f : B -> list C) (g : A -> list B) l :
  flat_map f (flat_map g l) = flat_map (fun x => flat_map f (g x)) l.
Proof.
  induction l as [|x l IH]; [reflexivity|]. simpl. rewrite flat_map_app, IH. reflexivity.
Qed.

(* the values of a repeated class attribute of a mixin call: __op__map_params makes an array of them *)
Lemma class_names_group vs :
  Forall (fun v => forallb class_scalar_ok (aval_scalars v) = true) vs ->
  class_names (OArr (map aval_obj vs)) = joinne (class_tokens (AArr (flat_map aval_scalars vs))).
Proof.
  intros H. rewrite class_names_arr, map_map.
  unfold class_tokens at 1. simpl aval_scalars. rewrite flat_map_flat_map.
  rewrite joinne_flat_map. f_equal. apply map_ext_in. intros v Hv.
  rewrite Forall_forall in H. apply item_text_aval, H, Hv.
Qed.

(* ---------- what one record means for the source value it was made from ---------- *)
Definition olist (n : bytes) (o : option bytes) : list (bytes * bytes) :=
  match o with Some v => [(n, v)] | None => [] end.

Definition rec_sem (kv : bytes * aval) (a : attr_rec) : Prop :=
  a_name a = fst kv /\ rec_okb a = true /\
  (is_class (fst kv) = true ->
   cls_piece (to_tmp a) = Some (escape (joinne (class_tokens (snd kv))))) /\
  (is_class (fst kv) = false ->
   decode (item_of (fst kv) [to_tmp a]) = olist (fst kv) (value_text (fst kv) (snd kv))).

(* an escaped text record *)
Lemma sem_text k v x :
  name_ok k = true -> no_nul x = true ->
  (is_class k = true -> x = joinne (class_tokens v)) ->
  (is_class k = false -> value_text k v = Some x) ->
  rec_sem (k, v) {| a_name := k; a_val := x; a_esc := true; a_bool := None |}.
Proof.
  intros Hk Hx Hc Hn. unfold rec_sem. simpl fst. simpl snd. simpl a_name.
  split; [reflexivity|]. split.
  { unfold rec_okb. simpl. rewrite Hk. reflexivity. }
  split.
  - intros C. unfold cls_piece, to_tmp, piece. simpl.
    rewrite go_escape_no_nul by exact Hx. rewrite (Hc C). reflexivity.
  - intros C. rewrite (Hn C). unfold item_of, to_tmp. rewrite C. simpl.
    rewrite go_escape_no_nul by exact Hx. rewrite unesc_escape. reflexivity.
Qed.

(* a record for false / null / undefined *)
Lemma sem_false k v x e :
  name_ok k = true ->
  (is_class k = true -> class_tokens v = []) ->
  (is_class k = false -> value_text k v = None) ->
  rec_sem (k, v) {| a_name := k; a_val := x; a_esc := e; a_bool := Some false |}.
Proof.
  intros Hk Hc Hn. unfold rec_sem. simpl fst. simpl snd. simpl a_name.
  split; [reflexivity|]. split.
  { unfold rec_okb. simpl. rewrite Hk. reflexivity. }
  split.
  - intros C. rewrite (Hc C). reflexivity.
  - intros C. rewrite (Hn C). unfold item_of, to_tmp. rewrite C. reflexivity.
Qed.

(* a record for true under a name other than class *)
Lemma sem_true k v x e :
  name_ok k = true -> is_class k = false -> value_text k v = Some k ->
  rec_sem (k, v) {| a_name := k; a_val := x; a_esc := e; a_bool := Some true |}.
Proof.
  intros Hk C Hn. unfold rec_sem. simpl fst. simpl snd. simpl a_name.
  split; [reflexivity|]. split.
  { unfold rec_okb. simpl. rewrite Hk. reflexivity. }
  split; [rewrite C; discriminate|]. intros _. rewrite Hn.
  pose proof (name_ok_plain k Hk) as Hp.
  unfold item_of, to_tmp. rewrite C. simpl. unfold piece. simpl.
  destruct e; simpl.
  - rewrite (go_escape_plain _ Hp), (unesc_plain _ Hp). reflexivity.
  - change (B """") with [""""%char]. simpl.
    destruct k as [|c r]; [discriminate|]. simpl. rewrite removelast_last.
    destruct (r ++ [""""%char]) eqn:X; [destruct r; discriminate|].
    simpl. rewrite (unesc_plain _ Hp). reflexivity.
Qed.

(* the quoted text of an unescaped string literal (pug's .class / #id shorthand) *)
Lemma sem_quoted k s :
  name_ok k = true -> forallb plain s = true ->
  rec_sem (k, AOne (SStr s))
          {| a_name := k; a_val := B """" ++ s ++ B """"; a_esc := false; a_bool := None |}.
Proof.
  intros Hk Hs. unfold rec_sem. simpl fst. simpl snd. simpl a_name.
  assert (Hpiece : piece {| t_esc := false; t_val := B """" ++ s ++ B """"; t_bool := None |} = Some s).
  { unfold piece. simpl. change (B """") with [""""%char]. rewrite removelast_last.
    destruct (s ++ [""""%char]) eqn:X; [destruct s; discriminate|reflexivity]. }
  split; [reflexivity|]. split.
  { unfold rec_okb, tmp_okb, to_tmp. simpl. rewrite Hk. simpl.
    change (B """") with [""""%char]. rewrite removelast_last, Hs.
    destruct (s ++ [""""%char]) eqn:X; [destruct s; discriminate|reflexivity]. }
  split.
  - intros _.
    change (cls_piece (to_tmp {| a_name := k; a_val := B """" ++ s ++ B """"; a_esc := false; a_bool := None |}))
      with (piece {| t_esc := false; t_val := B """" ++ s ++ B """"; t_bool := None |}).
    rewrite Hpiece. f_equal.
    unfold class_tokens. simpl. rewrite app_nil_r.
    destruct s as [|c s]; [reflexivity|].
    change (joinne [c :: s]) with (c :: s).
    symmetry. apply escape_plain, Hs.
  - intros C. unfold item_of. rewrite C.
    change (to_tmp {| a_name := k; a_val := B """" ++ s ++ B """"; a_esc := false; a_bool := None |})
      with {| t_esc := false; t_val := B """" ++ s ++ B """"; t_bool := None |}.
    unfold attr_value. simpl t_bool. cbv iota.
    rewrite Hpiece. simpl. rewrite (unesc_plain _ Hs). reflexivity.
Qed.

(* class tokens of a single scalar *)
Lemma class_tokens_one s : class_tokens (AOne s) = scalar_tokens s.
Proof. unfold class_tokens. simpl. apply app_nil_r. Qed.

Lemma joinne_str s : joinne (scalar_tokens (SStr s)) = s.
Proof. destruct s; [reflexivity|]. simpl. reflexivity. Qed.

Lemma joinne_num z : joinne (scalar_tokens (SNum z)) = show_Z z.
Proof. simpl. apply cat_sp_nil_r. Qed.

Lemma no_nul_class_text v :
  forallb class_scalar_ok (aval_scalars v) = true -> no_nul (joinne (class_tokens v)) = true.
Proof. intros H. apply no_nul_joinne, tok_ok_no_nul, class_tokens_ok, H. Qed.

(* __and_attrs: the record of key k whose member is the object of the source value v *)
Lemma sem_and_rec k v :
  name_ok k = true -> value_ok k v = true -> rec_sem (k, v) (and_rec k (aval_obj v)).
Proof.
  intros Hk Hv. unfold value_ok in Hv.
  destruct (is_class k) eqn:C.
  - (* class *)
    pose proof (no_nul_class_text v Hv) as Hnn.
    pose proof (item_text_aval v Hv) as Hit.
    destruct v as [s|l].
    + simpl in Hv. apply andb_true_iff in Hv. destruct Hv as [Hs _].
      destruct s as [s|z|[|]| |]; simpl; try discriminate.
      * rewrite C. apply sem_text; [exact Hk|apply class_scalar_ok_scalar in Hs; exact Hs| |intros X; congruence].
        intros _. rewrite class_tokens_one, joinne_str. reflexivity.
      * rewrite C. apply sem_text; [exact Hk|apply plain_no_nul, show_Z_plain| |intros X; congruence].
        intros _. rewrite class_tokens_one, joinne_num. reflexivity.
      * apply sem_false; [assumption|reflexivity|intros X; congruence].
      * apply sem_false; [assumption|reflexivity|intros X; congruence].
      * apply sem_false; [assumption|reflexivity|intros X; congruence].
    + simpl and_rec. rewrite C. apply sem_text; [exact Hk| | |intros X; congruence].
      * rewrite <- Hit in Hnn. exact Hnn.
      * intros _. rewrite <- Hit. reflexivity.
  - (* any other name: one scalar *)
    destruct v as [s|l]; [|discriminate].
    destruct s as [s|z|[|]| |]; simpl; try rewrite C.
    + apply sem_text; [exact Hk|exact Hv|intros X; congruence|reflexivity].
    + apply sem_text; [exact Hk|apply plain_no_nul, show_Z_plain|intros X; congruence|reflexivity].
    + apply sem_true; [assumption|assumption|reflexivity].
    + apply sem_false; [assumption|intros X; congruence|reflexivity].
    + apply sem_false; [assumption|intros X; congruence|reflexivity].
    + apply sem_false; [assumption|intros X; congruence|reflexivity].
Qed.

(* __attr on the value the executor computes for the expression *)
Lemma mk_attr_and_rec k lit v :
  mk_attr k (aval_gval lit v) true =
  match v with
  | AOne (SBool b) => bool_rec k b
  | AOne SNull => bool_rec k false
  | AOne SUndef => bool_rec k false
  | _ => and_rec k (aval_obj v)
  end.
Proof.
  destruct v as [s|l]; [|reflexivity].
  destruct s as [s|z|b| |]; destruct lit; try reflexivity.
  - simpl. destruct (is_class k); reflexivity.
  - simpl. destruct (is_class k); reflexivity.
Qed.

Lemma sem_lower_attr k v esc lit :
  name_ok k = true -> value_ok k v = true ->
  (esc || (lit && match v with AOne (SStr s) => forallb plain s | _ => false end)) = true ->
  rec_sem (k, v) (lower_attr k v esc lit).
Proof.
  intros Hk Hv He. unfold lower_attr. destruct esc.
  - rewrite mk_attr_and_rec.
    pose proof (sem_and_rec k v Hk Hv) as Hand.
    destruct v as [s|l]; [|exact Hand].
    destruct s as [s|z|b| |]; try exact Hand.
    (* null / undefined: the same reading as the spread record; left: a boolean literal or datum *)
    + unfold bool_rec. unfold value_ok in Hv. destruct (is_class k) eqn:C.
      * simpl in Hv. destruct b; [discriminate|].
        apply sem_false; [assumption|reflexivity|intros X; congruence].
      * destruct b; [apply sem_true; [assumption|assumption|reflexivity]|].
        apply sem_false; [assumption|intros X; congruence|reflexivity].
  - simpl in He. destruct lit; [|discriminate]. simpl in He.
    destruct v as [s|l]; [|discriminate]. destruct s as [s|z|b| |]; try discriminate.
    simpl. apply sem_quoted; assumption.
Qed.

(* ---------- the bytewise order and the two insertion sorts ---------- *)
Definition ble (a b : bytes) : Prop := bleb a b = true.

Lemma N_of_ascii_inj x y : N_of_ascii x = N_of_ascii y -> x = y.
Proof. intros H. rewrite <- (ascii_N_embedding x), <- (ascii_N_embedding y), H. reflexivity. Qed.

Lemma bleb_total a : forall b, bleb a b = false -> bleb b a = true.
Proof.
  induction a as [|x a IH]; intros b H; [discriminate|].
  destruct b as [|y b]; [reflexivity|]. simpl in *.
  destruct (N.ltb (N_of_ascii x) (N_of_ascii y)) eqn:Exy; [discriminate|].
  destruct (N.ltb (N_of_ascii y) (N_of_ascii x)) eqn:Eyx; [reflexivity|].
  apply IH, H.
Qed.

Lemma bleb_antisym a : forall b, bleb a b = true -> bleb b a = true -> a = b.
Proof.
  induction a as [|x a IH]; intros b Hab Hba.
  - destruct b; [reflexivity|discriminate].
  - destruct b as [|y b]; [discriminate|]. simpl in *.
    destruct (N.ltb (N_of_ascii x) (N_of_ascii y)) eqn:Exy;
    destruct (N.ltb (N_of_ascii y) (N_of_ascii x)) eqn:Eyx; try discriminate.
    + apply N.ltb_lt in Exy. apply N.ltb_lt in Eyx. lia.
    + apply N.ltb_ge in Exy. apply N.ltb_ge in Eyx.
      assert (E : x = y) by (apply N_of_ascii_inj; lia). subst y.
      f_equal. apply IH; assumption.
Qed.

Lemma bleb_trans a : forall b c, bleb a b = true -> bleb b c = true -> bleb a c = true.
Proof.
  induction a as [|x a IH]; intros b c Hab Hbc; [reflexivity|].
  destruct b as [|y b]; [discriminate|]. destruct c as [|z c]; [discriminate|].
  simpl in *.
  destruct (N.ltb (N_of_ascii x) (N_of_ascii y)) eqn:Exy;
  destruct (N.ltb (N_of_ascii y) (N_of_ascii x)) eqn:Eyx;
  destruct (N.ltb (N_of_ascii y) (N_of_ascii z)) eqn:Eyz;
  destruct (N.ltb (N_of_ascii z) (N_of_ascii y)) eqn:Ezy;
  destruct (N.ltb (N_of_ascii x) (N_of_ascii z)) eqn:Exz;
  destruct (N.ltb (N_of_ascii z) (N_of_ascii x)) eqn:Ezx;
  try discriminate; try reflexivity;
  rewrite ?N.ltb_lt, ?N.ltb_ge in *; try lia.
  apply (IH b c); assumption.
Qed.

Lemma sorted_perm_eq l1 : forall l2,
  StronglySorted ble l1 -> StronglySorted ble l2 -> Permutation l1 l2 -> l1 = l2.
Proof.
  induction l1 as [|a l1 IH]; intros l2 S1 S2 P.
  - apply Permutation_nil in P. subst. reflexivity.
  - destruct l2 as [|y l2]; [apply Permutation_sym, Permutation_nil in P; discriminate|].
    inversion S1 as [|? ? S1' F1]; subst. inversion S2 as [|? ? S2' F2]; subst.
    rewrite Forall_forall in F1, F2.
    assert (E : a = y).
    { assert (Ha : In a (y :: l2)) by (apply (Permutation_in a P); left; reflexivity).
      assert (Hy : In y (a :: l1)) by (apply (Permutation_in y (Permutation_sym P)); left; reflexivity).
      destruct Ha as [Ha|Ha]; [congruence|]. destruct Hy as [Hy|Hy]; [congruence|].
      apply bleb_antisym; [apply F1, Hy|apply F2, Ha]. }
    subst y. f_equal. apply IH; [assumption|assumption|]. apply (Permutation_cons_inv P).
Qed.

Lemma ins_sorted_perm x l : Permutation (x :: l) (ins_sorted x l).
Proof.
  induction l as [|y l IH]; simpl; [reflexivity|].
  destruct (bleb x y); [reflexivity|].
  apply perm_trans with (y :: x :: l); [apply perm_swap|apply perm_skip, IH].
Qed.

Lemma ins_sorted_sorted x l : StronglySorted ble l -> StronglySorted ble (ins_sorted x l).
Proof.
  induction l as [|y l IH]; intros S; simpl.
  - constructor; constructor.
  - inversion S as [|? ? S' F]; subst. rewrite Forall_forall in F.
    destruct (bleb x y) eqn:E.
    + constructor; [exact S|]. constructor; [exact E|].
      apply Forall_forall. intros z Hz. apply (bleb_trans x y z); [exact E|apply F, Hz].
    + constructor; [apply IH, S'|]. apply Forall_forall. intros z Hz.
      apply (Permutation_in z (Permutation_sym (ins_sorted_perm x l))) in Hz.
      destruct Hz as [<-|Hz]; [apply bleb_total, E|apply F, Hz].
Qed.

Lemma sort_bytes_perm l : Permutation l (sort_bytes l).
Proof.
  induction l as [|x l IH]; [constructor|].
  change (sort_bytes (x :: l)) with (ins_sorted x (sort_bytes l)).
  apply perm_trans with (x :: sort_bytes l); [apply perm_skip, IH|apply ins_sorted_perm].
Qed.

Lemma sort_bytes_sorted l : StronglySorted ble (sort_bytes l).
Proof.
  induction l as [|x l IH]; [constructor|].
  change (sort_bytes (x :: l)) with (ins_sorted x (sort_bytes l)). apply ins_sorted_sorted, IH.
Qed.

Lemma sort_bytes_unique l l' : Permutation l l' -> sort_bytes l = sort_bytes l'.
Proof.
  intros P. apply sorted_perm_eq; try apply sort_bytes_sorted.
  apply perm_trans with l; [apply Permutation_sym, sort_bytes_perm|].
  apply perm_trans with l'; [exact P|apply sort_bytes_perm].
Qed.

Lemma ins_kv_perm {A} (x : bytes * A) l : Permutation (x :: l) (ins_kv x l).
Proof.
  induction l as [|y l IH]; simpl; [reflexivity|].
  destruct (bleb (fst y) (fst x)); [|reflexivity].
  apply perm_trans with (y :: x :: l); [apply perm_swap|apply perm_skip, IH].
Qed.

Lemma ins_kv_sorted {A} (x : bytes * A) l :
  StronglySorted ble (map fst l) -> StronglySorted ble (map fst (ins_kv x l)).
Proof.
  induction l as [|y l IH]; intros S; simpl.
  - constructor; constructor.
  - simpl in S. inversion S as [|? ? S' F]; subst. rewrite Forall_forall in F.
    destruct (bleb (fst y) (fst x)) eqn:E; simpl.
    + constructor; [apply IH, S'|]. apply Forall_forall. intros z Hz.
      apply in_map_iff in Hz. destruct Hz as [w [<- Hw]].
      apply (Permutation_in w (Permutation_sym (ins_kv_perm x l))) in Hw.
      destruct Hw as [<-|Hw]; [exact E|]. apply F, in_map, Hw.
    + apply bleb_total in E. constructor; [exact S|]. constructor; [exact E|].
      apply Forall_forall. intros z Hz. apply (bleb_trans _ (fst y) z); [exact E|apply F, Hz].
Qed.

Lemma sort_kv_gen {A} (l : list (bytes * A)) : forall acc,
  StronglySorted ble (map fst acc) ->
  StronglySorted ble (map fst (fold_left (fun acc x => ins_kv x acc) l acc))
  /\ Permutation (acc ++ l) (fold_left (fun acc x => ins_kv x acc) l acc).
Proof.
  induction l as [|x l IH]; intros acc S; simpl.
  - rewrite app_nil_r. split; [exact S|reflexivity].
  - destruct (IH (ins_kv x acc) (ins_kv_sorted x acc S)) as [S' P]. split; [exact S'|].
    apply perm_trans with (ins_kv x acc ++ l); [|exact P].
    apply perm_trans with ((x :: acc) ++ l); [apply Permutation_sym, Permutation_middle|].
    apply Permutation_app_tail, ins_kv_perm.
Qed.

Lemma sort_kv_sorted {A} (l : list (bytes * A)) : StronglySorted ble (map fst (sort_kv l)).
Proof. apply (sort_kv_gen l []). constructor. Qed.

Lemma sort_kv_perm {A} (l : list (bytes * A)) : Permutation l (sort_kv l).
Proof. apply (sort_kv_gen l []). constructor. Qed.

(* Map.Keys of an unordered map = the names of the entries sorted by name *)
Lemma sort_keys_kv {A} (l : list (bytes * A)) : sort_bytes (map fst l) = map fst (sort_kv l).
Proof.
  apply sorted_perm_eq; [apply sort_bytes_sorted|apply sort_kv_sorted|].
  apply perm_trans with (map fst l); [apply Permutation_sym, sort_bytes_perm|].
  apply Permutation_map, sort_kv_perm.
Qed.

(* ---------- maps as association lists ---------- *)
Lemma NoDup_lookup {A} (l : list (bytes * A)) k v :
  NoDup (map fst l) -> In (k, v) l -> lookup k l = Some v.
Proof.
  induction l as [|[k' v'] l IH]; intros ND Hin; [destruct Hin|].
  simpl in ND. inversion ND as [|? ? Hni ND']; subst. simpl.
  destruct Hin as [E|Hin].
  - inversion E; subst. rewrite beqb_refl. reflexivity.
  - destruct (beqb k k') eqn:E; [|apply IH; assumption].
    apply beqb_eq in E. subst k'. exfalso. apply Hni.
    change k with (fst (k, v)). apply in_map, Hin.
Qed.

Lemma lookup_map_snd {A B} (f : A -> B) (l : list (bytes * A)) k :
  lookup k (map (fun kv => (fst kv, f (snd kv))) l) = option_map f (lookup k l).
Proof.
  induction l as [|[k' v'] l IH]; [reflexivity|]. simpl.
  destruct (beqb k k'); [reflexivity|exact IH].
Qed.

Lemma nodupb_NoDup l : nodupb l = true -> NoDup l.
Proof.
  induction l as [|x l IH]; intros H; [constructor|].
  simpl in H. apply andb_true_iff in H. destruct H as [Hx Hl].
  constructor; [|apply IH, Hl]. apply mem_false_In. destruct (mem x l); [discriminate|reflexivity].
Qed.

Lemma lookup_fold_insert_notin {A} (l : list (bytes * A)) k : forall acc,
  ~ In k (map fst l) ->
  lookup k (fold_left (fun acc kv => insert (fst kv) (snd kv) acc) l acc) = lookup k acc.
Proof.
  induction l as [|[k' v'] l IH]; intros acc H; [reflexivity|].
  simpl. rewrite IH by (intros X; apply H; right; exact X).
  apply lookup_insert_other. intros ->. apply H. left. reflexivity.
Qed.

Lemma lookup_fold_insert {A} (l : list (bytes * A)) k v : forall acc,
  NoDup (map fst l) -> In (k, v) l ->
  lookup k (fold_left (fun acc kv => insert (fst kv) (snd kv) acc) l acc) = Some v.
Proof.
  induction l as [|[k' v'] l IH]; intros acc ND Hin; [destruct Hin|].
  simpl in ND. inversion ND as [|? ? Hni ND']; subst. simpl.
  destruct Hin as [E|Hin].
  - inversion E; subst. rewrite lookup_fold_insert_notin by exact Hni. apply lookup_insert_same.
  - apply IH; assumption.
Qed.

(* ---------- grouping folds: __op__map_params and the specification's group_kv ---------- *)
Section GroupFold.
  Context {A B : Type} (upd : option B -> A -> B).
  Definition gstep (acc : list (bytes * B)) (kv : bytes * A) : list (bytes * B) :=
    insert (fst kv) (upd (lookup (fst kv) acc) (snd kv)) acc.
  Definition gfold (n : bytes) (l : list (bytes * A)) : option B :=
    fold_left (fun o kv => if beqb n (fst kv) then Some (upd o (snd kv)) else o) l None.

  Lemma keys_insert (k : bytes) (v : B) m :
    keys (insert k v m) = if mem k (keys m) then keys m else keys m ++ [k].
  Proof.
    unfold keys. induction m as [|[k' v'] m IH]; [reflexivity|]. simpl.
    destruct (beqb k k') eqn:E; simpl; [reflexivity|].
    rewrite IH. destruct (mem k (map fst m)); reflexivity.
  Qed.

  Lemma gfold_keys l : keys (fold_left gstep l []) = nodup_first (map fst l).
  Proof.
    induction l as [|kv l IH] using rev_ind; [reflexivity|].
    rewrite fold_left_app, map_app. simpl. rewrite nodup_first_snoc, <- IH.
    unfold gstep at 1. apply keys_insert.
  Qed.

  Lemma gfold_lookup l n : lookup n (fold_left gstep l []) = gfold n l.
  Proof.
    induction l as [|kv l IH] using rev_ind; [reflexivity|].
    unfold gfold. rewrite !fold_left_app. simpl. fold (gfold n l).
    unfold gstep at 1. destruct (beqb n (fst kv)) eqn:E.
    - apply beqb_eq in E. subst n. rewrite lookup_insert_same, IH. reflexivity.
    - rewrite lookup_insert_other; [exact IH|]. intros X. subst n. rewrite beqb_refl in E. discriminate.
  Qed.
End GroupFold.

Lemma fold_left_ext {A B} (f g : A -> B -> A) l : forall a,
  (forall a b, f a b = g a b) -> fold_left f l a = fold_left g l a.
Proof. induction l as [|x l IH]; intros a H; [reflexivity|]. simpl. rewrite H. apply IH, H. Qed.

Lemma named_snoc {A} n (l : list (bytes * A)) kv :
  named n (l ++ [kv]) = named n l ++ (if beqb n (fst kv) then [snd kv] else []).
Proof.
  unfold named. rewrite filter_app, map_app. simpl. destruct (beqb n (fst kv)); reflexivity.
Qed.

Definition pupd (o : option pgroup) (v : gval) : pgroup :=
  match o with
  | Some (POne old) => PMany [old; v]
  | Some (PMany olds) => PMany (olds ++ [v])
  | None => POne v
  end.

Lemma params_fold l : fold_left params_step l [] = fold_left (gstep pupd) l [].
Proof.
  apply fold_left_ext. intros acc kv. unfold params_step, gstep, pupd.
  destruct (lookup (fst kv) acc) as [[old|olds]|]; reflexivity.
Qed.

Lemma gfold_params n l :
  gfold pupd n l =
  match named n l with [] => None | [v] => Some (POne v) | vs => Some (PMany vs) end.
Proof.
  induction l as [|kv l IH] using rev_ind; [reflexivity|].
  unfold gfold. rewrite fold_left_app. simpl. fold (gfold pupd n l).
  rewrite named_snoc, IH. destruct (beqb n (fst kv)); [|rewrite app_nil_r; reflexivity].
  destruct (named n l) as [|v [|w r]]; reflexivity.
Qed.

Definition gupd (o : option aval) (v : aval) : aval :=
  match o with
  | Some old => AArr (aval_scalars old ++ aval_scalars v)
  | None => v
  end.

Lemma group_fold l : group_kv l = fold_left (gstep gupd) l [].
Proof.
  unfold group_kv. apply fold_left_ext. intros acc kv. unfold gstep, gupd.
  destruct (lookup (fst kv) acc); reflexivity.
Qed.

Lemma gfold_group n l :
  gfold gupd n l =
  match named n l with [] => None | [v] => Some v | vs => Some (AArr (flat_map aval_scalars vs)) end.
Proof.
  induction l as [|kv l IH] using rev_ind; [reflexivity|].
  unfold gfold. rewrite fold_left_app. simpl. fold (gfold gupd n l).
  rewrite named_snoc, IH. destruct (beqb n (fst kv)); [|rewrite app_nil_r; reflexivity].
  destruct (named n l) as [|v [|w r]]; simpl.
  - reflexivity.
  - rewrite app_nil_r. reflexivity.
  - rewrite !flat_map_app. simpl. rewrite app_nil_r, <- !app_assoc. reflexivity.
Qed.

Lemma convert_aval_gval lit v : convert (aval_gval lit v) = aval_obj v.
Proof. destruct v as [s|l]; [|reflexivity]. destruct s; destruct lit; reflexivity. Qed.

(* ---------- the records of one source against its contributions ---------- *)
Lemma forall2_pointwise {A B} (R : bytes * A -> B -> Prop) cs (f : bytes -> B) :
  (forall kv, In kv cs -> R kv (f (fst kv))) -> Forall2 R cs (map f (map fst cs)).
Proof.
  induction cs as [|kv cs IH]; intros H; [constructor|].
  simpl. constructor; [apply H; left; reflexivity|]. apply IH. intros x Hx. apply H. right. exact Hx.
Qed.

Lemma and_attr_one_rec m k : and_attr_one m k = and_rec k (member m k).
Proof. unfold and_attr_one, and_rec. destruct (member m k); reflexivity. Qed.

Definition entry_ok (kv : bytes * aval) : bool := name_ok (fst kv) && value_ok (fst kv) (snd kv).

(* &attributes(obj): a data map (sorted keys) or an object literal (its own order) *)
Lemma sem_spread ord es :
  forallb entry_ok es = true -> NoDup (map fst es) ->
  Forall2 rec_sem (contribs (SrcSpread ord es)) (lower_src (SrcSpread ord es)).
Proof.
  intros Hok ND. rewrite forallb_forall in Hok.
  set (items := map (fun kv => (fst kv, aval_obj (snd kv))) es).
  assert (Hkeys : map fst items = map fst es) by (unfold items; rewrite map_map; reflexivity).
  assert (Hsem : forall m kv, In kv es -> lookup (fst kv) (m_items m) = Some (aval_obj (snd kv)) ->
                              rec_sem kv (and_attr_one m (fst kv))).
  { intros m [k v] Hin Hl. simpl in Hl. rewrite and_attr_one_rec. unfold member. simpl fst. rewrite Hl.
    specialize (Hok _ Hin). unfold entry_ok in Hok. simpl in Hok.
    apply andb_true_iff in Hok. destruct Hok as [Hk Hv]. apply sem_and_rec; assumption. }
  destruct ord; simpl contribs; simpl lower_src; fold items; unfold and_attrs.
  - (* object literal *)
    assert (Hmk : map_keys (op_map items) = map fst es).
    { unfold map_keys, op_map. simpl. rewrite Hkeys. destruct (map fst es) eqn:E; [|reflexivity].
      unfold keys. destruct items; [reflexivity|discriminate]. }
    rewrite Hmk. apply forall2_pointwise. intros kv Hin. apply Hsem; [exact Hin|].
    unfold op_map. simpl. apply lookup_fold_insert; [rewrite Hkeys; exact ND|].
    unfold items. apply in_map_iff. exists kv. split; [reflexivity|exact Hin].
  - (* data map *)
    unfold map_keys, data_map. simpl. unfold keys. rewrite Hkeys, sort_keys_kv.
    apply forall2_pointwise. intros kv Hin.
    apply (Permutation_in kv (Permutation_sym (sort_kv_perm es))) in Hin.
    apply Hsem; [exact Hin|]. simpl. apply NoDup_lookup; [rewrite Hkeys; exact ND|].
    unfold items. apply in_map_iff. exists kv. split; [reflexivity|exact Hin].
Qed.

(* a name other than class occurs at most once among the attributes of a mixin call *)
Lemma mem_filter_none {T} (nm : T -> bytes) (p : bytes -> bool) k atts :
  p k = true -> mem k (filter p (map nm atts)) = false ->
  filter (fun t => beqb k (nm t)) atts = [].
Proof.
  intros Hp. induction atts as [|t atts IH]; intros H; [reflexivity|]. simpl in *.
  destruct (beqb k (nm t)) eqn:E.
  - apply beqb_eq in E. subst k. rewrite Hp in H. simpl in H. rewrite beqb_refl in H. discriminate.
  - destruct (p (nm t)); [|apply IH, H]. simpl in H. rewrite E in H. apply IH, H.
Qed.

Lemma nodup_filter_le1 {T} (nm : T -> bytes) (p : bytes -> bool) k atts :
  p k = true -> nodupb (filter p (map nm atts)) = true ->
  length (filter (fun t => beqb k (nm t)) atts) <= 1.
Proof.
  intros Hp. induction atts as [|t atts IH]; intros H; [simpl; lia|]. simpl in *.
  destruct (beqb k (nm t)) eqn:E.
  - apply beqb_eq in E. subst k. rewrite Hp in H. simpl in H.
    apply andb_true_iff in H. destruct H as [Hm _].
    rewrite (mem_filter_none nm p (nm t) atts Hp); [simpl; lia|].
    destruct (mem (nm t) (filter p (map nm atts))); [discriminate|reflexivity].
  - destruct (p (nm t)); [|apply IH, H]. simpl in H. apply andb_true_iff in H. apply IH, H.
Qed.

Lemma named_map {T A} (nm : T -> bytes) (val : T -> A) k atts :
  named k (map (fun t => (nm t, val t)) atts) = map val (filter (fun t => beqb k (nm t)) atts).
Proof.
  unfold named. induction atts as [|t atts IH]; [reflexivity|]. simpl.
  destruct (beqb k (nm t)); simpl; rewrite IH; reflexivity.
Qed.

Definition att_ok (t : bytes * aval * bool) : bool :=
  name_ok (fst (fst t)) && value_ok (fst (fst t)) (snd (fst t)).

(* &attributes(attributes) in a mixin: __op__map_params, then __and_attrs over the sorted keys *)
Lemma sem_mixin atts :
  forallb att_ok atts = true ->
  nodupb (filter (fun n => negb (is_class n)) (map (fun t => fst (fst t)) atts)) = true ->
  Forall2 rec_sem (contribs (SrcMixin atts)) (lower_src (SrcMixin atts)).
Proof.
  intros Hok Hnd. rewrite forallb_forall in Hok.
  simpl contribs. simpl lower_src.
  set (L' := map (fun t : bytes * aval * bool => (fst (fst t), aval_gval (snd t) (snd (fst t)))) atts).
  set (L := map fst atts).
  assert (HL : L = map (fun t : bytes * aval * bool => (fst (fst t), snd (fst t))) atts).
  { unfold L. apply map_ext. intros [[n v] l]. reflexivity. }
  assert (Hnames : map fst L' = map fst L).
  { unfold L', L. rewrite !map_map. reflexivity. }
  set (m := map_params L').
  assert (Hkeys : keys (m_items m) = keys (group_kv L)).
  { unfold m, map_params. simpl. unfold keys at 1. rewrite map_map. simpl.
    change (map (fun x : bytes * pgroup => fst x) (fold_left params_step L' []))
      with (keys (fold_left params_step L' [])).
    rewrite params_fold, group_fold, !gfold_keys, Hnames. reflexivity. }
  assert (NDG : NoDup (map fst (group_kv L))).
  { change (map fst (group_kv L)) with (keys (group_kv L)).
    rewrite group_fold, gfold_keys. apply nodup_first_NoDup. }
  unfold and_attrs. fold m.
  assert (Hmk : map_keys m = map fst (sort_kv (group_kv L))).
  { unfold map_keys. change (m_order m) with (@nil bytes). cbv iota.
    rewrite Hkeys. unfold keys. apply sort_keys_kv. }
  rewrite Hmk. apply forall2_pointwise. intros [k v] Hin.
  apply (Permutation_in _ (Permutation_sym (sort_kv_perm (group_kv L)))) in Hin.
  pose proof (NoDup_lookup _ _ _ NDG Hin) as HlG.
  rewrite group_fold, gfold_lookup, gfold_group in HlG.
  simpl fst. rewrite and_attr_one_rec. unfold member.
  assert (HlP : lookup k (m_items m) = option_map pgroup_obj (gfold pupd k L')).
  { unfold m, map_params. simpl. rewrite lookup_map_snd, params_fold, gfold_lookup. reflexivity. }
  rewrite HlP, gfold_params. clear HlP.
  pose (F := filter (fun t : bytes * aval * bool => beqb k (fst (fst t))) atts).
  assert (HnL : named k L = map (fun t => snd (fst t)) F).
  { rewrite HL. apply (named_map (fun t : bytes * aval * bool => fst (fst t)) (fun t => snd (fst t))). }
  assert (HnL' : named k L' = map (fun t => aval_gval (snd t) (snd (fst t))) F).
  { unfold L'. apply (named_map (fun t : bytes * aval * bool => fst (fst t))
                                 (fun t => aval_gval (snd t) (snd (fst t)))). }
  rewrite HnL in HlG. rewrite HnL'.
  assert (HF : forall t, In t F -> name_ok k = true /\ value_ok k (snd (fst t)) = true).
  { intros t Ht. unfold F in Ht. apply filter_In in Ht. destruct Ht as [Hin' Hb].
    apply beqb_eq in Hb. specialize (Hok t Hin'). unfold att_ok in Hok. rewrite <- Hb in Hok.
    apply andb_true_iff in Hok. exact Hok. }
  assert (Hle : negb (is_class k) = true -> length F <= 1).
  { intros Hnc. exact (nodup_filter_le1 (fun t : bytes * aval * bool => fst (fst t))
                                        (fun n => negb (is_class n)) k atts Hnc Hnd). }
  clearbody F.
  destruct F as [|t1 [|t2 r]].
  - discriminate.
  - simpl in HlG. inversion HlG; subst v. simpl. rewrite convert_aval_gval.
    destruct (HF t1 (or_introl eq_refl)) as [Hk Hv]. apply sem_and_rec; assumption.
  - (* a repeated name: only class may repeat *)
    destruct (is_class k) eqn:C.
    2:{ exfalso. specialize (Hle eq_refl). simpl in Hle. lia. }
    set (vs := map (fun t : bytes * aval * bool => snd (fst t)) (t1 :: t2 :: r)) in *.
    assert (Hv : v = AArr (flat_map aval_scalars vs)).
    { simpl in HlG. inversion HlG. reflexivity. }
    assert (Hobj : pgroup_obj (PMany (map (fun t : bytes * aval * bool => aval_gval (snd t) (snd (fst t)))
                                          (t1 :: t2 :: r))) = OArr (map aval_obj vs)).
    { unfold pgroup_obj, vs. rewrite !map_map. f_equal. apply map_ext. intros t. apply convert_aval_gval. }
    change (option_map pgroup_obj
              (match map (fun t : bytes * aval * bool => aval_gval (snd t) (snd (fst t))) (t1 :: t2 :: r) with
               | [] => None | [v0] => Some (POne v0) | vs0 => Some (PMany vs0) end))
      with (Some (pgroup_obj (PMany (map (fun t : bytes * aval * bool => aval_gval (snd t) (snd (fst t)))
                                         (t1 :: t2 :: r))))).
    rewrite Hobj.
    change (and_rec k (OArr (map aval_obj vs)))
      with {| a_name := k;
              a_val := if is_class k then class_names (OArr (map aval_obj vs))
                       else obj_string (OArr (map aval_obj vs));
              a_esc := true; a_bool := None |}.
    rewrite C.
    assert (Hall : Forall (fun v => forallb class_scalar_ok (aval_scalars v) = true) vs).
    { apply Forall_forall. intros w Hw. unfold vs in Hw. apply in_map_iff in Hw.
      destruct Hw as [t [<- Ht]]. destruct (HF t Ht) as [_ Hvt]. unfold value_ok in Hvt.
      rewrite C in Hvt. exact Hvt. }
    assert (Hvok : forallb class_scalar_ok (aval_scalars v) = true).
    { rewrite Hv. change (aval_scalars (AArr (flat_map aval_scalars vs))) with (flat_map aval_scalars vs).
      apply forallb_flat_map. intros w Hw. rewrite Forall_forall in Hall. apply Hall, Hw. }
    destruct (HF t1 (or_introl eq_refl)) as [Hk _].
    apply sem_text; [exact Hk| | |intros X; congruence].
    + rewrite (class_names_group vs Hall), <- Hv. apply no_nul_class_text, Hvok.
    + intros _. rewrite (class_names_group vs Hall), Hv. reflexivity.
Qed.

(* ---------- all sources of a tag ---------- *)
Ltac split3 H Ha Hb Hc :=
  apply andb_true_iff in H; destruct H as [H Hc];
  apply andb_true_iff in H; destruct H as [Ha Hb].

Lemma sem_src s : src_ok s = true -> Forall2 rec_sem (contribs s) (lower_src s).
Proof.
  destruct s as [n v esc lit|ord es|atts]; intros H.
  - unfold src_ok in H. apply andb_true_iff in H. destruct H as [H He]. split3 H Hn Hv Hm.
    simpl. constructor; [|constructor]. apply sem_lower_attr; assumption.
  - unfold src_ok in H. apply andb_true_iff in H. destruct H as [H ND].
    apply sem_spread; [|apply nodupb_NoDup, ND].
    rewrite forallb_forall in *. intros kv Hkv. specialize (H kv Hkv).
    apply andb_true_iff in H. destruct H as [H _]. split3 H Hn Hv Hm.
    unfold entry_ok. rewrite Hn. exact Hv.
  - unfold src_ok in H. apply andb_true_iff in H. destruct H as [H ND].
    apply sem_mixin; [|exact ND].
    rewrite forallb_forall in *. intros t Ht. specialize (H t Ht). split3 H Hn Hv Hm.
    unfold att_ok. rewrite Hn. exact Hv.
Qed.

Lemma sem_srcs srcs :
  forallb src_ok srcs = true -> Forall2 rec_sem (flat_map contribs srcs) (lower srcs).
Proof.
  induction srcs as [|s srcs IH]; intros H; [constructor|].
  simpl in H. apply andb_true_iff in H. destruct H as [Hs H].
  simpl. unfold lower. simpl. apply Forall2_app; [apply sem_src, Hs|apply IH, H].
Qed.

Lemma src_ok_modelled s : src_ok s = true -> src_modelled s = true.
Proof.
  destruct s as [n v esc lit|ord es|atts]; unfold src_ok, src_modelled; intros H.
  - apply andb_true_iff in H. destruct H as [H He]. split3 H Hn Hv Hm.
    rewrite Hm. simpl.
    destruct esc; [reflexivity|]. simpl in *. destruct lit; [|discriminate]. simpl in *.
    destruct v as [s|l]; [|discriminate]. destruct s; try discriminate. exact He.
  - apply andb_true_iff in H. destruct H as [H _].
    rewrite forallb_forall in *. intros kv Hkv. specialize (H kv Hkv).
    apply andb_true_iff in H. destruct H as [H Hnull]. split3 H Hn Hv Hm.
    rewrite Hm. exact Hnull.
  - apply andb_true_iff in H. destruct H as [H _].
    rewrite forallb_forall in *. intros t Ht. specialize (H t Ht). split3 H Hn Hv Hm. exact Hm.
Qed.

(* ---------- from the records to the specification ---------- *)
Lemma sem_names cs rs : Forall2 rec_sem cs rs -> map a_name rs = map fst cs.
Proof.
  induction 1 as [|kv a cs rs Hr _ IH]; [reflexivity|].
  simpl. destruct Hr as [Hn _]. rewrite Hn, IH. reflexivity.
Qed.

Lemma sem_rec_ok cs rs : Forall2 rec_sem cs rs -> forallb rec_okb rs = true.
Proof.
  induction 1 as [|kv a cs rs Hr _ IH]; [reflexivity|].
  simpl. destruct Hr as [_ [Hok _]]. rewrite Hok, IH. reflexivity.
Qed.

Definition last_val {A} (n : bytes) (cs : list (bytes * A)) : option A :=
  fold_left (fun o kv => if beqb n (fst kv) then Some (snd kv) else o) cs None.

Lemma rev_named_last {A} n (cs : list (bytes * A)) :
  match rev (named n cs) with v :: _ => Some v | [] => None end = last_val n cs.
Proof.
  induction cs as [|kv cs IH] using rev_ind; [reflexivity|].
  unfold last_val. rewrite fold_left_app. simpl. fold (last_val n cs).
  rewrite named_snoc. destruct (beqb n (fst kv)).
  - rewrite rev_app_distr. reflexivity.
  - rewrite app_nil_r. exact IH.
Qed.

Definition last_rel (n : bytes) (oa : option attr_rec) (ov : option aval) : Prop :=
  match oa, ov with
  | Some a, Some v => rec_sem (n, v) a
  | None, None => True
  | _, _ => False
  end.

Lemma sem_last n cs rs : Forall2 rec_sem cs rs -> forall oa ov,
  last_rel n oa ov ->
  last_rel n (fold_left (fun o a => if beqb (a_name a) n then Some a else o) rs oa)
             (fold_left (fun o kv => if beqb n (fst kv) then Some (snd kv) else o) cs ov).
Proof.
  induction 1 as [|kv a cs rs Hr _ IH]; intros oa ov Hrel; [exact Hrel|].
  simpl. apply IH. destruct Hr as [Hn Hrest]. rewrite Hn, (beqb_sym (fst kv) n).
  destruct (beqb n (fst kv)) eqn:E; [|exact Hrel].
  apply beqb_eq in E. subst n. unfold last_rel. destruct kv as [k v]. simpl in *.
  split; [exact Hn|exact Hrest].
Qed.

Lemma last_val_some {A} n (cs : list (bytes * A)) : In n (map fst cs) -> exists v, last_val n cs = Some v.
Proof.
  induction cs as [|kv cs IH] using rev_ind; intros H; [destruct H|].
  unfold last_val. rewrite fold_left_app. simpl. fold (last_val n cs).
  destruct (beqb n (fst kv)) eqn:E; [eexists; reflexivity|].
  apply IH. rewrite map_app in H. apply in_app_or in H. destruct H as [H|[H|[]]]; [exact H|].
  subst n. rewrite beqb_refl in E. discriminate.
Qed.

(* a name other than class: the last value given for it *)
Lemma sem_nonclass n cs rs :
  Forall2 rec_sem cs rs -> is_class n = false -> In n (map fst cs) ->
  decode (item_of n (grp n rs)) = olist n (spec_value n cs).
Proof.
  intros HF C Hin. rewrite (grp_nonclass n rs C).
  pose proof (sem_last n cs rs HF None None I) as Hl.
  fold (last_named n rs) in Hl. fold (last_val n cs) in Hl.
  destruct (last_val_some n cs Hin) as [v Hv].
  unfold spec_value. rewrite C.
  assert (Hs : match rev (named n cs) with v :: _ => value_text n v | [] => None end = value_text n v).
  { pose proof (rev_named_last n cs) as X. rewrite Hv in X.
    destruct (rev (named n cs)); [discriminate|]. inversion X. reflexivity. }
  rewrite Hs. rewrite Hv in Hl. unfold last_rel in Hl.
  destruct (last_named n rs) as [a|]; [|destruct Hl].
  destruct Hl as [_ [_ [_ Hnc]]]. apply Hnc. exact C.
Qed.

Lemma scalar_tokens_nonnil s : forallb nonnil (scalar_tokens s) = true.
Proof.
  destruct s as [s|z|b| |]; try reflexivity.
  - destruct s; reflexivity.
  - simpl. destruct (show_Z z) eqn:E; [exfalso; exact (show_Z_nonnil z E)|reflexivity].
Qed.

Lemma class_tokens_nonnil v : forallb nonnil (class_tokens v) = true.
Proof. unfold class_tokens. apply forallb_flat_map. intros s _. apply scalar_tokens_nonnil. Qed.

Lemma sem_class_pieces n cs rs :
  is_class n = true -> Forall2 rec_sem cs rs ->
  map cls_piece (map to_tmp (filter (fun a => beqb (a_name a) n) rs)) =
  map Some (map (fun v => escape (joinne (class_tokens v))) (named n cs)).
Proof.
  intros C. induction 1 as [|kv a cs rs Hr _ IH]; [reflexivity|].
  destruct Hr as [Hn [_ [Hc _]]]. unfold named in *. simpl.
  rewrite Hn, (beqb_sym (fst kv) n).
  destruct (beqb n (fst kv)) eqn:E; [|exact IH].
  simpl. rewrite IH. f_equal. f_equal. apply Hc. apply beqb_eq in E. rewrite <- E. exact C.
Qed.

(* class: all values given for it, merged *)
Lemma sem_class cs rs :
  Forall2 rec_sem cs rs -> tmp_nodupb (class_recs rs) = true ->
  decode (item_of (B "class") (grp (B "class") rs)) = olist (B "class") (spec_value (B "class") cs).
Proof.
  intros HF ND.
  destruct (class_accumulates rs) as [_ Hg]. rewrite (Hg ND). clear Hg.
  unfold item_of. change (is_class (B "class")) with true.
  rewrite (class_merge _ _ [] (sem_class_pieces (B "class") cs rs eq_refl HF)).
  change (cat_sp [] ?x) with x.
  rewrite <- map_map, <- escape_joinne, <- joinne_flat_map.
  unfold spec_value. change (is_class (B "class")) with true. cbv iota.
  set (toks := flat_map class_tokens (named (B "class") cs)).
  assert (Hne : forallb nonnil toks = true).
  { unfold toks. apply forallb_flat_map. intros v _. apply class_tokens_nonnil. }
  rewrite <- (join_joinne toks Hne) at 1.
  destruct toks as [|t toks'] eqn:E; [reflexivity|].
  assert (Hj : joinne (t :: toks') <> []) by (apply joinne_nonnil; [exact Hne|discriminate]).
  rewrite (join_joinne _ Hne).
  pose proof (escape_nonnil _ Hj) as He.
  assert (Hn : is_nil (escape (joinne (t :: toks'))) = false)
    by (destruct (escape (joinne (t :: toks'))); [congruence|reflexivity]).
  rewrite Hn. unfold decode, olist. simpl map. rewrite unesc_escape. reflexivity.
Qed.

Lemma decode_flat_map {A} (f : A -> list (bytes * bytes)) l :
  decode (flat_map f l) = flat_map (fun x => decode (f x)) l.
Proof.
  unfold decode. induction l as [|x l IH]; [reflexivity|]. simpl. rewrite map_app, IH. reflexivity.
Qed.

Lemma flat_map_ext_in {A B} (f g : A -> list B) l :
  (forall x, In x l -> f x = g x) -> flat_map f l = flat_map g l.
Proof.
  induction l as [|x l IH]; intros H; [reflexivity|]. simpl.
  rewrite (H x (or_introl eq_refl)), IH; [reflexivity|]. intros y Hy. apply H. right. exact Hy.
Qed.

Lemma sem_decode cs rs :
  Forall2 rec_sem cs rs -> tmp_nodupb (class_recs rs) = true ->
  decode (rendered_items rs) = spec_of_contribs cs.
Proof.
  intros HF ND. rewrite rendered_closed, decode_flat_map, (sem_names cs rs HF).
  unfold spec_of_contribs. apply flat_map_ext_in. intros n Hn.
  apply (proj1 (nodup_first_In _ _)) in Hn.
  change (match spec_value n cs with Some v => [(n, v)] | None => [] end) with (olist n (spec_value n cs)).
  destruct (is_class n) eqn:C.
  - apply beqb_eq in C. subst n. apply sem_class; assumption.
  - apply sem_nonclass; assumption.
Qed.

(* ---------- C05_spec ---------- *)
Lemma spec_partial srcs :
  forallb src_ok srcs = true -> tmp_nodupb (class_recs (lower srcs)) = true ->
  exists text, model_attrs srcs = Some (Some text) /\ read_attrs text = Some (attr_spec srcs).
Proof.
  intros Hok ND.
  pose proof (sem_srcs srcs Hok) as HF.
  destruct (grammar (lower srcs) (sem_rec_ok _ _ HF)) as [Hr [_ Hp]].
  exists (fmt_items (rendered_items (lower srcs))). split.
  - unfold model_attrs.
    assert (Hm : forallb src_modelled srcs = true).
    { rewrite forallb_forall in *. intros s Hs. apply src_ok_modelled, Hok, Hs. }
    rewrite Hm, Hr. reflexivity.
  - unfold read_attrs. rewrite Hp. f_equal. apply sem_decode; assumption.
Qed.

Lemma spec_holds_dom srcs : dom_C05 srcs = true -> spec_holds srcs.
Proof.
  unfold dom_C05. intros H. apply andb_true_iff in H. destruct H as [H1 H2].
  apply spec_partial; assumption.
Qed.

(* the rendered class attribute in closed form *)
Lemma class_closed srcs :
  dom_C05 srcs = true ->
  item_of (B "class") (grp (B "class") (lower srcs)) =
  match class_text (named (B "class") (flat_map contribs srcs)) with
  | [] => []
  | t => [(B "class", escape t)]
  end.
Proof.
  unfold dom_C05. intros H. apply andb_true_iff in H. destruct H as [Hok ND].
  pose proof (sem_srcs srcs Hok) as HF.
  destruct (class_accumulates (lower srcs)) as [_ Hg]. rewrite (Hg ND). clear Hg.
  unfold item_of. change (is_class (B "class")) with true.
  rewrite (class_merge _ _ [] (sem_class_pieces (B "class") _ _ eq_refl HF)).
  change (cat_sp [] ?x) with x.
  rewrite <- map_map, <- escape_joinne, <- joinne_flat_map. fold (class_text (named (B "class") (flat_map contribs srcs))).
  destruct (class_text (named (B "class") (flat_map contribs srcs))) as [|c t] eqn:E; [reflexivity|].
  assert (He : escape (c :: t) <> []) by (apply escape_nonnil; discriminate).
  destruct (escape (c :: t)); [congruence|reflexivity].
Qed.

(* ====================================================================== C05_spread_order *)
Lemma lookup_In {A} (l : list (bytes * A)) k v : lookup k l = Some v -> In (k, v) l.
Proof.
  induction l as [|[k' v'] l IH]; simpl; [discriminate|].
  destruct (beqb k k') eqn:E.
  - apply beqb_eq in E. subst k'. intros H. inversion H. left. reflexivity.
  - intros H. right. apply IH, H.
Qed.

Lemma NoDup_perm_lookup {A} (l l' : list (bytes * A)) k :
  Permutation l l' -> NoDup (keys l) -> lookup k l = lookup k l'.
Proof.
  intros P ND.
  assert (ND' : NoDup (keys l')) by (apply (Permutation_NoDup (Permutation_map fst P)), ND).
  destruct (lookup k l) as [v|] eqn:E1.
  - symmetry. apply NoDup_lookup; [exact ND'|]. apply (Permutation_in _ P), lookup_In, E1.
  - destruct (lookup k l') as [v'|] eqn:E2; [|reflexivity].
    apply lookup_In in E2. apply (Permutation_in _ (Permutation_sym P)) in E2.
    rewrite (NoDup_lookup _ _ _ ND E2) in E1. discriminate.
Qed.

(* __and_attrs of a map without explicit order does not depend on the iteration order of the Go map *)
Lemma and_attrs_perm items items' :
  Permutation items items' -> NoDup (keys items) ->
  and_attrs (data_map items) = and_attrs (data_map items').
Proof.
  intros P ND. unfold and_attrs, map_keys, data_map. simpl.
  rewrite (sort_bytes_unique (keys items) (keys items')) by (apply Permutation_map, P).
  apply map_ext. intros k. unfold and_attr_one, member. simpl.
  rewrite (NoDup_perm_lookup _ _ k P ND). reflexivity.
Qed.

Lemma spread_order pre post items items' :
  Permutation items items' -> NoDup (keys items) ->
  render_attrs (pre ++ and_attrs (data_map items) ++ post) =
  render_attrs (pre ++ and_attrs (data_map items') ++ post).
Proof. intros P ND. rewrite (and_attrs_perm _ _ P ND). reflexivity. Qed.

Lemma forallb_perm {A} (f : A -> bool) l l' : Permutation l l' -> forallb f l = forallb f l'.
Proof.
  induction 1 as [|x l l' _ IH|x y l|l l' l'' _ IH1 _ IH2]; simpl.
  - reflexivity.
  - rewrite IH. reflexivity.
  - destruct (f x), (f y); reflexivity.
  - rewrite IH1. exact IH2.
Qed.

Lemma kv_sorted_unique {A} (l1 : list (bytes * A)) : forall l2,
  map fst l1 = map fst l2 -> NoDup (map fst l1) -> Permutation l1 l2 -> l1 = l2.
Proof.
  induction l1 as [|[k v1] l1 IH]; intros l2 Hk ND P.
  - destruct l2; [reflexivity|discriminate].
  - destruct l2 as [|[k2 v2] l2]; [discriminate|]. simpl in Hk. inversion Hk as [[Hk1 Hk2]]. subst k2.
    simpl in ND. inversion ND as [|? ? Hni ND']; subst.
    assert (E : v1 = v2).
    { assert (Hin : In (k, v1) ((k, v2) :: l2)) by (apply (Permutation_in _ P); left; reflexivity).
      destruct Hin as [Hin|Hin]; [inversion Hin; reflexivity|].
      exfalso. apply Hni. rewrite Hk2. change k with (fst (k, v1)). apply in_map, Hin. }
    subst v2. f_equal. apply IH; [exact Hk2|exact ND'|apply (Permutation_cons_inv P)].
Qed.

Lemma sort_kv_unique {A} (l l' : list (bytes * A)) :
  Permutation l l' -> NoDup (map fst l) -> sort_kv l = sort_kv l'.
Proof.
  intros P ND. apply kv_sorted_unique.
  - rewrite <- !sort_keys_kv. apply sort_bytes_unique, Permutation_map, P.
  - apply (Permutation_NoDup (Permutation_map fst (sort_kv_perm l))), ND.
  - apply perm_trans with l; [apply Permutation_sym, sort_kv_perm|].
    apply perm_trans with l'; [exact P|apply sort_kv_perm].
Qed.

(* source level: neither the model nor the specification depends on the order in which the entries of
   the data map are listed *)
Lemma spread_order_src pre post es es' :
  Permutation es es' -> NoDup (map fst es) ->
  model_attrs (pre ++ SrcSpread false es :: post) = model_attrs (pre ++ SrcSpread false es' :: post)
  /\ attr_spec (pre ++ SrcSpread false es :: post) = attr_spec (pre ++ SrcSpread false es' :: post).
Proof.
  intros P ND. split.
  - unfold model_attrs.
    assert (Hm : forallb src_modelled (pre ++ SrcSpread false es :: post) =
                 forallb src_modelled (pre ++ SrcSpread false es' :: post)).
    { rewrite !forallb_app. simpl. rewrite (forallb_perm _ _ _ P). reflexivity. }
    rewrite Hm. destruct (forallb src_modelled (pre ++ SrcSpread false es' :: post)); [|reflexivity].
    f_equal. unfold lower. rewrite !flat_map_app. simpl.
    apply spread_order.
    + apply Permutation_map, P.
    + unfold keys. rewrite map_map. exact ND.
  - unfold attr_spec. rewrite !flat_map_app. simpl. rewrite (sort_kv_unique _ _ P ND). reflexivity.
Qed.

(* before the repair F-C05-c (Keys() ranged over the Go map) the same statement is false *)
Lemma spread_order_unrepaired_refuted :
  exists items items',
    Permutation items items' /\ NoDup (keys items) /\
    render_attrs (and_attrs_iter (data_map items)) <> render_attrs (and_attrs_iter (data_map items')).
Proof.
  exists [(B "a", OStr (B "1")); (B "b", OStr (B "2"))], [(B "b", OStr (B "2")); (B "a", OStr (B "1"))].
  split; [apply perm_swap|]. split.
  - apply nodupb_NoDup. vm_compute. reflexivity.
  - vm_compute. intros H. discriminate H.
Qed.

(* ====================================================================== examples and refutations *)
(* repeated class sources (shorthand, attribute, array with false / null / empty entries), a boolean,
   a number, and a data map with five keys listed in a non-sorted order *)
Definition ex_srcs2 : list asrc :=
  [ SrcAttr (B "class") (AOne (SStr (B "btn"))) false true;
    SrcAttr (B "id") (AOne (SStr (B "a<b"))) true false;
    SrcAttr (B "class") (AArr [SStr (B "x"); SBool false; SNull; SStr []; SNum 3; SUndef; SStr (B "y&z")]) true false;
    SrcAttr (B "checked") (AOne (SBool true)) true true;
    SrcAttr (B "disabled") (AOne (SBool false)) true true;
    SrcAttr (B "n") (AOne (SNum 42)) true true;
    SrcAttr (B "id") (AOne (SStr (B "it's"))) true true;
    SrcAttr (B "class") (AOne SNull) true false;
    SrcSpread false [(B "k4", AOne (SStr (B """q"""))); (B "class", AArr [SStr (B "w"); SBool false]);
                     (B "k1", AOne SNull); (B "a", AOne (SNum (-7))); (B "k3", AOne (SBool true))] ].

Example ex2_dom : dom_C05 ex_srcs2 = true.
Proof. vm_compute. reflexivity. Qed.

Example ex2_model :
  model_attrs ex_srcs2 =
  Some (Some (B " class=""btn x 3 y&amp;z w"" id=""it&#39;s"" checked=""checked"" n=""42"" a=""-7"" k3=""k3"" k4=""&#34;q&#34;""")).
Proof. vm_compute. reflexivity. Qed.

Example ex2_spec :
  attr_spec ex_srcs2 =
  [(B "class", B "btn x 3 y&z w"); (B "id", B "it's"); (B "checked", B "checked"); (B "n", B "42");
   (B "a", B "-7"); (B "k3", B "k3"); (B "k4", B """q""")].
Proof. vm_compute. reflexivity. Qed.

Example ex2_spec_holds : spec_holds ex_srcs2.
Proof. exact (spec_holds_dom ex_srcs2 ex2_dom). Qed.

Example ex_spec_holds_thm : spec_holds ex_srcs.
Proof. exact (spec_holds_dom ex_srcs ex_dom). Qed.

(* a mixin call with a repeated class attribute and an object literal spread *)
Definition ex_srcs3 : list asrc :=
  [ SrcAttr (B "class") (AOne (SStr (B "own"))) false true;
    SrcMixin [(B "class", AOne (SStr (B "k")), true); (B "t", AOne (SBool true), true);
              (B "class", AArr [SStr (B "l"); SBool false; SStr (B "m")], false); (B "n", AOne (SNum 4), true);
              (B "class", AOne (SNum 5), true); (B "f", AOne SNull, true); (B "b", AOne (SStr (B "<")), false)] ].

Example ex3_dom : dom_C05 ex_srcs3 = true.
Proof. vm_compute. reflexivity. Qed.

Example ex3_model :
  model_attrs ex_srcs3 = Some (Some (B " class=""own k l m 5"" b=""&lt;"" n=""4"" t=""t""")).
Proof. vm_compute. reflexivity. Qed.

Example ex3_spec_holds : spec_holds ex_srcs3.
Proof. exact (spec_holds_dom ex_srcs3 ex3_dom). Qed.

Definition ex_srcs4 : list asrc :=
  [ SrcAttr (B "z") (AOne (SStr (B "1"))) true true;
    SrcSpread true [(B "k2", AOne (SStr (B "b"))); (B "class", AOne (SStr (B "c"))); (B "k1", AOne SUndef);
                    (B "a", AOne (SNum 7)); (B "z", AOne (SBool false))] ].

Example ex4_dom : dom_C05 ex_srcs4 = true.
Proof. vm_compute. reflexivity. Qed.

Example ex4_model : model_attrs ex_srcs4 = Some (Some (B " k2=""b"" class=""c"" a=""7""")).
Proof. vm_compute. reflexivity. Qed.

(* the order in which a data map's entries are listed does not show *)
Example ex_spread_order :
  model_attrs [SrcSpread false [(B "k4", AOne (SStr (B "4"))); (B "class", AOne (SStr (B "w"))); (B "k1", AOne (SNum 1));
                                (B "a", AOne (SBool true)); (B "k3", AOne SNull)]]
  = model_attrs [SrcSpread false [(B "k3", AOne SNull); (B "a", AOne (SBool true)); (B "k1", AOne (SNum 1));
                                  (B "class", AOne (SStr (B "w"))); (B "k4", AOne (SStr (B "4")))]]
  /\ model_attrs [SrcSpread false [(B "k4", AOne (SStr (B "4"))); (B "class", AOne (SStr (B "w"))); (B "k1", AOne (SNum 1));
                                   (B "a", AOne (SBool true)); (B "k3", AOne SNull)]]
     = Some (Some (B " a=""a"" class=""w"" k1=""1"" k4=""4""")).
Proof. vm_compute. split; reflexivity. Qed.

Ltac refute_spec :=
  let text := fresh "text" in let Hm := fresh "Hm" in let Hr := fresh "Hr" in
  intros [text [Hm Hr]]; vm_compute in Hm; inversion Hm; subst text; vm_compute in Hr; discriminate Hr.

(* F-C05-d (listed): without the restriction of unescaped attributes to string literals the statement is false:
   a(href!=u) with u = "u" renders href="" *)
Lemma spec_refuted_unescaped :
  exists srcs, forallb src_ok_d srcs = true /\ tmp_nodupb (class_recs (lower srcs)) = true /\ ~ spec_holds srcs.
Proof.
  exists [SrcAttr (B "href") (AOne (SStr (B "u"))) false false].
  split; [vm_compute; reflexivity|]. split; [vm_compute; reflexivity|]. refute_spec.
Qed.

Example ex_unescaped_witness :
  model_attrs [SrcAttr (B "href") (AOne (SStr (B "u"))) false false] = Some (Some (B " href="""""))
  /\ attr_spec [SrcAttr (B "href") (AOne (SStr (B "u"))) false false] = [(B "href", B "u")].
Proof. vm_compute. split; reflexivity. Qed.

(* without the hypothesis that no class entry repeats an earlier one verbatim the statement is false:
   .a.a renders class="a" (the explicit duplicate test in __attrs), the property demands class="a a" *)
Lemma spec_refuted_dup_class :
  exists srcs, forallb src_ok srcs = true /\ tmp_nodupb (class_recs (lower srcs)) = false /\ ~ spec_holds srcs.
Proof.
  exists [SrcAttr (B "class") (AOne (SStr (B "a"))) false true; SrcAttr (B "class") (AOne (SStr (B "a"))) false true].
  split; [vm_compute; reflexivity|]. split; [vm_compute; reflexivity|]. refute_spec.
Qed.

Example ex_dup_class_witness :
  let srcs := [SrcAttr (B "class") (AOne (SStr (B "a"))) false true; SrcAttr (B "class") (AOne (SStr (B "a"))) false true] in
  model_attrs srcs = Some (Some (B " class=""a""")) /\ attr_spec srcs = [(B "class", B "a a")].
Proof. vm_compute. split; reflexivity. Qed.

(* the other restrictions of the domain are needed as well *)
(* class=true: rendered as the boolean attribute class="class"; in an array as the word true *)
Example ex_class_true_outside_domain :
  let s1 := [SrcAttr (B "class") (AOne (SBool true)) true true] in
  let s2 := [SrcAttr (B "class") (AArr [SStr (B "a"); SBool true]) true true] in
  dom_C05 s1 = false /\ model_attrs s1 = Some (Some (B " class=""class""")) /\ attr_spec s1 = []
  /\ dom_C05 s2 = false /\ model_attrs s2 = Some (Some (B " class=""a true""")) /\ attr_spec s2 = [(B "class", B "a")]
  /\ ~ spec_holds s1 /\ ~ spec_holds s2.
Proof.
  cbv zeta. repeat (split; [vm_compute; reflexivity|]). split; refute_spec.
Qed.

(* a NUL byte in a value: template.HTMLEscapeString writes U+FFFD *)
Example ex_nul_outside_domain :
  let s := [SrcAttr (B "title") (AOne (SStr ["a"%char; zero; "b"%char])) true false] in
  dom_C05 s = false
  /\ model_attrs s = Some (Some (B " title=""a" ++ [ascii_of_N 239; ascii_of_N 191; ascii_of_N 189] ++ B "b"""))
  /\ ~ spec_holds s.
Proof.
  cbv zeta. repeat (split; [vm_compute; reflexivity|]). refute_spec.
Qed.

(* an array as the value of a name other than class is printed joined by spaces; the property says nothing about it *)
Example ex_array_nonclass_outside_domain :
  let s := [SrcAttr (B "title") (AArr [SStr (B "a"); SStr (B "b")]) true false] in
  dom_C05 s = false /\ model_attrs s = Some (Some (B " title=""a b""")) /\ attr_spec s = [] /\ ~ spec_holds s.
Proof.
  cbv zeta. repeat (split; [vm_compute; reflexivity|]). refute_spec.
Qed.
