(* The hand-written models against the tables that tools/extract reads out of the Go sources
   (Gen/Sigs.v, regenerated on every check):
     1. parameter signatures of the run-time helpers   Tmpl.Exec.builtin_sigs, mod_sig
     2. method tables of the template values           Tmpl.Runtime.array_sig, string_sig, the __assign of maps
     3. literal constants                              Tmpl.Exec.while_cap, Spec.Sem.while_limit
     4. the HTML escaper                               Base.Escape.esc_char, escape
   Every lemma is closed by computation on the two tables, so an edit of the Go source that changes one of
   these facts changes Gen/Sigs.v and this file stops compiling at the lemma concerned.
   The models only carry what the executor looks at: the fixed parameter types and the variadic element
   type (prepareArg / validateType); result types are extracted but not compared. *)
From PV Require Import Base.Bytes Base.Escape Tmpl.Value Tmpl.Runtime Tmpl.Exec Gen.Sigs.
From PV Require Spec.Sem.

(* ---- Go type names -> parameter types of the model ------------------------------------------------- *)
Definition pty_of_go (t : bytes) : option pty :=
  if beqb t (B "interface{}") then Some PIface
  else if beqb t (B "Object") then Some PObject
  else if beqb t (B "Number") then Some PNumber
  else if beqb t (B "string") then Some PString
  else if beqb t (B "bool") then Some PBool
  else if beqb t (B "reflect.Value") then Some PValue
  else if beqb t (B "*Array") || beqb t (B "*pugjs.Array") then Some PArrayP
  else if beqb t (B "*Map") || beqb t (B "*pugjs.Map") then Some PMapP
  else None.

Fixpoint ptys_of_go (l : list bytes) : option (list pty) :=
  match l with
  | [] => Some []
  | t :: r =>
    match pty_of_go t, ptys_of_go r with
    | Some p, Some ps => Some (p :: ps)
    | _, _ => None
    end
  end.

(* (parameter types, variadic, results) -> (fixed parameters, variadic element type) *)
Definition model_sig (g : go_sig) : option sig :=
  let '(ps, variadic, _) := g in
  match ptys_of_go ps with
  | None => None
  | Some l =>
    if variadic then
      match rev l with
      | [] => None
      | e :: fixed_rev => Some (rev fixed_rev, Some e)
      end
    else Some (l, None)
  end.

Definition pty_code (p : pty) : nat :=
  match p with
  | PIface => 0 | PObject => 1 | PNumber => 2 | PString => 3
  | PBool => 4 | PValue => 5 | PArrayP => 6 | PMapP => 7
  end.
Definition pty_eqb (a b : pty) : bool := Nat.eqb (pty_code a) (pty_code b).
Lemma pty_eqb_eq a b : pty_eqb a b = true <-> a = b.
Proof. destruct a, b; vm_compute; split; congruence. Qed.

Fixpoint ptys_eqb (a b : list pty) : bool :=
  match a, b with
  | [], [] => true
  | x :: r, y :: s => pty_eqb x y && ptys_eqb r s
  | _, _ => false
  end.
Lemma ptys_eqb_eq a b : ptys_eqb a b = true <-> a = b.
Proof.
  revert b; induction a as [|x a IH]; intros [|y b]; simpl; try (split; congruence).
  rewrite andb_true_iff, pty_eqb_eq, IH. split; [intros [-> ->]; reflexivity|intros H; inversion H; auto].
Qed.

Definition sig_eqb (a b : sig) : bool :=
  ptys_eqb (fst a) (fst b) &&
  match snd a, snd b with
  | None, None => true
  | Some x, Some y => pty_eqb x y
  | _, _ => false
  end.
Lemma sig_eqb_eq a b : sig_eqb a b = true <-> a = b.
Proof.
  destruct a as [fa va], b as [fb vb]; unfold sig_eqb; cbn [fst snd].
  rewrite andb_true_iff, ptys_eqb_eq.
  destruct va as [x|], vb as [y|]; try rewrite pty_eqb_eq; split;
    try (intros [-> H]; try subst; try discriminate; reflexivity);
    intros H; inversion H; auto.
Qed.

(* does the model's signature say what the source signature says? *)
Definition agrees (m : sig) (g : go_sig) : bool :=
  match model_sig g with
  | Some s => sig_eqb m s
  | None => false
  end.
Lemma agrees_eq m g : agrees m g = true <-> model_sig g = Some m.
Proof.
  unfold agrees; destruct (model_sig g) as [s|]; [|split; discriminate].
  rewrite sig_eqb_eq; split; congruence.
Qed.

(* ---- 1. run-time helpers -------------------------------------------------------------------------- *)
(* What a function name means in a template (TokenToTemplate: New(name).Funcs(funcmap).Funcs(p.funcs);
   findFunction: the template's functions, then builtins): the engine's template function of that name
   (module.go), else funcmap, else builtins. *)
Definition tfunc_sig (name : bytes) : option go_sig :=
  lookup name (map (fun e => let '(n, _, g) := e in (n, g)) tfunc_sigs).
Definition source_sig (name : bytes) : option go_sig :=
  match tfunc_sig name with
  | Some g => Some g
  | None => lookup name helper_sigs
  end.

Definition builtin_entry_ok (e : bytes * sig) : bool :=
  match source_sig (fst e) with
  | Some g => agrees (snd e) g
  | None => false
  end.

(* the model's entries that have no source entry, or whose source entry says something else *)
Definition builtin_sigs_disagreeing : list bytes :=
  map fst (filter (fun e => negb (builtin_entry_ok e)) builtin_sigs).

Lemma builtin_sigs_agree_b : forallb builtin_entry_ok builtin_sigs = true.
Proof. vm_compute. reflexivity. Qed.

Lemma builtin_sigs_none_disagrees : builtin_sigs_disagreeing = [].
Proof. vm_compute. reflexivity. Qed.

Lemma builtin_sigs_agree name sg :
  lookup name builtin_sigs = Some sg ->
  exists g, source_sig name = Some g /\ model_sig g = Some sg.
Proof.
  intros H.
  assert (In (name, sg) builtin_sigs) as Hin.
  { revert H. generalize builtin_sigs. induction l as [|[k v] r IH]; simpl; [discriminate|].
    destruct (beqb name k) eqn:E; [apply beqb_eq in E; subst; intros H; inversion H; auto|auto]. }
  pose proof (proj1 (forallb_forall _ _) builtin_sigs_agree_b _ Hin) as Hok.
  unfold builtin_entry_ok in Hok; cbn [fst snd] in Hok.
  destruct (source_sig name) as [g|]; [|discriminate].
  exists g; split; [reflexivity|apply agrees_eq; exact Hok].
Qed.

(* ---- modules: Math, JSON, Object ------------------------------------------------------------------ *)
(* Name.method: evalField tries MethodByName(method), then MethodByName(strings.Title(method)):
   the JavaScript name is the Go method name with the first letter in lower case *)
Definition lower_first (s : bytes) : bytes :=
  match s with
  | [] => []
  | c :: r =>
    let n := N_of_ascii c in
    (if (N.leb 65 n && N.leb n 90)%bool then ascii_of_N (n + 32) else c) :: r
  end.

(* the Go type behind a template name: the result type of the argument-less template function *)
Definition module_type (m : bytes) : option bytes :=
  match tfunc_sig m with
  | Some ([], false, [t]) => Some t
  | _ => None
  end.

Definition module_names : list bytes := [B "Math"; B "JSON"; B "Object"].

Definition module_methods_of (m : bytes) : list (bytes * go_sig) :=
  match module_type m with
  | None => []
  | Some t =>
    flat_map (fun e => let '(t', meth, g) := e in
                       if beqb t t' then [(lower_first meth, g)] else []) module_method_sigs
  end.

(* every method of the source that the model has a signature for has that signature in the source *)
Lemma mod_sig_agrees_b :
  forallb (fun m =>
    negb (match module_methods_of m with [] => true | _ => false end) &&
    forallb (fun e => match mod_sig m (fst e) with
                      | Some sg => agrees sg (snd e)
                      | None => true
                      end) (module_methods_of m)) module_names = true.
Proof. vm_compute. reflexivity. Qed.

(* the names the model knows *)
Definition mod_sig_names : list (bytes * bytes) :=
  [(B "Math", B "round"); (B "Math", B "ceil"); (B "Math", B "trunc"); (B "Math", B "min"); (B "Math", B "max");
   (B "JSON", B "stringify"); (B "Object", B "keys"); (B "Object", B "assign")].

Ltac sig_dom name :=
  repeat match goal with
  | |- context [beqb name ?c] =>
      let E := fresh "E" in
      destruct (beqb name c) eqn:E;
      [apply beqb_eq in E; subst name; intros _; vm_compute; reflexivity|]
  end;
  cbn; intros; discriminate.

Lemma mod_sig_dom m name sg :
  mod_sig m name = Some sg ->
  existsb (fun x => beqb (fst x) m && beqb (snd x) name) mod_sig_names = true.
Proof.
  unfold mod_sig.
  destruct (beqb m (B "Math")) eqn:E1; [apply beqb_eq in E1; subst m; sig_dom name|].
  destruct (beqb m (B "JSON")) eqn:E2; [apply beqb_eq in E2; subst m; sig_dom name|].
  destruct (beqb m (B "Object")) eqn:E3; [apply beqb_eq in E3; subst m; sig_dom name|].
  discriminate.
Qed.

(* ... and each of them is a method of the source with that signature *)
Lemma mod_sig_names_in_source :
  forallb (fun x => match mod_sig (fst x) (snd x), lookup (snd x) (module_methods_of (fst x)) with
                    | Some sg, Some g => agrees sg g
                    | _, _ => false
                    end) mod_sig_names = true.
Proof. vm_compute. reflexivity. Qed.

(* ---- 2. methods of arrays, strings, maps --------------------------------------------------------- *)
Definition methods_of (recv : bytes) : list (bytes * go_sig) :=
  flat_map (fun e => let '(r, js, _, g) := e in if beqb r recv then [(js, g)] else []) method_sigs.

(* source -> model: a dispatched name the model has a signature for has that signature in the source
   (names the model does not know: Proofs/SigsCoverProofs.v) *)
Lemma array_sig_agrees_b :
  forallb (fun e => match array_sig (fst e) with Some sg => agrees sg (snd e) | None => true end)
          (methods_of (B "*Array")) = true.
Proof. vm_compute. reflexivity. Qed.

Lemma string_sig_agrees_b :
  forallb (fun e => match string_sig (fst e) with
                    | Some sg => agrees sg (snd e)
                    | None => true
                    end) (methods_of (B "String")) = true.
Proof. vm_compute. reflexivity. Qed.

(* a map dispatches __assign, and the model gives it the signature [two] (eval_field) *)
Lemma map_assign_agrees_b :
  match lookup (B "__assign") (methods_of (B "*Map")) with
  | Some g => agrees two g
  | None => false
  end = true.
Proof. vm_compute. reflexivity. Qed.

(* model -> source: the names for which the model has a signature are names of the source *)
Lemma array_sig_dom name sg :
  array_sig name = Some sg -> mem name (map fst (methods_of (B "*Array"))) = true.
Proof. unfold array_sig. sig_dom name. Qed.

Lemma string_sig_dom name sg :
  string_sig name = Some sg -> mem name (map fst (methods_of (B "String"))) = true.
Proof. unfold string_sig. sig_dom name. Qed.

Lemma lookup_mem_forallb {A} (P : bytes * A -> bool) l name :
  forallb P l = true -> mem name (map fst l) = true ->
  exists g, In (name, g) l /\ P (name, g) = true.
Proof.
  intros HP Hm. apply mem_In in Hm. apply in_map_iff in Hm. destruct Hm as [[n g] [Hn Hin]].
  cbn in Hn; subst n. exists g; split; [exact Hin|].
  exact (proj1 (forallb_forall _ _) HP _ Hin).
Qed.

Lemma array_sig_agrees name sg :
  array_sig name = Some sg ->
  exists g, In (name, g) (methods_of (B "*Array")) /\ model_sig g = Some sg.
Proof.
  intros H. destruct (lookup_mem_forallb _ _ name array_sig_agrees_b (array_sig_dom _ _ H)) as [g [Hin Hok]].
  exists g; split; [exact Hin|]. cbn [fst snd] in Hok. rewrite H in Hok. apply agrees_eq; exact Hok.
Qed.

Lemma string_sig_agrees name sg :
  string_sig name = Some sg ->
  exists g, In (name, g) (methods_of (B "String")) /\ model_sig g = Some sg.
Proof.
  intros H. destruct (lookup_mem_forallb _ _ name string_sig_agrees_b (string_sig_dom _ _ H)) as [g [Hin Hok]].
  exists g; split; [exact Hin|]. cbn [fst snd] in Hok. rewrite H in Hok. apply agrees_eq; exact Hok.
Qed.

(* ---- 3. constants -------------------------------------------------------------------------------- *)
(* walkRange: i := 0; for test { body; i++; if i > go_while_cap { error } }: a loop of at most
   go_while_cap iterations completes.  Never unfold these with simpl/lia: 10000 is a unary numeral. *)
Lemma while_cap_is_source : while_cap = N.to_nat go_while_cap.
Proof. vm_compute. reflexivity. Qed.

Lemma while_limit_is_source : Spec.Sem.while_limit = N.to_nat go_while_cap.
Proof. vm_compute. reflexivity. Qed.

Lemma while_cap_is_source_N : N.of_nat while_cap = go_while_cap /\ N.of_nat Spec.Sem.while_limit = go_while_cap.
Proof. vm_compute. split; reflexivity. Qed.

(* the cap is reached long before the nesting limit of template calls could interfere, and the default
   rate limit is a positive number (Models/Gate.v: a limit of 0 disables the gate) *)
Lemma source_constants_sane :
  (N.ltb go_while_cap go_max_exec_depth && N.ltb 0 go_default_rate_limit)%bool = true.
Proof. vm_compute. reflexivity. Qed.

(* ---- 4. the escaper ------------------------------------------------------------------------------ *)
Fixpoint lookupN {A} (n : N) (l : list (N * A)) : option A :=
  match l with
  | [] => None
  | (k, v) :: r => if N.eqb n k then Some v else lookupN n r
  end.

(* HTMLEscape read off the extracted table: the replacement of a listed byte, any other byte itself *)
Definition table_esc_char (c : ascii) : bytes :=
  match lookupN (N_of_ascii c) escape_table with
  | Some r => r
  | None => [c]
  end.
Definition table_escape (s : bytes) : bytes := flat_map table_esc_char s.

Fixpoint N_upto (n : nat) : list N :=
  match n with O => [] | S k => N_upto k ++ [N.of_nat k] end.

Lemma esc_char_table_256 :
  forallb (fun n => beqb (esc_char (ascii_of_N n)) (table_esc_char (ascii_of_N n))) (N_upto 256) = true.
Proof. vm_compute. reflexivity. Qed.

Lemma esc_char_is_table c : esc_char c = table_esc_char c.
Proof. destruct c as [[] [] [] [] [] [] [] []]; vm_compute; reflexivity. Qed.

Lemma escape_is_table s : escape s = table_escape s.
Proof.
  unfold escape, table_escape. induction s as [|c s IH]; [reflexivity|].
  cbn [flat_map]. rewrite IH, esc_char_is_table. reflexivity.
Qed.

(* the table lists exactly the bytes the model calls special, each once *)
Lemma is_special_is_table c :
  is_special c = match lookupN (N_of_ascii c) escape_table with Some _ => true | None => false end.
Proof. destruct c as [[] [] [] [] [] [] [] []]; vm_compute; reflexivity. Qed.

Lemma escape_table_shape :
  (Nat.eqb (length escape_table) 5 &&
   forallb (fun e => N.ltb (fst e) 256 &&
                     Nat.eqb (length (filter (fun e' => N.eqb (fst e') (fst e)) escape_table)) 1) escape_table)%bool = true.
Proof. vm_compute. reflexivity. Qed.
