(* C04: every escaped code node is lowered to something that cannot let markup through:
   static escaped text, a silent statement, or an action whose pipeline ends in the escaper;
   and an action ending in the escaper emits escaped text whatever the data. *)
From PV Require Import Base.Bytes Base.Escape Js.Ast Tmpl.Value Tmpl.IR Tmpl.Runtime Tmpl.Exec Pug.Ast Pug.Compile
  Proofs.EscapeProofs Proofs.C06Proofs.

Definition html_cmd : list targ := [AIdent (B "__pug__html")].
Definition ends_in_escaper (p : tpipe) : Prop :=
  fst p = [] /\ exists first, snd p = [first; html_cmd].

Inductive printing_shape : list tok -> Prop :=
| PS_static s : EscText s -> printing_shape [TText s]
(* static text whose braces are quoted (after repair F-C06-f): texts and the string-literal actions {{"{{"}},
   {{"}}"}}, {{"{"}} (no trim markers), whose values, in order, are the escaped text *)
| PS_quoted ts v : toks_value ts = Some v -> EscText v -> printing_shape ts
| PS_null txt : printing_shape [TAct txt false false (AcPipe ([], [[AIdent (B "null")]]))]
| PS_decl txt x cmds : printing_shape [TAct txt false true (AcPipe ([x], cmds))]
| PS_assign txt o k a :
    printing_shape [TAct txt false true (AcPipe ([], [[APipe [] [[AVar o [B "__assign"]; AStr k; a]]]]))]
| PS_escaped txt p : ends_in_escaper p -> printing_shape [TAct txt false false (AcPipe p)].

(* decimal digits and the minus sign are not special *)
Lemma digit_not_special n : (n < 10)%N -> is_special (digit n) = false.
Proof.
  intros H. unfold digit.
  assert (Hc : (n = 0 \/ n = 1 \/ n = 2 \/ n = 3 \/ n = 4 \/ n = 5 \/ n = 6 \/ n = 7 \/ n = 8 \/ n = 9)%N) by lia.
  repeat (destruct Hc as [->|Hc]; [reflexivity|]). subst; reflexivity.
Qed.

Lemma show_N_fuel_plain fuel n acc :
  forallb (fun c => negb (is_special c)) acc = true ->
  forallb (fun c => negb (is_special c)) (show_N_fuel fuel n acc) = true.
Proof.
  revert n acc; induction fuel as [|f IH]; intros n acc Ha; cbn [show_N_fuel]; [exact Ha|].
  assert (Hd : forallb (fun c => negb (is_special c)) (digit (N.modulo n 10) :: acc) = true).
  { cbn [forallb]. rewrite digit_not_special by (apply N.mod_lt; discriminate). exact Ha. }
  destruct (N.ltb n 10); [exact Hd|apply IH; exact Hd].
Qed.

Lemma plain_EscText s : forallb (fun c => negb (is_special c)) s = true -> EscText s.
Proof.
  induction s as [|c s IH]; cbn [forallb]; intros H; [constructor|].
  apply andb_prop in H. destruct H as [Hc Hs].
  apply ET_char; [destruct (is_special c); [discriminate|reflexivity]|auto].
Qed.

Lemma show_Z_EscText z : EscText (show_Z z).
Proof.
  apply plain_EscText. destruct z; [reflexivity| |]; cbn [show_Z].
  - apply show_N_fuel_plain; reflexivity.
  - cbn [forallb]. change (negb (is_special "-"%char)) with true. cbn [andb].
    apply show_N_fuel_plain; reflexivity.
Qed.

Section Shape.
  Variable funcs : list bytes.

  (* the branch-by-branch claim: whatever the expression, escaped buffered code is lowered to
     one of the harmless shapes (number literals with a fraction are printed as Go prints the float:
     digits, '.', 'e', '+', '-'; they are outside this statement) *)
  Lemma cwrap_shape e toks :
    (forall t, e <> JNumF t) ->
    cwrap funcs false e = Some toks -> printing_shape toks.
  Proof.
    intros Hnf H. destruct e; cbn [cwrap] in H;
      try (destruct (carg funcs true _) as [[t [a|]]|] eqn:Ec; inversion H; subst;
           apply PS_escaped; split; [reflexivity|eexists; reflexivity]).
    - (* JNum *) inversion H; subst. apply PS_static, show_Z_EscText.
    - (* JNumF *) exfalso; eapply Hnf; reflexivity.
    - (* JStr *)
      rewrite ctext_total in H. destruct (text_toks (quote_text (escape s))) as [|t0 r0] eqn:Et; inversion H; subst.
      + apply PS_static. constructor.
      + rewrite <- Et. apply (PS_quoted _ (escape s)); [apply toks_value_text|apply escape_EscText].
    - (* JBool *) inversion H; subst. apply PS_static, plain_EscText. destruct b; reflexivity.
    - (* JNull *) inversion H; subst. apply PS_null.
    - (* JUn *)
      destruct op;
        try (destruct (negb (mem (op_name (unop_token _)) runtime_funcs)); [discriminate|];
             destruct (carg funcs true e) as [[t [a|]]|]; inversion H; subst;
             apply PS_escaped; split; [reflexivity|eexists; reflexivity]);
        try discriminate.
      (* UInc *)
      destruct e; try discriminate.
      destruct (negb (is_ident x) || known funcs x); inversion H; subst. apply PS_decl.
    - (* JAssign *)
      destruct op; [discriminate|].
      destruct e1; try discriminate.
      + destruct (negb (is_ident x) || known funcs x); [discriminate|].
        destruct (carg funcs true e2) as [[t a]|]; inversion H; subst. apply PS_decl.
      + destruct e1; try discriminate.
        destruct (negb (is_ident x) || known funcs x || negb (is_ident name)); [discriminate|].
        destruct (carg funcs true e2) as [[t a]|]; inversion H; subst. apply PS_assign.
    - (* JSeq *) discriminate.
    - (* JVar *)
      destruct (negb (is_ident x)); [discriminate|].
      destruct init as [i|].
      + destruct (carg funcs true i) as [[t a]|]; inversion H; subst. apply PS_decl.
      + inversion H; subst. apply PS_decl.
  Qed.
End Shape.


(* ---- the escaper at the end of a pipeline ---------------------------------------------------- *)
Lemma rt_html_escaped h l v : rt_html h l = Ok v -> exists t, v = VStr (escape t).
Proof.
  destruct l as [|x [|y r]]; cbn [rt_html]; intros H.
  - injection H as <-. exists []. reflexivity.
  - destruct x.
    1: { injection H as <-. exists (B "<nil>"). reflexivity. }
    all: match type of H with context [bind ?a _] => destruct a eqn:E end; cbn [bind] in H; try discriminate;
         injection H as <-; eexists; reflexivity.
  - discriminate.
Qed.

Lemma apply_html_1 h x : apply_builtin h (B "__pug__html") [x] = (do v <- rt_html h [x]; Ok (v, h)).
Proof. reflexivity. Qed.
Lemma apply_html_0 h : apply_builtin h (B "__pug__html") [] = Ok (VStr [], h).
Proof. reflexivity. Qed.

Lemma html_cmd_escaped fuel E h final v h' :
  eval_cmd fuel E h html_cmd final = Ok (v, h') -> exists t, v = VStr (escape t) /\ h' = h.
Proof.
  destruct fuel as [|f]; [discriminate|]. cbn [eval_cmd html_cmd].
  destruct f as [|f]; [discriminate|]. cbn [call_ident].
  assert (E1 : beqb (B "__pug__html") (B "null") = false) by (vm_compute; reflexivity).
  assert (E2 : beqb (B "__pug__html") (B "__freeze") = false) by (vm_compute; reflexivity).
  assert (E3 : lookup (B "__pug__html") builtin_sigs = Some ([], Some PIface)) by (vm_compute; reflexivity).
  rewrite E1, E2, E3.
  destruct f as [|f]; [discriminate|]. cbn [eval_args length Nat.add Nat.leb nth_error].
  destruct (valid final) eqn:Hv; cbn [negb coerce_val bind].
  - rewrite apply_html_1. intros H.
    destruct (rt_html h [final]) eqn:Er; cbn [bind] in H; try discriminate.
    injection H as <- <-. destruct (rt_html_escaped _ _ _ Er) as [t ->]. exists t. split; reflexivity.
  - rewrite apply_html_0. intros H. injection H as <- <-. exists []. split; reflexivity.
Qed.

Lemma cmds_escaped fuel E h first final v h' :
  eval_cmds fuel E h [first; html_cmd] final = Ok (v, h') -> exists t, v = VStr (escape t).
Proof.
  destruct fuel as [|f]; [discriminate|]. cbn [eval_cmds].
  destruct (eval_cmd f E h first final) as [[v1 h1]| | |]; cbn [bind]; try discriminate.
  destruct f as [|f]; [discriminate|]. cbn [eval_cmds].
  destruct (eval_cmd f E h1 html_cmd v1) as [[v2 h2]| | |] eqn:Eh; cbn [bind]; try discriminate.
  destruct (html_cmd_escaped _ _ _ _ _ _ Eh) as [t [-> ->]].
  destruct f as [|f]; [discriminate|]. cbn [eval_cmds]. intros H. injection H as <- <-. exists t. reflexivity.
Qed.

Lemma action_escaped defs fuel dot s p s' :
  ends_in_escaper p -> exec_node defs fuel dot s (NAction p) = Ok s' ->
  exists w, x_out s' = escape w :: x_out s.
Proof.
  intros [Hd [first Hc]]. destruct p as [decl cmds]. cbn in Hd, Hc. subst.
  destruct fuel as [|f]; [discriminate|].
  assert (Hgen : exec_node defs (S f) dot s (NAction ([], [first; html_cmd])) =
    (do x <- eval_pipeline (env_of s dot) (x_heap s) ([], [first; html_cmd]);
     let '(v, h1) := x in do t <- print_text h1 v; Ok (emit (set_heap s h1) t))).
  { cbn [exec_node]. destruct first as [|a [|b [|c r]]]; try reflexivity; destruct a; try reflexivity; destruct b; reflexivity. }
  rewrite Hgen. unfold eval_pipeline. cbn [snd].
  destruct (eval_cmds expr_fuel (env_of s dot) (x_heap s) [first; html_cmd] VInvalid) as [[v h1]| | |] eqn:Ec;
    cbn [bind]; try discriminate.
  destruct (cmds_escaped _ _ _ _ _ _ _ Ec) as [t ->].
  unfold print_text, to_text, depth_fuel. cbn [text_of of_opt bind].
  intros H. injection H as <-. exists t. reflexivity.
Qed.

Lemma decl_silent defs fuel dot s x cmds s' :
  exec_node defs fuel dot s (NAction ([x], cmds)) = Ok s' -> x_out s' = x_out s.
Proof.
  destruct fuel as [|f]; [discriminate|]. cbn [exec_node].
  destruct (eval_pipeline (env_of s dot) (x_heap s) ([x], cmds)) as [[v h1]| | |]; cbn [bind]; try discriminate.
  intros H. injection H as <-. reflexivity.
Qed.

Lemma text_emits defs fuel dot s t s' :
  exec_node defs fuel dot s (NText t) = Ok s' -> x_out s' = t :: x_out s.
Proof. destruct fuel as [|f]; [discriminate|]. cbn [exec_node]. intros H. injection H as <-. reflexivity. Qed.
