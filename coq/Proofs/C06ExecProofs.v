(* C06: from the tokens of a static tree to what the model of the executor (Tmpl/Exec.v) prints.
   Kept apart from Proofs/C06Proofs.v because it is the only part that depends on Tmpl/Exec.v. *)
From PV Require Import Base.Bytes Js.Ast Tmpl.Value Tmpl.IR Tmpl.Exec Pug.Ast Pug.Compile Spec.HtmlSer
  Tmpl.Lexer Proofs.C06Proofs.

(* ---- static tokens through merge_text / apply_trims --------------------------------------------------- *)
Lemma tok_value_marker_free t v : tok_value t = Some v -> marker_free t = true.
Proof. destruct t as [s|txt [|] [|] a]; cbn; intros H; try discriminate; reflexivity. Qed.

Lemma toks_value_marker_free ts : forall v, toks_value ts = Some v -> forallb marker_free ts = true.
Proof.
  induction ts as [|t r IH]; intros v H; [reflexivity|].
  cbn [toks_value] in H. destruct (tok_value t) as [a|] eqn:Et; [|discriminate].
  destruct (toks_value r) as [b|] eqn:Er; [|discriminate].
  cbn [forallb]. rewrite (tok_value_marker_free _ _ Et), (IH b eq_refl). reflexivity.
Qed.

Lemma toks_value_cons t r :
  toks_value (t :: r) = match tok_value t, toks_value r with Some a, Some b => Some (a ++ b) | _, _ => None end.
Proof. reflexivity. Qed.

Lemma merge_text_value ts : forall v, toks_value ts = Some v -> toks_value (merge_text ts) = Some v.
Proof.
  induction ts as [|t r IH]; intros v H; [exact H|].
  cbn [toks_value] in H. destruct (tok_value t) as [a|] eqn:Et; [|discriminate].
  destruct (toks_value r) as [b|] eqn:Er; [|discriminate]. inversion H; subst. specialize (IH b eq_refl).
  destruct t as [x|txt l rt ac]; cbn [merge_text].
  - cbn [tok_value] in Et. inversion Et; subst.
    destruct (merge_text r) as [|[y|txt l rt ac] r'].
    + cbn [toks_value] in *. inversion IH; subst. reflexivity.
    + cbn [toks_value tok_value] in *. destruct (toks_value r') as [w|]; [|discriminate].
      inversion IH; subst. rewrite app_assoc. reflexivity.
    + rewrite toks_value_cons, IH. reflexivity.
  - rewrite toks_value_cons, Et, IH. reflexivity.
Qed.

Lemma filter_nonempty_value ts : forall v, toks_value ts = Some v ->
  toks_value (filter (fun t => match t with TText [] => false | _ => true end) ts) = Some v.
Proof.
  induction ts as [|t r IH]; intros v H; [exact H|].
  cbn [toks_value] in H. destruct (tok_value t) as [a|] eqn:Et; [|discriminate].
  destruct (toks_value r) as [b|] eqn:Er; [|discriminate]. inversion H; subst. specialize (IH b eq_refl).
  cbn [filter]. destruct t as [[|c x]|txt l rt ac].
  - cbn [tok_value] in Et. inversion Et; subst. exact IH.
  - cbn [toks_value]. rewrite Et, IH. reflexivity.
  - cbn [toks_value]. rewrite Et, IH. reflexivity.
Qed.

Lemma lexed_value ts v : toks_value ts = Some v -> toks_value (lexed ts) = Some v.
Proof.
  intros H. unfold lexed. pose proof (merge_text_value ts v H) as Hm.
  rewrite apply_trims_marker_free by (exact (toks_value_marker_free _ _ Hm)).
  apply filter_nonempty_value. exact Hm.
Qed.

Lemma merge_text_length ts : length (merge_text ts) <= length ts.
Proof.
  induction ts as [|t r IH]; [reflexivity|].
  destruct t as [x|txt l rt ac]; cbn [merge_text].
  - destruct (merge_text r) as [|[y|txt l rt ac] r']; cbn [length] in *; lia.
  - cbn [length]. lia.
Qed.

Lemma lexed_length ts v : toks_value ts = Some v -> length (lexed ts) <= length ts.
Proof.
  intros H. unfold lexed. pose proof (merge_text_value ts v H) as Hm.
  rewrite apply_trims_marker_free by (exact (toks_value_marker_free _ _ Hm)).
  pose proof (merge_text_length ts).
  assert (Hf : forall (f : tok -> bool) l, length (filter f l) <= length l).
  { intros f l. induction l as [|a l IHl]; [reflexivity|]. cbn [filter]. destruct (f a); cbn [length]; lia. }
  specialize (Hf (fun t => match t with TText [] => false | _ => true end) (merge_text ts)). lia.
Qed.

(* ---- the parser on static tokens ------------------------------------------------------------------------ *)
Definition node_of (t : tok) : tnode :=
  match t with
  | TText s => NText s
  | TAct _ _ _ (AcPipe p) => NAction p
  | TAct _ _ _ _ => NText []
  end.
Definition node_value (n : tnode) : option bytes :=
  match n with
  | NText s => Some s
  | NAction ([], [[AStr x]]) => Some x
  | _ => None
  end.
Fixpoint nodes_value (ns : list tnode) : option bytes :=
  match ns with
  | [] => Some []
  | n :: r => match node_value n, nodes_value r with Some a, Some b => Some (a ++ b) | _, _ => None end
  end.

Lemma parse_list_static ts : forall fuel v, toks_value ts = Some v -> length ts < fuel ->
  parse_list fuel ts = Some (map node_of ts, StopEOF, []) /\ nodes_value (map node_of ts) = Some v.
Proof.
  induction ts as [|t r IH]; intros fuel v H Hf.
  - destruct fuel; [lia|]. split; [reflexivity|exact H].
  - destruct fuel as [|f]; [lia|]. cbn [length] in Hf.
    cbn [toks_value] in H. destruct (tok_value t) as [a|] eqn:Et; [|discriminate].
    destruct (toks_value r) as [b|] eqn:Er; [|discriminate]. inversion H; subst.
    destruct (IH f b eq_refl ltac:(lia)) as [Hp Hv].
    destruct t as [x|txt [|] [|] [[[|d ds] cmds]| | | | | | |]]; try discriminate Et.
    + cbn [parse_list map node_of nodes_value node_value]. rewrite Hp, Hv.
      cbn [tok_value] in Et. inversion Et; subst. split; reflexivity.
    + cbn [parse_list map node_of]. rewrite Hp. split; [reflexivity|].
      cbn [nodes_value]. rewrite Hv.
      destruct cmds as [|[|[] [|? ?]] [|? ?]]; cbn [tok_value] in Et; try discriminate Et.
      inversion Et; subst. reflexivity.
Qed.

Lemma parse_program_static ts v : toks_value ts = Some v ->
  parse_program ts = Some {| p_main := map node_of (lexed ts); p_defs := [] |} /\
  nodes_value (map node_of (lexed ts)) = Some v.
Proof.
  intros H. pose proof (lexed_value ts v H) as Hl.
  destruct (parse_list_static (lexed ts) (S (length (lexed ts))) v Hl ltac:(lia)) as [Hp Hv].
  split; [|exact Hv]. unfold parse_program. cbn zeta. cbn [parse_top]. rewrite Hp. reflexivity.
Qed.

(* ---- the executor on static nodes ----------------------------------------------------------------------- *)
Lemma concat_bytes_app a b : concat_bytes (a ++ b) = concat_bytes a ++ concat_bytes b.
Proof. induction a as [|x a IH]; [reflexivity|]. cbn [app concat_bytes]. rewrite IH, app_assoc. reflexivity. Qed.

Lemma exec_text defs f dot fr h out t :
  exec_node defs (S f) dot {| x_frames := fr; x_heap := h; x_out := out |} (NText t)
  = Ok {| x_frames := fr; x_heap := h; x_out := t :: out |}.
Proof. reflexivity. Qed.

Lemma exec_lit defs f dot fr h out x :
  exec_node defs (S f) dot {| x_frames := fr; x_heap := h; x_out := out |} (NAction ([], [[AStr x]]))
  = Ok {| x_frames := fr; x_heap := h; x_out := x :: out |}.
Proof. reflexivity. Qed.

Lemma exec_static defs ns : forall fuel dot fr h out v,
  nodes_value ns = Some v -> S (length ns) < fuel ->
  exists out', exec_nodes defs fuel dot {| x_frames := fr; x_heap := h; x_out := out |} ns
               = Ok {| x_frames := fr; x_heap := h; x_out := out' |} /\
               concat_bytes (rev out') = concat_bytes (rev out) ++ v.
Proof.
  induction ns as [|n r IH]; intros fuel dot fr h out v Hv Hf.
  - destruct fuel; [lia|]. exists out. cbn in Hv. inversion Hv; subst. split; [reflexivity|rewrite app_nil_r; reflexivity].
  - destruct fuel as [|[|f]]; cbn [length] in Hf; try lia.
    cbn [nodes_value] in Hv. destruct (node_value n) as [a|] eqn:En; [|discriminate].
    destruct (nodes_value r) as [b|] eqn:Er; [|discriminate]. inversion Hv; subst.
    assert (Hn : exec_node defs (S f) dot {| x_frames := fr; x_heap := h; x_out := out |} n
                 = Ok {| x_frames := fr; x_heap := h; x_out := a :: out |}).
    { destruct n as [s|[[|d ds] cmds]| | |]; try discriminate En.
      - cbn [node_value] in En. inversion En; subst. apply exec_text.
      - destruct cmds as [|[|[] [|? ?]] [|? ?]]; cbn [node_value] in En; try discriminate En.
        inversion En; subst. apply exec_lit. }
    destruct (IH (S f) dot fr h (a :: out) b eq_refl ltac:(lia)) as [out' [He Ho]].
    exists out'. split.
    + change (exec_nodes defs (S (S f)) dot {| x_frames := fr; x_heap := h; x_out := out |} (n :: r))
        with (bind (exec_node defs (S f) dot {| x_frames := fr; x_heap := h; x_out := out |} n)
                   (fun s1 => exec_nodes defs (S f) dot s1 r)).
      rewrite Hn. exact He.
    + rewrite Ho. cbn [rev]. rewrite concat_bytes_app. cbn [concat_bytes]. rewrite app_nil_r, <- app_assoc. reflexivity.
Qed.

(* ---- the model's production render of a static tree ----------------------------------------------------- *)
Theorem static_model_output funcs nodes data s0 :
  forallb static nodes = true -> forallb names_ok nodes = true -> init_state data = Some s0 ->
  x_out s0 = [] ->
  exists ts p, compile funcs false nodes = Some ts /\ parse_program ts = Some p /\
               (S (length ts) < exec_fuel -> run_program p data = OOk (html_ser nodes)).
Proof.
  intros Hs Hn Hi Ho.
  destruct (static_compile funcs nodes Hs Hn) as [ts [E [_ V]]].
  destruct (parse_program_static ts _ V) as [Hp Hv].
  eexists ts, _. split; [exact E|]. split; [exact Hp|].
  intros Hlen. unfold run_program. rewrite Hi. cbn [p_defs p_main].
  destruct s0 as [fr h out]. cbn [x_out] in Ho. subst out.
  pose proof (lexed_length ts _ V) as Hll.
  destruct (exec_static [] (map node_of (lexed ts)) exec_fuel VInvalid fr h [] _ Hv) as [out' [He Hout]].
  { rewrite map_length. lia. }
  rewrite He. unfold output. cbn [x_out]. rewrite Hout. reflexivity.
Qed.

Lemma init_state_out data s0 : init_state data = Some s0 -> x_out s0 = [].
Proof.
  unfold init_state. destruct data; try discriminate.
  destruct (convert [] (DMap l)) as [v h1]. destruct v; try discriminate.
  destruct (hget h1 _) as [[|items ord]|]; try discriminate.
  destruct (alloc h1 (OMap [] [])) as [gl h2]. intros H; inversion H; reflexivity.
Qed.

Theorem static_model_output' funcs nodes data :
  forallb static nodes = true -> forallb names_ok nodes = true -> init_state data <> None ->
  exists ts p, compile funcs false nodes = Some ts /\ parse_program ts = Some p /\
               (S (length ts) < exec_fuel -> run_program p data = OOk (html_ser nodes)).
Proof.
  intros Hs Hn Hi. destruct (init_state data) as [s0|] eqn:E; [|congruence].
  exact (static_model_output funcs nodes data s0 Hs Hn E (init_state_out _ _ E)).
Qed.
