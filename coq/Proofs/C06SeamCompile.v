(* C06 -- the compiler emits well-formed tokens only (Proofs/C06SeamProofs.v: wf_toks), for every node kind.
   Part T1: character classes; what identifiers, numbers, helper names and %q-quoted strings look like.
   Part T2: expressions (carg, all of jexpr by a nested induction principle).
   Part T3: statements and code lines (cwrap, cstmt, ccode), texts (ctext), attributes (cattrs).
   Part T4: nodes (cnode, all kinds, threading the compile state) and compile.
   The domain [node_dom] excludes exactly: a float literal whose text is not a number (the model's JNumF
   carries arbitrary bytes) and an element name ending in "{"; both are forced ([lexer_seam_refuted]).
   Before the repairs F-C06-f (buffered string literal ending in "{") and F-C01-h (template literal with a
   double quote in a literal part) two more exclusions were forced ([lexer_seam_unrepaired_refuted]). *)
From PV Require Import Base.Bytes Base.Escape Js.Ast Tmpl.IR Tmpl.Lexer Pug.Ast Pug.Compile Gen.Tables Gen.OpsTable
  Proofs.C06Proofs Proofs.C06SeamProofs.

(* ================================================================================================== *)
(* Part T1  character classes                                                                         *)
(* ================================================================================================== *)
Definition SQ : ascii := "'"%char.
Definition BQ : ascii := "`"%char.

(* [H : f c = true] for a class [f] that computes to false on the constant [X]: c is not X *)
Ltac not_char H c X :=
  destruct (Ascii.eqb_spec c X) as [->|?]; [vm_compute in H; discriminate H|].

Definition solid (c : ascii) : bool := negb (is_blank c) && negb (Ascii.eqb c "-").

Lemma ident_char_pchar c : is_ident_char c = true -> pchar c = true.
Proof.
  intros H. unfold pchar, achar, is_eol.
  not_char H c "}"%char. not_char H c CR. not_char H c LF. not_char H c DQ. not_char H c "'"%char.
  not_char H c "`"%char. not_char H c BSL. reflexivity.
Qed.
Lemma ident_char_solid c : is_ident_char c = true -> solid c = true.
Proof.
  intros H. unfold solid, is_blank. not_char H c " "%char. not_char H c TAB. not_char H c "-"%char. reflexivity.
Qed.
Lemma ident_char_start c : is_ident_char c = true -> Ascii.eqb c "/" = false /\ Ascii.eqb c "-" = false /\ Ascii.eqb c "{" = false.
Proof. intros H. not_char H c "/"%char. not_char H c "-"%char. not_char H c "{"%char. auto. Qed.

(* words: identifiers, decimal numbers, helper names *)
Definition word (x : bytes) : bool := forallb is_ident_char x.
(* the last byte exists and is in the class [f] *)
Definition lastp (f : ascii -> bool) (t : bytes) : bool := match rev t with c :: _ => f c | [] => false end.
Definition solid_end (t : bytes) : bool := lastp solid t.

Lemma lastp_snoc f x c : lastp f (x ++ [c]) = f c.
Proof. unfold lastp. rewrite rev_app_distr. reflexivity. Qed.
Lemma lastp_app f x y : lastp f y = true -> lastp f (x ++ y) = true.
Proof.
  unfold lastp. rewrite rev_app_distr. destruct (rev y) as [|c r]; [discriminate|]. intros H. exact H.
Qed.
Lemma lastp_cons f c x : lastp f x = true -> lastp f (c :: x) = true.
Proof. apply (lastp_app f [c]). Qed.
Lemma lastp_mono (f g : ascii -> bool) t : (forall c, f c = true -> g c = true) -> lastp f t = true -> lastp g t = true.
Proof. unfold lastp. intros H. destruct (rev t) as [|c r]; [discriminate|]. apply H. Qed.

Lemma word_pass x : word x = true -> forallb pchar x = true.
Proof.
  unfold word. induction x as [|c x IH]; [reflexivity|]. cbn [forallb]. intros H. apply andb_true_iff in H.
  destruct H as [Hc Hx]. rewrite (ident_char_pchar c Hc), (IH Hx). reflexivity.
Qed.
Lemma word_arun x i : word x = true -> arun i x = Some i.
Proof. intros H. apply arun_pass, word_pass, H. Qed.
Lemma word_solid_end x : word x = true -> x <> [] -> solid_end x = true.
Proof.
  intros H Hn. unfold solid_end, lastp. unfold word in H. rewrite <- forallb_rev in H.
  destruct (rev x) as [|c r] eqn:E.
  - apply (f_equal (@rev ascii)) in E. rewrite rev_involutive in E. contradiction.
  - cbn [forallb] in H. apply andb_true_iff in H. destruct H as [H _]. apply ident_char_solid, H.
Qed.
Lemma word_good_start x : word x = true -> good_start x = true.
Proof.
  destruct x as [|c r]; [reflexivity|]. unfold word. cbn [forallb good_start]. intros H. apply andb_true_iff in H.
  destruct H as [H _]. destruct (ident_char_start c H) as (H1 & H2 & _). rewrite H1, H2. reflexivity.
Qed.
Lemma word_no_brace x : word x = true -> forallb (fun c => negb (Ascii.eqb c "{")) x = true.
Proof.
  unfold word. induction x as [|c x IH]; [reflexivity|]. cbn [forallb]. intros H. apply andb_true_iff in H.
  destruct H as [Hc Hx]. destruct (ident_char_start c Hc) as (_ & _ & H3). rewrite H3, (IH Hx). reflexivity.
Qed.

Lemma ident_start_char c : is_ident_start c = true -> is_ident_char c = true.
Proof. intros H. unfold is_ident_char. cbv zeta. rewrite H. reflexivity. Qed.
Lemma ident_word x : is_ident x = true -> word x = true /\ x <> [].
Proof.
  destruct x as [|c r]; [discriminate|]. cbn [is_ident]. intros H. apply andb_true_iff in H. destruct H as [Hc Hr].
  split; [|discriminate]. unfold word. cbn [forallb]. rewrite (ident_start_char c Hc). exact Hr.
Qed.

(* decimal numbers *)
Lemma digit_ident m : (m < 10)%N -> is_ident_char (digit m) = true.
Proof.
  intros H. destruct m as [|p]; [reflexivity|].
  do 4 (try destruct p as [p|p|]); try reflexivity; exfalso; lia.
Qed.
Lemma show_N_fuel_word fuel : forall n acc, word acc = true -> word (show_N_fuel fuel n acc) = true.
Proof.
  induction fuel as [|f IH]; intros n acc H; [exact H|].
  cbn [show_N_fuel].
  assert (Hd : word (digit (n mod 10) :: acc) = true).
  { unfold word. cbn [forallb]. rewrite digit_ident; [exact H|]. apply N.mod_lt. discriminate. }
  destruct (N.ltb n 10); [exact Hd|]. apply IH, Hd.
Qed.
Lemma show_N_fuel_nonnil' fuel : forall n acc, acc <> [] -> show_N_fuel fuel n acc <> [].
Proof.
  induction fuel as [|f IH]; intros n acc H; [exact H|].
  cbn [show_N_fuel]. destruct (N.ltb n 10); [discriminate|]. apply IH. discriminate.
Qed.
Lemma show_N_word n : word (show_N n) = true /\ show_N n <> [].
Proof.
  unfold show_N. split; [apply show_N_fuel_word; reflexivity|].
  cbn [show_N_fuel]. destruct (N.ltb n 10); [discriminate|]. apply show_N_fuel_nonnil'. discriminate.
Qed.
Lemma show_nat_word n : word (show_nat n) = true /\ show_nat n <> [].
Proof. apply show_N_word. Qed.

(* the text of an expression: accepted by the scanner, a harmless first byte, a solid last byte *)
Definition etext (t : bytes) : Prop := arun false t = Some false /\ good_start t = true /\ solid_end t = true.

Lemma solid_end_snoc x c : solid_end (x ++ [c]) = solid c.
Proof. apply lastp_snoc. Qed.
Lemma solid_end_app x y : solid_end y = true -> solid_end (x ++ y) = true.
Proof. apply lastp_app. Qed.
Lemma solid_end_nonnil t : solid_end t = true -> t <> [].
Proof. intros H ->. discriminate H. Qed.
Lemma good_start_app t x : good_start t = true -> t <> [] -> good_start (t ++ x) = true.
Proof.
  destruct t as [|c [|d r]]; [congruence| |]; cbn [good_start app]; intros H _.
  - rewrite orb_false_r in H. apply andb_true_iff in H. destruct H as [H1 H2]. rewrite H1, H2. reflexivity.
  - exact H.
Qed.

Lemma word_etext x : word x = true -> x <> [] -> etext x.
Proof. intros H Hn. split; [|split]; [apply word_arun, H|apply word_good_start, H|apply word_solid_end; assumption]. Qed.

Lemma show_Z_etext z : etext (show_Z z).
Proof.
  destruct z as [|p|p]; cbn [show_Z].
  - split; [|split]; reflexivity.
  - destruct (show_N_word (N.pos p)) as [H Hn]. apply word_etext; assumption.
  - destruct (show_N_word (N.pos p)) as [H Hn]. split; [|split].
    + cbn [arun]. replace (Ascii.eqb "-" DQ) with false by reflexivity. replace (achar "-") with true by reflexivity.
      apply word_arun, H.
    + destruct (show_N (N.pos p)) as [|d r]; [congruence|]. cbn [good_start].
      unfold word in H. cbn [forallb] in H. apply andb_true_iff in H. destruct H as [Hd _].
      assert (E : Ascii.eqb d " " = false) by (not_char Hd d " "%char; reflexivity).
      rewrite E. reflexivity.
    + change ("-"%char :: show_N (N.pos p)) with (["-"%char] ++ show_N (N.pos p)).
      apply solid_end_app, word_solid_end; assumption.
Qed.
Lemma show_Z_no_brace z : forallb (fun c => negb (Ascii.eqb c "{")) (show_Z z) = true.
Proof.
  destruct z as [|p|p]; cbn [show_Z]; [reflexivity| |]; destruct (show_N_word (N.pos p)) as [H _].
  - apply word_no_brace, H.
  - cbn [forallb]. rewrite (word_no_brace _ H). reflexivity.
Qed.

(* helper names *)
Lemma runtime_word n : mem n runtime_funcs = true -> word n = true /\ n <> [].
Proof.
  intros H. apply mem_In in H. unfold runtime_funcs in H. cbn [In] in H.
  repeat (destruct H as [<-|H]; [split; [reflexivity|discriminate]|]). contradiction.
Qed.

(* strconv.Quote *)
Lemma goquote_body_run s : forall b, goquote_body s = Some b -> arun true b = Some true.
Proof.
  induction s as [|c r IH]; intros b H.
  - cbn in H. inversion H; subst. reflexivity.
  - cbn [goquote_body] in H. cbv zeta in H.
    destruct (goquote_body r) as [q|] eqn:Eq.
    2:{ destruct (if Ascii.eqb c """" then _ else _); discriminate. }
    specialize (IH q eq_refl).
    destruct (Ascii.eqb c """") eqn:E1; [inversion H; subst; exact IH|].
    destruct (Ascii.eqb c "\") eqn:E2; [inversion H; subst; exact IH|].
    destruct (N.eqb (N_of_ascii c) 10) eqn:E3; [inversion H; subst; exact IH|].
    destruct (N.eqb (N_of_ascii c) 9) eqn:E4; [inversion H; subst; exact IH|].
    destruct (N.eqb (N_of_ascii c) 13) eqn:E5; [inversion H; subst; exact IH|].
    assert (El : Ascii.eqb c LF = false).
    { destruct (Ascii.eqb_spec c LF) as [->|?]; [vm_compute in E3; discriminate E3|reflexivity]. }
    assert (Hc : forall x, arun true (c :: x) = arun true x).
    { intros x. cbn [arun]. unfold BSL, DQ. rewrite E2, E1, El. reflexivity. }
    destruct (is_print_ascii c); [inversion H; subst; cbn [app]; rewrite Hc; exact IH|].
    destruct (N.leb 128 (N_of_ascii c)); [inversion H; subst; cbn [app]; rewrite Hc; exact IH|discriminate].
Qed.
Lemma goquote_etext s q : goquote s = Some q -> etext q.
Proof.
  unfold goquote. destruct (goquote_body s) as [b|] eqn:E; [|discriminate]. intros H. inversion H; subst.
  split; [|split].
  - cbn [arun]. replace (Ascii.eqb """" DQ) with true by reflexivity.
    apply (arun_app b [""""%char] true true false (goquote_body_run s b E)). reflexivity.
  - reflexivity.
  - change (""""%char :: b ++ [""""%char]) with ((""""%char :: b) ++ [""""%char]). rewrite solid_end_snoc. reflexivity.
Qed.

(* ================================================================================================== *)
(* Part T2  expressions                                                                               *)
(* ================================================================================================== *)
Lemma Some_inj {A} (a b : A) : Some a = Some b -> a = b.
Proof. intros H; inversion H; reflexivity. Qed.

Section JInd.
  Variable P : jexpr -> Prop.
  Hypothesis HId : forall x, P (JId x).
  Hypothesis HNum : forall z, P (JNum z).
  Hypothesis HNumF : forall t, P (JNumF t).
  Hypothesis HStr : forall s, P (JStr s).
  Hypothesis HTpl : forall parts, Forall (fun p => match p with inr x => P x | inl _ => True end) parts -> P (JTpl parts).
  Hypothesis HBool : forall b, P (JBool b).
  Hypothesis HNull : P JNull.
  Hypothesis HArr : forall es, Forall P es -> P (JArr es).
  Hypothesis HObj : forall kvs, Forall (fun kv => P (snd kv)) kvs -> P (JObj kvs).
  Hypothesis HDot : forall l n, P l -> P (JDot l n).
  Hypothesis HIdx : forall l m, P l -> P m -> P (JIdx l m).
  Hypothesis HCall : forall f args, P f -> Forall P args -> P (JCall f args).
  Hypothesis HNew : forall f args, P f -> Forall P args -> P (JNew f args).
  Hypothesis HUn : forall op pf x, P x -> P (JUn op pf x).
  Hypothesis HBin : forall op l r, P l -> P r -> P (JBin op l r).
  Hypothesis HCond : forall c a b, P c -> P a -> P b -> P (JCond c a b).
  Hypothesis HAssign : forall op l r, P l -> P r -> P (JAssign op l r).
  Hypothesis HSeq : forall es, Forall P es -> P (JSeq es).
  Definition opt_PJ (o : option jexpr) : Prop := match o with Some i => P i | None => True end.
  Hypothesis HVar : forall x init, opt_PJ init -> P (JVar x init).

  Fixpoint jexpr_ind2 (e : jexpr) : P e :=
    let fl := fix go (l : list jexpr) : Forall P l :=
                match l with [] => Forall_nil P | x :: r => Forall_cons x (jexpr_ind2 x) (go r) end in
    match e with
    | JId x => HId x
    | JNum z => HNum z
    | JNumF t => HNumF t
    | JStr s => HStr s
    | JTpl parts =>
      HTpl parts ((fix go (l : list (bytes + jexpr)) : Forall (fun p => match p with inr x => P x | inl _ => True end) l :=
                     match l with
                     | [] => Forall_nil _
                     | inl s :: r => Forall_cons (inl s) I (go r)
                     | inr x :: r => Forall_cons (inr x) (jexpr_ind2 x) (go r)
                     end) parts)
    | JBool b => HBool b
    | JNull => HNull
    | JArr es => HArr es (fl es)
    | JObj kvs =>
      HObj kvs ((fix go (l : list (bytes * jexpr)) : Forall (fun kv => P (snd kv)) l :=
                   match l with
                   | [] => Forall_nil _
                   | (k, x) :: r => Forall_cons (k, x) (jexpr_ind2 x) (go r)
                   end) kvs)
    | JDot l n => HDot l n (jexpr_ind2 l)
    | JIdx l m => HIdx l m (jexpr_ind2 l) (jexpr_ind2 m)
    | JCall f args => HCall f args (jexpr_ind2 f) (fl args)
    | JNew f args => HNew f args (jexpr_ind2 f) (fl args)
    | JUn op pf x => HUn op pf x (jexpr_ind2 x)
    | JBin op l r => HBin op l r (jexpr_ind2 l) (jexpr_ind2 r)
    | JCond c a b => HCond c a b (jexpr_ind2 c) (jexpr_ind2 a) (jexpr_ind2 b)
    | JAssign op l r => HAssign op l r (jexpr_ind2 l) (jexpr_ind2 r)
    | JSeq es => HSeq es (fl es)
    | JVar x init =>
      HVar x init (match init as o return opt_PJ o with
                   | Some j => jexpr_ind2 j
                   | None => I
                   end)
    end.
End JInd.

(* the text of a float literal is a number as fmt %v prints it (digits, letters, '.', '+', '-'; a letter or
   digit last) -- the model's JNumF carries arbitrary bytes *)
Definition numf_char (c : ascii) : bool :=
  is_ident_char c || Ascii.eqb c "." || Ascii.eqb c "+" || Ascii.eqb c "-".
Definition numf_ok (t : bytes) : bool :=
  forallb numf_char t && match rev t with c :: _ => is_ident_char c | [] => false end.

(* the expressions covered: all; float texts are numbers *)
Fixpoint expr_dom (e : jexpr) : bool :=
  match e with
  | JNumF t => numf_ok t
  | JTpl parts => forallb (fun p => match p with inl _ => true | inr x => expr_dom x end) parts
  | JArr es | JSeq es => forallb expr_dom es
  | JObj kvs => forallb (fun kv => expr_dom (snd kv)) kvs
  | JDot l _ => expr_dom l
  | JIdx l m => expr_dom l && expr_dom m
  | JCall f args | JNew f args => expr_dom f && forallb expr_dom args
  | JUn _ _ x => expr_dom x
  | JBin _ l r => expr_dom l && expr_dom r
  | JCond c a b => expr_dom c && expr_dom a && expr_dom b
  | JAssign _ l r => expr_dom l && expr_dom r
  | JVar _ init => match init with Some i => expr_dom i | None => true end
  | _ => true
  end.

Lemma numf_char_pchar c : numf_char c = true -> pchar c = true.
Proof.
  intros H. unfold pchar, achar, is_eol.
  not_char H c "}"%char. not_char H c CR. not_char H c LF. not_char H c DQ. not_char H c "'"%char.
  not_char H c "`"%char. not_char H c BSL. reflexivity.
Qed.
Lemma numf_etext t : numf_ok t = true -> etext t /\ forallb (fun c => negb (Ascii.eqb c "{")) t = true.
Proof.
  unfold numf_ok. intros H. apply andb_true_iff in H. destruct H as [Hall Hlast].
  split; [split; [|split]|].
  - apply arun_pass. clear Hlast. induction t as [|c t IH]; [reflexivity|].
    cbn [forallb] in *. apply andb_true_iff in Hall. destruct Hall as [Hc Ht].
    rewrite (numf_char_pchar c Hc), (IH Ht). reflexivity.
  - destruct t as [|c [|d r]]; [reflexivity| |].
    + cbn [rev app] in Hlast. destruct (ident_char_start c Hlast) as (H1 & H2 & _).
      cbn [good_start]. rewrite H1, H2. reflexivity.
    + cbn [forallb] in Hall. apply andb_true_iff in Hall. destruct Hall as [Hc Hr].
      apply andb_true_iff in Hr. destruct Hr as [Hd _].
      cbn [good_start].
      assert (E1 : Ascii.eqb c "/" = false) by (not_char Hc c "/"%char; reflexivity).
      assert (E2 : Ascii.eqb d " " = false) by (not_char Hd d " "%char; reflexivity).
      rewrite E1, E2. cbn [negb andb]. apply orb_true_r.
  - unfold solid_end, lastp. destruct (rev t) as [|c r]; [discriminate|]. apply ident_char_solid, Hlast.
  - clear Hlast. induction t as [|c t IH]; [reflexivity|].
    cbn [forallb] in *. apply andb_true_iff in Hall. destruct Hall as [Hc Ht].
    assert (E : Ascii.eqb c "{" = false) by (not_char Hc c "{"%char; reflexivity).
    rewrite E, (IH Ht). reflexivity.
Qed.

(* what carg returns: an argument with its text, or the empty text without one (null) *)
Definition cg (t : bytes) (a : option targ) : Prop := match a with Some _ => etext t | None => t = [] end.
Lemma cg_arun t a : cg t a -> arun false t = Some false.
Proof. destruct a; cbn [cg]; [intros (H & _ & _); exact H|intros ->; reflexivity]. Qed.
Lemma or_null_etext t a : cg t a -> etext (or_null_t t).
Proof.
  destruct a; cbn [cg]; intros H.
  - destruct t as [|c r]; [destruct H as (_ & _ & H); discriminate H|exact H].
  - subst t. split; [|split]; reflexivity.
Qed.

(* scanner goals over concatenations of constants and pieces known from the context *)
Ltac ab :=
  lazymatch goal with
  | |- arun _ (_ ++ _) = Some _ => eapply arun_app; [ab|ab]
  | |- arun _ (?c :: ?s) = Some _ =>
    first [ reflexivity | change (c :: s) with ([c] ++ s); eapply arun_app; [reflexivity|ab] ]
  | |- _ => first [eassumption | reflexivity | apply word_arun; eassumption
                   | match goal with H : etext ?t |- arun false ?t = Some _ => exact (proj1 H) end ]
  end.

Lemma etext_paren mid : arun false mid = Some false -> etext (B "(" ++ mid ++ B ")").
Proof.
  intros H. split; [|split].
  - ab.
  - reflexivity.
  - rewrite app_assoc. change (B ")") with [")"%char]. rewrite solid_end_snoc. reflexivity.
Qed.

Lemma etext_parens t : arun false t = Some false -> hd_is "(" t = true -> solid_end t = true -> etext t.
Proof.
  intros H1 H2 H3. split; [exact H1|split; [|exact H3]].
  destruct t as [|c r]; [discriminate|]. cbn [hd_is] in H2. apply Ascii.eqb_eq in H2. subst c. reflexivity.
Qed.
Lemma solid_end_cons c x : solid_end x = true -> solid_end (c :: x) = true.
Proof. apply (solid_end_app [c]). Qed.
Ltac se_lit := first [reflexivity | apply solid_end_cons; se_lit | apply solid_end_app; se_lit].
Ltac paren := apply etext_parens; [ab | reflexivity | se_lit].

Section Carg.
  Variable funcs : list bytes.

  Definition list_args_f :=
    fix go (es : list jexpr) : option (bytes * list targ) :=
      match es with
      | [] => Some ([], [])
      | x :: r =>
        match carg funcs true x, go r with
        | Some (t, a), Some (ts, as_) => Some (sp ++ or_null_t t ++ ts, or_null_a a :: as_)
        | _, _ => None
        end
      end.
  Definition call_args_f :=
    fix go (es : list jexpr) : option (bytes * list targ) :=
      match es with
      | [] => Some ([], [])
      | x :: r =>
        match carg funcs true x, go r with
        | Some (t, a), Some (ts, as_) => Some (sp ++ t ++ ts, opt_cons a as_)
        | _, _ => None
        end
      end.
  Definition obj_f :=
    fix go (l : list (bytes * jexpr)) : option (bytes * list targ) :=
      match l with
      | [] => Some ([], [])
      | (k, x) :: r =>
        match carg funcs true x, go r with
        | Some (t, a), Some (ts, as_) =>
          if is_ident k then Some (B " """ ++ k ++ B """ " ++ t ++ ts, AStr k :: opt_cons a as_) else None
        | _, _ => None
        end
      end.

  Lemma carg_arr dot es :
    carg funcs dot (JArr es) =
    match list_args_f es with
    | Some (t, a) => Some (B "(__op__array" ++ t ++ B ")", Some (call (B "__op__array") a))
    | None => None
    end.
  Proof. reflexivity. Qed.
  Lemma carg_new dot f es :
    carg funcs dot (JNew f es) =
    match list_args_f es with
    | Some (t, a) => Some (B "(__op__array" ++ t ++ B ")", Some (call (B "__op__array") a))
    | None => None
    end.
  Proof. reflexivity. Qed.
  Lemma carg_seq dot es :
    carg funcs dot (JSeq es) =
    match list_args_f es with
    | Some (t, a) => Some (B "(__op__array" ++ t ++ B ")", Some (call (B "__op__array") a))
    | None => None
    end.
  Proof. reflexivity. Qed.
  Lemma carg_obj dot kvs :
    carg funcs dot (JObj kvs) =
    match obj_f kvs with
    | Some (t, a) => Some (B "(__op__map" ++ t ++ B ")", Some (call (B "__op__map") a))
    | None => None
    end.
  Proof. reflexivity. Qed.
  Lemma carg_call dot f args :
    carg funcs dot (JCall f args) =
    match carg funcs false f, call_args_f args with
    | Some (ft, Some fa), Some (ts, as_) =>
      let ok := match fa with
                | AIdent n => callable funcs n
                | AVar _ (_ :: _) => true
                | AChain _ _ => true
                | _ => false
                end in
      if ok then Some (B "(" ++ ft ++ ts ++ B ")", Some (APipe [] [fa :: as_])) else None
    | _, _ => None
    end.
  Proof. reflexivity. Qed.

  Definition tpl_f :=
    fix go (lit : bytes) (ps : list (bytes + jexpr)) : option (bytes * list targ) :=
      match ps with
      | [] => match qlit lit with Some q => Some (q, lit_arg lit) | None => None end
      | inl s :: r => go (lit ++ s) r
      | inr x :: r =>
        match qlit lit, carg funcs true x, go [] r with
        | Some q, Some (xt, Some xa), Some (t, a) => Some (q ++ sp ++ xt ++ sp ++ t, lit_arg lit ++ xa :: a)
        | _, _, _ => None
        end
      end.
  Lemma carg_tpl dot parts :
    carg funcs dot (JTpl parts) =
    match tpl_f [] parts with
    | Some (t, a) => Some (B "(__str " ++ t ++ B ")", Some (call (B "__str") a))
    | None => None
    end.
  Proof. reflexivity. Qed.

  Definition PE (e : jexpr) : Prop :=
    expr_dom e = true -> forall dot t a, carg funcs dot e = Some (t, a) -> cg t a.

  Lemma list_args_run es : Forall PE es -> forallb expr_dom es = true ->
    forall t a, list_args_f es = Some (t, a) -> arun false t = Some false.
  Proof.
    induction 1 as [|x r Hx Hr IH]; intros Hd t a H.
    - cbn in H. inversion H; subst. reflexivity.
    - cbn [forallb] in Hd. apply andb_true_iff in Hd. destruct Hd as [Hdx Hdr].
      cbn [list_args_f] in H. fold list_args_f in H.
      destruct (carg funcs true x) as [[tx ax]|] eqn:Ex; [|discriminate].
      destruct (list_args_f r) as [[ts as_]|] eqn:Er; [|discriminate].
      inversion H; subst. pose proof (or_null_etext _ _ (Hx Hdx _ _ _ Ex)) as Ht.
      pose proof (IH Hdr _ _ eq_refl) as Hts. ab.
  Qed.
  Lemma call_args_run es : Forall PE es -> forallb expr_dom es = true ->
    forall t a, call_args_f es = Some (t, a) -> arun false t = Some false.
  Proof.
    induction 1 as [|x r Hx Hr IH]; intros Hd t a H.
    - cbn in H. inversion H; subst. reflexivity.
    - cbn [forallb] in Hd. apply andb_true_iff in Hd. destruct Hd as [Hdx Hdr].
      cbn [call_args_f] in H. fold call_args_f in H.
      destruct (carg funcs true x) as [[tx ax]|] eqn:Ex; [|discriminate].
      destruct (call_args_f r) as [[ts as_]|] eqn:Er; [|discriminate].
      inversion H; subst. pose proof (cg_arun _ _ (Hx Hdx _ _ _ Ex)) as Ht.
      pose proof (IH Hdr _ _ eq_refl) as Hts. ab.
  Qed.
  Lemma obj_run kvs : Forall (fun kv => PE (snd kv)) kvs -> forallb (fun kv => expr_dom (snd kv)) kvs = true ->
    forall t a, obj_f kvs = Some (t, a) -> arun false t = Some false.
  Proof.
    induction 1 as [|[k x] r Hx Hr IH]; intros Hd t a H.
    - cbn in H. inversion H; subst. reflexivity.
    - cbn [forallb snd] in Hd. apply andb_true_iff in Hd. destruct Hd as [Hdx Hdr].
      cbn [obj_f] in H. fold obj_f in H. cbn [snd] in Hx.
      destruct (carg funcs true x) as [[tx ax]|] eqn:Ex; [|discriminate].
      destruct (obj_f r) as [[ts as_]|] eqn:Er; [|discriminate].
      destruct (is_ident k) eqn:Ek; [|discriminate].
      inversion H; subst. pose proof (cg_arun _ _ (Hx Hdx _ _ _ Ex)) as Ht.
      pose proof (IH Hdr _ _ eq_refl) as Hts. destruct (ident_word k Ek) as [Hk _]. ab.
  Qed.

  (* the arguments of (__str ...): quoted literal parts and compiled code parts *)
  Definition tpl_part_dom (p : bytes + jexpr) : bool :=
    match p with inl _ => true | inr x => expr_dom x end.
  Lemma qlit_run lit q : qlit lit = Some q -> arun false q = Some false.
  Proof.
    destruct lit as [|c l]; cbn [qlit]; intros H; [inversion H; reflexivity|].
    exact (proj1 (goquote_etext _ _ H)).
  Qed.
  Lemma tpl_run parts :
    Forall (fun p => match p with inr x => PE x | inl _ => True end) parts ->
    forallb tpl_part_dom parts = true -> forall lit t a, tpl_f lit parts = Some (t, a) -> arun false t = Some false.
  Proof.
    induction 1 as [|p r Hp Hr IH]; intros Hd lit t a H.
    - cbn [tpl_f] in H. destruct (qlit lit) as [q|] eqn:Eq; [|discriminate]. inversion H; subst.
      exact (qlit_run _ _ Eq).
    - cbn [forallb] in Hd. apply andb_true_iff in Hd. destruct Hd as [Hd1 Hd2].
      cbn [tpl_f] in H. fold tpl_f in H. destruct p as [s|x]; [exact (IH Hd2 _ _ _ H)|].
      cbn [tpl_part_dom] in Hd1.
      destruct (qlit lit) as [q|] eqn:Eq; [|discriminate].
      destruct (carg funcs true x) as [[xt [xa|]]|] eqn:Ex; try discriminate.
      destruct (tpl_f [] r) as [[t' a']|] eqn:Er; [|discriminate]. inversion H; subst.
      pose proof (qlit_run _ _ Eq) as Hq. pose proof (Hp Hd1 _ _ _ Ex) as (Hxt & _ & _).
      pose proof (IH Hd2 _ _ _ Er) as Ht'. ab.
  Qed.

  Lemma ident_text_etext dot x : is_ident x = true -> etext (ident_text funcs dot x).
  Proof.
    intros H. destruct (ident_word x H) as [Hw Hn]. unfold ident_text.
    destruct (dot && negb (known funcs x)); destruct (beqb x (B "range")).
    - split; [|split]; reflexivity.
    - split; [|split]; [ab|reflexivity|apply solid_end_app, word_solid_end; assumption].
    - split; [|split]; reflexivity.
    - cbn [app]. apply word_etext; assumption.
  Qed.
  Lemma strip1_ident name : is_ident name = true ->
    word (strip1 (ident_text funcs true name)) = true /\ strip1 (ident_text funcs true name) <> [].
  Proof.
    intros H. destruct (ident_word name H) as [Hw Hn]. unfold ident_text.
    destruct (true && negb (known funcs name)); destruct (beqb name (B "range")).
    - split; [reflexivity|discriminate].
    - cbn [app strip1]. replace (Ascii.eqb "$" "." || Ascii.eqb "$" "$") with true by reflexivity. split; assumption.
    - split; [reflexivity|discriminate].
    - cbn [app]. destruct name as [|c r]; [congruence|]. cbn [strip1].
      cbn [is_ident] in H. apply andb_true_iff in H. destruct H as [Hc _].
      assert (E1 : Ascii.eqb c "." = false) by (not_char Hc c "."%char; reflexivity).
      assert (E2 : Ascii.eqb c "$" = false) by (not_char Hc c "$"%char; reflexivity).
      rewrite E1, E2. split; assumption.
  Qed.

  Lemma forallb_and3 a b c : a && b && c = true -> a = true /\ b = true /\ c = true.
  Proof. destruct a, b, c; auto. Qed.

  Theorem carg_cg e : PE e.
  Proof.
    induction e as [x|z|nt|s|parts IHp|b| |es IHes|kvs IHk|l n IHl|l m IHl IHm|f args IHf IHa|f args IHf IHa
                   |op pf x IHx|op l r IHl IHr|c a b IHc IHa IHb|op l r IHl IHr|es IHes|x init IHi] using jexpr_ind2;
      intros Hd dot tt aa H.
    - (* JId *)
      cbn [carg] in H. destruct (is_ident x) eqn:Ex; [|discriminate]. inversion H; subst.
      exact (ident_text_etext dot x Ex).
    - cbn [carg] in H. inversion H; subst. apply show_Z_etext.
    - cbn [carg] in H. inversion H; subst. cbn [expr_dom] in Hd. exact (proj1 (numf_etext _ Hd)).
    - cbn [carg] in H. destruct (goquote s) as [q|] eqn:Eq; [|discriminate]. inversion H; subst.
      exact (goquote_etext s _ Eq).
    - (* JTpl *)
      rewrite carg_tpl in H. destruct (tpl_f [] parts) as [[t a]|] eqn:E; [|discriminate]. apply Some_inj in H.
      apply pair_equal_spec in H. destruct H as [<- <-]. cbn [expr_dom] in Hd.
      pose proof (tpl_run parts IHp Hd _ _ _ E) as Ht. paren.
    - cbn [carg] in H. inversion H; subst. destruct b; (split; [|split]); reflexivity.
    - cbn [carg] in H. inversion H; subst. reflexivity.
    - (* JArr *)
      rewrite carg_arr in H. destruct (list_args_f es) as [[ts as_]|] eqn:E; [|discriminate]. injection H as <- <-.
      pose proof (list_args_run es IHes Hd _ _ E) as Hts.
      paren.
    - (* JObj *)
      rewrite carg_obj in H. destruct (obj_f kvs) as [[ts as_]|] eqn:E; [|discriminate]. injection H as <- <-.
      pose proof (obj_run kvs IHk Hd _ _ E) as Hts.
      paren.
    - (* JDot *)
      cbn [carg] in H. destruct (is_ident n) eqn:En; [|discriminate]. cbn [negb] in H.
      destruct (carg funcs true l) as [[lt la]|] eqn:El; [|discriminate].
      destruct (dot_ir la (strip1 (ident_text funcs true n))) as [a'|] eqn:Ed; [|discriminate].
      inversion H; subst. cbn [expr_dom] in Hd.
      pose proof (IHl Hd _ _ _ El) as Hl.
      destruct la as [la|]; [|discriminate Ed]. cbn [cg] in Hl. destruct Hl as (L1 & L2 & L3).
      destruct (strip1_ident n En) as [Hw Hn].
      split; [|split].
      + ab.
      + apply good_start_app; [exact L2|exact (solid_end_nonnil _ L3)].
      + apply solid_end_app. apply (solid_end_app ["."%char]). apply word_solid_end; assumption.
    - (* JIdx *)
      cbn [carg] in H. cbn [expr_dom] in Hd. apply andb_true_iff in Hd. destruct Hd as [Hd1 Hd2].
      destruct (carg funcs true l) as [[lt la]|] eqn:El; [|discriminate].
      destruct (carg funcs true m) as [[mt ma]|] eqn:Em; [|discriminate].
      injection H as <- <-.
      pose proof (cg_arun _ _ (IHl Hd1 _ _ _ El)) as Hl. pose proof (cg_arun _ _ (IHm Hd2 _ _ _ Em)) as Hm.
      paren.
    - (* JCall *)
      rewrite carg_call in H. cbn [expr_dom] in Hd. apply andb_true_iff in Hd. destruct Hd as [Hd1 Hd2].
      destruct (carg funcs false f) as [[ft [fa|]]|] eqn:Ef; try discriminate.
      destruct (call_args_f args) as [[ts as_]|] eqn:Ea; [|discriminate].
      cbv zeta in H.
      match type of H with (if ?c then _ else _) = _ => destruct c; [|discriminate] end.
      injection H as <- <-.
      pose proof (cg_arun _ _ (IHf Hd1 _ _ _ Ef)) as Hft. pose proof (call_args_run args IHa Hd2 _ _ Ea) as Hts.
      paren.
    - (* JNew *)
      rewrite carg_new in H. cbn [expr_dom] in Hd. apply andb_true_iff in Hd. destruct Hd as [_ Hd2].
      destruct (list_args_f args) as [[ts as_]|] eqn:E; [|discriminate]. injection H as <- <-.
      pose proof (list_args_run args IHa Hd2 _ _ E) as Hts.
      paren.
    - (* JUn *)
      cbn [carg] in H. cbn [expr_dom] in Hd.
      destruct op; try discriminate;
        (destruct (mem (op_name (unop_token _)) runtime_funcs) eqn:Em; [|discriminate]; cbn [negb] in H;
         destruct (carg funcs true x) as [[tx ax]|] eqn:Ex; [|discriminate]; injection H as <- <-;
         pose proof (cg_arun _ _ (IHx Hd _ _ _ Ex)) as Hx; destruct (runtime_word _ Em) as [Hw _];
         paren).
    - (* JBin *)
      cbn [carg] in H. cbv zeta in H. cbn [expr_dom] in Hd. apply andb_true_iff in Hd. destruct Hd as [Hd1 Hd2].
      destruct (mem (op_name (binop_token op)) runtime_funcs) eqn:Em; [|discriminate]. cbn [negb] in H.
      destruct (carg funcs true l) as [[lt la]|] eqn:El; [|discriminate].
      destruct (carg funcs true r) as [[rt ra]|] eqn:Er; [|discriminate].
      injection H as <- <-.
      pose proof (cg_arun _ _ (IHl Hd1 _ _ _ El)) as Hl. pose proof (cg_arun _ _ (IHr Hd2 _ _ _ Er)) as Hr.
      destruct (runtime_word _ Em) as [Hw _].
      paren.
    - (* JCond *)
      cbn [carg] in H. cbn [expr_dom] in Hd. apply forallb_and3 in Hd. destruct Hd as (Hd1 & Hd2 & Hd3).
      destruct (carg funcs true c) as [[ct [ca|]]|] eqn:Ec; try discriminate.
      destruct (carg funcs true a) as [[at_ aa']|] eqn:Ea; [|discriminate].
      destruct (carg funcs true b) as [[bt ba]|] eqn:Eb; [|discriminate].
      injection H as <- <-.
      pose proof (cg_arun _ _ (IHc Hd1 _ _ _ Ec)) as Hc.
      pose proof (or_null_etext _ _ (IHa Hd2 _ _ _ Ea)) as Ha. pose proof (or_null_etext _ _ (IHb Hd3 _ _ _ Eb)) as Hb.
      paren.
    - discriminate H.
    - (* JSeq *)
      rewrite carg_seq in H. destruct (list_args_f es) as [[ts as_]|] eqn:E; [|discriminate]. injection H as <- <-.
      pose proof (list_args_run es IHes Hd _ _ E) as Hts.
      paren.
    - discriminate H.
  Qed.

  (* the form the rest of the file uses *)
  Lemma carg_some e dot t a : expr_dom e = true -> carg funcs dot e = Some (t, Some a) -> etext t.
  Proof. intros Hd H. exact (carg_cg e Hd dot t (Some a) H). Qed.
  Lemma carg_or_null e dot t a : expr_dom e = true -> carg funcs dot e = Some (t, a) -> etext (or_null_t t).
  Proof. intros Hd H. exact (or_null_etext _ _ (carg_cg e Hd dot t a H)). Qed.
  Lemma carg_run e dot t a : expr_dom e = true -> carg funcs dot e = Some (t, a) -> arun false t = Some false.
  Proof. intros Hd H. exact (cg_arun _ _ (carg_cg e Hd dot t a H)). Qed.
End Carg.

(* ================================================================================================== *)
(* Part T3  tokens: statements, code lines, texts, attributes                                         *)
(* ================================================================================================== *)
Definition endc (rt : bool) (c : ascii) : bool := if rt then negb (is_blank c) else negb (Ascii.eqb c "-").
Lemma end_ok_lastp rt b : lastp (endc rt) b = true -> end_ok rt b = true.
Proof.
  unfold end_ok, lastp, insp_after, last_is, hd_is, endc. destruct (rev b) as [|c r]; [discriminate|].
  destruct rt; intros H; exact H.
Qed.
Lemma solid_endc rt c : solid c = true -> endc rt c = true.
Proof. unfold solid, endc. intros H. apply andb_true_iff in H. destruct H as [H1 H2]. destruct rt; assumption. Qed.

(* [H : Some X = Some ts]: replace ts by X, without simplifying X *)
Ltac inj H := apply Some_inj in H; subst.

Ltac lp :=
  first [ reflexivity
        | match goal with H : etext ?t |- lastp _ ?t = true =>
            exact (lastp_mono solid _ t (solid_endc _) (proj2 (proj2 H))) end
        | match goal with H : solid_end ?t = true |- lastp _ ?t = true =>
            exact (lastp_mono solid _ t (solid_endc _) H) end
        | match goal with H : word ?t = true |- lastp _ ?t = true =>
            apply (lastp_mono solid _ t (solid_endc _)), word_solid_end; assumption end
        | apply lastp_cons; lp | apply lastp_app; lp ].

Lemma wf_act_intro lt rt b txt :
  txt = aopen lt ++ b ++ aclose rt -> arun false b = Some false -> good_start b = true -> end_ok rt b = true ->
  wf_act txt lt rt.
Proof. intros H1 H2 H3 H4. exists b. auto. Qed.

(* [wfa b]: the action token in the goal is well-formed with body [b] *)
Ltac wfa b :=
  cbn [wf_tok]; apply (wf_act_intro _ _ b);
  [ cbn [aopen aclose]; rewrite <- ?app_assoc; reflexivity | ab | try reflexivity | apply end_ok_lastp; try lp ].

Lemma wf_one t : wf_tok t -> wf_toks [t].
Proof. intros H. constructor; [exact H|constructor]. Qed.

Lemma nobrace_text_ok x : forallb (fun c => negb (Ascii.eqb c "{")) x = true -> text_ok x = true.
Proof.
  intros H. unfold text_ok. apply andb_true_iff. split; apply negb_true_iff.
  - rewrite <- (app_nil_r x). rewrite has_delim_pre by exact H. reflexivity.
  - unfold last_is, hd_is. rewrite <- forallb_rev in H. destruct (rev x) as [|c r]; [reflexivity|].
    cbn [forallb] in H. apply andb_true_iff in H. destruct H as [H _]. apply negb_true_iff in H. exact H.
Qed.

Lemma wf_sep : wf_toks sep.
Proof.
  unfold sep. repeat constructor.
  wfa (B """""").
Qed.

(* ---- a Text node ---------------------------------------------------------------------------------- *)
(* a pending "{" is always followed by an ordinary byte other than "{" *)
Definition pend_ok (acc : bytes) (t : list qt) : bool :=
  negb (hd_is "{" acc) || match t with QC d :: _ => negb (Ascii.eqb d "{") | _ => false end.

Lemma wf_flush acc : nodd acc = true -> hd_is "{" acc = false -> wf_toks (flush acc).
Proof.
  intros H1 H2. destruct acc as [|a acc']; [constructor|]. apply wf_one. cbn [flush wf_tok]. unfold text_ok.
  rewrite (nodd_has_delim _ H1). unfold last_is. rewrite rev_involutive, H2. reflexivity.
Qed.

Lemma wf_lits : wf_tok lit_open /\ wf_tok lit_close /\ wf_tok lit_brace.
Proof.
  unfold lit_open, lit_close, lit_brace. split; [|split].
  - wfa (B """{{""").
  - wfa (B """}}""").
  - wfa (B """{""").
Qed.

Lemma ttoks_wf t : forall acc, nf t = true -> nodd acc = true -> pend_ok acc t = true -> wf_toks (ttoks acc t).
Proof.
  induction t as [|x r IH]; intros acc Hnf Hacc Hp.
  - cbn [ttoks]. apply wf_flush; [exact Hacc|]. unfold pend_ok in Hp. rewrite orb_false_r in Hp.
    apply negb_true_iff in Hp. exact Hp.
  - pose proof (nf_tail _ _ Hnf) as Hr. pose proof (nf_head _ _ Hnf) as Hb.
    destruct wf_lits as (Lo & Lc & Lb).
    assert (Hfresh : wf_toks (ttoks [] r)) by (apply IH; [exact Hr|reflexivity|reflexivity]).
    assert (Hfl : (match x with QC c => Ascii.eqb c "{" && quoted_next true r | _ => true end) = true ->
                  wf_toks (flush acc)).
    { intros Hq. apply wf_flush; [exact Hacc|]. unfold pend_ok in Hp.
      destruct (hd_is "{" acc); [|reflexivity]. cbn [negb orb] in Hp.
      destruct x as [d| |]; try discriminate Hp.
      apply negb_true_iff in Hp. rewrite Hp in Hq. discriminate Hq. }
    destruct x as [c| |]; cbn [ttoks].
    + destruct (Ascii.eqb c "{" && quoted_next true r) eqn:E.
      * apply wf_toks_app; [apply Hfl; reflexivity|]. constructor; [exact Lb|exact Hfresh].
      * apply IH; [exact Hr| |].
        -- (* no two "{" side by side in the pending run *)
           cbn [nodd]. rewrite Hacc, andb_true_r. apply negb_true_iff.
           destruct (Ascii.eqb c "{") eqn:Ec; [|reflexivity]. cbn [andb].
           destruct acc as [|a acc']; [reflexivity|].
           destruct (Ascii.eqb a "{") eqn:Ea; [|reflexivity].
           unfold pend_ok in Hp. cbn [hd_is] in Hp. rewrite Ea in Hp. cbn [negb orb] in Hp.
           apply negb_true_iff in Hp. congruence.
        -- unfold pend_ok. cbn [hd_is]. destruct (Ascii.eqb c "{") eqn:Ec; [|reflexivity]. cbn [negb orb andb] in *.
           apply Ascii.eqb_eq in Ec. subst c.
           destruct r as [|[d| |] r']; cbn [quoted_next] in E; try discriminate E.
           ++ cbn [bad_next bad_pair] in Hb. bsimp. destruct (Ascii.eqb d "{"); [discriminate Hb|reflexivity].
           ++ cbn [bad_next bad_pair] in Hb. bsimp. discriminate Hb.
    + apply wf_toks_app; [apply Hfl; reflexivity|]. constructor; [exact Lo|exact Hfresh].
    + apply wf_toks_app; [apply Hfl; reflexivity|]. constructor; [exact Lc|exact Hfresh].
Qed.

Lemma ctext_wf s ts : ctext s = Some ts -> wf_toks ts.
Proof.
  rewrite ctext_total. intros H. inj H.
  assert (E : text_toks (quote_text s) = ttoks [] (tokz s)).
  { unfold text_toks. rewrite quote_text_rend. apply tt_rend; [apply nf_tokz|lia]. }
  rewrite E. apply ttoks_wf; [apply nf_tokz|reflexivity|reflexivity].
Qed.

Section Stmts.
  Variable funcs : list bytes.

  Lemma wf_wrap_value raw t a : etext t -> wf_toks (wrap_value raw t a).
  Proof.
    intros Ht. pose proof Ht as (H1 & H2 & H3). unfold wrap_value. apply wf_one.
    destruct raw; cbn [esc_suffix].
    - wfa (t ++ []).
      + apply good_start_app; [exact H2|exact (solid_end_nonnil _ H3)].
      + rewrite app_nil_r. lp.
    - wfa (t ++ B " | __pug__html").
      apply good_start_app; [exact H2|exact (solid_end_nonnil _ H3)].
  Qed.

  Lemma wf_wrap_stmt t p : arun false t = Some false -> lastp (endc true) t = true -> wf_toks (wrap_stmt t p).
  Proof.
    intros H1 H2. unfold wrap_stmt. apply wf_one. wfa (B " " ++ t). apply lastp_cons. exact H2.
  Qed.

  Lemma cwrap_wf raw e ts : expr_dom e = true -> cwrap funcs raw e = Some ts -> wf_toks ts.
  Proof.
    intros Hd H. destruct e; cbn [cwrap] in H;
      try (destruct (carg funcs true _) as [[t [a|]]|] eqn:Ec; try discriminate H; inj H;
           apply wf_wrap_value; exact (carg_some funcs _ _ _ _ Hd Ec)).
    - (* JNum *) inj H. apply wf_one. exact (nobrace_text_ok _ (show_Z_no_brace z)).
    - (* JNumF *) inj H. apply wf_one. cbn [expr_dom] in Hd. exact (nobrace_text_ok _ (proj2 (numf_etext _ Hd))).
    - (* JStr *)
      destruct (ctext (escape s)) as [[|t0 r0]|] eqn:Ec; [| |discriminate]; inj H.
      + apply wf_one. reflexivity.
      + exact (ctext_wf _ _ Ec).
    - (* JBool *) inj H. apply wf_one. destruct b; reflexivity.
    - (* JNull *) inj H. apply wf_one. wfa (B "null").
    - (* JUn *)
      cbn [expr_dom] in Hd.
      destruct op;
        try (destruct (mem (op_name (unop_token _)) runtime_funcs) eqn:Em; [|discriminate]; cbn [negb] in H;
             destruct (carg funcs true e) as [[t [a|]]|] eqn:Ec; try discriminate H; inj H;
             pose proof (carg_some funcs _ _ _ _ Hd Ec) as Ht; destruct (runtime_word _ Em) as [Hw Hn];
             apply wf_one; destruct raw; cbn [esc_suffix];
             [ match goal with |- wf_tok (TAct (B "{{" ++ ?n ++ sp ++ ?t ++ [] ++ B "}}") _ _ _) => wfa (n ++ sp ++ t ++ []) end
             | match goal with |- wf_tok (TAct (B "{{" ++ ?n ++ sp ++ ?t ++ ?s ++ B "}}") _ _ _) => wfa (n ++ sp ++ t ++ s) end ];
             try (rewrite app_nil_r; lp));
        try discriminate.
      destruct e; try discriminate.
      destruct (is_ident x) eqn:Ex; cbn [negb orb] in H; [|discriminate]. destruct (known funcs x); [discriminate|].
      inj H. destruct (ident_word x Ex) as [Hw Hn].
      apply wf_wrap_stmt; [ab|lp].
    - (* JAssign *)
      destruct op; [discriminate|]. cbn [expr_dom] in Hd. apply andb_true_iff in Hd. destruct Hd as [_ Hd2].
      destruct e1; try discriminate.
      + destruct (is_ident x) eqn:Ex; cbn [negb orb] in H; [|discriminate]. destruct (known funcs x); [discriminate|].
        destruct (carg funcs true e2) as [[t a]|] eqn:Ec; [|discriminate]. inj H.
        pose proof (carg_or_null funcs _ _ _ _ Hd2 Ec) as Ht. destruct (ident_word x Ex) as [Hw Hn].
        apply wf_wrap_stmt; [ab|lp].
      + destruct e1; try discriminate.
        destruct (is_ident x) eqn:Ex; cbn [negb orb] in H; [|discriminate]. destruct (known funcs x); cbn [negb orb] in H; [discriminate|].
        destruct (is_ident name) eqn:Ek; cbn [negb orb] in H; [|discriminate].
        destruct (carg funcs true e2) as [[t a]|] eqn:Ec; [|discriminate]. inj H.
        pose proof (carg_or_null funcs _ _ _ _ Hd2 Ec) as Ht.
        destruct (ident_word x Ex) as [Hw Hn]. destruct (ident_word name Ek) as [Hwk Hnk].
        apply wf_wrap_stmt; [ab|lp].
    - (* JSeq *) discriminate.
    - (* JVar *)
      destruct (is_ident x) eqn:Ex; cbn [negb] in H; [|discriminate]. destruct (ident_word x Ex) as [Hw Hn].
      cbn [expr_dom] in Hd. destruct init as [i|].
      + destruct (carg funcs true i) as [[t a]|] eqn:Ec; [|discriminate]. inj H.
        pose proof (carg_or_null funcs _ _ _ _ Hd Ec) as Ht. apply wf_wrap_stmt; [ab|lp].
      + inj H. apply wf_wrap_stmt; [ab|lp].
  Qed.

  Fixpoint stmt_dom (s : jstmt) : bool :=
    match s with
    | SExpr e => expr_dom e
    | SVar ds => forallb expr_dom ds
    | SIf c t e => expr_dom c && stmt_dom t && match e with Some x => stmt_dom x | None => true end
    | SBlock l => forallb stmt_dom l
    | SOther => true
    end.

  Lemma cstmt_wf s : forall raw ts, stmt_dom s = true -> cstmt funcs raw s = Some ts -> wf_toks ts.
  Proof.
    induction s as [e|ds|c t e IHt IHe|l IHl|] using jstmt_ind2; intros raw ts Hd H; cbn [cstmt] in H; cbn [stmt_dom] in Hd.
    - exact (cwrap_wf raw e ts Hd H).
    - revert ts H. induction ds as [|d r IH]; intros ts H.
      + inj H. constructor.
      + cbn [forallb] in Hd. apply andb_true_iff in Hd. destruct Hd as [Hd1 Hd2].
        destruct (cwrap funcs raw d) as [a|] eqn:Ea; [|discriminate].
        match type of H with match ?g with _ => _ end = _ => destruct g as [b|] eqn:Eb; [|discriminate] end.
        inj H. apply wf_toks_app; [exact (cwrap_wf _ _ _ Hd1 Ea)|exact (IH Hd2 b eq_refl)].
    - apply forallb_and3 in Hd. destruct Hd as (Hd1 & Hd2 & Hd3).
      destruct (carg funcs true c) as [[ct [ca|]]|] eqn:Ec; try discriminate.
      destruct (cstmt funcs raw t) as [tq|] eqn:Et; [|discriminate].
      pose proof (IHt raw tq Hd2 Et) as Htq. pose proof (carg_some funcs _ _ _ _ Hd1 Ec) as Hct.
      assert (Hhead : forall a, wf_tok (TAct (B "{{if " ++ ct ++ B "}}") false false a)) by (intros a; wfa (B "if " ++ ct)).
      assert (Htail : forall a, wf_tok (TAct (B "{{end}}") false false a)) by (intros a; wfa (B "end")).
      assert (Helse : forall a, wf_tok (TAct (B "{{else}}") false false a)) by (intros a; wfa (B "else")).
      assert (Hshort : wf_toks (TAct (B "{{if " ++ ct ++ B "}}") false false (AcIf ([], [[ca]])) :: tq ++ [TAct (B "{{end}}") false false AcEnd])).
      { constructor; [apply Hhead|]. apply wf_toks_app; [exact Htq|apply wf_one, Htail]. }
      destruct e as [es|].
      + destruct (cstmt funcs raw es) as [et|] eqn:Ee; [|discriminate].
        pose proof (IHe raw et Hd3 Ee) as Het.
        destruct et as [|e0 et'].
        * inj H. exact Hshort.
        * destruct (beqb (show_toks (e0 :: et')) (B "{{null}}")); inj H; [exact Hshort|].
          constructor; [apply Hhead|]. apply wf_toks_app; [exact Htq|].
          constructor; [apply Helse|]. apply wf_toks_app; [exact Het|apply wf_one, Htail].
      + inj H. exact Hshort.
    - revert ts H. induction IHl as [|d r Hdd Hr IH]; intros ts H.
      + inj H. constructor.
      + cbn [forallb] in Hd. apply andb_true_iff in Hd. destruct Hd as [Hd1 Hd2].
        destruct (cstmt funcs raw d) as [a|] eqn:Ea; [|discriminate].
        match type of H with match ?g with _ => _ end = _ => destruct g as [b|] eqn:Eb; [|discriminate] end.
        inj H. apply wf_toks_app; [exact (Hdd _ _ Hd1 Ea)|exact (IH Hd2 b eq_refl)].
    - discriminate.
  Qed.

  Lemma ccode_wf debug raw stmts ts :
    forallb stmt_dom stmts = true -> ccode funcs debug raw stmts = Some ts -> wf_toks ts.
  Proof.
    unfold ccode. generalize (Nat.ltb 1 (length stmts)) as many. intros many.
    revert ts. induction stmts as [|s r IH]; intros ts Hd H.
    - inj H. constructor.
    - cbn [forallb] in Hd. apply andb_true_iff in Hd. destruct Hd as [Hd1 Hd2].
      destruct (cstmt funcs raw s) as [a|] eqn:Ea; [|discriminate].
      match type of H with match ?g with _ => _ end = _ => destruct g as [b|] eqn:Eb; [|discriminate] end.
      inj H. apply wf_toks_app; [exact (cstmt_wf _ _ _ Hd1 Ea)|].
      apply wf_toks_app; [destruct (debug && many); [exact wf_sep|constructor]|exact (IH b Hd2 eq_refl)].
  Qed.
End Stmts.

(* ---- attributes, mixin parameters ------------------------------------------------------------------- *)
Section Attrs.
  Variable funcs : list bytes.

  Definition attr_dom (a : pattr) : bool := expr_dom (pa_val a).

  Lemma attr_tok_run a t x : attr_dom a = true -> attr_tok_text funcs a = Some (t, x) -> arun false t = Some false.
  Proof.
    unfold attr_tok_text, attr_dom. intros Hd H.
    destruct (goquote (pa_name a)) as [qn|] eqn:En; [|discriminate].
    destruct (carg funcs true (pa_val a)) as [[vt va]|] eqn:Ev; [|discriminate].
    pose proof (goquote_etext _ _ En) as Hqn. pose proof (carg_run funcs _ _ _ _ Hd Ev) as Hvt.
    destruct (pa_esc a).
    - destruct va as [v|]; [|discriminate]. inj H. inversion H; subst. ab.
    - destruct (goquote vt) as [qv|] eqn:Eq; [|discriminate]. pose proof (goquote_etext _ _ Eq) as Hqv.
      inversion H; subst. ab.
  Qed.

  Definition attrs_f :=
    fix go (l : list pattr) : option (bytes * list targ) :=
      match l with
      | [] => Some ([], [])
      | a :: r =>
        match attr_tok_text funcs a, go r with
        | Some (t, x), Some (ts, xs) => Some (t ++ ts, x :: xs)
        | _, _ => None
        end
      end.

  Lemma attrs_run l : forallb attr_dom l = true -> forall t xs, attrs_f l = Some (t, xs) -> arun false t = Some false.
  Proof.
    induction l as [|a r IH]; intros Hd t xs H.
    - cbn in H. inversion H; subst. reflexivity.
    - cbn [forallb] in Hd. apply andb_true_iff in Hd. destruct Hd as [Hd1 Hd2].
      cbn [attrs_f] in H. fold attrs_f in H.
      destruct (attr_tok_text funcs a) as [[t1 x1]|] eqn:Ea; [|discriminate].
      destruct (attrs_f r) as [[ts xs']|] eqn:Er; [|discriminate]. inversion H; subst.
      pose proof (attr_tok_run _ _ _ Hd1 Ea) as H1. pose proof (IH Hd2 _ _ eq_refl) as H2. ab.
  Qed.

  Lemma cattrs_wf attrs ab ts : forallb attr_dom attrs = true -> cattrs funcs attrs ab = Some ts -> wf_toks ts.
  Proof.
    intros Hd H. unfold cattrs in H. fold attrs_f in H.
    destruct attrs as [|a0 at'] eqn:Eattrs.
    - destruct ab as [|b0 [|b1 ab']].
      + inj H. constructor.
      + cbn [attrs_f] in H. destruct (is_ident b0) eqn:Eb; [|discriminate]. inj H. destruct (ident_word _ Eb) as [Hw Hn].
        apply wf_one. wfa (B " __attrs " ++ [] ++ B "(__and_attrs $" ++ b0 ++ B ") ").
      + cbn [attrs_f] in H. discriminate.
    - rewrite <- Eattrs in *. clear Eattrs.
      destruct (attrs_f attrs) as [[t xs]|] eqn:Ea; [|destruct attrs; discriminate].
      pose proof (attrs_run attrs Hd _ _ Ea) as Ht.
      assert (H' : match ab with
                   | [] => Some [TAct (B "{{ __attrs " ++ t ++ B " }}") false false (AcPipe ([], [AIdent (B "__attrs") :: xs]))]
                   | [ab0] =>
                     if is_ident ab0 then
                       Some [TAct (B "{{ __attrs " ++ t ++ B "(__and_attrs $" ++ ab0 ++ B ") }}") false false
                                  (AcPipe ([], [AIdent (B "__attrs") :: xs ++ [call (B "__and_attrs") [AVar ab0 []]]]))]
                     else None
                   | _ => None
                   end = Some ts).
      { destruct attrs; [destruct ab; exact H|exact H]. }
      clear H. destruct ab as [|b0 [|b1 ab']]; try discriminate.
      + inj H'. apply wf_one. wfa (B " __attrs " ++ t ++ B " ").
      + destruct (is_ident b0) eqn:Eb; [|discriminate]. inj H'. destruct (ident_word _ Eb) as [Hw Hn].
        apply wf_one. wfa (B " __attrs " ++ t ++ B "(__and_attrs $" ++ b0 ++ B ") ").
  Qed.
End Attrs.

Lemma mixin_param_wf params ts : mixin_param_toks params = Some ts -> wf_toks ts.
Proof.
  unfold mixin_param_toks. generalize (match params with [] => [[]] | _ :: _ => params end) as ps.
  generalize 0 as i. intros i ps. revert i ts. induction ps as [|p r IH]; intros i ts H.
  - inj H. constructor.
  - destruct (match p with [] => true | _ :: _ => is_ident p end) eqn:Ep; cbn [negb] in H; [|discriminate].
    match type of H with match ?g with _ => _ end = _ => destruct g as [b|] eqn:Eb; [|discriminate] end.
    inj H. constructor; [|exact (IH _ _ Eb)].
    destruct (show_nat_word i) as [Hi Hin].
    assert (Hp : word p = true) by (destruct p; [reflexivity|exact (proj1 (ident_word _ Ep))]).
    wfa (B "$" ++ p ++ B " := __tryindex $__args__ " ++ show_nat i).
Qed.

(* ================================================================================================== *)
(* Part T4  nodes                                                                                     *)
(* ================================================================================================== *)
(* the covered programs: every node kind; expressions as in [expr_dom]; a code line that is a string
   literal does not end in "{"; an element name does not end in "{" *)
Fixpoint node_dom (n : pnode) : bool :=
  match n with
  | PTag name _ attrs _ body => negb (last_is "{" name) && forallb attr_dom attrs && forallb node_dom body
  | PText _ | PMixinBlock | PDoctype _ | PComment => true
  | PCode stmts _ _ => forallb stmt_dom stmts
  | PCond test cons_ alt =>
    expr_dom test && forallb node_dom cons_ && match alt with Some a => node_dom a | None => true end
  | PCase e ws =>
    expr_dom e && forallb (fun w => match fst w with Some x => expr_dom x | None => true end
                                    && forallb node_dom (snd w)) ws
  | PEach _ _ obj body => expr_dom obj && forallb node_dom body
  | PWhile test body => expr_dom test && forallb node_dom body
  | PMixinDef _ _ body => forallb node_dom body
  | PMixinCall _ args attrs body => forallb expr_dom args && forallb attr_dom attrs && forallb node_dom body
  | PBlock l => forallb node_dom l
  end.

Lemma word_app a b : word a = true -> word b = true -> word (a ++ b) = true.
Proof. unfold word. intros H1 H2. rewrite forallb_app, H1, H2. reflexivity. Qed.

Lemma wf_text_open name : has_delim name = false -> last_is "{" name = false -> wf_tok (TText (B "<" ++ name)).
Proof.
  intros H1 H2. cbn [wf_tok]. unfold text_ok. change (B "<" ++ name) with ("<"%char :: name).
  rewrite has_delim_cons by discriminate. rewrite H1.
  destruct name as [|c r]; [reflexivity|]. rewrite last_is_cons, H2. reflexivity.
Qed.
Lemma wf_text_close name : has_delim name = false -> wf_tok (TText (B "</" ++ name ++ B ">")).
Proof.
  intros H. cbn [wf_tok]. unfold text_ok.
  change (B "</" ++ name ++ B ">") with (("<"%char :: "/"%char :: name) ++ [">"%char]).
  rewrite has_delim_snoc_other by discriminate. rewrite !has_delim_cons by discriminate. rewrite H.
  rewrite last_is_snoc. reflexivity.
Qed.
Lemma wf_text_doctype v : has_delim v = false -> wf_tok (TText (B "<!DOCTYPE " ++ v ++ B ">" ++ nl)).
Proof.
  intros H. cbn [wf_tok]. unfold text_ok.
  replace (B "<!DOCTYPE " ++ v ++ B ">" ++ nl) with ((B "<!DOCTYPE " ++ v ++ B ">") ++ [LF]).
  2:{ rewrite <- !app_assoc. reflexivity. }
  rewrite has_delim_snoc_other by discriminate. rewrite has_delim_pre by reflexivity.
  change (B ">") with [">"%char]. rewrite has_delim_snoc_other by discriminate. rewrite H.
  rewrite last_is_snoc. reflexivity.
Qed.
Lemma wf_nl : wf_tok (TText nl).
Proof. reflexivity. Qed.
Lemma wf_gt : wf_tok (tx ">").
Proof. reflexivity. Qed.

Ltac fw :=
  repeat first [ assumption | exact wf_sep | apply wf_nl | apply wf_gt
               | apply Forall_nil | apply Forall_app; split | apply Forall_cons ].

Section Nodes.
  Variable funcs : list bytes.
  Variable debug : bool.

  Definition cnodes_fixd (f : nat) :=
    fix go (raw0 : bool) (st0 : cstate) (l : list pnode) {struct l} : option (list tok * bool * cstate) :=
      match l with
      | [] => Some ([], raw0, st0)
      | x0 :: r =>
        match cnode funcs debug f raw0 st0 x0 with
        | Some (a, raw1, st1) =>
          match go raw1 st1 r with
          | Some (b, raw2, st2) => Some (a ++ b, raw2, st2)
          | None => None
          end
        | None => None
        end
      end.
  Lemma cnodes_fixd_cons f raw st x r :
    cnodes_fixd f raw st (x :: r) =
    match cnode funcs debug f raw st x with
    | Some (a, raw1, st1) =>
      match cnodes_fixd f raw1 st1 r with
      | Some (b, raw2, st2) => Some (a ++ b, raw2, st2)
      | None => None
      end
    | None => None
    end.
  Proof. reflexivity. Qed.

  (* what the compile state has collected so far is well-formed *)
  Definition st_wf (st : cstate) : Prop :=
    Forall wf_toks (cs_blocks st) /\ Forall (fun m => wf_toks (snd m)) (cs_mixins st).

  Definition node_okd (f : nat) : Prop :=
    forall n raw st ts raw' st', node_dom n = true -> st_wf st ->
    cnode funcs debug f raw st n = Some (ts, raw', st') -> wf_toks ts /\ st_wf st'.

  Lemma cnodes_wf f : node_okd f ->
    forall l raw st ts raw' st', forallb node_dom l = true -> st_wf st ->
    cnodes_fixd f raw st l = Some (ts, raw', st') -> wf_toks ts /\ st_wf st'.
  Proof.
    intros Hok. induction l as [|x r IH]; intros raw st ts raw' st' Hd Hst H.
    - inversion H; subst. split; [constructor|exact Hst].
    - cbn [forallb] in Hd. apply andb_true_iff in Hd. destruct Hd as [Hd1 Hd2].
      rewrite cnodes_fixd_cons in H.
      destruct (cnode funcs debug f raw st x) as [[[a r1] s1]|] eqn:Ea; [|discriminate].
      destruct (cnodes_fixd f r1 s1 r) as [[[b r2] s2]|] eqn:Eb; [|discriminate].
      inversion H; subst.
      destruct (Hok _ _ _ _ _ _ Hd1 Hst Ea) as [Ha Hs1]. destruct (IH _ _ _ _ _ Hd2 Hs1 Eb) as [Hb Hs2].
      split; [apply wf_toks_app; assumption|exact Hs2].
  Qed.

  Definition case_fixd (f : nat) (et : bytes) (ea : targ) :=
    fix go (raw : bool) (st : cstate) (first : bool) (l : list (option jexpr * list pnode))
      : option (list tok * bool * cstate) :=
      match l with
      | [] => Some ([], raw, st)
      | (None, _) :: r => go raw st first r
      | (Some w, body) :: r =>
        match carg funcs true w with
        | Some (wt, Some wa) =>
          match cnodes_fixd f raw st body with
          | Some (bt, raw1, st1) =>
            match go raw1 st1 false r with
            | Some (rest, raw2, st2) =>
              let p := ([], [[AIdent (B "__op__eql"); ea; wa]]) in
              let head :=
                if first then TAct (B "{{- if __op__eql " ++ et ++ sp ++ wt ++ B " }}") true false (AcIf p)
                else TAct (B "{{- else if __op__eql " ++ et ++ sp ++ wt ++ B " }}") true false (AcElseIf p) in
              Some (head :: bt ++ rest, raw2, st2)
            | None => None
            end
          | None => None
          end
        | _ => None
        end
      end.

  Definition when_dom (w : option jexpr * list pnode) : bool :=
    match fst w with Some x => expr_dom x | None => true end && forallb node_dom (snd w).

  Lemma case_wf f et ea : node_okd f -> arun false et = Some false ->
    forall l raw st first ts raw' st', forallb when_dom l = true -> st_wf st ->
    case_fixd f et ea raw st first l = Some (ts, raw', st') -> wf_toks ts /\ st_wf st'.
  Proof.
    intros Hok Het. induction l as [|[[w|] body] r IH]; intros raw st first ts raw' st' Hd Hst H.
    - inversion H; subst. split; [constructor|exact Hst].
    - cbn [forallb] in Hd. apply andb_true_iff in Hd. destruct Hd as [Hd1 Hd2].
      unfold when_dom in Hd1. cbn [fst snd] in Hd1. apply andb_true_iff in Hd1. destruct Hd1 as [Hdw Hdb].
      cbn [case_fixd] in H. fold (case_fixd f et ea) in H.
      destruct (carg funcs true w) as [[wt [wa|]]|] eqn:Ew; try discriminate.
      destruct (cnodes_fixd f raw st body) as [[[bt r1] s1]|] eqn:Eb; [|discriminate].
      destruct (case_fixd f et ea r1 s1 false r) as [[[rest r2] s2]|] eqn:Er; [|discriminate].
      inversion H; subst.
      destruct (cnodes_wf f Hok _ _ _ _ _ _ Hdb Hst Eb) as [Hb Hs1].
      destruct (IH _ _ _ _ _ _ Hd2 Hs1 Er) as [Hr Hs2].
      pose proof (carg_run funcs _ _ _ _ Hdw Ew) as Hwt.
      split; [|exact Hs2]. constructor; [|apply wf_toks_app; assumption].
      destruct first.
      + wfa (B "if __op__eql " ++ et ++ sp ++ wt ++ B " ").
      + wfa (B "else if __op__eql " ++ et ++ sp ++ wt ++ B " ").
    - cbn [forallb] in Hd. apply andb_true_iff in Hd. destruct Hd as [_ Hd2].
      cbn [case_fixd] in H. fold (case_fixd f et ea) in H. exact (IH _ _ _ _ _ _ Hd2 Hst H).
  Qed.

  Definition goat_f :=
    fix go (l : list pattr) : option (bytes * list targ) :=
      match l with
      | [] => Some ([], [])
      | a :: r =>
        match carg funcs true (pa_val a), go r with
        | Some (vt, va), Some (ts, xs) =>
          if is_ident (pa_name a) || beqb (pa_name a) (B "class")
          then Some (B " """ ++ pa_name a ++ B """ " ++ vt ++ ts, AStr (pa_name a) :: opt_cons va xs)
          else None
        | _, _ => None
        end
      end.
  Lemma goat_run l : forallb attr_dom l = true -> forall t xs, goat_f l = Some (t, xs) -> arun false t = Some false.
  Proof.
    induction l as [|a r IH]; intros Hd t xs H.
    - cbn in H. inversion H; subst. reflexivity.
    - cbn [forallb] in Hd. apply andb_true_iff in Hd. destruct Hd as [Hd1 Hd2].
      cbn [goat_f] in H. fold goat_f in H.
      destruct (carg funcs true (pa_val a)) as [[vt va]|] eqn:Ev; [|discriminate].
      destruct (goat_f r) as [[ts xs']|] eqn:Er; [|discriminate].
      destruct (is_ident (pa_name a) || beqb (pa_name a) (B "class")) eqn:En; [|discriminate].
      inversion H; subst.
      pose proof (carg_run funcs _ _ _ _ Hd1 Ev) as H1. pose proof (IH Hd2 _ _ eq_refl) as H2.
      assert (Hw : word (pa_name a) = true).
      { apply orb_true_iff in En. destruct En as [En|En]; [exact (proj1 (ident_word _ En))|].
        apply beqb_eq in En. rewrite En. reflexivity. }
      ab.
  Qed.
End Nodes.

Lemma Some_inj3 {A B C} (a a' : A) (b b' : B) (c c' : C) :
  Some (a, b, c) = Some (a', b', c') -> a = a' /\ b = b' /\ c = c'.
Proof. intros H; inversion H; auto. Qed.
(* [H : Some (X, r, s) = Some (ts, raw', st')]: substitute, without simplifying X *)
Ltac inj3 H := apply Some_inj3 in H; destruct H as (? & ? & ?); subst.

Lemma dflt_dom whens : forallb when_dom whens = true -> forall acc body,
  (forall b, acc = Some b -> forallb node_dom b = true) ->
  fold_left (fun (acc : option (list pnode)) (w : option jexpr * list pnode) =>
               match fst w with None => Some (snd w) | Some _ => acc end) whens acc = Some body ->
  forallb node_dom body = true.
Proof.
  induction whens as [|w r IH]; intros Hd acc body Hacc Hf.
  - cbn in Hf. exact (Hacc _ Hf).
  - cbn [forallb] in Hd. apply andb_true_iff in Hd. destruct Hd as [Hw Hr].
    cbn [fold_left] in Hf. apply (IH Hr _ _) in Hf; [exact Hf|].
    intros b Hb. destruct (fst w); [exact (Hacc _ Hb)|].
    inversion Hb; subst. unfold when_dom in Hw. apply andb_true_iff in Hw. tauto.
Qed.

Lemma wf_tryindex :
  wf_tok (tryindex_dot (B "attributes") 1) /\ wf_tok (tryindex_dot (B "__args__") 0) /\ wf_tok (tryindex_dot (B "block") 2).
Proof.
  unfold tryindex_dot. split; [|split].
  - wfa (B "$attributes := (__tryindex . 1) ").
  - wfa (B "$__args__ := (__tryindex . 0) ").
  - wfa (B "$block := (__tryindex . 2) ").
Qed.

Section Nodes2.
  Variable funcs : list bytes.
  Variable debug : bool.

  Lemma cnode_wf fuel : node_okd funcs debug fuel.
  Proof.
    induction fuel as [|f IHf]; intros n raw st ts raw' st' Hd Hst H; [discriminate|].
    pose proof (cnodes_wf funcs debug f IHf) as Hnodes.
    destruct n; cbn [cnode] in H; fold (cnodes_fixd funcs debug f) in H; cbn [node_dom] in Hd.
    - (* Tag *)
      apply forallb_and3 in Hd. destruct Hd as (Hd1 & Hd2 & Hd3). apply negb_true_iff in Hd1.
      destruct (has_delim name) eqn:Eh; [discriminate|].
      destruct (cnodes_fixd funcs debug f raw st body) as [[[bt r1] s1]|] eqn:Eb; [|discriminate].
      destruct (cattrs funcs attrs ablocks) as [at_|] eqn:Ea; [|discriminate].
      destruct (Hnodes _ _ _ _ _ _ Hd3 Hst Eb) as [Hb Hs1].
      pose proof (cattrs_wf funcs _ _ _ Hd2 Ea) as Hat.
      pose proof (wf_text_open name Eh Hd1) as Ho. pose proof (wf_text_close name Eh) as Hc.
      assert (Hsepif : forall c : bool, wf_toks (if c then sep else [])) by (intros [|]; [exact wf_sep|constructor]).
      destruct (is_void name); [|destruct (beqb name (B "script") && _); [|destruct (negb (forallb node_inline body) && debug)]];
        inj3 H; (split; [|exact Hs1]); (apply wf_toks_app; [|apply Hsepif]); unfold wf_toks; fw.
    - (* Text *)
      destruct (ctext s) as [t|] eqn:Et; [|discriminate]. inj3 H.
      split; [exact (ctext_wf s _ Et)|exact Hst].
    - (* Code *)
      destruct (ccode funcs debug (negb must_escape) stmts) as [t|] eqn:Ec; [|discriminate]. inj3 H.
      split; [exact (ccode_wf funcs _ _ _ _ Hd Ec)|exact Hst].
    - (* Conditional *)
      apply forallb_and3 in Hd. destruct Hd as (Hd1 & Hd2 & Hd3).
      destruct (carg funcs true test) as [[tq [ta|]]|] eqn:Et; try discriminate.
      pose proof (carg_some funcs _ _ _ _ Hd1 Et) as Htq.
      destruct (cnodes_fixd funcs debug f raw st cons) as [[[ct r1] s1]|] eqn:Ec; [|discriminate].
      destruct (Hnodes _ _ _ _ _ _ Hd2 Hst Ec) as [Hc Hs1].
      assert (Hhead : forall a, wf_tok (TAct (B "{{ if " ++ tq ++ B " -}}") false true a)) by (intros a; wfa (B " if " ++ tq)).
      assert (Htail : forall a, wf_tok (TAct (B "{{ end -}}") false true a)) by (intros a; wfa (B " end")).
      assert (Helse : forall a, wf_tok (TAct (B "{{ else -}}") false true a)) by (intros a; wfa (B " else")).
      destruct alt as [a|].
      + destruct (cnode funcs debug f r1 s1 a) as [[[at_ r2] s2]|] eqn:Ea; [|discriminate].
        inj3 H. destruct (IHf _ _ _ _ _ _ Hd3 Hs1 Ea) as [Ha Hs2]. split; [|exact Hs2].
        constructor; [apply Hhead|]. apply wf_toks_app; [exact Hc|]. constructor; [apply Helse|].
        apply wf_toks_app; [exact Ha|apply wf_one, Htail].
      + inj3 H. split; [|exact Hs1].
        constructor; [apply Hhead|]. apply wf_toks_app; [exact Hc|apply wf_one, Htail].
    - (* Case *)
      apply andb_true_iff in Hd. destruct Hd as [Hd1 Hd2].
      change (forallb (fun w => match fst w with Some x => expr_dom x | None => true end && forallb node_dom (snd w)) whens)
        with (forallb when_dom whens) in Hd2.
      destruct (carg funcs true e) as [[et [ea|]]|] eqn:Ee; try discriminate.
      pose proof (carg_run funcs _ _ _ _ Hd1 Ee) as Het.
      destruct (negb _); [discriminate|].
      fold (case_fixd funcs debug f et ea) in H.
      destruct (case_fixd funcs debug f et ea raw st true whens) as [[[t1 r1] s1]|] eqn:Ew; [|discriminate].
      destruct (case_wf funcs debug f et ea IHf Het _ _ _ _ _ _ _ Hd2 Hst Ew) as [Hw Hs1].
      assert (Hend : forall a, wf_tok (TAct (B "{{- end }}") true false a)) by (intros a; wfa (B "end ")).
      assert (Helse : forall a, wf_tok (TAct (B "{{- else }}") true false a)) by (intros a; wfa (B "else ")).
      destruct (fold_left _ whens None) as [body|] eqn:Ef.
      + pose proof (dflt_dom whens Hd2 None body ltac:(intros; discriminate) Ef) as Hdb.
        destruct (cnodes_fixd funcs debug f r1 s1 body) as [[[bt r2] s2]|] eqn:Eb; [|discriminate].
        inj3 H. destruct (Hnodes _ _ _ _ _ _ Hdb Hs1 Eb) as [Hb Hs2]. split; [|exact Hs2].
        apply wf_toks_app; [exact Hw|]. constructor; [apply Helse|]. apply wf_toks_app; [exact Hb|apply wf_one, Hend].
      + inj3 H. split; [|exact Hs1]. apply wf_toks_app; [exact Hw|apply wf_one, Hend].
    - (* Each *)
      apply andb_true_iff in Hd. destruct Hd as [Hd1 Hd2].
      destruct (negb (is_ident v) || _) eqn:Eid; [discriminate|].
      apply orb_false_iff in Eid. destruct Eid as [Ev Ek]. apply negb_false_iff in Ev, Ek.
      destruct (ident_word v Ev) as [Hwv Hnv].
      destruct (carg funcs true obj) as [[ot [oa|]]|] eqn:Eo; try discriminate.
      pose proof (carg_some funcs _ _ _ _ Hd1 Eo) as Hot.
      destruct (cnodes_fixd funcs debug f raw st body) as [[[bt r1] s1]|] eqn:Eb; [|discriminate].
      inj3 H. destruct (Hnodes _ _ _ _ _ _ Hd2 Hst Eb) as [Hb Hs1].
      split; [|exact Hs1].
      assert (Htail : forall a, wf_tok (TAct (B "{{ end -}}") false true a)) by (intros a; wfa (B " end")).
      constructor; [|apply wf_toks_app; [exact Hb|apply wf_one, Htail]].
      destruct k as [k|].
      + destruct (ident_word k Ek) as [Hwk Hnk]. wfa (B " range $" ++ k ++ B ", $" ++ v ++ B " := " ++ ot).
      + wfa (B " range $" ++ v ++ B " := " ++ ot).
    - (* While *)
      apply andb_true_iff in Hd. destruct Hd as [Hd1 Hd2].
      destruct (carg funcs true test) as [[tq [ta|]]|] eqn:Et; try discriminate.
      pose proof (carg_some funcs _ _ _ _ Hd1 Et) as Htq.
      destruct (cnodes_fixd funcs debug f raw st body) as [[[bt r1] s1]|] eqn:Eb; [|discriminate].
      inj3 H. destruct (Hnodes _ _ _ _ _ _ Hd2 Hst Eb) as [Hb Hs1]. split; [|exact Hs1].
      constructor; [wfa (B " range " ++ tq)|]. apply wf_toks_app; [exact Hb|apply wf_one]. wfa (B " end").
    - (* Mixin definition *)
      destruct (is_ident name) eqn:En; cbn [negb] in H; [|discriminate].
      destruct (ident_word name En) as [Hwn Hnn].
      destruct (lookup name (cs_mixins st)); [inj3 H; split; [constructor|exact Hst]|].
      destruct (mixin_param_toks params) as [pt|] eqn:Ep; [|discriminate].
      destruct (cnodes_fixd funcs debug f raw st body) as [[[bt r1] s1]|] eqn:Eb; [|discriminate].
      inj3 H. destruct (Hnodes _ _ _ _ _ _ Hd Hst Eb) as [Hb [Hs1a Hs1b]].
      pose proof (mixin_param_wf _ _ Ep) as Hp. destruct wf_tryindex as (T1 & T2 & T3).
      split; [constructor|]. split; cbn [cs_blocks cs_mixins]; [exact Hs1a|].
      apply Forall_app. split; [exact Hs1b|]. constructor; [|constructor]. cbn [snd].
      assert (Hdef : wf_tok (TAct (B "{{- define ""mixin_" ++ name ++ B """ }}") true false (AcDefine (B "mixin_" ++ name))))
        by (wfa (B "define ""mixin_" ++ name ++ B """ ")).
      assert (Hend : wf_tok (TAct (B "{{- end }}") true false AcEnd)) by (wfa (B "end ")).
      unfold wf_toks. fw.
    - (* Mixin call *)
      apply forallb_and3 in Hd. destruct Hd as (Hd1 & Hd2 & Hd3).
      destruct (is_ident name) eqn:En; cbn [negb] in H; [|discriminate].
      destruct (ident_word name En) as [Hwn Hnn].
      fold (goat_f funcs) in H.
      destruct (goat_f funcs attrs) as [[att ata]|] eqn:Eg; [|discriminate].
      destruct (cnodes_fixd funcs debug f raw st body) as [[[bt r1] s1]|] eqn:Eb; [|discriminate].
      destruct (carg funcs true (JArr args)) as [[argt [arga|]]|] eqn:Ea; try discriminate.
      destruct (Hnodes _ _ _ _ _ _ Hd3 Hst Eb) as [Hb [Hs1a Hs1b]].
      pose proof (goat_run funcs attrs Hd2 _ _ Eg) as Hatt.
      pose proof (carg_run funcs (JArr args) _ _ _ Hd1 Ea) as Hargt.
      cbv zeta in H.
      destruct bt as [|b0 bt'].
      + inj3 H. split; [|split; assumption]. apply wf_one.
        wfa (B " template ""mixin_" ++ name ++ B """ (__op__array (" ++ argt ++ B ") (" ++ (B "__op__map_params " ++ att)
               ++ B ") (null) ) ").
      + destruct (beqb (show_toks (b0 :: bt')) []); [discriminate|].
        inj3 H.
        destruct (show_nat_word (cs_counter s1)) as [Hc Hcn].
        assert (Hbn : word (B "block_" ++ name ++ B "_" ++ show_nat (cs_counter s1)) = true).
        { apply word_app; [reflexivity|]. apply word_app; [exact Hwn|]. apply word_app; [reflexivity|exact Hc]. }
        set (bn := B "block_" ++ name ++ B "_" ++ show_nat (cs_counter s1)) in *.
        split.
        * constructor; [wfa (B " __freeze """ ++ bn ++ B """ ")|]. apply wf_one.
          wfa (B " template ""mixin_" ++ name ++ B """ (__op__array (" ++ argt ++ B ") (" ++ (B "__op__map_params " ++ att)
                 ++ B ") (""" ++ bn ++ B """) ) ").
        * split; cbn [cs_blocks cs_mixins]; [|exact Hs1b].
          apply Forall_app. split; [exact Hs1a|]. constructor; [|constructor].
          assert (Hdef : wf_tok (TAct (B "{{- define """ ++ bn ++ B """ -}}") true true (AcDefine bn)))
            by (wfa (B "define """ ++ bn ++ B """")).
          assert (Hend : wf_tok (TAct (B "{{- end -}}") true true AcEnd)) by (wfa (B "end")).
          unfold wf_toks. fw.
    - (* Mixin block *)
      inj3 H. split; [|exact Hst]. apply wf_one. wfa (B "template $block").
    - (* Doctype *)
      destruct (has_delim v) eqn:Eh; [discriminate|]. inj3 H. split; [|exact Hst].
      apply wf_one. exact (wf_text_doctype v Eh).
    - (* Block *)
      exact (Hnodes _ _ _ _ _ _ Hd Hst H).
    - (* Comment *)
      inj3 H. split; [constructor|exact Hst].
  Qed.

  (* (1) every program the compiler accepts, production or debug mode: all tokens are well-formed *)
  Theorem compile_wf nodes ts :
    forallb node_dom nodes = true -> compile funcs debug nodes = Some ts -> wf_toks ts.
  Proof.
    unfold compile. intros Hd.
    destruct (cnode funcs debug _ false cs0 (PBlock nodes)) as [[[main r1] s1]|] eqn:E; [|discriminate].
    intros H. inj H.
    assert (H0 : st_wf cs0) by (split; constructor).
    destruct (cnode_wf _ (PBlock nodes) _ _ _ _ _ Hd H0 E) as [Hm [Hb Hx]].
    apply wf_toks_app; [exact Hm|]. apply wf_toks_app.
    - clear -Hb. induction Hb as [|b r H1 H2 IH]; [constructor|]. cbn [concat]. apply wf_toks_app; assumption.
    - clear -Hx. induction Hx as [|m r H1 H2 IH]; [constructor|]. cbn [flat_map].
      constructor; [apply wf_nl|]. apply wf_toks_app; assumption.
  Qed.
End Nodes2.

(* ================================================================================================== *)
(* The seam for compiled programs; forced hypotheses; non-vacuity                                     *)
(* ================================================================================================== *)
Theorem lexer_seam funcs debug nodes ts :
  forallb node_dom nodes = true -> compile funcs debug nodes = Some ts ->
  segment (show_toks ts) = Some (map seg_of_tok (lexed ts)).
Proof. intros Hd H. apply seam_wf. exact (compile_wf funcs debug nodes ts Hd H). Qed.

Local Transparent replace_all.

(* -- each exclusion of [node_dom] is forced: the seam FAILS on a program that violates only it ----- *)
Definition seam_fails (nodes : list pnode) : Prop :=
  exists ts, compile [] false nodes = Some ts /\ segment (show_toks ts) <> Some (map seg_of_tok (lexed ts)).

(* an element name ending in "{" with attributes (not a name the pug grammar produces) *)
Definition prog_name_brace : list pnode :=
  [PTag (B "a{") false [{| pa_name := B "id"; pa_val := JStr (B "x"); pa_esc := true |}] [] []].
Example seam_name_brace_refuted :
  (match compile [] false prog_name_brace with
   | Some ts => Some (show_toks ts, segment (show_toks ts), map seg_of_tok (lexed ts))
   | None => None
   end) =
  Some (B "<a{{{ __attrs (__attr ""id"" ""x"" true)  }}></a{>",
        Some [SText (B "<a"); SAct false (B "{ __attrs (__attr ""id"" ""x"" true)  ") false; SText (B "></a{>")],
        [SText (B "<a{"); SAct false (B " __attrs (__attr ""id"" ""x"" true)  ") false; SText (B "></a{>")]).
Proof. vm_compute. reflexivity. Qed.

(* a float literal whose text is not a number (the model's JNumF carries arbitrary bytes): a trailing blank
   makes the lexer read " -}}" as "-" followed by "}}" *)
Definition prog_numf : list pnode := [PCond (JNumF (B "1 ")) [PText (B "x")] None].
Example seam_numf_refuted :
  (match compile [] false prog_numf with
   | Some ts => Some (show_toks ts, segment (show_toks ts), map seg_of_tok (lexed ts))
   | None => None
   end) =
  Some (B "{{ if 1  -}}x{{ end -}}",
        Some [SAct false (B " if 1  -") false; SText (B "x"); SAct false (B " end") true],
        [SAct false (B " if 1 ") true; SText (B "x"); SAct false (B " end") true]).
Proof. vm_compute. reflexivity. Qed.

Lemma seam_fails_of nodes t s l :
  (match compile [] false nodes with
   | Some ts => Some (show_toks ts, segment (show_toks ts), map seg_of_tok (lexed ts))
   | None => None
   end) = Some (t, s, l) -> s <> Some l -> seam_fails nodes.
Proof.
  unfold seam_fails. destruct (compile [] false nodes) as [ts|]; [|discriminate].
  intros H Hne. inversion H; subst. exists ts. split; [reflexivity|exact Hne].
Qed.

(* the two exclusions, each alone: all other conjuncts of node_dom hold *)
Theorem lexer_seam_refuted : seam_fails prog_name_brace /\ seam_fails prog_numf.
Proof.
  split.
  - apply (seam_fails_of prog_name_brace _ _ _ seam_name_brace_refuted). intros H; inversion H.
  - apply (seam_fails_of prog_numf _ _ _ seam_numf_refuted). intros H; inversion H.
Qed.

(* a buffered string literal never makes the compiler decline (before the repair it did, for "{{"): its
   tokens are well-formed and their values, in order, are the escaped literal *)
Lemma cwrap_str_total funcs raw s :
  exists ts, cwrap funcs raw (JStr s) = Some ts /\ toks_value ts = Some (escape s) /\ wf_toks ts.
Proof.
  cbn [cwrap]. pose proof (ctext_total (escape s)) as Hc. pose proof (toks_value_text (escape s)) as Hv.
  rewrite Hc. destruct (text_toks (quote_text (escape s))) as [|t0 r0] eqn:Et.
  - exists [TText []]. split; [reflexivity|]. split; [|apply wf_one; reflexivity].
    cbn in Hv. inversion Hv as [Hv']. reflexivity.
  - exists (t0 :: r0). split; [reflexivity|]. split; [exact Hv|]. exact (ctext_wf (escape s) _ Hc).
Qed.

(* -- why the two repairs were needed ---------------------------------------------------------------- *)
(* F-C06-f.  The StringLiteral arm of renderExpression (wrap) as it was: the escaped value as one text.
   `= "a{"` followed by `= p`: the brace of the literal joins the "{{" of the next action *)
Definition cwrap_str_v0 (s : bytes) : list tok := [TText (escape s)].
Definition prog_str_brace : list pnode :=
  [PCode [SExpr (JStr (B "a{"))] true true; PCode [SExpr (JId (B "p"))] true true].
Example seam_str_brace_unrepaired_refuted :
  (* the unrepaired arm: the lexer cuts the source differently from the token view *)
  (match compile [] false [PCode [SExpr (JId (B "p"))] true true] with
   | Some ts2 => let ts := cwrap_str_v0 (B "a{") ++ ts2 in
                 Some (show_toks ts, segment (show_toks ts), map seg_of_tok (lexed ts))
   | None => None
   end) =
  Some (B "a{{{$p | __pug__html}}",
        Some [SText (B "a"); SAct false (B "{$p | __pug__html") false],
        [SText (B "a{"); SAct false (B "$p | __pug__html") false]) /\
  (* the repaired arm: the brace is written as the action {{"{"}} *)
  (match compile [] false prog_str_brace with
   | Some ts => Some (show_toks ts, segment (show_toks ts), map seg_of_tok (lexed ts))
   | None => None
   end) =
  Some (B "a{{""{""}}{{$p | __pug__html}}",
        Some [SText (B "a"); SAct false (B """{""") false; SAct false (B "$p | __pug__html") false],
        [SText (B "a"); SAct false (B """{""") false; SAct false (B "$p | __pug__html") false]).
Proof. split; vm_compute; reflexivity. Qed.

(* F-C01-h.  interpolate as it was: the literal parts pasted between double quotes, every "" deleted *)
Definition tpl_text_v0 (funcs : list bytes) (parts : list (bytes + jexpr)) : option bytes :=
  let go :=
    fix go (ps : list (bytes + jexpr)) : option bytes :=
      match ps with
      | [] => Some []
      | inl s :: r => match go r with Some t => Some (s ++ t) | None => None end
      | inr x :: r =>
        match carg funcs true x, go r with
        | Some (xt, Some _), Some t => Some (B """ " ++ xt ++ B " """ ++ t)
        | _, _ => None
        end
      end in
  match go parts with
  | Some t => Some (replace_all (B """""") [] (B "(__str """ ++ t ++ B """)"))
  | None => None
  end.
Definition prog_tpl_quote : list pnode :=
  [PCode [SExpr (JTpl [inl (B """"); inr (JId (B "x"))])] true true].
Example seam_tpl_quote_unrepaired_refuted :
  (* the unrepaired arm: the quote of the literal part ends the string early, the action does not end *)
  (match tpl_text_v0 [] [inl (B """"); inr (JId (B "x"))] with
   | Some t => Some (t, segment (B "{{" ++ t ++ B " | __pug__html}}"))
   | None => None
   end) = Some (B "(__str "" $x )", None) /\
  (* the repaired arm: the parts are written with %q *)
  (match compile [] false prog_tpl_quote with
   | Some ts => Some (show_toks ts, segment (show_toks ts), map seg_of_tok (lexed ts))
   | None => None
   end) =
  Some (B "{{(__str ""\"""" $x ) | __pug__html}}",
        Some [SAct false (B "(__str ""\"""" $x ) | __pug__html") false],
        [SAct false (B "(__str ""\"""" $x ) | __pug__html") false]).
Proof. split; vm_compute; reflexivity. Qed.

Theorem lexer_seam_unrepaired_refuted :
  (exists ts2, compile [] false [PCode [SExpr (JId (B "p"))] true true] = Some ts2 /\
     segment (show_toks (cwrap_str_v0 (B "a{") ++ ts2)) <> Some (map seg_of_tok (lexed (cwrap_str_v0 (B "a{") ++ ts2)))) /\
  (exists t, tpl_text_v0 [] [inl (B """"); inr (JId (B "x"))] = Some t /\
     segment (B "{{" ++ t ++ B " | __pug__html}}") = None) /\
  forallb node_dom prog_str_brace = true /\ forallb node_dom prog_tpl_quote = true.
Proof.
  split; [|split; [|split]].
  - eexists. split; [vm_compute; reflexivity|]. vm_compute. intros X; inversion X.
  - eexists. split; [vm_compute; reflexivity|]. vm_compute. reflexivity.
  - vm_compute. reflexivity.
  - vm_compute. reflexivity.
Qed.

(* -- non-vacuity: a mixin definition and call with a block, attributes with a string full of delimiters,
      if/else, each with key, a pipeline whose string literal holds }} -}} {{ quotes and a backslash,
      a variable declaration, case with default, texts full of {{ }} { with white space at their edges --- *)
Definition nv_seam_prog : list pnode :=
  [PMixinDef (B "m") [B "a"] [PTag (B "li") false [] [] [PCode [SExpr (JId (B "a"))] true true; PMixinBlock]];
   PTag (B "div") false [{| pa_name := B "title"; pa_val := JStr (B "}} "" {{"); pa_esc := true |}] []
     [PText (B "a{{b}}c {{- x -}} {}}{");
      PCond (JBin BLt (JId (B "n")) (JNum 3)) [PText (B "  y }} ")] (Some (PBlock [PText (B "{{else}}  ")]));
      PEach (B "v") (Some (B "k")) (JId (B "xs"))
        [PCode [SExpr (JBin BAdd (JId (B "v")) (JStr (B "}} -}} {{ ""q"" \")))] true true; PText (B " {")];
      PMixinCall (B "m") [JUn UNeg false (JNum 5)] [] [PText (B "blk }}")];
      PCode [SVar [JVar (B "i") (Some (JUn UNeg false (JNum 1)))]] false false;
      PCase (JId (B "i")) [(Some (JNum 1), [PText (B "one")]); (None, [PText (B "{{dflt")])]]].

Example nv_seam_domain : forallb node_dom nv_seam_prog = true.
Proof. vm_compute. reflexivity. Qed.

Definition nv_seam_source : bytes :=
  B "<div{{ __attrs (__attr ""title"" ""}} \"" {{"" true)  }}>a{{""{{""}}b{{""}}""}}c {{""{{""}}- x -{{""}}""}} {{""{""}}{{""}}""}}{{""{""}}"
  ++ B "{{ if (__op__lt $n 3) -}}  y {{""}}""}} {{ else -}}{{""{{""}}else{{""}}""}}  {{ end -}}"
  ++ B "{{ range $k, $v := $xs -}}{{(__op__add $v ""}} -}} {{ \""q\"" \\"") | __pug__html}} {{""{""}}{{ end -}}"
  ++ B "{{ __freeze ""block_m_0"" }}{{ template ""mixin_m"" (__op__array ((__op__array (__op__sub 5))) (__op__map_params ) (""block_m_0"") ) }}"
  ++ B "{{ $i := (__op__sub 1) -}}{{- if __op__eql $i 1 }}one{{- else }}{{""{{""}}dflt{{- end }}</div>" ++ [LF; LF]
  ++ B "{{- define ""block_m_0"" -}}" ++ [LF] ++ B "blk {{""}}""}}" ++ [LF] ++ B "{{- end -}}" ++ [LF; LF]
  ++ B "{{- define ""mixin_m"" }}" ++ [LF] ++ B "{{- $attributes := (__tryindex . 1) }}" ++ [LF]
  ++ B "{{- $__args__ := (__tryindex . 0) }}" ++ [LF] ++ B "{{- $block := (__tryindex . 2) }}" ++ [LF]
  ++ B "{{- $a := __tryindex $__args__ 0 -}}" ++ [LF] ++ B "<li>{{$a | __pug__html}}{{- template $block -}}</li>" ++ [LF]
  ++ B "{{- end }}".

(* the template source the model emits (the real engine emits the same bytes), and its cut *)
Example nv_seam_value :
  (match compile [] false nv_seam_prog with
   | Some ts => Some (show_toks ts, segment (show_toks ts), length ts)
   | None => None
   end) =
  Some (nv_seam_source,
        Some [SText (B "<div"); SAct false (B " __attrs (__attr ""title"" ""}} \"" {{"" true)  ") false;
              SText (B ">a"); SAct false (B """{{""") false; SText (B "b"); SAct false (B """}}""") false;
              SText (B "c "); SAct false (B """{{""") false; SText (B "- x -"); SAct false (B """}}""") false;
              SText (B " "); SAct false (B """{""") false; SAct false (B """}}""") false; SAct false (B """{""") false;
              SAct false (B " if (__op__lt $n 3)") true; SText (B "y "); SAct false (B """}}""") false; SText (B " ");
              SAct false (B " else") true; SAct false (B """{{""") false; SText (B "else"); SAct false (B """}}""") false;
              SText (B "  "); SAct false (B " end") true; SAct false (B " range $k, $v := $xs") true;
              SAct false (B "(__op__add $v ""}} -}} {{ \""q\"" \\"") | __pug__html") false; SText (B " ");
              SAct false (B """{""") false; SAct false (B " end") true; SAct false (B " __freeze ""block_m_0"" ") false;
              SAct false (B " template ""mixin_m"" (__op__array ((__op__array (__op__sub 5))) (__op__map_params ) (""block_m_0"") ) ") false;
              SAct false (B " $i := (__op__sub 1)") true; SAct true (B "if __op__eql $i 1 ") false; SText (B "one");
              SAct true (B "else ") false; SAct false (B """{{""") false; SText (B "dflt"); SAct true (B "end ") false;
              SText (B "</div>"); SAct true (B "define ""block_m_0""") true; SText (B "blk "); SAct false (B """}}""") false;
              SAct true (B "end") true; SAct true (B "define ""mixin_m"" ") false;
              SAct true (B "$attributes := (__tryindex . 1) ") false; SAct true (B "$__args__ := (__tryindex . 0) ") false;
              SAct true (B "$block := (__tryindex . 2) ") false; SAct true (B "$a := __tryindex $__args__ 0") true;
              SText (B "<li>"); SAct false (B "$a | __pug__html") false; SAct true (B "template $block") true;
              SText (B "</li>"); SAct true (B "end ") false],
        67).
Proof. vm_compute. reflexivity. Qed.

(* ... which is, as the theorem says, the token-level view; in debug mode too *)
Example nv_seam_instance :
  (match compile [] false nv_seam_prog with
   | Some ts => segment (show_toks ts) = Some (map seg_of_tok (lexed ts))
   | None => False
   end) /\
  (match compile [] true nv_seam_prog with
   | Some ts => segment (show_toks ts) = Some (map seg_of_tok (lexed ts)) /\ length ts = 79
   | None => False
   end).
Proof.
  split.
  - destruct (compile [] false nv_seam_prog) as [ts|] eqn:E; [|vm_compute in E; discriminate E].
    exact (lexer_seam [] false _ ts nv_seam_domain E).
  - destruct (compile [] true nv_seam_prog) as [ts|] eqn:E; [|vm_compute in E; discriminate E].
    split; [exact (lexer_seam [] true _ ts nv_seam_domain E)|].
    vm_compute in E. inversion E; subst. reflexivity.
Qed.
Global Opaque replace_all.
