(* C20 — proofs about Models/ArrayOps.v: forward simulation of M (the code) by S (JavaScript)
   over all programs, aliasing, freshness, string methods, refutations for the listed findings. *)
From Coq Require Import ZArith List Ascii String Bool Lia.
From PV Require Import Base.Bytes Models.ArrayOps.
Import ListNotations.

(* ------------------------------------------------------------------ lists *)
Lemma Forall2_nth_error {A B} (R : A -> B -> Prop) l l' n :
  Forall2 R l l' ->
  match nth_error l n, nth_error l' n with
  | Some a, Some b => R a b
  | None, None => True
  | _, _ => False
  end.
Proof.
  intros H; revert n; induction H; intros [|n]; simpl; auto. apply IHForall2.
Qed.

Lemma Forall2_upd {A B} (R : A -> B -> Prop) l l' n a b :
  Forall2 R l l' -> R a b -> Forall2 R (upd l n a) (upd l' n b).
Proof.
  intros H; revert n; induction H; intros [|n] Hab; simpl; constructor; auto.
Qed.

Lemma Forall2_firstn {A B} (R : A -> B -> Prop) l l' n :
  Forall2 R l l' -> Forall2 R (firstn n l) (firstn n l').
Proof. intros H; revert n; induction H; intros [|n]; simpl; constructor; auto. Qed.

Lemma Forall2_skipn {A B} (R : A -> B -> Prop) l l' n :
  Forall2 R l l' -> Forall2 R (skipn n l) (skipn n l').
Proof. intros H; revert n; induction H; intros [|n]; simpl; auto. Qed.

Lemma Forall2_removelast {A B} (R : A -> B -> Prop) l l' :
  Forall2 R l l' -> Forall2 R (removelast l) (removelast l').
Proof.
  induction 1; simpl; auto.
  destruct H0; auto.
Qed.

Lemma Forall2_rev {A B} (R : A -> B -> Prop) l l' :
  Forall2 R l l' -> Forall2 R (rev l) (rev l').
Proof.
  induction 1; simpl; auto. apply Forall2_app; auto.
Qed.

Lemma Forall2_last_opt {A B} (R : A -> B -> Prop) l l' :
  Forall2 R l l' ->
  match last_opt l, last_opt l' with
  | Some a, Some b => R a b
  | None, None => True
  | _, _ => False
  end.
Proof.
  intros H. apply Forall2_rev in H. unfold last_opt.
  destruct H; auto.
Qed.

Lemma Forall2_len {A B} (R : A -> B -> Prop) l l' : Forall2 R l l' -> length l = length l'.
Proof. induction 1; simpl; auto. Qed.

Lemma firstn1_skipn {A} (s : list A) k :
  firstn 1 (skipn k s) = match nth_error s k with Some c => [c] | None => [] end.
Proof.
  revert k; induction s as [|c s IH]; intros [|k]; try reflexivity.
  change (skipn (S k) (c :: s)) with (skipn k s). rewrite IH. reflexivity.
Qed.

(* ------------------------------------------------------------------ environments *)
Lemma env_get_rel me je x :
  env_rel me je ->
  match env_get x me, env_get x je with
  | Some g, Some j => vrel g j
  | None, None => True
  | _, _ => False
  end.
Proof.
  induction 1 as [|[y g] [y' j] me je [Hk Hv] H IH]; simpl; auto.
  simpl in Hk, Hv; subst y'. destruct (Nat.eqb x y); auto.
Qed.

Lemma env_set_rel me je x g j :
  env_rel me je -> vrel g j -> env_rel (env_set x g me) (env_set x j je).
Proof.
  intros H Hv; induction H as [|[y g0] [y' j0] me je [Hk Hv0] H IH]; simpl.
  - constructor; auto.
  - simpl in Hk, Hv0; subst y'. destruct (Nat.eqb x y); constructor; simpl; auto.
Qed.

(* ------------------------------------------------------------------ values *)
Lemma erel_box g j : erel g j -> box g = g.
Proof. destruct 1; reflexivity. Qed.

Lemma vrel_arr g l : vrel g (JArr l) -> g = Arr l.
Proof. inversion 1; subst; auto. match goal with H : erel _ _ |- _ => inversion H end. Qed.

Lemma vrel_str g s : vrel g (JStr s) -> g = Str s \/ g = GStr s.
Proof. inversion 1; subst; auto. match goal with H : erel _ _ |- _ => inversion H; auto end. Qed.

Lemma vrel_num g z : vrel g (JNum z) -> g = Num z \/ g = GInt z.
Proof. inversion 1; subst; auto. match goal with H : erel _ _ |- _ => inversion H; auto end. Qed.

Lemma vrel_scalar_box g j : vrel g j -> is_jarr j = false -> erel (box g) j.
Proof.
  destruct 1 as [g j He| | | |]; simpl; intros; try discriminate; try constructor.
  rewrite (erel_box _ _ He); exact He.
Qed.

Lemma erel_text g j t : erel g j -> jshow j = Some t -> gtext g = Some t.
Proof. destruct 1; simpl; auto. Qed.

Lemma vrel_text g j t : vrel g j -> jshow j = Some t -> gtext g = Some t.
Proof.
  destruct 1 as [g j He| | | |]; simpl; auto; try discriminate.
  - apply erel_text; exact He.
  - unfold jshow; simpl. unfold num_text. destruct (Z.ltb (Z.abs z) ten10); congruence.
Qed.

Lemma omap_text gs js ts :
  Forall2 erel gs js -> omap jshow js = Some ts -> omap gtext gs = Some ts.
Proof.
  intros H; revert ts; induction H as [|g j gs js He H IH]; simpl; auto.
  intros ts. destruct (jshow j) as [t|] eqn:E; [|discriminate].
  destruct (omap jshow js) as [ts'|] eqn:E2; [|discriminate].
  intros Ht. rewrite (erel_text _ _ _ He E), (IH _ eq_refl). exact Ht.
Qed.

(* DeepEqual on converted scalars is === as soon as one side is not null/undefined *)
Lemma eqb_rel x y b w :
  erel x y -> erel b w -> nullish w = false -> gval_eqb x b = jval_eqb y w.
Proof. destruct 1; destruct 1; simpl; intros; try reflexivity; try discriminate. Qed.

Lemma index_of_rel b w gs js k :
  erel b w -> nullish w = false -> Forall2 erel gs js -> index_of_g b gs k = index_of_j w js k.
Proof.
  intros Hb Hn H; revert k; induction H as [|x y gs js He H IH]; intros k; simpl; auto.
  rewrite (eqb_rel _ _ _ _ He Hb Hn). destruct (jval_eqb y w); auto.
Qed.

(* ------------------------------------------------------------------ sorting *)
Definition prel (p : bytes * gval) (q : bytes * jval) : Prop :=
  fst p = fst q /\ erel (snd p) (snd q) /\ nullish (snd q) = false.

Lemma ins_rel p q l l' : prel p q -> Forall2 prel l l' -> Forall2 prel (ins p l) (ins q l').
Proof.
  intros Hp H; induction H as [|a b l l' Hab H IH]; simpl.
  - constructor; auto.
  - destruct Hp as [Hk Hp], Hab as [Hk' Hab]. rewrite Hk, Hk'.
    destruct (bytes_ltb (fst b) (fst q)); constructor; auto; try (split; auto).
    constructor; auto. split; auto.
Qed.

Lemma ssort_rel l l' : Forall2 prel l l' -> Forall2 prel (ssort l) (ssort l').
Proof. induction 1; simpl; auto. apply ins_rel; auto. Qed.

Lemma has_tie_rel l l' : Forall2 prel l l' -> has_tie gval_eqb l = has_tie jval_eqb l'.
Proof.
  induction 1 as [|p q l l' Hp H IH]; simpl; auto.
  rewrite IH. f_equal.
  clear IH. induction H as [|a b l l' Hab H IH]; simpl; auto.
  rewrite IH. f_equal.
  destruct Hp as [Hk [He Hn]], Hab as [Hk' [He' Hn']].
  rewrite Hk, Hk', (eqb_rel _ _ _ _ He He' Hn'). reflexivity.
Qed.

Lemma keyed_rel gs js ps :
  Forall2 erel gs js -> existsb nullish js = false -> keyed_j js = Some ps ->
  exists gps, keyed_g gs = Some gps /\ Forall2 prel gps ps.
Proof.
  intros H; revert ps; induction H as [|g j gs js He H IH]; simpl; intros ps Hn Hk.
  - inversion Hk; subst. exists []. split; auto.
  - apply orb_false_iff in Hn. destruct Hn as [Hn Hns].
    unfold keyed_j in Hk; simpl in Hk.
    destruct (jtext j) as [t|] eqn:Et; simpl in Hk; [|discriminate].
    fold (keyed_j js) in Hk. destruct (keyed_j js) as [ps'|] eqn:Ek; [|discriminate].
    inversion Hk; subst ps; clear Hk.
    destruct (IH _ Hns eq_refl) as [gps [Hg Hr]].
    assert (Ht : gtext g = Some t).
    { apply erel_text with (j := j); auto. unfold jshow. rewrite Hn. exact Et. }
    exists ((t, g) :: gps). unfold keyed_g in *; simpl. rewrite Ht; simpl. rewrite Hg.
    split; auto. constructor; auto. repeat split; auto.
Qed.

Lemma filter_no_undef js :
  existsb nullish js = false ->
  filter (fun j => negb (is_undef j)) js = js /\ filter is_undef js = [].
Proof.
  induction js as [|j js IH]; simpl; auto.
  intros H. apply orb_false_iff in H. destruct H as [Hn Hns].
  destruct (IH Hns) as [E1 E2]. destruct j; simpl in *; try discriminate; rewrite ?E1, ?E2; auto.
Qed.

Lemma map_snd_rel l l' : Forall2 prel l l' -> Forall2 erel (map snd l) (map snd l').
Proof. induction 1 as [|p q l l' [_ [He _]] H IH]; simpl; constructor; auto. Qed.

(* ------------------------------------------------------------------ arguments *)
Definition fits (k : pkind) (j : jval) : Prop :=
  match k with
  | PNumber => exists z, j = JNum z
  | PString => exists s, j = JStr s
  | PObject | PIface => is_jarr j = false
  end.
Definition arg_rel (k : pkind) (g : gval) (j : jval) : Prop :=
  match k with
  | PNumber => exists z, g = Num z /\ j = JNum z
  | PString => exists s, g = GStr s /\ j = JStr s
  | PObject => erel g j
  | PIface => erel (box g) j
  end.

Lemma arg_sim me je k a j :
  env_rel me je -> jeval je a = Some j -> fits k j ->
  exists g, eval_arg me k a = MOk g /\ arg_rel k g j.
Proof.
  intros He Hj Hf. destruct a as [l|x]; simpl in *.
  - inversion Hj; subst j; clear Hj.
    destruct k; simpl in Hf.
    + destruct Hf as [z Hz]. destruct l; inversion Hz; subst. simpl. eauto.
    + destruct l; simpl; eexists; (split; [reflexivity|]); constructor.
    + destruct l as [z|s|b]; simpl.
      * exists (if Z.ltb z 0 then Num z else GInt z). split; [reflexivity|].
        destruct (Z.ltb z 0); constructor.
      * eexists; split; [reflexivity|]; constructor.
      * eexists; split; [reflexivity|]; constructor.
    + destruct Hf as [s Hs]. destruct l; inversion Hs; subst. simpl. eauto.
  - pose proof (env_get_rel me je x He) as Hg. rewrite Hj in Hg.
    destruct (env_get x me) as [g|]; [|contradiction].
    destruct k; simpl in Hf.
    + destruct Hf as [z ->]. destruct (vrel_num _ _ Hg) as [-> | ->]; simpl; eauto.
    + exists (box g). split; [destruct g; reflexivity|]. simpl. apply vrel_scalar_box; auto.
    + exists g. split; [destruct g; reflexivity|]. simpl. apply vrel_scalar_box; auto.
    + destruct Hf as [s ->]. destruct (vrel_str _ _ Hg) as [-> | ->]; simpl; eauto.
Qed.

Lemma eval_args_var me je args js :
  env_rel me je -> omap (jeval je) args = Some js -> existsb is_jarr js = false ->
  exists gs, eval_args me [] (Some PObject) args = MOk gs /\ Forall2 erel gs js.
Proof.
  intros He; revert js; induction args as [|a args IH]; simpl; intros js Hj Hn.
  - inversion Hj; subst. exists []; auto.
  - destruct (jeval je a) as [j|] eqn:Ea; [|discriminate].
    destruct (omap (jeval je) args) as [js'|] eqn:Er; [|discriminate].
    inversion Hj; subst js; clear Hj. simpl in Hn. apply orb_false_iff in Hn. destruct Hn as [Hn Hns].
    destruct (arg_sim me je PObject a j He Ea Hn) as [g [Hg Hr]].
    destruct (IH _ eq_refl Hns) as [gs [Hgs Hrs]].
    exists (g :: gs). rewrite Hg; simpl. rewrite Hgs; simpl. split; auto.
Qed.

(* ------------------------------------------------------------------ one call *)
Ltac inv H := inversion H; subst; clear H.

Lemma heap_rel_app mh jh a b : heap_rel mh jh -> Forall2 erel a b -> heap_rel (mh ++ [a]) (jh ++ [b]).
Proof. intros; apply Forall2_app; auto. Qed.

Lemma arr_sim me je mh jh l gitems jitems f args js jh' jr :
  env_rel me je -> heap_rel mh jh -> Forall2 erel gitems jitems ->
  omap (jeval je) args = Some js ->
  js_arr_method jh l jitems f js = Some (jh', jr, []) ->
  exists fixed var gs mh' gr,
    arr_sig f = Some (fixed, var) /\ arity_ok fixed var (length args) = true /\
    eval_args me fixed var args = MOk gs /\
    arr_method mh l gitems f gs = MOk (mh', gr) /\ heap_rel mh' jh' /\
    (unit_meth f = false -> vrel gr jr) /\ (unit_meth f = true -> gr = Nil).
Proof.
  intros Henv Hh Hi Hargs Hjs.
  pose proof (Forall2_len _ _ _ Hh) as Hlen.
  pose proof (Forall2_len _ _ _ Hi) as Hleni.
  destruct f; simpl in Hjs.
  - (* push *)
    destruct js as [|x [|? ?]]; try discriminate.
    destruct (is_jarr x) eqn:Ex; [discriminate|]. inv Hjs.
    destruct args as [|a [|? ?]]; simpl in Hargs; try discriminate;
      [|destruct (jeval je a); [destruct (jeval je a0); [destruct (omap (jeval je) l0)|]|]; discriminate].
    destruct (jeval je a) as [j|] eqn:Ea; [|discriminate]. inv Hargs.
    destruct (arg_sim me je PObject a x Henv Ea Ex) as [g [Hg Hr]].
    do 5 eexists. split; [reflexivity|]. split; [reflexivity|]. simpl. rewrite Hg; simpl.
    split; [reflexivity|]. split; [reflexivity|].
    split; [|split; [discriminate|reflexivity]].
    apply Forall2_upd; auto. apply Forall2_app; auto.
  - (* pop *)
    destruct js; [|discriminate]. destruct args; [|simpl in Hargs; destruct (jeval je a); [destruct (omap (jeval je) args)|]; discriminate].
    pose proof (Forall2_last_opt _ _ _ Hi) as Hl.
    exists [], None, []. simpl.
    destruct (last_opt jitems) as [y|]; destruct (last_opt gitems) as [x|]; try contradiction; inv Hjs.
    + do 2 eexists. repeat split; try reflexivity; try discriminate.
      * apply Forall2_upd; auto. apply Forall2_removelast; auto.
      * intros _. constructor; auto.
    + do 2 eexists. repeat split; try reflexivity; try discriminate; auto.
      intros _. constructor. constructor.
  - (* shift *)
    destruct js; [|discriminate]. destruct args; [|simpl in Hargs; destruct (jeval je a); [destruct (omap (jeval je) args)|]; discriminate].
    exists [], None, []. simpl.
    destruct Hi as [|x y gitems jitems Hxy Hi]; inv Hjs.
    + do 2 eexists. repeat split; try reflexivity; try discriminate; auto.
      intros _. constructor. constructor.
    + do 2 eexists. repeat split; try reflexivity; try discriminate.
      * apply Forall2_upd; auto.
      * intros _. constructor; auto.
  - (* unshift *)
    destruct (existsb is_jarr js) eqn:Ex; [discriminate|]. inv Hjs.
    destruct (eval_args_var me je args js Henv Hargs Ex) as [gs [Hgs Hrs]].
    exists [], (Some PObject), gs. do 2 eexists.
    split; [reflexivity|]. split; [reflexivity|]. split; [exact Hgs|].
    split; [reflexivity|].
    split; [|split; [|discriminate]].
    + apply Forall2_upd; auto. apply Forall2_app; auto.
    + intros _. rewrite (Forall2_len _ _ _ Hrs), Hleni. constructor. constructor.
  - (* sort *)
    destruct js; [|discriminate]. destruct args; [|simpl in Hargs; destruct (jeval je a); [destruct (omap (jeval je) args)|]; discriminate].
    destruct (js_sort jitems) as [sorted|] eqn:Es; [|discriminate].
    destruct (keyed_j jitems) as [ps|] eqn:Ek; [|discriminate].
    destruct (existsb nullish jitems) eqn:En; [discriminate|].
    destruct (tie_risk jval_eqb ps) eqn:Et; [discriminate|]. inv Hjs.
    destruct (keyed_rel _ _ _ Hi En Ek) as [gps [Hg Hr]].
    exists [], None, []. simpl. rewrite Hg.
    assert (Etg : tie_risk gval_eqb gps = false).
    { unfold tie_risk in *. rewrite (has_tie_rel _ _ Hr), (Forall2_len _ _ _ Hr). exact Et. }
    rewrite Etg. do 2 eexists. repeat split; try reflexivity; try discriminate.
    apply Forall2_upd; auto.
    unfold js_sort in Es. destruct (filter_no_undef _ En) as [E1 E2]. rewrite E1, E2 in Es.
    fold (keyed_j jitems) in Es. rewrite Ek in Es. inv Es. rewrite app_nil_r.
    apply map_snd_rel. apply ssort_rel. exact Hr.
  - (* splice *)
    destruct js as [|[n| | | | |] [|? ?]]; try discriminate.
    destruct (in_bounds n (length jitems)) eqn:Eb; [|discriminate]. inv Hjs.
    destruct args as [|a [|? ?]]; simpl in Hargs; try discriminate;
      [|destruct (jeval je a); [destruct (jeval je a0); [destruct (omap (jeval je) l0)|]|]; discriminate].
    destruct (jeval je a) as [j|] eqn:Ea; [|discriminate]. inv Hargs.
    destruct (arg_sim me je PNumber a (JNum n) Henv Ea (ex_intro _ n eq_refl)) as [g [Hg [z [-> Hz]]]]. inv Hz.
    do 5 eexists. split; [reflexivity|]. split; [reflexivity|]. simpl. rewrite Hg; simpl.
    split; [reflexivity|]. rewrite Hleni, Eb. split; [reflexivity|].
    split; [|split; [|discriminate]].
    + apply heap_rel_app.
      * apply Forall2_upd; auto. apply Forall2_firstn; auto.
      * apply Forall2_skipn; auto.
    + intros _. rewrite Hlen. apply vr_arr.
  - (* slice *)
    destruct js as [|[n| | | | |] [|? ?]]; try discriminate.
    destruct (in_bounds n (length jitems)) eqn:Eb; [|discriminate]. inv Hjs.
    destruct args as [|a [|? ?]]; simpl in Hargs; try discriminate;
      [|destruct (jeval je a); [destruct (jeval je a0); [destruct (omap (jeval je) l0)|]|]; discriminate].
    destruct (jeval je a) as [j|] eqn:Ea; [|discriminate]. inv Hargs.
    destruct (arg_sim me je PNumber a (JNum n) Henv Ea (ex_intro _ n eq_refl)) as [g [Hg [z [-> Hz]]]]. inv Hz.
    do 5 eexists. split; [reflexivity|]. split; [reflexivity|]. simpl. rewrite Hg; simpl.
    split; [reflexivity|]. rewrite Hleni, Eb. split; [reflexivity|].
    split; [|split; [|discriminate]].
    + apply heap_rel_app; auto. apply Forall2_skipn; auto.
    + intros _. rewrite Hlen. apply vr_arr.
  - (* indexOf *)
    destruct js as [|w [|? ?]]; try discriminate.
    destruct (is_jarr w) eqn:Ew; [discriminate|].
    destruct (nullish w) eqn:En; [discriminate|]. inv Hjs.
    destruct args as [|a [|? ?]]; simpl in Hargs; try discriminate;
      [|destruct (jeval je a); [destruct (jeval je a0); [destruct (omap (jeval je) l0)|]|]; discriminate].
    destruct (jeval je a) as [j|] eqn:Ea; [|discriminate]. inv Hargs.
    destruct (arg_sim me je PIface a w Henv Ea Ew) as [g [Hg Hr]]. simpl in Hr.
    do 5 eexists. split; [reflexivity|]. split; [reflexivity|]. simpl. rewrite Hg; simpl.
    split; [reflexivity|]. split; [reflexivity|].
    split; [auto|split; [|discriminate]].
    intros _. rewrite (index_of_rel _ _ _ _ 0 Hr En Hi). constructor. constructor.
  - (* join *)
    destruct js as [|[|sep| | | |] [|? ?]]; try discriminate.
    destruct (omap jshow jitems) as [ts|] eqn:Et; [|discriminate]. inv Hjs.
    destruct args as [|a [|? ?]]; simpl in Hargs; try discriminate;
      [|destruct (jeval je a); [destruct (jeval je a0); [destruct (omap (jeval je) l0)|]|]; discriminate].
    destruct (jeval je a) as [j|] eqn:Ea; [|discriminate]. inv Hargs.
    destruct (arg_sim me je PString a (JStr sep) Henv Ea (ex_intro _ sep eq_refl)) as [g [Hg [s [-> Hs]]]]. inv Hs.
    do 5 eexists. split; [reflexivity|]. split; [reflexivity|]. simpl. rewrite Hg; simpl.
    split; [reflexivity|]. rewrite (omap_text _ _ _ Hi Et). split; [reflexivity|].
    split; [auto|split; [|discriminate]].
    intros _. constructor. constructor.
  - (* length *)
    destruct js; [|discriminate]. destruct args; [|simpl in Hargs; destruct (jeval je a); [destruct (omap (jeval je) args)|]; discriminate].
    inv Hjs. exists [], None, []. simpl. do 2 eexists. repeat split; try reflexivity; try discriminate; auto.
    intros _. rewrite Hleni. constructor. constructor.
  - destruct js as [|[| | | | |] [|? ?]]; discriminate.
  - destruct js as [|[| | | | |] [|? ?]]; discriminate.
  - destruct js as [|? ?]; discriminate.
  - destruct js as [|? ?]; discriminate.
Qed.

(* ------------------------------------------------------------------ JavaScript's readings = the Go-side helpers *)
Lemma split_match_prefix r rest :
  split_match r rest = if prefixb r rest then Some (skipn (length r) rest) else None.
Proof.
  revert rest; induction r as [|a r IH]; intros rest; simpl; [reflexivity|].
  destruct rest as [|b rest]; [reflexivity|]. destruct (Ascii.eqb a b); [apply IH|reflexivity].
Qed.

Lemma js_loop_go r cur rest f1 f2 :
  r <> [] -> length rest < f1 -> length rest < f2 ->
  js_split_loop f1 r cur rest = split_go f2 r rest cur.
Proof.
  intros Hr. revert f2 cur rest. induction f1 as [|f1 IH]; intros f2 cur rest H1 H2; [lia|].
  destruct f2 as [|f2]; [lia|]. simpl. destruct rest as [|c rest']; [reflexivity|].
  rewrite split_match_prefix. simpl in H1, H2.
  destruct (prefixb r (c :: rest')) eqn:Ep.
  - destruct r as [|a r']; [congruence|]. simpl is_nil. simpl andb. cbv iota.
    f_equal. apply IH.
    + simpl. pose proof (skipn_length (length r') rest'). lia.
    + simpl. pose proof (skipn_length (length r') rest'). lia.
  - apply IH; lia.
Qed.

Lemma js_loop_explode rest : forall c f, 2 * length rest < f ->
  js_split_loop f [] [c] rest = [c] :: map (fun x => [x]) rest.
Proof.
  induction rest as [|d t IH]; intros c f Hf.
  - destruct f; [lia|]. reflexivity.
  - simpl in Hf. destruct f as [|[|f]]; try lia. simpl. f_equal. apply IH. lia.
Qed.

Lemma js_split_eq r s : js_split r s = str_split r s.
Proof.
  destruct r as [|a r].
  - destruct s as [|c t]; [reflexivity|]. unfold js_split, str_split.
    change (js_split_loop (S (2 * length (c :: t))) [] [] (c :: t)) with (js_split_loop (2 * length (c :: t)) [] [c] t).
    rewrite js_loop_explode; [reflexivity|simpl; lia].
  - destruct s as [|c t]; [reflexivity|]. unfold js_split, str_split.
    apply js_loop_go; [discriminate|lia|lia].
Qed.

Lemma prefixb_firstn r s : prefixb r s = beqb (firstn (length r) s) r.
Proof.
  destruct (prefixb r s) eqn:E.
  - apply prefixb_spec in E. destruct E as [t ->]. symmetry. apply beqb_eq.
    rewrite firstn_app, firstn_all, Nat.sub_diag. simpl. apply app_nil_r.
  - symmetry. apply beqb_neq. intros H. assert (prefixb r s = true); [|congruence].
    apply prefixb_spec. exists (skipn (length r) s). rewrite <- H at 1. symmetry. apply firstn_skipn.
Qed.

Lemma find_map {A B} (f : B -> bool) (g : A -> B) l :
  find f (map g l) = option_map g (find (fun x => f (g x)) l).
Proof. induction l as [|x l IH]; simpl; [reflexivity|]. destruct (f (g x)); [reflexivity|apply IH]. Qed.

Lemma index_from_find r s : forall k0,
  index_from r s k0 =
  option_map (fun k => k0 + k) (find (fun k => beqb (firstn (length r) (skipn k s)) r) (seq 0 (S (length s)))).
Proof.
  induction s as [|c t IH]; intros k0.
  - simpl. rewrite prefixb_firstn. simpl. destruct (beqb (firstn (length r) []) r); simpl; [f_equal; lia|reflexivity].
  - cbn [index_from]. rewrite prefixb_firstn.
    change (seq 0 (S (length (c :: t)))) with (0 :: seq 1 (S (length t))).
    cbn [find]. change (skipn 0 (c :: t)) with (c :: t).
    destruct (beqb (firstn (length r) (c :: t)) r); [simpl; f_equal; lia|].
    rewrite <- seq_shift, find_map. cbn [skipn]. rewrite IH.
    destruct (find _ _); simpl; [f_equal; lia|reflexivity].
Qed.

Lemma js_index_eq r s : js_index_of r s = str_index r s.
Proof.
  unfold js_index_of, str_index. rewrite index_from_find.
  destruct (find _ _); reflexivity.
Qed.

Lemma js_up_eq c : js_up c = up_char c.
Proof. destruct c as [[] [] [] [] [] [] [] []]; reflexivity. Qed.
Lemma js_low_eq c : js_low c = low_char c.
Proof. destruct c as [[] [] [] [] [] [] [] []]; reflexivity. Qed.

(* ------------------------------------------------------------------ String methods *)
Lemma map_str_rel l : Forall2 erel (map Str l) (map JStr l).
Proof. induction l; simpl; constructor; auto. constructor. Qed.

Lemma skipn_firstn_all {A} (s : list A) k : firstn (length s - k) (skipn k s) = skipn k s.
Proof. apply firstn_all2. rewrite skipn_length. lia. Qed.

Ltac fin Hg :=
  do 5 eexists; split; [reflexivity|]; split; [reflexivity|]; simpl; rewrite Hg; simpl;
  split; [reflexivity|]; simpl.

Lemma str_sim me je mh jh s args js f jh' jr :
  env_rel me je -> heap_rel mh jh ->
  omap (jeval je) args = Some js ->
  js_str_method jh s f js = Some (jh', jr, []) ->
  exists fixed var gs mh' gr,
    str_sig f = Some (fixed, var) /\ arity_ok fixed var (length args) = true /\
    eval_args me fixed var args = MOk gs /\
    str_method mh s f gs = MOk (mh', gr) /\ heap_rel mh' jh' /\ vrel gr jr /\ unit_meth f = false.
Proof.
  intros Henv Hh Hargs Hjs.
  pose proof (Forall2_len _ _ _ Hh) as Hlen.
  unfold js_str_method in Hjs. destruct (negb (all_ascii s)); [discriminate|].
  destruct f; try (destruct js as [|[| | | | |] [|? ?]]; discriminate);
    try (destruct js as [|? ?]; discriminate).
  - (* slice *)
    destruct js as [|[n| | | | |] [|? ?]]; try discriminate.
    destruct (Z.ltb n (- Z.of_nat (length s))) eqn:Er; [discriminate|]. inv Hjs.
    destruct args as [|a [|? ?]]; simpl in Hargs; try discriminate;
      [|destruct (jeval je a); [destruct (jeval je a0); [destruct (omap (jeval je) l)|]|]; discriminate].
    destruct (jeval je a) as [j|] eqn:Ea; [|discriminate]. inv Hargs.
    destruct (arg_sim me je PNumber a (JNum n) Henv Ea (ex_intro _ n eq_refl)) as [g [Hg [z [-> Hz]]]]. inv Hz.
    apply Z.ltb_ge in Er.
    destruct (Z.ltb (Z.of_nat (length s)) z) eqn:E1.
    + fin Hg. rewrite E1. apply Z.ltb_lt in E1. split; [reflexivity|]. repeat split; auto.
      assert (E0 : Z.ltb z 0 = false) by (apply Z.ltb_ge; lia). rewrite E0.
      replace (Nat.min (Z.to_nat z) (length s)) with (length s) by lia.
      unfold js_substring. rewrite skipn_all. rewrite firstn_nil. constructor. constructor.
    + destruct (Z.ltb z 0) eqn:E0.
      * fin Hg. rewrite E1, E0. apply Z.ltb_ge in E1. apply Z.ltb_lt in E0.
        assert (E2 : Z.ltb (Z.of_nat (length s) + z) 0 = false) by (apply Z.ltb_ge; lia). rewrite E2.
        split; [reflexivity|]. repeat split; auto.
        unfold js_substring. rewrite skipn_firstn_all. constructor. constructor.
      * fin Hg. rewrite E1, E0, E0. apply Z.ltb_ge in E1. apply Z.ltb_ge in E0.
        split; [reflexivity|]. repeat split; auto.
        replace (Nat.min (Z.to_nat z) (length s)) with (Z.to_nat z) by lia.
        unfold js_substring. rewrite skipn_firstn_all. constructor. constructor.
  - (* indexOf *)
    destruct js as [|[|d| | | |] [|? ?]]; try discriminate. rewrite js_index_eq in Hjs. inv Hjs.
    destruct args as [|a [|? ?]]; simpl in Hargs; try discriminate;
      [|destruct (jeval je a); [destruct (jeval je a0); [destruct (omap (jeval je) l)|]|]; discriminate].
    destruct (jeval je a) as [j|] eqn:Ea; [|discriminate]. inv Hargs.
    destruct (arg_sim me je PString a (JStr d) Henv Ea (ex_intro _ d eq_refl)) as [g [Hg [s' [-> Hs]]]]. inv Hs.
    do 5 eexists. split; [reflexivity|]. split; [reflexivity|]. simpl. rewrite Hg; simpl.
    split; [reflexivity|]. split; [reflexivity|]. repeat split; auto. constructor. constructor.
  - (* length *)
    destruct js; [|discriminate]. destruct args; [|simpl in Hargs; destruct (jeval je a); [destruct (omap (jeval je) args)|]; discriminate].
    inv Hjs. exists [], None, []. simpl. do 2 eexists. repeat split; auto. constructor. constructor.
  - (* charAt *)
    destruct js as [|[n| | | | |] [|? ?]]; try discriminate.
    destruct (Z.ltb n 0) eqn:E0; [discriminate|]. inv Hjs.
    destruct args as [|a [|? ?]]; simpl in Hargs; try discriminate;
      [|destruct (jeval je a); [destruct (jeval je a0); [destruct (omap (jeval je) l)|]|]; discriminate].
    destruct (jeval je a) as [j|] eqn:Ea; [|discriminate]. inv Hargs.
    destruct (arg_sim me je PNumber a (JNum n) Henv Ea (ex_intro _ n eq_refl)) as [g [Hg [z [-> Hz]]]]. inv Hz.
    destruct (Z.leb (Z.of_nat (length s)) z) eqn:E1.
    + fin Hg. rewrite E1. apply Z.leb_le in E1. split; [reflexivity|]. repeat split; auto.
      assert (En : nth_error s (Z.to_nat z) = None) by (apply nth_error_None; lia).
      rewrite En. constructor. constructor.
    + fin Hg. rewrite E1, E0. split; [reflexivity|]. repeat split; auto.
      change (match skipn (Z.to_nat z) s with [] => [] | a0 :: _ => [a0] end) with (firstn 1 (skipn (Z.to_nat z) s)).
      rewrite firstn1_skipn. constructor. constructor.
  - (* split *)
    destruct js as [|[|d| | | |] [|? ?]]; try discriminate. rewrite js_split_eq in Hjs. inv Hjs.
    destruct args as [|a [|? ?]]; simpl in Hargs; try discriminate;
      [|destruct (jeval je a); [destruct (jeval je a0); [destruct (omap (jeval je) l)|]|]; discriminate].
    destruct (jeval je a) as [j|] eqn:Ea; [|discriminate]. inv Hargs.
    destruct (arg_sim me je PString a (JStr d) Henv Ea (ex_intro _ d eq_refl)) as [g [Hg [s' [-> Hs]]]]. inv Hs.
    do 5 eexists. split; [reflexivity|]. split; [reflexivity|]. simpl. rewrite Hg; simpl.
    split; [reflexivity|]. split; [reflexivity|]. repeat split; auto.
    + apply heap_rel_app; auto. apply map_str_rel.
    + rewrite Hlen. apply vr_arr.
  - (* toUpperCase *)
    destruct js; [|discriminate]. destruct args; [|simpl in Hargs; destruct (jeval je a); [destruct (omap (jeval je) args)|]; discriminate].
    rewrite (map_ext _ _ js_up_eq) in Hjs. inv Hjs. exists [], None, []. simpl. do 2 eexists. repeat split; auto. constructor. constructor.
  - (* toLowerCase *)
    destruct js; [|discriminate]. destruct args; [|simpl in Hargs; destruct (jeval je a); [destruct (omap (jeval je) args)|]; discriminate].
    rewrite (map_ext _ _ js_low_eq) in Hjs. inv Hjs. exists [], None, []. simpl. do 2 eexists. repeat split; auto. constructor. constructor.
Qed.

(* split then join with the same separator gives the string back: nothing is trimmed or dropped *)
Lemma split_go_nonempty f sep s cur : split_go f sep s cur <> [].
Proof. destruct f; simpl; [discriminate|]. destruct s; [discriminate|]. destruct (prefixb sep (a :: s)); [discriminate|].
  revert a s cur. induction f; intros; simpl; [discriminate|]. destruct s; [discriminate|]. destruct (prefixb sep (a0 :: s)); [discriminate|apply IHf].
Qed.

Lemma join_cons sep x l : l <> [] -> join sep (x :: l) = x ++ sep ++ join sep l.
Proof. destruct l; [congruence|reflexivity]. Qed.

Lemma join_split_go sep : sep <> [] -> forall f s cur, length s < f -> join sep (split_go f sep s cur) = rev cur ++ s.
Proof.
  intros Hsep. induction f as [|f IH]; intros s cur Hf; [lia|]. simpl.
  destruct s as [|c t]; [simpl; rewrite app_nil_r; reflexivity|].
  destruct (prefixb sep (c :: t)) eqn:Ep.
  - rewrite join_cons by apply split_go_nonempty.
    apply prefixb_spec in Ep. destruct Ep as [r Er]. rewrite Er.
    rewrite skipn_app, skipn_all, Nat.sub_diag. simpl skipn at 1. simpl app at 2.
    rewrite IH; [reflexivity|]. simpl in Hf. assert (length (c :: t) = length (sep ++ r)) by congruence.
    rewrite app_length in H. simpl in H. destruct sep; [congruence|]. simpl in H. lia.
  - rewrite IH by (simpl in Hf; lia). simpl. rewrite <- app_assoc. reflexivity.
Qed.

Lemma join_explode (s : bytes) : join [] (map (fun c => [c]) s) = s.
Proof. induction s as [|c [|d t] IH]; [reflexivity|reflexivity|]. 
  change (join [] (map (fun c => [c]) (c :: d :: t))) with ([c] ++ [] ++ join [] (map (fun c => [c]) (d :: t))).
  rewrite IH. reflexivity. Qed.

Lemma split_join sep s : join sep (js_split sep s) = s.
Proof.
  rewrite js_split_eq. unfold str_split. destruct sep as [|a sep]; [apply join_explode|].
  rewrite join_split_go; [reflexivity|discriminate|lia].
Qed.

(* the pieces: as many as there are matches found left to right without overlap, plus one; in
   particular blanks at the ends and adjacent blanks give empty pieces *)
Example split_blank_keeps_empty_pieces :
  js_split (B " ") (B " a  b ") = [B ""; B "a"; B ""; B "b"; B ""] /\
  js_split (B " ") (B "a" ++ ["009"%char] ++ B "b") = [B "a" ++ ["009"%char] ++ B "b"] /\
  js_split (B "aa") (B "aaa") = [B ""; B "a"] /\
  js_split (B "abc") (B "ab") = [B "ab"] /\
  js_split (B ",") (B "") = [B ""] /\ js_split (B "") (B "") = [] /\
  js_index_of (B "") (B "ab") = 0%Z /\ js_index_of (B "") (B "") = 0%Z /\ js_index_of (B "abc") (B "ab") = (-1)%Z /\
  map js_up (B "az@[`{19 ") = B "AZ@[`{19 " /\ map js_low (B "AZ@[`{19 ") = B "az@[`{19 ".
Proof. vm_compute. repeat split. Qed.

Lemma js_string_readings r s :
  js_split r s = str_split r s /\ js_index_of r s = str_index r s /\
  map js_up s = map up_char s /\ map js_low s = map low_char s.
Proof.
  split; [apply js_split_eq|]. split; [apply js_index_eq|].
  split; apply map_ext; [apply js_up_eq|apply js_low_eq].
Qed.

(* ------------------------------------------------------------------ call, statement, program *)
Lemma call_sim m j recv f args jh' jr :
  st_rel m j -> js_call j recv f args = Some (jh', jr, []) ->
  exists mh' gr, m_call m recv f args = MOk (mh', gr) /\ heap_rel mh' jh' /\
    (unit_meth f = false -> vrel gr jr) /\ (unit_meth f = true -> gr = Nil).
Proof.
  intros [Henv Hh] Hc. unfold js_call in Hc. unfold m_call.
  pose proof (env_get_rel _ _ recv Henv) as Hr.
  destruct (env_get recv (j_env j)) as [jv|]; [|discriminate].
  destruct (env_get recv (m_env m)) as [gv|]; [|contradiction].
  destruct (omap (jeval (j_env j)) args) as [js|] eqn:Ea; [|destruct jv; discriminate].
  destruct jv; try discriminate.
  - destruct (str_sim _ _ _ _ _ _ _ _ _ _ Henv Hh Ea Hc)
      as [fixed [var [gs [mh' [gr [Hs [Ha [He [Hm [Hh' [Hv Hu]]]]]]]]]]].
    destruct (vrel_str _ _ Hr) as [-> | ->]; rewrite Hs, Ha, He; simpl;
      exists mh', gr; repeat split; auto; rewrite Hu; discriminate.
  - apply vrel_arr in Hr; subst gv.
    pose proof (Forall2_nth_error _ _ _ l Hh) as Hn.
    destruct (nth_error (j_heap j) l) as [jitems|]; [|discriminate].
    destruct (nth_error (m_heap m) l) as [gitems|]; [|contradiction].
    destruct (arr_sim _ _ _ _ l _ _ _ _ _ _ _ Henv Hh Hn Ea Hc)
      as [fixed [var [gs [mh' [gr [Hs [Ha [He [Hm [Hh' [Hv Hu]]]]]]]]]]].
    rewrite Hs, Ha, He; simpl. exists mh', gr. auto.
Qed.

Lemma vrel_box g j : vrel g j -> vrel (box g) j.
Proof.
  destruct 1 as [g j He| | | |]; simpl; try (constructor; constructor).
  rewrite (erel_box _ _ He). constructor; exact He.
Qed.

(* a value handed over (argument list, literal, element, member, method result) is the same value *)
Lemma pass_sim me je a jv :
  env_rel me je -> jeval je a = Some jv -> exists g, pass_val me a = MOk g /\ vrel g jv.
Proof.
  intros Henv Ej. destruct a as [l|y]; simpl in *.
  - inv Ej. exists (box_lit l). split; [reflexivity|]. destruct l; simpl; constructor; constructor.
  - pose proof (env_get_rel _ _ y Henv) as Hr. rewrite Ej in Hr.
    destruct (env_get y me) as [g|]; [|contradiction]. simpl.
    exists (box g). split; [reflexivity|]. apply vrel_box; exact Hr.
Qed.

Lemma step_sim m j s j' outs :
  st_rel m j -> js_step j s = Some (j', outs, []) ->
  exists m', m_step m s = MOk (m', outs) /\ st_rel m' j'.
Proof.
  intros Hst Hs. pose proof Hst as [Henv Hh]. destruct s as [md recv f args|x y|x|x a]; simpl in Hs.
  - destruct (js_call j recv f args) as [[[h r] fl]|] eqn:Ec; [|discriminate].
    destruct md as [x| |].
    + inv Hs. match goal with H : _ ++ _ = [] |- _ => apply app_eq_nil in H; destruct H as [-> Hu] end.
      destruct (unit_meth f) eqn:Eu; [discriminate|].
      destruct (call_sim _ _ _ _ _ _ _ Hst Ec) as [mh' [gr [Hc [Hh' [Hv _]]]]].
      simpl. rewrite Hc; simpl. eexists; split; [reflexivity|]. split; simpl; auto.
      apply env_set_rel; auto.
    + destruct (jshow r) as [t|] eqn:Et; [|discriminate]. inv Hs.
      match goal with H : _ ++ _ = [] |- _ => apply app_eq_nil in H; destruct H as [-> Hu] end.
      destruct (unit_meth f) eqn:Eu; [discriminate|].
      destruct (call_sim _ _ _ _ _ _ _ Hst Ec) as [mh' [gr [Hc [Hh' [Hv _]]]]].
      simpl. rewrite Hc; simpl. rewrite (vrel_text _ _ _ (Hv Eu) Et); simpl.
      eexists; split; [reflexivity|]. split; simpl; auto.
    + destruct (unit_meth f) eqn:Eu; [|discriminate]. inv Hs.
      destruct (call_sim _ _ _ _ _ _ _ Hst Ec) as [mh' [gr [Hc [Hh' [_ Hn]]]]].
      simpl. rewrite Hc; simpl. rewrite (Hn Eu); simpl.
      eexists; split; [reflexivity|]. split; simpl; auto.
  - pose proof (env_get_rel _ _ y Henv) as Hr.
    destruct (env_get y (j_env j)) as [jv|]; [|discriminate]. inv Hs.
    destruct (env_get y (m_env m)) as [gv|] eqn:Eg; [|contradiction].
    simpl. rewrite Eg; simpl. eexists; split; [reflexivity|]. split; simpl; auto.
    apply env_set_rel; auto.
  - pose proof (env_get_rel _ _ x Henv) as Hr.
    destruct (env_get x (j_env j)) as [jv|]; [|discriminate].
    destruct (jshow jv) as [t|] eqn:Et; [|discriminate]. inv Hs.
    destruct (env_get x (m_env m)) as [gv|] eqn:Eg; [|contradiction].
    simpl. rewrite Eg; simpl. rewrite (vrel_text _ _ _ Hr Et); simpl.
    eexists; split; [reflexivity|]. exact Hst.
  - destruct (jeval (j_env j) a) as [jv|] eqn:Ej; [|discriminate]. inv Hs.
    destruct (pass_sim _ _ _ _ Henv Ej) as [g [Hp Hv]].
    simpl. rewrite Hp; simpl. eexists; split; [reflexivity|]. split; simpl; auto.
    apply env_set_rel; auto.
Qed.

(* C20_refine (partial: the listed deviations do not occur in the history) *)
Theorem run_sim : forall p m j j' outs,
  st_rel m j -> js_run p j = Some (j', outs, []) ->
  exists m', m_run p m = MOk (m', outs) /\ st_rel m' j'.
Proof.
  induction p as [|s p IH]; intros m j j' outs Hst Hr; simpl in Hr.
  - inv Hr. exists m. split; auto.
  - destruct (js_step j s) as [[[j1 o1] f1]|] eqn:Es; [|discriminate].
    destruct (js_run p j1) as [[[j2 o2] f2]|] eqn:Er; [|discriminate]. inv Hr.
    match goal with H : _ ++ _ = [] |- _ => apply app_eq_nil in H; destruct H as [-> ->] end.
    destruct (step_sim _ _ _ _ _ Hst Es) as [m1 [Hm1 Hst1]].
    destruct (IH _ _ _ _ Hst1 Er) as [m2 [Hm2 Hst2]].
    simpl. rewrite Hm1; simpl. rewrite Hm2; simpl. exists m2. split; auto.
Qed.

(* ------------------------------------------------------------------ aliasing and freshness *)
(* calling through either of two variables bound to the same value is the same step *)
Lemma alias_same st x y md f args :
  env_get x (m_env st) = env_get y (m_env st) ->
  m_step st (SCall md x f args) = m_step st (SCall md y f args).
Proof. intros H. simpl. unfold m_call. rewrite H. reflexivity. Qed.

Lemma env_get_set_same {V} x (v : V) e : env_get x (env_set x v e) = Some v.
Proof.
  induction e as [|[y w] e IH]; simpl.
  - rewrite Nat.eqb_refl. reflexivity.
  - destruct (Nat.eqb x y) eqn:E; simpl; rewrite E; auto.
Qed.

Lemma env_get_set_other {V} x z (v : V) e : z <> x -> env_get z (env_set x v e) = env_get z e.
Proof.
  intros Hz. induction e as [|[y w] e IH]; simpl.
  - destruct (Nat.eqb z x) eqn:E; [apply Nat.eqb_eq in E; contradiction|reflexivity].
  - destruct (Nat.eqb x y) eqn:E; simpl.
    + apply Nat.eqb_eq in E; subst y.
      destruct (Nat.eqb z x) eqn:E2; [apply Nat.eqb_eq in E2; contradiction|reflexivity].
    + rewrite IH. reflexivity.
Qed.

(* handing an array over (mixin argument, element of an array of arrays, object member, result of a
   method) binds the new name to the SAME location; no array is created or changed on the way, and
   the old name keeps its binding *)
Lemma pass_shares st x y l :
  env_get y (m_env st) = Some (Arr l) ->
  exists st', m_step st (SPass x (AVar y)) = MOk (st', []) /\
    env_get x (m_env st') = Some (Arr l) /\ env_get y (m_env st') = Some (Arr l) /\
    m_heap st' = m_heap st.
Proof.
  intros Hy. simpl. rewrite Hy; simpl. eexists; split; [reflexivity|]. simpl.
  split; [apply env_get_set_same|]. split; [|reflexivity].
  destruct (Nat.eq_dec y x) as [->|Hn]; [apply env_get_set_same|].
  rewrite env_get_set_other; auto.
Qed.

(* the same on JavaScript's side *)
Lemma pass_shares_js st x y l :
  env_get y (j_env st) = Some (JArr l) ->
  exists st', js_step st (SPass x (AVar y)) = Some (st', [], []) /\
    env_get x (j_env st') = Some (JArr l) /\ env_get y (j_env st') = Some (JArr l) /\
    j_heap st' = j_heap st.
Proof.
  intros Hy. simpl. rewrite Hy; simpl. eexists; split; [reflexivity|]. simpl.
  split; [apply env_get_set_same|]. split; [|reflexivity].
  destruct (Nat.eq_dec y x) as [->|Hn]; [apply env_get_set_same|].
  rewrite env_get_set_other; auto.
Qed.

(* ---- two names bound to one value are interchangeable in every program that re-binds neither *)
Lemma veq_get {V} x y u v (e : list (nat * V)) :
  env_get x e = env_get y e -> veq x y u v -> env_get u e = env_get v e.
Proof. intros H [->|[[-> ->]|[-> ->]]]; auto. Qed.

Lemma arg_swap_eval env x y k a b :
  env_get x env = env_get y env -> arg_swap x y a b -> eval_arg env k a = eval_arg env k b.
Proof.
  intros H Hs. destruct a as [l|u], b as [l'|v]; simpl in Hs; try contradiction.
  - subst; reflexivity.
  - simpl. rewrite (veq_get _ _ _ _ _ H Hs). reflexivity.
Qed.

Lemma args_swap_eval env x y var args args' :
  env_get x env = env_get y env -> Forall2 (arg_swap x y) args args' ->
  forall fixed, eval_args env fixed var args = eval_args env fixed var args'.
Proof.
  intros H Hf. induction Hf as [|a b args args' Hab Hf IH]; intros fixed.
  - reflexivity.
  - destruct fixed as [|k ks]; simpl.
    + destruct var as [k|]; [|reflexivity].
      rewrite (arg_swap_eval _ _ _ k _ _ H Hab), (IH []). reflexivity.
    + rewrite (arg_swap_eval _ _ _ k _ _ H Hab), (IH ks). reflexivity.
Qed.

Lemma swapped_step st x y s s' :
  env_get x (m_env st) = env_get y (m_env st) -> reads_swapped x y s s' -> m_step st s = m_step st s'.
Proof.
  intros H Hs. destruct Hs as [md u v f args args' Huv Ha|r u v Huv|u v Huv|r a b Hab]; simpl.
  - unfold m_call. rewrite (veq_get _ _ _ _ _ H Huv). rewrite (Forall2_len _ _ _ Ha).
    destruct (env_get v (m_env st)) as [[]|]; try reflexivity;
      repeat match goal with |- context [match ?o with _ => _ end] => destruct o; try reflexivity end;
      rewrite (args_swap_eval _ _ _ _ _ _ H Ha); reflexivity.
  - rewrite (veq_get _ _ _ _ _ H Huv). reflexivity.
  - rewrite (veq_get _ _ _ _ _ H Huv). reflexivity.
  - destruct a as [l|u], b as [l'|v]; simpl in Hab; try contradiction.
    + subst; reflexivity.
    + simpl. rewrite (veq_get _ _ _ _ _ H Hab). reflexivity.
Qed.

(* a statement changes the binding of its binder only *)
Lemma step_env_other st s st' o z :
  m_step st s = MOk (st', o) -> binder s <> Some z -> env_get z (m_env st') = env_get z (m_env st).
Proof.
  intros Hs Hb. destruct s as [md recv f args|r u|u|r a]; simpl in Hs, Hb.
  - destruct (m_call st recv f args) as [[h g]| |]; try discriminate. simpl in Hs.
    destruct md as [r| |].
    + inv Hs. simpl. apply env_get_set_other. congruence.
    + destruct (gtext g); inv Hs. reflexivity.
    + destruct (gtext g); inv Hs. reflexivity.
  - destruct (env_get u (m_env st)); inv Hs. simpl. apply env_get_set_other. congruence.
  - destruct (env_get u (m_env st)) as [g|]; try discriminate. simpl in Hs.
    destruct (gtext g); inv Hs. reflexivity.
  - destruct (pass_val (m_env st) a); inv Hs. simpl. apply env_get_set_other. congruence.
Qed.

Theorem names_interchangeable : forall x y p p' st,
  env_get x (m_env st) = env_get y (m_env st) ->
  Forall2 (swapped x y) p p' -> m_run p st = m_run p' st.
Proof.
  intros x y p p' st H Hf. revert st H.
  induction Hf as [|s s' p p' [Hs [Hbx Hby]] Hf IH]; intros st H; [reflexivity|].
  simpl. rewrite <- (swapped_step _ _ _ _ _ H Hs).
  destruct (m_step st s) as [[st1 o1]| |] eqn:Es; try reflexivity. simpl.
  rewrite (IH st1); [reflexivity|].
  rewrite (step_env_other _ _ _ _ x Es Hbx), (step_env_other _ _ _ _ y Es Hby). exact H.
Qed.

(* the same statement about JavaScript: the spec demands what the code does *)
Lemma swapped_step_js st x y s s' :
  env_get x (j_env st) = env_get y (j_env st) -> reads_swapped x y s s' -> js_step st s = js_step st s'.
Proof.
  intros H Hs.
  assert (Hargs : forall args args', Forall2 (arg_swap x y) args args' ->
            omap (jeval (j_env st)) args = omap (jeval (j_env st)) args').
  { induction 1 as [|a b args args' Hab Hf IH]; [reflexivity|]. simpl. rewrite IH.
    destruct a as [l|u], b as [l'|v]; simpl in Hab; try contradiction.
    - subst; reflexivity.
    - simpl. rewrite (veq_get _ _ _ _ _ H Hab). reflexivity. }
  destruct Hs as [md u v f args args' Huv Ha|r u v Huv|u v Huv|r a b Hab]; simpl.
  - unfold js_call. rewrite (veq_get _ _ _ _ _ H Huv), (Hargs _ _ Ha). reflexivity.
  - rewrite (veq_get _ _ _ _ _ H Huv). reflexivity.
  - rewrite (veq_get _ _ _ _ _ H Huv). reflexivity.
  - destruct a as [l|u], b as [l'|v]; simpl in Hab; try contradiction.
    + subst; reflexivity.
    + simpl. rewrite (veq_get _ _ _ _ _ H Hab). reflexivity.
Qed.

Lemma step_env_other_js st s st' o fl z :
  js_step st s = Some (st', o, fl) -> binder s <> Some z -> env_get z (j_env st') = env_get z (j_env st).
Proof.
  intros Hs Hb. destruct s as [md recv f args|r u|u|r a]; simpl in Hs, Hb.
  - destruct (js_call st recv f args) as [[[h g] fl0]|]; try discriminate.
    destruct md as [r| |].
    + inv Hs. simpl. apply env_get_set_other. congruence.
    + destruct (jshow g); inv Hs. reflexivity.
    + destruct (unit_meth f); inv Hs. reflexivity.
  - destruct (env_get u (j_env st)); inv Hs. simpl. apply env_get_set_other. congruence.
  - destruct (env_get u (j_env st)) as [g|]; try discriminate.
    destruct (jshow g); inv Hs. reflexivity.
  - destruct (jeval (j_env st) a); inv Hs. simpl. apply env_get_set_other. congruence.
Qed.

Theorem names_interchangeable_js : forall x y p p' st,
  env_get x (j_env st) = env_get y (j_env st) ->
  Forall2 (swapped x y) p p' -> js_run p st = js_run p' st.
Proof.
  intros x y p p' st H Hf. revert st H.
  induction Hf as [|s s' p p' [Hs [Hbx Hby]] Hf IH]; intros st H; [reflexivity|].
  simpl. rewrite <- (swapped_step_js _ _ _ _ _ H Hs).
  destruct (js_step st s) as [[[st1 o1] f1]|] eqn:Es; try reflexivity.
  rewrite (IH st1); [reflexivity|].
  rewrite (step_env_other_js _ _ _ _ _ x Es Hbx), (step_env_other_js _ _ _ _ _ y Es Hby). exact H.
Qed.

Lemma upd_length {A} (l : list A) n x : length (upd l n x) = length l.
Proof. revert n; induction l; intros [|n]; simpl; auto. Qed.

Lemma upd_nth_other {A} (l : list A) n k x : k <> n -> nth_error (upd l n x) k = nth_error l k.
Proof.
  revert n k; induction l as [|a l IH]; intros [|n] [|k] H; simpl; auto; try congruence.
Qed.

Lemma upd_nth_same {A} (l : list A) n x : n < length l -> nth_error (upd l n x) n = Some x.
Proof.
  revert n; induction l as [|a l IH]; intros [|n] H; simpl in *; try lia; auto. apply IH; lia.
Qed.

(* a method call on location l leaves every other existing location as it was *)
Lemma arr_frame h l items f gs h' r :
  arr_method h l items f gs = MOk (h', r) ->
  forall k, k <> l -> k < length h -> nth_error h' k = nth_error h k.
Proof.
  intros H k Hk Hlt. unfold arr_method in H.
  repeat match type of H with
         | context [match ?x with _ => _ end] => destruct x eqn:?; try discriminate
         end;
    inversion H; subst; auto;
    rewrite ?nth_error_app1 by (rewrite ?upd_length; auto);
    rewrite ?upd_nth_other by auto; auto.
Qed.

(* the result of splice / slice is a location that did not exist, holding the tail *)
Lemma splice_slice_fresh h l items f n h' r :
  (f = MSplice \/ f = MSlice) ->
  arr_method h l items f [Num n] = MOk (h', r) ->
  r = Arr (length h) /\ length h' = S (length h) /\
  nth_error h' (length h) = Some (skipn (Z.to_nat n) items).
Proof.
  intros [-> | ->] H; simpl in H; destruct (in_bounds n (length items)); try discriminate;
    inversion H; subst; clear H; rewrite app_length; simpl.
  - repeat split; [rewrite upd_length; lia|].
    rewrite nth_error_app2; rewrite upd_length; auto. rewrite Nat.sub_diag. reflexivity.
  - repeat split; [lia|]. rewrite nth_error_app2; auto. rewrite Nat.sub_diag. reflexivity.
Qed.

(* string methods never touch an existing array *)
Lemma str_frame h s f gs h' r :
  str_method h s f gs = MOk (h', r) -> forall k, k < length h -> nth_error h' k = nth_error h k.
Proof.
  intros H k Hlt. unfold str_method in H.
  repeat match type of H with
         | context [match ?x with _ => _ end] => destruct x eqn:?; try discriminate
         end;
    inversion H; subst; auto; rewrite ?nth_error_app1 by auto; auto.
Qed.

(* before the repair: the storage discipline of the old Splice followed by Push *)
Lemma old_splice_shares :
  exists mem s n x,
    let '(a, r) := old_splice s n in
    let '(mem', _) := old_push mem a x in
    sl_items mem r = [3; 4]%Z /\ sl_items mem' r = [9; 4]%Z.
Proof.
  exists [[1; 2; 3; 4]%Z], {| sl_arr := 0; sl_off := 0; sl_len := 4 |}, 2, 9%Z.
  vm_compute. split; reflexivity.
Qed.

(* ------------------------------------------------------------------ the listed deviations are real *)
Definition st_push : mstate := {| m_env := [(0, Arr 0)]; m_heap := [[Num 1]] |}.
Definition sj_push : jstate := {| j_env := [(0, JArr 0)]; j_heap := [[JNum 1]] |}.
Ltac rel_tac :=
  repeat first [apply vr_arr | apply vr_int | apply vr_gstr | apply vr_gbool | split | constructor].
Lemma st_push_rel : st_rel st_push sj_push.
Proof. split; simpl; rel_tac. Qed.

(* F-C20-c: the value of push *)
Lemma refine_refuted_unit :
  exists p m j j' m' o o' fl,
    st_rel m j /\ js_run p j = Some (j', o, fl) /\ m_run p m = MOk (m', o') /\ o <> o'.
Proof.
  exists [SCall Print 0 MPush [ALit (LNum 2)]], st_push, sj_push.
  do 5 eexists. split; [exact st_push_rel|]. split; [vm_compute; reflexivity|].
  split; [vm_compute; reflexivity|]. discriminate.
Qed.

(* F-C20-g: null sorts as "null" in JavaScript and as "" in the code *)
Definition st_null : mstate := {| m_env := [(0, Arr 0)]; m_heap := [[Str (B "b"); Nil]] |}.
Definition sj_null : jstate := {| j_env := [(0, JArr 0)]; j_heap := [[JStr (B "b"); JNull]] |}.
Lemma refine_refuted_null_sort :
  exists p m j j' m' o o' fl,
    st_rel m j /\ js_run p j = Some (j', o, fl) /\ m_run p m = MOk (m', o') /\ o <> o'.
Proof.
  exists [SCall Discard 0 MSort []; SCall Print 0 MJoin [ALit (LStr (B ","))]], st_null, sj_null.
  do 5 eexists. split; [split; simpl; rel_tac|]. split; [vm_compute; reflexivity|].
  split; [vm_compute; reflexivity|]. discriminate.
Qed.

(* ------------------------------------------------------------------ non-vacuity *)
(* a = [3,1,2]; i = 1 (native); b = a; r = a.splice(i); a.push("x"); b.sort(); = r.join(",");
   = a.join(","); q = r.pop(); = q; = b.indexOf(3); s = "a,b".split(","); = s.length *)
Definition ex_prog : prog :=
  [ SAlias 2 0;
    SCall (Bind 3) 0 MSplice [AVar 1];
    SCall Discard 0 MPush [ALit (LStr (B "x"))];
    SCall Discard 2 MSort [];
    SCall Print 3 MJoin [ALit (LStr (B ","))];
    SCall Print 0 MJoin [ALit (LStr (B ","))];
    SCall (Bind 4) 3 MPop [];
    SPrintVar 4;
    SCall Print 2 MIndexOf [ALit (LNum 3)];
    SCall (Bind 6) 5 MSplit [ALit (LStr (B ","))];
    SCall Print 6 MLength [] ].
Definition ex_m : mstate :=
  {| m_env := [(0, Arr 0); (1, GInt 1); (5, GStr (B "a,b"))]; m_heap := [[Num 3; Num 1; Num 2]] |}.
Definition ex_j : jstate :=
  {| j_env := [(0, JArr 0); (1, JNum 1); (5, JStr (B "a,b"))]; j_heap := [[JNum 3; JNum 1; JNum 2]] |}.

Example ex_rel : st_rel ex_m ex_j.
Proof.
  split; simpl.
  - constructor; [split; [reflexivity|apply vr_arr]|].
    constructor; [split; [reflexivity|apply vr_int]|].
    constructor; [split; [reflexivity|apply vr_gstr]|]. constructor.
  - repeat constructor.
Qed.

Example ex_in_range_clean :
  exists j', js_run ex_prog ex_j =
             Some (j', [[]; []; B "1,2"; B "3,x"; B "2"; B "0"; B "2"], []).
Proof. eexists. vm_compute. reflexivity. Qed.

Example ex_model_runs :
  exists m', m_run ex_prog ex_m = MOk (m', [[]; []; B "1,2"; B "3,x"; B "2"; B "0"; B "2"]).
Proof. eexists. vm_compute. reflexivity. Qed.

(* mixin add(list, item): - list.push(item)  - list.sort()
   a = ['d','b']; same = a; +add(a, 'c'); = a.join(','); = same.indexOf('c'); = a.length
   (parameters of the call are the variables 10, 11) *)
Definition ex_pass_prog : prog :=
  [ SAlias 1 0;
    SPass 10 (AVar 0); SPass 11 (ALit (LStr (B "c")));
    SCall Discard 10 MPush [AVar 11];
    SCall Discard 10 MSort [];
    SCall Print 0 MJoin [ALit (LStr (B ","))];
    SCall Print 1 MIndexOf [ALit (LStr (B "c"))];
    SCall Print 0 MLength [] ].
Definition ex_pass_m : mstate := {| m_env := [(0, Arr 0)]; m_heap := [[Str (B "d"); Str (B "b")]] |}.
Definition ex_pass_j : jstate := {| j_env := [(0, JArr 0)]; j_heap := [[JStr (B "d"); JStr (B "b")]] |}.
Example ex_pass_runs :
  (exists j', js_run ex_pass_prog ex_pass_j = Some (j', [[]; []; B "b,c,d"; B "1"; B "3"], [])) /\
  (exists m', m_run ex_pass_prog ex_pass_m = MOk (m', [[]; []; B "b,c,d"; B "1"; B "3"])).
Proof. split; eexists; vm_compute; reflexivity. Qed.

(* the hypothesis of names_interchangeable is satisfiable: the calls made through the parameter
   (variable 10) written with the caller's variable 0 instead *)
Example ex_swapped :
  Forall2 (swapped 0 10)
    [SCall Discard 10 MPush [ALit (LNum 1)]; SCall (Bind 3) 0 MSlice [ALit (LNum 0)]; SPrintVar 3]
    [SCall Discard 0 MPush [ALit (LNum 1)]; SCall (Bind 3) 10 MSlice [ALit (LNum 0)]; SPrintVar 3].
Proof.
  assert (V1 : veq 0 10 10 0) by (right; right; auto).
  assert (V2 : veq 0 10 0 10) by (right; left; auto).
  assert (V3 : veq 0 10 3 3) by (left; auto).
  constructor; [split; [constructor; [exact V1|repeat constructor]|simpl; split; discriminate]|].
  constructor; [split; [constructor; [exact V2|repeat constructor]|simpl; split; congruence]|].
  constructor; [split; [constructor; exact V3|simpl; split; discriminate]|]. constructor.
Qed.

(* ------------------------------------------------------------------ the sort used by S and M is a sort *)
From Coq Require Import Permutation Sorted.

Lemma bytes_ltb_asym a b : bytes_ltb a b = true -> bytes_ltb b a = false.
Proof.
  revert b; induction a as [|x a IH]; intros [|y b]; simpl; try discriminate; auto.
  destruct (N.ltb (N_of_ascii x) (N_of_ascii y)) eqn:E1;
    destruct (N.ltb (N_of_ascii y) (N_of_ascii x)) eqn:E2; auto; try discriminate.
  apply N.ltb_lt in E1. apply N.ltb_lt in E2. lia.
Qed.

Definition key_le {A} (p q : bytes * A) : Prop := bytes_ltb (fst q) (fst p) = false.

Lemma ins_perm {A} (p : bytes * A) l : Permutation (p :: l) (ins p l).
Proof.
  induction l as [|q r IH]; simpl; auto.
  destruct (bytes_ltb (fst q) (fst p)); auto.
  eapply perm_trans; [apply perm_swap|]. constructor. exact IH.
Qed.

Lemma ssort_perm {A} (l : list (bytes * A)) : Permutation l (ssort l).
Proof.
  induction l as [|p l IH]; simpl; auto.
  eapply perm_trans; [|apply ins_perm]. constructor. exact IH.
Qed.

Lemma ins_sorted {A} (p : bytes * A) l : Sorted key_le l -> Sorted key_le (ins p l).
Proof.
  induction 1 as [|q r Hs IH Hd]; simpl.
  - repeat constructor.
  - destruct (bytes_ltb (fst q) (fst p)) eqn:E.
    + constructor; auto.
      destruct r as [|q' r']; simpl.
      * constructor. unfold key_le. apply bytes_ltb_asym. exact E.
      * destruct (bytes_ltb (fst q') (fst p)); constructor.
        -- inversion Hd; auto.
        -- unfold key_le. apply bytes_ltb_asym. exact E.
    + constructor; [constructor; auto|]. constructor. exact E.
Qed.

Lemma ssort_sorted {A} (l : list (bytes * A)) : Sorted key_le (ssort l).
Proof. induction l; simpl; [constructor|apply ins_sorted; auto]. Qed.

Lemma ssort_spec {A} (l : list (bytes * A)) : Permutation l (ssort l) /\ Sorted key_le (ssort l).
Proof. split; [apply ssort_perm|apply ssort_sorted]. Qed.
