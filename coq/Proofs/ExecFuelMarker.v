(* The program-level marker theorem of Proofs/C04MarkerProofs.v (M_marker) without the "or out of fuel" disjunct,
   under the bound on the fuel measure (Proofs/ExecFuelLower.v program_scalar_exact_cost).  Substituting the hostile
   string changes neither the number of data entries nor the tree, so one bound serves every h. *)
From PV Require Import Base.Bytes Base.Escape Js.Ast Tmpl.Value Tmpl.IR Tmpl.Runtime Tmpl.Exec Pug.Ast Pug.Lower
  Spec.Sem Proofs.C01EvalProofs Proofs.C02InstProofs Proofs.C04MarkerProofs Run.Judge_Core
  Proofs.ExecFuelProofs Proofs.ExecFuelPure Proofs.ExecFuelInst Proofs.ExecFuelLower.
Require Import Lia.

Lemma dwidth_scalars l : forallb (fun kv => scalar_d (snd kv)) l = true -> dwidth (DMap l) = length l.
Proof.
  intros H. cbn [dwidth].
  assert (Hz : list_max (map (fun kx : bytes * dval => dwidth (snd kx)) l) = 0).
  { induction l as [|[k d] r IH]; [reflexivity|]. cbn [forallb snd] in H. apply andb_prop in H. destruct H as [Hd Hr].
    cbn [map list_max fold_right snd]. fold (list_max (map (fun kx : bytes * dval => dwidth (snd kx)) r)). rewrite (IH Hr).
    destruct d; try discriminate Hd; reflexivity. }
  rewrite Hz. lia.
Qed.

Lemma dwidth_dset T h l :
  forallb (fun kv => scalar_d (snd kv)) l = true -> dwidth (DMap (dset T h l)) = dwidth (DMap l).
Proof.
  intros H. rewrite (dwidth_scalars _ (dset_scalar T h l H)), (dwidth_scalars l H). unfold dset. apply map_length.
Qed.

Local Strategy opaque [exec_fuel while_cap].
Theorem marker_exact funcs names T nodes t l :
  lower_nodes funcs (goodS funcs names) nodes = Some t -> safe_list T nodes = true ->
  data_ok names (DMap l) = true ->
  Nat.leb (cost_nodes (rounds (length l)) t) exec_fuel = true ->
  exists r, forall h,
    sem_run nodes (sd_top (DMap (dset T h l))) = finst h r /\
    match r with
    | FOut cs [] => run_program {| p_main := t; p_defs := [] |} (DMap (dset T h l)) = OOk (fill_holes (escape h) cs)
    | FErr [] => run_program {| p_main := t; p_defs := [] |} (DMap (dset T h l)) = OPanic
    | _ => True
    end.
Proof.
  intros Hl Hs Hd Hc.
  assert (Hsc : forallb (fun kv => scalar_d (snd kv)) l = true).
  { cbn [data_ok] in Hd. apply andb_prop in Hd. destruct Hd as [He _]. exact (entries_scalar l He). }
  destruct (S_marker T nodes l Hs Hsc) as [r Hr]. exists r. intros h. split; [apply Hr|].
  assert (Hc' : Nat.leb (cost_nodes (rounds (dwidth (DMap (dset T h l)))) t) exec_fuel = true).
  { rewrite (dwidth_dset T h l Hsc), (dwidth_scalars l Hsc). exact Hc. }
  pose proof (program_scalar_exact_cost funcs names nodes t (DMap (dset T h l)) Hl (dset_data_ok names T h l Hd) Hc') as Hp.
  rewrite (Hr h) in Hp. destruct r as [cs [|k fl]|[|k fl]| |]; cbn [finst] in Hp; try exact I; exact Hp.
Qed.
